import DimodProofs.VarsRelabel

/-! `remove`, and the step / history refinement theorems of the `Variables` model. -/

namespace VState
open LSpec (lookup subst dictOf relabelOk)

/-! ### remove -/

theorem erase_getElem_of_nodup {α : Type} [DecidableEq α] :
    ∀ (l : List α) (i : Nat) (h : i < l.length), l.Nodup → l.erase l[i] = l.eraseIdx i
  | [], i, h, _ => by simp at h
  | a :: t, 0, _, _ => by simp
  | a :: t, j + 1, h, hn => by
    have hn' := List.nodup_cons.1 hn
    have hj : j < t.length := by simpa using h
    have hne : a ≠ t[j] := fun e => hn'.1 (e ▸ List.getElem_mem hj)
    simp only [List.getElem_cons_succ, List.eraseIdx_cons_succ]
    rw [List.erase_cons_tail (by simpa using hne), erase_getElem_of_nodup t j hj hn'.2]

/-- the chain mapping `_remove` builds: every label after position `vi` moves one place down -/
def chain (s : VState) (vi : Nat) : Dict :=
  (List.range (s.stop - 1 - vi)).map fun k => (s.labelAt (vi + k), s.labelAt (vi + k + 1))

theorem remove_eq (s : VState) (v : Label) :
    s.remove v = if s.count v = false then none else if s.stop = 0 then none
      else s.popState.relabel (chain s (s.idxOf v)) := by
  unfold remove
  rw [pop_eq]
  cases s.count v
  · simp
  · simp only [Bool.not_true, Bool.false_eq_true, if_false, Bool.true_eq_false]
    by_cases h0 : s.stop = 0
    · simp [h0]
    · simp only [h0, if_false]; rfl

theorem popState_abs_map (s : VState) : s.popState.abs = (List.range (s.stop - 1)).map s.labelAt := by
  unfold abs
  show List.map s.popState.labelAt (List.range (s.stop - 1)) = _
  apply List.map_congr_left
  intro i hi
  have : i < s.stop - 1 := List.mem_range.mp hi
  have : s.stop - 1 ≠ i := by omega
  simp [labelAt, popState, AMap.get?_erase, this]

theorem remove_spec (s : VState) (hI : s.Inv) (v : Label) :
    (v ∈ s.abs → ∃ s', s.remove v = some s' ∧ s'.Inv ∧ s'.abs = s.abs.erase v) ∧
    (v ∉ s.abs → s.remove v = none) := by
  rw [remove_eq]
  constructor
  · intro hv
    have hc := (s.count_iff hI v).2 hv
    obtain ⟨hvi, hvl⟩ := hI.idxOf_spec hv
    have h0 : s.stop ≠ 0 := by omega
    rw [hc, if_neg (by simp), if_neg h0]
    generalize s.idxOf v = vi at hvi hvl
    have hI' := popState_inv s hI h0
    have hinj : ∀ i j, i < s.stop → j < s.stop → s.labelAt i = s.labelAt j → i = j :=
      fun i j hi hj e => hI.labelAt_inj hi hj e
    -- the chain mapping
    have hkeys : (keys (chain s vi)).Nodup := by
      simp only [keys, chain, List.map_map, List.Nodup, List.pairwise_map]
      refine List.Pairwise.imp_of_mem ?_ (List.nodup_range (n := s.stop - 1 - vi))
      intro a b ha hb hab e
      have ha' := List.mem_range.1 ha
      have hb' := List.mem_range.1 hb
      exact hab (by have := hinj _ _ (by omega) (by omega) e; omega)
    have hvals : (vals (chain s vi)).Nodup := by
      simp only [vals, chain, List.map_map, List.Nodup, List.pairwise_map]
      refine List.Pairwise.imp_of_mem ?_ (List.nodup_range (n := s.stop - 1 - vi))
      intro a b ha hb hab e
      have ha' := List.mem_range.1 ha
      have hb' := List.mem_range.1 hb
      exact hab (by have := hinj _ _ (by omega) (by omega) e; omega)
    have hmemc : ∀ p, p ∈ chain s vi ↔ ∃ k, k < s.stop - 1 - vi ∧ p = (s.labelAt (vi + k), s.labelAt (vi + k + 1)) := by
      intro p
      simp only [chain, List.mem_map, List.mem_range]
      constructor
      · rintro ⟨k, hk, e⟩; exact ⟨k, hk, e.symm⟩
      · rintro ⟨k, hk, e⟩; exact ⟨k, hk, e.symm⟩
    have hok : relabelOk (chain s vi) s.popState.abs = true := by
      rw [relabelOk_iff _ hkeys]
      refine ⟨hvals, ?_⟩
      intro w hw hmem
      obtain ⟨k0, hm⟩ := exists_of_mem_vals hw
      obtain ⟨k, hk, e⟩ := (hmemc _).1 hm
      simp only [Prod.mk.injEq] at e
      rw [popState_abs_map] at hmem
      obtain ⟨j, hj, e'⟩ := List.mem_map.1 hmem
      have hj' := List.mem_range.1 hj
      have : j = vi + k + 1 := hinj _ _ (by omega) (by omega) (e'.trans e.2)
      apply mem_keys_of_mem (v := s.labelAt (vi + (k + 1) + 1))
      rw [hmemc]
      exact ⟨k + 1, by omega, by rw [e.2]; rfl⟩
    obtain ⟨s', hs', hI'', ha''⟩ := (relabel_spec s.popState hI' (chain s vi) hkeys).1 hok
    refine ⟨s', hs', hI'', ?_⟩
    rw [ha'', dictOf_eq_self _ hkeys]
    -- list computation
    have hvi' : vi < s.abs.length := by rw [abs_length]; exact hvi
    have hv' : v = s.abs[vi] := by
      have := s.abs_getElem? vi
      rw [if_pos hvi, List.getElem?_eq_getElem hvi'] at this
      simp at this; rw [this, hvl]
    rw [hv', erase_getElem_of_nodup _ _ hvi' (abs_nodup s hI)]
    apply List.ext_getElem?
    intro i
    rw [List.getElem?_eraseIdx, popState_abs_map]
    simp only [subst, List.getElem?_map, abs_getElem?]
    by_cases hi : i < s.stop - 1
    · rw [List.getElem?_range hi]
      simp only [Option.map_some]
      by_cases hlt : i < vi
      · have : lookup (chain s vi) (s.labelAt i) = none := by
          rw [lookup_eq_none_iff]
          intro hm
          obtain ⟨w, hm⟩ := exists_of_mem_keys hm
          obtain ⟨k, hk, e⟩ := (hmemc _).1 hm
          simp only [Prod.mk.injEq] at e
          have := hinj _ _ (by omega) (by omega) e.1
          omega
        simp [this, hlt, show i < s.stop by omega]
      · have : lookup (chain s vi) (s.labelAt i) = some (s.labelAt (i + 1)) := by
          apply lookup_of_mem hkeys
          rw [hmemc]
          exact ⟨i - vi, by omega, by rw [show vi + (i - vi) = i by omega]⟩
        simp [this, hlt, show i + 1 < s.stop by omega]
    · rw [List.getElem?_eq_none (by simpa using hi)]
      have : ¬ i < vi := by omega
      simp [this, show ¬ i + 1 < s.stop by omega]
  · intro hv
    have hc := (s.count_eq_false_iff hI v).2 hv
    simp [hc]


/-! ### every step refines the list specification -/

/-- Well-formed operations: the key/value literal of a `relabel` has pairwise distinct keys
    (it is the item list of a Python dict).  For a literal with a repeated key the model (which
    walks the literal) and the specification (which first builds the dict) disagree, see
    `relabel_dupkey_counterexample`. -/
def Op.WF : Op → Prop
  | .relabel m => (m.map Prod.fst).Nodup
  | _ => True

instance : DecidablePred Op.WF := fun op => by
  cases op <;> unfold Op.WF <;> infer_instance

theorem step_refines (s : VState) (h : s.Inv) (op : Op) (hop : op.WF) :
    (s.step op).1.Inv ∧ ((s.step op).1.abs, (s.step op).2) = LSpec.step s.abs op := by
  cases op with
  | append v p =>
    cases v with
    | none =>
      simp only [step, appendP, LSpec.step]
      have hf := autoLabel_fresh s h
      exact ⟨append_inv s h _ hf, by rw [abs_append s h _ hf, autoLabel_eq s h]⟩
    | some v =>
      simp only [step, appendP, LSpec.step]
      by_cases hv : v ∈ s.abs
      · have hc := (s.count_iff h v).2 hv
        simp only [hc, if_true, hv]
        cases p <;> exact ⟨h, rfl⟩
      · have hc := (s.count_eq_false_iff h v).2 hv
        simp only [hc, Bool.false_eq_true, if_false, hv]
        exact ⟨append_inv s h v hv, by rw [abs_append s h v hv]⟩
  | pop =>
    simp only [step, LSpec.step, pop_eq, abs_eq_nil_iff]
    by_cases h0 : s.stop = 0
    · simp only [h0, if_true]; exact ⟨h, trivial⟩
    · simp only [h0, if_false]
      exact ⟨popState_inv s h h0, by rw [popState_abs_dropLast s h0]⟩
  | clear =>
    simp only [step, LSpec.step]
    exact ⟨inv_empty, by rw [abs_empty]⟩
  | relabel m =>
    have hk : (keys m).Nodup := hop
    obtain ⟨h1, h2⟩ := relabel_spec s h m hk
    simp only [step, LSpec.step]
    cases hr : relabelOk m s.abs with
    | true =>
      obtain ⟨s', hs', hI', ha'⟩ := h1 hr
      simp only [hs', if_true]
      exact ⟨hI', by rw [ha']⟩
    | false =>
      simp only [h2 hr, Bool.false_eq_true, if_false]
      exact ⟨h, trivial⟩
  | relabelInts =>
    simp only [step, LSpec.step]
    exact ⟨relabelAsIntegers_inv s, by rw [relabelAsIntegers_abs]⟩
  | remove v =>
    obtain ⟨h1, h2⟩ := remove_spec s h v
    simp only [step, LSpec.step]
    by_cases hv : v ∈ s.abs
    · obtain ⟨s', hs', hI', ha'⟩ := h1 hv
      simp only [hs', hv, if_true]
      exact ⟨hI', by rw [ha']⟩
    · simp only [h2 hv, hv, if_false]
      exact ⟨h, trivial⟩

/-! ### histories -/

/-- one step of the side-by-side run: model state, specification list, recorded flag pairs -/
def bothStep (st : VState × List Label × List (Bool × Bool)) (op : Op) :
    VState × List Label × List (Bool × Bool) :=
  ((st.1.step op).1, (LSpec.step st.2.1 op).1, st.2.2 ++ [((st.1.step op).2, (LSpec.step st.2.1 op).2)])

theorem foldl_bothStep (ops : List Op) : ∀ (st : VState × List Label × List (Bool × Bool)),
    st.1.Inv → st.1.abs = st.2.1 → (∀ p ∈ st.2.2, p.1 = p.2) → (∀ op ∈ ops, op.WF) →
    (ops.foldl bothStep st).1.Inv ∧ (ops.foldl bothStep st).1.abs = (ops.foldl bothStep st).2.1 ∧
      ∀ p ∈ (ops.foldl bothStep st).2.2, p.1 = p.2 := by
  induction ops with
  | nil => intro st h1 h2 h3 _; exact ⟨h1, h2, h3⟩
  | cons op ops ih =>
    intro st h1 h2 h3 hwf
    simp only [List.foldl_cons]
    have hs := step_refines st.1 h1 op (hwf op List.mem_cons_self)
    rw [h2] at hs
    have he := hs.2
    apply ih
    · exact hs.1
    · show (st.1.step op).1.abs = (LSpec.step st.2.1 op).1
      rw [← he]
    · intro p hp
      simp only [bothStep, List.mem_append, List.mem_singleton] at hp
      rcases hp with hp | rfl
      · exact h3 p hp
      · show (st.1.step op).2 = (LSpec.step st.2.1 op).2
        rw [← he]
    · exact fun op' h' => hwf op' (List.mem_cons_of_mem _ h')

/-- any history from the empty object: the invariant holds, iteration yields the specification
    list, and every call returned/raised exactly as the specification says -/
theorem history_refines_flags (ops : List Op) (hwf : ∀ op ∈ ops, op.WF) :
    let r := ops.foldl bothStep (empty, [], [])
    r.1.Inv ∧ r.1.abs = r.2.1 ∧ ∀ p ∈ r.2.2, p.1 = p.2 :=
  foldl_bothStep ops (empty, [], []) inv_empty abs_empty (by simp) hwf

theorem history_refines (ops : List Op) (hwf : ∀ op ∈ ops, op.WF) :
    let r := ops.foldl (fun st op => ((st.1.step op).1, (LSpec.step st.2 op).1)) (empty, [])
    r.1.Inv ∧ r.1.abs = r.2 := by
  have gen : ∀ (ops : List Op) (st : VState × List Label), st.1.Inv → st.1.abs = st.2 →
      (∀ op ∈ ops, op.WF) →
      (ops.foldl (fun st op => ((st.1.step op).1, (LSpec.step st.2 op).1)) st).1.Inv ∧
      (ops.foldl (fun st op => ((st.1.step op).1, (LSpec.step st.2 op).1)) st).1.abs =
        (ops.foldl (fun st op => ((st.1.step op).1, (LSpec.step st.2 op).1)) st).2 := by
    intro ops
    induction ops with
    | nil => intro st h1 h2 _; exact ⟨h1, h2⟩
    | cons op ops ih =>
      intro st h1 h2 hwf
      simp only [List.foldl_cons]
      have hs := step_refines st.1 h1 op (hwf op List.mem_cons_self)
      rw [h2] at hs
      apply ih
      · exact hs.1
      · show (st.1.step op).1.abs = (LSpec.step st.2 op).1
        rw [← hs.2]
      · exact fun op' h' => hwf op' (List.mem_cons_of_mem _ h')
  exact gen ops (empty, []) inv_empty abs_empty hwf

/-! ### literals with repeated keys -/

theorem keys_dictOf_nodup (m : Dict) : (keys (dictOf m)).Nodup := by
  have gen : ∀ (m d : Dict), (keys d).Nodup →
      (keys (m.foldl (fun d p => dictSet d p.1 p.2) d)).Nodup := by
    intro m
    induction m with
    | nil => intro d h; exact h
    | cons p t ih =>
      intro d h
      simp only [List.foldl_cons]
      apply ih
      by_cases hp : p.1 ∈ keys d
      · have : keys (dictSet d p.1 p.2) = keys d := by
          clear h ih
          induction d with
          | nil => simp at hp
          | cons q d ihd =>
            simp only [dictSet]
            by_cases hq : q.1 = p.1
            · simp [hq]
            · simp only [hq, if_false, keys_cons]
              rw [ihd]
              simpa [Ne.symm hq] using hp
        rw [this]; exact h
      · rw [dictSet_of_not_mem _ _ _ hp]
        simp only [keys_append, keys_cons, keys_nil]
        rw [List.nodup_append]
        refine ⟨h, by simp, ?_⟩
        intro a ha b hb e
        simp at hb; subst hb; subst e; exact hp ha
  exact gen m [] (by simp)

theorem dictOf_idem (m : Dict) : dictOf (dictOf m) = dictOf m :=
  dictOf_eq_self _ (keys_dictOf_nodup m)

/-- For an arbitrary literal (repeated keys allowed) the model run on the Python dict of the
    literal refines the specification run on the literal. -/
theorem step_relabel_dictOf_refines (s : VState) (h : s.Inv) (m : Dict) :
    (s.step (.relabel (dictOf m))).1.Inv ∧
      ((s.step (.relabel (dictOf m))).1.abs, (s.step (.relabel (dictOf m))).2) =
        LSpec.step s.abs (.relabel m) := by
  have := step_refines s h (.relabel (dictOf m)) (keys_dictOf_nodup m)
  refine ⟨this.1, ?_⟩
  rw [this.2]
  simp only [LSpec.step, relabelOk, dictOf_idem]
  rfl

end VState
