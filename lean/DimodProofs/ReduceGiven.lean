import DimodProofs.BKLabels

/-! # C15: `make_quadratic` onto a given model (`_init_quadratic_model`, `change_vartype`), freshness of
    the introduced names with respect to the given model's variables (core Lean only) -/

namespace Red
open Pen

/-! ## the product names avoid every label the run started with -/

theorem products_fresh_fold (choices : List Pair) (s0 : BK) (vars0 : List Label)
    (hv : s0.vars = vars0 ++ s0.constraints.map (·.2))
    (h0 : (s0.constraints.map (·.2)).Nodup ∧ ∀ c ∈ s0.constraints, c.2 ∉ vars0)
    (s : BK) (h : choices.foldlM bkStep s0 = some s) :
    s.vars = vars0 ++ s.constraints.map (·.2) ∧ (s.constraints.map (·.2)).Nodup ∧ ∀ c ∈ s.constraints, c.2 ∉ vars0 := by
  induction choices generalizing s0 with
  | nil => simp only [List.foldlM_nil, pure, Option.some.injEq] at h; subst h; exact ⟨hv, h0⟩
  | cons c r ih =>
    simp only [List.foldlM_cons, bind, Option.bind] at h
    cases hs : bkStep s0 c with
    | none => rw [hs] at h; simp at h
    | some s1 =>
      rw [hs] at h
      obtain ⟨_, _, _, hcons, hvars⟩ := bkStep_spec s0 c s1 hs
      have hfresh0 := newProduct_fresh s0.vars c.1 c.2
      have key : ∀ w, w ∈ s0.vars ↔ (w ∈ vars0 ∨ w ∈ s0.constraints.map (·.2)) := by
        intro w; rw [hv, List.mem_append]
      have hfresh : newProduct s0.vars c.1 c.2 ∉ vars0 ∧ newProduct s0.vars c.1 c.2 ∉ s0.constraints.map (·.2) :=
        ⟨fun hm => hfresh0 ((key _).2 (Or.inl hm)), fun hm => hfresh0 ((key _).2 (Or.inr hm))⟩
      apply ih s1 _ _ h
      · rw [hvars, hcons, hv]; simp
      · rw [hcons]
        simp only [List.map_append, List.map_cons, List.map_nil]
        refine ⟨?_, ?_⟩
        · rw [List.nodup_append]
          refine ⟨h0.1, by simp, ?_⟩
          intro a ha b hb
          simp only [List.mem_singleton] at hb
          subst hb
          intro hab; subst hab
          exact hfresh.2 ha
        · intro c' hc'
          simp only [List.mem_append, List.mem_singleton] at hc'
          rcases hc' with hc' | rfl
          · exact h0.2 c' hc'
          · exact hfresh.1

/-- the product variables `reduce_binary_polynomial` introduces are pairwise distinct and none of them is
    one of the labels `vars` the reduction was told about (the polynomial's and the given model's) -/
theorem bkReduce_products_fresh (poly : List (LTerm × Rat)) (vars : List Label) (choices : List Pair) (s : BK)
    (h : bkReduce poly vars choices = some s) :
    (s.constraints.map (·.2)).Nodup ∧ ∀ c ∈ s.constraints, c.2 ∉ vars := by
  have := products_fresh_fold choices (BK.init poly vars) vars (by simp [BK.init]) (by simp [BK.init]) s h
  exact this.2

/-! ## `change_vartype` in closed form keeps the energy function -/

theorem evalBag_lin_binary (x : Label → Rat) (l : List (Label × Rat)) :
    evalBag x (l.flatMap fun p => [PTerm.lin p.1 (2 * p.2), PTerm.const (-p.2)]) = Bq.linSum (convSample .binary x) l := by
  induction l with
  | nil => rfl
  | cons p r ih =>
    obtain ⟨v, c⟩ := p
    simp only [List.flatMap_cons, List.cons_append, List.nil_append, evalBag, PTerm.eval, Bq.linSum, ih, convSample]
    try grind

theorem evalBag_quad_binary (x : Label → Rat) (l : List ((Label × Label) × Rat)) :
    evalBag x (l.flatMap fun p => [PTerm.quad p.1.1 p.1.2 (4 * p.2), PTerm.lin p.1.1 (-2 * p.2), PTerm.lin p.1.2 (-2 * p.2), PTerm.const p.2])
      = Bq.quadSum (convSample .binary x) l := by
  induction l with
  | nil => rfl
  | cons p r ih =>
    obtain ⟨⟨u, v⟩, c⟩ := p
    simp only [List.flatMap_cons, List.cons_append, List.nil_append, evalBag, PTerm.eval, Bq.quadSum, ih, convSample]
    try grind

theorem evalBag_lin_spin (x : Label → Rat) (l : List (Label × Rat)) :
    evalBag x (l.flatMap fun p => [PTerm.lin p.1 (p.2 / 2), PTerm.const (p.2 / 2)]) = Bq.linSum (convSample .spin x) l := by
  induction l with
  | nil => rfl
  | cons p r ih =>
    obtain ⟨v, c⟩ := p
    simp only [List.flatMap_cons, List.cons_append, List.nil_append, evalBag, PTerm.eval, Bq.linSum, ih, convSample]
    try grind

theorem evalBag_quad_spin (x : Label → Rat) (l : List ((Label × Label) × Rat)) :
    evalBag x (l.flatMap fun p => [PTerm.quad p.1.1 p.1.2 (p.2 / 4), PTerm.lin p.1.1 (p.2 / 4), PTerm.lin p.1.2 (p.2 / 4), PTerm.const (p.2 / 4)])
      = Bq.quadSum (convSample .spin x) l := by
  induction l with
  | nil => rfl
  | cons p r ih =>
    obtain ⟨⟨u, v⟩, c⟩ := p
    simp only [List.flatMap_cons, List.cons_append, List.nil_append, evalBag, PTerm.eval, Bq.quadSum, ih, convSample]
    try grind

/-- the rebuilt model, evaluated at a sample of the target vartype, is the original model evaluated at the
    corresponding sample of the original vartype (a polynomial identity: no domain hypothesis) -/
theorem convBag_eval (target : VT) (b : Bq Label) (x : Label → Rat) :
    evalBag x (convBag target b) = b.energy (convSample target x) := by
  cases target with
  | binary =>
    simp only [convBag, evalBag, PTerm.eval, evalBag_append, evalBag_lin_binary, evalBag_quad_binary, Bq.energy]
  | spin =>
    simp only [convBag, evalBag, PTerm.eval, evalBag_append, evalBag_lin_spin, evalBag_quad_spin, Bq.energy]

theorem changeVartype_vt (b : Bq Label) (vt : VT) : (changeVartype b vt).vt = vt := by
  unfold changeVartype
  split
  · assumption
  · rw [vt_apply]; rfl

/-- what the given model contributes, at a sample `x` of the result's vartype -/
def givenEnergy (g : Option (Bq Label)) (vt : VT) (x : Label → Rat) : Rat :=
  match g with
  | none => 0
  | some g => if g.vt = vt then g.energy x else g.energy (convSample vt x)

theorem changeVartype_energy (b : Bq Label) (vt : VT) (x : Label → Rat) (hx : Dom vt x) :
    (changeVartype b vt).energy x = givenEnergy (some b) vt x := by
  simp only [givenEnergy]
  unfold changeVartype
  by_cases hb : b.vt = vt
  · simp [hb]
  · simp only [hb, if_false]
    rw [apply_energy _ x (by exact hx), convBag_eval]
    simp only [Bq.empty, Bq.energy, Bq.linSum, Bq.quadSum]
    grind

/-- the labels of the rebuilt model are those of the original -/
theorem initQuadraticModel_spec (g : Option (Bq Label)) (vtArg : Option VT) (b : Bq Label) (vt : VT)
    (h : initQuadraticModel g vtArg = some (b, vt)) :
    b.vt = vt ∧ (∀ v, vtArg = some v → vt = v) ∧ (vtArg = none → ∃ g', g = some g' ∧ g'.vt = vt)
    ∧ ∀ x, Dom vt x → b.energy x = givenEnergy g vt x := by
  unfold initQuadraticModel at h
  split at h
  · simp at h
  · simp only [Option.some.injEq, Prod.mk.injEq] at h
    obtain ⟨hb, hvt⟩ := h
    subst hb; subst hvt
    refine ⟨rfl, ?_, ?_, ?_⟩
    · intro v hv; cases hv
    · intro _; exact ⟨_, rfl, rfl⟩
    · intro x _; simp [givenEnergy]
  · simp only [Option.some.injEq, Prod.mk.injEq] at h
    obtain ⟨hb, hvt⟩ := h
    subst hb; subst hvt
    refine ⟨rfl, ?_, ?_, ?_⟩
    · intro v hv; cases hv; rfl
    · intro hv; cases hv
    · intro x _
      simp only [givenEnergy, Bq.empty, Bq.energy, Bq.linSum, Bq.quadSum]; grind
  · simp only [Option.some.injEq, Prod.mk.injEq] at h
    obtain ⟨hb, hvt⟩ := h
    subst hb; subst hvt
    refine ⟨changeVartype_vt _ _, ?_, ?_, ?_⟩
    · intro v hv; cases hv; rfl
    · intro hv; cases hv
    · intro x hx
      exact changeVartype_energy _ _ x hx

/-- **`make_quadratic(poly, strength, vartype, bqm)`**: the result has the requested vartype (the given
    model's when none is requested), and at every sample of that vartype its energy is the given model's
    energy — converted when the vartypes differ — plus the value of the calls `make_quadratic` makes -/
theorem makeQuadraticOnto_spec (g : Option (Bq Label)) (vtArg : Option VT) (strength : Rat) (raw : List (List Label × Rat))
    (choices : List Pair) (res : Bq Label) (vt : VT) (bag : List (PTerm Label)) (st : BK) (auxs : List Label)
    (h : makeQuadraticOnto g vtArg strength raw choices = some (res, vt, bag, st, auxs)) :
    res.vt = vt ∧ (∀ v, vtArg = some v → vt = v) ∧ (vtArg = none → ∃ g', g = some g' ∧ g'.vt = vt)
    ∧ (∃ b, initQuadraticModel g vtArg = some (b, vt) ∧ makeQuadratic (b.lin.map (·.1)) vt strength raw choices = some (bag, st, auxs))
    ∧ ∀ x, Dom vt x → res.energy x = givenEnergy g vt x + evalBag x bag := by
  unfold makeQuadraticOnto at h
  split at h
  · simp at h
  · rename_i b vt' hinit
    split at h
    · simp at h
    · rename_i bag' st' auxs' hmq
      simp only [Option.some.injEq, Prod.mk.injEq] at h
      obtain ⟨rfl, rfl, rfl, rfl, rfl⟩ := h
      obtain ⟨h1, h2, h3, h4⟩ := initQuadraticModel_spec g vtArg b vt' hinit
      refine ⟨by rw [vt_apply]; exact h1, h2, h3, ⟨b, hinit, hmq⟩, ?_⟩
      intro x hx
      rw [apply_energy b x (by rw [h1]; exact hx), h4 x hx]

end Red
