import DimodModel.CqmLegacy
import DimodProofs.ContainerProofs

/-! # The legacy CQM layout: the loader applied to a legacy archive gives back every member model
    and every constraint attribute -/

namespace FileFmt

/-! ## directories of an archive, generically -/

/-- a directory: its name and its members, all named `constraints/<name>/<file>` -/
def DirOK (d : List Char × Archive) : Prop :=
  pathSafe d.1 ∧ d.1 ≠ [] ∧ d.2 ≠ [] ∧ ∀ m ∈ d.2, ∃ f, m.1 = constraintPath d.1 f

def DirsOKg (ds : List (List Char × Archive)) : Prop := (∀ d ∈ ds, DirOK d) ∧ (ds.map (·.1)).Nodup

theorem read_dir_member : ∀ (ds : List (List Char × Archive)), DirsOKg ds → ∀ d ∈ ds, ∀ f : List Char,
    Archive.read ((ds.map (·.2)).flatten) (constraintPath d.1 f) = Archive.read d.2 (constraintPath d.1 f)
  | [], _, d, hd, _ => by simp at hd
  | d0 :: rest, hok, d, hd, f => by
    have hok' : DirsOKg rest := ⟨fun x hx => hok.1 x (by simp [hx]), (List.nodup_cons.mp (by simpa using hok.2)).2⟩
    have hnd := List.nodup_cons.mp (show (d0.1 :: rest.map (·.1)).Nodup by simpa using hok.2)
    simp only [List.map_cons, List.flatten_cons]
    have others : ∀ d' ∈ rest, ∀ m ∈ d'.2, d'.1 ≠ d.1 → m.1 ≠ constraintPath d.1 f := by
      intro d' hd' m hm hne hname
      obtain ⟨f', hf'⟩ := (hok.1 d' (by simp [hd'])).2.2.2 m hm
      rw [hf'] at hname
      exact hne (constraintPath_inj (hok.1 d' (by simp [hd'])).1 (hok.1 d hd).1 hname).1
    rcases List.mem_cons.mp hd with rfl | hin
    · cases hr : Archive.read d.2 (constraintPath d.1 f) with
      | ok b => exact read_append_found _ _ _ _ hr
      | ub => simp [Archive.read] at hr; split at hr <;> simp at hr
      | err e =>
        have hnone : ∀ m ∈ d.2, m.1 ≠ constraintPath d.1 f := by
          intro m hm hname
          unfold Archive.read at hr
          cases hf : d.2.find? (fun x => x.1 = constraintPath d.1 f) with
          | some x => rw [hf] at hr; simp at hr
          | none => have := List.find?_eq_none.mp hf m hm; simp [hname] at this
        rw [read_append_skip _ _ _ hnone]
        have hrest : ∀ m ∈ (rest.map (·.2)).flatten, m.1 ≠ constraintPath d.1 f := by
          intro m hm
          rw [List.mem_flatten] at hm
          obtain ⟨ms, hms, hmm⟩ := hm
          rw [List.mem_map] at hms
          obtain ⟨d', hd', rfl⟩ := hms
          exact others d' hd' m hmm (fun e => hnd.1 (by rw [← e]; exact List.mem_map_of_mem hd'))
        rw [read_absent _ _ hrest]
        have : e = .key := by
          unfold Archive.read at hr
          split at hr <;> simp at hr
          exact hr.symm
        rw [this]
    · have hskip : ∀ m ∈ d0.2, m.1 ≠ constraintPath d.1 f := by
        intro m hm hname
        obtain ⟨f', hf'⟩ := (hok.1 d0 (by simp)).2.2.2 m hm
        rw [hf'] at hname
        have := (constraintPath_inj (hok.1 d0 (by simp)).1 (hok.1 d (by simp [hin])).1 hname).1
        exact hnd.1 (by rw [this]; exact List.mem_map_of_mem hin)
      rw [read_append_skip _ _ _ hskip]
      exact read_dir_member rest hok' d hin f

theorem dedup_dirs_g : ∀ (ds : List (List Char × Archive)), DirsOKg ds →
    dedup (((ds.map (·.2)).flatten).filterMap fun m => matchConstraint m.1) = ds.map (·.1)
  | [], _ => rfl
  | d :: rest, hok => by
    have hok' : DirsOKg rest := ⟨fun x hx => hok.1 x (by simp [hx]), (List.nodup_cons.mp (by simpa using hok.2)).2⟩
    have hnd := List.nodup_cons.mp (show (d.1 :: rest.map (·.1)).Nodup by simpa using hok.2)
    have ih := dedup_dirs_g rest hok'
    obtain ⟨hs, hne, hms, hnames⟩ := hok.1 d (by simp)
    have hblock : d.2.filterMap (fun m => matchConstraint m.1) = List.replicate d.2.length d.1 := by
      apply filterMap_const
      intro m hm
      obtain ⟨f, hf⟩ := hnames m hm
      rw [hf]; exact matchConstraint_path _ _ hs hne
    obtain ⟨k, hk⟩ : ∃ k, d.2.length = k + 1 := ⟨d.2.length - 1, by have := List.length_pos_iff.mpr hms; omega⟩
    simp only [List.map_cons, List.flatten_cons, List.filterMap_append, hblock, hk, List.replicate_succ, List.cons_append, dedup]
    rw [dedup_filter_block, ih]
    congr 1
    rw [List.filter_eq_self]
    intro y hy
    simp only [ne_eq, decide_eq_true_eq]
    intro e
    exact hnd.1 (e ▸ hy)

/-! ## loading a member -/

theorem take_makeHeader (pre : Bytes) (maj min : UInt8) (text rest : Bytes) :
    (makeHeader pre maj min text ++ rest).take pre.length = pre := by
  simp [makeHeader, List.take_append_of_le_length]

/-- what the loader returns for a member, and the conditions under which it does -/
def MemberModel.loaded (labels : List J) : MemberModel J → LoadedModel J
  | .qm _ h vi c _ => .qm (qmResult h vi c labels)
  | .bqm maj _ h c _ => .bqm (bqmResult maj h c labels)

def MemberModel.OK (parse : Bytes → Option (QHeader J)) (parseVars : Bytes → Option (List J)) (labels : List J) : MemberModel J → Prop
  | .qm t h vi c vt => HeaderOK parse t h ∧ QmWF h vi c ∧ (h.vars.truthy = true → VarsOK parseVars vt labels)
  | .bqm maj t h c vt => maj.toNat < 3 ∧ HeaderOK parse t h ∧ BqmWF h c ∧ (maj.toNat < 2 → ∃ l, h.vars = .labels l) ∧
      (2 ≤ maj.toNat → h.vars.truthy = true → VarsOK parseVars vt labels)

theorem prefixes_differ : bqmPrefix.take qmPrefix.length ≠ qmPrefix := by decide

theorem loadModel_member (parse : Bytes → Option (QHeader J)) (parseVars : Bytes → Option (List J)) (labels : List J)
    (m : MemberModel J) (hm : m.OK parse parseVars labels) :
    loadModel true parse parseVars m.bytes = .ok (m.loaded labels) := by
  cases m with
  | qm t h vi c vt =>
    obtain ⟨hh, wf, hv⟩ := hm
    obtain ⟨_, _, hc⟩ := Comp.qm parse parseVars t vt h vi c labels hh wf hv
    have hfull := hc.full []
    rw [List.append_nil] at hfull
    unfold loadModel MemberModel.bytes MemberModel.loaded
    have hp : (qmEncode t h vi c vt).take qmPrefix.length = qmPrefix := by
      rw [qmEncode_eq]; exact take_makeHeader _ _ _ _ _
    simp only [hp, if_true, hfull]
  | bqm maj t h c vt =>
    obtain ⟨hmaj, hh, wf, hv1, hv2⟩ := hm
    obtain ⟨_, _, hc⟩ := Comp.bqm parse parseVars maj t vt h c labels hmaj hh wf hv1 hv2
    have hfull := hc.full []
    rw [List.append_nil] at hfull
    unfold loadModel MemberModel.bytes MemberModel.loaded
    have hp8 : (bqmEncode maj t h c vt).take bqmPrefix.length = bqmPrefix := by
      rw [bqmEncode_eq]; exact take_makeHeader _ _ _ _ _
    have hp7 : (bqmEncode maj t h c vt).take qmPrefix.length ≠ qmPrefix := by
      intro e
      have : ((bqmEncode maj t h c vt).take bqmPrefix.length).take qmPrefix.length = qmPrefix := by
        rw [List.take_take]; simpa [show min qmPrefix.length bqmPrefix.length = qmPrefix.length by decide] using e
      rw [hp8] at this
      exact prefixes_differ this
    simp only [hp7, if_false, hp8, if_true, hfull]

/-! ## the members of one legacy constraint -/

theorem legacy_member_names (c : LegacySrcConstraint J) : ∀ m ∈ legacyConstraintMembers c, ∃ f, m.1 = constraintPath c.lstr f := by
  intro m hm
  unfold legacyConstraintMembers at hm
  simp only [List.mem_append, List.mem_cons, List.not_mem_nil, or_false] at hm
  rcases hm with (rfl | rfl | rfl | rfl) | hs
  · exact ⟨_, rfl⟩
  · exact ⟨_, rfl⟩
  · exact ⟨_, rfl⟩
  · exact ⟨_, rfl⟩
  · split at hs
    · simp only [List.mem_cons, List.not_mem_nil, or_false] at hs
      rcases hs with rfl | rfl <;> exact ⟨_, rfl⟩
    · simp at hs

theorem legacy_members_ne (c : LegacySrcConstraint J) : legacyConstraintMembers c ≠ [] := by
  unfold legacyConstraintMembers; simp

theorem read_legacy_members (c : LegacySrcConstraint J) :
    Archive.read (legacyConstraintMembers c) (constraintPath c.lstr fLhs) = .ok c.lhs.bytes ∧
    Archive.read (legacyConstraintMembers c) (constraintPath c.lstr fRhs) = .ok c.rhs ∧
    Archive.read (legacyConstraintMembers c) (constraintPath c.lstr fSense) = .ok c.sense ∧
    Archive.read (legacyConstraintMembers c) (constraintPath c.lstr fDiscrete) = .ok [if c.discrete then 1 else 0] ∧
    Archive.read (legacyConstraintMembers c) (constraintPath c.lstr fWeight) =
      (match c.soft with | some (w, _) => .ok w | none => .err .key) ∧
    Archive.read (legacyConstraintMembers c) (constraintPath c.lstr fPenalty) =
      (match c.soft with | some (_, p) => .ok p | none => .err .key) := by
  obtain ⟨h1, h2, h3, h4, h5, h6, h7, h8, h9, h10, h11, h12, h13, h14, h15⟩ := files_ne
  have n1 := h1.symm; have n2 := h2.symm; have n3 := h3.symm; have n4 := h4.symm; have n5 := h5.symm
  have n6 := h6.symm; have n7 := h7.symm; have n8 := h8.symm; have n9 := h9.symm; have n10 := h10.symm
  have n11 := h11.symm; have n12 := h12.symm; have n13 := h13.symm; have n14 := h14.symm; have n15 := h15.symm
  unfold legacyConstraintMembers Archive.read
  cases hs : c.soft with
  | none => simp [List.find?, path_file_eq_iff, *]
  | some wp => obtain ⟨w, p⟩ := wp; simp [List.find?, path_file_eq_iff, *]

/-- what the loader makes of a source constraint -/
def LegacySrcConstraint.loaded (labels : List J) (c : LegacySrcConstraint J) : LegacyConstraint J :=
  { lstr := c.lstr, lhs := c.lhs.loaded labels, rhs := c.rhs, sense := c.sense, discrete := c.discrete, soft := c.soft }

structure LegacyConstraintWF (parse : Bytes → Option (QHeader J)) (parseVars : Bytes → Option (List J)) (labels : List J)
    (c : LegacySrcConstraint J) : Prop where
  rhs8 : c.rhs.length = 8
  soft8 : ∀ w p, c.soft = some (w, p) → w.length = 8
  lhs : c.lhs.OK parse parseVars labels

theorem legacyLoadConstraint_ok (parse : Bytes → Option (QHeader J)) (parseVars : Bytes → Option (List J))
    (okLabel : List Char → Bool) (a : Archive) (labels : List J) (c : LegacySrcConstraint J)
    (wf : LegacyConstraintWF parse parseVars labels c) (hok : okLabel c.lstr = true)
    (hread : ∀ f, Archive.read a (constraintPath c.lstr f) = Archive.read (legacyConstraintMembers c) (constraintPath c.lstr f)) :
    legacyLoadConstraint true parse parseVars okLabel a c.lstr = .ok (c.loaded labels) := by
  obtain ⟨r1, r2, r3, r4, r5, r6⟩ := read_legacy_members c
  unfold legacyLoadConstraint
  rw [hread fLhs, r1]
  simp only [Res.bind, loadModel_member parse parseVars labels c.lhs wf.lhs]
  rw [readF64_ok a _ c.rhs (by rw [hread, r2]) wf.rhs8]
  simp only
  rw [hread fSense, r3]
  simp only
  rw [hread fDiscrete, r4]
  simp only [hok, Bool.not_true, Bool.false_eq_true, if_false]
  have hdisc : ([if c.discrete then (1 : UInt8) else 0] : Bytes).any (· ≠ 0) = c.discrete := by
    cases c.discrete <;> decide
  cases hs : c.soft with
  | none =>
    rw [hs] at r5
    rw [readF64_key a _ (by rw [hread, r5])]
    simp only [hdisc, LegacySrcConstraint.loaded, hs]
  | some wp =>
    obtain ⟨w, p⟩ := wp
    rw [hs] at r5 r6
    rw [readF64_ok a _ w (by rw [hread, r5]) (wf.soft8 w p hs)]
    simp only
    rw [hread fPenalty, r6]
    simp only [hdisc, LegacySrcConstraint.loaded, hs]

theorem legacyLoadConstraints_ok (parse : Bytes → Option (QHeader J)) (parseVars : Bytes → Option (List J))
    (okLabel : List Char → Bool) (a : Archive) (lab : LegacySrcConstraint J → List J) :
    ∀ (cs : List (LegacySrcConstraint J)),
      (∀ c ∈ cs, legacyLoadConstraint true parse parseVars okLabel a c.lstr = .ok (c.loaded (lab c))) →
      legacyLoadConstraints true parse parseVars okLabel a (cs.map (·.lstr)) = .ok (cs.map fun c => c.loaded (lab c))
  | [], _ => rfl
  | c :: rest, h => by
    simp only [List.map_cons, legacyLoadConstraints, h c (by simp), Res.bind,
      legacyLoadConstraints_ok parse parseVars okLabel a lab rest (fun x hx => h x (by simp [hx]))]

/-- **the legacy CQM archive** (versions 1.0–1.3, the layout of the bundled files): `_from_file_legacy`
    applied to the members — `objective` and each `lhs` complete QM or BQM files — returns the
    objective model, and for every constraint directory the left-hand-side model, right-hand side,
    sense, discrete mark, weight and penalty, in the writer's order; provided the directory names
    are non-empty, `/`-free and pairwise different -/
theorem legacyDecode_members (parse : Bytes → Option (QHeader J)) (parseVars : Bytes → Option (List J))
    (okLabel : List Char → Bool) (obj : MemberModel J) (objLabels : List J) (cs : List (LegacySrcConstraint J))
    (lab : LegacySrcConstraint J → List J)
    (hobj : obj.OK parse parseVars objLabels)
    (hdirs : (∀ c ∈ cs, pathSafe c.lstr ∧ c.lstr ≠ []) ∧ (cs.map (·.lstr)).Nodup)
    (hcs : ∀ c ∈ cs, LegacyConstraintWF parse parseVars (lab c) c ∧ okLabel c.lstr = true) :
    legacyDecode true parse parseVars okLabel (legacyMembers obj cs) =
      .ok { objective := obj.loaded objLabels, constraints := cs.map fun c => c.loaded (lab c) } := by
  obtain ⟨_, _, z3⟩ := top_match_none
  -- the directories, generically
  let ds : List (List Char × Archive) := cs.map fun c => (c.lstr, legacyConstraintMembers c)
  have hds : DirsOKg ds := by
    constructor
    · intro d hd
      simp only [ds, List.mem_map] at hd
      obtain ⟨c, hc, rfl⟩ := hd
      exact ⟨(hdirs.1 c hc).1, (hdirs.1 c hc).2, legacy_members_ne c, legacy_member_names c⟩
    · simpa [ds, List.map_map, Function.comp_def] using hdirs.2
  have hflat : (cs.map legacyConstraintMembers).flatten = (ds.map (·.2)).flatten := by
    simp [ds, List.map_map, Function.comp_def]
  have hnames : ds.map (·.1) = cs.map (·.lstr) := by simp [ds, List.map_map, Function.comp_def]
  unfold legacyDecode legacyMembers
  rw [read_cons_eq]
  simp only [Res.bind, loadModel_member parse parseVars objLabels obj hobj]
  have hdirs' : constraintDirs ((nmObjective, obj.bytes) :: (cs.map legacyConstraintMembers).flatten) = cs.map (·.lstr) := by
    unfold constraintDirs
    simp only [List.filterMap_cons, z3]
    rw [hflat, dedup_dirs_g ds hds, hnames]
  rw [hdirs']
  have hload := legacyLoadConstraints_ok parse parseVars okLabel ((nmObjective, obj.bytes) :: (cs.map legacyConstraintMembers).flatten)
    lab cs (fun c hc => by
      refine legacyLoadConstraint_ok parse parseVars okLabel _ (lab c) c (hcs c hc).1 (hcs c hc).2 (fun f => ?_)
      rw [read_cons_ne _ _ (top_ne_path c.lstr f).2.2, hflat]
      exact read_dir_member ds hds (c.lstr, legacyConstraintMembers c) (by simp only [ds, List.mem_map]; exact ⟨c, hc, rfl⟩) f)
  rw [hload]

end FileFmt
