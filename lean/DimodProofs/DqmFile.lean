import DimodModel.DqmFile
import DimodProofs.ContainerProofs

/-! # DQM: `from_numpy_vectors (to_numpy_vectors dqm) = dqm` through the npz member list, and the
    whole file under the container contract -/

namespace FileFmt

/-! ## regrouping the triples -/

theorem triplesFrom_rows_ge (w : Nat) : ∀ (rows : List (List (Nat × Bytes))) (v : Nat), w ≤ v → ∀ t ∈ triplesFrom v rows, w ≤ t.1
  | [], _, _, t, ht => by simp [triplesFrom] at ht
  | row :: rows, v, hv, t, ht => by
    simp only [triplesFrom, List.mem_append, List.mem_map] at ht
    rcases ht with ⟨p, _, rfl⟩ | ht
    · exact hv
    · exact triplesFrom_rows_ge w rows (v + 1) (by omega) t ht

theorem filter_none {α : Type} (p : α → Bool) (l : List α) (h : ∀ x ∈ l, p x = false) : l.filter p = [] := by
  rw [List.filter_eq_nil_iff]; intro x hx; simp [h x hx]

theorem groupFrom_triples : ∀ (rows : List (List (Nat × Bytes))) (w : Nat) (pre : List (Nat × Nat × Bytes)),
    (∀ t ∈ pre, t.1 < w) → groupFrom (pre ++ triplesFrom w rows) w rows.length = rows
  | [], _, _, _ => rfl
  | row :: rows, w, pre, hpre => by
    simp only [List.length_cons, groupFrom, triplesFrom]
    have h1 : (pre.filter fun t => t.1 = w) = [] := filter_none _ _ (fun t ht => by have := hpre t ht; simp; omega)
    have h2 : ((triplesFrom (w + 1) rows).filter fun t => t.1 = w) = [] :=
      filter_none _ _ (fun t ht => by have := triplesFrom_rows_ge (w + 1) rows (w + 1) (Nat.le_refl _) t ht; simp; omega)
    have h3 : ((row.map fun p => (w, p.1, p.2)).filter fun t => t.1 = w) = row.map fun p => (w, p.1, p.2) := by
      rw [List.filter_eq_self]; intro t ht; simp only [List.mem_map] at ht; obtain ⟨p, _, rfl⟩ := ht; simp
    rw [List.filter_append, List.filter_append, h1, h2, h3, List.nil_append, List.append_nil, List.map_map]
    have h4 : (row.map ((fun t : Nat × Nat × Bytes => (t.2.1, t.2.2)) ∘ fun p => (w, p.1, p.2))) = row := by
      conv => rhs; rw [← List.map_id row]
      apply List.map_congr_left; intro p _; rfl
    rw [h4]
    congr 1
    have := groupFrom_triples rows (w + 1) (pre ++ row.map fun p => (w, p.1, p.2)) (by
      intro t ht
      rcases List.mem_append.mp ht with ht | ht
      · have := hpre t ht; omega
      · simp only [List.mem_map] at ht; obtain ⟨p, _, rfl⟩ := ht; simp)
    rwa [List.append_assoc] at this

/-! ## arrays -/

theorem descrSize_u (k : Nat) (hk : k = 2 ∨ k = 4 ∨ k = 8) : descrSize (descrU k) = some ('u', k) := by
  rcases hk with rfl | rfl | rfl <;> decide

theorem descrSize_f8 : descrSize descrF8 = some ('f', 8) := by decide

theorem indexSize_cases (n : Nat) : indexSize n = 2 ∨ indexSize n = 4 ∨ indexSize n = 8 := by
  unfold indexSize; split; · exact .inl rfl
  split; · exact .inr (.inl rfl)
  exact .inr (.inr rfl)

theorem indexSize_fits (n : Nat) (h : n < 2 ^ 64) : n ≤ 256 ^ indexSize n := by
  unfold indexSize
  split; · omega
  split; · omega
  omega

theorem intArray_enc (name : List Char) (k : Nat) (hk : k = 2 ∨ k = 4 ∨ k = 8) (vals : List Nat) (sh : List Nat)
    (hv : ∀ v ∈ vals, v < 256 ^ k) :
    intArray { name := name, descr := descrU k, shape := sh, data := (vals.map (toLE k)).flatten } = .ok (vals.map fun (v : Nat) => (v : Int)) := by
  have hk0 : 0 < k := by rcases hk with rfl | rfl | rfl <;> decide
  have hrecs : ∀ r ∈ vals.map (toLE k), r.length = k := by
    intro r hr; simp only [List.mem_map] at hr; obtain ⟨v, _, rfl⟩ := hr; exact toLE_length _ _
  have hlen := flatten_length_const hrecs
  have hch := chunksN_flatten hrecs []
  simp only [List.append_nil, List.length_map] at hch hlen
  unfold intArray
  simp only [descrSize_u k hk]
  have hne : ¬ k = 0 := by omega
  simp only [hne, if_false, if_true, hlen, Nat.mul_div_cancel_left _ hk0, hch, List.map_map]
  congr 1
  apply List.map_congr_left
  intro v hv'
  simp [Function.comp, leNat_toLE k v (hv v hv')]

theorem floatArray_enc (name : List Char) (vals : List Bytes) (sh : List Nat) (hv : ∀ b ∈ vals, b.length = 8) :
    floatArray { name := name, descr := descrF8, shape := sh, data := vals.flatten } = .ok vals := by
  have hlen := flatten_length_const hv
  have hch := chunksN_flatten hv []
  simp only [List.append_nil] at hch
  unfold floatArray
  simp [descrSize_f8, hlen, hch]

theorem zip3_map {α : Type} (l : List α) (f g : α → Int) (h : α → Bytes) :
    zip3 (l.map f) (l.map g) (l.map h) = l.map fun x => (f x, g x, h x) := by
  induction l with
  | nil => rfl
  | cons x t ih => simp [zip3, ih]

/-! ## the content `to_file` may assume -/

structure DqmWF (c : DqmContent) : Prop where
  nlow : c.lower.length = c.linear.length
  small : c.linear.length < 2 ^ 64
  lin : ∀ b ∈ c.linear, b.length = 8
  lower : LowerOK 8 0 c.lower
  /-- the loader's own validation of `case_starts` against the number of cases passes -/
  empty : ¬ (c.caseStarts.length = 0 ∧ c.linear.length ≠ 0)
  ends : ¬ (c.caseStarts.length ≠ 0 ∧ (((c.caseStarts.map fun (v : Nat) => (v : Int)).headD 0 ≠ 0) ∨
            (c.caseStarts.map fun (v : Nat) => (v : Int)).getLastD 0 ≥ (c.linear.length : Int)))
  ordered : startsBad c.linear.length (c.caseStarts.map fun (v : Nat) => (v : Int)) = false
  startsFit : ∀ v ∈ c.caseStarts, v < c.linear.length

theorem triplesFrom_bounds : ∀ (rows : List (List (Nat × Bytes))) (w : Nat), LowerOK 8 w rows →
    ∀ t ∈ triplesFrom w rows, t.1 < w + rows.length ∧ t.2.1 < t.1 ∧ t.2.2.length = 8
  | [], _, _, t, ht => by simp [triplesFrom] at ht
  | row :: rows, w, hok, t, ht => by
    simp only [triplesFrom, List.mem_append, List.mem_map] at ht
    simp only [List.length_cons]
    rcases ht with ⟨p, hp, rfl⟩ | ht
    · have := hok.1 p hp; exact ⟨by omega, this.1, this.2⟩
    · have := triplesFrom_bounds rows (w + 1) hok.2 t ht; exact ⟨by omega, this.2.1, this.2.2⟩

theorem names_distinct : nmCaseStarts ≠ nmLinear ∧ nmCaseStarts ≠ nmRow ∧ nmCaseStarts ≠ nmCol ∧ nmCaseStarts ≠ nmQuad ∧
    nmCaseStarts ≠ nmOffset ∧ nmLinear ≠ nmRow ∧ nmLinear ≠ nmCol ∧ nmLinear ≠ nmQuad ∧ nmLinear ≠ nmOffset ∧
    nmRow ≠ nmCol ∧ nmRow ≠ nmQuad ∧ nmRow ≠ nmOffset ∧ nmCol ≠ nmQuad ∧ nmCol ≠ nmOffset ∧ nmQuad ≠ nmOffset := by decide

theorem find_hit (m : NpyMember) (ms : List NpyMember) : findMember (m :: ms) m.name = some m := by
  simp [findMember, List.find?]

theorem find_skip (m : NpyMember) (ms : List NpyMember) (n : List Char) (h : m.name ≠ n) :
    findMember (m :: ms) n = findMember ms n := by
  simp [findMember, List.find?, h]

theorem find_members (c : DqmContent) :
    findMember (dqmMembers c) nmCaseStarts = some (mStarts c) ∧ findMember (dqmMembers c) nmLinear = some (mLinear c) ∧
    findMember (dqmMembers c) nmRow = some (mRow c) ∧ findMember (dqmMembers c) nmCol = some (mCol c) ∧
    findMember (dqmMembers c) nmQuad = some (mQuad c) ∧ findMember (dqmMembers c) nmOffset = some (mOffset c) := by
  obtain ⟨d1, d2, d3, d4, d5, d6, d7, d8, d9, d10, d11, d12, d13, d14, d15⟩ := names_distinct
  unfold dqmMembers
  refine ⟨find_hit (mStarts c) _, ?_, ?_, ?_, ?_, ?_⟩
  · rw [find_skip _ _ _ (show (mStarts c).name ≠ nmLinear from d1)]; exact find_hit (mLinear c) _
  · rw [find_skip _ _ _ (show (mStarts c).name ≠ nmRow from d2), find_skip _ _ _ (show (mLinear c).name ≠ nmRow from d6)]
    exact find_hit (mRow c) _
  · rw [find_skip _ _ _ (show (mStarts c).name ≠ nmCol from d3), find_skip _ _ _ (show (mLinear c).name ≠ nmCol from d7),
      find_skip _ _ _ (show (mRow c).name ≠ nmCol from d10)]
    exact find_hit (mCol c) _
  · rw [find_skip _ _ _ (show (mStarts c).name ≠ nmQuad from d4), find_skip _ _ _ (show (mLinear c).name ≠ nmQuad from d8),
      find_skip _ _ _ (show (mRow c).name ≠ nmQuad from d11), find_skip _ _ _ (show (mCol c).name ≠ nmQuad from d13)]
    exact find_hit (mQuad c) _
  · rw [find_skip _ _ _ (show (mStarts c).name ≠ nmOffset from d5), find_skip _ _ _ (show (mLinear c).name ≠ nmOffset from d9),
      find_skip _ _ _ (show (mRow c).name ≠ nmOffset from d12), find_skip _ _ _ (show (mCol c).name ≠ nmOffset from d14),
      find_skip _ _ _ (show (mQuad c).name ≠ nmOffset from d15)]
    exact find_hit (mOffset c) _

/-- **the DQM arrays**: `from_numpy_vectors` applied to the arrays `to_numpy_vectors` produced (as
    stored by `np.savez`) rebuilds case starts, every linear bias, every case interaction and the
    offset -/
theorem dqmFromMembers_members (c : DqmContent) (wf : DqmWF c) : dqmFromMembers (dqmMembers c) = .ok c := by
  obtain ⟨f1, f2, f3, f4, f5, f6⟩ := find_members c
  have hk := indexSize_cases c.linear.length
  have hfit := indexSize_fits c.linear.length wf.small
  have hb := triplesFrom_bounds c.lower 0 wf.lower
  simp only [Nat.zero_add, wf.nlow] at hb
  unfold dqmFromMembers
  rw [f1, f2, f3, f4, f5, f6]
  simp only [mStarts, mLinear, mRow, mCol, mQuad, mOffset]
  generalize hts : triplesFrom 0 c.lower = ts at hb
  rw [intArray_enc _ _ hk c.caseStarts _ (fun v hv => by have := wf.startsFit v hv; omega),
    floatArray_enc _ c.linear _ wf.lin,
    intArray_enc _ _ hk (ts.map (·.1)) _ (by
      intro v hv; simp only [List.mem_map] at hv; obtain ⟨t, ht, rfl⟩ := hv; have := hb t ht; omega),
    intArray_enc _ _ hk (ts.map (·.2.1)) _ (by
      intro v hv; simp only [List.mem_map] at hv; obtain ⟨t, ht, rfl⟩ := hv; have := hb t ht; omega),
    floatArray_enc _ (ts.map (·.2.2)) _ (by
      intro b hb'; simp only [List.mem_map] at hb'; obtain ⟨t, ht, rfl⟩ := hb'; exact (hb t ht).2.2)]
  simp only [Res.bind, List.map_map]
  unfold fromVectors
  simp only [List.length_map]
  rw [if_neg wf.empty, if_neg wf.ends]
  simp only [wf.ordered, Bool.false_eq_true, if_false, and_self, not_true_eq_false]
  have hz := zip3_map ts (fun t => ((t.1 : Nat) : Int)) (fun t => ((t.2.1 : Nat) : Int)) (fun t => t.2.2)
  simp only [Function.comp_def] at hz ⊢
  rw [hz]
  have hany : (ts.map fun x => (((x.1 : Nat) : Int), ((x.2.1 : Nat) : Int), x.2.2)).any (fun t =>
      t.1 < 0 || t.1 ≥ (c.linear.length : Int) || t.2.1 < 0 || t.2.1 ≥ (c.linear.length : Int) || t.1 = t.2.1) = false := by
    rw [List.any_eq_false]
    intro t ht
    simp only [List.mem_map] at ht
    obtain ⟨x, hx, rfl⟩ := ht
    have := hb x hx
    simp only [Bool.or_eq_true, decide_eq_true_eq, not_or]
    omega
  rw [hany]
  simp only [Bool.false_eq_true, if_false, List.map_map]
  have hst : (c.caseStarts.map (Int.toNat ∘ fun (v : Nat) => (v : Int))) = c.caseStarts := by
    conv => rhs; rw [← List.map_id c.caseStarts]
    apply List.map_congr_left; intro v _; simp
  have hts2 : (ts.map ((fun t : Int × Int × Bytes => (t.1.toNat, t.2.1.toNat, t.2.2)) ∘ fun x => (((x.1 : Nat) : Int), ((x.2.1 : Nat) : Int), x.2.2))) = ts := by
    conv => rhs; rw [← List.map_id ts]
    apply List.map_congr_left; intro t _; simp
  rw [hst, hts2]
  have hg := groupFrom_triples c.lower 0 [] (by simp)
  rw [List.nil_append, hts, wf.nlow] at hg
  rw [hg]

end FileFmt
