import DimodProofs.LpClosed
import DimodModel.LpReader

/-! C12: facts about the Lean model of the C++ LP reader (`DimodModel/LpReader.lean`).

* no label `_validate_label` accepts — `To` included — and no pair of such labels is read as a section keyword
  (one word, two words joined by a blank, two words joined by `-`), as `free` or as an infinity, over the keyword tables
  regenerated from `reader.cpp` / `def.hpp` and the label tables regenerated from `dimod/lp.py`;
* the refusals of `model_to_cqm`;
* a finite family of models for the end-to-end evaluation `LpCpp.loads (Lp.dumps m) = normCqm m`. -/

namespace LpCpp
open Lp Generated.LpKeywords Generated.LpLabels

deriving instance DecidableEq for Lp.LVar, Lp.LExpr, Lp.LCon, Lp.LCqm

theorem lowerAscii_eq_lowerStr (s : String) : lowerAscii s = lowerStr s := rfl

/-- no valid label character lower-cases to a blank or a hyphen -/
theorem validChar_lower : ∀ c ∈ validChars, c.toLower ≠ ' ' ∧ c.toLower ≠ '-' := by decide +kernel

/-- what `_validate_label` tests on the lower-cased label -/
def reservedLc (l : String) : Bool :=
  reservedWords.contains l || invalidPrefixes.any (fun p => p.toList.isPrefixOf l.toList)

theorem reserved_eq (s : String) : reserved s = reservedLc (lowerStr s) := rfl

/-- every one-word section keyword is refused as a label; the others contain a blank or a hyphen -/
theorem keyword_table_single :
    ∀ p ∈ sectionKeywords, reservedLc p.1 = true ∨ ' ' ∈ p.1.toList ∨ '-' ∈ p.1.toList := by decide +kernel

/-- the part of a keyword in front of its first blank / hyphen is refused as a label -/
theorem keyword_table_split (c : Char) (hc : c = ' ' ∨ c = '-') :
    ∀ p ∈ sectionKeywords, c ∈ p.1.toList → reservedLc (String.ofList (p.1.toList.takeWhile (· ≠ c))) = true := by
  rcases hc with rfl | rfl <;> decide +kernel

theorem free_inf_table : ∀ w ∈ freeWords ++ infWords, reservedLc w = true := by decide +kernel

theorem valid_parts (s : String) (h : validLabel (.str s) = true) :
    (∀ c ∈ s.toList, validChar c = true) ∧ reservedLc (lowerStr s) = false := by
  simp only [validLabel] at h
  split at h
  · cases h
  · rename_i c t hct
    simp only [Bool.and_eq_true, decide_eq_true_eq, Bool.not_eq_eq_eq_not, Bool.not_true, List.all_eq_true] at h
    refine ⟨?_, ?_⟩
    · intro d hd; exact h.1.1.2 d hd
    · rw [← reserved_eq]; exact h.2

theorem lower_no_sep (s : String) (h : ∀ c ∈ s.toList, validChar c = true) (c : Char) (hc : c = ' ' ∨ c = '-') :
    c ∉ (lowerStr s).toList := by
  intro hm
  simp only [lowerStr, String.toList_ofList, List.mem_map] at hm
  obtain ⟨d, hd, hdc⟩ := hm
  have hv := h d hd
  simp only [validChar, List.contains_iff_mem] at hv
  have := validChar_lower d hv
  rcases hc with rfl | rfl
  · exact this.1 hdc
  · exact this.2 hdc

theorem takeWhile_split (a b : List Char) (c : Char) (h : c ∉ a) : (a ++ c :: b).takeWhile (· ≠ c) = a := by
  induction a with
  | nil => simp
  | cons x t ih =>
    have hx : x ≠ c := by intro e; exact h (by rw [e]; exact List.mem_cons_self)
    have ht : c ∉ t := fun m => h (List.mem_cons_of_mem _ m)
    have hx' : decide (x ≠ c) = true := by simpa using hx
    simp only [List.cons_append, List.takeWhile_cons, hx']
    rw [ih ht]; simp

theorem parseKw_none (x : String) (h : ∀ p ∈ sectionKeywords, p.1 ≠ x) : parseKw x = none := by
  unfold parseKw
  rw [Option.map_eq_none_iff, List.find?_eq_none]
  intro p hp
  simp only [decide_eq_true_eq]
  exact h p hp

/-- two lower-cased valid labels joined by a blank or a hyphen are no keyword -/
theorem join_no_keyword (s t : String) (hs : validLabel (.str s) = true) (ht : validLabel (.str t) = true)
    (c : Char) (hc : c = ' ' ∨ c = '-') :
    parseKw (lowerStr s ++ String.ofList [c] ++ lowerStr t) = none := by
  obtain ⟨hsv, hsr⟩ := valid_parts s hs
  obtain ⟨htv, _⟩ := valid_parts t ht
  apply parseKw_none
  intro p hp he
  have hl : p.1.toList = (lowerStr s).toList ++ c :: (lowerStr t).toList := by
    rw [he]; simp [String.toList_append]
  have hmem : c ∈ p.1.toList := by rw [hl]; simp
  have hres := keyword_table_split c hc p hp hmem
  rw [hl, takeWhile_split _ _ _ (lower_no_sep s hsv c hc)] at hres
  have : String.ofList (lowerStr s).toList = lowerStr s := String.ofList_toList
  rw [this, hsr] at hres
  cases hres

end LpCpp

namespace LpCpp
open Lp

/-! ### a finite family of models in the writer's domain (variable `To` included) -/

def famNums : List (Rat × Rat) := [(-1/2, 1234567), (1000000000000001/1024, -9007199254740991)]

def famVars : List (List LVar) :=
  [[⟨.str "x", .integer, 0, 5⟩, ⟨.str "To", .binary, 0, 1⟩, ⟨.str "r", .real, -5/2, realMax⟩],
   [⟨.str "To", .integer, -intMax, intMax⟩, ⟨.str "y_1", .binary, 0, 1⟩, ⟨.str "Z.z", .real, -realMax, 1/8⟩]]

/-- expressions over three names of a variable list (`u`, `v` not REAL) -/
def famExprs (u v w : Label) (a b : Rat) : List LExpr :=
  [⟨[], [], a⟩, ⟨[(w, a), (u, 0), (v, b)], [(u, v, b)], a⟩, ⟨[(v, b)], [(v, u, a), (u, u, b)], 0⟩]

def famNames (vs : List LVar) : Label × Label × Label :=
  let ns := vs.map (·.name)
  let nr := (vs.filter (·.vt ≠ .real)).map (·.name)
  (nr.headD (.str "q"), nr.getLastD (.str "q"), ns.getLastD (.str "q"))

def family : List LCqm :=
  famVars.flatMap fun vs =>
    let (u, v, w) := famNames vs
    famNums.flatMap fun (a, b) =>
      (famExprs u v w a b).flatMap fun obj =>
        [⟨vs, obj, [⟨.str "To", ⟨[(u, b)], [], 0⟩, .ge, a, false⟩, ⟨.str "c0", obj, .le, b, false⟩]⟩,
         ⟨vs, ⟨[], [], 0⟩, [⟨.str "q", obj, .eq, 0, false⟩, ⟨.str "c.1", ⟨[], [(u, v, a)], b⟩, .ge, b, false⟩]⟩]

/-- eight members of the family, two per theorem of `Properties/C12.lean` (kernel evaluation takes ~13 s per model) -/
def familyPick (i : Nat) : List LCqm := ([[0, 1], [4, 5], [14, 15], [22, 23]].getD i []).filterMap (family[·]?)

/-- every number the writer prints is a binary64 value (the coefficients, offsets and bounds of a real CQM are; the folded
    right-hand side `rhs - offset` is computed in binary64 by `dump`) -/
def numsDouble (m : LCqm) : Bool :=
  let ex (e : LExpr) : Bool := e.lin.all (fun p => isDouble p.2) && e.quad.all (fun p => isDouble p.2.2 && isDouble (2 * p.2.2)) && isDouble e.off
  m.vars.all (fun v => isDouble v.lb && isDouble v.ub) && ex m.obj &&
  m.cons.all (fun c => ex c.lhs && isDouble c.rhs && isDouble (c.rhs - c.lhs.off))

/-- the end-to-end evaluation on one model: the writer refuses, or the C++ reader model reads `normCqm m` back -/
def roundTripOK (m : LCqm) : Bool :=
  match dumps m with
  | .error _ => true
  | .ok text => decide (loads text = .ok (normCqm m))

def writtenCount : Nat := (family.filter fun m => numsDouble m && (dumps m).toOption.isSome).length

/-! ### texts the reader refuses -/

def malformedTexts : List String :=
  ["min\n x\nst\n c: x >= 1",                                  -- no End
   "min\n x\nst\n c: x >= 1\nEnd\n x",                          -- tokens after End
   "min\n - [ x * y ] / 2\nst\nEnd",                            -- `- [`
   "min\n 2 [ x * y ] / 2\nst\nEnd",                            -- `constant [`
   "min\n [ x * y ]\nst\nEnd",                                  -- objective bracket without `/ 2`
   "min\n [ x * y ] / 3\nst\nEnd",
   "min\n [ x ^ 3 ] / 2\nst\nEnd",
   "min\n x\nst\n c: [ x * y ] / 2 >= 1\nEnd",                  -- `/ 2` in a constraint
   "min\n x\nst\n c: x < 3\nEnd",
   "min\n x\nst\n c: x > 3\nEnd",
   "min\n x\nst\n c: x =< 3\nEnd",
   "min\n x\nst\n c: 2 >= x\nEnd",
   "min\n x\nst\n c: -1 <= x <= 1\nEnd",                        -- ranged constraint
   "min\n x\nst\n c: x >= 1\n c: x <= 3\nEnd",                  -- duplicate constraint name
   "min\n x\nst\n 0: x >= 1\nEnd",                              -- `0 :`
   "min\n x\nst\n c: x >= 1\nsemi\n x\nEnd",                    -- unsupported vartype
   "min\n x\nst\n c: x >= 1\nsemi-continuous\n x\nEnd",
   "min\n x\nst\n c: x >= 1\nsos\n s: S3 :: x : 1\nEnd",
   "min\n x\nst\n c: x >= 1\nBinary\n x\nGeneral\n y\nBinary\n z\nEnd",  -- a section kind twice, not contiguous
   "min\n x\nst\n c: x >= 1\nBounds\n x\nEnd",
   "min\n x\nst\n c: x >= 1\nBounds\n 1 < x\nEnd",
   "min\n x\nst\n c: x >= 1\nBounds\n 1 >= x <= 3\nEnd",
   "min\n x\nst\n c: x >= 1\nBinary\n 3\nEnd",
   "min\n x\nmin\n y\nst\nEnd",                                 -- the objective section twice
   "min\n x\nst\n c: x >= \nEnd"]

end LpCpp

namespace LpCpp
open Lp

/-- what the family theorems state of one model: every printed number is a binary64 value, the writer accepts the model,
    and the C++ reader model reads `normCqm m` back from the written text -/
def famOK (m : LCqm) : Bool := numsDouble m && (dumps m).toOption.isSome && roundTripOK m

/-- member `i` of the family, as a list (evaluated one model per module: `DimodProofs/LpFamily<k>.lean`) -/
def familyOne (i : Nat) : List LCqm := [i].filterMap (family[·]?)

theorem famOK_spec (m : LCqm) (h : famOK m = true) :
    numsDouble m = true ∧ (dumps m).toOption.isSome = true ∧ roundTripOK m = true := by
  simp only [famOK, Bool.and_eq_true] at h
  exact ⟨h.1.1, h.1.2, h.2⟩

/-- the malformed texts in three parts (evaluated in parallel modules) -/
def malformedPart (k : Nat) : List String := (malformedTexts.drop (9 * k)).take 9

end LpCpp
