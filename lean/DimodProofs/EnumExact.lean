import DimodModel.EnumComposite
import DimodProofs.GrayRows
import DimodProofs.Anneal

/-! C07: `ExactSolver.sample` / `ExactPolySolver.sample_poly` as coded return every assignment of the variables exactly
    once, over exactly the variables, in domain, with the problem's energy. -/

namespace Enum

theorem bitVal_inVartype (spin : Bool) (b : Nat) (hb : b ≤ 1) : InVartype spin (bitVal spin b) := by
  unfold InVartype bitVal
  have : b = 0 ∨ b = 1 := by omega
  cases spin <;> rcases this with h | h <;> subst h <;> simp <;> norm_num

theorem bitVal_inj (spin : Bool) (a b : Nat) (h : bitVal spin a = bitVal spin b) : a = b := by
  unfold bitVal at h
  cases spin
  · simpa using h
  · simp only [if_true] at h
    have : (a : Rat) = (b : Rat) := by linarith
    exact_mod_cast this

/-- the bit a value stands for -/
def valBit (v : Rat) : Nat := if v = 1 then 1 else 0

theorem bitVal_valBit (spin : Bool) (v : Rat) (hv : InVartype spin v) : bitVal spin (valBit v) = v := by
  unfold InVartype at hv
  unfold bitVal valBit
  cases spin
  · simp only [Bool.false_eq_true, if_false] at hv ⊢
    rcases hv with h | h <;> subst h <;> simp
  · simp only [if_true] at hv ⊢
    rcases hv with h | h <;> subst h <;> norm_num

theorem zip_keys (vars : List Label) (vals : List Rat) (h : vals.length = vars.length) : (vars.zip vals).map (·.1) = vars := by
  induction vars generalizing vals with
  | nil => simp
  | cons a t ih =>
    cases vals with
    | nil => simp at h
    | cons b u => simp only [List.zip_cons_cons, List.map_cons]; rw [ih u (by simpa using h)]

theorem zip_vals (vars : List Label) (vals : List Rat) (h : vals.length = vars.length) : (vars.zip vals).map (·.2) = vals := by
  induction vars generalizing vals with
  | nil => cases vals with
    | nil => rfl
    | cons b u => simp at h
  | cons a t ih =>
    cases vals with
    | nil => simp at h
    | cons b u => simp only [List.zip_cons_cons, List.map_cons]; rw [ih u (by simpa using h)]

theorem map_bitVal_inj (spin : Bool) : ∀ a b : List Nat, a.map (bitVal spin) = b.map (bitVal spin) → a = b := by
  intro a
  induction a with
  | nil => intro b h; cases b with
    | nil => rfl
    | cons _ _ => simp at h
  | cons x xs ih =>
    intro b h
    cases b with
    | nil => simp at h
    | cons y ys =>
      simp only [List.map_cons, List.cons.injEq] at h
      rw [bitVal_inj spin x y h.1, ih ys h.2]

/-- **ExactSolver / ExactPolySolver, as coded**: no variables → no rows; otherwise `2^n` rows, no sample twice; every row
    is over exactly the variables (in order), every value in the vartype's domain, the energy is the problem's energy of
    the row read by its labels; and every assignment of the variables is returned -/
theorem exactRows_spec (spin : Bool) (vars : List Label) (energy : (Label → Rat) → Rat) :
    (vars = [] → exactRows spin vars energy = []) ∧
    (vars ≠ [] → (exactRows spin vars energy).length = 2 ^ vars.length) ∧
    ((exactRows spin vars energy).map (·.x)).Nodup ∧
    (∀ r ∈ exactRows spin vars energy,
      r.x.map (·.1) = vars ∧ (∀ p ∈ r.x, InVartype spin p.2) ∧ r.energy = energy r.val) ∧
    (vars ≠ [] → ∀ vals : List Rat, vals.length = vars.length → (∀ v ∈ vals, InVartype spin v) →
      ∃ r ∈ exactRows spin vars energy, r.x = vars.zip vals) := by
  refine ⟨?_, ?_, ?_, ?_, ?_⟩
  · intro h; subst h; simp [exactRows]
  · intro h
    have : ¬ vars.length = 0 := by intro e; exact h (List.eq_nil_of_length_eq_zero e)
    simp [exactRows, this, graycode_length]
  · unfold exactRows
    split
    · simp
    · rw [List.map_map]
      apply List.Nodup.map_on _ (graycode_nodup vars.length)
      intro a ha b hb hab
      have la := (graycode_sound _ a ha).1
      have lb := (graycode_sound _ b hb).1
      have h2 := congrArg (fun l => l.map (·.2)) hab
      simp only [Function.comp] at h2
      rw [zip_vals vars _ (by simpa using la), zip_vals vars _ (by simpa using lb)] at h2
      exact map_bitVal_inj spin a b h2
  · intro r hr
    unfold exactRows at hr
    split at hr
    · simp at hr
    · obtain ⟨bits, hbits, rfl⟩ := List.mem_map.mp hr
      have hs := graycode_sound _ bits hbits
      refine ⟨zip_keys vars _ (by simpa using hs.1), ?_, rfl⟩
      intro p hp
      have hp2 : p.2 ∈ (vars.zip (bits.map (bitVal spin))).map (·.2) := List.mem_map.mpr ⟨p, hp, rfl⟩
      rw [zip_vals vars _ (by simpa using hs.1)] at hp2
      obtain ⟨b, hb, hbe⟩ := List.mem_map.mp hp2
      rw [← hbe]
      exact bitVal_inVartype spin b (hs.2 b hb)
  · intro h vals hl hv
    have hne : ¬ vars.length = 0 := by intro e; exact h (List.eq_nil_of_length_eq_zero e)
    have hmem : vals.map valBit ∈ graycode vars.length := by
      apply graycode_complete
      · simpa using hl
      · intro b hb
        obtain ⟨v, _, rfl⟩ := List.mem_map.mp hb
        unfold valBit; split <;> omega
    have hback : (vals.map valBit).map (bitVal spin) = vals := by
      rw [List.map_map]
      conv_rhs => rw [← List.map_id vals]
      apply List.map_congr_left
      intro v hvm
      exact bitVal_valBit spin v (hv v hvm)
    have hin : (⟨vars.zip ((vals.map valBit).map (bitVal spin)),
        energy (assignVal (vars.zip ((vals.map valBit).map (bitVal spin))))⟩ : Row) ∈ exactRows spin vars energy := by
      unfold exactRows
      rw [if_neg hne]
      exact List.mem_map.mpr ⟨vals.map valBit, hmem, rfl⟩
    exact ⟨_, hin, by simp only [hback]⟩

end Enum
