/-! Feasibility prototype (scratch): sorted neighbourhoods, `lowerBound` insertion as in
    `abc.h:asymmetric_quadratic_ref`, coefficient semantics, sortedness preservation. -/

abbrev Nbh (R : Type) := List (Nat × R)

/-- `asymmetric_quadratic_ref(u,v) += b` on one neighbourhood: find the first entry with index ≥ v;
    add there if equal, insert before it otherwise. -/
def Nbh.addAt [Add R] (n : Nbh R) (v : Nat) (b : R) : Nbh R :=
  match n with
  | [] => [(v, b)]
  | (w, c) :: t =>
    if w < v then (w, c) :: Nbh.addAt t v b
    else if w = v then (w, c + b) :: t
    else (v, b) :: (w, c) :: t

/-- coefficient lookup (what `quadratic(u,v)` returns: 0 when absent) -/
def Nbh.coef [OfNat R 0] (n : Nbh R) (v : Nat) : R :=
  match n with
  | [] => 0
  | (w, c) :: t => if w = v then c else Nbh.coef t v

/-- strictly increasing indices -/
def Nbh.Sorted (n : Nbh R) : Prop := List.Pairwise (fun a b => a.1 < b.1) n

theorem Nbh.coef_eq_zero_of_lt [OfNat R 0] (n : Nbh R) (v : Nat)
    (h : ∀ p ∈ n, v < p.1) : n.coef v = 0 := by
  induction n with
  | nil => rfl
  | cons p t ih =>
    obtain ⟨w, c⟩ := p
    have hw : v < w := h (w, c) (by simp)
    simp only [Nbh.coef]
    rw [if_neg (by omega)]
    exact ih (fun p hp => h p (List.mem_cons_of_mem _ hp))

/-- mem of addAt -/
theorem Nbh.fst_mem_addAt [Add R] (n : Nbh R) (v : Nat) (b : R) (p : Nat × R)
    (hp : p ∈ n.addAt v b) : p.1 = v ∨ ∃ q ∈ n, q.1 = p.1 := by
  induction n with
  | nil => simp [Nbh.addAt] at hp; left; rw [hp]
  | cons q t ih =>
    obtain ⟨w, c⟩ := q
    simp only [Nbh.addAt] at hp
    split at hp
    · rcases List.mem_cons.mp hp with rfl | hp
      · right; exact ⟨(w, c), by simp, rfl⟩
      · rcases ih hp with h | ⟨q, hq, hq'⟩
        · left; exact h
        · right; exact ⟨q, List.mem_cons_of_mem _ hq, hq'⟩
    · split at hp
      · rcases List.mem_cons.mp hp with rfl | hp
        · right; exact ⟨(w, c), by simp, rfl⟩
        · right; exact ⟨p, List.mem_cons_of_mem _ hp, rfl⟩
      · rcases List.mem_cons.mp hp with rfl | hp
        · left; rfl
        · right; exact ⟨p, hp, rfl⟩

theorem Nbh.sorted_addAt [Add R] (n : Nbh R) (v : Nat) (b : R) (h : n.Sorted) :
    (n.addAt v b).Sorted := by
  induction n with
  | nil => simp [Nbh.addAt, Nbh.Sorted]
  | cons q t ih =>
    obtain ⟨w, c⟩ := q
    have ht : Nbh.Sorted t := (List.pairwise_cons.mp h).2
    have hw : ∀ p ∈ t, w < p.1 := (List.pairwise_cons.mp h).1
    simp only [Nbh.addAt]
    split
    · rename_i hlt
      refine List.pairwise_cons.mpr ⟨?_, ih ht⟩
      intro p hp
      rcases Nbh.fst_mem_addAt t v b p hp with h1 | ⟨q, hq, hq'⟩
      · simp only []; omega
      · have := hw q hq; simp only []; omega
    · split
      · exact List.pairwise_cons.mpr ⟨hw, ht⟩
      · rename_i h1 h2
        refine List.pairwise_cons.mpr ⟨?_, h⟩
        intro p hp
        rcases List.mem_cons.mp hp with rfl | hp
        · simp only []; omega
        · have := hw p hp; simp only []; omega

/-- the algebraic law of the insertion: only the coefficient at `v` changes, by `+b` -/
theorem Nbh.coef_addAt (n : Nbh Int) (v w : Nat) (b : Int) (h : n.Sorted) :
    (n.addAt v b).coef w = n.coef w + (if w = v then b else 0) := by
  induction n with
  | nil => simp only [Nbh.addAt, Nbh.coef]; split <;> simp_all [eq_comm]
  | cons q t ih =>
    obtain ⟨x, c⟩ := q
    have ht : Nbh.Sorted t := (List.pairwise_cons.mp h).2
    have hx : ∀ p ∈ t, x < p.1 := (List.pairwise_cons.mp h).1
    simp only [Nbh.addAt]
    split
    · rename_i hlt
      simp only [Nbh.coef]
      by_cases hxw : x = w
      · subst hxw
        have : ¬ x = v := by omega
        simp [this]
      · simp only [hxw, if_false]; exact ih ht
    · split
      · rename_i h1 h2
        subst h2
        simp only [Nbh.coef]
        by_cases hxw : x = w
        · subst hxw; simp
        · simp only [hxw, if_false]
          have : ¬ w = x := fun h => hxw h.symm
          simp [this]
      · rename_i h1 h2
        simp only [Nbh.coef]
        by_cases hvw : v = w
        · subst hvw
          have : ¬ x = v := fun h => h2 h
          simp only [if_true, this, if_false]
          have hz : Nbh.coef t v = 0 := Nbh.coef_eq_zero_of_lt t v (fun p hp => by have := hx p hp; omega)
          rw [hz]; simp
        · have : ¬ w = v := fun h => hvw h.symm
          simp [hvw, this]

#print axioms Nbh.sorted_addAt
#print axioms Nbh.coef_addAt
