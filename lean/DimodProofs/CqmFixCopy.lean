import DimodProofs.CqmRelabel

/-! `fix_variables(fixed, inplace=False)` (C++ `fix_variables` into a fresh model + the two relabels) against
    `deepcopy` + `fix_variables(fixed, inplace=True)` — what is carried over besides the polynomials (whose
    equality is property C03's `fix_inplace_eq_copy`): the remaining variables in order with their type and bounds,
    the constraint labels, and per constraint sense, rhs, weight, **penalty type** and the discrete mark. -/

namespace CqmP
open Expr Cqm

/-- the attributes of a constraint that are not its polynomial -/
def attrs (c : Cons) : Sense × Rat × Option Rat × Bool := (c.sense, c.rhs, c.weight, c.quadPenalty)

theorem fixVariableR_attrs (m : Cqm) (v : Label) (a : Rat) :
    (m.fixVariableR v a).1.cons.map attrs = m.cons.map attrs
    ∧ (m.fixVariableR v a).1.cons.map (·.discrete) = m.cons.map (·.discrete)
    ∧ (m.fixVariableR v a).1.clabels = m.clabels := by
  unfold Cqm.fixVariableR
  cases m.idx? v with
  | none => exact ⟨rfl, rfl, rfl⟩
  | some g =>
    simp only []
    refine ⟨?_, ?_, rfl⟩
    · show ((m.cons.map fun c => { c with e := c.e.substitute g 0 a }).map fun c => { c with e := c.e.reindex g }).map attrs = _
      rw [List.map_map, List.map_map]; rfl
    · show ((m.cons.map fun c => { c with e := c.e.substitute g 0 a }).map fun c => { c with e := c.e.reindex g }).map (·.discrete) = _
      rw [List.map_map, List.map_map]; rfl

/-- the in-place path touches expressions only: sense, rhs, weight, penalty type, mark and the constraint
    labels are exactly the original ones (also when it stops at an unknown variable) -/
theorem fixInplace_attrs (fixed : List (Label × Rat)) : ∀ (m : Cqm),
    (m.fixVariablesInplace fixed).1.cons.map attrs = m.cons.map attrs
    ∧ (m.fixVariablesInplace fixed).1.cons.map (·.discrete) = m.cons.map (·.discrete)
    ∧ (m.fixVariablesInplace fixed).1.clabels = m.clabels := by
  induction fixed with
  | nil => intro m; exact ⟨rfl, rfl, rfl⟩
  | cons p t ih =>
    intro m
    obtain ⟨v, a⟩ := p
    unfold Cqm.fixVariablesInplace
    have h1 := fixVariableR_attrs m v a
    cases hr : m.fixVariableR v a with
    | mk m1 r =>
      rw [hr] at h1
      cases r with
      | none =>
        have h2 := ih m1
        exact ⟨h2.1.trans h1.1, h2.2.1.trans h1.2.1, h2.2.2.trans h1.2.2⟩
      | some c => exact h1

/-- the copying path: the new model has the same constraint labels and, constraint by constraint, the same sense,
    rhs, weight and penalty type; the discrete mark is kept iff the new constraint is still one-hot
    (`mark_discrete(old.marked_discrete() && new.is_onehot())`) -/
theorem fixCopy_attrs {m m' : Cqm} {fixed : List (Label × Rat)} (h : m.fixVariablesCopy fixed = some m') :
    m'.clabels = m.clabels
    ∧ m'.cons.map attrs = m.cons.map attrs
    ∧ m'.cons.length = m.cons.length
    ∧ ∀ k, k < m.cons.length →
        (m'.cons.getD k {}).discrete = ((m.cons.getD k {}).discrete && (m'.cons.getD k {}).isOnehot m'.vt) := by
  unfold Cqm.fixVariablesCopy at h
  split_ifs at h
  simp only [Option.some.injEq] at h
  subst h
  refine ⟨rfl, ?_, by simp, ?_⟩
  · simp only [List.map_map]
    apply List.map_congr_left
    intro c _
    rfl
  · intro k hk
    simp only []
    rw [getD_map_cons _ _ _ hk]
    rfl

/-- **copy path = deep copy + in-place fix**, for everything that is not a polynomial: same constraint labels and
    per constraint the same sense, rhs, weight and penalty type as the in-place result; the copy's mark is the
    in-place mark restricted to constraints that are still one-hot -/
theorem fixCopy_eq_inplace_attrs {m m' : Cqm} {fixed : List (Label × Rat)} (h : m.fixVariablesCopy fixed = some m') :
    m'.clabels = (m.fixVariablesInplace fixed).1.clabels
    ∧ m'.cons.map attrs = (m.fixVariablesInplace fixed).1.cons.map attrs
    ∧ ∀ k, k < m.cons.length →
        (m'.cons.getD k {}).discrete
          = (((m.fixVariablesInplace fixed).1.cons.getD k {}).discrete && (m'.cons.getD k {}).isOnehot m'.vt) := by
  obtain ⟨c1, c2, _, c4⟩ := fixCopy_attrs h
  obtain ⟨i1, i2, i3⟩ := fixInplace_attrs fixed m
  refine ⟨c1.trans i3.symm, c2.trans i1.symm, ?_⟩
  intro k hk
  rw [c4 k hk]
  congr 1
  have hlen : (m.fixVariablesInplace fixed).1.cons.length = m.cons.length := by
    have := congrArg List.length i2; simpa using this
  have := congrArg (fun l => l.getD k false) i2
  simp only [List.getD_eq_getElem?_getD, List.getElem?_map] at this
  rw [List.getD_eq_getElem?_getD, List.getD_eq_getElem?_getD, List.getElem?_eq_getElem hk,
    List.getElem?_eq_getElem (by rw [hlen]; exact hk)]
  rw [List.getElem?_eq_getElem hk, List.getElem?_eq_getElem (by rw [hlen]; exact hk)] at this
  simpa using this.symm


/-! ### the variables that remain -/

theorem range_map_getD {α} (l : List α) (d : α) : (List.range l.length).map (fun g => l.getD g d) = l := by
  apply List.ext_getElem
  · simp
  · intro i h1 h2
    simp [List.getD_eq_getElem?_getD, List.getElem?_eq_getElem h2]

/-- labels and type/bounds (by label) of the model the copying path returns: the variables that are not fixed, in
    their old order, each with its old type and bounds -/
theorem fixCopy_vars {m m' : Cqm} (hwf : CqmWF m) (hnd : m.labels.Nodup) {fixed : List (Label × Rat)}
    (h : m.fixVariablesCopy fixed = some m') :
    (absCqm m').labels = (absCqm m).labels.filter (fun l => !(fixed.any (·.1 = l)))
    ∧ ∀ x, (absCqm m').info x = if fixed.any (·.1 = x) then none else (absCqm m).info x := by
  unfold Cqm.fixVariablesCopy at h
  split_ifs at h with hunk
  simp only [Option.some.injEq] at h
  have known : ∀ p ∈ fixed, ∃ g, m.idx? p.1 = some g := by
    intro p hp
    cases hg : m.idx? p.1 with
    | some g => exact ⟨g, rfl⟩
    | none =>
      exfalso; apply hunk
      rw [List.any_eq_true]; exact ⟨p, hp, by rw [hg]; rfl⟩
  -- an index is fixed iff its label is
  have fixedIdx : ∀ g, g < m.labels.length →
      ((fixed.map fun p => ((m.idx? p.1).getD 0, p.2)).any (·.1 = g)) = fixed.any (·.1 = m.labels.getD g (.int 0)) := by
    intro g hg
    have hgl : m.labels[g]? = some (m.labels.getD g (.int 0)) := by
      rw [List.getD_eq_getElem?_getD, List.getElem?_eq_getElem hg]; rfl
    rw [Bool.eq_iff_iff, List.any_eq_true, List.any_eq_true]
    constructor
    · intro ⟨q, hq, hqg⟩
      obtain ⟨p, hp, rfl⟩ := List.mem_map.mp hq
      obtain ⟨g', hg'⟩ := known p hp
      simp only [hg', Option.getD_some, decide_eq_true_eq] at hqg
      subst hqg
      refine ⟨p, hp, ?_⟩
      have := findIdx_get hg'
      simp only [Nat.sub_zero] at this
      rw [this] at hgl
      simpa using (Option.some.inj hgl)
    · intro ⟨p, hp, hpl⟩
      refine ⟨((m.idx? p.1).getD 0, p.2), List.mem_map.mpr ⟨p, hp, rfl⟩, ?_⟩
      have hpl' : p.1 = m.labels.getD g (.int 0) := by simpa using hpl
      have : m.idx? p.1 = some g := by
        unfold Cqm.idx?; rw [findIdx_eq_some_iff hnd, hpl']; exact hgl
      simp [this]
  have hn : m.numVars = m.labels.length := by unfold Cqm.numVars; rw [hwf.labels_len]
  -- the kept labels
  have hlabels : ((List.range m.numVars).filter (fun g => !((fixed.map fun p => ((m.idx? p.1).getD 0, p.2)).any (·.1 = g)))).map
        (fun g => m.labels.getD g (.int 0)) = m.labels.filter (fun l => !(fixed.any (·.1 = l))) := by
    have e1 : (List.range m.numVars).filter (fun g => !((fixed.map fun p => ((m.idx? p.1).getD 0, p.2)).any (·.1 = g)))
        = (List.range m.numVars).filter ((fun l => !(fixed.any (·.1 = l))) ∘ fun g => m.labels.getD g (.int 0)) := by
      apply List.filter_congr
      intro g hg
      rw [List.mem_range, hn] at hg
      simp only [Function.comp, fixedIdx g hg]
    rw [e1, ← List.filter_map, hn, range_map_getD]
  subst h
  refine ⟨hlabels, ?_⟩
  intro x
  show (findIdx x (((List.range m.numVars).filter _).map fun g => m.labels.getD g (.int 0)) 0).map _ = _
  set keep := (List.range m.numVars).filter (fun g => !((fixed.map fun p => ((m.idx? p.1).getD 0, p.2)).any (·.1 = g))) with hkeep
  have hkl : keep.map (fun g => m.labels.getD g (.int 0)) = m.labels.filter (fun l => !(fixed.any (·.1 = l))) := hlabels
  have hknd : (keep.map (fun g => m.labels.getD g (.int 0))).Nodup := by
    rw [hkl]; exact List.Nodup.sublist List.filter_sublist hnd
  by_cases hx : fixed.any (·.1 = x) = true
  · rw [if_pos hx]
    have : findIdx x (keep.map fun g => m.labels.getD g (.int 0)) 0 = none := by
      rw [findIdx_none_iff, hkl, List.mem_filter]
      intro ⟨_, h2⟩; rw [hx] at h2; cases h2
    rw [this]; rfl
  · rw [if_neg hx]
    cases hf : findIdx x m.labels 0 with
    | none =>
      have : findIdx x (keep.map fun g => m.labels.getD g (.int 0)) 0 = none := by
        rw [findIdx_none_iff, hkl, List.mem_filter]
        intro ⟨h1, _⟩; exact (findIdx_none_iff.mp hf) h1
      show (findIdx x (keep.map fun g => m.labels.getD g (.int 0)) 0).map _ = (findIdx x m.labels 0).map _
      rw [this, hf]; rfl
    | some k =>
      have hk := (findIdx_eq_some_iff hnd).mp hf
      have hxmem : x ∈ keep.map (fun g => m.labels.getD g (.int 0)) := by
        rw [hkl, List.mem_filter]
        refine ⟨mem_of_getElem? hk, ?_⟩
        cases hb : fixed.any (·.1 = x) with
        | true => exact absurd hb hx
        | false => rfl
      obtain ⟨j, hj⟩ := List.getElem?_of_mem hxmem
      have hfj := (findIdx_eq_some_iff hknd).mpr hj
      show (findIdx x (keep.map fun g => m.labels.getD g (.int 0)) 0).map _ = (findIdx x m.labels 0).map _
      rw [hfj, hf]
      simp only [Option.map_some]
      -- the j-th kept index is k
      rw [List.getElem?_map] at hj
      obtain ⟨kj, hkj, hkx⟩ := Option.map_eq_some_iff.mp hj
      have hkjl : kj < m.labels.length := by
        have := mem_of_getElem? hkj
        rw [hkeep, List.mem_filter, List.mem_range, hn] at this
        exact this.1
      have : kj = k := by
        have h1 : m.labels[kj]? = some x := by
          rw [← hkx, List.getD_eq_getElem?_getD, List.getElem?_eq_getElem hkjl]; rfl
        exact idx_unique_label hnd h1 hk
      subst this
      congr 1
      simp only [List.getD_eq_getElem?_getD, List.getElem?_map, hkj, Option.map_some, Option.getD_some]


theorem fixVariableR_vars {m : Cqm} (hwf : CqmWF m) (hnd : m.labels.Nodup) {v : Label} {g : Nat} (hg : m.idx? v = some g) (a : Rat) :
    (m.fixVariableR v a).2 = none
    ∧ (absCqm (m.fixVariableR v a).1).labels = (absCqm m).labels.filter (· ≠ v)
    ∧ ∀ x, (absCqm (m.fixVariableR v a).1).info x = if x = v then none else (absCqm m).info x := by
  have hl : m.labels[g]? = some v := by have := findIdx_get hg; simpa using this
  have hfix : m.fixVariableR v a = ((m.mapExprs (·.substitute g 0 a)).removeVarAt g, none) := by
    unfold Cqm.fixVariableR; rw [hg]
  rw [hfix]
  have h := absCqm_removeVarAt (m := m.mapExprs (·.substitute g 0 a)) (mapSubstitute_wf hwf g 0 a) hnd hl
  refine ⟨rfl, ?_, ?_⟩
  · have := congrArg LCqm.labels h; exact this
  · intro x
    have := congrFun (congrArg LCqm.info h) x
    exact this

/-- the in-place path on distinct known labels succeeds and leaves exactly the variables that are not fixed, in
    their old order, each with its old type and bounds -/
theorem fixInplace_vars (fixed : List (Label × Rat)) : ∀ {m : Cqm}, CqmWF m → m.labels.Nodup →
    (fixed.map (·.1)).Nodup → (∀ p ∈ fixed, p.1 ∈ m.labels) →
    (m.fixVariablesInplace fixed).2 = none
    ∧ (absCqm (m.fixVariablesInplace fixed).1).labels = (absCqm m).labels.filter (fun l => !(fixed.any (·.1 = l)))
    ∧ ∀ x, (absCqm (m.fixVariablesInplace fixed).1).info x = if fixed.any (·.1 = x) then none else (absCqm m).info x := by
  induction fixed with
  | nil =>
    intro m _ _ _ _
    refine ⟨rfl, ?_, fun x => rfl⟩
    show m.labels = m.labels.filter (fun _ => true)
    rw [List.filter_true]
  | cons p t ih =>
    intro m hwf hnd hdist hknown
    obtain ⟨v, a⟩ := p
    rw [List.map_cons, List.nodup_cons] at hdist
    have hv : v ∈ m.labels := hknown (v, a) List.mem_cons_self
    obtain ⟨g, hgl⟩ := List.getElem?_of_mem hv
    have hg : m.idx? v = some g := (findIdx_eq_some_iff hnd).mpr hgl
    obtain ⟨s1, s2, s3⟩ := fixVariableR_vars hwf hnd hg a
    have hwf1 := fixVariableR_wf hwf v a
    have hnd1 : (m.fixVariableR v a).1.labels.Nodup := by
      have := s2; show ((absCqm (m.fixVariableR v a).1).labels).Nodup
      rw [this]; exact List.Nodup.sublist List.filter_sublist hnd
    have hknown1 : ∀ q ∈ t, q.1 ∈ (m.fixVariableR v a).1.labels := by
      intro q hq
      show q.1 ∈ (absCqm (m.fixVariableR v a).1).labels
      rw [s2, List.mem_filter]
      refine ⟨hknown q (List.mem_cons_of_mem _ hq), ?_⟩
      have : q.1 ≠ v := fun h => hdist.1 (h ▸ List.mem_map.mpr ⟨q, hq, rfl⟩)
      simpa using this
    have IH := ih hwf1 hnd1 hdist.2 hknown1
    have hstep : Cqm.fixVariablesInplace m ((v, a) :: t) = Cqm.fixVariablesInplace (m.fixVariableR v a).1 t := by
      conv => lhs; unfold Cqm.fixVariablesInplace
      cases hr : m.fixVariableR v a with
      | mk m1 r =>
        rw [hr] at s1
        simp only [] at s1
        subst s1
        rfl
    rw [hstep]
    refine ⟨IH.1, ?_, ?_⟩
    · rw [IH.2.1, s2, List.filter_filter]
      apply List.filter_congr
      intro l _
      simp only [List.any_cons, Bool.not_or, ne_eq]
      by_cases hlv : l = v
      · subst hlv; simp
      · have : ¬ v = l := fun h => hlv h.symm
        simp [hlv, this]
    · intro x
      rw [IH.2.2 x, s3 x]
      simp only [List.any_cons]
      by_cases hxv : x = v
      · subst hxv
        simp
      · have : ¬ v = x := fun h => hxv h.symm
        rw [if_neg hxv]
        simp only [this, decide_false, Bool.false_or]

/-- **the copying path leaves the same variables as deep copy + in-place fix**: same labels in the same order,
    same type and bounds for each -/
theorem fixCopy_eq_inplace_vars {m m' : Cqm} (hwf : CqmWF m) (hnd : m.labels.Nodup) {fixed : List (Label × Rat)}
    (hdist : (fixed.map (·.1)).Nodup) (h : m.fixVariablesCopy fixed = some m') :
    (m.fixVariablesInplace fixed).2 = none
    ∧ (absCqm m').labels = (absCqm (m.fixVariablesInplace fixed).1).labels
    ∧ (absCqm m').info = (absCqm (m.fixVariablesInplace fixed).1).info := by
  have hknown : ∀ p ∈ fixed, p.1 ∈ m.labels := by
    intro p hp
    unfold Cqm.fixVariablesCopy at h
    split_ifs at h with hunk
    cases hg : m.idx? p.1 with
    | some g =>
      have := findIdx_get hg
      exact mem_of_getElem? this
    | none =>
      exfalso; apply hunk
      rw [List.any_eq_true]; exact ⟨p, hp, by rw [hg]; rfl⟩
  obtain ⟨i1, i2, i3⟩ := fixInplace_vars fixed hwf hnd hdist hknown
  obtain ⟨c1, c2⟩ := fixCopy_vars hwf hnd h
  refine ⟨i1, c1.trans i2.symm, ?_⟩
  funext x
  rw [c2 x, i3 x]


/-! ### the model the copying path returns is well formed -/

theorem addQuadraticBackQB_ok {n : Nat} {q : QB} (hq : QBOk n q) (vt : VT4) {u v : Nat} (hu : u < n) (hv : v < n) (b : Rat) :
    QBOk n (q.addQuadraticBack vt u v b) := by
  have app : ∀ (adj : List (List (Nat × Rat))) (i k : Nat), k < n → (∀ nb ∈ adj, ∀ p ∈ nb, p.1 < n) →
      ∀ nb ∈ Bqm.modifyAt adj i (· ++ [(k, b)]), ∀ p ∈ nb, p.1 < n := by
    intro adj i k hk h nb hnb p hp
    rcases mem_modifyAt hnb with h1 | ⟨nb0, hnb0, rfl⟩
    · exact h nb h1 p hp
    · rcases List.mem_append.mp hp with h2 | h2
      · exact h nb0 hnb0 p h2
      · have : p = (k, b) := by simpa using h2
        rw [this]; exact hk
  unfold QB.addQuadraticBack
  split
  · cases vt with
    | binary => exact addLinearQB_ok hq u b
    | spin => exact ⟨hq.lin_len, hq.adj_len, hq.adj_lt⟩
    | integer =>
      exact ⟨hq.lin_len, by show (Bqm.modifyAt _ _ _).length = n; rw [length_modifyAt]; exact hq.adj_len, app _ _ _ hv hq.adj_lt⟩
    | real =>
      exact ⟨hq.lin_len, by show (Bqm.modifyAt _ _ _).length = n; rw [length_modifyAt]; exact hq.adj_len, app _ _ _ hv hq.adj_lt⟩
  · exact ⟨hq.lin_len, by show (Bqm.modifyAt _ _ _).length = n; rw [length_modifyAt, length_modifyAt]; exact hq.adj_len,
      app _ _ _ hu (app _ _ _ hv hq.adj_lt)⟩

theorem addQuadraticBack_wf {e : Expr} (hwf : ExprWF e) (vt : List VT4) (gu gv : Nat) (b : Rat) :
    ExprWF (e.addQuadraticBack vt gu gv b) := by
  unfold Expr.addQuadraticBack
  have h1 := enforce_wf hwf gv
  have h2 := enforce_wf h1 gu
  apply exprWF_of_qbOk h2
  apply addQuadraticBackQB_ok (qbOk_of_wf h2) _ (enforce_lt h1 gu)
  have := (h2.idx gv (e.enforce gv).2).mp (enforce_idx_old gu gv (enforce_idx gv))
  exact lt_of_getElem? this

theorem addQuadraticBack_in {n : Nat} {e : Expr} (hin : ExprIn n e) (vt : List VT4) {gu gv : Nat} (hu : gu < n) (hv : gv < n)
    (b : Rat) : ExprIn n (e.addQuadraticBack vt gu gv b) :=
  enforce_in (enforce_in hin hv) hu

theorem mem_lowerFrom {adj : List (List (Nat × Rat))} {u0 : Nat} {t : Nat × Nat × Rat} (h : t ∈ QB.lowerFrom u0 adj) :
    ∃ k, k < adj.length ∧ t.1 = u0 + k ∧ ∃ nb ∈ adj, (t.2.1, t.2.2) ∈ nb := by
  induction adj generalizing u0 with
  | nil => cases h
  | cons nb rest ih =>
    unfold QB.lowerFrom at h
    rcases List.mem_append.mp h with h1 | h1
    · unfold QB.lowerAt at h1
      obtain ⟨p, hp, rfl⟩ := List.mem_map.mp h1
      exact ⟨0, by simp, rfl, nb, List.mem_cons_self, (List.mem_filter.mp hp).1⟩
    · obtain ⟨k, hk, hk1, nb', hnb', hmem⟩ := ih h1
      exact ⟨k + 1, by simp; omega, by omega, nb', List.mem_cons_of_mem _ hnb', hmem⟩

theorem lower_in_range {e : Expr} (hwf : ExprWF e) {t : Nat × Nat × Rat} (h : t ∈ e.qb.lower) :
    e.vars.getD t.1 0 ∈ e.vars ∧ e.vars.getD t.2.1 0 ∈ e.vars := by
  unfold QB.lower at h
  obtain ⟨k, hk, hk1, nb, hnb, hmem⟩ := mem_lowerFrom h
  have h1 : t.1 < e.vars.length := by rw [hk1, ← hwf.adj_len]; omega
  have h2 : t.2.1 < e.vars.length := hwf.adj_lt nb hnb _ hmem
  exact ⟨getD_mem _ _ _ h1, getD_mem _ _ _ h2⟩

/-- `fix_variables_expr` builds a well-formed expression over the new model's variables -/
theorem fixExpr_wf {n' : Nat} (vtNew : List VT4) (o2n : Nat → Option Nat) (asg : Nat → Rat)
    (src : Expr) (hsrc : ExprWF src) (ho : ∀ g ∈ src.vars, ∀ k, o2n g = some k → k < n') :
    ExprWF (fixExpr vtNew o2n asg src) ∧ ExprIn n' (fixExpr vtNew o2n asg src) := by
  unfold Cqm.fixExpr
  have lin : ∀ (l : List (Nat × Rat)), (∀ p ∈ l, p.1 ∈ src.vars) → ∀ e, ExprWF e → ExprIn n' e →
      ExprWF (l.foldl (fun dst p => match o2n p.1 with
        | none => dst.addOffset (p.2 * asg p.1)
        | some nv => dst.addLinear nv p.2) e)
      ∧ ExprIn n' (l.foldl (fun dst p => match o2n p.1 with
        | none => dst.addOffset (p.2 * asg p.1)
        | some nv => dst.addLinear nv p.2) e) := by
    intro l
    induction l with
    | nil => intro _ e h1 h2; exact ⟨h1, h2⟩
    | cons p t ih =>
      intro hl e h1 h2
      rw [List.foldl_cons]
      have ht := fun q hq => hl q (List.mem_cons_of_mem _ hq)
      cases hp : o2n p.1 with
      | none => exact ih ht _ (addOffset_wf h1 _) h2
      | some nv => exact ih ht _ (addLinear_wf h1 _ _) (addLinear_in h2 (ho _ (hl p List.mem_cons_self) _ hp) _)
  have quad : ∀ (l : List (Nat × Nat × Rat)), (∀ t ∈ l, src.vars.getD t.1 0 ∈ src.vars ∧ src.vars.getD t.2.1 0 ∈ src.vars) →
      ∀ e, ExprWF e → ExprIn n' e →
      ExprWF (l.foldl (fun dst t =>
        match o2n (src.vars.getD t.1 0), o2n (src.vars.getD t.2.1 0) with
        | none, none => dst.addOffset (asg (src.vars.getD t.1 0) * asg (src.vars.getD t.2.1 0) * t.2.2)
        | none, some nv => dst.addLinear nv (asg (src.vars.getD t.1 0) * t.2.2)
        | some nu, none => dst.addLinear nu (asg (src.vars.getD t.2.1 0) * t.2.2)
        | some nu, some nv => dst.addQuadraticBack vtNew nu nv t.2.2) e)
      ∧ ExprIn n' (l.foldl (fun dst t =>
        match o2n (src.vars.getD t.1 0), o2n (src.vars.getD t.2.1 0) with
        | none, none => dst.addOffset (asg (src.vars.getD t.1 0) * asg (src.vars.getD t.2.1 0) * t.2.2)
        | none, some nv => dst.addLinear nv (asg (src.vars.getD t.1 0) * t.2.2)
        | some nu, none => dst.addLinear nu (asg (src.vars.getD t.2.1 0) * t.2.2)
        | some nu, some nv => dst.addQuadraticBack vtNew nu nv t.2.2) e) := by
    intro l
    induction l with
    | nil => intro _ e h1 h2; exact ⟨h1, h2⟩
    | cons t ts ih =>
      intro hl e h1 h2
      rw [List.foldl_cons]
      have hts := fun q hq => hl q (List.mem_cons_of_mem _ hq)
      have ht := hl t List.mem_cons_self
      cases hu : o2n (src.vars.getD t.1 0) with
      | none =>
        cases hv : o2n (src.vars.getD t.2.1 0) with
        | none => exact ih hts _ (addOffset_wf h1 _) h2
        | some nv => exact ih hts _ (addLinear_wf h1 _ _) (addLinear_in h2 (ho _ ht.2 _ hv) _)
      | some nu =>
        cases hv : o2n (src.vars.getD t.2.1 0) with
        | none => exact ih hts _ (addLinear_wf h1 _ _) (addLinear_in h2 (ho _ ht.1 _ hu) _)
        | some nv => exact ih hts _ (addQuadraticBack_wf h1 _ _ _ _) (addQuadraticBack_in h2 _ (ho _ ht.1 _ hu) (ho _ ht.2 _ hv) _)
  have h0 := lin (src.vars.zip src.qb.lin) (fun p hp => (List.of_mem_zip hp).1) (({} : Expr).addOffset src.qb.off)
    (addOffset_wf exprWF_empty _) (by intro g hg; cases hg)
  exact quad src.qb.lower (fun t ht => lower_in_range hsrc ht) _ h0.1 h0.2

theorem keptBelow_lt (isFixed : Nat → Bool) {n g : Nat} (hg : g < n) (hk : isFixed g = false) :
    keptBelow isFixed g < ((List.range n).filter (fun i => !isFixed i)).length := by
  unfold Cqm.keptBelow
  have hsplit : List.range n = List.range g ++ (List.range' g (n - g)) := by
    have : n = g + (n - g) := by omega
    conv => lhs; rw [this, List.range_add]
    congr 1
    rw [List.range'_eq_map_range]
  rw [hsplit, List.filter_append, List.length_append]
  have : 0 < ((List.range' g (n - g)).filter (fun i => !isFixed i)).length := by
    apply List.length_pos_of_mem (a := g)
    rw [List.mem_filter]
    refine ⟨?_, by simp [hk]⟩
    rw [List.mem_range']; exact ⟨0, by omega, by omega⟩
  omega

theorem fixCopy_wf {m m' : Cqm} (hwf : CqmWF m) {fixed : List (Label × Rat)} (h : m.fixVariablesCopy fixed = some m') : CqmWF m' := by
  unfold Cqm.fixVariablesCopy at h
  split_ifs at h
  simp only [Option.some.injEq] at h
  subst h
  have hn : m.numVars = m.vt.length := rfl
  have ho : ∀ (e : Expr), ExprIn m.vt.length e → ∀ g ∈ e.vars, ∀ k,
      (if ((fixed.map fun p => ((m.idx? p.1).getD 0, p.2)).any (·.1 = g)) = true then none
        else some (keptBelow (fun g => (fixed.map fun p => ((m.idx? p.1).getD 0, p.2)).any (·.1 = g)) g)) = some k →
      k < (((List.range m.numVars).filter (fun g => !((fixed.map fun p => ((m.idx? p.1).getD 0, p.2)).any (·.1 = g)))).map
              (m.vt.getD · .binary)).length := by
    intro e hin g hg k hk
    by_cases hfg : ((fixed.map fun p => ((m.idx? p.1).getD 0, p.2)).any (·.1 = g)) = true
    · rw [if_pos hfg] at hk; cases hk
    · rw [if_neg hfg] at hk
      rw [List.length_map, ← Option.some.inj hk]
      exact keptBelow_lt _ (by rw [hn]; exact hin g hg) (by simpa using hfg)
  apply cqmWF_mk
  · exact fixExpr_wf _ _ _ m.obj hwf.obj (ho m.obj hwf.obj_lt)
  · intro c hc
    obtain ⟨c0, hc0, rfl⟩ := List.mem_map.mp hc
    exact fixExpr_wf _ _ _ c0.e (hwf.cons c0 hc0) (ho c0.e (hwf.cons_lt c0 hc0))
  · simp
  · simp
  · simp
  · show m.clabels.length = (m.cons.map _).length
    rw [List.length_map]; exact hwf.clabels_len

end CqmP
