import DimodProofs.BqmUpdate

/-! Writes through a `VartypeView` of the other vartype: the view *sees exactly the edit*.  `viewP q tv` is the
    polynomial a view of vartype `tv` shows of data `q` (its readers: `viewLin`, `viewFactor`, `viewOff`).  Proved here:
    the offset setter and `add_linear` through a view of either vartype.  Core Lean only. -/

namespace Bqm

/-- what a view of vartype `tv` shows -/
def LPoly.viewP (q : LPoly) (tv : VT) : LPoly :=
  { vars := q.vars, lin := q.viewLin tv, quad := fun a b => (q.quad a b).map (q.viewFactor tv * ·), off := q.viewOff tv, vt := tv }

theorem viewP_self (q : LPoly) : q.viewP q.vt = q := by
  apply LPoly.ext' <;> try rfl
  · intro l; show q.viewLin q.vt l = q.lin l; unfold LPoly.viewLin; simp
  · intro a b
    show (q.quad a b).map (q.viewFactor q.vt * ·) = q.quad a b
    unfold LPoly.viewFactor
    cases q.quad a b with
    | none => rfl
    | some c => simp [Rat.one_mul]
  · show q.viewOff q.vt = q.off; unfold LPoly.viewOff; simp

/-- well-formedness of a label-keyed polynomial: what `absL` of a well-formed model satisfies -/
structure LWF (q : LPoly) : Prop where
  nodup : q.vars.Nodup
  lin0 : ∀ l, l ∉ q.vars → q.lin l = 0
  closed : ∀ a b, (q.quad a b).isSome → a ∈ q.vars ∧ b ∈ q.vars
  symm : ∀ a b, q.quad a b = q.quad b a
  noself : ∀ a, q.quad a a = none

theorem LWF.absL {m : Bqm} (i : Inv m) : LWF (absL m) := by
  refine ⟨i.nodup, ?_, ?_, quad_symm i, quad_self_none i⟩
  · intro l hl
    show m.linL l = 0
    unfold linL
    cases hk : m.indexOf? l with
    | none => rfl
    | some k => exact absurd ((mem_labels_iff m l).mpr ⟨k, hk⟩) hl
  · intro a b hs
    have hs' : (m.quadL a b).isSome := hs
    unfold quadL at hs'
    cases ha : m.indexOf? a with
    | none => rw [ha] at hs'; cases hs'
    | some x =>
      cases hb : m.indexOf? b with
      | none => rw [ha, hb] at hs'; cases hs'
      | some y => exact ⟨(mem_labels_iff m a).mpr ⟨x, ha⟩, (mem_labels_iff m b).mpr ⟨y, hb⟩⟩

/-! ### the offset through a view -/

def LPoly.viewSetOffset (q : LPoly) (tv : VT) (b : Rat) : LPoly :=
  if tv = q.vt then { q with off := b } else { q with off := q.off + (b - q.viewOff tv) }

theorem vSetOffset_refines {m : Bqm} (i : Inv m) (tv : VT) (b : Rat) :
    absL (m.vSetOffset tv b) = (absL m).viewSetOffset tv b ∧ Inv (m.vSetOffset tv b) := by
  unfold Bqm.vSetOffset LPoly.viewSetOffset
  rw [absL_vt, ← viewOff_absL i]
  split
  · exact ⟨rfl, i.withOff _⟩
  · exact ⟨rfl, i.withOff _⟩

theorem viewLin_withOff (q : LPoly) (x : Rat) (tv : VT) (l : Label) : ({ q with off := x } : LPoly).viewLin tv l = q.viewLin tv l := rfl
theorem sumLin_withOff (q : LPoly) (x : Rat) : ({ q with off := x } : LPoly).sumLin = q.sumLin := rfl
theorem sumQuad_withOff (q : LPoly) (x : Rat) : ({ q with off := x } : LPoly).sumQuad = q.sumQuad := rfl

/-- **the view sees the new offset** (and nothing else changes in what it shows) -/
theorem viewP_setOffset (q : LPoly) (tv : VT) (b : Rat) :
    (q.viewSetOffset tv b).viewP tv = { q.viewP tv with off := b } := by
  unfold LPoly.viewSetOffset
  by_cases h : tv = q.vt
  · rw [if_pos h]
    apply LPoly.ext' <;> try (first | rfl | (intro _; rfl) | (intro _ _; rfl))
    show ({ q with off := b } : LPoly).viewOff tv = b
    unfold LPoly.viewOff; simp [h]
  · rw [if_neg h]
    apply LPoly.ext' <;> try (first | rfl | (intro _; rfl) | (intro _ _; rfl))
    show ({ q with off := q.off + (b - q.viewOff tv) } : LPoly).viewOff tv = b
    unfold LPoly.viewOff
    simp only [h, if_false, sumLin_withOff, sumQuad_withOff]
    cases tv <;> simp only [] <;> grind

/-! ### sums under a pointwise change -/

theorem foldl_add_shift {α} (l : List α) (f : α → Rat) (z d : Rat) :
    l.foldl (fun a x => a + f x) (z + d) = l.foldl (fun a x => a + f x) z + d := by
  induction l generalizing z with
  | nil => rfl
  | cons x t ih =>
    simp only [List.foldl]
    have : z + d + f x = z + f x + d := by grind
    rw [this, ih]

theorem foldl_add_update (l : List Label) (hn : l.Nodup) (f g : Label → Rat) (v : Label) (d : Rat)
    (hv : g v = f v + d) (ho : ∀ x, x ≠ v → g x = f x) (z : Rat) :
    l.foldl (fun a x => a + g x) z = l.foldl (fun a x => a + f x) z + (if v ∈ l then d else 0) := by
  induction l generalizing z with
  | nil => simp [Rat.add_zero]
  | cons x t ih =>
    have hnt := (List.nodup_cons.mp hn).2
    have hxt := (List.nodup_cons.mp hn).1
    simp only [List.foldl]
    by_cases hx : x = v
    · have hvt : v ∉ t := by rw [← hx]; exact hxt
      have e : t.foldl (fun a y => a + g y) (z + g x) = t.foldl (fun a y => a + f y) (z + g x) := by
        apply foldl_congr_mem
        intro acc y hy
        have : y ≠ v := fun e => hvt (e ▸ hy)
        rw [ho y this]
      rw [e, hx, hv]
      have : z + (f v + d) = z + f v + d := by grind
      rw [this, foldl_add_shift]
      simp
    · rw [ho x hx, ih hnt]
      have hvx : ¬ v = x := fun e => hx e.symm
      simp [hvx]

/-! ### `add_linear` through a view -/

def LPoly.viewAddLinear (q : LPoly) (tv : VT) (v : Label) (b : Rat) : LPoly :=
  if tv = q.vt then q.addLinear v b else
  match tv with
  | .binary => let r := q.addLinear v (b / 2); { r with off := r.off + b / 2 }
  | .spin => let r := q.addLinear v (2 * b); { r with off := r.off - b }

theorem vAddLinear_refines {m : Bqm} (i : Inv m) (tv : VT) (v : Label) (b : Rat) :
    absL (m.vAddLinear tv v b) = (absL m).viewAddLinear tv v b ∧ Inv (m.vAddLinear tv v b) := by
  unfold Bqm.vAddLinear LPoly.viewAddLinear
  rw [absL_vt]
  split
  · exact ⟨addLinear_refines i.wf v b, i.addLinear v b⟩
  · cases tv with
    | binary =>
      simp only []
      have hoff : (m.addLinear v (b / 2)).off = (absL (m.addLinear v (b / 2))).off := rfl
      rw [absL_withOff, hoff, addLinear_refines i.wf]
      exact ⟨rfl, (i.addLinear v _).withOff _⟩
    | spin =>
      simp only []
      have hoff : (m.addLinear v (2 * b)).off = (absL (m.addLinear v (2 * b))).off := rfl
      rw [absL_withOff, hoff, addLinear_refines i.wf]
      exact ⟨rfl, (i.addLinear v _).withOff _⟩

theorem ne_bs : ¬ VT.binary = VT.spin := by intro e; cases e
theorem ne_sb : ¬ VT.spin = VT.binary := by intro e; cases e

theorem ensure_vars' (q : LPoly) (v : Label) : (q.ensure v).vars = if v ∈ q.vars then q.vars else q.vars ++ [v] := by
  unfold LPoly.ensure; split <;> rfl

/-- neighbours are unchanged by `add_linear` (a new variable has none) -/
theorem nbrs_addLinear {q : LPoly} (w : LWF q) (v : Label) (d : Rat) (l : Label) : (q.addLinear v d).nbrs l = q.nbrs l := by
  unfold LPoly.nbrs
  have hq : (q.addLinear v d).quad = q.quad := by unfold LPoly.addLinear; exact ensure_quad q v
  have hv : (q.addLinear v d).vars = (q.ensure v).vars := rfl
  rw [hq, hv]
  unfold LPoly.ensure
  by_cases hm : v ∈ q.vars
  · rw [if_pos hm]
  · rw [if_neg hm]
    show (q.vars ++ [v]).filterMap _ = _
    rw [List.filterMap_append]
    have : q.quad l v = none := by
      cases hc : q.quad l v with
      | none => rfl
      | some c => exact absurd (w.closed l v (by rw [hc]; rfl)).2 hm
    simp [this]

theorem sumNb_addLinear {q : LPoly} (w : LWF q) (v : Label) (d : Rat) (l : Label) : (q.addLinear v d).sumNb l = q.sumNb l := by
  unfold LPoly.sumNb; rw [nbrs_addLinear w]

theorem sumLin_addLinear {q : LPoly} (w : LWF q) (v : Label) (d : Rat) : (q.addLinear v d).sumLin = q.sumLin + d := by
  unfold LPoly.sumLin
  show ((q.ensure v).vars).foldl (fun a l => a + (if l = v then q.lin l + d else q.lin l)) 0 = _
  unfold LPoly.ensure
  by_cases hm : v ∈ q.vars
  · rw [if_pos hm]
    have := foldl_add_update q.vars w.nodup q.lin (fun l => if l = v then q.lin l + d else q.lin l) v d (by simp)
      (fun x hx => by simp [hx]) 0
    rw [this]; simp [hm]
  · rw [if_neg hm]
    show (q.vars ++ [v]).foldl _ 0 = _
    rw [List.foldl_append]
    have e : q.vars.foldl (fun a l => a + (if l = v then q.lin l + d else q.lin l)) 0 = q.vars.foldl (fun a l => a + q.lin l) 0 := by
      apply foldl_congr_mem
      intro acc y hy
      have : y ≠ v := fun e => hm (e ▸ hy)
      simp [this]
    rw [e]
    simp only [List.foldl, if_true]
    rw [w.lin0 v hm]
    grind

theorem pos_append_of_mem (vs : List Label) (v l : Label) (h : l ∈ vs) :
    (indexOfGo l (vs ++ [v]) 0).getD 0 = (indexOfGo l vs 0).getD 0 := by
  cases hi : indexOfGo l vs 0 with
  | none => exact absurd h ((indexOfGo_none l vs 0).mp hi)
  | some k => rw [indexOfGo_append_some l vs [v] 0 k hi]

theorem lower_addLinear {q : LPoly} (w : LWF q) (v : Label) (d : Rat) : (q.addLinear v d).lower = q.lower := by
  unfold LPoly.lower
  have hn : ∀ l, (q.addLinear v d).nbrs l = q.nbrs l := nbrs_addLinear w v d
  have hv : (q.addLinear v d).vars = (q.ensure v).vars := rfl
  simp only [hn]
  by_cases hm : v ∈ q.vars
  · have hvv : (q.addLinear v d).vars = q.vars := by rw [hv]; unfold LPoly.ensure; rw [if_pos hm]
    have hp : ∀ l, (q.addLinear v d).pos l = q.pos l := by intro l; unfold LPoly.pos; rw [hvv]
    simp only [hp, hvv]
  · have hvv : (q.addLinear v d).vars = q.vars ++ [v] := by rw [hv]; unfold LPoly.ensure; rw [if_neg hm]
    rw [hvv, List.flatMap_append]
    have hnv : q.nbrs v = [] := by
      unfold LPoly.nbrs
      apply filterMap_none
      intro x _
      cases hc : q.quad v x with
      | none => rfl
      | some c => exact absurd (w.closed v x (by rw [hc]; rfl)).1 hm
    simp only [List.flatMap_cons, List.flatMap_nil, hnv, List.filter_nil, List.map_nil, List.append_nil]
    apply flatMap_congr_mem
    intro u hu
    congr 1
    apply filter_congr_mem
    intro lc hlc
    have hmem : lc.1 ∈ q.vars := by
      have := mem_nbrs (show (lc.1, lc.2) ∈ q.nbrs u from hlc)
      exact (w.closed u lc.1 (by rw [this]; rfl)).2
    have p1 : (q.addLinear v d).pos lc.1 = q.pos lc.1 := by
      unfold LPoly.pos; rw [hvv]; exact pos_append_of_mem q.vars v lc.1 hmem
    have p2 : (q.addLinear v d).pos u = q.pos u := by
      unfold LPoly.pos; rw [hvv]; exact pos_append_of_mem q.vars v u hu
    rw [p1, p2]

theorem sumQuad_addLinear {q : LPoly} (w : LWF q) (v : Label) (d : Rat) : (q.addLinear v d).sumQuad = q.sumQuad := by
  unfold LPoly.sumQuad; rw [lower_addLinear w]

/-- **the view sees `add_linear(v, b)`** -/
theorem viewP_addLinear {q : LPoly} (w : LWF q) (tv : VT) (v : Label) (b : Rat) :
    (q.viewAddLinear tv v b).viewP tv = (q.viewP tv).addLinear v b := by
  unfold LPoly.viewAddLinear
  by_cases h : tv = q.vt
  · rw [if_pos h, h]
    have e : (q.addLinear v b).vt = q.vt := by unfold LPoly.addLinear; exact ensure_vt q v
    rw [← e, viewP_self, e, viewP_self]
  · rw [if_neg h]
    have evt : ∀ d, (q.addLinear v d).vt = q.vt := by intro d; unfold LPoly.addLinear; exact ensure_vt q v
    have eoff : ∀ d, (q.addLinear v d).off = q.off := by intro d; unfold LPoly.addLinear; exact ensure_off q v
    have equad : ∀ d, (q.addLinear v d).quad = q.quad := by intro d; unfold LPoly.addLinear; exact ensure_quad q v
    have elin : ∀ d l, (q.addLinear v d).lin l = if l = v then q.lin l + d else q.lin l := fun _ _ => rfl
    cases tv with
    | binary =>
      have hvt : q.vt = .spin := by cases hq : q.vt with | spin => rfl | binary => rw [hq] at h; exact absurd rfl h
      simp only []
      apply LPoly.ext'
      · show (q.ensure v).vars = ((q.viewP .binary).ensure v).vars
        rw [ensure_vars', ensure_vars']; rfl
      · intro l
        show ({ q.addLinear v (b / 2) with off := (q.addLinear v (b / 2)).off + b / 2 } : LPoly).viewLin .binary l =
          if l = v then q.viewLin .binary l + b else q.viewLin .binary l
        unfold LPoly.viewLin
        show (if VT.binary = (q.addLinear v (b / 2)).vt then _ else 2 * (q.addLinear v (b / 2)).lin l - 2 * (q.addLinear v (b / 2)).sumNb l) = _
        rw [evt, hvt, sumNb_addLinear w, elin]
        simp only [ne_bs, if_false]
        by_cases hl : l = v
        · simp only [hl, if_true]; grind
        · simp only [hl, if_false]
      · intro x y
        show ((q.addLinear v (b / 2)).quad x y).map _ = ((q.viewP .binary).ensure v).quad x y
        rw [equad, ensure_quad]
        show _ = (q.quad x y).map _
        unfold LPoly.viewFactor
        show (q.quad x y).map (fun c => (if VT.binary = (q.addLinear v (b / 2)).vt then (1 : Rat) else 4) * c) = _
        rw [evt]
      · show ({ q.addLinear v (b / 2) with off := (q.addLinear v (b / 2)).off + b / 2 } : LPoly).viewOff .binary = ((q.viewP .binary).ensure v).off
        rw [ensure_off]
        show _ = q.viewOff .binary
        unfold LPoly.viewOff
        show (if VT.binary = (q.addLinear v (b / 2)).vt then _ else
          (q.addLinear v (b / 2)).off + b / 2 - (q.addLinear v (b / 2)).sumLin + (q.addLinear v (b / 2)).sumQuad) = _
        rw [evt, hvt, eoff, sumLin_addLinear w, sumQuad_addLinear w]
        simp only [ne_bs, if_false]
        grind
      · show VT.binary = ((q.viewP .binary).ensure v).vt
        rw [ensure_vt]; rfl
    | spin =>
      have hvt : q.vt = .binary := by cases hq : q.vt with | binary => rfl | spin => rw [hq] at h; exact absurd rfl h
      simp only []
      apply LPoly.ext'
      · show (q.ensure v).vars = ((q.viewP .spin).ensure v).vars
        rw [ensure_vars', ensure_vars']; rfl
      · intro l
        show ({ q.addLinear v (2 * b) with off := (q.addLinear v (2 * b)).off - b } : LPoly).viewLin .spin l =
          if l = v then q.viewLin .spin l + b else q.viewLin .spin l
        unfold LPoly.viewLin
        show (if VT.spin = (q.addLinear v (2 * b)).vt then _ else (q.addLinear v (2 * b)).lin l / 2 + (q.addLinear v (2 * b)).sumNb l / 4) = _
        rw [evt, hvt, sumNb_addLinear w, elin]
        simp only [ne_sb, if_false]
        by_cases hl : l = v
        · simp only [hl, if_true]; grind
        · simp only [hl, if_false]
      · intro x y
        show ((q.addLinear v (2 * b)).quad x y).map _ = ((q.viewP .spin).ensure v).quad x y
        rw [equad, ensure_quad]
        show _ = (q.quad x y).map _
        unfold LPoly.viewFactor
        show (q.quad x y).map (fun c => (if VT.spin = (q.addLinear v (2 * b)).vt then (1 : Rat) else 1 / 4) * c) = _
        rw [evt]
      · show ({ q.addLinear v (2 * b) with off := (q.addLinear v (2 * b)).off - b } : LPoly).viewOff .spin = ((q.viewP .spin).ensure v).off
        rw [ensure_off]
        show _ = q.viewOff .spin
        unfold LPoly.viewOff
        show (if VT.spin = (q.addLinear v (2 * b)).vt then _ else
          (q.addLinear v (2 * b)).off - b + (q.addLinear v (2 * b)).sumLin / 2 + (q.addLinear v (2 * b)).sumQuad / 4) = _
        rw [evt, hvt, eoff, sumLin_addLinear w, sumQuad_addLinear w]
        simp only [ne_sb, if_false]
        grind
      · show VT.spin = ((q.viewP .spin).ensure v).vt
        rw [ensure_vt]; rfl

/-! ### at the level of the model: one call through a view = the edit on what the view shows -/

theorem view_setOffset {m : Bqm} (i : Inv m) (tv : VT) (b : Rat) :
    (absL (m.vSetOffset tv b)).viewP tv = { (absL m).viewP tv with off := b } ∧ Inv (m.vSetOffset tv b) := by
  have r := vSetOffset_refines i tv b
  rw [r.1, viewP_setOffset]
  exact ⟨rfl, r.2⟩

theorem view_addLinear {m : Bqm} (i : Inv m) (tv : VT) (v : Label) (b : Rat) :
    (absL (m.vAddLinear tv v b)).viewP tv = ((absL m).viewP tv).addLinear v b ∧ Inv (m.vAddLinear tv v b) := by
  have r := vAddLinear_refines i tv v b
  rw [r.1, viewP_addLinear (LWF.absL i)]
  exact ⟨rfl, r.2⟩

theorem addLinear_twice (q : LPoly) (v : Label) (b : Rat) :
    (q.addLinear v 0).addLinear v (b - (q.addLinear v 0).lin v) = q.setLinear v b := by
  have hv0 : (q.addLinear v 0).vars = (q.ensure v).vars := rfl
  apply LPoly.ext'
  · show ((q.addLinear v 0).ensure v).vars = (q.ensure v).vars
    rw [ensure_vars', hv0, ensure_vars']
    by_cases hm : v ∈ q.vars
    · simp [hm]
    · simp [hm]
  · intro l
    show (if l = v then (if l = v then q.lin l + 0 else q.lin l) + (b - (if v = v then q.lin v + 0 else q.lin v)) else
      (if l = v then q.lin l + 0 else q.lin l)) = if l = v then b else q.lin l
    by_cases hl : l = v
    · rw [hl]; simp only [if_true]; grind
    · simp [hl]
  · intro x y
    show ((q.addLinear v 0).ensure v).quad x y = (q.ensure v).quad x y
    rw [ensure_quad]; rfl
  · show ((q.addLinear v 0).ensure v).off = (q.ensure v).off
    rw [ensure_off]; rfl
  · show ((q.addLinear v 0).ensure v).vt = (q.ensure v).vt
    rw [ensure_vt]; rfl

/-- **`set_linear(v, b)` through a view**: the delta code of `VartypeView.set_linear` -/
theorem view_setLinear {m : Bqm} (i : Inv m) (tv : VT) (v : Label) (b : Rat) :
    (absL (m.vSetLinear tv v b)).viewP tv = ((absL m).viewP tv).setLinear v b ∧ Inv (m.vSetLinear tv v b) := by
  unfold Bqm.vSetLinear
  by_cases h : tv = m.vt
  · rw [if_pos h, h]
    have e1 : (absL (m.setLinear v b)).viewP m.vt = absL (m.setLinear v b) := by
      have := viewP_self (absL (m.setLinear v b))
      rw [show (absL (m.setLinear v b)).vt = m.vt from vt_setLinear m v b] at this
      exact this
    have e2 : (absL m).viewP m.vt = absL m := viewP_self (absL m)
    rw [e1, e2]
    exact ⟨setLinear_refines i.wf v b, i.setLinear v b⟩
  · rw [if_neg h]
    have r1 := view_addLinear i tv v 0
    have hmem : v ∈ (absL (m.vAddLinear tv v 0)).vars := by
      have := congrArg LPoly.vars r1.1
      have e : ((absL (m.vAddLinear tv v 0)).viewP tv).vars = (absL (m.vAddLinear tv v 0)).vars := rfl
      rw [← e, this]
      show v ∈ (((absL m).viewP tv).ensure v).vars
      rw [ensure_vars']; split
      · assumption
      · simp
    obtain ⟨k, hk⟩ := (mem_labels_iff _ v).mp hmem
    simp only [hk]
    have r2 := view_addLinear r1.2 tv v (b - (m.vAddLinear tv v 0).vGetLinear tv k)
    refine ⟨?_, r2.2⟩
    rw [r2.1, r1.1]
    have hkl : k < (m.vAddLinear tv v 0).labels.length := (indexOf?_some hk).1
    have hlab : (m.vAddLinear tv v 0).labels.getD k (.int 0) = v := by
      have := (indexOf?_some hk).2
      simp [List.getD, this]
    have hread : (m.vAddLinear tv v 0).vGetLinear tv k = (((absL m).viewP tv).addLinear v 0).lin v := by
      rw [← viewLin_absL r1.2 tv hkl, hlab]
      have := congrArg (fun q => LPoly.lin q v) r1.1
      exact this
    rw [hread]
    exact addLinear_twice _ v b

end Bqm
