import DimodProofs.ReduceGiven

/-! # C15: `HigherOrderComposite.sample_poly` with its options over an arbitrary child sampler (core Lean only) -/

namespace Red
open Pen

/-- `penalty_satisfaction` of a row: **all** product constraints hold -/
theorem penaltySatisfied_iff (reduction : List (Pair × Label)) (x : Label → Rat) :
    penaltySatisfied reduction x = true ↔ ∀ c ∈ reduction, x c.1.1 * x c.1.2 = x c.2 := by
  unfold penaltySatisfied
  simp [List.all_eq_true]

/-- **which rows `polymorph_response` returns, and what it reports for them** -/
theorem polymorphResponse_spec (poly : List (LTerm × Rat)) (reduction : List (Pair × Label)) (keep discard : Bool) (resp : Response) :
    (polymorphResponse poly reduction keep discard resp).length
        = (resp.rows.filter (fun x => !discard || penaltySatisfied reduction x)).length
    ∧ (∀ r ∈ polymorphResponse poly reduction keep discard resp, ∃ x ∈ resp.rows,
        (discard = true → ∀ c ∈ reduction, x c.1.1 * x c.1.2 = x c.2)
        ∧ r.cols = (if keep then resp.vars else polyVars poly).map (fun v => (v, x v))
        ∧ r.energy = polyEnergy x poly
        ∧ (r.sat = true ↔ (discard = true ∨ ∀ c ∈ reduction, x c.1.1 * x c.1.2 = x c.2)))
    ∧ (∀ x ∈ resp.rows, (discard = false ∨ ∀ c ∈ reduction, x c.1.1 * x c.1.2 = x c.2) →
        ∃ r ∈ polymorphResponse poly reduction keep discard resp,
          r.cols = (if keep then resp.vars else polyVars poly).map (fun v => (v, x v)) ∧ r.energy = polyEnergy x poly) := by
  unfold polymorphResponse
  refine ⟨by simp, ?_, ?_⟩
  · intro r hr
    simp only [List.mem_map, List.mem_filter] at hr
    obtain ⟨x, ⟨hx, hkeep⟩, rfl⟩ := hr
    refine ⟨x, hx, ?_, rfl, rfl, ?_⟩
    · intro hd
      rw [hd] at hkeep
      simp only [Bool.not_true, Bool.false_or] at hkeep
      exact (penaltySatisfied_iff reduction x).1 hkeep
    · simp only [Bool.or_eq_true, penaltySatisfied_iff]
  · intro x hx hcond
    refine ⟨_, List.mem_map.2 ⟨x, List.mem_filter.2 ⟨hx, ?_⟩, rfl⟩, rfl, rfl⟩
    rcases hcond with h | h
    · simp [h]
    · simp [(penaltySatisfied_iff reduction x).2 h]

/-- **`sample_poly` over the option grid, any child**: whenever it returns, the quadratic model handed to the
    child is `make_quadratic(poly, penalty_strength, poly.vartype)` on a fresh model, and the returned rows are
    `polymorph_response` of what the child returned — whatever `penalty_strength`, `keep_penalty_variables`,
    `discard_unsatisfied`, `initial_state` are -/
theorem samplePoly_spec (child : Bq Label → Option (List (Label × Rat)) → Response)
    (vt : VT) (raw : List (List Label × Rat)) (choices : List Pair)
    (strength : Rat) (keep discard : Bool) (init : Option (List (Label × Rat))) (out : List HocRow)
    (h : samplePoly child vt raw choices strength keep discard init = some out) :
    ∃ bag st auxs init', makeQuadratic [] vt strength raw choices = some (bag, st, auxs)
      ∧ (init = none → init' = none)
      ∧ out = polymorphResponse (normPoly vt raw) st.constraints keep discard (child ((Bq.empty vt : Bq Label).apply bag) init') := by
  unfold samplePoly at h
  split at h
  · simp at h
  · rename_i bag st auxs hmq
    simp only at h
    split at h
    · simp at h
    · rename_i i' hi
      simp only [Option.some.injEq] at h
      refine ⟨bag, st, auxs, i', hmq, ?_, h.symm⟩
      intro hnone
      subst hnone
      simp only [Option.some.injEq] at hi
      exact hi.symm

/-- hence **the energy reported for every returned row is the polynomial's energy of that row, and a row of the
    child is returned iff `discard_unsatisfied` is off or ALL its product constraints hold** — for every option -/
theorem samplePoly_rows (child : Bq Label → Option (List (Label × Rat)) → Response)
    (vt : VT) (raw : List (List Label × Rat)) (choices : List Pair)
    (strength : Rat) (keep discard : Bool) (init : Option (List (Label × Rat))) (out : List HocRow)
    (h : samplePoly child vt raw choices strength keep discard init = some out) :
    ∃ (st : BK) (resp : Response),
      (∀ r ∈ out, ∃ x ∈ resp.rows,
          (discard = true → ∀ c ∈ st.constraints, x c.1.1 * x c.1.2 = x c.2)
          ∧ r.cols = (if keep then resp.vars else polyVars (normPoly vt raw)).map (fun v => (v, x v))
          ∧ r.energy = polyEnergy x (normPoly vt raw)
          ∧ (r.sat = true ↔ (discard = true ∨ ∀ c ∈ st.constraints, x c.1.1 * x c.1.2 = x c.2)))
      ∧ (∀ x ∈ resp.rows, (discard = false ∨ ∀ c ∈ st.constraints, x c.1.1 * x c.1.2 = x c.2) →
          ∃ r ∈ out, r.cols = (if keep then resp.vars else polyVars (normPoly vt raw)).map (fun v => (v, x v))
            ∧ r.energy = polyEnergy x (normPoly vt raw))
      ∧ out.length = (resp.rows.filter (fun x => !discard || penaltySatisfied st.constraints x)).length := by
  obtain ⟨bag, st, auxs, init', _, _, hout⟩ := samplePoly_spec child vt raw choices strength keep discard init out h
  refine ⟨st, child ((Bq.empty vt : Bq Label).apply bag) init', ?_⟩
  have := polymorphResponse_spec (normPoly vt raw) st.constraints keep discard (child ((Bq.empty vt : Bq Label).apply bag) init')
  rw [← hout] at this
  exact ⟨this.2.1, this.2.2, this.1⟩

/-! ## `expand_initial_state` -/

theorem find_map_miss (l : List (Label × Rat)) (k k' : Label) (v : Rat) (hk : ¬ k' = k) :
    ((l.map (fun e => if e.1 = k then (k, v) else e)).find? (fun e => decide (e.1 = k'))).map (·.2)
      = (l.find? (fun e => decide (e.1 = k'))).map (·.2) := by
  induction l with
  | nil => rfl
  | cons b t ih =>
    rw [List.map_cons, List.find?_cons, List.find?_cons]
    by_cases hb : b.1 = k
    · have h1 : decide (((if b.1 = k then (k, v) else b) : Label × Rat).1 = k') = false := by
        rw [if_pos hb]; exact decide_eq_false (fun h => hk h.symm)
      have h2 : decide (b.1 = k') = false := decide_eq_false (fun h => hk (h.symm.trans hb))
      rw [h1, h2]; exact ih
    · rw [if_neg hb]
      by_cases hb' : b.1 = k'
      · rw [decide_eq_true hb']
      · rw [decide_eq_false hb']; exact ih

theorem find_map_hit (l : List (Label × Rat)) (k : Label) (v : Rat) (h : ∃ e ∈ l, e.1 = k) :
    ((l.map (fun e => if e.1 = k then (k, v) else e)).find? (fun e => decide (e.1 = k))).map (·.2) = some v := by
  induction l with
  | nil => obtain ⟨e, he, _⟩ := h; simp at he
  | cons b t ih =>
    rw [List.map_cons, List.find?_cons]
    by_cases hb : b.1 = k
    · have h1 : decide (((if b.1 = k then (k, v) else b) : Label × Rat).1 = k) = true := by
        rw [if_pos hb]; exact decide_eq_true rfl
      rw [h1]; rw [if_pos hb]; rfl
    · have h1 : decide (((if b.1 = k then (k, v) else b) : Label × Rat).1 = k) = false := by
        rw [if_neg hb]; exact decide_eq_false hb
      rw [h1]
      apply ih
      obtain ⟨e, he, hek⟩ := h
      simp only [List.mem_cons] at he
      rcases he with rfl | he
      · exact absurd hek hb
      · exact ⟨e, he, hek⟩

theorem getKey_setKey (l : List (Label × Rat)) (k : Label) (v : Rat) (k' : Label) :
    getKey (setKey l k v) k' = if k' = k then some v else getKey l k' := by
  unfold setKey getKey
  by_cases hany : l.any (fun e => e.1 = k) = true
  · rw [if_pos hany]
    have hex : ∃ e ∈ l, e.1 = k := by
      obtain ⟨e, he, h⟩ := List.any_eq_true.1 hany
      exact ⟨e, he, by simpa using h⟩
    by_cases hk : k' = k
    · subst hk; rw [if_pos rfl]; exact find_map_hit l k' v hex
    · rw [if_neg hk]; exact find_map_miss l k k' v hk
  · rw [if_neg hany]
    have hnone : ∀ e ∈ l, ¬ e.1 = k := by
      intro e he h; exact hany (List.any_eq_true.2 ⟨e, he, by simp [h]⟩)
    rw [List.find?_append]
    by_cases hk : k' = k
    · subst hk
      have : List.find? (fun e => decide (e.1 = k')) l = none := by
        rw [List.find?_eq_none]; intro e he; simp [hnone e he]
      rw [this, if_pos rfl]; simp
    · rw [if_neg hk]
      have h2 : List.find? (fun e => decide (e.1 = k')) [(k, v)] = none := by
        rw [List.find?_eq_none]; intro e he
        simp only [List.mem_singleton] at he; subst he
        simp only [decide_eq_true_eq]; exact fun h => hk h.symm
      rw [h2]; simp

/-- the labels an entry of the reduction reads and writes are not written by later entries, and an entry does
    not write what it reads (true for `make_quadratic`: `make_quadratic_names_fresh`) -/
def FreshRed : List (Pair × Label × Option Label) → Prop
  | [] => True
  | ((u, v), p, aux?) :: rest =>
    p ≠ u ∧ p ≠ v ∧ (∀ a, aux? = some a → a ≠ u ∧ a ≠ v ∧ a ≠ p)
    ∧ (∀ e ∈ rest, e.2.1 ≠ u ∧ e.2.1 ≠ v ∧ e.2.1 ≠ p ∧ ∀ a, e.2.2 = some a → a ≠ u ∧ a ≠ v ∧ a ≠ p)
    ∧ FreshRed rest

/-- **`expand_initial_state` gives a consistent state that extends the given one**: every label that is
    neither a product nor an auxiliary keeps its value, and every product variable equals the product of its
    two factors in the expanded state -/
theorem expandInitialState_consistent (b : Bq Label) (red : List (Pair × Label × Option Label)) (hf : FreshRed red)
    (st st' : List (Label × Rat)) (h : expandInitialState b red st = some st') :
    (∀ l, (∀ e ∈ red, l ≠ e.2.1 ∧ ∀ a, e.2.2 = some a → l ≠ a) → getKey st' l = getKey st l)
    ∧ (∀ e ∈ red, ∃ su sv, getKey st' e.1.1 = some su ∧ getKey st' e.1.2 = some sv ∧ getKey st' e.2.1 = some (su * sv)) := by
  induction red generalizing st with
  | nil =>
    simp only [expandInitialState, Option.some.injEq] at h
    subst h
    exact ⟨fun _ _ => rfl, by simp⟩
  | cons e rest ih =>
    obtain ⟨⟨u, v⟩, p, aux?⟩ := e
    obtain ⟨hpu, hpv, haux, hrest, hfr⟩ := hf
    simp only [expandInitialState] at h
    cases hu : getKey st u with
    | none => rw [hu] at h; simp at h
    | some su =>
      cases hv : getKey st v with
      | none => rw [hu, hv] at h; simp at h
      | some sv =>
        rw [hu, hv] at h
        simp only at h
        -- the state after the head entry
        have key : ∃ st2, expandInitialState b rest st2 = some st' ∧ getKey st2 u = some su ∧ getKey st2 v = some sv
            ∧ getKey st2 p = some (su * sv)
            ∧ ∀ l, l ≠ p → (∀ a, aux? = some a → l ≠ a) → getKey st2 l = getKey st l := by
          cases aux? with
          | none =>
            refine ⟨setKey st p (su * sv), h, ?_, ?_, ?_, ?_⟩
            · rw [getKey_setKey, if_neg (fun h' => hpu h'.symm), hu]
            · rw [getKey_setKey, if_neg (fun h' => hpv h'.symm), hv]
            · rw [getKey_setKey, if_pos rfl]
            · intro l hl _; rw [getKey_setKey, if_neg hl]
          | some a =>
            obtain ⟨hau, hav, hap⟩ := haux a rfl
            refine ⟨_, h, ?_, ?_, ?_, ?_⟩
            · rw [getKey_setKey, if_neg (fun h' => hau h'.symm), getKey_setKey, if_neg (fun h' => hpu h'.symm), hu]
            · rw [getKey_setKey, if_neg (fun h' => hav h'.symm), getKey_setKey, if_neg (fun h' => hpv h'.symm), hv]
            · rw [getKey_setKey, if_neg (fun h' => hap h'.symm), getKey_setKey, if_pos rfl]
            · intro l hl hla
              rw [getKey_setKey, if_neg (hla a rfl), getKey_setKey, if_neg hl]
        obtain ⟨st2, h2, h2u, h2v, h2p, h2o⟩ := key
        obtain ⟨ihk, ihc⟩ := ih hfr st2 h2
        have keep : ∀ l, (l = u ∨ l = v ∨ l = p) → getKey st' l = getKey st2 l := by
          intro l hl
          apply ihk
          intro e he
          obtain ⟨h1, h2', h3, h4⟩ := hrest e he
          rcases hl with rfl | rfl | rfl
          · exact ⟨fun h' => h1 h'.symm, fun a ha h' => (h4 a ha).1 h'.symm⟩
          · exact ⟨fun h' => h2' h'.symm, fun a ha h' => (h4 a ha).2.1 h'.symm⟩
          · exact ⟨fun h' => h3 h'.symm, fun a ha h' => (h4 a ha).2.2 h'.symm⟩
        constructor
        · intro l hl
          have h0 := hl ((u, v), p, aux?) (by simp)
          rw [ihk l (fun e he => hl e (by simp [he]))]
          exact h2o l h0.1 (fun a ha => h0.2 a ha)
        · intro e he
          simp only [List.mem_cons] at he
          rcases he with rfl | he
          · exact ⟨su, sv, by rw [keep u (Or.inl rfl)]; exact h2u, by rw [keep v (Or.inr (Or.inl rfl))]; exact h2v,
              by rw [keep p (Or.inr (Or.inr rfl))]; exact h2p⟩
          · exact ihc e he

end Red
