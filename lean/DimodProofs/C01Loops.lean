import DimodProofs.C01Labels

/-! # C01 — the label-level `energies` functions, expressions, polynomials -/

open Finset

namespace En

variable {R : Type} [CommRing R]

/-! ## `cyQMBase._energies` -/

theorem any_length_false (samples : List (List R)) (k : Nat) (h : ∀ r ∈ samples, r.length = k) :
    samples.any (fun r => decide (r.length ≠ k)) = false := by
  rw [List.any_eq_false]
  intro r hr
  simp [h r hr]

/-- `energies` of a BQM/QM: once every model label is found among the sample labels, each row's energy is
    the polynomial of the reported coefficients at `x u = row[position of label u]` -/
theorem cyEnergies_eq (m : QMB R) (hlen : ∀ a, m.adj = some a → a.length = m.lin.length)
    (ml sl : List Label) (samples : List (List R)) (hrows : ∀ r ∈ samples, r.length = sl.length)
    (q : List Nat) (hq : qmToSample ml sl = .ok q) :
    cyEnergies m ml samples sl = .ok (samples.map fun row => m.reportedEval (pick row q)) := by
  unfold cyEnergies
  rw [any_length_false samples sl.length hrows]
  simp only [Bool.false_eq_true, if_false, hq]
  congr 1
  apply List.map_congr_left
  intro row _
  rw [QMB.cyEnergy_eq_energy, QMB.energy_eq_reported m _ hlen]

/-- a sample that omits one of the model's variables is rejected with `ValueError` -/
theorem cyEnergies_missing (m : QMB R) (ml sl : List Label) (samples : List (List R))
    (hrows : ∀ r ∈ samples, r.length = sl.length) (h : ∃ v ∈ ml, v ∉ sl) :
    cyEnergies m ml samples sl = .error .value := by
  unfold cyEnergies
  rw [any_length_false samples sl.length hrows]
  simp [qmToSample_missing ml sl h]

/-! ## expressions -/

theorem reportedEval_no_variables (m : QMB R) (hlen : ∀ a, m.adj = some a → a.length = m.lin.length)
    (h0 : m.lin = []) (x : Nat → R) : m.reportedEval x = m.off := by
  unfold QMB.reportedEval polyEval QMB.iterQuadratic
  cases h : m.adj with
  | none => simp [h0, linSum, quadSum]
  | some a =>
    have : a = [] := by
      have := hlen a h
      rw [h0] at this
      exact List.length_eq_zero_iff.mp this
    simp [h0, this, linSum, quadSum, QMB.iterQuadraticFrom]

/-- `energies` of a CQM objective / constraint left-hand side (`cyexpression._energies`, after D2): every row's
    energy is the expression's reported polynomial at the values of *its own* variables — also for an
    expression without variables, where that polynomial is the offset -/
theorem exprEnergies_eq (e : Expr R) (hlen : ∀ a, e.qb.adj = some a → a.length = e.qb.lin.length)
    (hv : e.vars.length = e.qb.lin.length)
    (pl sl : List Label) (samples : List (List R)) (q : List Nat) (hq : exprReindex e pl sl = .ok q) :
    exprEnergies e pl samples sl = .ok (samples.map fun row => e.qb.reportedEval (pick row q)) := by
  unfold exprEnergies
  rw [hq]
  simp only []
  have hql : q.length = e.vars.length := by
    have := (qmToSample_ok _ _ q hq).1
    simpa using this
  by_cases h0 : q.length = 0
  · have hlin : e.qb.lin = [] := by
      apply List.length_eq_zero_iff.mp; omega
    simp only [h0, ne_eq, not_true_eq_false, if_false]
    congr 1
    apply List.map_congr_left
    intro row _
    rw [reportedEval_no_variables e.qb hlen hlin]
  · simp only [ne_eq, h0, not_false_eq_true, if_true]
    congr 1
    apply List.map_congr_left
    intro row _
    rw [QMB.energy_eq_reported _ _ hlen]

/-- a sample that omits one of the expression's variables is rejected -/
theorem exprEnergies_missing (e : Expr R) (pl sl : List Label) (samples : List (List R))
    (h : ∃ g ∈ e.vars, pl.getD g (.int (-1)) ∉ sl) :
    exprEnergies e pl samples sl = .error .value := by
  unfold exprEnergies exprReindex
  have : ∃ v ∈ e.vars.map (fun g => pl.getD g (.int (-1))), v ∉ sl := by
    obtain ⟨g, hg, hg'⟩ := h
    exact ⟨_, List.mem_map.mpr ⟨g, hg, rfl⟩, hg'⟩
  rw [qmToSample_missing _ _ this]

/-- `Expression::energy` (C++): the base loop on the sub-sample in the expression's own variable order -/
theorem Expr.energyCpp_eq (e : Expr R) (hlen : ∀ a, e.qb.adj = some a → a.length = e.qb.lin.length) (x : Nat → R) :
    e.energyCpp x = e.qb.reportedEval (fun i => x (e.vars.getD i 0)) := by
  unfold Expr.energyCpp
  rw [QMB.energy_eq_reported _ _ hlen]

/-! ## `BinaryPolynomial.energies` -/

theorem polyEnergy_foldl (x : Nat → R) (terms : List (List Nat × R)) (acc : R) :
    terms.foldl (fun en tb => if tb.1.length = 0 then en + tb.2 else en + termProd x tb.1 * tb.2) acc
      = acc + polySpec x terms := by
  induction terms generalizing acc with
  | nil => simp [polySpec]
  | cons tb rest ih =>
    obtain ⟨t, b⟩ := tb
    simp only [List.foldl_cons, polySpec]
    rw [ih]
    by_cases h : t.length = 0
    · have : t = [] := List.length_eq_zero_iff.mp h
      subst this
      simp [termProd]; ring
    · simp only [h, if_false]; ring

/-- `energy_poly_eq_sum`: the loop of `BinaryPolynomial.energies` (with its special case for the constant
    term) is Σ bias · Π values -/
theorem polyEnergy_eq (terms : List (List Nat × R)) (x : Nat → R) : polyEnergy terms x = polySpec x terms := by
  unfold polyEnergy
  rw [polyEnergy_foldl]; simp

end En
