import DimodProofs.Gates
import DimodModel.Reduce

/-! # C15 helper lemmas: the semantic reduction (core Lean only) -/

namespace Red
open Pen

section generic
variable {V : Type} [DecidableEq V]

/-! ## products over a term -/

theorem termVal_append (x : V → Rat) (a b : Term V) : termVal x (a ++ b) = termVal x a * termVal x b := by
  induction a with
  | nil => simp only [List.nil_append, termVal]; grind
  | cons v r ih => simp only [List.cons_append, termVal, ih]; grind

theorem filter_ne_self (r : List V) (a : V) (h : a ∉ r) : r.filter (fun y => decide (y ≠ a)) = r := by
  induction r with
  | nil => rfl
  | cons b t ih =>
    simp only [List.mem_cons, not_or] at h
    have hb : b ≠ a := fun e => h.1 e.symm
    rw [List.filter_cons, if_pos (by simpa using hb), ih h.2]

theorem length_filter_ne (l : List V) (w : V) (hl : l.Nodup) (hw : w ∈ l) :
    (l.filter (fun y => decide (y ≠ w))).length + 1 = l.length := by
  induction l with
  | nil => simp at hw
  | cons a r ih =>
    simp only [List.nodup_cons] at hl
    rw [List.filter_cons]
    by_cases haw : a = w
    · subst haw
      rw [if_neg (by simp), filter_ne_self r a hl.1]; simp
    · rw [if_pos (by simpa using haw)]
      have hw' : w ∈ r := by
        simp only [List.mem_cons] at hw
        rcases hw with h | h
        · exact absurd h.symm haw
        · exact h
      have := ih hl.2 hw'
      simp only [List.length_cons]; omega

theorem decide_gt_two (n : Nat) : decide (n > 2) = !decide (n ≤ 2) := by
  by_cases h : n ≤ 2 <;> simp [h] <;> omega

/-- pulling one variable out of a duplicate-free term -/
theorem termVal_remove (x : V → Rat) (t : Term V) (hnd : t.Nodup) (w : V) (hw : w ∈ t) :
    termVal x t = x w * termVal x (t.filter (fun y => y ≠ w)) := by
  induction t with
  | nil => simp at hw
  | cons a r ih =>
    simp only [List.nodup_cons] at hnd
    by_cases haw : a = w
    · subst haw
      have : r.filter (fun y => decide (y ≠ a)) = r := filter_ne_self r a hnd.1
      simp only [List.filter_cons, ne_eq, not_true_eq_false, decide_false, termVal, this]
      simp
    · have hw' : w ∈ r := by
        simp only [List.mem_cons] at hw
        rcases hw with h | h
        · exact absurd h.symm haw
        · exact h
      have := ih hnd.2 hw'
      simp only [List.filter_cons, ne_eq, haw, not_false_eq_true, decide_true, if_true, termVal, this]
      grind

theorem nodup_filter (t : Term V) (hnd : t.Nodup) (P : V → Bool) : (t.filter P).Nodup := hnd.filter P

/-- replacing `{u, v}` by `p` in a term does not change its value where `x p = x u · x v` -/
theorem termVal_subst (x : V → Rat) (u v p : V) (huv : u ≠ v) (t : Term V) (hnd : t.Nodup)
    (hu : u ∈ t) (hv : v ∈ t) (hp : x p = x u * x v) :
    termVal x (substTerm u v p t) = termVal x t := by
  unfold substTerm
  rw [termVal_append]
  have h1 := termVal_remove x t hnd u hu
  have hv' : v ∈ t.filter (fun y => y ≠ u) := by
    simp only [List.mem_filter, ne_eq, decide_not, Bool.not_eq_eq_eq_not, Bool.not_true, decide_eq_false_iff_not]
    exact ⟨hv, fun h => huv h.symm⟩
  have h2 := termVal_remove x _ (nodup_filter t hnd _) v hv'
  have hff : (t.filter (fun y => y ≠ u)).filter (fun y => y ≠ v) = t.filter (fun w => w ≠ u ∧ w ≠ v) := by
    rw [List.filter_filter]
    congr 1
    funext w
    simp only [ne_eq, decide_not, Bool.decide_and, Bool.and_comm]
  rw [hff] at h2
  simp only [termVal]
  rw [h1, h2, hp]
  grind

theorem nodup_subst (u v p : V) (t : Term V) (hnd : t.Nodup) (hp : p ∉ t) : (substTerm u v p t).Nodup := by
  unfold substTerm
  rw [List.nodup_append]
  refine ⟨nodup_filter t hnd _, by simp, ?_⟩
  intro a ha b hb
  simp only [List.mem_singleton] at hb
  subst hb
  intro h; subst h
  exact hp (List.mem_filter.1 ha).1

theorem length_subst (u v p : V) (huv : u ≠ v) (t : Term V) (hnd : t.Nodup) (hu : u ∈ t) (hv : v ∈ t) :
    (substTerm u v p t).length + 1 = t.length := by
  unfold substTerm
  have h1 := fun (l : Term V) (w : V) (hl : l.Nodup) (hw : w ∈ l) => length_filter_ne l w hl hw
  have hv' : v ∈ t.filter (fun y => y ≠ u) := by
    simp only [List.mem_filter, ne_eq, decide_not, Bool.not_eq_eq_eq_not, Bool.not_true, decide_eq_false_iff_not]
    exact ⟨hv, fun h => huv h.symm⟩
  have hff : (t.filter (fun y => y ≠ u)).filter (fun y => y ≠ v) = t.filter (fun w => w ≠ u ∧ w ≠ v) := by
    rw [List.filter_filter]
    congr 1
    funext w
    simp only [ne_eq, decide_not, Bool.decide_and, Bool.and_comm]
  have a1 := h1 t u hnd hu
  have a2 := h1 _ v (nodup_filter t hnd _) hv'
  rw [hff] at a2
  simp only [List.length_append, List.length_singleton]
  omega

/-! ## energies of lists of terms -/

theorem polyEnergy_append (x : V → Rat) (a b : List (Term V × Rat)) :
    polyEnergy x (a ++ b) = polyEnergy x a + polyEnergy x b := by
  induction a with
  | nil => simp only [List.nil_append, polyEnergy]; grind
  | cons t r ih => simp only [List.cons_append, polyEnergy, ih]; grind

theorem polyEnergy_filter_split (x : V → Rat) (l : List (Term V × Rat)) (P : Term V × Rat → Bool) :
    polyEnergy x (l.filter P) + polyEnergy x (l.filter (fun t => !P t)) = polyEnergy x l := by
  induction l with
  | nil => simp only [List.filter_nil, polyEnergy]; grind
  | cons t r ih =>
    simp only [List.filter_cons]
    cases hP : P t <;> simp only [hP, Bool.not_false, Bool.not_true, if_true, polyEnergy] <;> simp <;> grind

theorem polyEnergy_map_congr (x : V → Rat) (l : List (Term V × Rat)) (f : Term V → Term V)
    (h : ∀ tb ∈ l, termVal x (f tb.1) = termVal x tb.1) :
    polyEnergy x (l.map (fun tb => (f tb.1, tb.2))) = polyEnergy x l := by
  induction l with
  | nil => rfl
  | cons t r ih =>
    simp only [List.map_cons, polyEnergy]
    rw [h t (by simp), ih (fun tb htb => h tb (by simp [htb]))]

/-- state energy: everything that is still in the reduced polynomial -/
def HiLo.energy (x : V → Rat) (s : HiLo V) : Rat := polyEnergy x s.lo + polyEnergy x s.hi

/-- all higher-degree terms are duplicate-free -/
def HiLo.WF (s : HiLo V) : Prop := ∀ tb ∈ s.hi, tb.1.Nodup

/-- `p` does not occur in the terms still to be reduced -/
def HiLo.Fresh (s : HiLo V) (p : V) : Prop := ∀ tb ∈ s.hi, p ∉ tb.1

theorem hasPair_iff (u v : V) (t : Term V) : hasPair u v t = true ↔ u ∈ t ∧ v ∈ t := by
  simp [hasPair]

/-- **one substitution keeps the energy** at every assignment with `x p = x u · x v` -/
theorem step_energy (x : V → Rat) (u v p : V) (huv : u ≠ v) (s : HiLo V) (hwf : s.WF) (hp : x p = x u * x v) :
    (step u v p s).energy x = s.energy x := by
  unfold step HiLo.energy
  simp only [polyEnergy_append]
  have hnew : polyEnergy x ((s.hi.filter (fun tb => hasPair u v tb.1)).map (fun tb => (substTerm u v p tb.1, tb.2)))
      = polyEnergy x (s.hi.filter (fun tb => hasPair u v tb.1)) := by
    apply polyEnergy_map_congr x _ (substTerm u v p)
    intro tb htb
    simp only [List.mem_filter] at htb
    have hm := (hasPair_iff u v tb.1).1 htb.2
    exact termVal_subst x u v p huv tb.1 (hwf tb htb.1) hm.1 hm.2 hp
  have hsplit := polyEnergy_filter_split x s.hi (fun tb => hasPair u v tb.1)
  have hsplit2 := polyEnergy_filter_split x
    ((s.hi.filter (fun tb => hasPair u v tb.1)).map (fun tb => (substTerm u v p tb.1, tb.2))) (fun tb => decide (tb.1.length ≤ 2))
  have hgt : ∀ l : List (Term V × Rat), l.filter (fun tb => decide (tb.1.length > 2)) = l.filter (fun tb => !decide (tb.1.length ≤ 2)) := by
    intro l; congr 1; funext tb; exact decide_gt_two _
  rw [hgt]
  grind

theorem step_wf (u v p : V) (s : HiLo V) (hwf : s.WF) (hfresh : s.Fresh p) : (step u v p s).WF := by
  intro tb htb
  simp only [step, List.mem_append, List.mem_filter, List.mem_map] at htb
  rcases htb with ⟨h, _⟩ | ⟨⟨tb', ⟨h', _⟩, rfl⟩, _⟩
  · exact hwf tb h
  · exact nodup_subst u v p tb'.1 (hwf tb' h') (hfresh tb' h')

/-! ## degrees -/

theorem init_lo_deg (p : List (Term V × Rat)) : ∀ tb ∈ (HiLo.init p).lo, tb.1.length ≤ 2 := by
  intro tb h; simp only [HiLo.init, List.mem_filter, decide_eq_true_eq] at h; exact h.2

theorem step_lo_deg (u v p : V) (s : HiLo V) (h : ∀ tb ∈ s.lo, tb.1.length ≤ 2) : ∀ tb ∈ (step u v p s).lo, tb.1.length ≤ 2 := by
  intro tb htb
  simp only [step, List.mem_append, List.mem_filter, decide_eq_true_eq] at htb
  rcases htb with h1 | ⟨_, h2⟩
  · exact h tb h1
  · exact h2

theorem semReduce_lo_deg (choices : List (V × V × V)) (s : HiLo V) (h : ∀ tb ∈ s.lo, tb.1.length ≤ 2) :
    ∀ tb ∈ (semReduce choices s).lo, tb.1.length ≤ 2 := by
  induction choices generalizing s with
  | nil => exact h
  | cons c r ih => exact ih (step c.1 c.2.1 c.2.2 s) (step_lo_deg _ _ _ s h)

/-! ## sequences of choices -/

/-- a legal sequence: distinct pair members, product variable not among the terms still to be reduced -/
def Valid : List (V × V × V) → HiLo V → Prop
  | [], _ => True
  | c :: r, s => c.1 ≠ c.2.1 ∧ s.Fresh c.2.2 ∧ Valid r (step c.1 c.2.1 c.2.2 s)

/-- the assignment gives every introduced variable the product it stands for -/
def Consistent (x : V → Rat) (choices : List (V × V × V)) : Prop := ∀ c ∈ choices, x c.2.2 = x c.1 * x c.2.1

/-- **reduction keeps the energy** on consistent assignments, for every sequence of choices -/
theorem semReduce_energy (x : V → Rat) (choices : List (V × V × V)) (s : HiLo V) (hwf : s.WF)
    (hv : Valid choices s) (hc : Consistent x choices) :
    (semReduce choices s).energy x = s.energy x := by
  induction choices generalizing s with
  | nil => rfl
  | cons c r ih =>
    obtain ⟨huv, hfresh, hrest⟩ := hv
    have hx := hc c (by simp)
    have := ih (step c.1 c.2.1 c.2.2 s) (step_wf _ _ _ s hwf hfresh) hrest (fun c' hc' => hc c' (by simp [hc']))
    simp only [semReduce, List.foldl_cons] at this ⊢
    rw [this, step_energy x c.1 c.2.1 c.2.2 huv s hwf hx]

theorem init_energy (x : V → Rat) (p : List (Term V × Rat)) : (HiLo.init p).energy x = polyEnergy x p := by
  unfold HiLo.init HiLo.energy
  have := polyEnergy_filter_split x p (fun tb => decide (tb.1.length ≤ 2))
  have hgt : p.filter (fun tb => decide (tb.1.length > 2)) = p.filter (fun tb => !decide (tb.1.length ≤ 2)) := by
    congr 1; funext tb; exact decide_gt_two _
  rw [hgt]; exact this

end generic

section termination
variable {V : Type} [DecidableEq V]

theorem degSum_append (a b : List (Term V × Rat)) : degSum (a ++ b) = degSum a + degSum b := by
  induction a with
  | nil => simp [degSum]
  | cons t r ih => simp only [List.cons_append, degSum, ih]; omega

theorem degSum_filter_split (l : List (Term V × Rat)) (P : Term V × Rat → Bool) :
    degSum (l.filter P) + degSum (l.filter (fun t => !P t)) = degSum l := by
  induction l with
  | nil => rfl
  | cons t r ih =>
    simp only [List.filter_cons]
    cases hP : P t <;> simp [degSum] <;> omega

theorem degSum_filter_le (l : List (Term V × Rat)) (P : Term V × Rat → Bool) : degSum (l.filter P) ≤ degSum l := by
  have := degSum_filter_split l P; omega

/-- every rewritten term loses exactly one variable -/
theorem degSum_subst (u v p : V) (huv : u ≠ v) (l : List (Term V × Rat))
    (h : ∀ tb ∈ l, tb.1.Nodup ∧ u ∈ tb.1 ∧ v ∈ tb.1) :
    degSum (l.map (fun tb => (substTerm u v p tb.1, tb.2))) + l.length = degSum l := by
  induction l with
  | nil => rfl
  | cons t r ih =>
    have ht := h t (by simp)
    have := length_subst u v p huv t.1 ht.1 ht.2.1 ht.2.2
    have := ih (fun tb htb => h tb (by simp [htb]))
    simp only [List.map_cons, degSum, List.length_cons]; omega

/-- **progress measure**: a step removes at least one unit of total degree per term containing the pair -/
theorem step_measure (u v p : V) (huv : u ≠ v) (s : HiLo V) (hwf : s.WF) :
    (step u v p s).measure + (s.hi.filter (fun tb => hasPair u v tb.1)).length ≤ s.measure := by
  unfold HiLo.measure step
  simp only [degSum_append]
  have h1 := degSum_filter_split s.hi (fun tb => hasPair u v tb.1)
  have h2 := degSum_subst u v p huv (s.hi.filter (fun tb => hasPair u v tb.1)) (by
    intro tb htb
    simp only [List.mem_filter] at htb
    have hm := (hasPair_iff u v tb.1).1 htb.2
    exact ⟨hwf tb htb.1, hm.1, hm.2⟩)
  have h3 := degSum_filter_le ((s.hi.filter (fun tb => hasPair u v tb.1)).map (fun tb => (substTerm u v p tb.1, tb.2)))
    (fun tb => decide (tb.1.length > 2))
  omega

/-- every choice hits at least one higher-degree term (what `max(que)` guarantees: its count is ≥ 1) -/
def Progress : List (V × V × V) → HiLo V → Prop
  | [], _ => True
  | c :: r, s => (∃ tb ∈ s.hi, hasPair c.1 c.2.1 tb.1 = true) ∧ Progress r (step c.1 c.2.1 c.2.2 s)

/-- **termination bound**: a run that makes progress at every iteration has at most `measure` iterations -/
theorem semReduce_terminates (choices : List (V × V × V)) (s : HiLo V) (hwf : s.WF) (hv : Valid choices s) (hp : Progress choices s) :
    choices.length + (semReduce choices s).measure ≤ s.measure := by
  induction choices generalizing s with
  | nil => simp [semReduce]
  | cons c r ih =>
    obtain ⟨huv, hfresh, hrest⟩ := hv
    obtain ⟨⟨tb, htb, hpair⟩, hprog⟩ := hp
    have hm := step_measure c.1 c.2.1 c.2.2 huv s hwf
    have hpos : 1 ≤ (s.hi.filter (fun tb => hasPair c.1 c.2.1 tb.1)).length := by
      apply List.length_pos_of_mem (a := tb)
      simp only [List.mem_filter]; exact ⟨htb, hpair⟩
    have := ih (step c.1 c.2.1 c.2.2 s) (step_wf _ _ _ s hwf hfresh) hrest hprog
    simp only [semReduce, List.foldl_cons, List.length_cons] at this ⊢
    omega

/-- when nothing of degree > 2 is left, the measure is 0 and the reduced polynomial is `lo` -/
theorem measure_zero_iff (s : HiLo V) (hdeg : ∀ tb ∈ s.hi, tb.1.length > 2) : s.measure = 0 ↔ s.hi = [] := by
  unfold HiLo.measure
  constructor
  · intro h
    cases hs : s.hi with
    | nil => rfl
    | cons t r =>
      rw [hs] at h hdeg
      have := hdeg t (by simp)
      simp only [degSum] at h; omega
  · intro h; rw [h]; rfl

end termination

end Red
