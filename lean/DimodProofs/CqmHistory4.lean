import DimodProofs.CqmHistory3

/-! Property C05 — the history theorem for EVERY operation without side conditions: a relational specification step
    (`specRel`) that is the function `specStepFull` wherever that is defined and, for `flip_variable` of a BINARY variable,
    "substitute `x ↦ 1 − x` everywhere, then clear the mark of SOME constraints that were marked" (which ones is decided by
    `is_discrete`, an index-level observation). -/

namespace CqmP
open Expr Cqm

/-- `s'` is `s` with the discrete mark cleared on some constraints that had it; nothing else differs -/
def LCqm.ClearsSomeMarks (s s' : LCqm) : Prop :=
  s'.labels = s.labels ∧ s'.info = s.info ∧ s'.obj = s.obj
  ∧ List.Forall₂ (fun p p' => p'.1 = p.1 ∧ (p'.2 = p.2 ∨ (p.2.discrete = true ∧ p'.2 = { p.2 with discrete := false }))) s.cons s'.cons

theorem forall₂_zip_map2 {α γ β : Type} (R : α × β → α × β → Prop) (A B : γ → β) (h : ∀ a c, R (a, A c) (a, B c)) :
    ∀ (ls : List α) (cs : List γ), List.Forall₂ R (ls.zip (cs.map A)) (ls.zip (cs.map B)) := by
  intro ls
  induction ls with
  | nil => intro cs; simp
  | cons l t ih =>
    intro cs
    cases cs with
    | nil => simp
    | cons c cs' =>
      simp only [List.map_cons, List.zip_cons_cons]
      exact List.Forall₂.cons (h l c) (ih cs')

theorem abs_unmarkDiscreteWith (M : Cqm) (g : Nat) : (absCqm M).ClearsSomeMarks (absCqm (M.unmarkDiscreteWith g)) := by
  refine ⟨rfl, rfl, rfl, ?_⟩
  show List.Forall₂ _ (M.clabels.zip (M.cons.map (absCons M.labels)))
    (M.clabels.zip ((M.cons.map (fun c => if c.isDiscrete M.vt && c.e.hasVar g then { c with discrete := false } else c)).map (absCons M.labels)))
  rw [List.map_map]
  apply forall₂_zip_map2
  intro l c
  refine ⟨rfl, ?_⟩
  by_cases hc : (c.isDiscrete M.vt && c.e.hasVar g) = true
  · right
    have hd : c.discrete = true := by
      unfold Cons.isDiscrete at hc
      simp only [Bool.and_eq_true] at hc
      exact hc.1.1
    simp only [Function.comp, hc, if_true]
    exact ⟨hd, rfl⟩
  · left
    simp only [Function.comp, hc]
    rfl

/-- the relational specification step: the function `specStepFull` for every operation but `flip_variable`; a flip is
    `s ↦ −s` (SPIN) or `x ↦ 1 − x` followed by clearing some marks (BINARY) -/
def specRel (s : LCqm) (op : Op) (s' : LCqm) : Prop :=
  match op with
  | .flipVariable v =>
    s' = s.mapPolys (·.substitute v (-1) 0) ∨ (s.mapPolys (·.substitute v (-1) 1)).ClearsSomeMarks s'
  | op => specStepFull s op = some s'

theorem specRel_step {m : Cqm} (h : RefInv m) (op : Op) (hop : OpOK2 op) (hok : (m.step op).2 = none) :
    specRel (absCqm m) op (absCqm (m.step op).1) := by
  have hm : m.step op = ((m.step op).1, none) := Prod.ext rfl hok
  have key : ∀ s', specStepFull (absCqm m) op = some s' → specStepFull (absCqm m) op = some (absCqm (m.step op).1) := by
    intro s' hs
    rw [hs, specStepFull_refines h op hop s' hs hok]
  cases op with
  | flipVariable v =>
    obtain ⟨g, _, hcase⟩ := refines_flipVariable h.lab h.ks h.sorted v hm
    rcases hcase with ⟨_, habs⟩ | ⟨_, hm', habs⟩
    · exact Or.inl habs
    · right
      rw [hm', ← habs]
      exact abs_unmarkDiscreteWith _ g
  | setLowerBound v x =>
    obtain ⟨vt, lb, ub, hi, _⟩ := refines_setLowerBound h.wf h.lab v x hm
    exact key ((absCqm m).setInfo v (vt, x, ub)) (by simp [specStepFull, specStepAll, hi])
  | setUpperBound v x =>
    obtain ⟨vt, lb, ub, hi, _⟩ := refines_setUpperBound h.wf h.lab v x hm
    exact key ((absCqm m).setInfo v (vt, lb, x)) (by simp [specStepFull, specStepAll, hi])
  | changeVartype vt v => exact key _ (refines_changeVartypeF h vt v hm)
  | removeConstraint label cascade => cases cascade <;> exact key _ rfl
  | addVariable vt v lb ub => exact key _ rfl
  | setObjectiveModel mi => exact key _ rfl
  | setObjectiveTerms ts => exact key _ rfl
  | addConstraintModel mi sense rhs label copy weight pen => exact key _ rfl
  | addConstraintTerms ts sense rhs label weight pen => exact key _ rfl
  | addDiscreteModel mi label copy chk => exact key _ rfl
  | addDiscreteComparison mi sense rhs label copy chk => exact key _ rfl
  | addDiscreteVars vs label chk => exact key _ rfl
  | removeVariable v => exact key _ rfl
  | fixVariable v a => exact key _ rfl
  | fixVariables fixed => exact key _ rfl
  | spinToBinary => exact key _ rfl
  | relabelVariables mp => exact key _ rfl
  | relabelConstraints mp => exact key _ rfl
  | viewAddLinear w v b => exact key _ rfl
  | viewSetLinear w v b => exact key _ rfl
  | viewAddQuadratic w u v b => exact key _ rfl
  | viewRemoveInteraction w u v => exact key _ rfl
  | viewRemoveVariable w v => exact key _ rfl
  | viewSetOffset w b => exact key _ rfl
  | viewMarkDiscrete l mark => exact key _ rfl
  | viewSetWeight l weight pen => exact key _ rfl
  | deepcopy => exact key _ rfl

/-- a run of the relational specification -/
def RelRun (s : LCqm) : List Op → LCqm → Prop
  | [], s' => s' = s
  | op :: t, s' => ∃ s1, specRel s op s1 ∧ RelRun s1 t s'

theorem relRun_refines (ops : List Op) : ∀ {m : Cqm}, RefInv m → (∀ op ∈ ops, OpOK2 op) → Succeeds m ops →
    RelRun (absCqm m) ops (absCqm (m.run ops)) := by
  induction ops with
  | nil => intro m _ _ _; rfl
  | cons op t ih =>
    intro m h hops hsucc
    refine ⟨absCqm (m.step op).1, specRel_step h op (hops op List.mem_cons_self) hsucc.1, ?_⟩
    have : m.run (op :: t) = (m.step op).1.run t := by unfold Cqm.run; rw [List.foldl_cons]
    rw [this]
    exact ih (refInv_step h op (hops op List.mem_cons_self).ok) (fun o ho => hops o (List.mem_cons_of_mem _ ho)) hsucc.2

end CqmP
