import DimodProofs.CqmHistory2

/-! Property C05 — `relabel_variables(mapping)` as ONE function of the list of label-keyed polynomials, and the history fold
    over every `Cqm.Op`. -/

namespace CqmP
open Expr Cqm

/-- a polynomial with its labels renamed by `f` (read back through the first preimage among the labels `L` of the model;
    labels outside the image carry no term) -/
def LPoly.renameOn (L : List Label) (f : Label → Label) (p : LPoly) : LPoly :=
  { vars := p.vars.map f,
    lin := fun y => match L.find? (fun x => f x = y) with
      | some x => p.lin x
      | none => 0,
    quad := fun y z => match L.find? (fun x => f x = y), L.find? (fun x => f x = z) with
      | some x, some w => p.quad x w
      | _, _ => 0,
    off := p.off }

/-- `relabel_variables(mapping)` on the list of polynomials: the variable labels, the type/bounds table, the private orders
    and every coefficient are carried over to the new labels; constraint labels and attributes are untouched -/
def LCqm.relabelVariables (s : LCqm) (mp : List (Label × Label)) : LCqm :=
  { labels := s.labels.map (renameOf mp),
    info := fun y => match s.labels.find? (fun x => renameOf mp x = y) with
      | some x => s.info x
      | none => none,
    obj := s.obj.renameOn s.labels (renameOf mp),
    cons := s.cons.map fun p => (p.1, { p.2 with p := p.2.p.renameOn s.labels (renameOf mp) }) }

theorem absExpr_lin_zero {L : List Label} {y : Label} (hy : y ∉ L) (e : Expr) : (absExpr L e).lin y = 0 := by
  show (match findIdx y L 0 with | some g => e.linear g | none => 0) = 0
  rw [findIdx_none_iff.mpr hy]

theorem absExpr_quad_zero {L : List Label} {y z : Label} (h : y ∉ L ∨ z ∉ L) (e : Expr) : (absExpr L e).quad y z = 0 := by
  show (match findIdx y L 0, findIdx z L 0 with | some g, some h => e.quadratic g h | _, _ => 0) = 0
  rcases h with h | h
  · rw [findIdx_none_iff.mpr h]
  · rw [findIdx_none_iff.mpr h]
    cases findIdx y L 0 <;> rfl

theorem find?_pre {L : List Label} {f : Label → Label} {y : Label} :
    (∃ x, L.find? (fun x => decide (f x = y)) = some x ∧ x ∈ L ∧ f x = y)
    ∨ (L.find? (fun x => decide (f x = y)) = none ∧ y ∉ L.map f) := by
  cases h : L.find? (fun x => decide (f x = y)) with
  | some x =>
    left
    exact ⟨x, rfl, List.mem_of_find?_eq_some h, by simpa using List.find?_some h⟩
  | none =>
    right
    refine ⟨rfl, fun hm => ?_⟩
    obtain ⟨x, hx, hfx⟩ := List.mem_map.mp hm
    rw [List.find?_eq_none] at h
    exact absurd (by simpa using hfx) (h x hx)

/-- a polynomial read over the renamed labels is the renamed polynomial -/
theorem lpoly_rename_eq {L : List Label} {f : Label → Label} {L' : List Label} (hL' : L' = L.map f) (e' : Expr) (p : LPoly)
    (hv : (absExpr L' e').vars = p.vars.map f) (ho : (absExpr L' e').off = p.off)
    (hl : ∀ x ∈ L, (absExpr L' e').lin (f x) = p.lin x)
    (hq : ∀ x ∈ L, ∀ y ∈ L, (absExpr L' e').quad (f x) (f y) = p.quad x y) :
    absExpr L' e' = p.renameOn L f := by
  have hlin : (absExpr L' e').lin = (p.renameOn L f).lin := by
    funext y
    show _ = match L.find? (fun x => decide (f x = y)) with | some x => p.lin x | none => 0
    rcases find?_pre (L := L) (f := f) (y := y) with ⟨x, hx, hxm, hfx⟩ | ⟨hn, hnot⟩
    · rw [hx, ← hfx]; exact hl x hxm
    · rw [hn]; exact absExpr_lin_zero (hL' ▸ hnot) e'
  have hquad : (absExpr L' e').quad = (p.renameOn L f).quad := by
    funext y z
    show _ = match L.find? (fun x => decide (f x = y)), L.find? (fun x => decide (f x = z)) with
      | some x, some w => p.quad x w
      | _, _ => 0
    rcases find?_pre (L := L) (f := f) (y := y) with ⟨x, hx, hxm, hfx⟩ | ⟨hn, hnot⟩
    · rcases find?_pre (L := L) (f := f) (y := z) with ⟨w, hw, hwm, hfw⟩ | ⟨hn2, hnot2⟩
      · rw [hx, hw, ← hfx, ← hfw]; exact hq x hxm w hwm
      · rw [hx, hn2]; exact absExpr_quad_zero (Or.inr (hL' ▸ hnot2)) e'
    · rw [hn]; exact absExpr_quad_zero (Or.inl (hL' ▸ hnot)) e'
  cases hp : absExpr L' e' with
  | mk v l q o =>
    rw [hp] at hv ho hlin hquad
    simp only [] at hv ho hlin hquad
    unfold LPoly.renameOn
    simp only [LPoly.mk.injEq]
    exact ⟨hv, hlin, hquad, ho⟩

theorem refines_relabelVariablesF {m m' : Cqm} (h : RefInv m) (mp : List (Label × Label))
    (hstep : m.step (.relabelVariables mp) = (m', none)) : absCqm m' = (absCqm m).relabelVariables mp := by
  obtain ⟨a1, a2, a3, a4, a5, a6, a7, a8, a9⟩ := absCqm_relabelVariables h.wf h.lab.labels_nodup mp hstep
  have hL' : m'.labels = m.labels.map (renameOf mp) := a1
  refine lcqm_ext' a1 ?_ ?_ ?_
  · funext y
    show _ = match m.labels.find? (fun x => decide (renameOf mp x = y)) with | some x => (absCqm m).info x | none => none
    rcases find?_pre (L := m.labels) (f := renameOf mp) (y := y) with ⟨x, hx, hxm, hfx⟩ | ⟨hn, hnot⟩
    · rw [hx, ← hfx]; exact a2 x hxm
    · rw [hn]
      show (findIdx y m'.labels 0).map _ = none
      rw [findIdx_none_iff.mpr (hL' ▸ hnot)]; rfl
  · exact lpoly_rename_eq hL' m'.obj (absCqm m).obj a3 a4 a5 a6
  · show m'.clabels.zip (m'.cons.map (absCons m'.labels))
      = (m.clabels.zip (m.cons.map (absCons m.labels))).map fun p => (p.1, { p.2 with p := p.2.p.renameOn m.labels (renameOf mp) })
    rw [a7]
    have hlist : m'.cons.map (absCons m'.labels)
        = (m.cons.map (absCons m.labels)).map fun c => { c with p := c.p.renameOn m.labels (renameOf mp) } := by
      apply List.ext_getElem
      · simp [a8]
      · intro k hk1 hk2
        have hk : k < m.cons.length := by simpa using hk2
        have hk' : k < m'.cons.length := by rw [a8]; exact hk
        obtain ⟨b1, b2, b3, b4, b5, b6, b7, b8, b9⟩ := a9 k hk
        have e1 : m'.cons.getD k {} = m'.cons[k] := by simp [List.getD_eq_getElem?_getD, List.getElem?_eq_getElem hk']
        have e2 : m.cons.getD k {} = m.cons[k] := by simp [List.getD_eq_getElem?_getD, List.getElem?_eq_getElem hk]
        rw [e1, e2] at b1 b2 b3 b4
        rw [e1, e2] at b5 b6 b7 b8 b9
        simp only [List.getElem_map]
        have hp := lpoly_rename_eq hL' (m'.cons[k]).e (absCons m.labels m.cons[k]).p b1 b2 b3 b4
        unfold absCons at hp ⊢
        simp only [] at hp ⊢
        rw [hp, b5, b6, b7, b8, b9]
    rw [hlist, List.zip_map_right]
    apply List.map_congr_left
    intro p _
    rfl

/-- the specification's step for EVERY operation (`flip_variable` of a BINARY variable excepted: `none`) -/
def specStepFull (s : LCqm) : Op → Option LCqm
  | .relabelVariables mp => some (s.relabelVariables mp)
  | op => specStepAll s op

def specRunFull (s : LCqm) : List Op → Option LCqm
  | [] => some s
  | op :: t => (specStepFull s op).bind fun s' => specRunFull s' t

theorem specStepFull_refines {m : Cqm} (h : RefInv m) (op : Op) (hop : OpOK2 op) (s' : LCqm)
    (hs : specStepFull (absCqm m) op = some s') (hok : (m.step op).2 = none) : absCqm (m.step op).1 = s' := by
  have hm : m.step op = ((m.step op).1, none) := Prod.ext rfl hok
  by_cases hrel : ∃ mp, op = .relabelVariables mp
  · obtain ⟨mp, rfl⟩ := hrel
    injection hs with hs; rw [← hs]
    exact refines_relabelVariablesF h mp hm
  · have : specStepFull (absCqm m) op = specStepAll (absCqm m) op := by
      cases op <;> first | rfl | exact absurd ⟨_, rfl⟩ hrel
    rw [this] at hs
    exact specStepAll_refines h op hop s' hs hok

theorem specRunFull_refines (ops : List Op) : ∀ {m : Cqm}, RefInv m → (∀ op ∈ ops, OpOK2 op) → Succeeds m ops →
    ∀ s', specRunFull (absCqm m) ops = some s' → absCqm (m.run ops) = s' := by
  induction ops with
  | nil =>
    intro m _ _ _ s' hs
    injection hs
  | cons op t ih =>
    intro m h hops hsucc s' hs
    unfold Cqm.run
    rw [List.foldl_cons]
    simp only [specRunFull] at hs
    cases hstep : specStepFull (absCqm m) op with
    | none => rw [hstep] at hs; cases hs
    | some s1 =>
      rw [hstep] at hs
      have h1 := specStepFull_refines h op (hops op List.mem_cons_self) s1 hstep hsucc.1
      have hs' : specRunFull s1 t = some s' := hs
      rw [← h1] at hs'
      exact ih (refInv_step h op (hops op List.mem_cons_self).ok) (fun o ho => hops o (List.mem_cons_of_mem _ ho)) hsucc.2 s' hs'

end CqmP

