import DimodProofs.LpReader

/-! C12: kernel evaluation of the closed round trip `LpCpp.loads (Lp.dumps m) = normCqm m` on member 22 of `LpCpp.family`
(one model per module so that `lake build` evaluates the eight models in parallel; used by
`C12.cpp_reader_roundtrip_family_*_partial`). -/

namespace LpCpp

theorem family_member_22 : ∀ m ∈ familyOne 22, famOK m = true := by decide +kernel

end LpCpp
