import DimodModel.AsSamplesDispatch
import DimodProofs.Aggregate
import DimodProofs.Columns

/-! `as_samples`, every overload: the value delivered under a label in a row is the value the input gives that
    label in that row (`run_denotes`), for all nestings of iterators / lists. -/

namespace SSM
namespace Dispatch

theorem firstsAux_of_nodup [DecidableEq α] (seen l : List α) (hnd : l.Nodup) (hd : ∀ x ∈ l, x ∉ seen) :
    firstsAux seen l = l := by
  induction l generalizing seen with
  | nil => rfl
  | cons a l ih =>
    have ha : a ∉ seen := hd a (by simp)
    rw [List.nodup_cons] at hnd
    simp only [firstsAux, ha, if_false]
    rw [ih (a :: seen) hnd.2]
    intro x hx
    simp only [List.mem_cons, not_or]
    exact ⟨fun e => hnd.1 (e ▸ hx), hd x (by simp [hx])⟩

theorem firsts_of_nodup [DecidableEq α] (l : List α) (hnd : l.Nodup) : firsts l = l :=
  firstsAux_of_nodup [] l hnd (by simp)

theorem asLabels_of_nodup (b : Bool) (l : List Label) (hnd : l.Nodup) : asLabels b l = l := by
  unfold asLabels; split
  · exact firsts_of_nodup l hnd
  · rfl

theorem cell_nil_left (row : List Rat) (v : Label) (h : row = []) : cell [] row v = none := by
  subst h; simp [cell]

theorem cell_cons (a : Label) (ls : List Label) (x : Rat) (xs : List Rat) (v : Label) :
    cell (a :: ls) (x :: xs) v = if a = v then some x else cell ls xs v := by
  unfold cell
  rw [List.idxOf_cons]
  by_cases h : a = v
  · subst h; simp
  · have : (a == v) = false := by simpa using h
    simp [this, h]

theorem lookup_cons (a : Label) (x : Rat) (items : List (Label × Rat)) (v : Label) :
    lookup ((a, x) :: items) v = if a = v then some x else lookup items v := by
  unfold lookup
  by_cases h : a = v
  · subst h; simp
  · simp [List.find?_cons, h]

/-- a row read through its labels is the lookup in the zipped pairs -/
theorem cell_zip (labels : List Label) (row : List Rat) (v : Label) (hv : v ∈ labels) :
    cell labels row v = lookup (labels.zip row) v := by
  induction labels generalizing row with
  | nil => cases hv
  | cons a ls ih =>
    cases row with
    | nil => simp [cell, lookup]
    | cons x xs =>
      rw [cell_cons, List.zip_cons_cons, lookup_cons]
      by_cases h : a = v
      · simp [h]
      · simp only [h, if_false]
        exact ih xs (by simpa [Ne.symm h] using hv)

theorem zip_map_fst_snd (items : List (Label × Rat)) : (items.map (·.1)).zip (items.map (·.2)) = items := by
  induction items with
  | nil => rfl
  | cons a t ih => simp [ih]

/-- rows (read through `labels`) carry, label by label, the values the denoted rows give -/
def RowsMatch (labels : List Label) : List (List Rat) → List (List (Label × Rat)) → Prop
  | [], [] => True
  | row :: rows, d :: ds => (row.length = labels.length ∧ ∀ v ∈ labels, cell labels row v = lookup d v) ∧ RowsMatch labels rows ds
  | _, _ => False

theorem RowsMatch.append {labels : List Label} {r1 r2 : List (List Rat)} {d1 d2 : List (List (Label × Rat))}
    (h1 : RowsMatch labels r1 d1) (h2 : RowsMatch labels r2 d2) : RowsMatch labels (r1 ++ r2) (d1 ++ d2) := by
  induction r1 generalizing d1 with
  | nil => cases d1 with
    | nil => simpa using h2
    | cons _ _ => cases h1
  | cons row rows ih => cases d1 with
    | nil => cases h1
    | cons d ds => exact ⟨h1.1, ih h1.2⟩

theorem RowsMatch.length {labels : List Label} {r : List (List Rat)} {d : List (List (Label × Rat))}
    (h : RowsMatch labels r d) : r.length = d.length := by
  induction r generalizing d with
  | nil => cases d with
    | nil => rfl
    | cons _ _ => cases h
  | cons row rows ih => cases d with
    | nil => cases h
    | cons d ds => simp [ih h.2]

/-- rows as wide as the labels match their own zipped form -/
theorem RowsMatch.zip (labels : List Label) (rows : List (List Rat)) (h : ∀ row ∈ rows, row.length = labels.length) :
    RowsMatch labels rows (rows.map (zipRow labels)) := by
  induction rows with
  | nil => trivial
  | cons row rows ih =>
    refine ⟨⟨h row (by simp), fun v hv => cell_zip labels row v hv⟩, ih fun r hr => h r (by simp [hr])⟩

theorem RowsMatch.emptyLabels (rows : List (List Rat)) (D : List (List (Label × Rat))) (hlen : D.length = rows.length) :
    RowsMatch [] (rows.map fun _ => []) D := by
  induction rows generalizing D with
  | nil => cases D with
    | nil => trivial
    | cons _ _ => simp at hlen
  | cons row rows ih => cases D with
    | nil => simp at hlen
    | cons d ds => exact ⟨⟨rfl, fun v hv => by cases hv⟩, ih ds (by simpa using hlen)⟩

theorem finish_ok {dtype : Option DT} {elem : DT} {rows r' : List (List Rat)} {w w' : Nat} {dt : DT}
    (h : sampleArray.finish dtype elem rows w = .ok (r', w', dt)) : r' = rows ∧ w' = w := by
  unfold sampleArray.finish at h
  split at h
  · split at h
    · simp only [Except.ok.injEq, Prod.mk.injEq] at h; exact ⟨h.1.symm, h.2.1.symm⟩
    · split at h
      · simp only [Except.ok.injEq, Prod.mk.injEq] at h; exact ⟨h.1.symm, h.2.1.symm⟩
      · cases h
  · simp only [Except.ok.injEq, Prod.mk.injEq] at h; exact ⟨h.1.symm, h.2.1.symm⟩

/-- an accepted array-like: its rows as read by `_sample_array`, all as wide as `shape[1]` -/
theorem sampleArray_ok (a : ArrLike) (args : Args) (rows : List (List Rat)) (w : Nat) (dt : DT)
    (h : sampleArray a args = .ok (rows, w, dt)) :
    rows = a.rows2d.1 ∧ w = a.rows2d.2 ∧ ∀ row ∈ rows, row.length = w := by
  cases hs : a.shape with
  | d3 => simp [sampleArray, hs] at h
  | d0 x =>
    simp only [sampleArray, hs] at h
    obtain ⟨rfl, rfl⟩ := finish_ok h
    simp [ArrLike.rows2d, hs]
  | d1 row =>
    simp only [sampleArray, hs] at h
    split at h
    · rename_i he
      obtain ⟨rfl, rfl⟩ := finish_ok h
      simp [ArrLike.rows2d, hs, he]
    · rename_i he
      obtain ⟨rfl, rfl⟩ := finish_ok h
      simp [ArrLike.rows2d, hs, he]
  | d2 rows0 w0 =>
    simp only [sampleArray, hs] at h
    split at h
    · rename_i hall
      obtain ⟨rfl, rfl⟩ := finish_ok h
      simp only [ArrLike.rows2d, hs, true_and]
      simpa using hall
    · cases h

/-- `_as_samples_tuple`: the labels as given, every row read through them is the input's row -/
theorem tupleTail_good (args : Args) (a : ArrLike) (labels : List Label) (o : Out) (hnd : labels.Nodup)
    (h : tupleTail args a labels = .ok o) :
    o.labels = labels ∧ RowsMatch labels o.rows (a.rows2d.1.map (zipRow labels)) := by
  unfold tupleTail at h
  split at h
  · cases h
  · rename_i rows w dt hsa
    obtain ⟨hr, hw, hlen⟩ := sampleArray_ok a args rows w dt hsa
    rw [asLabels_of_nodup _ _ hnd] at h
    simp only at h
    split at h
    · split at h
      · rename_i hz
        simp only [Except.ok.injEq] at h
        subst h
        refine ⟨rfl, ?_⟩
        simp only
        rw [← hr]
        rcases Nat.mul_eq_zero.mp hz with h0 | h0
        · have : rows = [] := List.length_eq_zero_iff.mp h0
          subst this; trivial
        · have : labels = [] := List.length_eq_zero_iff.mp h0
          subst this
          exact RowsMatch.emptyLabels rows _ (by simp)
      · cases h
    · split at h
      · cases h
      · rename_i hne
        simp only [Except.ok.injEq] at h
        subst h
        refine ⟨rfl, ?_⟩
        simp only
        rw [← hr]
        have hl : labels.length = w := by simpa using hne
        exact RowsMatch.zip labels rows fun row hrow => by rw [hlen row hrow, hl]

/-- what every overload guarantees: distinct labels, rows carrying the denoted values -/
def Good (o : Out) (d : List (List (Label × Rat))) : Prop := o.labels.Nodup ∧ RowsMatch o.labels o.rows d

theorem dictForm_good (args : Args) (items : List (Label × Rat)) (flt : Bool) (o : Out)
    (hnd : (items.map (·.1)).Nodup) (h : dictForm args items flt = .ok o) :
    o.labels = items.map (·.1) ∧ Good o [items] := by
  unfold dictForm at h
  split at h
  · rename_i he
    have : items = [] := by simpa using he
    subst this
    simp only [Except.ok.injEq] at h
    subst h
    exact ⟨rfl, List.nodup_nil, ⟨rfl, fun v hv => by cases hv⟩, trivial⟩
  · rename_i he
    obtain ⟨hl, hm⟩ := tupleTail_good args _ _ o hnd h
    refine ⟨hl, by rw [hl]; exact hnd, ?_⟩
    rw [hl]
    have hne : (items.map (·.2)).isEmpty = false := by
      cases items with
      | nil => simp at he
      | cons _ _ => rfl
    simpa [ArrLike.rows2d, hne, zipRow, zip_map_fst_snd] using hm

theorem RowsMatch.congr {labels : List Label} {rows : List (List Rat)} {D D' : List (List (Label × Rat))}
    (h : RowsMatch labels rows D) (hlen : D.length = D'.length)
    (heq : ∀ (j : Nat) d d', D[j]? = some d → D'[j]? = some d' → ∀ v ∈ labels, lookup d v = lookup d' v) :
    RowsMatch labels rows D' := by
  induction rows generalizing D D' with
  | nil =>
    cases D with
    | nil => cases D' with
      | nil => trivial
      | cons _ _ => simp at hlen
    | cons _ _ => cases h
  | cons row rows ih =>
    cases D with
    | nil => cases h
    | cons d ds =>
      cases D' with
      | nil => simp at hlen
      | cons d' ds' =>
        refine ⟨⟨h.1.1, fun v hv => (h.1.2 v hv).trans (heq 0 d d' rfl rfl v hv)⟩, ?_⟩
        exact ih h.2 (by simpa using hlen) fun j a b ha hb => heq (j + 1) a b (by simpa using ha) (by simpa using hb)

theorem map_fst_pairs (labels : List Label) (f : Label → Rat) : (labels.map fun v => (v, f v)).map (·.1) = labels := by
  induction labels with
  | nil => rfl
  | cons a t ih => simp [ih]

theorem tupleMapping_good (args : Args) (items : List (Label × Rat)) (flt : Bool) (labels : List Label) (o : Out)
    (hnd : labels.Nodup) (h : tupleMappingForm args items flt labels = .ok o) :
    Good o [labels.map fun v => (v, (lookup items v).getD 0)] := by
  unfold tupleMappingForm at h
  split at h
  · rw [firsts_of_nodup labels hnd] at h
    split at h
    · cases h
    · rename_i o1 h1
      have hk := map_fst_pairs labels fun v => (lookup items v).getD 0
      obtain ⟨hl1, hg1⟩ := dictForm_good {} _ flt o1 (by rw [hk]; exact hnd) h1
      rw [hk] at hl1
      obtain ⟨hl, hm⟩ := tupleTail_good args _ _ o hnd h
      refine ⟨by rw [hl]; exact hnd, ?_⟩
      rw [hl]
      simp only [ArrLike.rows2d] at hm
      have hr1 := hg1.2
      rw [hl1] at hr1
      -- `o1` has exactly one row, which matches the dict
      cases hrows : o1.rows with
      | nil => rw [hrows] at hr1; cases hr1
      | cons row rest =>
        rw [hrows] at hr1 hm
        cases rest with
        | cons _ _ => exact absurd hr1.2 (by simp [RowsMatch])
        | nil =>
          refine RowsMatch.congr hm rfl ?_
          intro j d d' hd hd' v hv
          cases j with
          | zero =>
            simp only [List.map_cons, List.getElem?_cons_zero, Option.some.injEq] at hd hd'
            subst hd hd'
            rw [zipRow, ← cell_zip labels row v hv]
            exact hr1.1.2 v hv
          | succ j => simp at hd
  · cases h

theorem rangeLabels_nodup (w : Nat) : (rangeLabels w).Nodup := by
  unfold rangeLabels
  have := @List.nodup_range w
  rw [List.Nodup] at this ⊢
  rw [List.pairwise_map]
  exact this.imp fun {a b} hab e => hab (by simp only [Label.int.injEq] at e; exact Int.ofNat.inj e)

theorem rangeLabels_length (w : Nat) : (rangeLabels w).length = w := by simp [rangeLabels]

theorem array_good (args : Args) (a : ArrLike) (rows : List (List Rat)) (w : Nat) (dt : DT) (lv : Bool)
    (h : sampleArray a args = .ok (rows, w, dt)) :
    Good ⟨rows, w, dt, rangeLabels w, lv⟩ (a.rows2d.1.map (zipRow (rangeLabels a.rows2d.2))) := by
  obtain ⟨hr, hw, hlen⟩ := sampleArray_ok a args rows w dt h
  refine ⟨rangeLabels_nodup w, ?_⟩
  simp only
  rw [← hr, ← hw]
  exact RowsMatch.zip _ rows fun row hrow => by rw [hlen row hrow, rangeLabels_length]

theorem sampleset_good (args : Args) (labels : List Label) (rows : List (List Rat)) (dt : DT) (o : Out)
    (hnd : labels.Nodup) (hlen : ∀ row ∈ rows, row.length = labels.length)
    (h : samplesetForm args labels rows dt = .ok o) : Good o (rows.map (zipRow labels)) := by
  unfold samplesetForm at h
  simp only [Except.ok.injEq] at h
  subst h
  simp only [Good, asLabels_of_nodup _ _ hnd]
  exact ⟨hnd, RowsMatch.zip labels rows hlen⟩

/-- re-indexing a later element to the first element's label order keeps every labelled value -/
theorem RowsMatch.reindex {labels fl : List Label} {rows : List (List Rat)} {D : List (List (Label × Rat))}
    (hnd : labels.Nodup) (hsub : ∀ v ∈ fl, v ∈ labels) (h : RowsMatch labels rows D) :
    RowsMatch fl (rows.map fun row => gather row (fl.map (labels.idxOf ·))) D := by
  have hidx : ∀ i ∈ fl.map (labels.idxOf ·), i < labels.length := by
    intro i hi
    obtain ⟨w, hw, rfl⟩ := List.mem_map.mp hi
    exact List.idxOf_lt_length_iff.mpr (hsub w hw)
  have hg := gather_idxOf labels fl hsub
  induction rows generalizing D with
  | nil => cases D with
    | nil => trivial
    | cons _ _ => cases h
  | cons row rows ih => cases D with
    | nil => cases h
    | cons d ds =>
      refine ⟨⟨?_, ?_⟩, ih h.2⟩
      · rw [length_gather _ _ (by rw [h.1.1]; exact hidx)]; simp
      · intro v hv
        have := cell_gather labels row (fl.map (labels.idxOf ·)) v hnd h.1.1 hidx (by rw [hg]; exact hv)
        rw [hg] at this
        rw [this]
        exact h.1.2 v (hsub v hv)

/-- converted elements against their denotations, element by element -/
def AllGood : List (Except Err Out) → List (List (List (Label × Rat))) → Prop
  | [], [] => True
  | r :: rs, d :: ds => (∀ o, r = .ok o → Good o d) ∧ AllGood rs ds
  | _, _ => False

theorem stackRest_good (fl : List Label) (outs : List (Except Err Out)) (ds : List (List (List (Label × Rat))))
    (hall : AllGood outs ds) (more : List (List Rat)) (dt : Option DT) (h : stackRest fl outs = .ok (more, dt)) :
    RowsMatch fl more ds.flatten := by
  induction outs generalizing ds more dt with
  | nil =>
    cases ds with
    | nil => simp only [stackRest, Except.ok.injEq, Prod.mk.injEq] at h; rw [← h.1]; trivial
    | cons _ _ => cases hall
  | cons r rs ih =>
    cases ds with
    | nil => cases hall
    | cons d ds =>
      cases r with
      | error e => simp [stackRest] at h
      | ok o =>
        have hg := hall.1 o rfl
        simp only [stackRest] at h
        split at h
        · cases h
        · rename_i hc
          split at h
          · cases h
          · rename_i more' dt' hrest
            simp only [Except.ok.injEq, Prod.mk.injEq] at h
            rw [← h.1, List.flatten_cons]
            refine RowsMatch.append ?_ (ih ds hall.2 more' dt' hrest)
            by_cases he : o.labels = fl
            · simp only [he, if_true]; rw [← he]; exact hg.2
            · simp only [he, if_false]
              have hs : sameSet o.labels fl = true := by
                simp only [ne_eq, he, not_false_eq_true, decide_true, Bool.true_and, Bool.not_eq_true', Bool.not_eq_false] at hc
                simpa using hc
              simp only [sameSet, Bool.and_eq_true, List.all_eq_true, decide_eq_true_eq] at hs
              exact RowsMatch.reindex hg.1 hs.2 hg.2

theorem stackOuts_good (lv : Bool) (outs : List (Except Err Out)) (ds : List (List (List (Label × Rat))))
    (hall : AllGood outs ds) (o : Out) (h : stackOuts lv outs = .ok o) : Good o ds.flatten := by
  cases outs with
  | nil =>
    cases ds with
    | nil => simp only [stackOuts, Except.ok.injEq] at h; subst h; exact ⟨List.nodup_nil, trivial⟩
    | cons _ _ => cases hall
  | cons r rs =>
    cases ds with
    | nil => cases hall
    | cons d ds =>
      cases r with
      | error e => simp [stackOuts] at h
      | ok first =>
        have hg := hall.1 first rfl
        simp only [stackOuts] at h
        split at h
        · cases h
        · rename_i more dt hrest
          simp only [Except.ok.injEq] at h
          subst h
          simp only [Good, asLabels_of_nodup _ _ hg.1, List.flatten_cons]
          exact ⟨hg.1, RowsMatch.append hg.2 (stackRest_good first.labels rs ds hall.2 more dt hrest)⟩

theorem denoteAll_eq (l : List Form) : Form.denoteAll l = (l.map Form.denote).flatten := by
  induction l with
  | nil => simp [Form.denoteAll]
  | cons f fs ih => simp [Form.denoteAll, ih]

/-- **every overload, every nesting**: an accepted clean input comes back with distinct labels and, row by row and
    label by label, the values the input denotes -/
theorem run_good (f : Form) : ∀ (args : Args) (o : Out), f.Clean → run args f = .ok o → Good o f.denote := by
  apply Form.rec
    (motive_1 := fun f => ∀ (args : Args) (o : Out), f.Clean → run args f = .ok o → Good o f.denote)
    (motive_2 := fun l => ∀ (args : Args), Form.CleanAll l → AllGood (runAll args l) (l.map Form.denote))
  · intro items flt args o hc h
    simp only [run] at h
    simp only [Form.Clean] at hc
    simpa [Form.denote] using (dictForm_good args items flt o hc h).2
  · intro a args o _ h
    simp only [run] at h
    split at h
    · cases h
    · rename_i rows w dt hsa
      simp only [Except.ok.injEq] at h
      subst h
      simpa [Form.denote] using array_good args a rows w dt args.labelsVariables hsa
  · intro a labels args o hc h
    simp only [run] at h
    simp only [Form.Clean] at hc
    obtain ⟨hl, hm⟩ := tupleTail_good args a labels o hc h
    exact ⟨by rw [hl]; exact hc, by rw [hl]; simpa [Form.denote] using hm⟩
  · intro items flt labels args o hc h
    simp only [run] at h
    simp only [Form.Clean] at hc
    simpa [Form.denote] using tupleMapping_good args items flt labels o hc h
  · intro labels args o _ h
    simp [run] at h
  · intro k args o _ h
    simp [run] at h
  · intro labels rows dt args o hc h
    simp only [run] at h
    simp only [Form.Clean] at hc
    simpa [Form.denote] using sampleset_good args labels rows dt o hc.1 hc.2 h
  · intro l ih args o hc h
    simp only [run] at h
    simp only [Form.Clean] at hc
    simp only [Form.denote, denoteAll_eq]
    exact stackOuts_good _ _ _ (ih _ hc) o h
  · intro l ih args o hc h
    simp only [run] at h
    simp only [Form.Clean] at hc
    simp only [Form.denote]
    split at h
    · rename_i hm
      simp only [hm, if_true, denoteAll_eq]
      exact stackOuts_good _ _ _ (ih _ hc) o h
    · rename_i hm
      rw [if_neg hm]
      split at h
      · rename_i a hsa
        try simp only [hsa]
        split at h
        · cases h
        · rename_i rows w dt hsa2
          simp only [Except.ok.injEq] at h
          subst h
          simpa using array_good args a rows w dt args.labelsVariables hsa2
      · cases h
  · intro args _
    simp [runAll, AllGood]
  · intro f fs ihf ihfs args hc
    simp only [Form.CleanAll] at hc
    simp only [runAll, List.map_cons, AllGood]
    exact ⟨fun o ho => ihf args o hc.1 ho, ihfs args hc.2⟩

theorem RowsMatch.get {labels : List Label} {rows : List (List Rat)} {D : List (List (Label × Rat))}
    (h : RowsMatch labels rows D) (j : Nat) (row : List Rat) (d : List (Label × Rat))
    (hr : rows[j]? = some row) (hd : D[j]? = some d) :
    row.length = labels.length ∧ ∀ v ∈ labels, cell labels row v = lookup d v := by
  induction rows generalizing D j with
  | nil => simp at hr
  | cons r rs ih =>
    cases D with
    | nil => cases h
    | cons d0 ds =>
      cases j with
      | zero =>
        simp only [List.getElem?_cons_zero, Option.some.injEq] at hr hd
        subst hr hd
        exact h.1
      | succ j => exact ih h.2 j (by simpa using hr) (by simpa using hd)

/-! ### `copy` and `order` are carried through every call and read by none -/

theorem sampleArray_congr (a : ArrLike) (x y : Args) (h : x.dtype = y.dtype) : sampleArray a x = sampleArray a y := by
  simp only [sampleArray, h]

theorem tupleTail_congr (a : ArrLike) (labels : List Label) (x y : Args) (h : x.dtype = y.dtype)
    (h2 : x.labelsVariables = y.labelsVariables) : tupleTail x a labels = tupleTail y a labels := by
  simp only [tupleTail, sampleArray_congr a x y h, h2]

theorem dictForm_congr (items : List (Label × Rat)) (flt : Bool) (x y : Args) (h : x.dtype = y.dtype)
    (h2 : x.labelsVariables = y.labelsVariables) : dictForm x items flt = dictForm y items flt := by
  simp only [dictForm, tupleTail_congr _ _ x y h h2, h, h2]

theorem run_congr (f : Form) : ∀ (x y : Args), x.dtype = y.dtype → x.labelsVariables = y.labelsVariables → run x f = run y f := by
  apply Form.rec
    (motive_1 := fun f => ∀ (x y : Args), x.dtype = y.dtype → x.labelsVariables = y.labelsVariables → run x f = run y f)
    (motive_2 := fun l => ∀ (x y : Args), x.dtype = y.dtype → x.labelsVariables = y.labelsVariables → runAll x l = runAll y l)
  · intro items flt x y h h2; simp only [run, dictForm_congr items flt x y h h2]
  · intro a x y h h2; simp only [run, sampleArray_congr a x y h, h2]
  · intro a labels x y h h2; simp only [run, tupleTail_congr a labels x y h h2]
  · intro items flt labels x y h h2
    simp only [run, tupleMappingForm]
    split
    · split
      · rfl
      · rw [tupleTail_congr _ _ x y h h2]
    · rfl
  · intro labels x y _ _; simp only [run]
  · intro k x y _ _; simp only [run]
  · intro labels rows dt x y h h2; simp only [run, samplesetForm, h, h2]
  · intro l ih x y h h2
    simp only [run, h2]
    rw [ih { x with labelsVariables := false } { y with labelsVariables := false } h rfl]
  · intro l ih x y h h2
    simp only [run, h2]
    rw [ih { x with labelsVariables := false } { y with labelsVariables := false } h rfl]
    split
    · rfl
    · split
      · rename_i a _; rw [sampleArray_congr a x y h]
      · rfl
  · intro x y _ _; simp only [runAll]
  · intro f fs ihf ihfs x y h h2
    simp only [runAll, ihf x y h h2, ihfs x y h h2]

end Dispatch
end SSM
