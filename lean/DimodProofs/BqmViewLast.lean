import DimodProofs.BqmViewScale

/-! `remove_variable()` (no argument) and `change_vartype` issued through a `VartypeView` — property C04. -/

namespace Bqm

/-- `remove_variable()` through a view of the other vartype takes the last label and then runs exactly the code of
    `remove_variable(last)`; on a model without variables it raises and changes nothing -/
theorem view_removeLast_eq (m : Bqm) (tv : VT) (htv : tv ≠ m.vt) :
    m.step (.view tv) (.removeVariable none) =
      match m.labels.getLast? with
      | some l => m.step (.view tv) (.removeVariable (some l))
      | none => (m, some .value) := by
  show m.vRemoveVariable tv none = _
  cases hl : m.labels.getLast? with
  | none => simp only [vRemoveVariable, if_neg htv, hl]
  | some l =>
    show _ = m.vRemoveVariable tv (some l)
    simp only [vRemoveVariable, if_neg htv, hl]

/-- … hence the view shows the removal of its last variable (`LPoly.removeVariable`), the call returns and the
    invariant is kept -/
theorem view_removeLast {m : Bqm} (i : Inv m) (tv : VT) (htv : tv ≠ m.vt) (l : Label) (hl : m.labels.getLast? = some l) :
    (absL (m.step (.view tv) (.removeVariable none)).1).viewP tv = ((absL m).viewP tv).removeVariable l ∧
    (m.step (.view tv) (.removeVariable none)).2 = none ∧ Inv (m.step (.view tv) (.removeVariable none)).1 := by
  rw [view_removeLast_eq m tv htv, hl]
  obtain ⟨vi, hvi⟩ := indexOf?_isSome_of_mem m l (List.mem_of_getLast? hl)
  exact view_removeKey i tv l hvi htv

/-- `change_vartype` on a view object changes the view's own tag only: the data are untouched -/
theorem view_changeVartype (m : Bqm) (tv t : VT) : m.step (.view tv) (.changeVartype t) = (m, none) := rfl

end Bqm
