import DimodProofs.CqmFileProofs
import DimodProofs.JsonValue

/-! # The constraint directory names of a CQM archive, from the constraint labels

`to_file` names the directory of a constraint `json.dumps(serialize_variable(label))` with `/`
replaced by its `\u` escape.  For pairwise different labels these names satisfy everything the
archive round trip (`CqmWF.dirs`, `okLabel`) asks for, and `from_file` gets the labels back. -/

namespace FileFmt

theorem nodup_map_on {α β : Type} {f : α → β} : ∀ l : List α, (∀ x ∈ l, ∀ y ∈ l, f x = f y → x = y) → l.Nodup → (l.map f).Nodup
  | [], _, _ => List.nodup_nil
  | a :: t, hinj, hnd => by
    rw [List.nodup_cons] at hnd
    rw [List.map_cons, List.nodup_cons]
    refine ⟨fun hmem => ?_, nodup_map_on t (fun x hx y hy => hinj x (by simp [hx]) y (by simp [hy])) hnd.2⟩
    obtain ⟨y, hy, hfy⟩ := List.mem_map.mp hmem
    have := hinj y (by simp [hy]) a (by simp) hfy
    exact hnd.1 (this ▸ hy)

theorem loadsJ_nil : loadsJ [] = none := by decide

/-- what `json.loads` + `deserialize_variable` make of a directory name -/
def dirLabel (d : List Char) : Option FLabel := (loadsJ d).map deserializeLabel

theorem dirLabel_labelText (l : FLabel) (hl : JOK (serializeLabel l)) : dirLabel (labelText true l) = some l := by
  have := loads_labelText true l hl [] (by intro c hc; simp at hc)
  rwa [List.append_nil] at this

/-- **directory names from labels.**  For pairwise different labels (floats in `repr` form) the
    names `to_file` uses are free of `/`, non-empty, pairwise different, accepted by `json.loads`,
    and `deserialize_variable(json.loads(name))` is the label. -/
theorem dirs_of_labels (ls : List FLabel) (hok : ∀ l ∈ ls, JOK (serializeLabel l)) (hnd : ls.Nodup) :
    (∀ d ∈ ls.map (labelText true), pathSafe d ∧ d ≠ []) ∧ (ls.map (labelText true)).Nodup ∧
    (∀ l ∈ ls, (loadsJ (labelText true l)).isSome = true ∧ dirLabel (labelText true l) = some l) := by
  refine ⟨fun d hd => ?_, ?_, fun l hl => ?_⟩
  · obtain ⟨l, hl, rfl⟩ := List.mem_map.mp hd
    refine ⟨by unfold labelText; exact escapeSlash_safe _, fun he => ?_⟩
    have := dirLabel_labelText l (hok l hl)
    rw [he, dirLabel, loadsJ_nil] at this
    simp at this
  · refine nodup_map_on ls (fun x hx y hy hxy => ?_) hnd
    have h1 := dirLabel_labelText x (hok x hx)
    have h2 := dirLabel_labelText y (hok y hy)
    rw [hxy, h2] at h1
    exact (Option.some.inj h1).symm
  · have := dirLabel_labelText l (hok l hl)
    refine ⟨?_, this⟩
    unfold dirLabel at this
    cases h : loadsJ (labelText true l) with
    | none => rw [h] at this; simp at this
    | some v => rfl

end FileFmt
