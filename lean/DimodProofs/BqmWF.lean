import DimodProofs.BqmLists

/-! Well-formedness of the adjacency structure (`abc.h`'s representation invariant) and its
    preservation by the index-level primitives of the model.  Core Lean only. -/

namespace Bqm

abbrev AdjT := List (List (Nat × Rat))

/-- coefficient stored for the directed entry `(u, v)`; `none` = no entry -/
def coefAt (adj : AdjT) (u v : Nat) : Option Rat := nbhCoef (adj.getD u []) v

/-- The representation invariant of `QuadraticModelBase`'s adjacency for a model with `n` variables:
    one neighbourhood per variable, each strictly sorted by neighbour index, every neighbour index `< n`,
    each bias stored on both sides with the same value, no self-loop where `loopOK` forbids it
    (SPIN / BINARY variables). -/
structure AdjWF (n : Nat) (adj : AdjT) (loopOK : Nat → Bool) : Prop where
  len : adj.length = n
  sorted : ∀ u, NbSorted (adj.getD u [])
  bound : ∀ u v, (coefAt adj u v).isSome → v < n
  symm : ∀ u v, coefAt adj u v = coefAt adj v u
  noself : ∀ u, loopOK u = false → coefAt adj u u = none

theorem getD_of_ge {α} (l : List α) (d : α) (i : Nat) (h : l.length ≤ i) : l.getD i d = d := by
  simp [List.getD, List.getElem?_eq_none h]

theorem coefAt_of_ge (adj : AdjT) (u v : Nat) (h : adj.length ≤ u) : coefAt adj u v = none := by
  unfold coefAt
  rw [getD_of_ge _ _ _ h]; rfl

theorem AdjWF.bound_left {n adj l} (h : AdjWF n adj l) (u v : Nat) (hs : (coefAt adj u v).isSome) : u < n := by
  rcases Nat.lt_or_ge u n with hlt | hge
  · exact hlt
  · rw [coefAt_of_ge adj u v (by rw [h.len]; exact hge)] at hs; simp at hs

theorem coefAt_modifyAt (adj : AdjT) (i u v : Nat) (f : List (Nat × Rat) → List (Nat × Rat)) :
    coefAt (modifyAt adj i f) u v = if i = u ∧ u < adj.length then nbhCoef (f (adj.getD u [])) v else coefAt adj u v := by
  unfold coefAt
  rw [getD_modifyAt]
  split <;> rfl

theorem sorted_modifyAt (adj : AdjT) (i : Nat) (f : List (Nat × Rat) → List (Nat × Rat))
    (hs : ∀ u, NbSorted (adj.getD u [])) (hf : ∀ nb, NbSorted nb → NbSorted (f nb)) :
    ∀ u, NbSorted ((modifyAt adj i f).getD u []) := by
  intro u
  rw [getD_modifyAt]
  split
  · exact hf _ (hs u)
  · exact hs u

/-! ### empty model, new variable -/

theorem AdjWF.nil (l) : AdjWF 0 [] l where
  len := rfl
  sorted := by intro u; simp [NbSorted]
  bound := by intro u v h; simp [coefAt, nbhCoef] at h
  symm := by intro u v; simp [coefAt, nbhCoef]
  noself := by intro u _; simp [coefAt, nbhCoef]

theorem getD_append_empty (adj : AdjT) (u : Nat) : (adj ++ [[]]).getD u [] = adj.getD u [] := by
  rcases Nat.lt_or_ge u adj.length with h | h
  · simp [List.getD, List.getElem?_append_left h]
  · rw [getD_of_ge adj [] u h]
    rcases Nat.lt_or_ge adj.length u with h2 | h2
    · exact getD_of_ge _ _ _ (by simp; omega)
    · have : u = adj.length := by omega
      subst this
      simp [List.getD]

theorem coefAt_push (adj : AdjT) (u v : Nat) : coefAt (adj ++ [[]]) u v = coefAt adj u v := by
  unfold coefAt; rw [getD_append_empty]

theorem AdjWF.push {n adj l} (h : AdjWF n adj l) : AdjWF (n + 1) (adj ++ [[]]) l where
  len := by simp [h.len]
  sorted := by intro u; rw [getD_append_empty]; exact h.sorted u
  bound := by intro u v hs; rw [coefAt_push] at hs; have := h.bound u v hs; omega
  symm := by intro u v; simp only [coefAt_push]; exact h.symm u v
  noself := by intro u hu; rw [coefAt_push]; exact h.noself u hu

/-! ### symmetric add / set (`add_quadratic`, `set_quadratic` for `u ≠ v`) -/

def adjSym (adj : AdjT) (u v : Nat) (b : Rat) (set : Bool) : AdjT :=
  modifyAt (modifyAt adj u (fun nb => nbhAdd nb v b set)) v (fun nb => nbhAdd nb u b set)

theorem coefAt_adjSym {n adj l} (h : AdjWF n adj l) (u v : Nat) (b : Rat) (set : Bool)
    (hu : u < n) (hv : v < n) (hne : u ≠ v) (x y : Nat) :
    coefAt (adjSym adj u v b set) x y =
      if (x = u ∧ y = v) ∨ (x = v ∧ y = u) then some (if set then b else (coefAt adj u v).getD 0 + b)
      else coefAt adj x y := by
  unfold adjSym
  rw [coefAt_modifyAt, length_modifyAt]
  by_cases hxv : v = x
  · subst hxv
    have hlt : v < adj.length := by rw [h.len]; exact hv
    simp only [true_and, hlt, if_true]
    rw [getD_modifyAt_ne _ _ _ _ _ hne]
    rw [nbhCoef_nbhAdd _ _ _ _ _ (h.sorted v)]
    have hvu : ¬ v = u := fun e => hne e.symm
    by_cases hyu : y = u
    · subst hyu
      have e : nbhCoef (adj.getD v []) y = nbhCoef (adj.getD y []) v := h.symm v y
      rw [if_pos (rfl : y = y), if_pos (Or.inr rfl), e]; rfl
    · rw [if_neg hyu, if_neg (by simp [hvu, hyu])]; rfl
  · have hxv' : ¬ x = v := fun e => hxv e.symm
    simp only [hxv, false_and, if_false, hxv']
    rw [coefAt_modifyAt]
    by_cases hxu : u = x
    · subst hxu
      have hlt : u < adj.length := by rw [h.len]; exact hu
      simp only [true_and, hlt, if_true]
      rw [nbhCoef_nbhAdd _ _ _ _ _ (h.sorted u)]
      by_cases hyv : y = v
      · subst hyv
        rw [if_pos (rfl : y = y), if_pos (Or.inl rfl)]; rfl
      · rw [if_neg hyv, if_neg (by simp [hyv])]; rfl
    · have hxu' : ¬ x = u := fun e => hxu e.symm
      simp [hxu, hxu']

theorem AdjWF.adjSym {n adj l} (h : AdjWF n adj l) (u v : Nat) (b : Rat) (set : Bool)
    (hu : u < n) (hv : v < n) (hne : u ≠ v) : AdjWF n (adjSym adj u v b set) l where
  len := by simp [Bqm.adjSym, h.len]
  sorted := by
    unfold Bqm.adjSym
    apply sorted_modifyAt
    · apply sorted_modifyAt _ _ _ h.sorted
      intro nb hs; exact sorted_nbhAdd nb v b set hs
    · intro nb hs; exact sorted_nbhAdd nb u b set hs
  bound := by
    intro x y hs
    rw [coefAt_adjSym h u v b set hu hv hne] at hs
    split at hs
    · rename_i hc
      rcases hc with ⟨_, rfl⟩ | ⟨_, rfl⟩ <;> assumption
    · exact h.bound x y hs
  symm := by
    intro x y
    rw [coefAt_adjSym h u v b set hu hv hne, coefAt_adjSym h u v b set hu hv hne]
    by_cases hc : (x = u ∧ y = v) ∨ (x = v ∧ y = u)
    · have hc' : (y = u ∧ x = v) ∨ (y = v ∧ x = u) := by
        rcases hc with ⟨a, b⟩ | ⟨a, b⟩
        · right; exact ⟨b, a⟩
        · left; exact ⟨b, a⟩
      simp [hc, hc']
    · have hc' : ¬ ((y = u ∧ x = v) ∨ (y = v ∧ x = u)) := by
        intro hh; apply hc
        rcases hh with ⟨a, b⟩ | ⟨a, b⟩
        · right; exact ⟨b, a⟩
        · left; exact ⟨b, a⟩
      simp only [hc, hc', if_false]
      exact h.symm x y
  noself := by
    intro x hx
    rw [coefAt_adjSym h u v b set hu hv hne]
    have : ¬ ((x = u ∧ x = v) ∨ (x = v ∧ x = u)) := by
      intro hh
      rcases hh with ⟨a, b⟩ | ⟨a, b⟩
      · exact hne (a.symm.trans b)
      · exact hne (b.symm.trans a)
    simp only [this, if_false]
    exact h.noself x hx

/-! ### removing an interaction -/

def adjDrop (adj : AdjT) (u v : Nat) : AdjT :=
  modifyAt (modifyAt adj u (fun nb => nbhDrop nb v)) v (fun nb => nbhDrop nb u)

theorem coefAt_adjDrop (adj : AdjT) (u v : Nat) (hu : u < adj.length) (hv : v < adj.length) (x y : Nat) :
    coefAt (adjDrop adj u v) x y = if (x = u ∧ y = v) ∨ (x = v ∧ y = u) then none else coefAt adj x y := by
  unfold adjDrop
  rw [coefAt_modifyAt, length_modifyAt]
  by_cases hxv : v = x
  · subst hxv
    simp only [true_and, hv, if_true]
    rw [nbhCoef_nbhDrop]
    by_cases hyu : y = u
    · simp [hyu]
    · simp only [hyu, if_false, and_false, or_false]
      show coefAt (modifyAt adj u fun nb => nbhDrop nb v) v y = _
      rw [coefAt_modifyAt]
      by_cases huv : u = v
      · subst huv
        simp only [true_and, hu, if_true, nbhCoef_nbhDrop]
        by_cases hyv : y = u
        · exact absurd hyv hyu
        · simp [hyv, coefAt]
      · have : ¬ v = u := fun e => huv e.symm
        simp [huv, this]
  · have hxv' : ¬ x = v := fun e => hxv e.symm
    simp only [hxv, false_and, if_false, hxv', or_false]
    rw [coefAt_modifyAt]
    by_cases hxu : u = x
    · subst hxu
      simp only [true_and, hu, if_true, nbhCoef_nbhDrop]
      by_cases hyv : y = v
      · simp [hyv]
      · simp [hyv, coefAt]
    · have hxu' : ¬ x = u := fun e => hxu e.symm
      simp [hxu, hxu']

theorem AdjWF.adjDrop {n adj l} (h : AdjWF n adj l) (u v : Nat) (hu : u < n) (hv : v < n) :
    AdjWF n (adjDrop adj u v) l := by
  have hu' : u < adj.length := by rw [h.len]; exact hu
  have hv' : v < adj.length := by rw [h.len]; exact hv
  refine ⟨by simp [Bqm.adjDrop, h.len], ?_, ?_, ?_, ?_⟩
  · unfold Bqm.adjDrop
    apply sorted_modifyAt
    · apply sorted_modifyAt _ _ _ h.sorted
      intro nb hs; exact sorted_nbhDrop nb v hs
    · intro nb hs; exact sorted_nbhDrop nb u hs
  · intro x y hs
    rw [coefAt_adjDrop adj u v hu' hv'] at hs
    split at hs
    · simp at hs
    · exact h.bound x y hs
  · intro x y
    rw [coefAt_adjDrop adj u v hu' hv', coefAt_adjDrop adj u v hu' hv']
    by_cases hc : (x = u ∧ y = v) ∨ (x = v ∧ y = u)
    · have hc' : (y = u ∧ x = v) ∨ (y = v ∧ x = u) := by
        rcases hc with ⟨a, b⟩ | ⟨a, b⟩
        · right; exact ⟨b, a⟩
        · left; exact ⟨b, a⟩
      simp [hc, hc']
    · have hc' : ¬ ((y = u ∧ x = v) ∨ (y = v ∧ x = u)) := by
        intro hh; apply hc
        rcases hh with ⟨a, b⟩ | ⟨a, b⟩
        · right; exact ⟨b, a⟩
        · left; exact ⟨b, a⟩
      simp only [hc, hc', if_false]
      exact h.symm x y
  · intro x hx
    rw [coefAt_adjDrop adj u v hu' hv']
    split
    · rfl
    · exact h.noself x hx

/-! ### removing a variable -/

def adjRemove (adj : AdjT) (vi : Nat) : AdjT := (eraseIdx adj vi).map (nbhShift vi)

theorem getD_map_nil {α β} (l : List (List α)) (f : List α → List β) (hf : f [] = []) (j : Nat) :
    (l.map f).getD j [] = f (l.getD j []) := by
  simp only [List.getD, List.getElem?_map]
  cases l[j]? <;> simp [hf]

theorem coefAt_adjRemove (adj : AdjT) (vi x y : Nat) :
    coefAt (adjRemove adj vi) x y = coefAt adj (skip vi x) (skip vi y) := by
  unfold coefAt adjRemove
  rw [getD_map_nil _ _ (by simp [nbhShift]), getD_eraseIdx, nbhCoef_nbhShift]

theorem skip_inj (vi a b : Nat) (h : skip vi a = skip vi b) : a = b := by
  have h1 := unskip_skip vi a
  have h2 := unskip_skip vi b
  rw [h] at h1; rw [← h1, h2]

theorem AdjWF.adjRemove {n adj l} (h : AdjWF n adj l) (vi : Nat) (hvi : vi < n) :
    AdjWF (n - 1) (adjRemove adj vi) (fun x => l (skip vi x)) where
  len := by
    unfold Bqm.adjRemove
    rw [List.length_map, length_eraseIdx _ _ (by rw [h.len]; exact hvi), h.len]
  sorted := by
    intro u
    unfold Bqm.adjRemove
    rw [getD_map_nil _ _ (by simp [nbhShift]), getD_eraseIdx]
    exact sorted_nbhShift vi _ (h.sorted _)
  bound := by
    intro x y hs
    rw [coefAt_adjRemove] at hs
    have := h.bound _ _ hs
    unfold skip at this
    by_cases hy : y < vi
    · omega
    · simp [hy] at this; omega
  symm := by intro x y; rw [coefAt_adjRemove, coefAt_adjRemove]; exact h.symm _ _
  noself := by intro x hx; rw [coefAt_adjRemove]; exact h.noself _ hx

/-! ### scaling the biases -/

def adjScale (adj : AdjT) (s : Rat) : AdjT := adj.map (·.map fun p => (p.1, p.2 * s))

theorem nbhCoef_mapBias (nb : List (Nat × Rat)) (s : Rat) (v : Nat) :
    nbhCoef (nb.map fun p => (p.1, p.2 * s)) v = (nbhCoef nb v).map (· * s) := by
  induction nb with
  | nil => simp [nbhCoef]
  | cons p t ih =>
    obtain ⟨w, c⟩ := p
    simp only [List.map_cons, nbhCoef]
    by_cases h : w = v
    · simp [h]
    · simp only [h, if_false]; exact ih

theorem sorted_mapBias (nb : List (Nat × Rat)) (s : Rat) (h : NbSorted nb) :
    NbSorted (nb.map fun p => (p.1, p.2 * s)) := by
  unfold NbSorted at *
  rw [List.pairwise_map]
  exact h

theorem coefAt_adjScale (adj : AdjT) (s : Rat) (x y : Nat) :
    coefAt (adjScale adj s) x y = (coefAt adj x y).map (· * s) := by
  unfold coefAt adjScale
  rw [getD_map_nil _ _ (by simp), nbhCoef_mapBias]

theorem AdjWF.adjScale {n adj l} (h : AdjWF n adj l) (s : Rat) : AdjWF n (adjScale adj s) l where
  len := by simp [Bqm.adjScale, h.len]
  sorted := by
    intro u; unfold Bqm.adjScale
    rw [getD_map_nil _ _ (by simp)]
    exact sorted_mapBias _ s (h.sorted u)
  bound := by
    intro x y hs; rw [coefAt_adjScale] at hs
    exact h.bound x y (by simpa using hs)
  symm := by intro x y; rw [coefAt_adjScale, coefAt_adjScale, h.symm]
  noself := by intro x hx; rw [coefAt_adjScale, h.noself x hx]; rfl

end Bqm
