import DimodProofs.Pack
import DimodProofs.SortPerm

/-! The vectors form of a BQM (`to_numpy_vectors` → `from_numpy_vectors`) preserves every coefficient,
    whatever label order the sort produces; COO text round trip. -/

namespace Pack
open SSM

/-- the coefficient of the unordered pair `{u, v}` in a COO list (duplicates accumulate) -/
def coef (q : List (Nat × Nat × Rat)) (u v : Nat) : Rat :=
  ((q.filter fun t => (t.1 = u ∧ t.2.1 = v) ∨ (t.1 = v ∧ t.2.1 = u)).map (·.2.2)).sum

theorem sum_perm {l l' : List Rat} (h : l.Perm l') : l.sum = l'.sum := by
  induction h with
  | nil => rfl
  | cons a _ ih => simp [ih]
  | swap a b l => simp only [List.sum_cons]; rw [← Rat.add_assoc, ← Rat.add_assoc, Rat.add_comm a b]
  | trans _ _ ih1 ih2 => exact ih1.trans ih2

theorem coef_perm {q q' : List (Nat × Nat × Rat)} (h : q.Perm q') (u v : Nat) : coef q u v = coef q' u v :=
  sum_perm ((h.filter _).map _)

def sumIf (p : α → Bool) (f : α → Rat) (l : List α) : Rat := ((l.filter p).map f).sum

theorem sumIf_map (p : β → Bool) (f : β → Rat) (g : α → β) (l : List α) :
    sumIf p f (l.map g) = sumIf (p ∘ g) (f ∘ g) l := by
  simp only [sumIf, List.filter_map, List.map_map]

theorem sumIf_congr (p p' : α → Bool) (f f' : α → Rat) (l : List α) (h : ∀ a ∈ l, p a = p' a ∧ f a = f' a) :
    sumIf p f l = sumIf p' f' l := by
  induction l with
  | nil => rfl
  | cons a l ih =>
    have ih' := ih (fun b hb => h b (by simp [hb]))
    obtain ⟨h1, h2⟩ := h a (by simp)
    simp only [sumIf, List.filter_cons] at ih' ⊢
    rw [h1]
    cases p' a <;> simp [ih', h2]

def pairIs (u v : Nat) (t : Nat × Nat × Rat) : Bool := decide ((t.1 = u ∧ t.2.1 = v) ∨ (t.1 = v ∧ t.2.1 = u))

theorem coef_eq_sumIf (q : List (Nat × Nat × Rat)) (u v : Nat) : coef q u v = sumIf (pairIs u v) (·.2.2) q := rfl

/-- swapping row and column of some entries does not change any coefficient -/
theorem coef_map_swap (g : Nat × Nat × Rat → Nat × Nat × Rat)
    (hg : ∀ t, g t = t ∨ g t = (t.2.1, t.1, t.2.2)) (q : List (Nat × Nat × Rat)) (u v : Nat) :
    coef (q.map g) u v = coef q u v := by
  rw [coef_eq_sumIf, coef_eq_sumIf, sumIf_map]
  apply sumIf_congr
  intro t _
  rcases hg t with e | e
  · simp [Function.comp, e]
  · simp only [Function.comp, e, pairIs, and_true]
    apply decide_eq_decide.mpr
    constructor <;> rintro (⟨a, b⟩ | ⟨a, b⟩)
    · exact Or.inr ⟨b, a⟩
    · exact Or.inl ⟨b, a⟩
    · exact Or.inr ⟨b, a⟩
    · exact Or.inl ⟨b, a⟩

/-- re-indexing with a map that is injective on the indices in use carries the coefficients along -/
theorem coef_reindex (σ : Nat → Nat) (q : List (Nat × Nat × Rat)) (dom : Nat → Prop)
    (hinj : ∀ a b, dom a → dom b → σ a = σ b → a = b)
    (hq : ∀ t ∈ q, dom t.1 ∧ dom t.2.1) (u v : Nat) (hu : dom u) (hv : dom v) :
    coef (q.map fun t => (σ t.1, σ t.2.1, t.2.2)) (σ u) (σ v) = coef q u v := by
  rw [coef_eq_sumIf, coef_eq_sumIf, sumIf_map]
  apply sumIf_congr
  intro t ht
  obtain ⟨h1, h2⟩ := hq t ht
  refine ⟨?_, rfl⟩
  simp only [Function.comp, pairIs]
  apply decide_eq_decide.mpr
  constructor
  · rintro (⟨a, b⟩ | ⟨a, b⟩)
    · exact Or.inl ⟨hinj _ _ h1 hu a, hinj _ _ h2 hv b⟩
    · exact Or.inr ⟨hinj _ _ h1 hv a, hinj _ _ h2 hu b⟩
  · rintro (⟨a, b⟩ | ⟨a, b⟩) <;> simp [a, b]

theorem cooNormalise_swap (t : Nat × Nat × Rat) :
    (if t.1 > t.2.1 then (t.2.1, t.1, t.2.2) else t) = t ∨ (if t.1 > t.2.1 then (t.2.1, t.1, t.2.2) else t) = (t.2.1, t.1, t.2.2) := by
  split <;> simp

theorem fromVectors_swap (t : Nat × Nat × Rat) :
    (max t.1 t.2.1, min t.1 t.2.1, t.2.2) = t ∨ (max t.1 t.2.1, min t.1 t.2.1, t.2.2) = (t.2.1, t.1, t.2.2) := by
  by_cases h : t.1 ≤ t.2.1
  · by_cases e : t.1 = t.2.1
    · left
      obtain ⟨a, b, c⟩ := t
      simp only at e
      subst e
      simp
    · right; rw [Nat.max_eq_right h, Nat.min_eq_left h]
  · have h' : t.2.1 ≤ t.1 := by omega
    left; rw [Nat.max_eq_left h', Nat.min_eq_right h']

/-! ### the Python fallback: one permutation applied to three parallel arrays -/

theorem gather_zip_eq (a : List α) (b : List β) (idx : List Nat) (hl : a.length = b.length) (h : ∀ i ∈ idx, i < a.length) :
    gather (a.zip b) idx = (gather a idx).zip (gather b idx) := by
  induction idx with
  | nil => rfl
  | cons i idx ih =>
    have hi := h i (by simp)
    have hib : i < b.length := hl ▸ hi
    simp only [gather_cons, List.getElem?_zip_eq_some, List.getElem?_eq_getElem hi, List.getElem?_eq_getElem hib]
    have hz : (a.zip b)[i]? = some (a[i], b[i]) := by
      rw [List.getElem?_eq_getElem (by simp [hl, hib])]; simp
    rw [hz, ih (fun j hj => h j (by simp [hj]))]
    rfl

theorem zipWith_triples (rows cols : List Nat) (biases : List Rat) :
    (List.zipWith min rows cols).zip ((List.zipWith max rows cols).zip biases)
      = cooNormalise (rows.zip (cols.zip biases)) := by
  induction rows generalizing cols biases with
  | nil => simp [cooNormalise]
  | cons r rows ih =>
    cases cols with
    | nil => simp [cooNormalise]
    | cons c cols =>
      cases biases with
      | nil => simp [cooNormalise]
      | cons b biases =>
        simp only [List.zipWith_cons_cons, List.zip_cons_cons, cooNormalise, List.map_cons]
        have := ih cols biases
        simp only [cooNormalise] at this
        rw [this]
        congr 1
        by_cases h : r > c
        · simp only [h, if_true]; rw [Nat.min_eq_right (by omega), Nat.max_eq_left (by omega)]
        · simp only [h, if_false]; rw [Nat.min_eq_left (by omega), Nat.max_eq_right (by omega)]

/-- as coded, the sorted arrays zipped together are a permutation of the normalised input triples: every bias stays
    with its own (row, col) -/
theorem sortIndicesPy_perm (q : QVec) (h1 : q.rows.length = q.cols.length) (h2 : q.cols.length = q.biases.length) :
    (sortIndicesPy q).triples.Perm (cooNormalise q.triples) := by
  simp only [sortIndicesPy, QVec.triples]
  have hr : (List.zipWith min q.rows q.cols).length = q.rows.length := by simp [h1]
  have hc : (List.zipWith max q.rows q.cols).length = q.rows.length := by simp [h1]
  have hperm := argsortBy_perm (fun (a b : Nat × Nat) => decide (a.1 < b.1) || (decide (a.1 = b.1) && decide (a.2 ≤ b.2)))
    ((List.zipWith min q.rows q.cols).zip (List.zipWith max q.rows q.cols))
  have hlen : ((List.zipWith min q.rows q.cols).zip (List.zipWith max q.rows q.cols)).length = q.rows.length := by simp [h1]
  rw [hlen] at hperm
  have hlt : ∀ i ∈ lexsortPerm (List.zipWith min q.rows q.cols) (List.zipWith max q.rows q.cols), i < q.rows.length :=
    fun i hi => by simpa using hperm.mem_iff.mp hi
  rw [← gather_zip_eq _ _ _ (by rw [hc, ← h2, h1]) (by intro i hi; rw [hc]; exact hlt i hi),
    ← gather_zip_eq _ _ _ (by rw [hr]; simp [hc, ← h2, h1]) (by intro i hi; rw [hr]; exact hlt i hi), zipWith_triples]
  refine gather_perm _ _ ?_
  have : (cooNormalise (q.rows.zip (q.cols.zip q.biases))).length = q.rows.length := by simp [cooNormalise, h1, ← h2]
  rw [this]
  exact hperm

theorem cooSortPyArrays_perm (q : List (Nat × Nat × Rat)) : (cooSortPyArrays q).Perm (cooNormalise q) := by
  have hz : ∀ (l : List (Nat × Nat × Rat)), (⟨l.map (·.1), l.map (·.2.1), l.map (·.2.2)⟩ : QVec).triples = l := by
    intro l
    simp only [QVec.triples]
    induction l with
    | nil => rfl
    | cons t l ih => simp [ih]
  have h := sortIndicesPy_perm ⟨q.map (·.1), q.map (·.2.1), q.map (·.2.2)⟩ (by simp) (by simp)
  rw [hz q] at h
  exact h

/-- the vectors form keeps every coefficient: for any label order (a permutation `order` of the
    indices), after `to_numpy_vectors` (re-index, normalise, sort — either back-end) and
    `from_numpy_vectors`, the variable that was at index `u` sits at `order.idxOf u` with the same linear
    bias, every pair has the same quadratic bias, and the offset is the same -/
theorem vectors_roundtrip (b : BQMIdx) (order : List Nat) (py : Bool)
    (hperm : order.Perm (List.range b.lin.length)) (hq : ∀ t ∈ b.quad, t.1 < b.lin.length ∧ t.2.1 < b.lin.length) :
    (fromVectors (toVectors b order py)).offset = b.offset ∧
    (∀ u, u < b.lin.length → (fromVectors (toVectors b order py)).lin.getD (order.idxOf u) 0 = b.lin.getD u 0) ∧
    (∀ u v, u < b.lin.length → v < b.lin.length →
      coef (fromVectors (toVectors b order py)).quad (order.idxOf u) (order.idxOf v) = coef b.quad u v) := by
  have hmem : ∀ u, u < b.lin.length → u ∈ order := fun u hu => hperm.mem_iff.mpr (by simpa using hu)
  refine ⟨rfl, ?_, ?_⟩
  · intro u hu
    have hk : order.idxOf u < order.length := List.idxOf_lt_length_iff.mpr (hmem u hu)
    simp only [fromVectors, toVectors, List.getD, List.getElem?_map, List.getElem?_eq_getElem hk, Option.map_some,
      Option.getD_some, List.getElem_idxOf hk]
  · intro u v hu hv
    simp only [fromVectors, toVectors]
    rw [coef_map_swap _ fromVectors_swap]
    have hsorted : ∀ q : List (Nat × Nat × Rat), coef (if py then cooSortPyArrays q else cooSort q) (order.idxOf u) (order.idxOf v)
        = coef q (order.idxOf u) (order.idxOf v) := by
      intro q
      cases py
      · simp only [Bool.false_eq_true, if_false, cooSort]
        rw [coef_perm (List.mergeSort_perm _ _), cooNormalise, coef_map_swap _ cooNormalise_swap]
      · simp only [if_true]
        rw [coef_perm (cooSortPyArrays_perm _), cooNormalise, coef_map_swap _ cooNormalise_swap]
    rw [hsorted]
    refine coef_reindex (order.idxOf ·) b.quad (· ∈ order) ?_ (fun t ht => ⟨hmem _ (hq t ht).1, hmem _ (hq t ht).2⟩) u v (hmem u hu) (hmem v hv)
    intro a c ha hc e
    have h1 := List.getElem_idxOf (List.idxOf_lt_length_iff.mpr ha)
    have h2 := List.getElem_idxOf (List.idxOf_lt_length_iff.mpr hc)
    rw [← h1, ← h2]
    simp [e]

end Pack

namespace Pack

/-! ### COO -/

def linSum (t : List (Nat × Nat × Int)) (u : Nat) : Int := ((t.filter fun x => x.1 = u ∧ x.2.1 = u).map (·.2.2)).sum

def quadSum (t : List (Nat × Nat × Int)) (u v : Nat) : Int :=
  ((t.filter fun x => x.1 ≠ x.2.1 ∧ ((x.1 = u ∧ x.2.1 = v) ∨ (x.1 = v ∧ x.2.1 = u))).map (·.2.2)).sum

theorem linSum_append (a b : List (Nat × Nat × Int)) (u : Nat) : linSum (a ++ b) u = linSum a u + linSum b u := by
  simp [linSum, List.filter_append, List.sum_append]

theorem quadSum_append (a b : List (Nat × Nat × Int)) (u v : Nat) : quadSum (a ++ b) u v = quadSum a u v + quadSum b u v := by
  simp [quadSum, List.filter_append, List.sum_append]

/-- the diagonal entries among the lines written for first element `u0` -/
theorem linSum_row (lin : Nat → Int) (nz : Nat → Bool) (quad : Nat → Nat → Option Int) (u0 : Nat) (rest : List Nat)
    (h0 : u0 ∉ rest) (u : Nat) :
    linSum ((u0 :: rest).filterMap (cooEntry lin nz quad u0)) u = if u = u0 ∧ nz u0 = true then lin u0 else 0 := by
  have hrest : linSum (rest.filterMap (cooEntry lin nz quad u0)) u = 0 := by
    suffices h : (rest.filterMap (cooEntry lin nz quad u0)).filter (fun x => x.1 = u ∧ x.2.1 = u) = [] by
      unfold linSum; rw [h]; rfl
    rw [List.filter_eq_nil_iff]
    intro x hx
    obtain ⟨v, hv, he⟩ := List.mem_filterMap.mp hx
    have hne : u0 ≠ v := fun e => h0 (e ▸ hv)
    simp only [cooEntry, hne, if_false, Option.map_eq_some_iff] at he
    obtain ⟨b, _, rfl⟩ := he
    simp only [decide_eq_true_eq, not_and]
    intro e1 e2
    exact hne (e1.trans e2.symm)
  rw [List.filterMap_cons]
  simp only [cooEntry, if_true]
  by_cases hz : nz u0 = true
  · simp only [hz, if_true]
    rw [show ((u0, u0, lin u0) :: rest.filterMap (cooEntry lin nz quad u0)) = [(u0, u0, lin u0)] ++ rest.filterMap (cooEntry lin nz quad u0) from rfl,
      linSum_append, hrest]
    by_cases hu : u = u0
    · subst hu; simp [linSum]
    · have : ¬ (u0 = u) := fun e => hu e.symm
      simp [linSum, hu, this]
  · simp only [hz, Bool.false_eq_true, if_false, and_false, hrest]

/-- the text format reproduces every non-zero linear bias at its printed precision, and nothing else on
    the diagonal -/
theorem coo_linear (lin : Nat → Int) (nz : Nat → Bool) (quad : Nat → Nat → Option Int) (vs : List Nat) (hnd : vs.Nodup) (u : Nat) :
    linSum (cooRows lin nz quad vs) u = if u ∈ vs ∧ nz u = true then lin u else 0 := by
  induction vs with
  | nil => simp [cooRows, linSum]
  | cons u0 rest ih =>
    simp only [List.nodup_cons] at hnd
    rw [cooRows, linSum_append, linSum_row lin nz quad u0 rest hnd.1 u, ih hnd.2]
    by_cases hu : u = u0
    · subst hu
      simp [hnd.1]
    · have : ¬ (u0 = u) := fun e => hu e.symm
      simp [hu]

end Pack

namespace Pack

/-- among the lines written for first element `u0`, those whose second label is `a` -/
theorem row_second (lin : Nat → Int) (nz : Nat → Bool) (quad : Nat → Nat → Option Int) (u0 : Nat) (rest : List Nat)
    (h0 : u0 ∉ rest) (hnd : rest.Nodup) (a : Nat) :
    (((rest.filterMap (cooEntry lin nz quad u0)).filter fun x => x.2.1 = a).map (·.2.2)).sum
      = if a ∈ rest then (quad u0 a).getD 0 else 0 := by
  induction rest with
  | nil => simp
  | cons w rest ih =>
    simp only [List.nodup_cons] at hnd
    have hw : u0 ≠ w := fun e => h0 (by simp [e])
    have ih' := ih (fun h => h0 (by simp [h])) hnd.2
    rw [List.filterMap_cons]
    simp only [cooEntry, hw, if_false]
    cases hq : quad u0 w with
    | none =>
      simp only [Option.map_none]
      rw [ih']
      by_cases ha : a = w
      · subst ha; simp [hnd.1, hq]
      · simp [ha]
    | some b =>
      simp only [Option.map_some, List.filter_cons]
      by_cases ha : a = w
      · subst ha
        have : a ∉ rest := hnd.1
        simp only [decide_true, if_true, List.map_cons, List.sum_cons, ih', this, if_false, List.mem_cons, true_or, hq,
          Option.getD_some, Int.add_zero]
      · have : ¬ (w = a) := fun e => ha e.symm
        simp only [this, decide_false, Bool.false_eq_true, if_false, ih', List.mem_cons, ha, false_or]

theorem row_entries (lin : Nat → Int) (nz : Nat → Bool) (quad : Nat → Nat → Option Int) (u0 : Nat) (rest : List Nat) (h0 : u0 ∉ rest) :
    ∀ x ∈ rest.filterMap (cooEntry lin nz quad u0), x.1 = u0 ∧ x.2.1 ≠ u0 := by
  intro x hx
  obtain ⟨w, hw, he⟩ := List.mem_filterMap.mp hx
  have hne : u0 ≠ w := fun e => h0 (e ▸ hw)
  simp only [cooEntry, hne, if_false, Option.map_eq_some_iff] at he
  obtain ⟨b, _, rfl⟩ := he
  exact ⟨rfl, fun e => hne e.symm⟩

theorem quadSum_row (lin : Nat → Int) (nz : Nat → Bool) (quad : Nat → Nat → Option Int) (u0 : Nat) (rest : List Nat)
    (h0 : u0 ∉ rest) (hnd : rest.Nodup) (u v : Nat) (huv : u ≠ v) :
    quadSum ((u0 :: rest).filterMap (cooEntry lin nz quad u0)) u v
      = if u0 = u ∧ v ∈ rest then (quad u v).getD 0 else if u0 = v ∧ u ∈ rest then (quad v u).getD 0 else 0 := by
  have hent := row_entries lin nz quad u0 rest h0
  -- the diagonal line never counts
  have hdiag : quadSum ((u0 :: rest).filterMap (cooEntry lin nz quad u0)) u v = quadSum (rest.filterMap (cooEntry lin nz quad u0)) u v := by
    rw [List.filterMap_cons]
    simp only [cooEntry, if_true]
    cases nz u0
    · rfl
    · simp only [if_true]
      rw [show ((u0, u0, lin u0) :: rest.filterMap (cooEntry lin nz quad u0)) = [(u0, u0, lin u0)] ++ rest.filterMap (cooEntry lin nz quad u0) from rfl,
        quadSum_append]
      simp [quadSum]
  rw [hdiag]
  unfold quadSum
  by_cases hu : u0 = u
  · subst hu
    have hf : (rest.filterMap (cooEntry lin nz quad u0)).filter (fun x => x.1 ≠ x.2.1 ∧ ((x.1 = u0 ∧ x.2.1 = v) ∨ (x.1 = v ∧ x.2.1 = u0)))
        = (rest.filterMap (cooEntry lin nz quad u0)).filter (fun x => x.2.1 = v) := by
      apply List.filter_congr
      intro x hx
      obtain ⟨e1, e2⟩ := hent x hx
      apply decide_eq_decide.mpr
      constructor
      · rintro ⟨_, (⟨_, h⟩ | ⟨_, h⟩)⟩
        · exact h
        · exact absurd h e2
      · intro h
        exact ⟨by rw [e1, h]; exact huv, Or.inl ⟨e1, h⟩⟩
    rw [hf, row_second lin nz quad u0 rest h0 hnd v]
    simp [h0]
  · by_cases hv : u0 = v
    · subst hv
      have hf : (rest.filterMap (cooEntry lin nz quad u0)).filter (fun x => x.1 ≠ x.2.1 ∧ ((x.1 = u ∧ x.2.1 = u0) ∨ (x.1 = u0 ∧ x.2.1 = u)))
          = (rest.filterMap (cooEntry lin nz quad u0)).filter (fun x => x.2.1 = u) := by
        apply List.filter_congr
        intro x hx
        obtain ⟨e1, e2⟩ := hent x hx
        apply decide_eq_decide.mpr
        constructor
        · rintro ⟨_, (⟨_, h⟩ | ⟨_, h⟩)⟩
          · exact absurd h e2
          · exact h
        · intro h
          exact ⟨by rw [e1, h]; exact fun e => huv e.symm, Or.inr ⟨e1, h⟩⟩
      rw [hf, row_second lin nz quad u0 rest h0 hnd u]
      simp [hu]
    · have hf : (rest.filterMap (cooEntry lin nz quad u0)).filter (fun x => x.1 ≠ x.2.1 ∧ ((x.1 = u ∧ x.2.1 = v) ∨ (x.1 = v ∧ x.2.1 = u))) = [] := by
        rw [List.filter_eq_nil_iff]
        intro x hx
        obtain ⟨e1, _⟩ := hent x hx
        simp only [decide_eq_true_eq, not_and, not_or]
        intro _
        exact ⟨fun h _ => hu (e1.symm.trans h), fun h _ => hv (e1.symm.trans h)⟩
      rw [hf]
      simp [hu, hv]

/-- the text format reproduces every interaction (at its printed precision) exactly once, whichever of its
    two labels sorts first -/
theorem coo_quadratic (lin : Nat → Int) (nz : Nat → Bool) (quad : Nat → Nat → Option Int)
    (hsym : ∀ a b, quad a b = quad b a) (vs : List Nat) (hnd : vs.Nodup) (u v : Nat) (huv : u ≠ v) :
    quadSum (cooRows lin nz quad vs) u v = if u ∈ vs ∧ v ∈ vs then (quad u v).getD 0 else 0 := by
  induction vs with
  | nil => simp [cooRows, quadSum]
  | cons u0 rest ih =>
    simp only [List.nodup_cons] at hnd
    rw [cooRows, quadSum_append, quadSum_row lin nz quad u0 rest hnd.1 hnd.2 u v huv, ih hnd.2]
    by_cases hu : u0 = u
    · subst hu
      have : u0 ∉ rest := hnd.1
      have hvu : ¬ (v = u0) := fun e => huv e.symm
      simp [this, hvu]
    · by_cases hv : u0 = v
      · subst hv
        have h1 : u0 ∉ rest := hnd.1
        have h2 : ¬ (u = u0) := fun e => hu e.symm
        simp [h1, h2, hsym u0 u, hu]
      · have h1 : ¬ (u = u0) := fun e => hu e.symm
        have h2 : ¬ (v = u0) := fun e => hv e.symm
        simp [hu, hv, h1, h2]

end Pack

namespace Pack
open SSM

/-! ### whole documents -/

/-- well-formed sample set for serialisation -/
structure SSFull.Good (s : SSFull) : Prop where
  labels : isLabelList s.labels = true
  rowlen : ∀ r ∈ s.samples, r.length = s.labels.length
  valid : ∀ r ∈ s.samples, ∀ q ∈ r, validElem s.kind q
  spin : s.vt = .spin → ∀ r ∈ s.samples, ∀ q ∈ r, q = 1 ∨ q = -1
  binary : s.vt = .binary → ∀ r ∈ s.samples, ∀ q ∈ r, q = 0 ∨ q = 1
  vectors : ∀ p ∈ s.vectors, p.2.data.length = prod p.2.shape ∧ ∀ q ∈ p.2.data, validElem p.2.kind q
  info : goodInfo s.info

/-- the whole sample set — labels, vartype, sample dtype class, every sample value, every data vector
    (energy, num_occurrences, extras of any shape) and `info` — survives
    `to_serializable → json → from_serializable`, with or without sample packing -/
theorem ssfull_roundtrip (s : SSFull) (h : s.Good) (packFlag : Bool) : fromSer (toSer s packFlag).json = s := by
  cases s with | mk labels vt kind samples vectors info =>
  simp only [fromSer, toSer, SSDoc.json, SSFull.mk.injEq, jsonRT, true_and]
  refine ⟨labelList_roundtrip labels h.labels, ?_, ?_, info_rt info h.info⟩
  · exact samples_roundtrip vt kind packFlag samples labels.length h.rowlen h.valid h.spin h.binary
  · rw [List.map_map, List.map_map]
    conv => rhs; rw [← List.map_id vectors]
    apply List.map_congr_left
    intro p hp
    obtain ⟨h1, h2⟩ := h.vectors p hp
    simp only [Function.comp, id]
    rw [ndarray_roundtrip p.2 h1 h2]

/-- the whole BQM document: labels (nested tuples included) come back in the document's order and, with
    `bqm_vectors_roundtrip`, every variable keeps its label, linear bias and interactions -/
theorem bqmdoc_roundtrip (labels : List PV) (b : BQMIdx) (order : List Nat) (py : Bool)
    (hl : isLabelList labels = true) (hlen : labels.length = b.lin.length) (hperm : order.Perm (List.range b.lin.length)) :
    (bqmFromSer (bqmToSer labels b order py)).1 = order.map (fun i => labels.getD i .none) ∧
    (bqmFromSer (bqmToSer labels b order py)).2 = fromVectors (toVectors b order py) := by
  refine ⟨?_, rfl⟩
  simp only [bqmFromSer, bqmToSer, jsonRT]
  apply labelList_roundtrip
  -- every listed label is one of the original labels
  have hall : ∀ (l : List PV), (∀ v ∈ l, isLabel v = true) → isLabelList l = true := by
    intro l
    induction l with
    | nil => intro _; rfl
    | cons v t ih => intro hv; simp only [isLabelList, Bool.and_eq_true]; exact ⟨hv v (by simp), ih (fun w hw => hv w (by simp [hw]))⟩
  have hmem : ∀ (l : List PV), isLabelList l = true → ∀ v ∈ l, isLabel v = true := by
    intro l
    induction l with
    | nil => intro _ v hv; simp at hv
    | cons w t ih =>
      intro hw v hv
      simp only [isLabelList, Bool.and_eq_true] at hw
      rcases List.mem_cons.mp hv with rfl | hv'
      · exact hw.1
      · exact ih hw.2 v hv'
  apply hall
  intro v hv
  obtain ⟨i, hi, rfl⟩ := List.mem_map.mp hv
  have hi' : i < labels.length := by
    have := hperm.mem_iff.mp hi
    rw [hlen]; simpa using this
  rw [List.getD, List.getElem?_eq_getElem hi', Option.getD_some]
  exact hmem labels hl _ (List.getElem_mem hi')

end Pack

namespace Pack
open SSM

/-! ### COO: emission order, upper triangle by label, vartype header -/

/-- order of the written lines -/
def tripleLt (a b : Nat × Nat × Int) : Prop := a.1 < b.1 ∨ (a.1 = b.1 ∧ a.2.1 < b.2.1)

theorem cooRow_entries (lin : Nat → Int) (nz : Nat → Bool) (quad : Nat → Nat → Option Int) (u0 v : Nat) (t : Nat × Nat × Int)
    (h : cooEntry lin nz quad u0 v = some t) : t.1 = u0 ∧ t.2.1 = v := by
  unfold cooEntry at h
  split at h
  · rename_i e
    split at h
    · simp only [Option.some.injEq] at h; subst h; exact ⟨rfl, e⟩
    · cases h
  · simp only [Option.map_eq_some_iff] at h
    obtain ⟨b, _, rfl⟩ := h
    exact ⟨rfl, rfl⟩

/-- the writer emits every pair once, with the smaller *label* first (upper triangle by label, not by rank), in
    lexicographic order of `(u, v)` -/
theorem cooRows_sorted (lin : Nat → Int) (nz : Nat → Bool) (quad : Nat → Nat → Option Int) (vs : List Nat)
    (hs : vs.Pairwise (· < ·)) :
    (cooRows lin nz quad vs).Pairwise tripleLt ∧
    ∀ t ∈ cooRows lin nz quad vs, t.1 ≤ t.2.1 ∧ t.1 ∈ vs ∧ t.2.1 ∈ vs := by
  induction vs with
  | nil => simp [cooRows]
  | cons u0 rest ih =>
    obtain ⟨h0, hrest⟩ := List.pairwise_cons.mp hs
    obtain ⟨ih1, ih2⟩ := ih hrest
    have hrow : ∀ t ∈ (u0 :: rest).filterMap (cooEntry lin nz quad u0), t.1 = u0 ∧ t.2.1 ∈ u0 :: rest := by
      intro t ht
      obtain ⟨v, hv, he⟩ := List.mem_filterMap.mp ht
      obtain ⟨e1, e2⟩ := cooRow_entries lin nz quad u0 v t he
      exact ⟨e1, e2 ▸ hv⟩
    constructor
    · rw [cooRows, List.pairwise_append]
      refine ⟨?_, ih1, ?_⟩
      · refine List.Pairwise.filterMap (cooEntry lin nz quad u0) ?_ hs
        intro a a' haa b hb b' hb'
        obtain ⟨e1, e2⟩ := cooRow_entries lin nz quad u0 a b (by simpa using hb)
        obtain ⟨e1', e2'⟩ := cooRow_entries lin nz quad u0 a' b' (by simpa using hb')
        right
        exact ⟨e1.trans e1'.symm, by rw [e2, e2']; exact haa⟩
      · intro a ha b hb
        left
        rw [(hrow a ha).1]
        exact h0 _ (ih2 b hb).2.1
    · intro t ht
      rw [cooRows, List.mem_append] at ht
      rcases ht with ht | ht
      · obtain ⟨e1, e2⟩ := hrow t ht
        refine ⟨?_, by simp [e1], e2⟩
        rw [e1]
        rcases List.mem_cons.mp e2 with e | e
        · omega
        · exact Nat.le_of_lt (h0 _ e)
      · obtain ⟨a, b, c⟩ := ih2 t ht
        exact ⟨a, List.mem_cons_of_mem _ b, List.mem_cons_of_mem _ c⟩

theorem sorted_lt_of_nodup (l : List Nat) (hnd : l.Nodup) :
    (l.mergeSort (fun a b => decide (a ≤ b))).Pairwise (· < ·) := by
  have hp := List.mergeSort_perm l (fun a b => decide (a ≤ b))
  have hs := List.pairwise_mergeSort (le := fun (a b : Nat) => decide (a ≤ b))
    (fun a b c => by simp only [decide_eq_true_eq]; omega) (fun a b => by simp only [Bool.or_eq_true, decide_eq_true_eq]; omega) l
  have hn : (l.mergeSort (fun a b => decide (a ≤ b))).Pairwise (· ≠ ·) := List.nodup_iff_pairwise_ne.mp (hp.nodup_iff.mpr hnd)
  refine (hs.and hn).imp ?_
  intro a b h
  have h1 : a ≤ b := by simpa using h.1
  have := h.2
  omega

theorem cooLoadVartype_same (vt : VT) (k : Nat) : cooLoadVartype (some vt) (List.replicate k vt) = some vt := by
  induction k with
  | zero => rfl
  | succ k ih => simp [List.replicate_succ, cooLoadVartype, ih]

end Pack
