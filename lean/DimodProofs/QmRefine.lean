import DimodProofs.QmWF
import DimodProofs.BqmFix

/-! `QuadraticModel`: the label-keyed polynomial with per-variable vartype and bounds held by the `Qm` model
    (`absQ`) and the refinement of the single-term edits, `add_variable` with bounds, `remove_variable`,
    `remove_interaction`, the bounds setters and `scale`.  Self-loops are ordinary entries `quad v v`.
    Core Lean only. -/

namespace Qm
open Bqm (modifyAt eraseIdx nbhAdd nbhCoef nbhDrop nbhShift indexOfGo coefAt AdjWF skip unskip)

/-- the label list as a `Bqm`, to reuse the lemmas about `indexOf?` -/
def sk (m : Qm) : Bqm := { vt := .spin, labels := m.labels, lin := m.lin, adj := m.adj, off := m.off }

theorem idx_sk (m : Qm) (v : Label) : m.indexOf? v = m.sk.indexOf? v := rfl

structure Inv (m : Qm) : Prop where
  wf : WF m
  nodup : m.labels.Nodup

structure QPoly where
  imax : Rat
  rmax : Rat
  vars : List Label
  info : Label → Option (QVT × Rat × Rat)
  lin : Label → Rat
  quad : Label → Label → Option Rat
  off : Rat

theorem QPoly.ext' {p q : QPoly} (h0 : p.imax = q.imax) (h0' : p.rmax = q.rmax) (h1 : p.vars = q.vars)
    (hi : ∀ l, p.info l = q.info l) (h2 : ∀ l, p.lin l = q.lin l)
    (h3 : ∀ a b, p.quad a b = q.quad a b) (h4 : p.off = q.off) : p = q := by
  cases p; cases q
  simp only [QPoly.mk.injEq]
  exact ⟨h0, h0', h1, funext hi, funext h2, funext fun a => funext (h3 a), h4⟩

def infoL (m : Qm) (l : Label) : Option (QVT × Rat × Rat) :=
  (m.indexOf? l).map fun i => (m.vtAt i, m.lb.getD i 0, m.ub.getD i 0)

def linL (m : Qm) (l : Label) : Rat := match m.indexOf? l with | some i => m.lin.getD i 0 | none => 0

def quadL (m : Qm) (a b : Label) : Option Rat :=
  match m.indexOf? a, m.indexOf? b with
  | some i, some j => coefAt m.adj i j
  | _, _ => none

/-- the polynomial a `Qm` holds -/
def absQ (m : Qm) : QPoly :=
  { imax := m.imax, rmax := m.rmax, vars := m.labels, info := m.infoL, lin := m.linL, quad := m.quadL, off := m.off }

/-! ### index facts -/

theorem idx_some {m : Qm} {v : Label} {i : Nat} (h : m.indexOf? v = some i) : i < m.labels.length ∧ m.labels[i]? = some v :=
  Bqm.indexOf?_some (m := m.sk) h

theorem idx_eq_iff {m : Qm} {a u : Label} {x ui : Nat} (ha : m.indexOf? a = some x) (hu : m.indexOf? u = some ui) :
    x = ui ↔ a = u := Bqm.idx_eq_iff (m := m.sk) ha hu

theorem idx_of_get {m : Qm} (hn : m.labels.Nodup) {i : Nat} {l : Label} (h : m.labels[i]? = some l) : m.indexOf? l = some i :=
  Bqm.indexOf?_of_get (m := m.sk) hn h

theorem idx_none_iff (m : Qm) (v : Label) : m.indexOf? v = none ↔ v ∉ m.labels := Bqm.indexOf?_none_iff m.sk v

theorem mem_vars_iff (m : Qm) (v : Label) : v ∈ m.labels ↔ ∃ i, m.indexOf? v = some i := by
  constructor
  · intro h; exact Bqm.indexOf?_isSome_of_mem m.sk v h
  · intro ⟨i, hi⟩
    cases hd : decide (v ∈ m.labels) with
    | true => simpa using hd
    | false =>
      have : v ∉ m.labels := by simpa using hd
      rw [(idx_none_iff m v).mpr this] at hi; cases hi

/-! ### operations on the polynomial -/

def QPoly.withLin (p : QPoly) (v : Label) (f : Rat → Rat) : QPoly :=
  { p with lin := fun l => if l = v then f (p.lin l) else p.lin l }

/-- `add_quadratic` (`set = false`) / `set_quadratic`; `u = v` is a self-loop -/
def QPoly.quadOp (p : QPoly) (u v : Label) (b : Rat) (set : Bool) : QPoly :=
  { p with quad := fun a c => if (a = u ∧ c = v) ∨ (a = v ∧ c = u) then some (if set then b else (p.quad u v).getD 0 + b)
                              else p.quad a c }

def QPoly.push (p : QPoly) (lbl : Label) (t : QVT) (l u : Rat) : QPoly :=
  { p with vars := p.vars ++ [lbl], info := fun x => if x = lbl then some (t, l, u) else p.info x }

def QPoly.remove (p : QPoly) (v : Label) : QPoly :=
  { p with vars := p.vars.erase v,
           info := fun l => if l = v then none else p.info l,
           lin := fun l => if l = v then 0 else p.lin l,
           quad := fun a b => if a = v ∨ b = v then none else p.quad a b }

def QPoly.removeInteraction (p : QPoly) (u v : Label) : QPoly :=
  { p with quad := fun a c => if (a = u ∧ c = v) ∨ (a = v ∧ c = u) then none else p.quad a c }

def QPoly.setLb (p : QPoly) (v : Label) (x : Rat) : QPoly :=
  { p with info := fun l => if l = v then (p.info l).map fun i => (i.1, x, i.2.2) else p.info l }

def QPoly.setUb (p : QPoly) (v : Label) (x : Rat) : QPoly :=
  { p with info := fun l => if l = v then (p.info l).map fun i => (i.1, i.2.1, x) else p.info l }

def QPoly.scale (p : QPoly) (s : Rat) : QPoly :=
  { p with off := p.off * s, lin := fun l => p.lin l * s, quad := fun a b => (p.quad a b).map (· * s) }

/-! ### refinement of the index-level edits -/

theorem absQ_withLin {m : Qm} (h : WF m) {v : Label} {i : Nat} (hi : m.indexOf? v = some i) (f : Rat → Rat) :
    absQ { m with lin := modifyAt m.lin i f } = (absQ m).withLin v f := by
  have hlt : i < m.lin.length := indexOf?_lt h hi
  apply QPoly.ext' <;> try (first | rfl | (intro _; rfl) | (intro _ _; rfl))
  intro l
  show (match m.indexOf? l with | some j => (modifyAt m.lin i f).getD j 0 | none => 0) = if l = v then f (m.linL l) else m.linL l
  unfold linL
  by_cases hl : l = v
  · subst hl
    simp only [hi, if_true]
    exact Bqm.getD_modifyAt_self _ _ _ _ hlt
  · simp only [hl, if_false]
    cases hj : m.indexOf? l with
    | none => rfl
    | some j =>
      have : i ≠ j := fun e => hl ((idx_eq_iff hj hi).mp e.symm)
      exact Bqm.getD_modifyAt_ne _ _ _ _ _ this

theorem Inv.withLin {m : Qm} (i : Inv m) (k : Nat) (f : Rat → Rat) : Inv { m with lin := modifyAt m.lin k f } :=
  ⟨i.wf.withLin k f, i.nodup⟩

/-- `add_quadratic` / `set_quadratic` between (or on) existing variables -/
theorem addQ_refines {m : Qm} (h : WF m) {u v : Label} {ui vi : Nat} (hu : m.indexOf? u = some ui)
    (hv : m.indexOf? v = some vi) (b : Rat) (set : Bool) :
    absQ (m.addQ ui vi b set) = (absQ m).quadOp u v b set := by
  have hul := indexOf?_lt h hu
  have hvl := indexOf?_lt h hv
  have same : ∀ (g : Qm → Prop), g m → (∀ adj, g { m with adj := adj }) → g (m.addQ ui vi b set) := by
    intro g _ h2; unfold Qm.addQ; split <;> exact h2 _
  apply QPoly.ext'
  · exact same (fun x => (absQ x).imax = (absQ m).imax) rfl (fun _ => rfl)
  · exact same (fun x => (absQ x).rmax = (absQ m).rmax) rfl (fun _ => rfl)
  · exact same (fun x => (absQ x).vars = (absQ m).vars) rfl (fun _ => rfl)
  · intro l; exact same (fun x => (absQ x).info l = (absQ m).info l) rfl (fun _ => rfl)
  · intro l; exact same (fun x => (absQ x).lin l = (absQ m).lin l) rfl (fun _ => rfl)
  rotate_left
  · exact same (fun x => (absQ x).off = (absQ m).off) rfl (fun _ => rfl)
  intro a c
  have hidx : ∀ l, (m.addQ ui vi b set).indexOf? l = m.indexOf? l := by
    intro l; exact same (fun x => x.indexOf? l = m.indexOf? l) rfl (fun _ => rfl)
  show quadL (m.addQ ui vi b set) a c = if (a = u ∧ c = v) ∨ (a = v ∧ c = u) then some (if set then b else (m.quadL u v).getD 0 + b) else m.quadL a c
  have huv : m.quadL u v = coefAt m.adj ui vi := by unfold quadL; rw [hu, hv]
  rw [huv]
  unfold quadL
  rw [hidx a, hidx c]
  cases ha : m.indexOf? a with
  | none =>
    have n1 : ¬ a = u := fun e => by rw [e, hu] at ha; cases ha
    have n2 : ¬ a = v := fun e => by rw [e, hv] at ha; cases ha
    simp [n1, n2]
  | some x =>
    cases hc : m.indexOf? c with
    | none =>
      have n1 : ¬ c = u := fun e => by rw [e, hu] at hc; cases hc
      have n2 : ¬ c = v := fun e => by rw [e, hv] at hc; cases hc
      simp [n1, n2]
    | some y =>
      simp only []
      have eau : x = ui ↔ a = u := idx_eq_iff ha hu
      have eav : x = vi ↔ a = v := idx_eq_iff ha hv
      have ecu : y = ui ↔ c = u := idx_eq_iff hc hu
      have ecv : y = vi ↔ c = v := idx_eq_iff hc hv
      unfold Qm.addQ
      by_cases huv' : ui = vi
      · subst huv'
        simp only [if_true]
        rw [Bqm.coefAt_selfLoop h.adj ui b set hul x y]
        simp only [eau, ecu, eav, ecv]
        have : u = v := (idx_eq_iff hu hv).mp rfl
        subst this
        by_cases c1 : a = u ∧ c = u
        · simp [c1]
        · simp [c1]
      · simp only [huv', if_false]
        have := Bqm.coefAt_adjSym h.adj ui vi b set hul hvl huv' x y
        unfold Bqm.adjSym at this
        rw [this]
        simp only [eau, ecu, eav, ecv]

theorem Inv.addQ {m : Qm} (i : Inv m) (u v : Nat) (b : Rat) (set : Bool) (hu : u < m.lin.length) (hv : v < m.lin.length)
    (hl : u = v → m.loopOK u = true) : Inv (m.addQ u v b set) :=
  ⟨i.wf.addQ u v b set hu hv hl, by unfold Qm.addQ; split <;> exact i.nodup⟩

/-! ### a new variable -/

theorem idx_push (m : Qm) (lbl l : Label) (hv : m.indexOf? lbl = none) (ls : List Label) (hls : ls = m.labels ++ [lbl]) :
    indexOfGo l ls 0 = if l = lbl then some m.labels.length else m.indexOf? l := by
  subst hls
  exact Bqm.indexOf?_pushVar m.sk lbl l hv

theorem getD_append_one {α} (l : List α) (x d : α) (j : Nat) (hj : j < l.length) : (l ++ [x]).getD j d = l.getD j d := by
  simp [List.getD, List.getElem?_append_left hj]

theorem getD_append_last {α} (l : List α) (x d : α) : (l ++ [x]).getD l.length d = x := by
  simp [List.getD]

/-- appending a variable (what `add_variable` does for a new label) -/
theorem push_refines {m : Qm} (h : WF m) (lbl : Label) (hv : m.indexOf? lbl = none) (t : QVT) (l u : Rat) :
    absQ { m with labels := m.labels ++ [lbl], vt := m.vt ++ [t], lb := m.lb ++ [l], ub := m.ub ++ [u],
                  lin := m.lin ++ [0], adj := m.adj ++ [[]] } = (absQ m).push lbl t l u := by
  have hlen : m.adj.length = m.labels.length := by rw [h.adj.len, h.labels_len]
  apply QPoly.ext' <;> try (first | rfl | (intro _; rfl) | (intro _ _; rfl))
  · intro x
    show (indexOfGo x (m.labels ++ [lbl]) 0).map _ = if x = lbl then some (t, l, u) else m.infoL x
    rw [idx_push m lbl x hv _ rfl]
    by_cases hx : x = lbl
    · subst hx
      simp only [if_true, Option.map_some]
      show some ((m.vt ++ [t]).getD m.labels.length .binary, (m.lb ++ [l]).getD m.labels.length 0, (m.ub ++ [u]).getD m.labels.length 0) = _
      have e1 : m.labels.length = m.vt.length := by rw [h.labels_len, h.vt_len]
      have e2 : m.labels.length = m.lb.length := by rw [h.labels_len, h.lb_len]
      have e3 : m.labels.length = m.ub.length := by rw [h.labels_len, h.ub_len]
      conv => lhs; rw [e1, getD_append_last, ← e1, e2, getD_append_last, ← e2, e3, getD_append_last]
    · simp only [hx, if_false]
      unfold infoL
      cases hj : m.indexOf? x with
      | none => rfl
      | some j =>
        have hjl := (idx_some hj).1
        simp only [Option.map_some]
        show some ((m.vt ++ [t]).getD j .binary, (m.lb ++ [l]).getD j 0, (m.ub ++ [u]).getD j 0) = _
        rw [getD_append_one _ _ _ _ (by rw [h.vt_len, ← h.labels_len]; exact hjl),
          getD_append_one _ _ _ _ (by rw [h.lb_len, ← h.labels_len]; exact hjl),
          getD_append_one _ _ _ _ (by rw [h.ub_len, ← h.labels_len]; exact hjl)]
        rfl
  · intro x
    show (match indexOfGo x (m.labels ++ [lbl]) 0 with | some j => (m.lin ++ [0]).getD j 0 | none => 0) = m.linL x
    rw [idx_push m lbl x hv _ rfl]
    unfold linL
    by_cases hx : x = lbl
    · subst hx
      simp only [if_true, hv]
      rw [h.labels_len]; exact getD_append_last _ _ _
    · simp only [hx, if_false]
      cases m.indexOf? x with
      | none => rfl
      | some j => exact Bqm.getD_append_zero m.lin j
  · intro a b
    show (match indexOfGo a (m.labels ++ [lbl]) 0, indexOfGo b (m.labels ++ [lbl]) 0 with
          | some x, some y => coefAt (m.adj ++ [[]]) x y | _, _ => none) = m.quadL a b
    rw [idx_push m lbl a hv _ rfl, idx_push m lbl b hv _ rfl]
    unfold quadL
    by_cases ha : a = lbl
    · subst ha
      simp only [if_true, hv]
      by_cases hb : b = a
      · subst hb
        simp only [if_true]
        rw [Bqm.coefAt_push]; exact Bqm.coefAt_of_ge _ _ _ (by omega)
      · simp only [hb, if_false]
        cases m.indexOf? b with
        | none => rfl
        | some j => simp only []; rw [Bqm.coefAt_push]; exact Bqm.coefAt_of_ge _ _ _ (by omega)
    · simp only [ha, if_false]
      cases hia : m.indexOf? a with
      | none => rfl
      | some x =>
        by_cases hb : b = lbl
        · subst hb
          simp only [if_true, hv]
          rw [Bqm.coefAt_push, h.adj.symm]; exact Bqm.coefAt_of_ge _ _ _ (by omega)
        · simp only [hb, if_false]
          cases m.indexOf? b with
          | none => rfl
          | some y => exact Bqm.coefAt_push m.adj x y

theorem Inv.push {m : Qm} (i : Inv m) (lbl : Label) (hv : m.indexOf? lbl = none) (t : QVT) (l u : Rat) :
    Inv { m with labels := m.labels ++ [lbl], vt := m.vt ++ [t], lb := m.lb ++ [l], ub := m.ub ++ [u],
                 lin := m.lin ++ [0], adj := m.adj ++ [[]] } := by
  refine ⟨i.wf.push lbl t l u, ?_⟩
  show (m.labels ++ [lbl]).Nodup
  rw [List.nodup_append]
  refine ⟨i.nodup, by simp, ?_⟩
  intro a ha b hb
  simp only [List.mem_singleton] at hb
  subst hb
  intro e; subst e
  exact (idx_none_iff m a).mp hv ha

/-! ### removing a variable -/

theorem idx_removeAt (m : Qm) (vi : Nat) (l : Label) (hn : m.labels.Nodup) :
    (m.removeAt vi).indexOf? l = if m.labels[vi]? = some l then none else (m.indexOf? l).map (unskip vi) :=
  Bqm.indexOf?_removeAt m.sk vi l hn

theorem removeAt_refines {m : Qm} (h : WF m) (hn : m.labels.Nodup) {v : Label} {vi : Nat} (hv : m.indexOf? v = some vi) :
    absQ (m.removeAt vi) = (absQ m).remove v := by
  have hget := (idx_some hv).2
  apply QPoly.ext' <;> try (first | rfl | (intro _; rfl) | (intro _ _; rfl))
  · show eraseIdx m.labels vi = m.labels.erase v
    have := Bqm.eraseIdx_eq_erase v m.labels 0 vi hv
    simpa using this
  · intro l
    show infoL (m.removeAt vi) l = if l = v then none else m.infoL l
    unfold infoL
    rw [idx_removeAt m vi l hn, hget]
    by_cases hl : l = v
    · subst hl; simp
    · have : ¬ some v = some l := fun e => hl (Option.some.inj e).symm
      simp only [this, hl, if_false]
      cases hi : m.indexOf? l with
      | none => rfl
      | some i =>
        have hne : i ≠ vi := fun e => hl ((idx_eq_iff hi hv).mp e)
        simp only [Option.map_some]
        show some ((eraseIdx m.vt vi).getD (unskip vi i) .binary, (eraseIdx m.lb vi).getD (unskip vi i) 0,
          (eraseIdx m.ub vi).getD (unskip vi i) 0) = _
        rw [Bqm.getD_eraseIdx, Bqm.getD_eraseIdx, Bqm.getD_eraseIdx, Bqm.skip_unskip vi i hne]
        rfl
  · intro l
    show linL (m.removeAt vi) l = if l = v then 0 else m.linL l
    unfold linL
    rw [idx_removeAt m vi l hn, hget]
    by_cases hl : l = v
    · subst hl; simp
    · have : ¬ some v = some l := fun e => hl (Option.some.inj e).symm
      simp only [this, hl, if_false]
      cases hi : m.indexOf? l with
      | none => rfl
      | some i =>
        have hne : i ≠ vi := fun e => hl ((idx_eq_iff hi hv).mp e)
        show (eraseIdx m.lin vi).getD (unskip vi i) 0 = m.lin.getD i 0
        rw [Bqm.getD_eraseIdx, Bqm.skip_unskip vi i hne]
  · intro a b
    show quadL (m.removeAt vi) a b = if a = v ∨ b = v then none else m.quadL a b
    unfold quadL
    rw [idx_removeAt m vi a hn, idx_removeAt m vi b hn, hget]
    by_cases ha : a = v
    · subst ha; simp
    · have na : ¬ some v = some a := fun e => ha (Option.some.inj e).symm
      simp only [na, if_false]
      by_cases hb : b = v
      · subst hb
        simp only [if_true, or_true]
        cases (m.indexOf? a).map (unskip vi) <;> rfl
      · have nb : ¬ some v = some b := fun e => hb (Option.some.inj e).symm
        have hor : ¬ (a = v ∨ b = v) := fun hh => hh.elim ha hb
        simp only [nb, if_false, hor]
        cases hia : m.indexOf? a with
        | none => rfl
        | some i =>
          cases hib : m.indexOf? b with
          | none => rfl
          | some j =>
            have hi : i ≠ vi := fun e => ha ((idx_eq_iff hia hv).mp e)
            have hj : j ≠ vi := fun e => hb ((idx_eq_iff hib hv).mp e)
            show coefAt (Bqm.adjRemove m.adj vi) (unskip vi i) (unskip vi j) = coefAt m.adj i j
            rw [Bqm.coefAt_adjRemove, Bqm.skip_unskip vi i hi, Bqm.skip_unskip vi j hj]

theorem Inv.removeAt {m : Qm} (i : Inv m) (vi : Nat) (hvi : vi < m.lin.length) : Inv (m.removeAt vi) :=
  ⟨i.wf.removeAt vi hvi, Bqm.nodup_eraseIdx _ _ i.nodup⟩

/-! ### removing an interaction, bounds, scale -/

theorem removeInteraction_refines {m : Qm} (h : WF m) {u v : Label} {ui vi : Nat} (hu : m.indexOf? u = some ui)
    (hv : m.indexOf? v = some vi) :
    absQ { m with adj := if ui = vi then modifyAt m.adj ui (nbhDrop · ui)
                         else modifyAt (modifyAt m.adj ui (nbhDrop · vi)) vi (nbhDrop · ui) } = (absQ m).removeInteraction u v := by
  have hul : ui < m.adj.length := by rw [h.adj.len]; exact indexOf?_lt h hu
  have hvl : vi < m.adj.length := by rw [h.adj.len]; exact indexOf?_lt h hv
  apply QPoly.ext' <;> try (first | rfl | (intro _; rfl) | (intro _ _; rfl))
  intro a c
  show (match m.indexOf? a, m.indexOf? c with
        | some x, some y => coefAt (if ui = vi then modifyAt m.adj ui (nbhDrop · ui)
                         else modifyAt (modifyAt m.adj ui (nbhDrop · vi)) vi (nbhDrop · ui)) x y
        | _, _ => none) = if (a = u ∧ c = v) ∨ (a = v ∧ c = u) then none else m.quadL a c
  unfold quadL
  cases ha : m.indexOf? a with
  | none => simp
  | some x =>
    cases hc : m.indexOf? c with
    | none => simp
    | some y =>
      simp only []
      have eau : x = ui ↔ a = u := idx_eq_iff ha hu
      have eav : x = vi ↔ a = v := idx_eq_iff ha hv
      have ecu : y = ui ↔ c = u := idx_eq_iff hc hu
      have ecv : y = vi ↔ c = v := idx_eq_iff hc hv
      by_cases huv : ui = vi
      · subst huv
        simp only [if_true]
        rw [Bqm.coefAt_dropSelf m.adj ui hul x y]
        have : u = v := (idx_eq_iff hu hv).mp rfl
        subst this
        simp only [eau, ecu, or_self]
      · simp only [huv, if_false]
        have := Bqm.coefAt_adjDrop m.adj ui vi hul hvl x y
        unfold Bqm.adjDrop at this
        rw [this]
        simp only [eau, ecu, eav, ecv]

theorem setLb_refines {m : Qm} {v : Label} {vi : Nat} (h : WF m) (hv : m.indexOf? v = some vi) (x : Rat) :
    absQ { m with lb := modifyAt m.lb vi (fun _ => x) } = (absQ m).setLb v x := by
  have hlt : vi < m.lb.length := by rw [h.lb_len]; exact indexOf?_lt h hv
  apply QPoly.ext' <;> try (first | rfl | (intro _; rfl) | (intro _ _; rfl))
  intro l
  show (m.indexOf? l).map (fun i => (m.vtAt i, (modifyAt m.lb vi (fun _ => x)).getD i 0, m.ub.getD i 0)) =
    if l = v then (m.infoL l).map (fun i => (i.1, x, i.2.2)) else m.infoL l
  unfold infoL
  by_cases hl : l = v
  · subst hl
    simp only [hv, if_true, Option.map_some]
    rw [Bqm.getD_modifyAt_self _ _ _ _ hlt]
  · simp only [hl, if_false]
    cases hj : m.indexOf? l with
    | none => rfl
    | some j =>
      have : vi ≠ j := fun e => hl ((idx_eq_iff hj hv).mp e.symm)
      simp only [Option.map_some]
      rw [Bqm.getD_modifyAt_ne _ _ _ _ _ this]

theorem setUb_refines {m : Qm} {v : Label} {vi : Nat} (h : WF m) (hv : m.indexOf? v = some vi) (x : Rat) :
    absQ { m with ub := modifyAt m.ub vi (fun _ => x) } = (absQ m).setUb v x := by
  have hlt : vi < m.ub.length := by rw [h.ub_len]; exact indexOf?_lt h hv
  apply QPoly.ext' <;> try (first | rfl | (intro _; rfl) | (intro _ _; rfl))
  intro l
  show (m.indexOf? l).map (fun i => (m.vtAt i, m.lb.getD i 0, (modifyAt m.ub vi (fun _ => x)).getD i 0)) =
    if l = v then (m.infoL l).map (fun i => (i.1, i.2.1, x)) else m.infoL l
  unfold infoL
  by_cases hl : l = v
  · subst hl
    simp only [hv, if_true, Option.map_some]
    rw [Bqm.getD_modifyAt_self _ _ _ _ hlt]
  · simp only [hl, if_false]
    cases hj : m.indexOf? l with
    | none => rfl
    | some j =>
      have : vi ≠ j := fun e => hl ((idx_eq_iff hj hv).mp e.symm)
      simp only [Option.map_some]
      rw [Bqm.getD_modifyAt_ne _ _ _ _ _ this]

theorem scale_refines (m : Qm) (s : Rat) : absQ (m.scale s) = (absQ m).scale s := by
  apply QPoly.ext' <;> try (first | rfl | (intro _; rfl) | (intro _ _; rfl))
  · intro l
    show (match m.indexOf? l with | some i => (m.lin.map (· * s)).getD i 0 | none => 0) = m.linL l * s
    unfold linL
    cases m.indexOf? l with
    | none => simp [Rat.zero_mul]
    | some i =>
      simp only [List.getD, List.getElem?_map]
      cases m.lin[i]? with
      | none => simp [Rat.zero_mul]
      | some x => rfl
  · intro a b
    show (match m.indexOf? a, m.indexOf? b with
          | some i, some j => coefAt (Bqm.adjScale m.adj s) i j | _, _ => none) = (m.quadL a b).map (· * s)
    unfold quadL
    cases m.indexOf? a with
    | none => rfl
    | some i =>
      cases m.indexOf? b with
      | none => rfl
      | some j => exact Bqm.coefAt_adjScale m.adj s i j

end Qm
