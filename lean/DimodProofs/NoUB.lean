import DimodProofs.BqmWF
import DimodModel.Checked

/-! No vector access of the modelled header methods is out of range, given the representation invariant
    (`AdjWF`: in particular every stored neighbour index is `< n`) and the documented preconditions
    (`u, v < num_variables()`, sample of length `num_variables()`): the checked variant never returns `none`
    and computes what the unchecked model computes.  Core Lean only. -/

namespace CppM
open Bqm

theorem upd?_eq {α} (l : List α) (i : Nat) (f : α → α) (h : i < l.length) : upd? l i f = some (modifyAt l i f) := by
  unfold upd?
  rw [List.getElem?_eq_getElem h]

theorem getElem?_getD {α} (l : List α) (i : Nat) (d : α) (h : i < l.length) : l[i]? = some (l.getD i d) := by
  simp [List.getD, List.getElem?_eq_getElem h]

/-- `add_quadratic` / `set_quadratic` -/
theorem quad?_eq (m : CppM) {l} (h : AdjWF m.q.lin.length m.q.adj l) (u v : Nat) (b : Rat) (set : Bool)
    (hu : u < m.q.lin.length) (hv : v < m.q.lin.length) : m.quad? u v b set = some (m.quad u v b set) := by
  have hua : u < m.q.adj.length := by rw [h.len]; exact hu
  have hva : v < m.q.adj.length := by rw [h.len]; exact hv
  unfold quad? quad
  by_cases huv : u = v
  · subst huv
    simp only [if_true]
    cases m.vtOf u with
    | binary =>
      simp only []
      cases set with
      | true => rfl
      | false => simp only [upd?_eq _ _ _ hu, Bool.false_eq_true, if_false]; rfl
    | spin => simp only []; cases set <;> rfl
    | integer => simp only [asym?, upd?_eq _ _ _ hua]; rfl
    | real => simp only [asym?, upd?_eq _ _ _ hua]; rfl
  · simp only [huv, if_false, asym?, upd?_eq _ _ _ hua]
    have : v < (modifyAt m.q.adj u fun nb => nbhAdd nb v b set).length := by rw [length_modifyAt]; exact hva
    simp only [Option.bind_eq_bind, Option.bind_some, upd?_eq _ _ _ this]
    rfl

/-- `remove_interaction` -/
theorem removeInteraction?_eq (m : CppM) {l} (h : AdjWF m.q.lin.length m.q.adj l) (u v : Nat)
    (hu : u < m.q.lin.length) (hv : v < m.q.lin.length) : m.removeInteraction? u v = some (m.removeInteraction u v) := by
  have hua : u < m.q.adj.length := by rw [h.len]; exact hu
  have hva : v < m.q.adj.length := by rw [h.len]; exact hv
  unfold removeInteraction? removeInteraction
  rw [getElem?_getD m.q.adj u [] hua]
  simp only [Option.bind_eq_bind, Option.bind_some]
  cases nbhCoef (m.q.adj.getD u []) v with
  | none => rfl
  | some c =>
    simp only []
    by_cases huv : u = v
    · subst huv
      simp only [if_true, upd?_eq _ _ _ hua, Option.bind_some]; rfl
    · have : v < (modifyAt m.q.adj u fun x => nbhDrop x v).length := by rw [length_modifyAt]; exact hva
      simp only [huv, if_false, upd?_eq _ _ _ hua, Option.bind_some, upd?_eq _ _ _ this]; rfl

theorem fixLin?_eq (a : Rat) (nb : List (Nat × Rat)) (lin : List Rat) (hb : ∀ p ∈ nb, p.1 < lin.length) :
    fixLin? a nb lin = some (nb.foldl (fun l p => modifyAt l p.1 (· + p.2 * a)) lin) := by
  induction nb generalizing lin with
  | nil => rfl
  | cons p t ih =>
    simp only [fixLin?, List.foldl]
    rw [upd?_eq _ _ _ (hb p (by simp))]
    simp only []
    apply ih
    intro q hq
    rw [length_modifyAt]; exact hb q (List.mem_cons_of_mem _ hq)

theorem length_foldl_modifyAt (a : Rat) (nb : List (Nat × Rat)) (lin : List Rat) :
    (nb.foldl (fun l p => modifyAt l p.1 (· + p.2 * a)) lin).length = lin.length := by
  induction nb generalizing lin with
  | nil => rfl
  | cons p t ih => simp only [List.foldl]; rw [ih]; simp

/-- `fix_variable(v, a)`: every `add_linear(it->v, …)` of the loop hits an existing variable because stored
    neighbour indices are in range -/
theorem fix?_eq (m : CppM) {l} (h : AdjWF m.q.lin.length m.q.adj l) (v : Nat) (a : Rat) (hv : v < m.q.lin.length) :
    m.fix? v a = some (m.fix v a) := by
  have hva : v < m.q.adj.length := by rw [h.len]; exact hv
  unfold fix? fix
  rw [getElem?_getD m.q.adj v [] hva]
  simp only [Option.bind_eq_bind, Option.bind_some]
  have hb : ∀ p ∈ m.q.adj.getD v [], p.1 < m.q.lin.length := by
    intro p hp
    apply h.bound v p.1
    show (nbhCoef (m.q.adj.getD v []) p.1).isSome
    rw [nbhCoef_isSome_iff]; exact ⟨p, hp, rfl⟩
  rw [fixLin?_eq a _ _ hb]
  simp only [Option.bind_some]
  have hlen := length_foldl_modifyAt a (m.q.adj.getD v []) m.q.lin
  rw [getElem?_getD _ v 0 (by rw [hlen]; exact hv)]
  rfl

theorem energyRow?_eq (x : List Rat) (u : Nat) (xu : Rat) (nb : List (Nat × Rat)) (en : Rat)
    (hb : ∀ p ∈ nb, p.1 < x.length) :
    energyRow? x u xu nb en = some (nb.foldl (fun en p => if p.1 ≤ u then en + p.2 * xu * x.getD p.1 0 else en) en) := by
  induction nb generalizing en with
  | nil => rfl
  | cons p t ih =>
    simp only [energyRow?, List.foldl]
    have ht : ∀ q ∈ t, q.1 < x.length := fun q hq => hb q (List.mem_cons_of_mem _ hq)
    by_cases hp : p.1 ≤ u
    · simp only [hp, if_true]
      rw [getElem?_getD x p.1 0 (hb p (by simp))]
      exact ih _ ht
    · simp only [hp, if_false]
      exact ih _ ht

/-- `energy(sample_start)` for a sample of the model's length: no read outside the sample, the linear biases
    or the adjacency -/
theorem energy?_eq (m : CppM) {l} (h : AdjWF m.q.lin.length m.q.adj l) (x : List Rat) (hx : x.length = m.q.lin.length) :
    m.energy? x = some (m.energy x) := by
  unfold energy? energy
  have key : ∀ (us : List Nat) (en : Rat), (∀ u ∈ us, u < m.q.lin.length) →
      energyRows? m x us en = some (us.foldl (fun en u =>
        (m.q.adj.getD u []).foldl (fun en p => if p.1 ≤ u then en + p.2 * x.getD u 0 * x.getD p.1 0 else en)
          (en + x.getD u 0 * m.q.lin.getD u 0)) en) := by
    intro us
    induction us with
    | nil => intro en _; rfl
    | cons u t ih =>
      intro en hus
      have hu : u < m.q.lin.length := hus u (by simp)
      simp only [energyRows?, List.foldl]
      rw [getElem?_getD x u 0 (by rw [hx]; exact hu), getElem?_getD m.q.lin u 0 hu,
        getElem?_getD m.q.adj u [] (by rw [h.len]; exact hu)]
      simp only []
      have hb : ∀ p ∈ m.q.adj.getD u [], p.1 < x.length := by
        intro p hp
        rw [hx]
        apply h.bound u p.1
        show (nbhCoef (m.q.adj.getD u []) p.1).isSome
        rw [nbhCoef_isSome_iff]; exact ⟨p, hp, rfl⟩
      rw [energyRow?_eq x u _ _ _ hb]
      simp only []
      exact ih _ (fun w hw => hus w (List.mem_cons_of_mem _ hw))
  exact key _ _ (fun u hu => List.mem_range.mp hu)

end CppM
