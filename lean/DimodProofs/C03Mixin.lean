import DimodProofs.C03Multi

/-! # C03 — `fix_variable(s)` of BQM / QM through the generic `QuadraticViewsMixin` code on an array back-end -/

namespace En

variable {R : Type} [CommRing R]

namespace QMB

/-- the Python loop (`add_linear(u, value*bias)` in neighbourhood order, then `offset += value*get_linear(v)`, then
    `remove_variable`) builds the same model as `abc.h::fix_variable` — both paths agree, squared term included -/
theorem fixVariableMixin_eq (m : QMB R) (v : Nat) (a : R) : m.fixVariableMixin v a = m.fixVariable v a := by
  unfold fixVariableMixin fixVariable
  have : (fun (l : List R) (p : Nat × R) => l.modify p.1 (· + a * p.2))
      = (fun (l : List R) (p : Nat × R) => l.modify p.1 (· + p.2 * a)) := by
    funext l p; congr 1; funext x; rw [mul_comm]
  rw [this]

theorem fixVariableMixin_energy (m : QMB R) (hm : m.WF) (v : Nat) (hv : v < m.n) (a : R) (x' x : Nat → R)
    (hxv : x v = a) (hxs : ∀ i, i < m.n - 1 → x (skip v i) = x' i) :
    (m.fixVariableMixin v a).energy x' = m.energy x := by
  rw [fixVariableMixin_eq]; exact fixVariable_energy m hm v hv a x' x hxv hxs

theorem WF_fixVariable (m : QMB R) (hm : m.WF) (v : Nat) (hv : v < m.n) (a : R) :
    (m.fixVariable v a).WF ∧ (m.fixVariable v a).n = m.n - 1 := by
  have hpre := WF_fixPre m hm v a
  have hvn : v < (m.fixPre v a).n := by rw [n_fixPre]; exact hv
  exact ⟨WF_removeVariable _ hpre v hvn, by rw [fixVariable_eq, n_removeVariable _ v hvn, n_fixPre]⟩

end QMB

namespace QmL

/-- invariant of a labelled array model -/
structure Ok (m : QmL R) : Prop where
  wf : m.qb.WF
  len : m.labels.length = m.qb.n
  nodup : m.labels.Nodup

theorem fixVariable_step (m : QmL R) (hm : m.Ok) (v : Label) (hv : v ∈ m.labels) (a : R) (val : Label → R) (hval : val v = a) :
    ∃ m', m.fixVariable v a = some m' ∧ m'.Ok ∧ (∀ l, l ∈ m'.labels ↔ l ∈ m.labels ∧ l ≠ v) ∧ m'.labels.Sublist m.labels ∧
      m'.qb.energy (valL val m'.labels) = m.qb.energy (valL val m.labels) := by
  obtain ⟨vi, hvi⟩ := indexOf?_of_mem m.labels v hv
  have hat := (indexOf?_spec m.labels v vi hvi).1
  have hvil : vi < m.labels.length := by
    rcases Nat.lt_or_ge vi m.labels.length with h | h
    · exact h
    · rw [List.getElem?_eq_none h] at hat; cases hat
  have hvn : vi < m.qb.n := by rw [← hm.len]; exact hvil
  have hfix : m.fixVariable v a = some { qb := m.qb.fixVariableMixin vi a, info := m.info.eraseIdx vi, labels := m.labels.eraseIdx vi } := by
    unfold fixVariable; rw [hvi]; rfl
  obtain ⟨hwf', hn'⟩ := QMB.WF_fixVariable m.qb hm.wf vi hvn a
  refine ⟨_, hfix, ⟨by rw [QMB.fixVariableMixin_eq]; exact hwf', ?_, List.Nodup.sublist (List.eraseIdx_sublist _ _) hm.nodup⟩,
    ?_, List.eraseIdx_sublist _ _, ?_⟩
  · simp only [List.length_eraseIdx, hvil, if_true]
    rw [QMB.fixVariableMixin_eq, hn', hm.len]
  · intro l
    simp only []
    constructor
    · intro hl
      obtain ⟨j, hj, hjv, hjl⟩ := List.mem_eraseIdx_iff_getElem.mp hl
      refine ⟨hjl ▸ List.getElem_mem hj, ?_⟩
      intro hlv
      have : m.labels[j] = m.labels[vi] := by
        rw [hjl, hlv]; rw [List.getElem?_eq_getElem hvil] at hat; injection hat with h; exact h.symm
      exact hjv ((List.Nodup.getElem_inj_iff hm.nodup).mp this)
    · rintro ⟨hl, hlv⟩
      obtain ⟨j, hj, rfl⟩ := List.getElem_of_mem hl
      apply List.mem_eraseIdx_iff_getElem.mpr
      refine ⟨j, hj, ?_, rfl⟩
      intro hjv
      subst hjv
      rw [List.getElem?_eq_getElem hj] at hat
      injection hat with h
      exact hlv h
  · exact QMB.fixVariableMixin_energy m.qb hm.wf vi hvn a _ _
      (by unfold valL; rw [List.getD_eq_getElem?_getD, hat]; exact hval)
      (by intro k _; unfold valL; rw [getD_eraseIdx])

/-- **`fix_variables(fixed)` of a BQM / QM** (the mixin loop, in the order given; squared terms included): for distinct labels of
    the model and any label valuation `val` that gives every fixed label its value, the call succeeds, the remaining labels are
    the others in order, the invariant holds, and the result at `k ↦ val (remaining label k)` has the energy of the original at
    `g ↦ val (label g)` -/
theorem fixVariables_spec (m : QmL R) (hm : m.Ok) (fixed : List (Label × R)) (hfd : (fixed.map (·.1)).Nodup)
    (hall : ∀ p ∈ fixed, p.1 ∈ m.labels) (val : Label → R) (hval : ∀ p ∈ fixed, val p.1 = p.2) :
    let r := m.fixVariables fixed
    r.2 = true ∧ r.1.Ok ∧ r.1.labels.Sublist m.labels ∧ (∀ l, l ∈ r.1.labels ↔ l ∈ m.labels ∧ l ∉ fixed.map (·.1)) ∧
    r.1.qb.energy (valL val r.1.labels) = m.qb.energy (valL val m.labels) := by
  induction fixed generalizing m with
  | nil =>
    show (m, true).2 = true ∧ (m, true).1.Ok ∧ _
    exact ⟨rfl, hm, List.Sublist.refl _, (by intro l; simp [fixVariables]), rfl⟩
  | cons p rest ih =>
    obtain ⟨v, a⟩ := p
    have hfd' := (List.nodup_cons.mp hfd).2
    have hvrest : v ∉ rest.map (·.1) := (List.nodup_cons.mp hfd).1
    obtain ⟨m', h1, h2, h3, h4, h5⟩ := fixVariable_step m hm v (hall (v, a) (by simp)) a val (hval (v, a) (by simp))
    simp only [fixVariables, h1]
    have hall' : ∀ p ∈ rest, p.1 ∈ m'.labels := by
      intro p hp
      refine (h3 p.1).mpr ⟨hall p (List.mem_cons_of_mem _ hp), ?_⟩
      intro e
      exact hvrest (e ▸ List.mem_map.mpr ⟨p, hp, rfl⟩)
    obtain ⟨r1, r2, r3, r4, r5⟩ := ih m' h2 hfd' hall' (fun p hp => hval p (List.mem_cons_of_mem _ hp))
    refine ⟨r1, r2, r3.trans h4, ?_, by rw [r5, h5]⟩
    intro l
    rw [r4 l, h3 l]
    simp only [List.map_cons, List.mem_cons, not_or]
    tauto

/-- an unknown label is rejected and nothing is changed -/
theorem fixVariable_unknown [DecidableEq R] (m : QmL R) (v : Label) (hv : v ∉ m.labels) (a : R) : m.fixVariable v a = none := by
  unfold fixVariable
  rw [(indexOf?_none m.labels v).mpr hv]; rfl

end QmL

end En
