import DimodProofs.CqmFixCopy

/-! Lifting the index-level statements about the primitives of `Expression` to label-keyed polynomials
    (`absExpr`): what an operation on the indexed representation is on the plain polynomial (property C05,
    `cqm_step_refines`). -/

namespace CqmP
open Expr Cqm

/-! ### the specification: operations on a label-keyed polynomial -/

def LPoly.enforce (p : LPoly) (l : Label) : List Label := if l ∈ p.vars then p.vars else p.vars ++ [l]

def LPoly.addLinear (p : LPoly) (l : Label) (b : Rat) : LPoly :=
  { p with vars := p.enforce l, lin := fun x => if x = l then p.lin x + b else p.lin x }

def LPoly.setLinear (p : LPoly) (l : Label) (b : Rat) : LPoly :=
  { p with vars := p.enforce l, lin := fun x => if x = l then b else p.lin x }

def LPoly.setOffset (p : LPoly) (b : Rat) : LPoly := { p with off := b }
def LPoly.addOffset (p : LPoly) (b : Rat) : LPoly := { p with off := p.off + b }

/-- `add_quadratic(lu, lv, b)`; `vt` is the type of `lu`.  (`lv` is enforced first — g++ argument order.) -/
def LPoly.addQuadratic (p : LPoly) (vt : VT4) (lu lv : Label) (b : Rat) : LPoly :=
  { vars := ({ p with vars := p.enforce lv } : LPoly).enforce lu,
    lin := fun x => if lu = lv ∧ vt = .binary ∧ x = lu then p.lin x + b else p.lin x,
    off := if lu = lv ∧ vt = .spin then p.off + b else p.off,
    quad := fun x y =>
      if lu = lv then (if vt ≠ .binary ∧ vt ≠ .spin ∧ x = lu ∧ y = lu then p.quad x y + b else p.quad x y)
      else if (x = lu ∧ y = lv) ∨ (x = lv ∧ y = lu) then p.quad x y + b else p.quad x y }

/-! ### positions and labels -/

theorem findIdx_of_get {L : List Label} (hnd : L.Nodup) {g : Nat} {lg : Label} (hg : L[g]? = some lg) : findIdx lg L 0 = some g :=
  (findIdx_eq_some_iff hnd).mpr hg

theorem idx_eq_iff_label {L : List Label} (hnd : L.Nodup) {g k : Nat} {lg x : Label} (hg : L[g]? = some lg)
    (hk : findIdx x L 0 = some k) : k = g ↔ x = lg := by
  have hx := (findIdx_eq_some_iff hnd).mp hk
  constructor
  · intro h; subst h; rw [hx] at hg; exact Option.some.inj hg
  · intro h; subst h; exact idx_unique_label hnd hx hg

theorem getD_of_get {L : List Label} {g : Nat} {lg : Label} (hg : L[g]? = some lg) : L.getD g (.int 0) = lg := by
  rw [List.getD_eq_getElem?_getD, hg]; rfl

theorem hasVar_iff_mem {e : Expr} (hwf : ExprWF e) (g : Nat) : e.hasVar g = true ↔ g ∈ e.vars := by
  unfold Expr.hasVar
  constructor
  · intro h
    cases hi : e.idx.get? g with
    | none => rw [hi] at h; cases h
    | some i => exact mem_of_getElem? ((hwf.idx g i).mp hi)
  · intro h
    obtain ⟨i, hi⟩ := List.getElem?_of_mem h
    rw [(hwf.idx g i).mpr hi]; rfl

theorem label_mem_absVars {L : List Label} (hnd : L.Nodup) {e : Expr} (hin : ExprIn L.length e) {g : Nat} {lg : Label}
    (hg : L[g]? = some lg) : lg ∈ (absExpr L e).vars ↔ g ∈ e.vars := by
  unfold absExpr
  simp only [List.mem_map]
  constructor
  · intro ⟨k, hk, hkl⟩
    have hkL := hin k hk
    have : L[k]? = some lg := by
      rw [← hkl, List.getD_eq_getElem?_getD, List.getElem?_eq_getElem hkL]; rfl
    rw [idx_unique_label hnd hg this]; exact hk
  · intro h; exact ⟨g, h, getD_of_get hg⟩

theorem absVars_enforce {L : List Label} (hnd : L.Nodup) {e : Expr} (hwf : ExprWF e) (hin : ExprIn L.length e) {g : Nat} {lg : Label}
    (hg : L[g]? = some lg) : (absExpr L (e.enforce g).1).vars = (absExpr L e).enforce lg := by
  unfold LPoly.enforce
  by_cases hmem : g ∈ e.vars
  · rw [if_pos ((label_mem_absVars hnd hin hg).mpr hmem)]
    obtain ⟨i, hi⟩ := List.getElem?_of_mem hmem
    rw [enforce_of_some ((hwf.idx g i).mpr hi)]
  · rw [if_neg (fun h => hmem ((label_mem_absVars hnd hin hg).mp h))]
    have hnone : e.idx.get? g = none := by
      cases hi : e.idx.get? g with
      | none => rfl
      | some i => exact absurd (mem_of_getElem? ((hwf.idx g i).mp hi)) hmem
    rw [enforce_of_none hnone]
    unfold absExpr
    show (e.vars ++ [g]).map _ = e.vars.map _ ++ [lg]
    rw [List.map_append, List.map_singleton, getD_of_get hg]

/-! ### linear terms and the offset -/

theorem enforce_off (e : Expr) (g : Nat) : (e.enforce g).1.qb.off = e.qb.off := by
  cases hg : e.idx.get? g with
  | some i => rw [enforce_of_some hg]
  | none => rw [enforce_of_none hg]; rfl

theorem addLinear_off (e : Expr) (g : Nat) (b : Rat) : (e.addLinear g b).qb.off = e.qb.off := enforce_off e g
theorem setLinear_off (e : Expr) (g : Nat) (b : Rat) : (e.setLinear g b).qb.off = e.qb.off := enforce_off e g

theorem addLinear_quadratic {e : Expr} (hwf : ExprWF e) (g : Nat) (b : Rat) (x y : Nat) :
    (e.addLinear g b).quadratic x y = e.quadratic x y := by
  rw [← enforce_quadratic hwf g x y]; rfl

theorem setLinear_quadratic {e : Expr} (hwf : ExprWF e) (g : Nat) (b : Rat) (x y : Nat) :
    (e.setLinear g b).quadratic x y = e.quadratic x y := by
  rw [← enforce_quadratic hwf g x y]; rfl

theorem setLinear_linear {e : Expr} (hwf : ExprWF e) (g : Nat) (b : Rat) (k : Nat) :
    (e.setLinear g b).linear k = if k = g then b else e.linear k := by
  have h1 := enforce_wf hwf g
  have hidx := enforce_idx (e := e) g
  have hlt : (e.enforce g).2 < (e.enforce g).1.qb.lin.length := by rw [h1.lin_len]; exact enforce_lt hwf g
  unfold Expr.setLinear QB.setLinear
  by_cases hkg : k = g
  · subst hkg
    rw [if_pos rfl]
    rw [show ({ (e.enforce k).1 with qb := { (e.enforce k).1.qb with lin := Bqm.modifyAt (e.enforce k).1.qb.lin (e.enforce k).2 (fun _ => b) } } : Expr).linear k
        = (Bqm.modifyAt (e.enforce k).1.qb.lin (e.enforce k).2 (fun _ => b)).getD (e.enforce k).2 0 from linear_of_idx hidx]
    rw [getD_modifyAt _ _ _ _ _ hlt, if_pos rfl]
  · rw [if_neg hkg, ← enforce_linear hwf g k]
    cases hk : (e.enforce g).1.idx.get? k with
    | none =>
      rw [linear_of_none hk]
      exact linear_of_none (e := { (e.enforce g).1 with qb := _ }) hk
    | some j =>
      rw [linear_of_idx hk]
      rw [show ({ (e.enforce g).1 with qb := { (e.enforce g).1.qb with lin := Bqm.modifyAt (e.enforce g).1.qb.lin (e.enforce g).2 (fun _ => b) } } : Expr).linear k
          = (Bqm.modifyAt (e.enforce g).1.qb.lin (e.enforce g).2 (fun _ => b)).getD j 0 from linear_of_idx hk]
      rw [getD_modifyAt _ _ _ _ _ hlt]
      have : j ≠ (e.enforce g).2 := by
        intro hj; subst hj
        have a1 := (h1.idx k _).mp hk
        have a2 := (h1.idx g _).mp hidx
        rw [a1] at a2; exact hkg (Option.some.inj a2)
      rw [if_neg this]

/-- `expression.add_linear(lg, b)` on the polynomial -/
theorem absExpr_addLinear {L : List Label} (hnd : L.Nodup) {e : Expr} (hwf : ExprWF e) (hin : ExprIn L.length e) {g : Nat} {lg : Label}
    (hg : L[g]? = some lg) (b : Rat) : absExpr L (e.addLinear g b) = (absExpr L e).addLinear lg b := by
  have hv : (absExpr L (e.addLinear g b)).vars = (absExpr L e).enforce lg := absVars_enforce hnd hwf hin hg
  unfold LPoly.addLinear
  rw [← hv]
  unfold absExpr
  simp only [LPoly.mk.injEq, true_and]
  refine ⟨?_, ?_, ?_⟩
  · funext x
    cases hk : findIdx x L 0 with
    | none =>
      have : x ≠ lg := by intro h; subst h; rw [findIdx_of_get hnd hg] at hk; cases hk
      simp only [this, if_false]
    | some k =>
      simp only []
      rw [addLinear_linear hwf g b k]
      by_cases hkg : k = g
      · have := (idx_eq_iff_label hnd hg hk).mp hkg
        subst hkg; rw [if_pos rfl, if_pos this]
      · rw [if_neg hkg, if_neg (fun h => hkg ((idx_eq_iff_label hnd hg hk).mpr h))]
  · funext x y
    cases findIdx x L 0 with
    | none => rfl
    | some i =>
      cases findIdx y L 0 with
      | none => rfl
      | some j => exact addLinear_quadratic hwf g b i j
  · exact addLinear_off e g b

/-- `expression.set_linear(lg, b)` on the polynomial -/
theorem absExpr_setLinear {L : List Label} (hnd : L.Nodup) {e : Expr} (hwf : ExprWF e) (hin : ExprIn L.length e) {g : Nat} {lg : Label}
    (hg : L[g]? = some lg) (b : Rat) : absExpr L (e.setLinear g b) = (absExpr L e).setLinear lg b := by
  have hv : (absExpr L (e.setLinear g b)).vars = (absExpr L e).enforce lg := absVars_enforce hnd hwf hin hg
  unfold LPoly.setLinear
  rw [← hv]
  unfold absExpr
  simp only [LPoly.mk.injEq, true_and]
  refine ⟨?_, ?_, ?_⟩
  · funext x
    cases hk : findIdx x L 0 with
    | none =>
      have : x ≠ lg := by intro h; subst h; rw [findIdx_of_get hnd hg] at hk; cases hk
      simp only [this, if_false]
    | some k =>
      simp only []
      rw [setLinear_linear hwf g b k]
      by_cases hkg : k = g
      · have := (idx_eq_iff_label hnd hg hk).mp hkg
        subst hkg; rw [if_pos rfl, if_pos this]
      · rw [if_neg hkg, if_neg (fun h => hkg ((idx_eq_iff_label hnd hg hk).mpr h))]
  · funext x y
    cases findIdx x L 0 with
    | none => rfl
    | some i =>
      cases findIdx y L 0 with
      | none => rfl
      | some j => exact setLinear_quadratic hwf g b i j
  · exact setLinear_off e g b

theorem absExpr_setOffset (L : List Label) (e : Expr) (b : Rat) :
    absExpr L { e with qb := { e.qb with off := b } } = (absExpr L e).setOffset b := rfl

theorem absExpr_addOffset (L : List Label) (e : Expr) (b : Rat) :
    absExpr L (e.addOffset b) = (absExpr L e).addOffset b := rfl


/-! ### quadratic terms -/

theorem addQuadratic_linear_ne {e : Expr} (hwf : ExprWF e) (vt : List VT4) {gu gv : Nat} (hne : gu ≠ gv) (b : Rat) (k : Nat) :
    (e.addQuadratic vt gu gv b).linear k = e.linear k ∧ (e.addQuadratic vt gu gv b).qb.off = e.qb.off := by
  have h1 := enforce_wf hwf gv
  have hui := enforce_idx (e := (e.enforce gv).1) gu
  have hvi : ((e.enforce gv).1.enforce gu).1.idx.get? gv = some (e.enforce gv).2 := enforce_idx_old gu gv (enforce_idx gv)
  have h2 := enforce_wf h1 gu
  have huv : ((e.enforce gv).1.enforce gu).2 ≠ (e.enforce gv).2 := by
    intro h
    have a1 := (h2.idx gu _).mp hui
    have a2 := (h2.idx gv _).mp hvi
    rw [h, a2] at a1; exact hne (Option.some.inj a1).symm
  have hqb : (e.addQuadratic vt gu gv b).qb.lin = ((e.enforce gv).1.enforce gu).1.qb.lin
      ∧ (e.addQuadratic vt gu gv b).qb.off = ((e.enforce gv).1.enforce gu).1.qb.off := by
    unfold Expr.addQuadratic QB.addQuadratic
    simp only [if_neg huv]
    exact ⟨rfl, rfl⟩
  constructor
  · rw [← enforce_linear hwf gv k, ← enforce_linear h1 gu k]
    unfold Expr.linear
    show (match ((e.enforce gv).1.enforce gu).1.idx.get? k with
      | some i => (e.addQuadratic vt gu gv b).qb.lin.getD i 0
      | none => 0) = _
    rw [hqb.1]
    rfl
  · rw [hqb.2, enforce_off, enforce_off]

/-- `expression.add_quadratic(lu, lv, b)` on the polynomial: the bias lands on the pair {lu, lv} (or, for a
    squared term, on the linear bias / offset / diagonal according to the type of the variable) and nowhere else -/
theorem absExpr_addQuadratic {L : List Label} (hnd : L.Nodup) {e : Expr} (hwf : ExprWF e) (hs : ExprSorted e) (hin : ExprIn L.length e)
    (vts : List VT4) {gu gv : Nat} {lu lv : Label} (hgu : L[gu]? = some lu) (hgv : L[gv]? = some lv) (b : Rat) :
    absExpr L (e.addQuadratic vts gu gv b) = (absExpr L e).addQuadratic (vts.getD gu .binary) lu lv b := by
  have hgul : gu < L.length := lt_of_getElem? hgu
  have hgvl : gv < L.length := lt_of_getElem? hgv
  have hlab : lu = lv ↔ gu = gv := by
    constructor
    · intro h; subst h; exact idx_unique_label hnd hgu hgv
    · intro h; subst h; rw [hgu] at hgv; exact Option.some.inj hgv
  -- variables
  have hvars : (absExpr L (e.addQuadratic vts gu gv b)).vars
      = ({ (absExpr L e) with vars := (absExpr L e).enforce lv } : LPoly).enforce lu := by
    have h1 := absVars_enforce hnd hwf hin hgv
    have h2 := absVars_enforce hnd (enforce_wf hwf gv) (enforce_in hin hgvl) hgu
    have : (absExpr L (e.addQuadratic vts gu gv b)).vars = (absExpr L ((e.enforce gv).1.enforce gu).1).vars := rfl
    rw [this, h2]
    unfold LPoly.enforce
    rw [h1]
    rfl
  unfold LPoly.addQuadratic
  rw [← hvars]
  by_cases hne : gu = gv
  · -- a squared term
    subst hne
    have hll : lu = lv := hlab.mpr rfl
    subst hll
    obtain ⟨hB, hS, hO⟩ := addQuadratic_self hwf hs vts gu b
    unfold absExpr
    simp only [LPoly.mk.injEq, true_and]
    cases hvt : vts.getD gu .binary with
    | binary =>
      obtain ⟨l1, l2, l3⟩ := hB hvt
      refine ⟨?_, ?_, ?_⟩
      · funext x
        cases hk : findIdx x L 0 with
        | none =>
          have : x ≠ lu := by intro h; subst h; rw [findIdx_of_get hnd hgu] at hk; cases hk
          simp [this]
        | some k =>
          simp only []
          rw [l1 k]
          by_cases hkg : k = gu
          · have := (idx_eq_iff_label hnd hgu hk).mp hkg
            subst hkg; simp [this]
          · have : x ≠ lu := fun h => hkg ((idx_eq_iff_label hnd hgu hk).mpr h)
            simp [hkg, this]
      · funext x y
        simp only [true_and, ne_eq, not_true_eq_false, false_and, if_false, if_true]
        cases findIdx x L 0 with
        | none => rfl
        | some i =>
          cases findIdx y L 0 with
          | none => rfl
          | some j => exact l3 i j
      · simp [l2]
    | spin =>
      obtain ⟨l1, l2, l3⟩ := hS hvt
      refine ⟨?_, ?_, ?_⟩
      · funext x
        cases findIdx x L 0 with
        | none => simp
        | some k => simp [l1 k]
      · funext x y
        simp only [true_and, ne_eq, not_true_eq_false, false_and, and_false, if_false, if_true]
        cases findIdx x L 0 with
        | none => rfl
        | some i =>
          cases findIdx y L 0 with
          | none => rfl
          | some j => exact l3 i j
      · simp [l2]
    | integer =>
      obtain ⟨l1, l2, l3⟩ := hO (by rw [hvt]; intro h; cases h) (by rw [hvt]; intro h; cases h)
      refine ⟨?_, ?_, ?_⟩
      · funext x
        cases findIdx x L 0 with
        | none => simp
        | some k => simp [l1 k]
      · funext x y
        simp only [true_and, ne_eq, if_true]
        cases hi : findIdx x L 0 with
        | none =>
          have : x ≠ lu := by intro h; subst h; rw [findIdx_of_get hnd hgu] at hi; cases hi
          simp [this]
        | some i =>
          cases hj : findIdx y L 0 with
          | none =>
            have : y ≠ lu := by intro h; subst h; rw [findIdx_of_get hnd hgu] at hj; cases hj
            simp [this]
          | some j =>
            simp only []
            rw [l3 i j]
            have e1 := idx_eq_iff_label hnd hgu hi
            have e2 := idx_eq_iff_label hnd hgu hj
            by_cases hc : i = gu ∧ j = gu
            · rw [if_pos hc]; simp [e1.mp hc.1, e2.mp hc.2]
            · rw [if_neg hc]
              have : ¬ (x = lu ∧ y = lu) := fun h => hc ⟨e1.mpr h.1, e2.mpr h.2⟩
              simp [this]
      · simp [l2]
    | real =>
      obtain ⟨l1, l2, l3⟩ := hO (by rw [hvt]; intro h; cases h) (by rw [hvt]; intro h; cases h)
      refine ⟨?_, ?_, ?_⟩
      · funext x
        cases findIdx x L 0 with
        | none => simp
        | some k => simp [l1 k]
      · funext x y
        simp only [true_and, ne_eq, if_true]
        cases hi : findIdx x L 0 with
        | none =>
          have : x ≠ lu := by intro h; subst h; rw [findIdx_of_get hnd hgu] at hi; cases hi
          simp [this]
        | some i =>
          cases hj : findIdx y L 0 with
          | none =>
            have : y ≠ lu := by intro h; subst h; rw [findIdx_of_get hnd hgu] at hj; cases hj
            simp [this]
          | some j =>
            simp only []
            rw [l3 i j]
            have e1 := idx_eq_iff_label hnd hgu hi
            have e2 := idx_eq_iff_label hnd hgu hj
            by_cases hc : i = gu ∧ j = gu
            · rw [if_pos hc]; simp [e1.mp hc.1, e2.mp hc.2]
            · rw [if_neg hc]
              have : ¬ (x = lu ∧ y = lu) := fun h => hc ⟨e1.mpr h.1, e2.mpr h.2⟩
              simp [this]
      · simp [l2]
  · have hlne : lu ≠ lv := fun h => hne (hlab.mp h)
    have hlin := addQuadratic_linear_ne hwf vts hne b
    unfold absExpr
    simp only [LPoly.mk.injEq, true_and]
    refine ⟨?_, ?_, ?_⟩
    · funext x
      simp only [hlne, false_and, if_false]
      cases findIdx x L 0 with
      | none => rfl
      | some k => exact (hlin k).1
    · funext x y
      simp only [hlne, if_false]
      cases hi : findIdx x L 0 with
      | none =>
        have h1 : x ≠ lu := by intro h; subst h; rw [findIdx_of_get hnd hgu] at hi; cases hi
        have h2 : x ≠ lv := by intro h; subst h; rw [findIdx_of_get hnd hgv] at hi; cases hi
        simp [h1, h2]
      | some i =>
        cases hj : findIdx y L 0 with
        | none =>
          have h1 : y ≠ lu := by intro h; subst h; rw [findIdx_of_get hnd hgu] at hj; cases hj
          have h2 : y ≠ lv := by intro h; subst h; rw [findIdx_of_get hnd hgv] at hj; cases hj
          simp [h1, h2]
        | some j =>
          simp only []
          rw [addQuadratic_quadratic hwf hs vts hne b i j]
          have e1 := idx_eq_iff_label hnd hgu hi
          have e2 := idx_eq_iff_label hnd hgv hj
          have e3 := idx_eq_iff_label hnd hgv hi
          have e4 := idx_eq_iff_label hnd hgu hj
          by_cases hc : (i = gu ∧ j = gv) ∨ (i = gv ∧ j = gu)
          · rw [if_pos hc]
            have : (x = lu ∧ y = lv) ∨ (x = lv ∧ y = lu) := by
              rcases hc with ⟨a, b'⟩ | ⟨a, b'⟩
              · exact Or.inl ⟨e1.mp a, e2.mp b'⟩
              · exact Or.inr ⟨e3.mp a, e4.mp b'⟩
            rw [if_pos this]
          · rw [if_neg hc]
            have : ¬ ((x = lu ∧ y = lv) ∨ (x = lv ∧ y = lu)) := by
              intro h; apply hc
              rcases h with ⟨a, b'⟩ | ⟨a, b'⟩
              · exact Or.inl ⟨e1.mpr a, e2.mpr b'⟩
              · exact Or.inr ⟨e3.mpr a, e4.mpr b'⟩
            rw [if_neg this]; simp
    · simp only [hlne, false_and, if_false]
      exact (hlin 0).2

end CqmP
