import DimodModel.SampleSetMore
import DimodProofs.Stack

/-! C14 audit additions: when the sample-set calls raise (exactly), slices with negative step / negative
    stop, single-input and empty `concatenate`, chains of deferred calls. -/

namespace SSM

/-! ### first -/

theorem sorted_rows_perm (rows : List Row) : (gather rows (argsort (rows.map (·.energy)))).Perm rows := by
  have hs := argsort_isSortingPerm (rows.map (·.energy))
  exact gather_perm _ _ (by simpa using hs.1)

/-- `first` raises exactly on an empty sample set -/
theorem first_eq_none_iff (s : SS) : s.first = none ↔ s.rows = [] := by
  unfold SS.first
  have hp := sorted_rows_perm s.rows
  rw [List.head?_eq_none_iff]
  constructor
  · intro h; rw [h] at hp; exact hp.symm.eq_nil
  · intro h; rw [h] at hp; rw [h]; exact hp.eq_nil

/-! ### slices -/

/-- `slice.indices` raises exactly for a zero step -/
theorem sliceIndices_eq_none_iff (sl : PySlice) (n : Nat) : sliceIndices sl n = none ↔ sl.step = some 0 := by
  unfold sliceIndices sliceBounds
  by_cases hc : sl.step.getD 1 = 0
  · simp only [hc, if_true, Option.map_none, true_iff]
    cases hs : sl.step with
    | none => rw [hs] at hc; simp at hc
    | some c => rw [hs] at hc; simp at hc; rw [hc]
  · simp only [hc, if_false, Option.map_some]
    constructor
    · intro h; cases h
    · intro h; rw [h] at hc; simp at hc

theorem sliceRows_eq_none_iff (rows : List Row) (by_ : Option Key) (sl : PySlice) :
    sliceRows rows by_ sl = none ↔ sl.step = some 0 := by
  cases by_ <;> simp [sliceRows, sliceIndices_eq_none_iff]

theorem gather_reverse (l : List α) (idx : List Nat) : gather l idx.reverse = (gather l idx).reverse := by
  simp [gather, List.filterMap_reverse]

/-- `[::-1]` lists the positions backwards -/
theorem sliceIndices_reverse (n : Nat) : sliceIndices ⟨none, none, some (-1)⟩ n = some (List.range n).reverse := by
  unfold sliceIndices sliceBounds
  simp only [Option.getD_some, show ¬ ((-1 : Int) = 0) by omega, if_false, show ((-1 : Int) < 0) by omega,
    show ¬ ((-1 : Int) > 0) by omega, if_true, Option.map_some]
  congr 1
  unfold rangeInt
  simp only [show ¬ ((-1 : Int) > 0) by omega, if_false]
  have hc : (((n : Int) - 1) - (-1) - (-1) - 1) / (-(-1)) = (n : Int) := by
    have : (-(-1 : Int)) = 1 := by omega
    rw [this, Int.ediv_one]; omega
  rw [hc, Int.toNat_natCast]
  apply List.ext_getElem?
  intro k
  by_cases hk : k < n
  · rw [List.getElem?_reverse (by simpa using hk)]
    simp only [List.getElem?_map, List.length_range]
    rw [List.getElem?_range hk, List.getElem?_range (by omega)]
    simp only [Option.map_some, Option.some.injEq]
    omega
  · rw [List.getElem?_eq_none (by simp; omega), List.getElem?_eq_none (by simp; omega)]

theorem sliceRows_reverse (rows : List Row) : sliceRows rows none ⟨none, none, some (-1)⟩ = some rows.reverse := by
  simp only [sliceRows, sliceIndices_reverse, Option.map_some, gather_reverse, gather_range]

theorem sliceRows_sorted_reverse (rows : List Row) (k : Key) :
    sliceRows rows (some k) ⟨none, none, some (-1)⟩ = some (gather rows (argsort (rows.map (·.key k)))).reverse := by
  simp only [sliceRows, sliceIndices_reverse, Option.map_some]
  congr 1
  have hlen : (argsort (rows.map (·.key k))).length = rows.length := by
    have := (argsort_isSortingPerm (rows.map (·.key k))).1.length_eq
    simpa using this
  rw [gather_reverse, ← hlen, gather_range, gather_reverse]

/-- `slice(n)` / `truncate(n)` with a negative `n` keeps all positions but the last `-n` -/
theorem sliceIndices_truncate_neg (n : Int) (len : Nat) (hn : n < 0) :
    sliceIndices ⟨none, some n, none⟩ len = some (List.range (len - n.natAbs)) := by
  unfold sliceIndices sliceBounds
  simp only [Option.getD_none, show ¬ ((1 : Int) = 0) by omega, if_false, show ¬ ((1 : Int) < 0) by omega,
    show (1 : Int) > 0 by omega, if_true, Option.map_some, hn]
  rw [rangeInt_zero_one]
  congr 2
  omega

theorem sliceRows_truncate_neg (rows : List Row) (by_ : Option Key) (n : Int) (hn : n < 0) :
    sliceRows rows by_ ⟨none, some n, none⟩ =
      some ((match by_ with | none => rows | some k => gather rows (argsort (rows.map fun r : Row => r.key k))).take (rows.length - n.natAbs)) := by
  cases by_ with
  | none =>
    simp only [sliceRows, sliceIndices_truncate_neg n rows.length hn, Option.map_some]
    rw [gather_range_take _ _ (by omega)]
  | some k =>
    have hlt : ∀ i ∈ argsort (rows.map (·.key k)), i < rows.length := fun i hi => by
      have := argsort_lt _ i hi; simpa using this
    have hlen : (gather rows (argsort (rows.map (·.key k)))).length = rows.length := by
      have hs := argsort_isSortingPerm (rows.map (·.key k))
      exact (gather_perm _ _ (by simpa using hs.1)).length_eq
    simp only [sliceRows, sliceIndices_truncate_neg n rows.length hn, Option.map_some]
    rw [gather_gather rows _ _ hlt, gather_range_take _ _ (by omega)]

/-! ### when the column / field adders raise -/

theorem appendVars_eq_none_iff (s : SS) (labels : List Label) (newRows : List (List Rat)) (sort : Bool) :
    s.appendVars labels newRows sort = none ↔
      (newRows.length ≠ s.rows.length ∧ ¬ (newRows.length = 1 ∧ s.rows.length ≠ 0)) ∨
      (∃ v ∈ labels, v ∈ s.labels) ∨ ¬ labels.Nodup := by
  unfold SS.appendVars
  dsimp only
  have inner : ∀ nr : List (List Rat),
      ((if (labels.any (· ∈ s.labels) || !decide labels.Nodup) = true then none else
        some (fromSamples (s.labels ++ labels)
          ((s.rows.zip nr).map fun p => { p.1 with sample := p.1.sample ++ p.2 }) s.vt s.fields sort)) = none) ↔
      ((∃ v ∈ labels, v ∈ s.labels) ∨ ¬ labels.Nodup) := by
    intro nr
    split
    · rename_i h; simpa using h
    · rename_i h; simp only [reduceCtorEq, false_iff]; simpa using h
  by_cases h1 : newRows.length = s.rows.length
  · rw [if_pos h1]
    have hr : ¬ (newRows.length ≠ s.rows.length ∧ ¬ (newRows.length = 1 ∧ s.rows.length ≠ 0)) := fun h => h.1 h1
    simp only [hr, false_or]
    exact inner _
  · by_cases h2 : newRows.length = 1 ∧ s.rows.length ≠ 0
    · have h2' : (newRows.length = 1 && decide (s.rows.length ≠ 0)) = true := by simpa using h2
      rw [if_neg h1, if_pos h2']
      have hr : ¬ (newRows.length ≠ s.rows.length ∧ ¬ (newRows.length = 1 ∧ s.rows.length ≠ 0)) := fun h => h.2 h2
      simp only [hr, false_or]
      exact inner _
    · have h2' : ¬ ((newRows.length = 1 && decide (s.rows.length ≠ 0)) = true) := by simpa using h2
      rw [if_neg h1, if_neg h2']
      exact ⟨fun _ => Or.inl ⟨h1, h2⟩, fun _ => rfl⟩

theorem appendVec_eq_none_iff (s : SS) (name : String) (vals : List (List Rat)) :
    s.appendVec name vals = none ↔
      vals.length ≠ s.rows.length ∨ name ∈ s.fields ∨ name = "sample" ∨ name = "energy" ∨ name = "num_occurrences" := by
  unfold SS.appendVec
  split
  · rename_i h
    simp only [true_iff]
    simpa [or_assoc] using h
  · rename_i h
    simp only [reduceCtorEq, false_iff]
    simpa [or_assoc] using h

/-! ### concatenate: degenerate input lists, mismatched variables -/

theorem concatenate_single (s : SS) : concatenate [s] = some s := by
  simp [concatenate, allSome]

theorem changeVartype_labels (s : SS) (vt : VT) (off : Rat) : (s.changeVartype vt off).1.labels = s.labels :=
  (changeVartype_frame s vt off).1

/-- `_iter_records` raises for a sample set over other variables than the first one's -/
theorem coerceTo_none_of_labels (vt : VT) (labels : List Label) (s : SS)
    (h : (∃ v ∈ labels, v ∉ s.labels) ∨ s.labels.length ≠ labels.length) : coerceTo vt labels s = none := by
  have key : ∀ s1 : SS, s1.labels = s.labels →
      (if s1.labels = labels then some s1.rows
       else if labels.all (· ∈ s1.labels) && s1.labels.length = labels.length then
         some (s1.rows.map fun r => { r with sample := gather r.sample (labels.map (s1.labels.idxOf ·)) })
       else none) = none := by
    intro s1 hl
    rw [hl]
    have hne : s.labels ≠ labels := by
      intro e; subst e
      rcases h with ⟨v, hv, hv'⟩ | h
      · exact hv' hv
      · exact h rfl
    rw [if_neg hne]
    split
    · rename_i hc
      simp only [Bool.and_eq_true, List.all_eq_true, decide_eq_true_eq] at hc
      rcases h with ⟨v, hv, hv'⟩ | h
      · exact absurd (hc.1 v hv) hv'
      · exact absurd hc.2 h
    · rfl
  unfold coerceTo
  by_cases hv : s.vt = vt
  · simp only [hv, if_true]
    exact key s rfl
  · simp only [hv, if_false]
    have hl := changeVartype_labels s vt 0
    generalize s.changeVartype vt 0 = p at hl
    obtain ⟨s', b⟩ := p
    cases b
    · rfl
    · exact key s' hl

theorem allSome_none_of_mem {l : List (Option α)} (h : none ∈ l) : allSome l = none := by
  induction l with
  | nil => cases h
  | cons a l ih =>
    cases a with
    | none => rfl
    | some a =>
      have : none ∈ l := by simpa using h
      simp [allSome, ih this]

theorem concatenate_none_of_labels (first : SS) (rest : List SS) (s : SS) (hs : s ∈ rest)
    (h : (∃ v ∈ first.labels, v ∉ s.labels) ∨ s.labels.length ≠ first.labels.length) :
    concatenate (first :: rest) = none := by
  simp only [concatenate]
  split
  · rw [allSome_none_of_mem (List.mem_map.mpr ⟨s, hs, coerceTo_none_of_labels _ _ s h⟩)]
    rfl
  · rfl

/-! ### chains of deferred calls -/

theorem chain_step (o : LOp) (x : LSS) : (o.onObject x).bind LSS.resolve = x.resolve.bind o.onValue := by
  cases o with
  | relabel m ip => exact lazy_relabel x m ip
  | changeVt vt off ip => exact lazy_changeVt x vt off ip

/-- any sequence of `relabel_variables` / `change_vartype` calls (either `inplace` value each, any energy
    offsets) issued on a sample set object — resolved or still waiting for its future — and resolved
    afterwards gives what the same calls give on the resolved sample set; the chain raises (at some call or at
    resolution) exactly when the calls on the resolved set raise -/
theorem lazy_chain (ops : List LOp) (x : Option LSS) :
    (chainObject ops x).bind LSS.resolve = chainValue ops (x.bind LSS.resolve) := by
  induction ops generalizing x with
  | nil => rfl
  | cons o ops ih =>
    simp only [chainObject, chainValue, List.foldl_cons] at ih ⊢
    rw [ih]
    congr 1
    cases x with
    | none => rfl
    | some x => exact chain_step o x

/-- on an object whose future has not completed nothing is computed at call time: `relabel_variables` (either
    `inplace`) and `change_vartype(inplace=True)` return a still-pending object and cannot raise -/
theorem pending_defers (x : LSS) (hx : x.done = false) (m : List (Label × Label)) (ip : Bool) (vt : VT) (off : Rat) :
    (∃ y, x.relabelOp m ip = some y ∧ y.done = false) ∧ (∃ y, x.changeVtOp vt off true = some y ∧ y.done = false) := by
  constructor
  · unfold LSS.relabelOp
    simp only [hx, Bool.false_eq_true, if_false]
    cases ip
    · exact ⟨_, rfl, hx⟩
    · cases x with
      | res s => simp [LSS.done] at hx
      | fut d r hooks => exact ⟨_, rfl, hx⟩
      | wrap inner hooks => exact ⟨_, rfl, hx⟩
  · unfold LSS.changeVtOp
    simp only [hx]
    exact ⟨_, rfl, hx⟩

end SSM
