import DimodProofs.CqmLiftMore

/-! Property C05 — the label-level refinement **folded over a history**.

    `specStep s op` is the specification's step on the list of label-keyed polynomials (`LCqm`) for every operation whose
    effect is a *function* of the abstract state (view mutations, building from term iterables, constraint removal with and
    without cascade, `fix_variable(s)` in place); `specRun` folds it.  `history_refines`: from any state satisfying the four
    invariants (true of every reachable state), along any list of such operations whose calls all succeed, the abstraction of
    the model's run is the fold of the specification. -/

namespace CqmP
open Expr Cqm

/-- the specification's step, where it is a function of the abstract state (`none`: not in this fragment) -/
def specStep (s : LCqm) : Op → Option LCqm
  | .viewAddLinear w v b => some (s.modView w (·.addLinear v b))
  | .viewSetLinear w v b => some (s.modView w (·.setLinear v b))
  | .viewAddQuadratic w u v b => some (s.modView w (·.addQuadratic (s.vtOf u) u v b))
  | .viewRemoveInteraction w u v => some (s.modView w (·.removeInteraction u v))
  | .viewRemoveVariable w v => some (s.modView w (·.drop v))
  | .viewSetOffset w b => some (s.modView w (·.setOffset b))
  | .viewMarkDiscrete l mark => some (s.modAttr l (fun c => { c with discrete := mark }))
  | .viewSetWeight l weight pen => some (s.modAttr l (fun c => { c with weight := weight, quadPenalty := decide (pen = 1) }))
  | .setObjectiveTerms ts => some { s with obj := ts.foldl (LPoly.addTerm s.vtOf) LPoly.empty }
  | .addConstraintTerms ts sense rhs label weight pen =>
    if weight = none ∧ pen = 0 then
      some { s with cons := s.cons ++
        [(label, { p := ts.foldl (LPoly.addTerm s.vtOf) LPoly.empty, sense := sense, rhs := rhs, weight := none,
                   quadPenalty := false, discrete := false })] }
    else none
  | .removeConstraint label cascade =>
    if cascade then
      some ((s.cascadeLabels label).foldl LCqm.removeVariable { s with cons := s.cons.filter (fun p => p.1 ≠ label) })
    else some { s with cons := s.cons.filter (fun p => p.1 ≠ label) }
  | .fixVariable v a => some ((s.mapPolys (·.substitute v 0 a)).removeVariable v)
  | .fixVariables fixed => some (fixed.foldl (fun s p => (s.mapPolys (·.substitute p.1 0 p.2)).removeVariable p.1) s)
  | _ => none

def specRun (s : LCqm) : List Op → Option LCqm
  | [] => some s
  | op :: t => (specStep s op).bind fun s' => specRun s' t

/-- every call of the history returns normally -/
def Succeeds (m : Cqm) : List Op → Prop
  | [] => True
  | op :: t => (m.step op).2 = none ∧ Succeeds (m.step op).1 t

/-- the four hypotheses of the refinement statements -/
structure RefInv (m : Cqm) : Prop where
  wf : CqmWF m
  lab : CqmLabelsOK m
  ks : AllExprs ExprKS m
  sorted : AllExprs ExprSorted m

theorem refInv_step {m : Cqm} (h : RefInv m) (op : Op) (hop : OpOK op) : RefInv (m.step op).1 :=
  ⟨step_wf h.wf op hop, step_labels h.lab op, step_all exprKS_closed h.wf h.ks op hop,
   step_all exprSorted_closed h.wf h.sorted op hop⟩

theorem specStep_refines {m : Cqm} (h : RefInv m) (op : Op) (s' : LCqm)
    (hs : specStep (absCqm m) op = some s') (hok : (m.step op).2 = none) : absCqm (m.step op).1 = s' := by
  have hm : m.step op = ((m.step op).1, none) := Prod.ext rfl hok
  cases op with
  | viewAddLinear w v b => injection hs with hs; rw [← hs]; exact refines_viewAddLinear h.wf h.lab w v b hm
  | viewSetLinear w v b => injection hs with hs; rw [← hs]; exact refines_viewSetLinear h.wf h.lab w v b hm
  | viewAddQuadratic w u v b => injection hs with hs; rw [← hs]; exact refines_viewAddQuadratic h.wf h.lab h.sorted w u v b hm
  | viewRemoveInteraction w u v => injection hs with hs; rw [← hs]; exact refines_viewRemoveInteraction h.lab h.ks w u v hm
  | viewRemoveVariable w v => injection hs with hs; rw [← hs]; exact refines_viewRemoveVariable h.wf h.lab w v hm
  | viewSetOffset w b => injection hs with hs; rw [← hs]; exact refines_viewSetOffset h.lab w b hm
  | viewMarkDiscrete l mark => injection hs with hs; rw [← hs]; exact refines_viewMarkDiscrete h.lab l mark hm
  | viewSetWeight l weight pen => injection hs with hs; rw [← hs]; exact refines_viewSetWeight h.lab l weight pen hm
  | setObjectiveTerms ts => injection hs with hs; rw [← hs]; exact refines_setObjectiveTerms h.wf h.lab ts hm
  | addConstraintTerms ts sense rhs label weight pen =>
    simp only [specStep] at hs
    split_ifs at hs with hc
    obtain ⟨hw, hp⟩ := hc
    subst hw; subst hp
    injection hs with hs; rw [← hs]
    exact refines_addConstraintTerms h.wf h.lab ts sense rhs label hm
  | removeConstraint label cascade =>
    cases cascade with
    | true =>
      simp only [specStep, if_true] at hs
      injection hs with hs; rw [← hs]
      exact refines_removeConstraintCascade h.wf h.lab label hm
    | false =>
      simp only [specStep, Bool.false_eq_true, if_false] at hs
      injection hs with hs; rw [← hs]
      exact refines_removeConstraint h.lab label hm
  | fixVariable v a => injection hs with hs; rw [← hs]; exact refines_fixVariable h.wf h.lab h.ks h.sorted v a hm
  | fixVariables fixed => injection hs with hs; rw [← hs]; exact refines_fixVariables fixed h.wf h.lab h.ks h.sorted hm
  | _ => cases hs

theorem specRun_refines (ops : List Op) : ∀ {m : Cqm}, RefInv m → (∀ op ∈ ops, OpOK op) → Succeeds m ops →
    ∀ s', specRun (absCqm m) ops = some s' → absCqm (m.run ops) = s' := by
  induction ops with
  | nil =>
    intro m _ _ _ s' hs
    injection hs
  | cons op t ih =>
    intro m h hops hsucc s' hs
    unfold Cqm.run
    rw [List.foldl_cons]
    simp only [specRun] at hs
    cases hstep : specStep (absCqm m) op with
    | none => rw [hstep] at hs; cases hs
    | some s1 =>
      rw [hstep] at hs
      have h1 := specStep_refines h op s1 hstep hsucc.1
      have hs' : specRun s1 t = some s' := hs
      rw [← h1] at hs'
      exact ih (refInv_step h op (hops op List.mem_cons_self)) (fun o ho => hops o (List.mem_cons_of_mem _ ho)) hsucc.2 s' hs'

end CqmP
