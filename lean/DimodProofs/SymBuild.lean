import DimodProofs.SymMul

/-! C06: from the primitives to the operators and to whole expression trees. -/

namespace Sym

/-- every variable of the model is a `T`-typed label; a BQM has vartype SPIN or BINARY and all its
    variables carry it -/
def Typed (T : Label → VT → Prop) (m : Model) : Prop :=
  (∀ v ∈ m.vars, T v.l v.info.vt) ∧
  (m.isQM = false → (m.bvt = .spin ∨ m.bvt = .binary) ∧ ∀ v ∈ m.vars, v.info.vt = m.bvt)

theorem Typed.mono {T T' : Label → VT → Prop} {m : Model} (h : Typed T m) (hT : ∀ l k, T l k → T' l k) : Typed T' m :=
  ⟨fun v hv => hT _ _ (h.1 v hv), h.2⟩

theorem typed_scale {T} {m : Model} (q : Rat) (h : Typed T m) : Typed T (m.scale q) := by
  constructor
  · intro v hv
    simp only [Model.scale, List.mem_map] at hv
    obtain ⟨w, hw, rfl⟩ := hv
    exact h.1 w hw
  · intro hq
    obtain ⟨h1, h2⟩ := h.2 hq
    refine ⟨h1, ?_⟩
    intro v hv
    simp only [Model.scale, List.mem_map] at hv
    obtain ⟨w, hw, rfl⟩ := hv
    exact h2 w hw

theorem typed_addOffset {T} {m : Model} (q : Rat) (h : Typed T m) : Typed T (m.addOffset q) := h

theorem typed_toQM {T} {m : Model} (h : Typed T m) : Typed T m.toQM :=
  ⟨h.1, fun hq => by simp [Model.toQM] at hq⟩

theorem varsOK_appendNew (P : Label → VarInfo → Prop) (vs ws : List Var) (hv : VarsOK P vs) (hw : VarsOK P ws) :
    VarsOK P (appendNew vs ws) := by
  induction ws generalizing vs with
  | nil => exact hv
  | cons w rest ih =>
    have hrest : VarsOK P rest := fun v h => hw v (List.mem_cons_of_mem _ h)
    simp only [appendNew]
    split
    · exact ih vs hv hrest
    · apply ih _ _ hrest
      apply varsOK_append P _ _ hv
      intro v h
      simp only [List.mem_singleton] at h
      subst h
      exact hw w (List.mem_cons_self)

theorem varsOK_addLinAll (P : Label → VarInfo → Prop) (vs ws : List Var) (hv : VarsOK P vs) : VarsOK P (addLinAll vs ws) := by
  induction ws generalizing vs with
  | nil => exact hv
  | cons w rest ih => exact ih _ (varsOK_bumpVar P _ _ vs hv)

theorem qmUpdate_spec {T} (m o m' : Model) (x : Label → Rat) (hm : Typed T m) (ho : Typed T o) (hq : m.isQM = true)
    (h : qmUpdate m o = .ok m') : m'.eval x = m.eval x + o.eval x ∧ Typed T m' ∧ m'.isQM = true := by
  refine ⟨eval_qmUpdate m o m' x h, ?_⟩
  unfold qmUpdate at h
  split at h
  · simp at h
  · simp only [Except.ok.injEq] at h
    subst h
    refine ⟨⟨?_, fun hf => by simp [hq] at hf⟩, hq⟩
    exact varsOK_addLinAll (fun l i => T l i.vt) _ _ (varsOK_appendNew (fun l i => T l i.vt) _ _ hm.1 ho.1)

theorem bqmUpdate_spec {T} (m o : Model) (x : Label → Rat) (hm : Typed T m) (ho : Typed T o)
    (hmq : m.isQM = false) (hoq : o.isQM = false) (hd : bqmDiffer m o = false) :
    (bqmUpdate m o).eval x = m.eval x + o.eval x ∧ Typed T (bqmUpdate m o) ∧ (bqmUpdate m o).isQM = false := by
  refine ⟨eval_bqmUpdate m o x, ?_, hmq⟩
  obtain ⟨hm1, hm2⟩ := hm.2 hmq
  obtain ⟨ho1, ho2⟩ := ho.2 hoq
  have hP : VarsOK (fun l i => T l i.vt ∧ i.vt = m.bvt) (bqmUpdate m o).vars := by
    simp only [bqmUpdate]
    apply varsOK_addLinAll
    apply varsOK_appendNew
    · intro v hv; exact ⟨hm.1 v hv, hm2 v hv⟩
    · intro v hv
      simp only [List.mem_map] at hv
      obtain ⟨w, hw, rfl⟩ := hv
      have hne : o.vars ≠ [] := List.ne_nil_of_mem hw
      have hb : o.bvt = m.bvt := by
        simp only [bqmDiffer, Bool.and_eq_false_iff, Bool.not_eq_false', List.isEmpty_iff, decide_eq_false_iff_not, ne_eq, not_not] at hd
        rcases hd with h | h
        · exact absurd h hne
        · exact h
      simp only [bqmInfo]
      have := ho.1 w hw
      rw [ho2 w hw, hb] at this
      exact ⟨this, trivial⟩
  exact ⟨fun v hv => (hP v hv).1, fun _ => ⟨hm1, fun v hv => (hP v hv).2⟩⟩

/-! ### multiplication -/

theorem qmMulStep_inv (P : Label → VarInfo → Prop) (u v : Var) (acc acc' : Model)
    (hI : VarsOK P acc.vars ∧ acc.isQM = true) (h : qmMulStep u v acc = .ok acc') :
    VarsOK P acc'.vars ∧ acc'.isQM = true := by
  have hf : ∀ l, acc.isQM = false → P l (bqmInfo acc.bvt) := fun l hq => by simp [hI.2] at hq
  unfold qmMulStep at h
  split at h
  · split at h
    · obtain ⟨a, b, _, _⟩ := addLinear_inv P acc acc' _ _ h hI.1 (hf _); exact ⟨a, b.trans hI.2⟩
    · simp only [Except.ok.injEq] at h; subst h; exact hI
    · obtain ⟨a, b, _⟩ := addQuadratic_inv P acc acc' _ _ _ h hI.1 (hf _) (hf _); exact ⟨a, b.trans hI.2⟩
    · obtain ⟨a, b, _⟩ := addQuadratic_inv P acc acc' _ _ _ h hI.1 (hf _) (hf _); exact ⟨a, b.trans hI.2⟩
  · obtain ⟨a, b, _⟩ := addQuadratic_inv P acc acc' _ _ _ h hI.1 (hf _) (hf _); exact ⟨a, b.trans hI.2⟩

theorem isLinear_quad (m : Model) (h : m.isLinear = true) : m.quad = [] := by
  simpa [Model.isLinear] using h

theorem eval_linear (m : Model) (h : m.quad = []) (x : Label → Rat) : m.eval x = m.off + linEval x m.vars := by
  simp [Model.eval, h, quadEval]

theorem qmMul_spec {T} (a b m : Model) (x : Label → Rat) (ha : Typed T a) (hb : Typed T b)
    (hx : ∀ l k, T l k → InDom k (x l)) (h : qmMul a b = .ok m) :
    m.eval x = a.eval x * b.eval x ∧ Typed T m ∧ m.isQM = true := by
  unfold qmMul at h
  split at h
  · simp at h
  · rename_i hlin
    simp only [Decidable.not_not] at hlin
    have hqa := isLinear_quad a hlin.1
    have hqb := isLinear_quad b hlin.2
    split at h
    · simp at h
    · rename_i n0 hn0
      split at h
      · simp at h
      · rename_i n1 hn1
        split at h
        · simp at h
        · rename_i n2 hn2
          split at h
          · simp at h
          · rename_i n3 hn3
            simp only [Except.ok.injEq] at h
            subst h
            let P : Label → VarInfo → Prop := fun l i => T l i.vt
            let I : Model → Prop := fun acc => VarsOK P acc.vars ∧ acc.isQM = true
            obtain ⟨v0, q0, _, c0, o0, l0⟩ := addVariables_inv P a.vars emptyQM n0 hn0 (by intro v hv; simp [emptyQM] at hv) ha.1
            obtain ⟨v1, q1, _, c1, o1, l1⟩ := addVariables_inv P b.vars n0 n1 hn1 v0 hb.1
            have hI1 : I n1 := ⟨v1, by rw [q1, q0]; rfl⟩
            have hlinI : ∀ (l : Label) (acc acc' : Model) (c : Rat), I acc → addLinear acc l c = .ok acc' → I acc' := by
              intro l acc acc' c hI hh
              obtain ⟨p, q, _, _⟩ := addLinear_inv P acc acc' l c hh hI.1 (fun hq => by simp [hI.2] at hq)
              exact ⟨p, q.trans hI.2⟩
            have hs : StepOK qmMulStep x I a.vars b.vars :=
              ⟨fun u hu v _ acc acc' _ hh => qmMulStep_eval u v acc acc' x (hx _ _ (ha.1 u hu)) hh,
               fun u _ v _ acc acc' hI hh => qmMulStep_inv P u v acc acc' hI hh⟩
            obtain ⟨hI2, e2⟩ := mulOuter_spec qmMulStep x I b.vars b.off a.vars a.vars (fun _ h => h) hs
              (fun u _ acc acc' c => hlinI u.l acc acc' c) n1 n2 hI1 hn2
            obtain ⟨hI3, e3⟩ := mulTail_spec x I a.off b.vars b.vars (fun _ h => h)
              (fun v _ acc acc' c => hlinI v.l acc acc' c) n2 n3 hI2 hn3
            refine ⟨?_, ⟨hI3.1, fun hf => by simp [Model.addOffset, hI3.2] at hf⟩, hI3.2⟩
            rw [eval_addOffset, e3, e2, eval_linear a hqa, eval_linear b hqb]
            have hn1e : n1.eval x = 0 := by
              simp only [Model.eval, c1, c0, o1, o0, l1 x, l0 x]
              simp [emptyQM, linEval, quadEval]
            rw [hn1e]; ring

theorem bqmMulStep_inv (P : Label → VarInfo → Prop) (vt : VT) (u v : Var) (acc acc' : Model)
    (hu : P u.l (bqmInfo vt)) (hv : P v.l (bqmInfo vt))
    (hI : VarsOK P acc.vars ∧ acc.isQM = false ∧ acc.bvt = vt) (h : bqmMulStep vt u v acc = .ok acc') :
    VarsOK P acc'.vars ∧ acc'.isQM = false ∧ acc'.bvt = vt := by
  unfold bqmMulStep at h
  split at h
  · split at h
    · obtain ⟨a, b, c, _⟩ := addLinear_inv P acc acc' _ _ h hI.1 (fun _ => by rw [hI.2.2]; exact hu)
      exact ⟨a, b.trans hI.2.1, c.trans hI.2.2⟩
    · simp only [Except.ok.injEq] at h; subst h; exact hI
  · obtain ⟨a, b, c⟩ := addQuadratic_inv P acc acc' _ _ _ h hI.1 (fun _ => by rw [hI.2.2]; exact hu) (fun _ => by rw [hI.2.2]; exact hv)
    exact ⟨a, b.trans hI.2.1, c.trans hI.2.2⟩

theorem bqmMulSame_spec {T} (a b m : Model) (x : Label → Rat) (ha : Typed T a) (hb : Typed T b)
    (haq : a.isQM = false) (hbq : b.isQM = false) (hd : bqmDiffer a b = false)
    (hla : a.isLinear = true) (hlb : b.isLinear = true)
    (hx : ∀ l k, T l k → InDom k (x l)) (h : bqmMulSame a b = .ok m) :
    m.eval x = a.eval x * b.eval x ∧ Typed T m ∧ m.isQM = false := by
  obtain ⟨ha1, ha2⟩ := ha.2 haq
  obtain ⟨_, hb2⟩ := hb.2 hbq
  have hqa := isLinear_quad a hla
  have hqb := isLinear_quad b hlb
  unfold bqmMulSame at h
  split at h
  · simp at h
  · rename_i n2 hn2
    split at h
    · simp at h
    · rename_i n3 hn3
      simp only [Except.ok.injEq] at h
      subst h
      let P : Label → VarInfo → Prop := fun l i => T l i.vt ∧ i.vt = a.bvt
      let I : Model → Prop := fun acc => VarsOK P acc.vars ∧ acc.isQM = false ∧ acc.bvt = a.bvt
      have hPa : ∀ u ∈ a.vars, P u.l (bqmInfo a.bvt) := by
        intro u hu
        have := ha.1 u hu
        rw [ha2 u hu] at this
        exact ⟨this, rfl⟩
      have hPb : ∀ v ∈ b.vars, P v.l (bqmInfo a.bvt) := by
        intro v hv
        have hne : b.vars ≠ [] := List.ne_nil_of_mem hv
        have hbv : b.bvt = a.bvt := by
          simp only [bqmDiffer, Bool.and_eq_false_iff, Bool.not_eq_false', List.isEmpty_iff, decide_eq_false_iff_not, ne_eq, not_not] at hd
          rcases hd with h | h
          · exact absurd h hne
          · exact h
        have := hb.1 v hv
        rw [hb2 v hv, hbv] at this
        exact ⟨this, rfl⟩
      have hI0 : I (emptyBQM a.bvt) := ⟨by intro v hv; simp [emptyBQM] at hv, rfl, rfl⟩
      have hlinI : ∀ (l : Label), P l (bqmInfo a.bvt) → ∀ (acc acc' : Model) (c : Rat), I acc → addLinear acc l c = .ok acc' → I acc' := by
        intro l hl acc acc' c hI hh
        obtain ⟨p, q, r, _⟩ := addLinear_inv P acc acc' l c hh hI.1 (fun _ => by rw [hI.2.2]; exact hl)
        exact ⟨p, q.trans hI.2.1, r.trans hI.2.2⟩
      have hs : StepOK (bqmMulStep a.bvt) x I a.vars b.vars :=
        ⟨fun u hu v _ acc acc' _ hh => bqmMulStep_eval a.bvt ha1 u v acc acc' x
            (by have := hx _ _ (ha.1 u hu); rw [ha2 u hu] at this; exact this) hh,
         fun u hu v hv acc acc' hI hh => bqmMulStep_inv P a.bvt u v acc acc' (hPa u hu) (hPb v hv) hI hh⟩
      obtain ⟨hI2, e2⟩ := mulOuter_spec (bqmMulStep a.bvt) x I b.vars b.off a.vars a.vars (fun _ h => h) hs
        (fun u hu acc acc' c => hlinI u.l (hPa u hu) acc acc' c) _ n2 hI0 hn2
      obtain ⟨hI3, e3⟩ := mulTail_spec x I a.off b.vars b.vars (fun _ h => h)
        (fun v hv acc acc' c => hlinI v.l (hPb v hv) acc acc' c) n2 n3 hI2 hn3
      refine ⟨?_, ⟨fun v hv => (hI3.1 v hv).1, fun _ => ⟨by rw [show (n3.addOffset (a.off * b.off)).bvt = n3.bvt from rfl, hI3.2.2]; exact ha1,
        fun v hv => by rw [show (n3.addOffset (a.off * b.off)).bvt = n3.bvt from rfl, hI3.2.2]; exact (hI3.1 v hv).2⟩⟩, hI3.2.1⟩
      rw [eval_addOffset, e3, e2, eval_linear a hqa, eval_linear b hqb]
      have : (emptyBQM a.bvt).eval x = 0 := by simp [emptyBQM, Model.eval, linEval, quadEval]
      rw [this]; ring

end Sym
