import DimodProofs.C03CopyCqm
import DimodProofs.C01Labels

/-! # C03 — several variables fixed in place, one composed statement

`fix_variables(fixed, inplace=True)` is `fix_variable` repeated; after each step the remaining variables move down.
Assignments are therefore given *by label* (`val : Label → R`): the model with label list `L` is evaluated at
`g ↦ val L[g]`. -/

namespace En

variable {R : Type} [CommRing R] [DecidableEq R]

/-- the assignment of global indices induced by a valuation of labels -/
def valL (val : Label → R) (L : List Label) : Nat → R := fun g => val (L.getD g (.int 0))

namespace CqmC

/-- `c'` at `X'` agrees with `c` at `X`: objective, every constraint left-hand side, and the constraints' attributes -/
def Rel (c' c : CqmC R) (X' X : Nat → R) : Prop :=
  c'.obj.energyCpp X' = c.obj.energyCpp X ∧ c'.cons.length = c.cons.length ∧
  ∀ i (hi : i < c.cons.length) (hi' : i < c'.cons.length),
    c'.cons[i].e.energyCpp X' = c.cons[i].e.energyCpp X ∧
    c'.cons[i].sense = c.cons[i].sense ∧ c'.cons[i].rhs = c.cons[i].rhs ∧
    c'.cons[i].weight = c.cons[i].weight ∧ c'.cons[i].quadPenalty = c.cons[i].quadPenalty

theorem Rel.refl (c : CqmC R) (X : Nat → R) : Rel c c X X :=
  ⟨rfl, rfl, fun _ _ _ => ⟨rfl, rfl, rfl, rfl, rfl⟩⟩

theorem Rel.trans {c'' c' c : CqmC R} {X'' X' X : Nat → R} (h2 : Rel c'' c' X'' X') (h1 : Rel c' c X' X) : Rel c'' c X'' X := by
  obtain ⟨a1, a2, a3⟩ := h2
  obtain ⟨b1, b2, b3⟩ := h1
  refine ⟨by rw [a1, b1], by rw [a2, b2], ?_⟩
  intro i hi hi''
  have hi' : i < c'.cons.length := by rw [b2]; exact hi
  obtain ⟨p1, p2, p3, p4, p5⟩ := a3 i hi' hi''
  obtain ⟨q1, q2, q3, q4, q5⟩ := b3 i hi hi'
  exact ⟨by rw [p1, q1], by rw [p2, q2], by rw [p3, q3], by rw [p4, q4], by rw [p5, q5]⟩

/-- clearing discrete marks (what `cyconstrained.fix_variable` does first) touches nothing that is evaluated -/
def unmark (c : CqmC R) (vi : Nat) : CqmC R :=
  { c with cons := c.cons.map fun k => if k.discrete && (k.e.localOf? vi).isSome then { k with discrete := false } else k }

theorem unmark_WF (c : CqmC R) (hc : c.WF) (vi : Nat) : (c.unmark vi).WF := by
  refine ⟨hc.1, ?_⟩
  intro k hk
  simp only [unmark, List.mem_map] at hk
  obtain ⟨k0, hk0, rfl⟩ := hk
  split
  · exact hc.2 k0 hk0
  · exact hc.2 k0 hk0

theorem unmark_Rel (c : CqmC R) (vi : Nat) (X : Nat → R) : Rel (c.unmark vi) c X X := by
  refine ⟨rfl, by simp [unmark], ?_⟩
  intro i hi hi'
  have : (c.unmark vi).cons[i] = if c.cons[i].discrete && (c.cons[i].e.localOf? vi).isSome then { c.cons[i] with discrete := false } else c.cons[i] := by
    simp [unmark]
  rw [this]
  split <;> exact ⟨rfl, rfl, rfl, rfl, rfl⟩

end CqmC

namespace CqmL

theorem fixVariable_eq (m : CqmL R) (v : Label) (a : R) (vi : Nat) (h : indexOf? m.labels v = some vi) :
    ∃ c', (c' = m.c ∨ c' = m.c.unmark vi) ∧
      m.fixVariable v a = some { m with c := c'.fixVariable vi a, labels := m.labels.eraseIdx vi } := by
  unfold fixVariable
  rw [h]
  simp only [Option.bind_eq_bind, Option.bind_some]
  by_cases hc : (m.c.info[vi]?.map (·.vt)) = some VT4.binary ∧ a ≠ 0
  · exact ⟨m.c.unmark vi, Or.inr rfl, by rw [if_pos hc]; rfl⟩
  · exact ⟨m.c, Or.inl rfl, by rw [if_neg hc]; rfl⟩

/-- one `fix_variable(v, a)` by label -/
theorem fixVariable_step (m : CqmL R) (hm : m.c.WF) (hnd : m.labels.Nodup) (v : Label) (hv : v ∈ m.labels) (a : R)
    (val : Label → R) (hval : val v = a) :
    ∃ m', m.fixVariable v a = some m' ∧ m'.c.WF ∧ m'.labels.Nodup ∧
      (∀ l, l ∈ m'.labels ↔ l ∈ m.labels ∧ l ≠ v) ∧ m'.labels.Sublist m.labels ∧ m'.clabels = m.clabels ∧
      CqmC.Rel m'.c m.c (valL val m'.labels) (valL val m.labels) := by
  obtain ⟨vi, hvi⟩ := indexOf?_of_mem m.labels v hv
  obtain ⟨c', hc', hfix⟩ := fixVariable_eq m v a vi hvi
  have hat := (indexOf?_spec m.labels v vi hvi).1
  have hvil : vi < m.labels.length := by
    rcases Nat.lt_or_ge vi m.labels.length with h | h
    · exact h
    · rw [List.getElem?_eq_none h] at hat; cases hat
  have hc'wf : c'.WF := by rcases hc' with rfl | rfl; exact hm; exact CqmC.unmark_WF m.c hm vi
  have hc'rel : CqmC.Rel c' m.c (valL val m.labels) (valL val m.labels) := by
    rcases hc' with rfl | rfl; exact CqmC.Rel.refl _ _; exact CqmC.unmark_Rel m.c vi _
  refine ⟨_, hfix, CqmC.WF_fixVariable c' hc'wf vi a, ?_, ?_, List.eraseIdx_sublist _ _, rfl, ?_⟩
  · exact List.Nodup.sublist (List.eraseIdx_sublist _ _) hnd
  · intro l
    simp only []
    constructor
    · intro hl
      obtain ⟨j, hj, hjv, hjl⟩ := List.mem_eraseIdx_iff_getElem.mp hl
      refine ⟨hjl ▸ List.getElem_mem hj, ?_⟩
      intro hlv
      have : m.labels[j] = m.labels[vi] := by
        rw [hjl, hlv]; rw [List.getElem?_eq_getElem hvil] at hat; injection hat with h; exact h.symm
      exact hjv ((List.Nodup.getElem_inj_iff hnd).mp this)
    · rintro ⟨hl, hlv⟩
      obtain ⟨j, hj, rfl⟩ := List.getElem_of_mem hl
      apply List.mem_eraseIdx_iff_getElem.mpr
      refine ⟨j, hj, ?_, rfl⟩
      intro hjv
      subst hjv
      rw [List.getElem?_eq_getElem hj] at hat
      injection hat with h
      exact hlv h
  · have hstep := CqmC.fixVariable_spec c' hc'wf vi a (valL val (m.labels.eraseIdx vi)) (valL val m.labels)
      (by unfold valL; rw [List.getD_eq_getElem?_getD, hat]; exact hval)
      (by intro k; unfold valL; rw [getD_eraseIdx])
    exact CqmC.Rel.trans hstep hc'rel

/-- **`fix_variables(fixed, inplace=True)`**: any list of distinct labels of the model with their values. The call succeeds; the
    remaining labels are the others, in their order; and with assignments given by label — `val` giving every fixed label its
    value — the objective and every constraint left-hand side of the result at the remaining variables' values equal those of
    the original; sense, rhs, weight, penalty, constraint labels unchanged -/
theorem fixVariablesInplace_spec (m : CqmL R) (hm : m.c.WF) (hnd : m.labels.Nodup) (fixed : List (Label × R))
    (hfd : (fixed.map (·.1)).Nodup) (hall : ∀ p ∈ fixed, p.1 ∈ m.labels) (val : Label → R) (hval : ∀ p ∈ fixed, val p.1 = p.2) :
    let r := m.fixVariablesInplace fixed
    r.2 = true ∧ r.1.c.WF ∧ r.1.labels.Nodup ∧ r.1.labels.Sublist m.labels ∧
    (∀ l, l ∈ r.1.labels ↔ l ∈ m.labels ∧ l ∉ fixed.map (·.1)) ∧ r.1.clabels = m.clabels ∧
    CqmC.Rel r.1.c m.c (valL val r.1.labels) (valL val m.labels) := by
  induction fixed generalizing m with
  | nil =>
    show (m, true).2 = true ∧ (m, true).1.c.WF ∧ _
    exact ⟨rfl, hm, hnd, List.Sublist.refl _, (by intro l; simp [fixVariablesInplace]), rfl, CqmC.Rel.refl _ _⟩
  | cons p rest ih =>
    obtain ⟨v, a⟩ := p
    have hfd' := (List.nodup_cons.mp hfd).2
    have hvrest : v ∉ rest.map (·.1) := (List.nodup_cons.mp hfd).1
    obtain ⟨m', h1, h2, h3, h4, h5, h6, h7⟩ := fixVariable_step m hm hnd v (hall (v, a) (by simp)) a val (hval (v, a) (by simp))
    simp only [fixVariablesInplace, h1]
    have hall' : ∀ p ∈ rest, p.1 ∈ m'.labels := by
      intro p hp
      refine (h4 p.1).mpr ⟨hall p (List.mem_cons_of_mem _ hp), ?_⟩
      intro e
      exact hvrest (e ▸ List.mem_map.mpr ⟨p, hp, rfl⟩)
    obtain ⟨r1, r2, r3, r4, r5, r6, r7⟩ := ih m' h2 h3 hfd' hall' (fun p hp => hval p (List.mem_cons_of_mem _ hp))
    refine ⟨r1, r2, r3, r4.trans h5, ?_, by rw [r6, h6], CqmC.Rel.trans r7 h7⟩
    intro l
    rw [r5 l, h4 l]
    simp only [List.map_cons, List.mem_cons, not_or]
    tauto

end CqmL

end En
