import DimodProofs.QmRelabel

/-! `QuadraticModel.fix_variable(v, value)`: substitution of a value in the label-keyed polynomial with vartypes and
    bounds, the self-loop of an INTEGER variable included — property C04.  Core Lean only. -/

namespace Qm
open Bqm (modifyAt nbhCoef NbSorted coefAt)

/-- the loop `for (u, bias) in neighbourhood(v): linear[u] += value * bias` over a sorted neighbourhood -/
theorem getD_fixFold (a : Rat) : ∀ (nb : List (Nat × Rat)) (lin : List Rat), NbSorted nb → (∀ p ∈ nb, p.1 < lin.length) →
    (nb.foldl (fun l p => modifyAt l p.1 (· + a * p.2)) lin).length = lin.length ∧
    ∀ j, (nb.foldl (fun l p => modifyAt l p.1 (· + a * p.2)) lin).getD j 0 = lin.getD j 0 + a * (nbhCoef nb j).getD 0 := by
  intro nb
  induction nb with
  | nil => intro lin _ _; exact ⟨rfl, fun j => by simp [nbhCoef, Rat.mul_zero, Rat.add_zero]⟩
  | cons p t ih =>
    intro lin hs hb
    have ht : NbSorted t := (List.pairwise_cons.mp hs).2
    have hw : ∀ q ∈ t, p.1 < q.1 := (List.pairwise_cons.mp hs).1
    have hp : p.1 < lin.length := hb p (by simp)
    simp only [List.foldl]
    have r := ih (modifyAt lin p.1 (· + a * p.2)) ht (fun q hq => by rw [Bqm.length_modifyAt]; exact hb q (List.mem_cons_of_mem _ hq))
    refine ⟨by rw [r.1, Bqm.length_modifyAt], ?_⟩
    intro j
    rw [r.2 j]
    obtain ⟨w, c⟩ := p
    simp only [nbhCoef]
    by_cases hj : w = j
    · subst hj
      have hnone : nbhCoef t w = none := Bqm.nbhCoef_none_of_lt t w (fun q hq => by have := hw q hq; simpa using this)
      rw [Bqm.getD_modifyAt_self _ _ _ _ hp, hnone]
      simp [Rat.mul_zero, Rat.add_zero]
    · rw [Bqm.getD_modifyAt_ne _ _ _ _ _ hj]
      simp [hj]

/-- `fix_variable(v, a)` on the polynomial: `lin w += a · quad v w` for every `w` (for `w = v` the self-loop),
    `off += a · (lin v + a · quad v v)`, then `v` is removed -/
def QPoly.fixVariable (p : QPoly) (v : Label) (a : Rat) : QPoly :=
  QPoly.remove { p with lin := fun l => p.lin l + a * (p.quad v l).getD 0,
                        off := p.off + a * (p.lin v + a * (p.quad v v).getD 0) } v

theorem fixVariable_refines {m : Qm} (i : Inv m) (v : Label) (a : Rat) {vi : Nat} (hv : m.indexOf? v = some vi) :
    absQ (m.fixVariable v a).1 = (absQ m).fixVariable v a ∧ (m.fixVariable v a).2 = none ∧ Inv (m.fixVariable v a).1 := by
  have hvi : vi < m.lin.length := indexOf?_lt i.wf hv
  have hsorted : NbSorted (m.nbhAt vi) := i.wf.adj.sorted vi
  have hb : ∀ p ∈ m.nbhAt vi, p.1 < m.lin.length := by
    intro p hp
    apply i.wf.adj.bound vi p.1
    show (nbhCoef (m.adj.getD vi []) p.1).isSome
    rw [Bqm.nbhCoef_isSome_iff]; exact ⟨p, hp, rfl⟩
  have F := getD_fixFold a (m.nbhAt vi) m.lin hsorted hb
  generalize hlin : (m.nbhAt vi).foldl (fun l p => modifyAt l p.1 (· + a * p.2)) m.lin = lin' at F
  have hcall : m.fixVariable v a = (({ m with lin := lin', off := m.off + a * lin'.getD vi 0 } : Qm).removeAt vi, none) := by
    unfold Qm.fixVariable; rw [hv]; simp only []; rw [hlin]
  rw [hcall]
  have w1 : WF ({ m with lin := lin', off := m.off + a * lin'.getD vi 0 } : Qm) :=
    ⟨by show m.labels.length = lin'.length; rw [F.1]; exact i.wf.labels_len,
     by show m.vt.length = lin'.length; rw [F.1]; exact i.wf.vt_len,
     by show m.lb.length = lin'.length; rw [F.1]; exact i.wf.lb_len,
     by show m.ub.length = lin'.length; rw [F.1]; exact i.wf.ub_len,
     by show Bqm.AdjWF lin'.length m.adj m.loopOK; rw [F.1]; exact i.wf.adj⟩
  have i1 : Inv ({ m with lin := lin', off := m.off + a * lin'.getD vi 0 } : Qm) := ⟨w1, i.nodup⟩
  refine ⟨?_, rfl, i1.removeAt vi (by show vi < lin'.length; rw [F.1]; exact hvi)⟩
  rw [removeAt_refines w1 i.nodup (v := v) (by exact hv)]
  unfold QPoly.fixVariable
  congr 1
  apply QPoly.ext' <;> try (first | rfl | (intro _; rfl) | (intro _ _; rfl))
  · intro l
    show (match m.indexOf? l with | some j => lin'.getD j 0 | none => 0) = m.linL l + a * (m.quadL v l).getD 0
    unfold linL quadL
    rw [hv]
    cases hl : m.indexOf? l with
    | none => simp [Rat.mul_zero, Rat.add_zero]
    | some j => simp only []; rw [F.2 j]; rfl
  · show m.off + a * lin'.getD vi 0 = m.off + a * (m.linL v + a * (m.quadL v v).getD 0)
    unfold linL quadL
    rw [hv, F.2 vi]; rfl

end Qm
