import DimodProofs.Feasibility
import DimodProofs.CqmLabels

/-! C08 on top of the CQM model of C05: for a well-formed `Cqm` (in particular after any history) every
    report is the definition evaluated on the *polynomial values* of its expressions. -/

namespace Feas
open CqmP

/-- the constraints of a `Cqm` with their left-hand sides evaluated as polynomials (no special cases) -/
def defCons (m : Cqm) (rows : Nat → Nat → Rat) : List CEval :=
  (m.cons.zip m.clabels).map fun (c, l) =>
    { label := l, sense := c.sense, rhs := c.rhs, weight := c.weight, quad := c.quadPenalty,
      lhs := fun r => polyValue c.e (rows r) }

theorem evalCons_eq_def {m : Cqm} (hwf : CqmWF m) (rows : Nat → Nat → Rat) : evalCons m rows = defCons m rows := by
  unfold evalCons defCons
  apply List.map_congr_left
  intro p hp
  obtain ⟨c, l⟩ := p
  have hc : c ∈ m.cons := (List.of_mem_zip hp).1
  simp only [CEval.mk.injEq, true_and]
  funext r
  exact exprEnergy_eq_polyValue c.e (rows r) (hwf.cons c hc).lin_len

theorem evalObj_eq_def {m : Cqm} (hwf : CqmWF m) (rows : Nat → Nat → Rat) :
    evalObj m rows = fun r => polyValue m.obj (rows r) := by
  unfold evalObj
  funext r
  exact exprEnergy_eq_polyValue m.obj (rows r) hwf.obj.lin_len

theorem labels_defCons {m : Cqm} (hwf : CqmWF m) (rows : Nat → Nat → Rat) : (defCons m rows).map (·.label) = m.clabels := by
  unfold defCons
  rw [List.map_map]
  have : ((fun c : CEval => c.label) ∘ fun (p : Cons × Label) =>
      ({ label := p.2, sense := p.1.sense, rhs := p.1.rhs, weight := p.1.weight, quad := p.1.quadPenalty,
         lhs := fun r => polyValue p.1.e (rows r) } : CEval)) = Prod.snd := by
    funext p; rfl
  rw [this]
  exact List.map_snd_zip (by rw [hwf.clabels_len])

end Feas
