import DimodProofs.CqmLift

/-! `cqm_step_refines` on the whole model: operations of `Cqm.step` as operations on the plain list of
    label-keyed polynomials `absCqm` (property C05). -/

namespace CqmP
open Expr Cqm

/-- apply `F` to the objective (`w = none`) or to the polynomial of the constraint labelled `l` -/
def LCqm.modView (s : LCqm) (w : Option Label) (F : LPoly → LPoly) : LCqm :=
  match w with
  | none => { s with obj := F s.obj }
  | some l => { s with cons := s.cons.map fun p => if p.1 = l then (p.1, { p.2 with p := F p.2.p }) else p }

/-- change attributes of the constraint labelled `l` -/
def LCqm.modAttr (s : LCqm) (l : Label) (G : LCons → LCons) : LCqm :=
  { s with cons := s.cons.map fun p => if p.1 = l then (p.1, G p.2) else p }

theorem zip_modifyAt {α β} (A : α → β) (g : α → α) (G : β → β) (hAG : ∀ c, A (g c) = G (A c)) (l : Label) :
    ∀ (ls : List Label) (cs : List α) (s ci : Nat), ls.Nodup → findIdx l ls s = some ci →
      ls.zip ((Bqm.modifyAt cs (ci - s) g).map A) = (ls.zip (cs.map A)).map (fun p => if p.1 = l then (p.1, G p.2) else p) := by
  intro ls
  induction ls with
  | nil => intro cs s ci _ h; cases h
  | cons a t ih =>
    intro cs s ci hnd h
    rw [List.nodup_cons] at hnd
    cases cs with
    | nil => simp [Bqm.modifyAt]
    | cons c cs' =>
      unfold findIdx at h
      by_cases hal : a = l
      · rw [if_pos hal] at h
        cases h
        subst hal
        simp only [Nat.sub_self, Bqm.modifyAt, List.map_cons, List.zip_cons_cons, if_true, hAG]
        congr 1
        -- the rest is untouched: `a` does not occur again
        have : ∀ p ∈ t.zip (cs'.map A), ¬ p.1 = a := by
          intro p hp hpa
          exact hnd.1 (hpa ▸ (List.of_mem_zip hp).1)
        symm
        conv => rhs; rw [← List.map_id (t.zip (cs'.map A))]
        apply List.map_congr_left
        intro p hp
        rw [if_neg (this p hp)]; rfl
      · rw [if_neg hal] at h
        have hlt := findIdx_lt h
        have hci : ci - s = (ci - (s + 1)) + 1 := by omega
        rw [hci]
        simp only [Bqm.modifyAt, List.map_cons, List.zip_cons_cons, if_neg hal]
        congr 1
        exact ih cs' (s + 1) ci hnd.2 h

theorem absCqm_modCons {m : Cqm} (hcl : m.clabels.Nodup) {l : Label} {ci : Nat} (hci : m.cidx? l = some ci) (f : Cons → Cons)
    (G : LCons → LCons) (hfG : ∀ c, absCons m.labels (f c) = G (absCons m.labels c)) :
    absCqm (m.modCons ci f) = (absCqm m).modAttr l G := by
  unfold absCqm LCqm.modAttr Cqm.modCons
  simp only [LCqm.mk.injEq, true_and]
  have := zip_modifyAt (absCons m.labels) f G hfG l m.clabels m.cons 0 ci hcl hci
  simpa using this

/-- a mutation through a view, seen on the list of polynomials -/
theorem absCqm_modExpr {m m' : Cqm} (hcl : m.clabels.Nodup) (w : Option Label) (f : Expr → Expr) (F : LPoly → LPoly)
    (hfF : ∀ e, (e = m.obj ∨ ∃ c ∈ m.cons, e = c.e) → absExpr m.labels (f e) = F (absExpr m.labels e))
    (h : m.modExpr w f = some m') : absCqm m' = (absCqm m).modView w F := by
  unfold Cqm.modExpr at h
  cases w with
  | none =>
    simp only [Option.some.injEq] at h
    subst h
    unfold absCqm LCqm.modView
    simp only [LCqm.mk.injEq, true_and, and_true]
    exact hfF m.obj (Or.inl rfl)
  | some l =>
    simp only [] at h
    cases hci : m.cidx? l with
    | none => rw [hci] at h; cases h
    | some ci =>
      rw [hci] at h
      simp only [Option.map_some, Option.some.injEq] at h
      subst h
      -- only the constraints of the model matter for `hfF`; outside them use the unchanged element
      have hlt : ci < m.cons.length ∨ m.cons.length ≤ ci := Nat.lt_or_ge _ _
      show absCqm (m.modCons ci fun c => { c with e := f c.e }) = _
      unfold absCqm LCqm.modView Cqm.modCons
      simp only [LCqm.mk.injEq, true_and]
      -- generalised zip lemma with a membership side condition
      have key : ∀ (ls : List Label) (cs : List Cons) (s : Nat), ls.Nodup → (∀ c ∈ cs, c ∈ m.cons) → findIdx l ls s = some ci →
          ls.zip ((Bqm.modifyAt cs (ci - s) fun c => { c with e := f c.e }).map (absCons m.labels))
            = (ls.zip (cs.map (absCons m.labels))).map (fun p => if p.1 = l then (p.1, { p.2 with p := F p.2.p }) else p) := by
        intro ls
        induction ls with
        | nil => intro cs s _ _ h; cases h
        | cons a t ih =>
          intro cs s hnd hsub h
          rw [List.nodup_cons] at hnd
          cases cs with
          | nil => simp [Bqm.modifyAt]
          | cons c cs' =>
            unfold findIdx at h
            by_cases hal : a = l
            · rw [if_pos hal] at h
              cases h
              subst hal
              simp only [Nat.sub_self, Bqm.modifyAt, List.map_cons, List.zip_cons_cons, if_true]
              congr 1
              · unfold absCons
                rw [hfF c.e (Or.inr ⟨c, hsub c List.mem_cons_self, rfl⟩)]
              · have : ∀ p ∈ t.zip (cs'.map (absCons m.labels)), ¬ p.1 = a := by
                  intro p hp hpa
                  exact hnd.1 (hpa ▸ (List.of_mem_zip hp).1)
                symm
                conv => rhs; rw [← List.map_id (t.zip (cs'.map (absCons m.labels)))]
                apply List.map_congr_left
                intro p hp
                rw [if_neg (this p hp)]; rfl
            · rw [if_neg hal] at h
              have hlt := findIdx_lt h
              have hci' : ci - s = (ci - (s + 1)) + 1 := by omega
              rw [hci']
              simp only [Bqm.modifyAt, List.map_cons, List.zip_cons_cons, if_neg hal]
              congr 1
              exact ih cs' (s + 1) hnd.2 (fun c hc => hsub c (List.mem_cons_of_mem _ hc)) h
      have := key m.clabels m.cons 0 hcl (fun c hc => hc) hci
      simpa using this


/-! ### the view mutators -/

theorem idx?_get {m : Cqm} {v : Label} {g : Nat} (h : m.idx? v = some g) : m.labels[g]? = some v := by
  have := findIdx_get h; simpa using this

theorem exprs_wf {m : Cqm} (hwf : CqmWF m) {e : Expr} (he : e = m.obj ∨ ∃ c ∈ m.cons, e = c.e) :
    ExprWF e ∧ ExprIn m.labels.length e := by
  rw [hwf.labels_len]
  rcases he with rfl | ⟨c, hc, rfl⟩
  · exact ⟨hwf.obj, hwf.obj_lt⟩
  · exact ⟨hwf.cons c hc, hwf.cons_lt c hc⟩

theorem exprs_sorted {m : Cqm} (hs : AllExprs ExprSorted m) {e : Expr} (he : e = m.obj ∨ ∃ c ∈ m.cons, e = c.e) : ExprSorted e := by
  rcases he with rfl | ⟨c, hc, rfl⟩
  · exact hs.1
  · exact hs.2 c hc

theorem ofOpt_some {m m' : Cqm} {o : Option Cqm} (h : m.ofOpt o = (m', none)) : o = some m' := by
  cases o with
  | none => cases (Prod.mk.inj h).2
  | some x => rw [show m.ofOpt (some x) = (x, none) from rfl] at h; rw [(Prod.mk.inj h).1]

/-- `view.add_linear(v, b)` (objective view: `w = none`, constraint view: `w = some label`) -/
theorem refines_viewAddLinear {m m' : Cqm} (hwf : CqmWF m) (hl : CqmLabelsOK m) (w : Option Label) (v : Label) (b : Rat)
    (h : m.step (.viewAddLinear w v b) = (m', none)) : absCqm m' = (absCqm m).modView w (·.addLinear v b) := by
  have h' : m.viewAddLinear w v b = (m', none) := h
  unfold Cqm.viewAddLinear at h'
  split_ifs at h'
  · cases (Prod.mk.inj h').2
  · cases hv : m.idx? v with
    | none => rw [hv] at h'; cases (Prod.mk.inj h').2
    | some g =>
      rw [hv] at h'
      simp only [] at h'
      refine absCqm_modExpr hl.clabels_nodup w _ _ ?_ (ofOpt_some h')
      intro e he
      exact absExpr_addLinear hl.labels_nodup (exprs_wf hwf he).1 (exprs_wf hwf he).2 (idx?_get hv) b

/-- `view.set_linear(v, b)` -/
theorem refines_viewSetLinear {m m' : Cqm} (hwf : CqmWF m) (hl : CqmLabelsOK m) (w : Option Label) (v : Label) (b : Rat)
    (h : m.step (.viewSetLinear w v b) = (m', none)) : absCqm m' = (absCqm m).modView w (·.setLinear v b) := by
  have h' : m.viewSetLinear w v b = (m', none) := h
  unfold Cqm.viewSetLinear at h'
  split_ifs at h'
  · cases (Prod.mk.inj h').2
  · cases hv : m.idx? v with
    | none => rw [hv] at h'; cases (Prod.mk.inj h').2
    | some g =>
      rw [hv] at h'
      simp only [] at h'
      refine absCqm_modExpr hl.clabels_nodup w _ _ ?_ (ofOpt_some h')
      intro e he
      exact absExpr_setLinear hl.labels_nodup (exprs_wf hwf he).1 (exprs_wf hwf he).2 (idx?_get hv) b

/-- the type of a variable, by label -/
def LCqm.vtOf (s : LCqm) (l : Label) : VT4 := match s.info l with | some i => i.1 | none => .binary

/-- `view.add_quadratic(u, v, b)` -/
theorem refines_viewAddQuadratic {m m' : Cqm} (hwf : CqmWF m) (hl : CqmLabelsOK m) (hs : AllExprs ExprSorted m)
    (w : Option Label) (u v : Label) (b : Rat) (h : m.step (.viewAddQuadratic w u v b) = (m', none)) :
    absCqm m' = (absCqm m).modView w (·.addQuadratic ((absCqm m).vtOf u) u v b) := by
  have h' : m.viewAddQuadratic w u v b = (m', none) := h
  unfold Cqm.viewAddQuadratic at h'
  split_ifs at h' with hw
  · cases (Prod.mk.inj h').2
  · cases hu : m.idx? u with
    | none => rw [hu] at h'; simp only [] at h'; cases (Prod.mk.inj h').2
    | some gu =>
      cases hv : m.idx? v with
      | none => rw [hu, hv] at h'; simp only [] at h'; cases (Prod.mk.inj h').2
      | some gv =>
        rw [hu, hv] at h'
        simp only [] at h'
        split_ifs at h'
        all_goals try (cases (Prod.mk.inj h').2)
        have hvt : (absCqm m).vtOf u = m.vt.getD gu .binary := by
          unfold LCqm.vtOf absCqm
          simp only []
          rw [show findIdx u m.labels 0 = some gu from hu]
          rfl
        rw [hvt]
        refine absCqm_modExpr hl.clabels_nodup w _ _ ?_ (ofOpt_some h')
        intro e he
        exact absExpr_addQuadratic hl.labels_nodup (exprs_wf hwf he).1 (exprs_sorted hs he) (exprs_wf hwf he).2 m.vt
          (idx?_get hu) (idx?_get hv) b

/-- `view.offset = b` -/
theorem refines_viewSetOffset {m m' : Cqm} (hl : CqmLabelsOK m) (w : Option Label) (b : Rat)
    (h : m.step (.viewSetOffset w b) = (m', none)) : absCqm m' = (absCqm m).modView w (·.setOffset b) := by
  have h' : m.viewSetOffset w b = (m', none) := h
  unfold Cqm.viewSetOffset at h'
  exact absCqm_modExpr hl.clabels_nodup w _ _ (fun e _ => absExpr_setOffset m.labels e b) (ofOpt_some h')

/-- `lhs.mark_discrete(mark)` -/
theorem refines_viewMarkDiscrete {m m' : Cqm} (hl : CqmLabelsOK m) (l : Label) (mark : Bool)
    (h : m.step (.viewMarkDiscrete l mark) = (m', none)) : absCqm m' = (absCqm m).modAttr l (fun c => { c with discrete := mark }) := by
  have h' : m.viewMarkDiscrete l mark = (m', none) := h
  unfold Cqm.viewMarkDiscrete at h'
  cases hci : m.cidx? l with
  | none => rw [hci] at h'; cases (Prod.mk.inj h').2
  | some ci =>
    rw [hci] at h'
    simp only [] at h'
    rw [← (Prod.mk.inj h').1]
    exact absCqm_modCons hl.clabels_nodup hci _ _ (fun c => rfl)

/-- `lhs.set_weight(weight, penalty)` when accepted: weight and penalty type of that constraint, nothing else -/
theorem refines_viewSetWeight {m m' : Cqm} (hl : CqmLabelsOK m) (l : Label) (weight : Option Rat) (pen : Nat)
    (h : m.step (.viewSetWeight l weight pen) = (m', none)) :
    absCqm m' = (absCqm m).modAttr l (fun c => { c with weight := weight, quadPenalty := decide (pen = 1) }) := by
  have h' : m.viewSetWeight l weight pen = (m', none) := h
  unfold Cqm.viewSetWeight at h'
  cases hci : m.cidx? l with
  | none => rw [hci] at h'; cases (Prod.mk.inj h').2
  | some ci =>
    rw [hci] at h'
    simp only [] at h'
    unfold Cqm.setWeight at h'
    cases weight with
    | none =>
      simp only [] at h'
      split_ifs at h' with h0 h1 h2
      · rw [← (Prod.mk.inj h').1]
        subst h0
        exact absCqm_modCons hl.clabels_nodup hci _ _ (fun c => rfl)
      · rw [← (Prod.mk.inj h').1]
        subst h1
        exact absCqm_modCons hl.clabels_nodup hci _ _ (fun c => rfl)
      · cases (Prod.mk.inj h').2
      · cases (Prod.mk.inj h').2
    | some wv =>
      simp only [] at h'
      split_ifs at h' with hneg h0 h1 h2
      · cases (Prod.mk.inj h').2
      · rw [← (Prod.mk.inj h').1]
        subst h0
        exact absCqm_modCons hl.clabels_nodup hci _ _ (fun c => rfl)
      · rw [← (Prod.mk.inj h').1]
        subst h1
        exact absCqm_modCons hl.clabels_nodup hci _ _ (fun c => rfl)
      · cases (Prod.mk.inj h').2
      · cases (Prod.mk.inj h').2


/-! ### building from terms: `set_objective(iterable)`, `add_constraint(iterable, …)` -/

def LPoly.empty : LPoly := { vars := [], lin := fun _ => 0, quad := fun _ _ => 0, off := 0 }

/-- one term of an iterable on the polynomial: `(bias,)`, `(v, bias)`, `(u, v, bias)` -/
def LPoly.addTerm (vtOf : Label → VT4) (p : LPoly) (t : Term) : LPoly :=
  match t.vs with
  | [] => p.addOffset t.bias
  | [v] => p.addLinear v t.bias
  | [u, v] => p.addQuadratic (vtOf u) u v t.bias
  | _ => p

theorem absExpr_empty (L : List Label) : absExpr L ({} : Expr) = LPoly.empty := by
  unfold absExpr LPoly.empty
  simp only [LPoly.mk.injEq, List.map_nil, true_and]
  refine ⟨?_, ?_, trivial⟩
  · funext x; cases findIdx x L 0 <;> rfl
  · funext x y; cases findIdx x L 0 <;> cases findIdx y L 0 <;> rfl

theorem absExpr_addTerms {m : Cqm} (hwf : CqmWF m) (hl : CqmLabelsOK m) (ts : List Term) :
    ∀ (e : Expr), ExprWF e → ExprSorted e → ExprIn m.vt.length e → (m.addTerms ts e).2 = none →
      absExpr m.labels (m.addTerms ts e).1 = ts.foldl (LPoly.addTerm (absCqm m).vtOf) (absExpr m.labels e) := by
  induction ts with
  | nil => intro e _ _ _ _; rfl
  | cons t ts ih =>
    intro e h1 h2 h3 hok
    have hin : ExprIn m.labels.length e := by rw [hwf.labels_len]; exact h3
    rw [List.foldl_cons]
    obtain ⟨vs, bias⟩ := t
    cases vs with
    | nil =>
      have hA : m.addTerms (⟨[], bias⟩ :: ts) e = m.addTerms ts (e.addOffset bias) := by rw [Cqm.addTerms]
      rw [hA] at hok ⊢
      rw [ih _ (addOffset_wf h1 _) (addOffset_sorted h2 _) h3 hok, absExpr_addOffset]
      rfl
    | cons v rest =>
      cases rest with
      | nil =>
        cases hv : m.idx? v with
        | none =>
          have hA : m.addTerms (⟨[v], bias⟩ :: ts) e = (e, some .value) := by rw [Cqm.addTerms]; simp only [hv]
          rw [hA] at hok; cases hok
        | some g =>
          have hA : m.addTerms (⟨[v], bias⟩ :: ts) e = m.addTerms ts (e.addLinear g bias) := by rw [Cqm.addTerms]; simp only [hv]
          rw [hA] at hok ⊢
          rw [ih _ (addLinear_wf h1 g _) (addLinear_sorted h2 g _) (addLinear_in h3 (idx?_lt hwf hv) _) hok,
            absExpr_addLinear hl.labels_nodup h1 hin (idx?_get hv)]
          rfl
      | cons u' rest2 =>
        cases rest2 with
        | nil =>
          -- the term is (v, u', bias): first label `v`, second `u'`
          cases hu : m.idx? v with
          | none =>
            have hA : m.addTerms (⟨[v, u'], bias⟩ :: ts) e = (e, some .value) := by rw [Cqm.addTerms]; simp only [hu]
            rw [hA] at hok; cases hok
          | some gu =>
            cases hv : m.idx? u' with
            | none =>
              have hA : m.addTerms (⟨[v, u'], bias⟩ :: ts) e = (e, some .value) := by rw [Cqm.addTerms]; simp only [hu, hv]
              rw [hA] at hok; cases hok
            | some gv =>
              have hA : m.addTerms (⟨[v, u'], bias⟩ :: ts) e = m.addTerms ts (e.addQuadratic m.vt gu gv bias) := by
                rw [Cqm.addTerms]; simp only [hu, hv]
              rw [hA] at hok ⊢
              have hvt : (absCqm m).vtOf v = m.vt.getD gu .binary := by
                unfold LCqm.vtOf absCqm
                simp only []
                rw [show findIdx v m.labels 0 = some gu from hu]; rfl
              rw [ih _ (addQuadratic_wf h1 m.vt gu gv _) (addQuadratic_sorted h2 m.vt gu gv _)
                (addQuadratic_in h3 m.vt (idx?_lt hwf hu) (idx?_lt hwf hv) _) hok,
                absExpr_addQuadratic hl.labels_nodup h1 h2 hin m.vt (idx?_get hu) (idx?_get hv), ← hvt]
              rfl
        | cons w rest3 =>
          have hA : m.addTerms (⟨v :: u' :: w :: rest3, bias⟩ :: ts) e = (e, some .value) := by rw [Cqm.addTerms]
          rw [hA] at hok; cases hok

/-- `set_objective(iterable)` when it returns: the objective is the polynomial obtained by adding the terms, one
    after the other, to the zero polynomial; nothing else changes -/
theorem refines_setObjectiveTerms {m m' : Cqm} (hwf : CqmWF m) (hl : CqmLabelsOK m) (ts : List Term)
    (h : m.step (.setObjectiveTerms ts) = (m', none)) :
    absCqm m' = { absCqm m with obj := ts.foldl (LPoly.addTerm (absCqm m).vtOf) LPoly.empty } := by
  have h' : m.setObjectiveTerms ts = (m', none) := h
  unfold Cqm.setObjectiveTerms at h'
  have hok : (m.addTerms ts {}).2 = none := (Prod.mk.inj h').2
  rw [← (Prod.mk.inj h').1]
  unfold absCqm
  simp only [LCqm.mk.injEq, true_and, and_true]
  rw [absExpr_addTerms hwf hl ts {} exprWF_empty exprSorted_empty (by intro g hg; cases hg) hok, absExpr_empty]
  rfl

theorem absCqm_push {m : Cqm} (hwf : CqmWF m) (c : Cons) (label : Label) :
    absCqm { m with cons := m.cons ++ [c], clabels := m.clabels ++ [label] }
      = { absCqm m with cons := (absCqm m).cons ++ [(label, absCons m.labels c)] } := by
  unfold absCqm
  simp only [LCqm.mk.injEq, true_and]
  rw [List.map_append, List.zip_append (by rw [List.length_map]; exact hwf.clabels_len)]
  rfl

/-- `add_constraint(iterable, sense, rhs, label)` (hard) when it returns: one more constraint at the end, with
    that label, sense and rhs, whose polynomial is the sum of the terms; nothing else changes -/
theorem refines_addConstraintTerms {m m' : Cqm} (hwf : CqmWF m) (hl : CqmLabelsOK m) (ts : List Term) (sense : Sense) (rhs : Rat)
    (label : Label) (h : m.step (.addConstraintTerms ts sense rhs label none 0) = (m', none)) :
    absCqm m' = { absCqm m with cons := (absCqm m).cons ++
      [(label, { p := ts.foldl (LPoly.addTerm (absCqm m).vtOf) LPoly.empty, sense := sense, rhs := rhs, weight := none,
                 quadPenalty := false, discrete := false })] } := by
  have h' : m.addConstraintTerms ts sense rhs label none 0 = (m', none) := h
  unfold Cqm.addConstraintTerms at h'
  split_ifs at h'
  · cases (Prod.mk.inj h').2
  · cases hr : m.addTerms ts {} with
    | mk e r =>
      rw [hr] at h'
      cases r with
      | some c => simp only [] at h'; cases (Prod.mk.inj h').2
      | none =>
        simp only [] at h'
        have hp : m.pushCons e sense rhs label none 0
            = ({ m with cons := m.cons ++ [({ e := e, sense := sense, rhs := rhs } : Cons)], clabels := m.clabels ++ [label] }, none) := rfl
        rw [hp] at h'
        rw [← (Prod.mk.inj h').1, absCqm_push hwf]
        have he := absExpr_addTerms hwf hl ts {} exprWF_empty exprSorted_empty (by intro g hg; cases hg) (by rw [hr])
        rw [hr] at he
        simp only [] at he
        unfold absCons
        rw [he, absExpr_empty]

/-! ### removing a constraint -/

theorem zip_eraseIdx_filter {β} (l : Label) : ∀ (ls : List Label) (cs : List β) (s ci : Nat), ls.Nodup → findIdx l ls s = some ci →
    (Bqm.eraseIdx ls (ci - s)).zip (Bqm.eraseIdx cs (ci - s)) = (ls.zip cs).filter (fun p => p.1 ≠ l) := by
  intro ls
  induction ls with
  | nil => intro cs s ci _ h; cases h
  | cons a t ih =>
    intro cs s ci hnd h
    rw [List.nodup_cons] at hnd
    cases cs with
    | nil =>
      cases hc : ci - s <;> simp [Bqm.eraseIdx]
    | cons c cs' =>
      unfold findIdx at h
      by_cases hal : a = l
      · rw [if_pos hal] at h
        cases h
        subst hal
        simp only [Nat.sub_self, Bqm.eraseIdx, List.zip_cons_cons, List.filter_cons, ne_eq, not_true_eq_false, decide_false,
          Bool.false_eq_true, if_false]
        symm
        rw [List.filter_eq_self]
        intro p hp
        simp only [decide_eq_true_eq]
        intro hpa
        exact hnd.1 (hpa ▸ (List.of_mem_zip hp).1)
      · rw [if_neg hal] at h
        have hlt := findIdx_lt h
        have hci : ci - s = (ci - (s + 1)) + 1 := by omega
        rw [hci]
        simp only [Bqm.eraseIdx, List.zip_cons_cons, List.filter_cons, ne_eq, hal, not_false_eq_true, decide_true, if_true]
        congr 1
        exact ih cs' (s + 1) ci hnd.2 h

/-- `remove_constraint(label)` (no cascade): that constraint goes, nothing else changes -/
theorem refines_removeConstraint {m m' : Cqm} (hl : CqmLabelsOK m) (label : Label)
    (h : m.step (.removeConstraint label false) = (m', none)) :
    absCqm m' = { absCqm m with cons := (absCqm m).cons.filter (fun p => p.1 ≠ label) } := by
  have h' : m.removeConstraintR label false = (m', none) := h
  unfold Cqm.removeConstraintR at h'
  cases hc : m.cidx? label with
  | none => rw [hc] at h'; cases (Prod.mk.inj h').2
  | some c =>
    rw [hc] at h'
    simp only [Bool.false_eq_true, if_false] at h'
    rw [← (Prod.mk.inj h').1]
    unfold absCqm Cqm.removeConstraintAt
    simp only [LCqm.mk.injEq, true_and]
    have := zip_eraseIdx_filter (β := LCons) label m.clabels (m.cons.map (absCons m.labels)) 0 c hl.clabels_nodup hc
    simp only [Nat.sub_zero] at this
    rw [← this]
    congr 1
    rw [eraseIdx_eq, eraseIdx_eq, List.eraseIdx_map]


/-! ### adding a variable -/

theorem findIdx_append_other {v l : Label} {L : List Label} (hv : v ≠ l) (hn : findIdx v L 0 = none) :
    findIdx v (L ++ [l]) 0 = none := by
  rw [findIdx_none_iff] at hn ⊢
  intro h
  rcases List.mem_append.mp h with h1 | h1
  · exact hn h1
  · exact hv (by simpa using h1)

theorem linear_zero_of_not_mem {e : Expr} (hwf : ExprWF e) {g : Nat} (hg : g ∉ e.vars) : e.linear g = 0 := by
  apply linear_of_none
  cases hi : e.idx.get? g with
  | none => rfl
  | some i => exact absurd (mem_of_getElem? ((hwf.idx g i).mp hi)) hg

theorem quadratic_zero_of_not_mem {e : Expr} (hwf : ExprWF e) {g : Nat} (hg : g ∉ e.vars) (h : Nat) :
    e.quadratic g h = 0 ∧ e.quadratic h g = 0 := by
  have : e.idx.get? g = none := by
    cases hi : e.idx.get? g with
    | none => rfl
    | some i => exact absurd (mem_of_getElem? ((hwf.idx g i).mp hi)) hg
  exact ⟨quadratic_of_none_left h this, quadratic_of_none_right h this⟩

/-- a new variable does not show in any polynomial -/
theorem absExpr_append {L : List Label} {l : Label} (hl : l ∉ L) {e : Expr} (hwf : ExprWF e) (hin : ExprIn L.length e) :
    absExpr (L ++ [l]) e = absExpr L e := by
  have hlen : L.length ∉ e.vars := fun h => Nat.lt_irrefl _ (hin _ h)
  have hnew : findIdx l (L ++ [l]) 0 = some L.length := by
    have := findIdx_append_self (s := 0) (findIdx_none_iff.mpr hl); simpa using this
  have hold : ∀ x, x ≠ l → findIdx x (L ++ [l]) 0 = findIdx x L 0 := by
    intro x hx
    cases hf : findIdx x L 0 with
    | some i => exact findIdx_append_some hf
    | none => exact findIdx_append_other hx hf
  unfold absExpr
  simp only [LPoly.mk.injEq, and_true]
  refine ⟨?_, ?_, ?_⟩
  · apply List.map_congr_left
    intro g hg
    rw [List.getD_eq_getElem?_getD, List.getD_eq_getElem?_getD, List.getElem?_append_left (hin g hg)]
  · funext x
    by_cases hx : x = l
    · subst hx
      rw [hnew, findIdx_none_iff.mpr hl]
      exact linear_zero_of_not_mem hwf hlen
    · rw [hold x hx]
  · funext x y
    by_cases hx : x = l
    · subst hx
      rw [hnew, findIdx_none_iff.mpr hl]
      simp only []
      cases findIdx y (L ++ [x]) 0 with
      | none => rfl
      | some j => exact (quadratic_zero_of_not_mem hwf hlen j).1
    · rw [hold x hx]
      by_cases hy : y = l
      · subst hy
        rw [hnew, findIdx_none_iff.mpr hl]
        cases findIdx x L 0 with
        | none => rfl
        | some i => exact (quadratic_zero_of_not_mem hwf hlen i).2
      · rw [hold y hy]

theorem absCqm_appendVar {m : Cqm} (hwf : CqmWF m) (vt : VT4) (lbv ubv : Rat) {newl : Label} (hfresh : newl ∉ m.labels) :
    (absCqm { m with vt := m.vt ++ [vt], lb := m.lb ++ [lbv], ub := m.ub ++ [ubv], labels := m.labels ++ [newl] }).labels
        = (absCqm m).labels ++ [newl]
    ∧ (∀ x, (absCqm { m with vt := m.vt ++ [vt], lb := m.lb ++ [lbv], ub := m.ub ++ [ubv], labels := m.labels ++ [newl] }).info x
        = if x = newl then some (vt, lbv, ubv) else (absCqm m).info x)
    ∧ (absCqm { m with vt := m.vt ++ [vt], lb := m.lb ++ [lbv], ub := m.ub ++ [ubv], labels := m.labels ++ [newl] }).obj = (absCqm m).obj
    ∧ (absCqm { m with vt := m.vt ++ [vt], lb := m.lb ++ [lbv], ub := m.ub ++ [ubv], labels := m.labels ++ [newl] }).cons = (absCqm m).cons := by
  refine ⟨rfl, ?_, ?_, ?_⟩
  · intro x
    unfold absCqm
    simp only []
    have hnew : findIdx newl (m.labels ++ [newl]) 0 = some m.labels.length := by
      have := findIdx_append_self (s := 0) (findIdx_none_iff.mpr hfresh); simpa using this
    by_cases hx : x = newl
    · rw [if_pos hx, hx, hnew]
      simp only [Option.map_some]
      rw [List.getD_eq_getElem?_getD, List.getD_eq_getElem?_getD, List.getD_eq_getElem?_getD,
        List.getElem?_append_right (by rw [hwf.labels_len]), List.getElem?_append_right (by rw [hwf.lb_len, hwf.labels_len]),
        List.getElem?_append_right (by rw [hwf.ub_len, hwf.labels_len])]
      simp [hwf.labels_len, hwf.lb_len, hwf.ub_len]
    · rw [if_neg hx]
      cases hf : findIdx x m.labels 0 with
      | none => rw [findIdx_append_other hx hf]; rfl
      | some i =>
        rw [findIdx_append_some hf]
        have hi : i < m.vt.length := by rw [← hwf.labels_len]; have := findIdx_lt hf; omega
        simp only [Option.map_some]
        rw [List.getD_eq_getElem?_getD, List.getD_eq_getElem?_getD, List.getD_eq_getElem?_getD,
          List.getElem?_append_left hi, List.getElem?_append_left (by rw [hwf.lb_len]; exact hi),
          List.getElem?_append_left (by rw [hwf.ub_len]; exact hi)]
        simp [List.getD_eq_getElem?_getD]
  · exact absExpr_append hfresh hwf.obj (by rw [hwf.labels_len]; exact hwf.obj_lt)
  · show m.clabels.zip (m.cons.map (absCons (m.labels ++ [_]))) = m.clabels.zip (m.cons.map (absCons m.labels))
    congr 1
    apply List.map_congr_left
    intro c hc
    unfold absCons
    rw [absExpr_append hfresh (hwf.cons c hc) (by rw [hwf.labels_len]; exact hwf.cons_lt c hc)]

theorem refines_addVariableCore {m m' : Cqm} (hwf : CqmWF m) (vt : VT4) (v : Option Label) (lbG ubG : Bool) (lbv ubv : Rat)
    (h : m.addVariableCore vt v lbG ubG lbv ubv = (m', none)) :
    m' = m ∨ ∃ l, l ∉ m.labels ∧ (absCqm m').labels = (absCqm m).labels ++ [l]
      ∧ (∀ x, (absCqm m').info x = if x = l then some (vt, lbv, ubv) else (absCqm m).info x)
      ∧ (absCqm m').obj = (absCqm m).obj ∧ (absCqm m').cons = (absCqm m).cons := by
  unfold Cqm.addVariableCore at h
  split_ifs at h
  all_goals try (cases (Prod.mk.inj h).2)
  cases v with
  | none =>
    simp only [] at h
    right
    rw [← (Prod.mk.inj h).1]
    exact ⟨_, autoLabel_fresh _, absCqm_appendVar hwf vt lbv ubv (autoLabel_fresh _)⟩
  | some l0 =>
    simp only [] at h
    cases hidx : m.idx? l0 with
    | some i =>
      left
      rw [hidx] at h
      simp only [] at h
      split_ifs at h
      all_goals try (cases (Prod.mk.inj h).2)
      exact ((Prod.mk.inj h).1).symm
    | none =>
      right
      rw [hidx] at h
      simp only [] at h
      rw [← (Prod.mk.inj h).1]
      exact ⟨_, idx?_none_not_mem hidx, absCqm_appendVar hwf vt lbv ubv (idx?_none_not_mem hidx)⟩

/-- `add_variable(vartype, v, lower_bound, upper_bound)` when it returns: either `v` existed (with that type and, where
    given, those bounds) and nothing changes, or it is appended — with that type and the bounds stored — and no
    polynomial, constraint attribute or other variable changes -/
theorem refines_addVariable {m m' : Cqm} (hwf : CqmWF m) (vt : VT4) (v : Option Label) (lb ub : Option Rat)
    (h : m.step (.addVariable vt v lb ub) = (m', none)) :
    m' = m ∨ ∃ l lbv ubv, l ∉ m.labels ∧ (absCqm m').labels = (absCqm m).labels ++ [l]
      ∧ (∀ x, (absCqm m').info x = if x = l then some (vt, lbv, ubv) else (absCqm m).info x)
      ∧ (absCqm m').obj = (absCqm m).obj ∧ (absCqm m').cons = (absCqm m).cons := by
  rcases refines_addVariableCore hwf vt v _ _ _ _ h with h1 | ⟨l, h2⟩
  · exact Or.inl h1
  · exact Or.inr ⟨l, _, _, h2⟩

end CqmP
