import DimodModel.Equality
import Mathlib.Data.List.Perm.Subperm
import Mathlib.Data.List.Perm.Lattice
import Mathlib.Data.Sym.Sym2
import Mathlib.Tactic.Ring
import Mathlib.Tactic.Linarith
import Mathlib.Algebra.Order.Field.Rat

/-! Helper lemmas for property C18 (`Properties/C18.lean`). -/

namespace Eqm
open QModel

/-! ### the exception monad -/

theorem bind_ok {α β} (a : α) (f : α → M β) : (Except.ok a >>= f : M β) = f a := rfl
theorem bind_err {α β} (e : Exc) (f : α → M β) : (Except.error e >>= f : M β) = Except.error e := rfl

theorem catching_true_ok (r : M Bool) : ∃ b, catching true r = .ok b := by
  unfold catching
  cases r with
  | ok b => exact ⟨b, rfl⟩
  | error e => cases e <;> exact ⟨false, rfl⟩

theorem catching_ok_of_no_value (c : Bool) (r : M Bool) (h : r ≠ .error .value) : ∃ b, catching c r = .ok b := by
  unfold catching
  cases r with
  | ok b => exact ⟨b, rfl⟩
  | error e => cases e with
    | value => exact absurd rfl h
    | attr => exact ⟨false, rfl⟩

/-- `all(...)` is `True` iff every element answers `True` (without raising before) -/
theorem allM_eq_true (l : List Label) (f : Label → M Bool) :
    allM l f = .ok true ↔ ∀ v ∈ l, f v = .ok true := by
  induction l with
  | nil => simp [allM, pure, Except.pure]
  | cons a t ih =>
    unfold allM
    cases hfa : f a with
    | error e =>
      simp only [bind_err]
      constructor
      · intro h; cases h
      · intro h; have := h a List.mem_cons_self; rw [hfa] at this; cases this
    | ok b =>
      simp only [bind_ok]
      cases b with
      | false =>
        simp only [Bool.false_eq_true, if_false, pure, Except.pure]
        constructor
        · intro h; cases h
        · intro h; have := h a List.mem_cons_self; rw [hfa] at this; cases this
      | true =>
        simp only [if_true, ih]
        constructor
        · intro h v hv
          rcases List.mem_cons.mp hv with rfl | hv
          · exact hfa
          · exact h v hv
        · intro h v hv; exact h v (List.mem_cons_of_mem _ hv)

/-- if no element raises, `all(...)` does not raise -/
theorem allM_total (l : List Label) (f : Label → M Bool) (h : ∀ v ∈ l, ∃ b, f v = .ok b) :
    ∃ b, allM l f = .ok b := by
  induction l with
  | nil => exact ⟨true, rfl⟩
  | cons a t ih =>
    unfold allM
    obtain ⟨b, hb⟩ := h a List.mem_cons_self
    rw [hb, bind_ok]
    cases b with
    | false => exact ⟨false, rfl⟩
    | true => simpa using ih (fun v hv => h v (List.mem_cons_of_mem _ hv))

/-- an `all(...)` whose elements can only raise `ValueError` can only raise `ValueError` -/
theorem allM_ne_attr (l : List Label) (f : Label → M Bool) (h : ∀ v ∈ l, f v ≠ .error .attr) :
    allM l f ≠ .error .attr := by
  induction l with
  | nil => intro h; cases h
  | cons a t ih =>
    unfold allM
    cases hfa : f a with
    | error e =>
      rw [bind_err]
      intro he
      have : e = .attr := by cases he; rfl
      subst this; exact h a List.mem_cons_self hfa
    | ok b =>
      rw [bind_ok]
      cases b with
      | false => intro he; cases he
      | true => simpa using ih (fun v hv => h v (List.mem_cons_of_mem _ hv))

/-! ### well-formed models -/

/-- every own variable has a type (always true of a real QM / view; a BQM needs no table) -/
def TypesOK (m : QModel) : Prop :=
  match m.kind with
  | .bqm _ => True
  | _ => ∀ v ∈ m.vars, ∃ t, lookup m.types v = some t

theorem vartypeOf_ok {m : QModel} (h : TypesOK m) {v : Label} (hv : v ∈ m.vars) : ∃ t, m.vartypeOf v = .ok t := by
  unfold vartypeOf
  unfold TypesOK at h
  cases hk : m.kind with
  | bqm vt => exact ⟨vt, rfl⟩
  | qm =>
    rw [hk] at h
    obtain ⟨t, ht⟩ := h v hv
    exact ⟨t, by simp only [ht]; rfl⟩
  | view =>
    rw [hk] at h
    obtain ⟨t, ht⟩ := h v hv
    exact ⟨t, by simp only [ht]; rfl⟩

theorem vartypeOf_ne_attr (m : QModel) (v : Label) : m.vartypeOf v ≠ .error .attr := by
  unfold vartypeOf
  cases m.kind with
  | bqm vt => intro h; cases h
  | qm => cases lookup m.types v <;> (intro h; cases h)
  | view => cases lookup m.types v <;> (intro h; cases h)

/-! ### `is_equal` never raises (D15 repaired) -/

theorem modelIsEqual_total (self : QModel) (other : Obj) (hother : ∀ o, other = .model o → TypesOK o) :
    ∃ b, modelIsEqualWith true self other = .ok b := by
  unfold modelIsEqualWith
  cases hk : self.kind with
  | qm => exact catching_true_ok _
  | view => exact catching_true_ok _
  | bqm vt =>
    simp only []
    apply catching_ok_of_no_value
    unfold bqmEqBody
    cases other with
    | num x => intro h; cases h
    | foreign => intro h; cases h
    | cqm c => simp only []; split <;> (intro h; cases h)
    | model o =>
      simp only []
      have hok := hother o rfl
      obtain ⟨b, hb⟩ := allM_total o.vars (fun v => do pure ((← o.vartypeOf v) = vt)) (by
        intro v hv
        obtain ⟨t, ht⟩ := vartypeOf_ok hok hv
        exact ⟨decide (t = vt), by simp only [ht, bind_ok]; rfl⟩)
      rw [hb, bind_ok]
      cases b <;> (intro h; cases h)


theorem allConsM_total (l : List CCons) (f : CCons → M Bool) (h : ∀ c ∈ l, ∃ b, f c = .ok b) :
    ∃ b, allConsM l f = .ok b := by
  induction l with
  | nil => exact ⟨true, rfl⟩
  | cons a t ih =>
    unfold allConsM
    obtain ⟨b, hb⟩ := h a List.mem_cons_self
    rw [hb, bind_ok]
    cases b with
    | false => exact ⟨false, rfl⟩
    | true => simpa using ih (fun c hc => h c (List.mem_cons_of_mem _ hc))

theorem findCons_of_keysEq {a b : List CCons} (h : keysEq a b = true) {c : CCons} (hc : c ∈ a) :
    ∃ d, findCons b c.label = some d := by
  unfold keysEq at h
  rw [Bool.and_eq_true, List.all_eq_true] at h
  have := h.1 c hc
  rw [List.any_eq_true] at this
  obtain ⟨d, hd, hdl⟩ := this
  unfold findCons
  cases hf : b.find? (fun x => decide (x.label = c.label)) with
  | some d' => exact ⟨d', rfl⟩
  | none =>
    rw [List.find?_eq_none] at hf
    exact absurd hdl (hf d hd)

def CqmTypesOK (c : CqmVal) : Prop := TypesOK c.obj ∧ ∀ d ∈ c.cons, TypesOK d.lhs

theorem cqmIsEqual_total (self : CqmVal) (other : Obj) (hother : ∀ o, other = .cqm o → CqmTypesOK o) :
    ∃ b, cqmIsEqualWith true true true self other = .ok b := by
  unfold cqmIsEqualWith
  cases other with
  | num x => exact ⟨false, rfl⟩
  | foreign => exact ⟨false, rfl⟩
  | model m => exact ⟨false, rfl⟩
  | cqm o =>
    have ho := hother o rfl
    simp only []
    obtain ⟨b1, hb1⟩ := modelIsEqual_total self.obj (.model o.obj) (by intro o' h; cases h; exact ho.1)
    rw [hb1, bind_ok]
    cases b1 with
    | false => exact ⟨false, rfl⟩
    | true =>
      simp only [Bool.not_true, Bool.false_eq_true, if_false, Bool.true_and]
      by_cases hv : varsEq self o = true
      · simp only [hv, Bool.not_true, Bool.false_eq_true, if_false]
        by_cases hk : keysEq self.cons o.cons = true
        · simp only [hk, Bool.not_true, Bool.false_eq_true, if_false]
          apply allConsM_total
          intro c hc
          obtain ⟨d, hd⟩ := findCons_of_keysEq hk hc
          simp only [hd]
          by_cases hs : c.sense ≠ d.sense
          · exact ⟨false, by rw [if_pos hs]; rfl⟩
          · rw [if_neg hs]
            have hdmem : d ∈ o.cons := by
              unfold findCons at hd
              exact List.mem_of_find?_eq_some hd
            obtain ⟨b2, hb2⟩ := modelIsEqual_total c.lhs (.model d.lhs) (by intro o' h; cases h; exact ho.2 d hdmem)
            rw [hb2, bind_ok]
            cases b2 with
            | false => exact ⟨false, rfl⟩
            | true => exact ⟨decide (c.rhs = d.rhs), rfl⟩
        · have : keysEq self.cons o.cons = false := by simpa using hk
          exact ⟨false, by simp only [this]; rfl⟩
      · have : varsEq self o = false := by simpa using hv
        exact ⟨false, by simp only [this]; rfl⟩


/-! ### association lists as dicts -/

section assoc
variable {β : Type}

theorem lookup_some_mem {l : List (Label × β)} {k : Label} {x : β} (h : lookup l k = some x) : (k, x) ∈ l := by
  induction l with
  | nil => cases h
  | cons p t ih =>
    obtain ⟨a, b⟩ := p
    unfold lookup at h
    by_cases hak : a = k
    · rw [if_pos hak] at h; cases h; subst hak; exact List.mem_cons_self
    · rw [if_neg hak] at h; exact List.mem_cons_of_mem _ (ih h)

theorem lookup_none_iff {l : List (Label × β)} {k : Label} : lookup l k = none ↔ k ∉ l.map Prod.fst := by
  induction l with
  | nil => simp [lookup]
  | cons p t ih =>
    obtain ⟨a, b⟩ := p
    unfold lookup
    by_cases hak : a = k
    · subst hak; simp
    · rw [if_neg hak, ih]
      simp only [List.map_cons, List.mem_cons, not_or]
      constructor
      · intro h; exact ⟨fun h' => hak h'.symm, h⟩
      · intro h; exact h.2

theorem lookup_of_mem_nodup {l : List (Label × β)} (hnd : (l.map Prod.fst).Nodup) {k : Label} {x : β}
    (h : (k, x) ∈ l) : lookup l k = some x := by
  induction l with
  | nil => cases h
  | cons p t ih =>
    obtain ⟨a, b⟩ := p
    rw [List.map_cons, List.nodup_cons] at hnd
    unfold lookup
    rcases List.mem_cons.mp h with heq | hmem
    · cases heq; rw [if_pos rfl]
    · have : a ≠ k := by
        intro hak; subst hak
        exact hnd.1 (List.mem_map.mpr ⟨(a, x), hmem, rfl⟩)
      rw [if_neg this]; exact ih hnd.2 hmem

theorem mem_keys_iff {l : List (Label × β)} {k : Label} : k ∈ l.map Prod.fst ↔ ∃ x, lookup l k = some x := by
  constructor
  · intro h
    cases hl : lookup l k with
    | some x => exact ⟨x, rfl⟩
    | none => exact absurd h (lookup_none_iff.mp hl)
  · intro ⟨x, hx⟩
    exact List.mem_map.mpr ⟨(k, x), lookup_some_mem hx, rfl⟩

/-- Python dict equality of two association lists with distinct keys -/
theorem dictEq_iff [DecidableEq β] {a b : List (Label × β)} (ha : (a.map Prod.fst).Nodup) (hb : (b.map Prod.fst).Nodup) :
    dictEq a b = true ↔ ∀ k, lookup a k = lookup b k := by
  unfold dictEq
  rw [Bool.and_eq_true, List.all_eq_true]
  constructor
  · intro ⟨hlen, hall⟩ k
    have hlen' : a.length = b.length := by simpa using hlen
    have hsub : a.map Prod.fst ⊆ b.map Prod.fst := by
      intro k' hk'
      obtain ⟨p, hp, rfl⟩ := List.mem_map.mp hk'
      have := hall p hp
      simp only [decide_eq_true_eq] at this
      exact mem_keys_iff.mpr ⟨p.2, this⟩
    have hperm : List.Perm (a.map Prod.fst) (b.map Prod.fst) :=
      (List.subperm_of_subset ha hsub).perm_of_length_le (by simp [hlen'])
    cases hak : lookup a k with
    | some x =>
      have := hall (k, x) (lookup_some_mem hak)
      simp only [decide_eq_true_eq] at this
      exact this.symm
    | none =>
      have hk : k ∉ a.map Prod.fst := lookup_none_iff.mp hak
      have : k ∉ b.map Prod.fst := fun h => hk (hperm.mem_iff.mpr h)
      exact (lookup_none_iff.mpr this).symm
  · intro h
    have hperm : List.Perm (a.map Prod.fst) (b.map Prod.fst) := by
      rw [List.perm_ext_iff_of_nodup ha hb]
      intro k
      rw [mem_keys_iff, mem_keys_iff, h k]
    refine ⟨?_, ?_⟩
    · have := hperm.length_eq
      simpa using this
    · intro p hp
      simp only [decide_eq_true_eq]
      rw [← h p.1]
      exact lookup_of_mem_nodup ha hp

end assoc


/-! ### interactions as unordered pairs -/

def pairOf (p : Label × Label × Rat) : Sym2 Label := s(p.1, p.2.1)

theorem quadLookup_isSome_iff (q : List (Label × Label × Rat)) (u v : Label) :
    (∃ x, quadLookup q u v = some x) ↔ s(u, v) ∈ q.map pairOf := by
  induction q with
  | nil => simp [quadLookup]
  | cons p t ih =>
    obtain ⟨a, b, x⟩ := p
    unfold quadLookup
    by_cases h : (a = u ∧ b = v) ∨ (a = v ∧ b = u)
    · rw [if_pos h]
      simp only [List.map_cons, List.mem_cons, pairOf]
      constructor
      · intro _; left; rw [Sym2.eq_iff]
        rcases h with ⟨h1, h2⟩ | ⟨h1, h2⟩
        · left; exact ⟨h1.symm, h2.symm⟩
        · right; exact ⟨h2.symm, h1.symm⟩
      · intro _; exact ⟨x, rfl⟩
    · rw [if_neg h, ih]
      simp only [List.map_cons, List.mem_cons, pairOf]
      constructor
      · intro h'; right; exact h'
      · intro h'
        rcases h' with h' | h'
        · exfalso; apply h
          rw [Sym2.eq_iff] at h'
          rcases h' with ⟨h1, h2⟩ | ⟨h1, h2⟩
          · left; exact ⟨h1.symm, h2.symm⟩
          · right; exact ⟨h2.symm, h1.symm⟩
        · exact h'

/-- one entry of `iter_quadratic` seen from `v` -/
def nbhEntry (v : Label) (p : Label × Label × Rat) : Option (Label × Rat) :=
  if p.1 = v then some (p.2.1, p.2.2) else if p.2.1 = v then some (p.1, p.2.2) else none

theorem nbh_eq (m : QModel) (v : Label) : m.nbh v = m.quad.filterMap (nbhEntry v) := by
  unfold nbh
  congr 1

/-- the neighbourhood dict of `v` answers exactly what `get_quadratic(v, ·)` answers -/
theorem lookup_nbh (m : QModel) (v w : Label) : lookup (m.nbh v) w = quadLookup m.quad v w := by
  rw [nbh_eq]
  induction m.quad with
  | nil => rfl
  | cons p t ih =>
    obtain ⟨a, b, x⟩ := p
    rw [List.filterMap_cons]
    unfold quadLookup
    by_cases hav : a = v
    · have h1 : nbhEntry v (a, b, x) = some (b, x) := by unfold nbhEntry; rw [if_pos hav]
      rw [h1]
      show lookup ((b, x) :: _) w = _
      unfold lookup
      by_cases hbw : b = w
      · rw [if_pos hbw, if_pos (Or.inl ⟨hav, hbw⟩)]
      · rw [if_neg hbw]
        have : ¬ ((a = v ∧ b = w) ∨ (a = w ∧ b = v)) := by
          intro h; rcases h with ⟨_, h⟩ | ⟨h1, h2⟩
          · exact hbw h
          · exact hbw (h2.trans (hav.symm.trans h1))
        rw [if_neg this]; exact ih
    · by_cases hbv : b = v
      · have h1 : nbhEntry v (a, b, x) = some (a, x) := by unfold nbhEntry; rw [if_neg hav, if_pos hbv]
        rw [h1]
        show lookup ((a, x) :: _) w = _
        unfold lookup
        by_cases haw : a = w
        · rw [if_pos haw, if_pos (Or.inr ⟨haw, hbv⟩)]
        · rw [if_neg haw]
          have : ¬ ((a = v ∧ b = w) ∨ (a = w ∧ b = v)) := by
            intro h; rcases h with ⟨h, _⟩ | ⟨h, _⟩
            · exact hav h
            · exact haw h
          rw [if_neg this]; exact ih
      · have h1 : nbhEntry v (a, b, x) = none := by unfold nbhEntry; rw [if_neg hav, if_neg hbv]
        rw [h1]
        have : ¬ ((a = v ∧ b = w) ∨ (a = w ∧ b = v)) := by
          intro h; rcases h with ⟨h, _⟩ | ⟨_, h⟩
          · exact hav h
          · exact hbv h
        rw [if_neg this]; exact ih

theorem nbh_keys_nodup (m : QModel) (hq : (m.quad.map pairOf).Nodup) (v : Label) :
    ((m.nbh v).map Prod.fst).Nodup := by
  -- a key `w` of the neighbourhood dict is an interaction {v, w}
  have key : ∀ (t : List (Label × Label × Rat)) (w : Label),
      w ∈ (t.filterMap (nbhEntry v)).map Prod.fst → s(v, w) ∈ t.map pairOf := by
    intro t w hw
    obtain ⟨p, hp, rfl⟩ := List.mem_map.mp hw
    obtain ⟨q, hq', hqp⟩ := List.mem_filterMap.mp hp
    obtain ⟨a, b, x⟩ := q
    refine List.mem_map.mpr ⟨(a, b, x), hq', ?_⟩
    unfold pairOf
    unfold nbhEntry at hqp
    by_cases hav : a = v
    · rw [if_pos hav] at hqp; cases hqp; rw [hav]
    · rw [if_neg hav] at hqp
      by_cases hbv : b = v
      · rw [if_pos hbv] at hqp; cases hqp; rw [hbv]; exact Sym2.eq_swap
      · rw [if_neg hbv] at hqp; cases hqp
  rw [nbh_eq]
  generalize m.quad = q at hq
  induction q with
  | nil => simp
  | cons p t ih =>
    obtain ⟨a, b, x⟩ := p
    rw [List.map_cons, List.nodup_cons] at hq
    rw [List.filterMap_cons]
    by_cases hav : a = v
    · have h1 : nbhEntry v (a, b, x) = some (b, x) := by unfold nbhEntry; rw [if_pos hav]
      rw [h1]
      show ((b, x) :: _ |>.map Prod.fst).Nodup
      rw [List.map_cons, List.nodup_cons]
      refine ⟨?_, ih hq.2⟩
      intro hmem
      apply hq.1
      have := key t b hmem
      unfold pairOf; rw [hav]; exact this
    · by_cases hbv : b = v
      · have h1 : nbhEntry v (a, b, x) = some (a, x) := by unfold nbhEntry; rw [if_neg hav, if_pos hbv]
        rw [h1]
        show ((a, x) :: _ |>.map Prod.fst).Nodup
        rw [List.map_cons, List.nodup_cons]
        refine ⟨?_, ih hq.2⟩
        intro hmem
        apply hq.1
        have := key t a hmem
        unfold pairOf; rw [hbv, Sym2.eq_swap]; exact this
      · have h1 : nbhEntry v (a, b, x) = none := by unfold nbhEntry; rw [if_neg hav, if_neg hbv]
        rw [h1]
        exact ih hq.2


/-! ### `is_equal` between two models = equality of canonical forms -/

structure WF (m : QModel) : Prop where
  types : TypesOK m
  nodup : m.vars.Nodup
  lin_len : m.lin.length = m.vars.length
  pairs : (m.quad.map pairOf).Nodup
  inVars : ∀ p ∈ m.quad, p.1 ∈ m.vars ∧ p.2.1 ∈ m.vars

/-- same labels (through `lin`), same type per variable, same offset, same linear bias per variable, same
    quadratic bias per unordered pair (an interaction stored with bias 0 is an interaction) — nothing
    about order or dtype -/
structure CanonEq (a b : QModel) : Prop where
  types : ∀ v ∈ a.vars, a.vartypeOf v = b.vartypeOf v
  off : a.off = b.off
  lin : ∀ v, lookup a.linAssoc v = lookup b.linAssoc v
  quad : ∀ u v, quadLookup a.quad u v = quadLookup b.quad u v

theorem keys_linAssoc {m : QModel} (h : WF m) : m.linAssoc.map Prod.fst = m.vars := by
  unfold linAssoc
  exact List.map_fst_zip (by rw [h.lin_len])

theorem mem_vars_iff {m : QModel} (h : WF m) (v : Label) : v ∈ m.vars ↔ ∃ x, lookup m.linAssoc v = some x := by
  rw [← mem_keys_iff, keys_linAssoc h]

theorem labels_of_lin {a b : QModel} (ha : WF a) (hb : WF b)
    (h : ∀ v, lookup a.linAssoc v = lookup b.linAssoc v) (v : Label) : v ∈ a.vars ↔ v ∈ b.vars := by
  rw [mem_vars_iff ha, mem_vars_iff hb, h v]

theorem length_of_labels {a b : QModel} (ha : WF a) (hb : WF b) (h : ∀ v, v ∈ a.vars ↔ v ∈ b.vars) :
    a.vars.length = b.vars.length :=
  ((List.perm_ext_iff_of_nodup ha.nodup hb.nodup).mpr h).length_eq

theorem quad_none_of_not_mem {m : QModel} (h : WF m) {u : Label} (hu : u ∉ m.vars) (v : Label) :
    quadLookup m.quad u v = none := by
  cases hq : quadLookup m.quad u v with
  | none => rfl
  | some x =>
    exfalso
    have := (quadLookup_isSome_iff m.quad u v).mp ⟨x, hq⟩
    obtain ⟨p, hp, hpe⟩ := List.mem_map.mp this
    unfold pairOf at hpe
    rw [Sym2.eq_iff] at hpe
    rcases hpe with ⟨h1, _⟩ | ⟨_, h2⟩
    · exact hu (h1 ▸ (h.inVars p hp).1)
    · exact hu (h2 ▸ (h.inVars p hp).2)

theorem quad_length_of_canon {a b : QModel} (ha : WF a) (hb : WF b)
    (h : ∀ u v, quadLookup a.quad u v = quadLookup b.quad u v) : a.quad.length = b.quad.length := by
  have hperm : List.Perm (a.quad.map pairOf) (b.quad.map pairOf) := by
    rw [List.perm_ext_iff_of_nodup ha.pairs hb.pairs]
    intro z
    induction z using Sym2.ind with
    | _ u v => rw [← quadLookup_isSome_iff, ← quadLookup_isSome_iff, h u v]
  simpa using hperm.length_eq

theorem catching_eq_true (c : Bool) (r : M Bool) : catching c r = .ok true ↔ r = .ok true := by
  unfold catching
  cases r with
  | ok b => rfl
  | error e =>
    cases e with
    | attr => constructor <;> (intro h; cases h)
    | value => cases c <;> (constructor <;> (intro h; cases h))

theorem ite_bind_eq_true (x : M Bool) (r : Bool) :
    ((do if (← x) then pure r else pure false) : M Bool) = .ok true ↔ x = .ok true ∧ r = true := by
  cases x with
  | error e =>
    rw [bind_err]
    constructor
    · intro h; cases h
    · intro h; cases h.1
  | ok b =>
    rw [bind_ok]
    cases b with
    | false =>
      constructor
      · intro h; cases h
      · intro h; cases h.1
    | true =>
      constructor
      · intro h
        have : r = true := by
          have h' : (Except.ok r : M Bool) = Except.ok true := h
          cases h'; rfl
        exact ⟨rfl, this⟩
      · intro h; rw [h.2]; rfl

theorem linearEq_iff {a b : QModel} (ha : WF a) (hb : WF b) :
    linearEq a b = true ↔ ∀ v, lookup a.linAssoc v = lookup b.linAssoc v := by
  unfold linearEq
  exact dictEq_iff (by rw [keys_linAssoc ha]; exact ha.nodup) (by rw [keys_linAssoc hb]; exact hb.nodup)

theorem adjEq_iff {a b : QModel} (ha : WF a) (hb : WF b) :
    adjEq a b = true ↔ a.vars.length = b.vars.length ∧
      ∀ v ∈ a.vars, v ∈ b.vars ∧ ∀ w, quadLookup a.quad v w = quadLookup b.quad v w := by
  unfold adjEq
  rw [Bool.and_eq_true, List.all_eq_true, decide_eq_true_eq]
  apply and_congr Iff.rfl
  apply forall_congr'; intro v
  apply imp_congr Iff.rfl
  rw [Bool.and_eq_true, List.contains_iff_mem, dictEq_iff (nbh_keys_nodup a ha.pairs v) (nbh_keys_nodup b hb.pairs v)]
  apply and_congr Iff.rfl
  apply forall_congr'; intro w
  rw [lookup_nbh, lookup_nbh]

theorem restEq_iff {a b : QModel} (ha : WF a) (hb : WF b) :
    restEq a b = true ↔ a.off = b.off ∧ (∀ v, lookup a.linAssoc v = lookup b.linAssoc v)
      ∧ ∀ u v, quadLookup a.quad u v = quadLookup b.quad u v := by
  unfold restEq
  rw [Bool.and_eq_true, Bool.and_eq_true, Bool.and_eq_true, linearEq_iff ha hb, adjEq_iff ha hb]
  simp only [decide_eq_true_eq]
  constructor
  · intro ⟨⟨⟨_, hoff⟩, hlin⟩, _, hadj⟩
    refine ⟨hoff, hlin, ?_⟩
    intro u v
    by_cases hu : u ∈ a.vars
    · exact (hadj u hu).2 v
    · have hub : u ∉ b.vars := fun h => hu ((labels_of_lin ha hb hlin u).mpr h)
      rw [quad_none_of_not_mem ha hu, quad_none_of_not_mem hb hub]
  · intro ⟨hoff, hlin, hquad⟩
    have hlab := labels_of_lin ha hb hlin
    have hlen := length_of_labels ha hb hlab
    refine ⟨⟨⟨?_, hoff⟩, hlin⟩, hlen, ?_⟩
    · unfold shape; rw [hlen, quad_length_of_canon ha hb hquad]
    · intro v hv; exact ⟨(hlab v).mp hv, fun w => hquad v w⟩

/-- `a.is_equal(b)` (repaired code) is `True` exactly when the canonical forms agree -/
theorem modelIsEqual_iff_canon (a b : QModel) (ha : WF a) (hb : WF b) :
    modelIsEqualWith true a (.model b) = .ok true ↔ CanonEq a b := by
  unfold modelIsEqualWith
  cases hk : a.kind with
  | bqm vt =>
    simp only []
    rw [catching_eq_true]
    unfold bqmEqBody
    simp only []
    rw [ite_bind_eq_true, allM_eq_true, restEq_iff ha hb]
    have avt : ∀ v, a.vartypeOf v = .ok vt := by intro v; unfold vartypeOf; rw [hk]; rfl
    constructor
    · intro ⟨hty, hoff, hlin, hquad⟩
      refine ⟨?_, hoff, hlin, hquad⟩
      intro v hv
      have hvb := (labels_of_lin ha hb hlin v).mp hv
      have := hty v hvb
      obtain ⟨t, ht⟩ := vartypeOf_ok hb.types hvb
      rw [ht, bind_ok] at this
      have : t = vt := by simpa [pure, Except.pure] using this
      rw [avt, ht, this]
    · intro h
      refine ⟨?_, h.off, h.lin, h.quad⟩
      intro v hvb
      have hv := (labels_of_lin ha hb h.lin v).mpr hvb
      have := h.types v hv
      rw [avt] at this
      rw [← this, bind_ok]; simp [pure, Except.pure]
  | qm =>
    simp only []
    rw [catching_eq_true]
    unfold qmEqBody
    simp only []
    rw [ite_bind_eq_true, allM_eq_true, restEq_iff ha hb]
    constructor
    · intro ⟨hty, hoff, hlin, hquad⟩
      refine ⟨?_, hoff, hlin, hquad⟩
      intro v hv
      have := hty v hv
      obtain ⟨t, ht⟩ := vartypeOf_ok ha.types hv
      rw [ht, bind_ok] at this
      cases hbt : b.vartypeOf v with
      | error e => rw [hbt, bind_err] at this; cases this
      | ok t' =>
        rw [hbt, bind_ok] at this
        have : t = t' := by simpa [pure, Except.pure] using this
        rw [ht, this]
    · intro h
      refine ⟨?_, h.off, h.lin, h.quad⟩
      intro v hv
      obtain ⟨t, ht⟩ := vartypeOf_ok ha.types hv
      have := h.types v hv
      rw [ht] at this
      rw [ht, ← this, bind_ok, bind_ok]; simp [pure, Except.pure]
  | view =>
    simp only []
    rw [catching_eq_true]
    unfold qmEqBody
    simp only []
    rw [ite_bind_eq_true, allM_eq_true, restEq_iff ha hb]
    constructor
    · intro ⟨hty, hoff, hlin, hquad⟩
      refine ⟨?_, hoff, hlin, hquad⟩
      intro v hv
      have := hty v hv
      obtain ⟨t, ht⟩ := vartypeOf_ok ha.types hv
      rw [ht, bind_ok] at this
      cases hbt : b.vartypeOf v with
      | error e => rw [hbt, bind_err] at this; cases this
      | ok t' =>
        rw [hbt, bind_ok] at this
        have : t = t' := by simpa [pure, Except.pure] using this
        rw [ht, this]
    · intro h
      refine ⟨?_, h.off, h.lin, h.quad⟩
      intro v hv
      obtain ⟨t, ht⟩ := vartypeOf_ok ha.types hv
      have := h.types v hv
      rw [ht] at this
      rw [ht, ← this, bind_ok, bind_ok]; simp [pure, Except.pure]


/-! ### `is_almost_equal` between two models -/

theorem allQuadM_eq_true (l : List (Label × Label × Rat)) (f : Label × Label × Rat → M Bool) :
    allQuadM l f = .ok true ↔ ∀ q ∈ l, f q = .ok true := by
  induction l with
  | nil => simp [allQuadM, pure, Except.pure]
  | cons a t ih =>
    unfold allQuadM
    cases hfa : f a with
    | error e =>
      simp only [bind_err]
      constructor
      · intro h; cases h
      · intro h; have := h a List.mem_cons_self; rw [hfa] at this; cases this
    | ok b =>
      simp only [bind_ok]
      cases b with
      | false =>
        simp only [Bool.false_eq_true, if_false, pure, Except.pure]
        constructor
        · intro h; cases h
        · intro h; have := h a List.mem_cons_self; rw [hfa] at this; cases this
      | true =>
        simp only [if_true, ih]
        constructor
        · intro h v hv
          rcases List.mem_cons.mp hv with rfl | hv
          · exact hfa
          · exact h v hv
        · intro h v hv; exact h v (List.mem_cons_of_mem _ hv)

theorem quadLookup_symm (q : List (Label × Label × Rat)) (u v : Label) : quadLookup q u v = quadLookup q v u := by
  induction q with
  | nil => rfl
  | cons p t ih =>
    obtain ⟨a, b, x⟩ := p
    unfold quadLookup
    by_cases h : (a = u ∧ b = v) ∨ (a = v ∧ b = u)
    · rw [if_pos h, if_pos (Or.symm h)]
    · rw [if_neg h, if_neg (fun h' => h (Or.symm h')), ih]

theorem quadLookup_of_mem {q : List (Label × Label × Rat)} (hnd : (q.map pairOf).Nodup) {a b : Label} {x : Rat}
    (h : (a, b, x) ∈ q) : quadLookup q a b = some x := by
  induction q with
  | nil => cases h
  | cons p t ih =>
    obtain ⟨a', b', x'⟩ := p
    rw [List.map_cons, List.nodup_cons] at hnd
    unfold quadLookup
    rcases List.mem_cons.mp h with heq | hmem
    · cases heq; rw [if_pos (Or.inl ⟨rfl, rfl⟩)]
    · have : ¬ ((a' = a ∧ b' = b) ∨ (a' = b ∧ b' = a)) := by
        intro hh
        apply hnd.1
        refine List.mem_map.mpr ⟨(a, b, x), hmem, ?_⟩
        unfold pairOf
        rw [Sym2.eq_iff]
        rcases hh with ⟨h1, h2⟩ | ⟨h1, h2⟩
        · left; exact ⟨h1.symm, h2.symm⟩
        · right; exact ⟨h2.symm, h1.symm⟩
      rw [if_neg this]; exact ih hnd.2 hmem

theorem quadLookup_some_mem {q : List (Label × Label × Rat)} {u v : Label} {x : Rat} (h : quadLookup q u v = some x) :
    (u, v, x) ∈ q ∨ (v, u, x) ∈ q := by
  induction q with
  | nil => cases h
  | cons p t ih =>
    obtain ⟨a, b, y⟩ := p
    unfold quadLookup at h
    by_cases hh : (a = u ∧ b = v) ∨ (a = v ∧ b = u)
    · rw [if_pos hh] at h; cases h
      rcases hh with ⟨h1, h2⟩ | ⟨h1, h2⟩
      · left; rw [h1, h2]; exact List.mem_cons_self
      · right; rw [h1, h2]; exact List.mem_cons_self
    · rw [if_neg hh] at h
      rcases ih h with h' | h'
      · left; exact List.mem_cons_of_mem _ h'
      · right; exact List.mem_cons_of_mem _ h'

/-- `is_almost_equal` as a comparison of canonical forms: same labels, types and interactions, every pair
    of corresponding biases rounds to the same value at `p` places -/
structure AlmostCanon (p : Int) (a b : QModel) : Prop where
  labels : ∀ v, v ∈ a.vars ↔ v ∈ b.vars
  types : ∀ v ∈ a.vars, a.vartypeOf v = b.vartypeOf v
  off : roundsToZero p (a.off - b.off) = true
  lin : ∀ v ∈ a.vars, ∃ x y, lookup a.linAssoc v = some x ∧ lookup b.linAssoc v = some y ∧ roundsToZero p (x - y) = true
  pairs : ∀ u v, (quadLookup a.quad u v).isSome = (quadLookup b.quad u v).isSome
  quad : ∀ u v x y, quadLookup a.quad u v = some x → quadLookup b.quad u v = some y → roundsToZero p (x - y) = true

theorem getLinear_of_mem {m : QModel} (h : WF m) {v : Label} (hv : v ∈ m.vars) :
    ∃ x, lookup m.linAssoc v = some x ∧ m.getLinear v = .ok x := by
  obtain ⟨x, hx⟩ := (mem_vars_iff h v).mp hv
  exact ⟨x, hx, by unfold getLinear; rw [hx]; rfl⟩

theorem labelsEq_iff (a b : QModel) : labelsEq a b = true ↔ ∀ v, v ∈ a.vars ↔ v ∈ b.vars := by
  unfold labelsEq
  rw [Bool.and_eq_true, List.all_eq_true, List.all_eq_true]
  simp only [List.contains_iff_mem]
  constructor
  · intro ⟨h1, h2⟩ v; exact ⟨h1 v, h2 v⟩
  · intro h; exact ⟨fun v hv => (h v).mp hv, fun v hv => (h v).mpr hv⟩

theorem restAlmost_struct (a b : QModel) (p : Int) :
    restAlmost true p a b = .ok true ↔
      a.shape = b.shape ∧ labelsEq a b = true ∧ roundsToZero p (a.off - b.off) = true
      ∧ (allM a.vars fun v => do pure (roundsToZero p ((← a.getLinear v) - (← b.getLinear v)))) = .ok true
      ∧ (allQuadM a.quad fun (u, v, x) => do pure (roundsToZero p (x - (← b.getQuadratic u v)))) = .ok true := by
  unfold restAlmost
  by_cases hshape : a.shape = b.shape
  swap
  · simp only [ne_eq, hshape, not_false_eq_true, if_true, false_and]
    constructor <;> (intro h; cases h)
  simp only [ne_eq, hshape, not_true_eq_false, if_false, Bool.true_and, true_and]
  cases hlab : labelsEq a b with
  | false =>
    simp only [Bool.not_false, if_true, Bool.false_eq_true, false_and]
    constructor <;> (intro h; cases h)
  | true =>
    simp only [Bool.not_true, Bool.false_eq_true, if_false, true_and]
    cases hoff : roundsToZero p (a.off - b.off) with
    | false =>
      simp only [Bool.not_false, if_true, Bool.false_eq_true, false_and]
      constructor <;> (intro h; cases h)
    | true =>
      simp only [Bool.not_true, Bool.false_eq_true, if_false, true_and]
      cases hl : (allM a.vars fun v => do pure (roundsToZero p ((← a.getLinear v) - (← b.getLinear v)))) with
      | error e =>
        rw [bind_err]
        constructor
        · intro h; cases h
        · intro h; cases h.1
      | ok bl =>
        rw [bind_ok]
        cases bl with
        | false =>
          simp only [Bool.not_false, if_true]
          constructor
          · intro h; cases h
          · intro h; cases h.1
        | true =>
          simp only [Bool.not_true, Bool.false_eq_true, if_false, true_and]

theorem restAlmost_iff {a b : QModel} (ha : WF a) (hb : WF b) (p : Int) :
    restAlmost true p a b = .ok true ↔
      (∀ v, v ∈ a.vars ↔ v ∈ b.vars) ∧ roundsToZero p (a.off - b.off) = true
      ∧ (∀ v ∈ a.vars, ∃ x y, lookup a.linAssoc v = some x ∧ lookup b.linAssoc v = some y ∧ roundsToZero p (x - y) = true)
      ∧ (∀ u v, (quadLookup a.quad u v).isSome = (quadLookup b.quad u v).isSome)
      ∧ (∀ u v x y, quadLookup a.quad u v = some x → quadLookup b.quad u v = some y → roundsToZero p (x - y) = true) := by
  rw [restAlmost_struct, labelsEq_iff]
  -- the linear loop, given equal label sets
  have hlin : (∀ v, v ∈ a.vars ↔ v ∈ b.vars) →
      ((allM a.vars fun v => do pure (roundsToZero p ((← a.getLinear v) - (← b.getLinear v)))) = .ok true ↔
      ∀ v ∈ a.vars, ∃ x y, lookup a.linAssoc v = some x ∧ lookup b.linAssoc v = some y ∧ roundsToZero p (x - y) = true) := by
    intro hlabs
    rw [allM_eq_true]
    apply forall_congr'; intro v
    apply imp_congr_right; intro hv
    obtain ⟨x, hx, hgx⟩ := getLinear_of_mem ha hv
    obtain ⟨y, hy, hgy⟩ := getLinear_of_mem hb ((hlabs v).mp hv)
    rw [hgx, hgy, bind_ok, bind_ok]
    constructor
    · intro h
      refine ⟨x, y, hx, hy, ?_⟩
      have h' : (Except.ok (roundsToZero p (x - y)) : M Bool) = Except.ok true := h
      cases hr : roundsToZero p (x - y) with
      | true => rfl
      | false => rw [hr] at h'; cases h'
    · intro ⟨x', y', hx', hy', hr⟩
      rw [hx] at hx'; rw [hy] at hy'
      cases hx'; cases hy'
      show (Except.ok (roundsToZero p (x - y)) : M Bool) = Except.ok true
      rw [hr]
  -- the quadratic loop
  have hquad : (allQuadM a.quad fun (u, v, x) => do pure (roundsToZero p (x - (← b.getQuadratic u v)))) = .ok true ↔
      ∀ q ∈ a.quad, ∃ y, quadLookup b.quad q.1 q.2.1 = some y ∧ roundsToZero p (q.2.2 - y) = true := by
    rw [allQuadM_eq_true]
    apply forall_congr'; intro q
    apply imp_congr_right; intro _
    obtain ⟨u, v, x⟩ := q
    show (do pure (roundsToZero p (x - (← b.getQuadratic u v))) : M Bool) = .ok true ↔ _
    unfold getQuadratic
    cases hq : quadLookup b.quad u v with
    | none =>
      constructor
      · intro h; cases h
      · intro ⟨y, hy, _⟩; cases hy
    | some y =>
      constructor
      · intro h
        refine ⟨y, rfl, ?_⟩
        have h' : (Except.ok (roundsToZero p (x - y)) : M Bool) = Except.ok true := h
        cases hr : roundsToZero p (x - y) with
        | true => rfl
        | false => rw [hr] at h'; cases h'
      · intro ⟨y', hy', hr⟩
        cases hy'
        show (Except.ok (roundsToZero p (x - y)) : M Bool) = Except.ok true
        rw [hr]
  rw [hquad]
  constructor
  · intro ⟨hshape, hlabs, hoff, hl, hq⟩
    have hlin' := (hlin hlabs).mp hl
    have hsub : a.quad.map pairOf ⊆ b.quad.map pairOf := by
      intro z hz
      obtain ⟨q, hq', rfl⟩ := List.mem_map.mp hz
      obtain ⟨y, hy, _⟩ := hq q hq'
      exact (quadLookup_isSome_iff b.quad q.1 q.2.1).mp ⟨y, hy⟩
    have hqlen : a.quad.length = b.quad.length := by
      unfold shape at hshape
      exact (Prod.mk.inj hshape).2
    have hperm : List.Perm (a.quad.map pairOf) (b.quad.map pairOf) :=
      (List.subperm_of_subset ha.pairs hsub).perm_of_length_le (by simp [hqlen])
    refine ⟨hlabs, hoff, hlin', ?_, ?_⟩
    · intro u v
      have h1 := quadLookup_isSome_iff a.quad u v
      have h2 := quadLookup_isSome_iff b.quad u v
      have h3 := hperm.mem_iff (a := s(u, v))
      cases ha' : quadLookup a.quad u v with
      | none =>
        cases hb' : quadLookup b.quad u v with
        | none => rfl
        | some y =>
          exfalso
          have : s(u, v) ∈ a.quad.map pairOf := h3.mpr (h2.mp ⟨y, hb'⟩)
          obtain ⟨x, hx⟩ := h1.mpr this
          rw [ha'] at hx; cases hx
      | some x =>
        cases hb' : quadLookup b.quad u v with
        | some y => rfl
        | none =>
          exfalso
          have : s(u, v) ∈ b.quad.map pairOf := h3.mp (h1.mp ⟨x, ha'⟩)
          obtain ⟨y, hy⟩ := h2.mpr this
          rw [hb'] at hy; cases hy
    · intro u v x y hx hy
      rcases quadLookup_some_mem hx with hm | hm
      · obtain ⟨y', hy', hr⟩ := hq _ hm
        simp only [] at hy' hr
        rw [hy] at hy'; cases hy'; exact hr
      · obtain ⟨y', hy', hr⟩ := hq _ hm
        simp only [] at hy' hr
        rw [quadLookup_symm, hy] at hy'; cases hy'; exact hr
  · intro ⟨hlabs, hoff, hl, hpairs, hq⟩
    have hlen := length_of_labels ha hb hlabs
    have hqlen : a.quad.length = b.quad.length := by
      have hperm : List.Perm (a.quad.map pairOf) (b.quad.map pairOf) := by
        rw [List.perm_ext_iff_of_nodup ha.pairs hb.pairs]
        intro z
        induction z using Sym2.ind with
        | _ u v =>
          rw [← quadLookup_isSome_iff, ← quadLookup_isSome_iff]
          have := hpairs u v
          cases h1 : quadLookup a.quad u v with
          | none =>
            cases h2 : quadLookup b.quad u v with
            | none =>
              constructor
              · intro ⟨x, hx⟩; cases hx
              · intro ⟨x, hx⟩; cases hx
            | some y => rw [h1, h2] at this; cases this
          | some x =>
            cases h2 : quadLookup b.quad u v with
            | none => rw [h1, h2] at this; cases this
            | some y => exact ⟨fun _ => ⟨y, rfl⟩, fun _ => ⟨x, rfl⟩⟩
      simpa using hperm.length_eq
    refine ⟨by unfold shape; rw [hlen, hqlen], hlabs, hoff, (hlin hlabs).mpr hl, ?_⟩
    intro q hqm
    obtain ⟨u, v, x⟩ := q
    have hx := quadLookup_of_mem ha.pairs hqm
    have := hpairs u v
    rw [hx] at this
    cases hy : quadLookup b.quad u v with
    | none => rw [hy] at this; cases this
    | some y => exact ⟨y, rfl, hq u v x y hx hy⟩


theorem ite_bindM_eq_true (x : M Bool) (r : M Bool) :
    ((do if (← x) then r else pure false) : M Bool) = .ok true ↔ x = .ok true ∧ r = .ok true := by
  cases x with
  | error e =>
    rw [bind_err]
    constructor
    · intro h; cases h
    · intro h; cases h.1
  | ok b =>
    rw [bind_ok]
    cases b with
    | false =>
      constructor
      · intro h; cases h
      · intro h; cases h.1
    | true =>
      constructor
      · intro h; exact ⟨rfl, h⟩
      · intro h; exact h.2

/-- `a.is_almost_equal(b, places)` (repaired code) is `True` exactly when the canonical forms agree up to rounding -/
theorem modelAlmost_iff_canon (p : Int) (a b : QModel) (ha : WF a) (hb : WF b) :
    modelAlmostWith true true p a (.model b) = .ok true ↔ AlmostCanon p a b := by
  unfold modelAlmostWith
  cases hk : a.kind with
  | bqm vt =>
    simp only []
    rw [catching_eq_true]
    unfold bqmAlmostBody
    simp only [Bool.true_or, if_true]
    rw [ite_bindM_eq_true, allM_eq_true, restAlmost_iff ha hb]
    have avt : ∀ v, a.vartypeOf v = .ok vt := by intro v; unfold vartypeOf; rw [hk]; rfl
    constructor
    · intro ⟨hty, hlab, hoff, hlin, hpairs, hquad⟩
      refine ⟨hlab, ?_, hoff, hlin, hpairs, hquad⟩
      intro v hv
      have hvb := (hlab v).mp hv
      have := hty v hvb
      obtain ⟨t, ht⟩ := vartypeOf_ok hb.types hvb
      rw [ht, bind_ok] at this
      have : t = vt := by simpa [pure, Except.pure] using this
      rw [avt, ht, this]
    · intro h
      refine ⟨?_, h.labels, h.off, h.lin, h.pairs, h.quad⟩
      intro v hvb
      have hv := (h.labels v).mpr hvb
      have := h.types v hv
      rw [avt] at this
      rw [← this, bind_ok]; simp [pure, Except.pure]
  | qm =>
    simp only []
    rw [catching_eq_true]
    unfold qmAlmostBody
    simp only []
    rw [ite_bindM_eq_true, allM_eq_true, restAlmost_iff ha hb]
    constructor
    · intro ⟨hty, hlab, hoff, hlin, hpairs, hquad⟩
      refine ⟨hlab, ?_, hoff, hlin, hpairs, hquad⟩
      intro v hv
      have := hty v hv
      obtain ⟨t, ht⟩ := vartypeOf_ok ha.types hv
      rw [ht, bind_ok] at this
      cases hbt : b.vartypeOf v with
      | error e => rw [hbt, bind_err] at this; cases this
      | ok t' =>
        rw [hbt, bind_ok] at this
        have : t = t' := by simpa [pure, Except.pure] using this
        rw [ht, this]
    · intro h
      refine ⟨?_, h.labels, h.off, h.lin, h.pairs, h.quad⟩
      intro v hv
      obtain ⟨t, ht⟩ := vartypeOf_ok ha.types hv
      have := h.types v hv
      rw [ht] at this
      rw [ht, ← this, bind_ok, bind_ok]; simp [pure, Except.pure]
  | view =>
    simp only []
    rw [catching_eq_true]
    unfold qmAlmostBody
    simp only []
    rw [ite_bindM_eq_true, allM_eq_true, restAlmost_iff ha hb]
    constructor
    · intro ⟨hty, hlab, hoff, hlin, hpairs, hquad⟩
      refine ⟨hlab, ?_, hoff, hlin, hpairs, hquad⟩
      intro v hv
      have := hty v hv
      obtain ⟨t, ht⟩ := vartypeOf_ok ha.types hv
      rw [ht, bind_ok] at this
      cases hbt : b.vartypeOf v with
      | error e => rw [hbt, bind_err] at this; cases this
      | ok t' =>
        rw [hbt, bind_ok] at this
        have : t = t' := by simpa [pure, Except.pure] using this
        rw [ht, this]
    · intro h
      refine ⟨?_, h.labels, h.off, h.lin, h.pairs, h.quad⟩
      intro v hv
      obtain ⟨t, ht⟩ := vartypeOf_ok ha.types hv
      have := h.types v hv
      rw [ht] at this
      rw [ht, ← this, bind_ok, bind_ok]; simp [pure, Except.pure]

/-- `is_almost_equal` never raises either -/
theorem modelAlmost_total (p : Int) (self : QModel) (other : Obj) : ∃ b, modelAlmostWith true true p self other = .ok b := by
  unfold modelAlmostWith
  cases self.kind <;> exact catching_true_ok _

/-- Python's `round` on an exact value: zero iff within half a unit of the last place -/
theorem roundsToZero_nonneg (p : Nat) (d : Rat) : roundsToZero (p : Int) d = true ↔ absR d * pow10 p ≤ 1 / 2 := by
  unfold roundsToZero
  simp


/-! ### `ConstrainedQuadraticModel.is_equal` -/

structure CqmWFv (c : CqmVal) : Prop where
  obj : WF c.obj
  cons : ∀ d ∈ c.cons, WF d.lhs
  labels : (c.cons.map (·.label)).Nodup
  vars : (c.vars.map Prod.fst).Nodup

/-- same variables with the same types, equal objectives, the same constraint labels, and under each label
    the same sense, the same right-hand side and equal left-hand sides -/
structure CqmCanonEq (a b : CqmVal) : Prop where
  obj : CanonEq a.obj b.obj
  vars : ∀ v, lookup a.vars v = lookup b.vars v
  cons : ∀ l, match findCons a.cons l, findCons b.cons l with
    | some c, some d => c.sense = d.sense ∧ c.rhs = d.rhs ∧ CanonEq c.lhs d.lhs
    | none, none => True
    | _, _ => False

theorem allConsM_eq_true (l : List CCons) (f : CCons → M Bool) :
    allConsM l f = .ok true ↔ ∀ c ∈ l, f c = .ok true := by
  induction l with
  | nil => simp [allConsM, pure, Except.pure]
  | cons a t ih =>
    unfold allConsM
    cases hfa : f a with
    | error e =>
      simp only [bind_err]
      constructor
      · intro h; cases h
      · intro h; have := h a List.mem_cons_self; rw [hfa] at this; cases this
    | ok b =>
      simp only [bind_ok]
      cases b with
      | false =>
        simp only [Bool.false_eq_true, if_false, pure, Except.pure]
        constructor
        · intro h; cases h
        · intro h; have := h a List.mem_cons_self; rw [hfa] at this; cases this
      | true =>
        simp only [if_true, ih]
        constructor
        · intro h v hv
          rcases List.mem_cons.mp hv with rfl | hv
          · exact hfa
          · exact h v hv
        · intro h v hv; exact h v (List.mem_cons_of_mem _ hv)

theorem findCons_some {l : List CCons} {lbl : Label} {c : CCons} (h : findCons l lbl = some c) : c ∈ l ∧ c.label = lbl := by
  unfold findCons at h
  exact ⟨List.mem_of_find?_eq_some h, by simpa using List.find?_some h⟩

theorem findCons_of_mem {l : List CCons} (hnd : (l.map (·.label)).Nodup) {c : CCons} (hc : c ∈ l) :
    findCons l c.label = some c := by
  induction l with
  | nil => cases hc
  | cons a t ih =>
    rw [List.map_cons, List.nodup_cons] at hnd
    unfold findCons
    rw [List.find?_cons]
    rcases List.mem_cons.mp hc with rfl | hmem
    · simp
    · have : a.label ≠ c.label := by
        intro h; apply hnd.1; rw [h]; exact List.mem_map.mpr ⟨c, hmem, rfl⟩
      simp only [this, decide_false]
      exact ih hnd.2 hmem

theorem findCons_none_iff {l : List CCons} {lbl : Label} : findCons l lbl = none ↔ ∀ c ∈ l, c.label ≠ lbl := by
  unfold findCons
  rw [List.find?_eq_none]
  simp

theorem varsEq_iff {a b : CqmVal} (ha : (a.vars.map Prod.fst).Nodup) (hb : (b.vars.map Prod.fst).Nodup) :
    varsEq a b = true ↔ ∀ v, lookup a.vars v = lookup b.vars v := by
  unfold varsEq
  rw [Bool.and_eq_true, List.all_eq_true, List.all_eq_true]
  constructor
  · intro ⟨h1, h2⟩ v
    cases hav : lookup a.vars v with
    | some t =>
      have := h1 (v, t) (lookup_some_mem hav)
      simp only [decide_eq_true_eq] at this
      exact this.symm
    | none =>
      cases hbv : lookup b.vars v with
      | none => rfl
      | some t =>
        have := h2 (v, t) (lookup_some_mem hbv)
        rw [hav] at this; cases this
  · intro h
    refine ⟨?_, ?_⟩
    · intro p hp
      simp only [decide_eq_true_eq]
      rw [← h p.1]; exact lookup_of_mem_nodup ha hp
    · intro p hp
      rw [h p.1, lookup_of_mem_nodup hb hp]; rfl

/-- `cqm.is_equal(other_cqm)` (repaired code) is `True` exactly when the canonical forms agree -/
theorem cqmIsEqual_iff_canon (a b : CqmVal) (ha : CqmWFv a) (hb : CqmWFv b) :
    cqmIsEqualWith true true true a (.cqm b) = .ok true ↔ CqmCanonEq a b := by
  unfold cqmIsEqualWith
  simp only [Bool.true_and]
  -- the body of the per-constraint test
  have perCons : ∀ c ∈ a.cons, ∀ d, findCons b.cons c.label = some d →
      ((do if c.sense ≠ d.sense then pure false else
            if !(← modelIsEqualWith true c.lhs (.model d.lhs)) then pure false else pure (decide (c.rhs = d.rhs)) : M Bool) = .ok true
        ↔ c.sense = d.sense ∧ c.rhs = d.rhs ∧ CanonEq c.lhs d.lhs) := by
    intro c hc d hd
    have hdm := (findCons_some hd).1
    by_cases hs : c.sense = d.sense
    swap
    · rw [if_pos hs]
      constructor
      · intro h; cases h
      · intro h; exact absurd h.1 hs
    · rw [if_neg (not_not.mpr hs)]
      obtain ⟨r, hr⟩ := modelIsEqual_total c.lhs (.model d.lhs) (by intro o h; cases h; exact (hb.cons d hdm).types)
      have hiff := modelIsEqual_iff_canon c.lhs d.lhs (ha.cons c hc) (hb.cons d hdm)
      rw [hr, bind_ok]
      cases r with
      | false =>
        constructor
        · intro h; cases h
        · intro h; have := hiff.mpr h.2.2; rw [hr] at this; cases this
      | true =>
        have hce := hiff.mp hr
        constructor
        · intro h
          have h' : (Except.ok (decide (c.rhs = d.rhs)) : M Bool) = Except.ok true := h
          refine ⟨hs, ?_, hce⟩
          by_cases hrr : c.rhs = d.rhs
          · exact hrr
          · rw [decide_eq_false hrr] at h'; cases h'
        · intro h
          show (Except.ok (decide (c.rhs = d.rhs)) : M Bool) = Except.ok true
          rw [decide_eq_true h.2.1]
  obtain ⟨r0, hr0⟩ := modelIsEqual_total a.obj (.model b.obj) (by intro o h; cases h; exact hb.obj.types)
  have hobj := modelIsEqual_iff_canon a.obj b.obj ha.obj hb.obj
  rw [hr0, bind_ok]
  cases r0 with
  | false =>
    constructor
    · intro h; cases h
    · intro h; have := hobj.mpr h.obj; rw [hr0] at this; cases this
  | true =>
    have hoc := hobj.mp hr0
    simp only [Bool.not_true, Bool.false_eq_true, if_false]
    by_cases hv : varsEq a b = true
    swap
    · have hv' : varsEq a b = false := by simpa using hv
      simp only [hv', Bool.not_false, if_true]
      constructor
      · intro h; cases h
      · intro h; exact absurd ((varsEq_iff ha.vars hb.vars).mpr h.vars) hv
    · have hvars := (varsEq_iff ha.vars hb.vars).mp hv
      simp only [hv, Bool.not_true, Bool.false_eq_true, if_false]
      by_cases hk : keysEq a.cons b.cons = true
      swap
      · have hk' : keysEq a.cons b.cons = false := by simpa using hk
        simp only [hk', Bool.not_false, if_true]
        constructor
        · intro h; cases h
        · intro h
          exfalso; apply hk
          unfold keysEq
          rw [Bool.and_eq_true, List.all_eq_true, List.all_eq_true]
          constructor
          · intro c hc
            have := h.cons c.label
            rw [findCons_of_mem ha.labels hc] at this
            cases hf : findCons b.cons c.label with
            | none => rw [hf] at this; exact this.elim
            | some d =>
              rw [List.any_eq_true]
              exact ⟨d, (findCons_some hf).1, by simpa using (findCons_some hf).2⟩
          · intro d hd
            have := h.cons d.label
            rw [findCons_of_mem hb.labels hd] at this
            cases hf : findCons a.cons d.label with
            | none => rw [hf] at this; exact this.elim
            | some c =>
              rw [List.any_eq_true]
              exact ⟨c, (findCons_some hf).1, by simpa using (findCons_some hf).2⟩
      · simp only [hk, Bool.not_true, Bool.false_eq_true, if_false]
        rw [allConsM_eq_true]
        constructor
        · intro hall
          refine ⟨hoc, hvars, ?_⟩
          intro l
          cases hfa : findCons a.cons l with
          | some c =>
            obtain ⟨hc, hcl⟩ := findCons_some hfa
            obtain ⟨d, hd⟩ := findCons_of_keysEq hk hc
            rw [hcl] at hd
            rw [hd]
            have := hall c hc
            rw [hcl, hd] at this
            simp only [] at this ⊢
            exact (perCons c hc d (by rw [hcl]; exact hd)).mp this
          | none =>
            cases hfb : findCons b.cons l with
            | none => trivial
            | some d =>
              exfalso
              obtain ⟨hd, hdl⟩ := findCons_some hfb
              unfold keysEq at hk
              rw [Bool.and_eq_true, List.all_eq_true, List.all_eq_true] at hk
              have := hk.2 d hd
              rw [List.any_eq_true] at this
              obtain ⟨c, hc, hcl⟩ := this
              have hcl' : c.label = d.label := by simpa using hcl
              exact (findCons_none_iff.mp hfa) c hc (hcl'.trans hdl)
        · intro h c hc
          have := h.cons c.label
          rw [findCons_of_mem ha.labels hc] at this
          cases hd : findCons b.cons c.label with
          | none => rw [hd] at this; exact this.elim
          | some d =>
            rw [hd] at this
            simp only [] at this ⊢
            exact (perCons c hc d hd).mpr this

end Eqm
