import DimodProofs.JsonValue

/-! # `json.loads` rejects every proper prefix of a text that starts with `[`, `{` or `"`

The scanners are *extension stable*: a successful scan of a self-delimiting value (string, array,
object), or of a number that is followed by a character which cannot continue it, is unchanged by
appending more input.  Together with the round trip this gives: no proper prefix of a dumped array /
object / string parses. -/

namespace FileFmt

theorem consTo_some {c : Char} {o : Option (List Char × List Char)} {s r : List Char} (h : consTo c o = some (s, r)) :
    ∃ s', o = some (s', r) ∧ s = c :: s' := by
  cases o with
  | none => simp [consTo] at h
  | some p => obtain ⟨a, b⟩ := p; simp [consTo] at h; exact ⟨a, by rw [h.2], h.1.symm⟩

theorem consTo_ext {c : Char} {o o' : Option (List Char × List Char)} {s r ys : List Char}
    (h : consTo c o = some (s, r)) (ih : ∀ s' r', o = some (s', r') → o' = some (s', r' ++ ys)) :
    consTo c o' = some (s, r ++ ys) := by
  obtain ⟨s', ho, rfl⟩ := consTo_some h
  rw [ih s' r ho]; rfl

/-- strings: scanning stops at the closing quote, whatever follows -/
theorem scanString_stable : ∀ (t : List Char) (s r : List Char), scanString t = some (s, r) →
    ∀ ys, scanString (t ++ ys) = some (s, r ++ ys) := by
  intro t
  induction t using scanString.induct
  case case6 a b c2 d n hn hr b1 u1 e1 f1 g1 h1 rest3 hb n2 hn2 hneg _ =>
    intro s r h ys
    rw [scanString.eq_def] at h
    simp only [hn, hr, hb, hn2, hneg, and_self, if_true, if_false, show ('\\' : Char) ≠ '"' by decide,
      show ('u' : Char) = 'u' from rfl] at h
    simp at h
  all_goals (intro s r h ys; rw [scanString.eq_def] at h ⊢; simp only [List.cons_append, List.nil_append] at h ⊢; simp_all)
  case case5 ih => exact consTo_ext h (fun s' r' ho => ih s' r' ho ys)
  case case10 => omega
  case case11 ih =>
    rename_i n _ h1 h2
    have c1 : ¬ (55296 ≤ n ∧ n ≤ 56319) := by omega
    have c2 : ¬ (56320 ≤ n ∧ n ≤ 57343) := by omega
    simp only [c1, c2, if_false] at h ⊢
    exact consTo_ext h (fun s' r' ho => ih s' r' ho ys)
  case case13 ih => exact consTo_ext h (fun s' r' ho => ih s' r' ho ys)
  case case16 ih => exact consTo_ext h (fun s' r' ho => ih s' r' ho ys)

/-! ## numbers: stable when followed by a character that cannot continue them -/

/-- the rest starts with a character that is not a digit, `.`, `e` or `E` -/
def Stop (r : List Char) : Prop := ∃ c t, r = c :: t ∧ isDigit c = false ∧ c ≠ '.' ∧ c ≠ 'e' ∧ c ≠ 'E'

theorem span_ext (p : Char → Bool) : ∀ (t ys : List Char), t.dropWhile p ≠ [] →
    (t ++ ys).takeWhile p = t.takeWhile p ∧ (t ++ ys).dropWhile p = t.dropWhile p ++ ys
  | [], _, h => by simp at h
  | c :: t, ys, h => by
    by_cases hc : p c = true
    · simp only [List.dropWhile_cons, hc, if_true] at h
      have := span_ext p t ys h
      simp [List.takeWhile_cons, List.dropWhile_cons, hc, this.1, this.2]
    · simp [List.takeWhile_cons, List.dropWhile_cons, hc]

theorem scanIntPart_ext (cs ys ip t1 : List Char) (h : scanIntPart cs = some (ip, t1)) (hne : t1 ≠ []) :
    scanIntPart (cs ++ ys) = some (ip, t1 ++ ys) := by
  cases cs with
  | nil => simp [scanIntPart] at h
  | cons c t =>
    simp only [scanIntPart, List.cons_append] at h ⊢
    by_cases h0 : c = '0'
    · simp only [h0, if_true, Option.some.injEq, Prod.mk.injEq] at h ⊢
      obtain ⟨rfl, rfl⟩ := h; simp
    · simp only [h0, if_false] at h ⊢
      by_cases hd : isDigit c = true
      · simp only [hd, if_true, Option.some.injEq, Prod.mk.injEq] at h ⊢
        obtain ⟨rfl, rfl⟩ := h
        have := span_ext isDigit t ys hne
        simp [this.1, this.2]
      · simp [hd] at h

theorem scanFrac_ext (cs ys a b : List Char) (h : scanFrac cs = (a, b)) (hne : b ≠ []) (hdot : b.head? ≠ some '.') :
    scanFrac (cs ++ ys) = (a, b ++ ys) := by
  match cs, h with
  | [], h => simp [scanFrac] at h; exact (hne (by first | exact h.2 | exact h.2.symm)).elim
  | [c], h =>
    simp only [scanFrac, Prod.mk.injEq] at h
    obtain ⟨rfl, rfl⟩ := h
    have hc : c ≠ '.' := by intro e; subst e; simp at hdot
    cases ys with
    | nil => simp [scanFrac]
    | cons y t => simp [scanFrac, hc]
  | c :: d :: t, h =>
    simp only [scanFrac, List.cons_append] at h ⊢
    by_cases hc : c = '.' ∧ isDigit d = true
    · simp only [hc, and_self, if_true, Prod.mk.injEq] at h ⊢
      obtain ⟨rfl, rfl⟩ := h
      have := span_ext isDigit t ys hne
      simp [this.1, this.2]
    · simp only [hc, if_false, Prod.mk.injEq] at h ⊢
      obtain ⟨rfl, rfl⟩ := h
      simp

theorem stop_head {r : List Char} (h : Stop r) : ∀ c, r.head? = some c → isDigit c = false ∧ c ≠ '.' ∧ c ≠ 'e' ∧ c ≠ 'E' := by
  obtain ⟨c, t, rfl, h1, h2, h3, h4⟩ := h
  intro c' hc; simp at hc; subst hc; exact ⟨h1, h2, h3, h4⟩

theorem scanExp_ext (cs ys a b : List Char) (h : scanExp cs = (a, b)) (hs : Stop b) : scanExp (cs ++ ys) = (a, b ++ ys) := by
  obtain ⟨c0, t0, hb, hstop⟩ := hs
  have hne : b ≠ [] := by rw [hb]; simp
  match cs, h with
  | [], h => simp [scanExp] at h; exact (hne (by first | exact h.2 | exact h.2.symm)).elim
  | [c], h =>
    simp only [scanExp, Prod.mk.injEq] at h
    obtain ⟨rfl, rfl⟩ := h
    simp only [List.cons.injEq] at hb
    obtain ⟨rfl, _⟩ := hb
    rw [scanExp_none (([c] : List Char) ++ ys) (fun x hx => by simp at hx; subst hx; exact ⟨hstop.2.2.1, hstop.2.2.2⟩)]
  | [e, s], h =>
    simp only [scanExp] at h
    by_cases hc : (e = 'e' ∨ e = 'E') ∧ isDigit s = true
    · simp only [hc, and_self, if_true, Prod.mk.injEq] at h
      exact absurd h.2.symm hne
    · simp only [hc, if_false, Prod.mk.injEq] at h
      obtain ⟨rfl, rfl⟩ := h
      simp only [List.cons.injEq] at hb
      obtain ⟨rfl, _⟩ := hb
      rw [scanExp_none (([e, s] : List Char) ++ ys) (fun x hx => by simp at hx; subst hx; exact ⟨hstop.2.2.1, hstop.2.2.2⟩)]
  | e :: s :: d :: t, h =>
    simp only [scanExp, List.cons_append] at h ⊢
    by_cases h1 : (e = 'e' ∨ e = 'E') ∧ (s = '-' ∨ s = '+') ∧ isDigit d = true
    · simp only [h1, and_self, if_true, Prod.mk.injEq] at h ⊢
      obtain ⟨rfl, rfl⟩ := h
      have := span_ext isDigit t ys hne
      simp [this.1, this.2]
    · simp only [h1, if_false] at h ⊢
      by_cases h2 : (e = 'e' ∨ e = 'E') ∧ isDigit s = true
      · simp only [h2, and_self, if_true, Prod.mk.injEq] at h ⊢
        obtain ⟨rfl, rfl⟩ := h
        have := span_ext isDigit (d :: t) ys hne
        simp only [List.cons_append] at this
        simp [this.1, this.2]
      · simp only [h2, if_false, Prod.mk.injEq] at h ⊢
        obtain ⟨rfl, rfl⟩ := h
        simp

theorem scanExp_rest_suffix (cs : List Char) : (scanExp cs).2 ≠ [] → cs ≠ [] := by
  intro h e; subst e; simp [scanExp] at h

theorem scanFrac_rest_ne (cs : List Char) : (scanFrac cs).2 ≠ [] → cs ≠ [] := by
  intro h e; subst e; simp [scanFrac] at h

theorem isPrefixOf_append (p xs ys : List Char) (h : p.isPrefixOf xs = true) : p.isPrefixOf (xs ++ ys) = true := by
  rw [List.isPrefixOf_iff_prefix] at h ⊢
  exact h.trans (List.prefix_append _ _)

theorem drop_append_prefix (p xs ys : List Char) (h : p.isPrefixOf xs = true) : (xs ++ ys).drop p.length = xs.drop p.length ++ ys := by
  rw [List.isPrefixOf_iff_prefix] at h
  rw [List.drop_append_of_le_length h.length_le]

theorem scanIntPart_none_ext (c : Char) (t ys : List Char) (h : scanIntPart (c :: t) = none) : scanIntPart (c :: (t ++ ys)) = none := by
  simp only [scanIntPart] at h ⊢
  by_cases h0 : c = '0'
  · simp [h0] at h
  · by_cases hd : isDigit c = true
    · simp [h0, hd] at h
    · simp [h0, hd]

/-- a number followed by a stopping character is scanned the same whatever comes after -/
theorem scanNumber_stable (xs ys : List Char) (v : JVal) (r : List Char) (h : scanNumber xs = some (v, r)) (hs : Stop r) :
    scanNumber (xs ++ ys) = some (v, r ++ ys) := by
  have hxs : xs ≠ [] := by
    intro e; subst e; simp [scanNumber, scanIntPart, cNaN, cInf] at h
  obtain ⟨x0, xt, rfl⟩ := List.exists_cons_of_ne_nil hxs
  unfold scanNumber at h ⊢
  simp only [List.cons_append, List.head?_cons] at h ⊢
  by_cases hneg : x0 = '-'
  · subst hneg
    simp only [decide_true, if_true, List.drop_succ_cons, List.drop_zero] at h ⊢
    cases hi : scanIntPart xt with
    | some p =>
      obtain ⟨ip, t1⟩ := p
      rw [hi] at h
      simp only at h
      -- all intermediate rests are non-empty because the final one is
      have hr : (scanExp (scanFrac t1).2).2 = r := by
        split at h <;> simp only [Option.some.injEq, Prod.mk.injEq] at h <;> exact h.2
      have hs' : Stop (scanExp (scanFrac t1).2).2 := hr ▸ hs
      obtain ⟨c0, t0, hb, _⟩ := hs'
      have hne2 : (scanFrac t1).2 ≠ [] := scanExp_rest_suffix _ (by rw [hb]; simp)
      have hne1 : t1 ≠ [] := scanFrac_rest_ne _ hne2
      have hdot : (scanFrac t1).2.head? ≠ some '.' := by
        intro hd
        have := scanExp_none (scanFrac t1).2 (fun c hc => by rw [hd] at hc; simp at hc; subst hc; exact ⟨by decide, by decide⟩)
        have hh := stop_head (hr ▸ hs : Stop (scanExp (scanFrac t1).2).2)
        rw [this] at hh
        exact (hh '.' hd).2.1 rfl
      have e1 := scanIntPart_ext xt ys ip t1 hi hne1
      have e2 := scanFrac_ext t1 ys (scanFrac t1).1 (scanFrac t1).2 rfl hne2 hdot
      have e3 := scanExp_ext (scanFrac t1).2 ys (scanExp (scanFrac t1).2).1 (scanExp (scanFrac t1).2).2 rfl (hr ▸ hs)
      rw [e1]
      simp only [e2, e3]
      split at h <;> rename_i hc <;> simp only [hc, Bool.false_eq_true, if_true, if_false] <;>
        simp only [Option.some.injEq, Prod.mk.injEq] at h ⊢ <;> exact ⟨h.1, by rw [h.2]⟩
    | none =>
      rw [hi] at h
      simp only at h
      have hi2 : scanIntPart (xt ++ ys) = none := by
        cases xt with
        | nil => simp [cNaN, cInf, List.isPrefixOf] at h
        | cons c t => exact scanIntPart_none_ext c t ys hi
      rw [hi2]
      simp only
      have n1 : cNaN.isPrefixOf ('-' :: xt) = false := by simp [cNaN, List.isPrefixOf]
      have n2 : cInf.isPrefixOf ('-' :: xt) = false := by simp [cInf, List.isPrefixOf]
      have n1' : cNaN.isPrefixOf ('-' :: (xt ++ ys)) = false := by simp [cNaN, List.isPrefixOf]
      have n2' : cInf.isPrefixOf ('-' :: (xt ++ ys)) = false := by simp [cInf, List.isPrefixOf]
      simp only [n1, n2, n1', n2', Bool.false_eq_true, if_false, Bool.true_and] at h ⊢
      by_cases hp : cInf.isPrefixOf xt = true
      · simp only [hp, if_true, Option.some.injEq, Prod.mk.injEq] at h
        simp only [isPrefixOf_append _ _ ys hp, if_true, Option.some.injEq, Prod.mk.injEq]
        refine ⟨h.1, ?_⟩
        have := drop_append_prefix cInf xt ys hp
        simp only [cInf, List.length_cons, List.length_nil] at this
        rw [← h.2]
        simpa using this
      · simp [hp] at h
  · have hn : ¬ (some x0 = some '-') := by simpa using hneg
    simp only [hn, decide_false, Bool.false_eq_true, if_false, Bool.false_and] at h ⊢
    cases hi : scanIntPart (x0 :: xt) with
    | some p =>
      obtain ⟨ip, t1⟩ := p
      rw [hi] at h
      simp only at h
      have hr : (scanExp (scanFrac t1).2).2 = r := by
        split at h <;> simp only [Option.some.injEq, Prod.mk.injEq] at h <;> exact h.2
      have hs' : Stop (scanExp (scanFrac t1).2).2 := hr ▸ hs
      obtain ⟨c0, t0, hb, _⟩ := hs'
      have hne2 : (scanFrac t1).2 ≠ [] := scanExp_rest_suffix _ (by rw [hb]; simp)
      have hne1 : t1 ≠ [] := scanFrac_rest_ne _ hne2
      have hdot : (scanFrac t1).2.head? ≠ some '.' := by
        intro hd
        have := scanExp_none (scanFrac t1).2 (fun c hc => by rw [hd] at hc; simp at hc; subst hc; exact ⟨by decide, by decide⟩)
        have hh := stop_head (hr ▸ hs : Stop (scanExp (scanFrac t1).2).2)
        rw [this] at hh
        exact (hh '.' hd).2.1 rfl
      have e1 := scanIntPart_ext (x0 :: xt) ys ip t1 hi hne1
      have e2 := scanFrac_ext t1 ys (scanFrac t1).1 (scanFrac t1).2 rfl hne2 hdot
      have e3 := scanExp_ext (scanFrac t1).2 ys (scanExp (scanFrac t1).2).1 (scanExp (scanFrac t1).2).2 rfl (hr ▸ hs)
      simp only [List.cons_append] at e1
      rw [e1]
      simp only [e2, e3]
      split at h <;> rename_i hc <;> simp only [hc, Bool.false_eq_true, if_true, if_false] <;>
        simp only [Option.some.injEq, Prod.mk.injEq] at h ⊢ <;> exact ⟨h.1, by rw [h.2]⟩
    | none =>
      rw [hi] at h
      simp only at h
      have hi2 : scanIntPart (x0 :: (xt ++ ys)) = none := scanIntPart_none_ext x0 xt ys hi
      rw [hi2]
      simp only
      by_cases hp1 : cNaN.isPrefixOf (x0 :: xt) = true
      · simp only [hp1, if_true, Option.some.injEq, Prod.mk.injEq] at h
        have := isPrefixOf_append _ _ ys hp1
        simp only [List.cons_append] at this
        simp only [this, if_true, Option.some.injEq, Prod.mk.injEq]
        refine ⟨h.1, ?_⟩
        have hd := drop_append_prefix cNaN (x0 :: xt) ys hp1
        simp only [cNaN, List.length_cons, List.length_nil, List.cons_append] at hd
        rw [← h.2]; simpa using hd
      · simp only [hp1, Bool.false_eq_true, if_false] at h
        have hp1' : cNaN.isPrefixOf (x0 :: (xt ++ ys)) = false := by
          cases hq : cNaN.isPrefixOf (x0 :: (xt ++ ys)) with
          | false => rfl
          | true =>
            exfalso
            -- "NaN" is a prefix of the extension but not of xs: then xs is shorter than 3 and a prefix of "NaN"; but then it parsed as nothing
            by_cases hp2 : cInf.isPrefixOf (x0 :: xt) = true
            · simp only [cNaN, cInf, List.isPrefixOf, Bool.and_eq_true, beq_iff_eq] at hq hp2
              have e1 := hq.1; have e2 := hp2.1
              rw [← e1] at e2; exact absurd e2 (by decide)
            · simp [hp2] at h
        by_cases hp2 : cInf.isPrefixOf (x0 :: xt) = true
        · simp only [hp2, if_true, Option.some.injEq, Prod.mk.injEq] at h
          have := isPrefixOf_append _ _ ys hp2
          simp only [List.cons_append] at this
          simp only [hp1', Bool.false_eq_true, if_false, this, if_true, Option.some.injEq, Prod.mk.injEq]
          refine ⟨h.1, ?_⟩
          have hd := drop_append_prefix cInf (x0 :: xt) ys hp2
          simp only [cInf, List.length_cons, List.length_nil, List.cons_append] at hd
          rw [← h.2]; simpa using hd
        · simp [hp2] at h

/-! ## values and arrays -/

theorem skipWs_ext (t ys : List Char) (h : skipWs t ≠ []) : skipWs (t ++ ys) = skipWs t ++ ys :=
  (span_ext isWs t ys h).2

theorem ws_stop (c : Char) (t : List Char) (h : isWs c = true) : Stop (c :: t) := by
  refine ⟨c, t, rfl, ?_⟩
  unfold isWs at h
  simp at h
  rcases h with ((rfl | rfl) | rfl) | rfl <;> decide

/-- what follows an array element (blanks, then `,` or `]`) stops a number -/
theorem stop_of_skipWs (r : List Char) (d : Char) (r2 : List Char) (h : skipWs r = d :: r2) (hd : d = ',' ∨ d = ']') : Stop r := by
  cases r with
  | nil => simp [skipWs] at h
  | cons c t =>
    by_cases hc : isWs c = true
    · exact ws_stop c t hc
    · have : skipWs (c :: t) = c :: t := by simp [skipWs, List.dropWhile_cons, hc]
      rw [this] at h
      simp only [List.cons.injEq] at h
      obtain ⟨rfl, _⟩ := h
      refine ⟨c, t, rfl, ?_⟩
      rcases hd with rfl | rfl <;> decide

def SelfDelim (xs : List Char) : Prop := xs.head? = some '"' ∨ xs.head? = some '['

theorem scan_stable : ∀ (f : Nat),
    (∀ xs v r, scanOnce f xs = some (v, r) → (SelfDelim xs ∨ Stop r) → ∀ f', f ≤ f' → ∀ ys, scanOnce f' (xs ++ ys) = some (v, r ++ ys)) ∧
    (∀ xs vs r, scanElems f xs = some (vs, r) → ∀ f', f ≤ f' → ∀ ys, scanElems f' (xs ++ ys) = some (vs, r ++ ys)) := by
  intro f
  induction f with
  | zero => exact ⟨fun xs v r h => by simp [scanOnce] at h, fun xs vs r h => by simp [scanElems] at h⟩
  | succ f ih =>
    obtain ⟨ihO, ihE⟩ := ih
    constructor
    · intro xs v r h hsd f' hf' ys
      obtain ⟨g, rfl⟩ : ∃ g, f' = g + 1 := ⟨f' - 1, by omega⟩
      have hg : f ≤ g := by omega
      cases xs with
      | nil => simp [scanOnce] at h
      | cons c t =>
        simp only [scanOnce, List.cons_append] at h ⊢
        by_cases hq : c = '"'
        · simp only [hq, if_true] at h ⊢
          cases hs : scanString t with
          | none => simp [hs] at h
          | some p =>
            obtain ⟨s, r'⟩ := p
            simp only [hs, Option.some.injEq, Prod.mk.injEq] at h
            obtain ⟨rfl, rfl⟩ := h
            simp [scanString_stable t s r' hs ys]
        · simp only [hq, if_false] at h ⊢
          by_cases hb : c = '['
          · simp only [hb, if_true] at h ⊢
            cases hw : skipWs t with
            | nil => simp [hw] at h
            | cons d t2 =>
              rw [skipWs_ext t ys (by rw [hw]; simp), hw]
              simp only [hw, List.cons_append] at h ⊢
              by_cases hd : d = ']'
              · simp only [hd, if_true, Option.some.injEq, Prod.mk.injEq] at h ⊢
                obtain ⟨rfl, rfl⟩ := h; simp
              · simp only [hd, if_false] at h ⊢
                cases he : scanElems f (d :: t2) with
                | none => simp [he] at h
                | some p =>
                  obtain ⟨vs, r'⟩ := p
                  simp only [he, Option.some.injEq, Prod.mk.injEq] at h
                  obtain ⟨rfl, rfl⟩ := h
                  have := ihE (d :: t2) vs r' he g hg ys
                  simp only [List.cons_append] at this
                  simp [this]
          · simp only [hb, if_false] at h ⊢
            have hstop : Stop r := by
              rcases hsd with hsd | hsd
              · rcases hsd with hsd | hsd
                · simp at hsd; exact absurd hsd hq
                · simp at hsd; exact absurd hsd hb
              · exact hsd
            have := scanNumber_stable (c :: t) ys v r h hstop
            simpa using this
    · intro xs vs r h f' hf' ys
      obtain ⟨g, rfl⟩ : ∃ g, f' = g + 1 := ⟨f' - 1, by omega⟩
      have hg : f ≤ g := by omega
      simp only [scanElems] at h ⊢
      cases ho : scanOnce f xs with
      | none => simp [ho] at h
      | some p =>
        obtain ⟨v, r1⟩ := p
        simp only [ho] at h
        cases hw : skipWs r1 with
        | nil => simp [hw] at h
        | cons d r2 =>
          simp only [hw] at h
          by_cases hc : d = ','
          · simp only [hc, if_true] at h
            have hst : Stop r1 := stop_of_skipWs r1 d r2 hw (.inl hc)
            rw [ihO xs v r1 ho (.inr hst) g hg ys]
            simp only
            rw [skipWs_ext r1 ys (by rw [hw]; simp), hw]
            simp only [List.cons_append, hc, if_true]
            cases he : scanElems f (skipWs r2) with
            | none => simp [he] at h
            | some p2 =>
              obtain ⟨vs', r3⟩ := p2
              simp only [he, Option.some.injEq, Prod.mk.injEq] at h
              obtain ⟨rfl, rfl⟩ := h
              have hne : skipWs r2 ≠ [] := by
                intro e; rw [e] at he
                cases f with
                | zero => simp [scanElems] at he
                | succ k => cases k <;> simp [scanElems, scanOnce] at he
              rw [skipWs_ext r2 ys hne, ihE (skipWs r2) vs' r3 he g hg ys]
          · simp only [hc, if_false] at h
            by_cases hb : d = ']'
            · simp only [hb, if_true, Option.some.injEq, Prod.mk.injEq] at h
              obtain ⟨rfl, rfl⟩ := h
              have hst : Stop r1 := stop_of_skipWs r1 d r2 hw (.inr hb)
              rw [ihO xs v r1 ho (.inr hst) g hg ys]
              simp only
              rw [skipWs_ext r1 ys (by rw [hw]; simp), hw]
              simp [hb]
            · simp [hb] at h

/-- **no proper prefix parses**: if the text `T` of a string or array scans completely to a value,
    `json.loads` rejects every proper prefix of `T` -/
theorem loadsJ_prefix_none (T : List Char) (v : JVal) (hT : SelfDelim T) (hfull : scanOnce (T.length + 1) T = some (v, []))
    (k : Nat) (hk : k < T.length) : loadsJ (T.take k) = none := by
  unfold loadsJ
  cases T with
  | nil => simp at hk
  | cons c t =>
    cases k with
    | zero => simp [skipWs, scanOnce]
    | succ k =>
      have hc : isWs c = false := by
        rcases hT with h | h <;> simp at h <;> subst h <;> decide
      have hsk : skipWs ((c :: t).take (k + 1)) = (c :: t).take (k + 1) := by
        simp [skipWs, List.dropWhile_cons, hc]
      rw [hsk]
      cases hs : scanOnce (((c :: t).take (k + 1)).length + 1) ((c :: t).take (k + 1)) with
      | none => rfl
      | some p =>
        exfalso
        obtain ⟨v', r⟩ := p
        have hsd : SelfDelim ((c :: t).take (k + 1)) := by
          rcases hT with h | h
          · left; simpa using h
          · right; simpa using h
        have hlen : ((c :: t).take (k + 1)).length + 1 ≤ (c :: t).length + 1 := by
          simp only [List.length_take]; omega
        have := (scan_stable _).1 _ v' r hs (.inl hsd) ((c :: t).length + 1) hlen ((c :: t).drop (k + 1))
        rw [List.take_append_drop, hfull] at this
        simp only [Option.some.injEq, Prod.mk.injEq] at this
        have h2 : r ++ (c :: t).drop (k + 1) = [] := this.2.symm
        have h3 : (c :: t).drop (k + 1) = [] := (List.append_eq_nil_iff.mp h2).2
        have := List.drop_eq_nil_iff.mp h3
        omega

/-- every proper prefix of a dumped array (or string) is rejected, with or without the `/` escape -/
theorem loadsJ_dumps_prefix_none (esc : Bool) (v : JVal) (hv : JOK v) (hsd : SelfDelim (dumpsE esc v))
    (k : Nat) (hk : k < (dumpsE esc v).length) : loadsJ ((dumpsE esc v).take k) = none := by
  have hfull := scan_value esc v hv ((dumpsE esc v).length + 1) [] (by have := sizeJ_le_length esc v hv; omega)
    (by intro c hc; simp at hc)
  rw [List.append_nil] at hfull
  exact loadsJ_prefix_none _ v hsd hfull k hk

end FileFmt
