import DimodProofs.LpDec
import DimodProofs.LpVars

/-! C12: the text-level round trip without the per-token oracle.

`loads_dumps` (LpLexer) assumes `TokTextOK` of every token the writer emits: numbers print as words that parse back,
labels are words that are not words of the grammar.  Here both are *derived* from the model:
* numbers: every coefficient, right-hand side and bound with a terminating decimal expansion of at most 60 places
  (`Dec60`; every dyadic rational `k / 2^j`, `j ≤ 60`, in particular) is read back exactly (`LpDec`);
* labels: a label `_validate_label` accepts is a blank-free word and — over the label tables regenerated from
  `dimod/lp.py` — is none of the 17 words of the writer's grammar, with the single exception of the string `To`, which
  the grammar only treats as a keyword directly after `Subject` and which is excluded by hypothesis. -/

namespace Lp

/-- of the words of the writer's grammar only `To` passes `_validate_label` (needs `subject` among the reserved words) -/
theorem specials_invalid : ∀ w ∈ specials, w = "To" ∨ validLabel (.str w) = false := by decide +kernel

/-- **a valid label is not a word of the grammar** (other than `To`) -/
theorem classify_other_of_valid (s : String) (h : validLabel (.str s) = true) (hne : s ≠ "To") : classify s = .other := by
  rcases classify_other_or_special s with h1 | h1
  · exact h1
  · rcases specials_invalid s h1 with h2 | h2
    · exact absurd h2 hne
    · rw [h2] at h; cases h

/-- a label the writer accepts and that is not the string `To` -/
def GoodLabel (l : Label) : Prop := validLabel l = true ∧ l ≠ .str "To"

theorem goodLabel_str (l : Label) (h : GoodLabel l) : ∃ s, l = .str s ∧ Word s ∧ classify s = .other := by
  obtain ⟨hv, hne⟩ := h
  cases l with
  | str s =>
    refine ⟨s, rfl, word_of_validLabel s hv, classify_other_of_valid s hv ?_⟩
    intro hs; exact hne (by rw [hs])
  | int n => simp [validLabel] at hv
  | tup t => simp [validLabel] at hv

theorem validLabel_str (l : Label) (hv : validLabel l = true) : ∃ s, l = .str s ∧ Word s := by
  cases l with
  | str s => exact ⟨s, rfl, word_of_validLabel s hv⟩
  | int n => simp [validLabel] at hv
  | tup t => simp [validLabel] at hv

/-! ### one token at a time -/

theorem tok_lin_ok (b : Rat) (v : Label) (hb : Dec60 b) (hv : GoodLabel v) : TokTextOK (.lin b v) := by
  obtain ⟨s, rfl, hw, hc⟩ := goodLabel_str v hv
  obtain ⟨w1, p1⟩ := parseDec_showAbs b hb
  exact ⟨⟨w1, hw⟩, ⟨p1, s, rfl, hc⟩⟩

theorem tok_qterm_ok (b : Rat) (u v : Label) (hb : Dec60 b) (hu : GoodLabel u) (hv : GoodLabel v) : TokTextOK (.qterm b u v) := by
  obtain ⟨s, rfl, hw, hc⟩ := goodLabel_str u hu
  obtain ⟨s', rfl, hw', hc'⟩ := goodLabel_str v hv
  obtain ⟨w1, p1⟩ := parseDec_showAbs b hb
  exact ⟨⟨w1, hw, hw'⟩, ⟨p1, ⟨s, rfl, hc⟩, ⟨s', rfl, hc'⟩⟩⟩

theorem tok_const_ok (b : Rat) (hb : Dec60 b) : TokTextOK (.const b) := by
  obtain ⟨w1, p1⟩ := parseDec_showAbs b hb
  exact ⟨w1, p1⟩

theorem tok_clabel_ok (l : Label) (hv : validLabel l = true) : TokTextOK (.clabel l) := by
  obtain ⟨s, rfl, hw⟩ := validLabel_str l hv
  exact ⟨hw, s, rfl⟩

theorem tok_cmp_ok (sn : Sense) (q : Rat) (hq : Dec60 q) : TokTextOK (.cmp sn q) := by
  obtain ⟨w1, p1⟩ := parseDec_showFloat q hq
  exact ⟨w1, p1⟩

theorem tok_bound_ok (lb ub : Rat) (v : Label) (hl : Dec60 lb) (hu : Dec60 ub) (hv : validLabel v = true) : TokTextOK (.bound lb v ub) := by
  obtain ⟨s, rfl, hw⟩ := validLabel_str v hv
  obtain ⟨w1, p1⟩ := parseDec_showFloat lb hl
  obtain ⟨w2, p2⟩ := parseDec_showFloat ub hu
  exact ⟨⟨w1, hw, w2⟩, ⟨p1, p2, s, rfl⟩⟩

theorem tok_name_ok (v : Label) (hv : GoodLabel v) : TokTextOK (.name v) := by
  obtain ⟨s, rfl, hw, hc⟩ := goodLabel_str v hv
  exact ⟨hw, s, rfl, hc⟩

/-! ### the numbers and labels of a model -/

/-- every number the writer prints for `m` has a terminating decimal expansion (≤ 60 places) -/
structure NumsOK (m : LCqm) : Prop where
  objLin : ∀ p ∈ m.obj.lin, Dec60 p.2
  objQuad : ∀ q ∈ m.obj.quad, Dec60 (2 * q.2.2)
  objOff : Dec60 m.obj.off
  conLin : ∀ c ∈ m.cons, ∀ p ∈ c.lhs.lin, Dec60 p.2
  conQuad : ∀ c ∈ m.cons, ∀ q ∈ c.lhs.quad, Dec60 q.2.2
  conRhs : ∀ c ∈ m.cons, Dec60 (c.rhs - c.lhs.off)
  bounds : ∀ v ∈ m.vars, Dec60 v.lb ∧ Dec60 v.ub

/-- expressions mention only variables of the model, and no variable is called `To` -/
structure NamesOK (m : LCqm) : Prop where
  objLin : ∀ p ∈ m.obj.lin, ∃ v ∈ m.vars, v.name = p.1
  objQuad : ∀ q ∈ m.obj.quad, (∃ v ∈ m.vars, v.name = q.1) ∧ (∃ v ∈ m.vars, v.name = q.2.1)
  conLin : ∀ c ∈ m.cons, ∀ p ∈ c.lhs.lin, ∃ v ∈ m.vars, v.name = p.1
  conQuad : ∀ c ∈ m.cons, ∀ q ∈ c.lhs.quad, (∃ v ∈ m.vars, v.name = q.1) ∧ (∃ v ∈ m.vars, v.name = q.2.1)
  notTo : ∀ v ∈ m.vars, v.name ≠ .str "To"

theorem chk_none (vs : List LVar) (h : dumpToks.chk vs = none) : ∀ v ∈ vs, validLabel v.name = true := by
  intro v hv
  by_contra hb
  have hb' : validLabel v.name = false := by simpa using hb
  obtain ⟨r, hr⟩ := chk_some vs v hv (Or.inl hb')
  rw [h] at hr; cases hr

/-- what an accepted model looks like: its labels are valid and its tokens are the seven groups -/
theorem dumpToks_ok_inv (m : LCqm) (ts : List Tok) (h : dumpToks m = .ok ts) :
    (∀ c ∈ m.cons, validLabel c.label = true) ∧ (∀ v ∈ m.vars, validLabel v.name = true) ∧
    ts = objToks m.obj ++ [Tok.blank2, Tok.subjectTo] ++ m.cons.flatMap conToks ++
           [Tok.nl, Tok.bounds] ++ boundToks m.vars ++ sectionToks m.vars ++ [Tok.nl, Tok.end_] := by
  unfold dumpToks at h
  split at h
  · cases h
  · split at h
    · cases h
    · rename_i h1 h2
      split at h
      · cases h
      · rename_i hc
        simp only [Except.ok.injEq] at h
        refine ⟨?_, chk_none m.vars hc, h.symm⟩
        intro c hcm
        have := h2
        simp only [Bool.not_eq_true, Classical.not_not] at this
        have hall : (m.cons.all fun c => validLabel c.label) = true := by
          by_contra hx
          exact h2 (by simpa using hx)
        exact List.all_eq_true.mp hall c hcm

theorem mem_linToks (l : List (Label × Rat)) (t : Tok) (ht : t ∈ linToks l) : ∃ p ∈ l, t = .lin p.2 p.1 := by
  unfold linToks at ht
  obtain ⟨p, hp, rfl⟩ := List.mem_map.mp ht
  exact ⟨p, (List.mem_filter.mp hp).1, rfl⟩

theorem mem_hdr (body : List Tok) (t : Tok) (ht : t ∈ (if body.isEmpty then [] else [Tok.minimize, Tok.objLabel] ++ body)) :
    t = .minimize ∨ t = .objLabel ∨ t ∈ body := by
  split at ht
  · cases ht
  · simp only [List.mem_append, List.mem_cons, List.not_mem_nil, or_false] at ht
    rcases ht with (rfl | rfl) | h
    · left; rfl
    · right; left; rfl
    · right; right; exact h

theorem mem_qblock (qs : List (Label × Label × Rat)) (f : Label × Label × Rat → Tok) (close : Tok) (t : Tok)
    (ht : t ∈ (if qs.isEmpty then [] else [Tok.qopen] ++ qs.map f ++ [close])) : t = .qopen ∨ (∃ q ∈ qs, t = f q) ∨ t = close := by
  split at ht
  · cases ht
  · simp only [List.mem_append, List.mem_cons, List.not_mem_nil, or_false, List.mem_map] at ht
    rcases ht with (rfl | ⟨q, hq, rfl⟩) | rfl
    · left; rfl
    · right; left; exact ⟨q, hq, rfl⟩
    · right; right; rfl

theorem mem_objToks (e : LExpr) (t : Tok) (ht : t ∈ objToks e) :
    t = .minimize ∨ t = .objLabel ∨ t ∈ linToks e.lin ∨ t = .qopen ∨ (∃ q ∈ e.quad, t = .qterm (2 * q.2.2) q.1 q.2.1) ∨
    t = .qcloseHalf ∨ t = .const e.off := by
  have hobj : objToks e =
      (if (linToks e.lin ++ (if e.quad.isEmpty then [] else [Tok.qopen] ++ e.quad.map (fun (u, v, b) => Tok.qterm (2 * b) u v) ++ [Tok.qcloseHalf]) ++
            (if e.off = 0 then [] else [Tok.const e.off])).isEmpty then []
       else [Tok.minimize, Tok.objLabel] ++
          (linToks e.lin ++ (if e.quad.isEmpty then [] else [Tok.qopen] ++ e.quad.map (fun (u, v, b) => Tok.qterm (2 * b) u v) ++ [Tok.qcloseHalf]) ++
            (if e.off = 0 then [] else [Tok.const e.off]))) := rfl
  rw [hobj] at ht
  rcases mem_hdr _ t ht with h | h | h
  · left; exact h
  · right; left; exact h
  · rcases List.mem_append.mp h with h | h
    · rcases List.mem_append.mp h with h | h
      · right; right; left; exact h
      · rcases mem_qblock e.quad _ _ t h with h | ⟨q, hq, rfl⟩ | h
        · right; right; right; left; exact h
        · right; right; right; right; left; exact ⟨q, hq, rfl⟩
        · right; right; right; right; right; left; exact h
    · split at h
      · cases h
      · simp only [List.mem_cons, List.not_mem_nil, or_false] at h
        right; right; right; right; right; right; exact h

theorem structural_ok (t : Tok)
    (h : t = .minimize ∨ t = .objLabel ∨ t = .qopen ∨ t = .qcloseHalf ∨ t = .qclose ∨ t = .blank2 ∨ t = .subjectTo ∨
         t = .nl ∨ t = .bounds ∨ t = .section false ∨ t = .section true ∨ t = .end_) : TokTextOK t := by
  rcases h with rfl | rfl | rfl | rfl | rfl | rfl | rfl | rfl | rfl | rfl | rfl | rfl <;> exact ⟨trivial, trivial⟩

/-- **every token of an accepted model satisfies the text oracle**, given terminating decimals and well-scoped names -/
theorem tokTextOK_of_model (m : LCqm) (ts : List Tok) (h : dumpToks m = .ok ts) (hn : NumsOK m) (hl : NamesOK m) :
    ∀ t ∈ ts, TokTextOK t := by
  obtain ⟨hcl, hvl, rfl⟩ := dumpToks_ok_inv m ts h
  have good : ∀ l, (∃ v ∈ m.vars, v.name = l) → GoodLabel l := by
    rintro l ⟨v, hv, rfl⟩
    exact ⟨hvl v hv, hl.notTo v hv⟩
  intro t ht
  simp only [List.mem_append, List.mem_cons, List.not_mem_nil, or_false, List.mem_flatMap] at ht
  rcases ht with ((((((ht | ht) | ht) | ht) | ht) | ht) | ht)
  · -- objective
    rcases mem_objToks m.obj t ht with rfl | rfl | h1 | rfl | ⟨q, hq, rfl⟩ | rfl | rfl
    · exact structural_ok _ (by simp)
    · exact structural_ok _ (by simp)
    · obtain ⟨p, hp, rfl⟩ := mem_linToks _ t h1
      exact tok_lin_ok _ _ (hn.objLin p hp) (good _ (hl.objLin p hp))
    · exact structural_ok _ (by simp)
    · exact tok_qterm_ok _ _ _ (hn.objQuad _ hq) (good _ (hl.objQuad _ hq).1) (good _ (hl.objQuad _ hq).2)
    · exact structural_ok _ (by simp)
    · exact tok_const_ok _ hn.objOff
  · exact structural_ok t (by rcases ht with rfl | rfl <;> simp)
  · -- constraints
    obtain ⟨c, hc, htc⟩ := ht
    unfold conToks at htc
    simp only [List.mem_append, List.mem_cons, List.not_mem_nil, or_false] at htc
    rcases htc with ((rfl | htc) | htc) | rfl
    · exact tok_clabel_ok _ (hcl c hc)
    · obtain ⟨p, hp, rfl⟩ := mem_linToks _ t htc
      exact tok_lin_ok _ _ (hn.conLin c hc p hp) (good _ (hl.conLin c hc p hp))
    · rcases mem_qblock c.lhs.quad _ _ t htc with rfl | ⟨q, hq, rfl⟩ | rfl
      · exact structural_ok _ (by simp)
      · exact tok_qterm_ok _ _ _ (hn.conQuad c hc _ hq) (good _ (hl.conQuad c hc _ hq).1) (good _ (hl.conQuad c hc _ hq).2)
      · exact structural_ok _ (by simp)
    · exact tok_cmp_ok _ _ (hn.conRhs c hc)
  · exact structural_ok t (by rcases ht with rfl | rfl <;> simp)
  · -- bounds
    unfold boundToks at ht
    obtain ⟨v, hv, rfl⟩ := List.mem_map.mp ht
    have hvm := (List.mem_filter.mp hv).1
    exact tok_bound_ok _ _ _ (hn.bounds v hvm).1 (hn.bounds v hvm).2 (hvl v hvm)
  · -- Binary / General sections
    unfold sectionToks at ht
    simp only [List.mem_append, List.mem_cons, List.not_mem_nil, or_false, List.mem_map] at ht
    rcases ht with (((rfl | rfl) | ⟨v, hv, rfl⟩) | (rfl | rfl)) | ⟨v, hv, rfl⟩
    · exact structural_ok _ (by simp)
    · exact structural_ok _ (by simp)
    · exact tok_name_ok _ (good _ ⟨v, (List.mem_filter.mp hv).1, rfl⟩)
    · exact structural_ok _ (by simp)
    · exact structural_ok _ (by simp)
    · exact tok_name_ok _ (good _ ⟨v, (List.mem_filter.mp hv).1, rfl⟩)
  · exact structural_ok t (by rcases ht with rfl | rfl <;> simp)

/-- **text-level round trip, closed**: for every model the writer accepts whose numbers are terminating decimals and
    whose expressions mention only its own variables, none of them called `To`, the specification reader reads the
    dumped text — line breaks, number formatting and tokenisation included — back as the model's normal form -/
theorem loads_dumps_closed (m : LCqm) (text : String) (h : dumps m = .ok text) (hn : NumsOK m) (hl : NamesOK m) :
    loads text = some (normCqm m) :=
  loads_dumps m text h (fun ts hts => tokTextOK_of_model m ts hts hn hl)

end Lp
