import DimodProofs.SampleSet

/-! `argsort` is a sorting permutation; a sorting permutation of tie-free keys is unique. -/

namespace SSM

theorem map_snd_zipIdx (l : List α) (k : Nat) : (l.zipIdx k).map (·.2) = List.range' k l.length := by
  rw [List.zipIdx_eq_zip_range']
  exact List.map_snd_zip (by simp)

/-- `p` is a permutation of the positions of `keys` that puts the keys in `le`-order -/
def IsSortingPerm (le : α → α → Prop) (keys : List α) (p : List Nat) : Prop :=
  p.Perm (List.range keys.length) ∧ (gather keys p).Pairwise le

theorem argsortBy_perm (le : α → α → Bool) (keys : List α) :
    (argsortBy le keys).Perm (List.range keys.length) := by
  unfold argsortBy
  have h := (List.mergeSort_perm keys.zipIdx (fun a b => le a.1 b.1)).map (·.2)
  rw [map_snd_zipIdx, ← List.range_eq_range'] at h
  exact h

theorem argsortBy_lt (le : α → α → Bool) (keys : List α) : ∀ i ∈ argsortBy le keys, i < keys.length := by
  intro i hi
  have := (argsortBy_perm le keys).mem_iff.mp hi
  simpa using this

theorem mem_zipIdx_getElem? {l : List α} {p : α × Nat} (h : p ∈ l.zipIdx) : l[p.2]? = some p.1 := by
  obtain ⟨x, i⟩ := p
  have := List.mem_zipIdx h
  simp only [Nat.zero_le, Nat.zero_add, Nat.sub_zero, true_and] at this
  obtain ⟨hi, hx⟩ := this
  simp [List.getElem?_eq_getElem hi, hx]

theorem gather_map_snd (keys : List α) (ps : List (α × Nat)) (h : ∀ p ∈ ps, keys[p.2]? = some p.1) :
    gather keys (ps.map (·.2)) = ps.map (·.1) := by
  induction ps with
  | nil => rfl
  | cons p ps ih =>
    simp only [List.map_cons, gather_cons, h p (by simp)]
    rw [ih (fun q hq => h q (by simp [hq]))]

theorem argsortBy_sorted (le : α → α → Bool)
    (trans : ∀ a b c, le a b = true → le b c = true → le a c = true)
    (total : ∀ a b, (le a b || le b a) = true) (keys : List α) :
    (gather keys (argsortBy le keys)).Pairwise (fun a b => le a b = true) := by
  unfold argsortBy
  have hs := List.pairwise_mergeSort (le := fun (a b : α × Nat) => le a.1 b.1)
    (fun a b c => trans a.1 b.1 c.1) (fun a b => total a.1 b.1) keys.zipIdx
  rw [gather_map_snd keys _ (fun p hp => mem_zipIdx_getElem? ((List.mergeSort_perm _ _).mem_iff.mp hp))]
  exact List.pairwise_map.mpr hs

theorem argsortBy_isSortingPerm (le : α → α → Bool)
    (trans : ∀ a b c, le a b = true → le b c = true → le a c = true)
    (total : ∀ a b, (le a b || le b a) = true) (keys : List α) :
    IsSortingPerm (fun a b => le a b = true) keys (argsortBy le keys) :=
  ⟨argsortBy_perm le keys, argsortBy_sorted le trans total keys⟩

/-- selecting with a permutation of the positions permutes the list -/
theorem gather_perm (l : List α) (p : List Nat) (hp : p.Perm (List.range l.length)) : (gather l p).Perm l := by
  cases l with
  | nil =>
    have : p = [] := by simpa using hp.length_eq
    simp [this]
  | cons d t =>
    have hlt : ∀ i ∈ p, i < (d :: t).length := fun i hi => by simpa using hp.mem_iff.mp hi
    rw [gather_eq_map _ _ hlt d]
    have h2 := hp.map (fun i => (d :: t).getD i d)
    refine h2.trans ?_
    rw [← gather_eq_map (d :: t) (List.range (d :: t).length) (by simp) d, gather_range]

/-- with antisymmetric order on tie-free keys the sorting permutation is unique -/
theorem sortingPerm_unique [BEq α] [LawfulBEq α] (le : α → α → Prop)
    (antisymm : ∀ a b, le a b → le b a → a = b) (keys : List α) (hk : keys.Nodup)
    (p q : List Nat) (hp : IsSortingPerm le keys p) (hq : IsSortingPerm le keys q) : p = q := by
  cases keys with
  | nil =>
    have h1 : p = [] := by simpa using hp.1.length_eq
    have h2 : q = [] := by simpa using hq.1.length_eq
    rw [h1, h2]
  | cons d t =>
    generalize hkeys : d :: t = keys at *
    have hpl : ∀ i ∈ p, i < keys.length := fun i hi => by simpa using hp.1.mem_iff.mp hi
    have hql : ∀ i ∈ q, i < keys.length := fun i hi => by simpa using hq.1.mem_iff.mp hi
    have hps := hp.2; have hqs := hq.2
    rw [gather_eq_map _ _ hpl d, List.pairwise_map] at hps
    rw [gather_eq_map _ _ hql d, List.pairwise_map] at hqs
    refine List.Perm.eq_of_pairwise (le := fun i j => le (keys.getD i d) (keys.getD j d)) ?_ hps hqs (hp.1.trans hq.1.symm)
    intro i j hi hj hij hji
    have e := antisymm _ _ hij hji
    have hi' := hpl i hi; have hj' := hql j hj
    simp only [List.getD, List.getElem?_eq_getElem hi', List.getElem?_eq_getElem hj', Option.getD_some] at e
    have := hk.idxOf_getElem i hi'
    rw [← hk.idxOf_getElem i hi', ← hk.idxOf_getElem j hj', e]

end SSM

namespace SSM

theorem argsort_isSortingPerm (keys : List Rat) : IsSortingPerm (· ≤ ·) keys (argsort keys) := by
  have hs := argsortBy_isSortingPerm (fun (a b : Rat) => decide (a ≤ b))
    (fun a b c => by simp only [decide_eq_true_eq]; exact Rat.le_trans)
    (fun a b => by simp only [Bool.or_eq_true, decide_eq_true_eq]; exact Rat.le_total) keys
  exact ⟨hs.1, hs.2.imp (fun h => by simpa using h)⟩

theorem argsort_lt (keys : List Rat) : ∀ i ∈ argsort keys, i < keys.length := argsortBy_lt _ keys

end SSM
