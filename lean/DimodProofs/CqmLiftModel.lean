import DimodProofs.CqmLiftViews

/-! Building a CQM from **models** at label level (property C05): the expression that `set_objective(model)`,
    `add_constraint(model | comparison, copy=…)` and the `add_discrete` forms install *is the model's polynomial keyed by
    its labels* — on the copy path and on the move path alike — the missing variables are appended with the model's type
    and bounds, and a model whose variables conflict with the CQM's is rejected with nothing changed. -/

namespace CqmP
open Expr Cqm

/-- default label of `List.getD` on label lists -/
abbrev dl : Label := .int 0

/-! ### the specification -/

/-- the polynomial a handed-over model denotes, as the sum of its terms (the order `add_constraint(…, copy=True)` adds
    them in): the linear biases, the interactions, the offset.  `vtOf` gives the type of a label (a self-loop folds by it) -/
def LPoly.ofModelFold (vtOf : Label → VT4) (mi : ModelIn) : LPoly :=
  (mi.quad.foldl (fun p t => p.addQuadratic (vtOf (mi.vars.getD t.1 dl)) (mi.vars.getD t.1 dl) (mi.vars.getD t.2.1 dl) t.2.2)
    ((mi.vars.zip mi.lin).foldl (fun p x => p.addLinear x.1 x.2) LPoly.empty)).addOffset mi.off

/-- the linear bias the model has for label `l` (labels are distinct: at most one summand) -/
def linOf (mi : ModelIn) (l : Label) : Rat := ((mi.vars.zip mi.lin).map fun x => if x.1 = l then x.2 else 0).sum

/-- the quadratic bias the model has for the pair {x, y} (a QM stores a pair once: at most one summand) -/
def quadOf (mi : ModelIn) (x y : Label) : Rat :=
  (mi.quad.map fun t =>
    if (x = mi.vars.getD t.1 dl ∧ y = mi.vars.getD t.2.1 dl) ∨ (x = mi.vars.getD t.2.1 dl ∧ y = mi.vars.getD t.1 dl) then t.2.2 else 0).sum

/-- **the model's polynomial keyed by its labels**: its variables in its own order, its biases, its offset -/
def LPoly.ofModel (mi : ModelIn) : LPoly := { vars := mi.vars, lin := linOf mi, quad := quadOf mi, off := mi.off }

/-! ### an expression is determined by its accessors -/

theorem absExpr_congr (L : List Label) {e e' : Expr} (hv : e.vars = e'.vars) (hl : ∀ g, e.linear g = e'.linear g)
    (hq : ∀ g h, e.quadratic g h = e'.quadratic g h) (ho : e.qb.off = e'.qb.off) : absExpr L e = absExpr L e' := by
  unfold absExpr
  simp only [LPoly.mk.injEq]
  refine ⟨by rw [hv], ?_, ?_, ho⟩
  · funext x; cases findIdx x L 0 with
    | none => rfl
    | some g => exact hl g
  · funext x y
    cases findIdx x L 0 with
    | none => rfl
    | some g => cases findIdx y L 0 with
      | none => rfl
      | some h => exact hq g h

/-! ### the copy path, term by term -/

/-- `gs` maps the model's variables to the CQM's indices of the same labels -/
def MapsTo (L : List Label) (gs : List Nat) (vs : List Label) : Prop := List.Forall₂ (fun g v => L[g]? = some v) gs vs

theorem MapsTo.get {L : List Label} {gs : List Nat} {vs : List Label} (h : MapsTo L gs vs) :
    gs.length = vs.length ∧ ∀ i, i < gs.length → L[gs.getD i 0]? = some (vs.getD i dl) := by
  induction h with
  | nil => exact ⟨rfl, fun i hi => absurd hi (Nat.not_lt_zero _)⟩
  | cons hab _ ih =>
    refine ⟨by simp [ih.1], ?_⟩
    intro i hi
    cases i with
    | zero => simpa using hab
    | succ k =>
      have := ih.2 k (by simpa using hi)
      simpa using this

structure BuildInv (L : List Label) (e : Expr) : Prop where
  wf : ExprWF e
  sorted : ExprSorted e
  inn : ExprIn L.length e

theorem absExpr_linFold {L : List Label} (hnd : L.Nodup) {gs : List Nat} {vs : List Label} (hm : MapsTo L gs vs) :
    ∀ (lin : List Rat) (e : Expr), BuildInv L e →
      BuildInv L ((gs.zip lin).foldl (fun e p => e.addLinear p.1 p.2) e)
      ∧ absExpr L ((gs.zip lin).foldl (fun e p => e.addLinear p.1 p.2) e)
          = (vs.zip lin).foldl (fun p x => p.addLinear x.1 x.2) (absExpr L e) := by
  induction hm with
  | nil => intro lin e h; exact ⟨h, rfl⟩
  | @cons g v gs' vs' hab _ ih =>
    intro lin e h
    cases lin with
    | nil => exact ⟨h, rfl⟩
    | cons b lin' =>
      simp only [List.zip_cons_cons, List.foldl_cons]
      have h1 : BuildInv L (e.addLinear g b) :=
        ⟨addLinear_wf h.wf g b, addLinear_sorted h.sorted g b, addLinear_in h.inn (lt_of_getElem? hab) b⟩
      obtain ⟨i1, i2⟩ := ih lin' _ h1
      exact ⟨i1, by rw [i2, absExpr_addLinear hnd h.wf h.inn hab]⟩

theorem absExpr_quadFold {L : List Label} (hnd : L.Nodup) (vt : List VT4) (vtOf : Label → VT4)
    (hvt : ∀ g l, L[g]? = some l → vtOf l = vt.getD g .binary) {gs : List Nat} {vs : List Label}
    (hget : ∀ i, i < gs.length → L[gs.getD i 0]? = some (vs.getD i dl)) :
    ∀ (quad : List (Nat × Nat × Rat)), (∀ t ∈ quad, t.1 < gs.length ∧ t.2.1 < gs.length) → ∀ (e : Expr), BuildInv L e →
      BuildInv L (quad.foldl (fun e t => e.addQuadratic vt (gs.getD t.1 0) (gs.getD t.2.1 0) t.2.2) e)
      ∧ absExpr L (quad.foldl (fun e t => e.addQuadratic vt (gs.getD t.1 0) (gs.getD t.2.1 0) t.2.2) e)
          = quad.foldl (fun p t => p.addQuadratic (vtOf (vs.getD t.1 dl)) (vs.getD t.1 dl) (vs.getD t.2.1 dl) t.2.2) (absExpr L e) := by
  intro quad
  induction quad with
  | nil => intro _ e h; exact ⟨h, rfl⟩
  | cons t ts ih =>
    intro hq e h
    simp only [List.foldl_cons]
    obtain ⟨ht1, ht2⟩ := hq t (List.mem_cons_self)
    have hu := hget _ ht1
    have hv := hget _ ht2
    have h1 : BuildInv L (e.addQuadratic vt (gs.getD t.1 0) (gs.getD t.2.1 0) t.2.2) :=
      ⟨addQuadratic_wf h.wf vt _ _ _, addQuadratic_sorted h.sorted vt _ _ _,
       addQuadratic_in h.inn vt (lt_of_getElem? hu) (lt_of_getElem? hv) _⟩
    obtain ⟨i1, i2⟩ := ih (fun t' ht' => hq t' (List.mem_cons_of_mem _ ht')) _ h1
    refine ⟨i1, ?_⟩
    rw [i2, absExpr_addQuadratic hnd h.wf h.sorted h.inn vt hu hv, hvt _ _ hu]

/-- the copy path builds the sum of the model's terms, keyed by the model's labels -/
theorem absExpr_buildCopy {L : List Label} (hnd : L.Nodup) (vt : List VT4) (vtOf : Label → VT4)
    (hvt : ∀ g l, L[g]? = some l → vtOf l = vt.getD g .binary) {gs : List Nat} {mi : ModelIn} (hm : MapsTo L gs mi.vars)
    (hq : ∀ t ∈ mi.quad, t.1 < mi.vars.length ∧ t.2.1 < mi.vars.length) :
    absExpr L (buildCopy vt gs mi) = LPoly.ofModelFold vtOf mi := by
  unfold Cqm.buildCopy LPoly.ofModelFold
  have h0 : BuildInv L ({} : Expr) := ⟨exprWF_empty, exprSorted_empty, by intro g hg; cases hg⟩
  obtain ⟨i1, i2⟩ := absExpr_linFold hnd hm mi.lin {} h0
  obtain ⟨hlen, hget⟩ := hm.get
  obtain ⟨_, j2⟩ := absExpr_quadFold hnd vt vtOf hvt hget mi.quad (by rw [hlen]; exact hq) _ i1
  rw [absExpr_addOffset, j2, i2, absExpr_empty]


/-! ### the sum of the terms in closed form -/

theorem linFold_closed : ∀ (vs : List Label) (lin : List Rat) (p : LPoly), vs.Nodup → (∀ v ∈ vs, v ∉ p.vars) → lin.length = vs.length →
    ((vs.zip lin).foldl (fun p x => p.addLinear x.1 x.2) p).vars = p.vars ++ vs
    ∧ (∀ x, ((vs.zip lin).foldl (fun p x => p.addLinear x.1 x.2) p).lin x
          = p.lin x + ((vs.zip lin).map fun y => if y.1 = x then y.2 else 0).sum)
    ∧ ((vs.zip lin).foldl (fun p x => p.addLinear x.1 x.2) p).quad = p.quad
    ∧ ((vs.zip lin).foldl (fun p x => p.addLinear x.1 x.2) p).off = p.off := by
  intro vs
  induction vs with
  | nil => intro lin p _ _ _; simp
  | cons v vs' ih =>
    intro lin p hnd hdis hlen
    cases lin with
    | nil => simp at hlen
    | cons b lin' =>
      rw [List.nodup_cons] at hnd
      simp only [List.zip_cons_cons, List.foldl_cons]
      have hv : v ∉ p.vars := hdis v List.mem_cons_self
      have hvars : (p.addLinear v b).vars = p.vars ++ [v] := by
        unfold LPoly.addLinear LPoly.enforce; simp only []; rw [if_neg hv]
      have hdis' : ∀ w ∈ vs', w ∉ (p.addLinear v b).vars := by
        intro w hw
        rw [hvars, List.mem_append, List.mem_singleton]
        rintro (h | h)
        · exact hdis w (List.mem_cons_of_mem _ hw) h
        · subst h; exact hnd.1 hw
      obtain ⟨i1, i2, i3, i4⟩ := ih lin' (p.addLinear v b) hnd.2 hdis' (by simpa using hlen)
      refine ⟨by rw [i1, hvars]; simp, ?_, i3, i4⟩
      intro x
      rw [i2 x]
      simp only [List.map_cons, List.sum_cons]
      show (if x = v then p.lin x + b else p.lin x) + _ = _
      by_cases hx : x = v
      · subst hx; rw [if_pos rfl, if_pos rfl]; ring
      · rw [if_neg hx, if_neg (fun h => hx h.symm)]; ring

theorem getD_mem_of_lt {vs : List Label} {i : Nat} (hi : i < vs.length) : vs.getD i dl ∈ vs := by
  rw [List.getD_eq_getElem?_getD, List.getElem?_eq_getElem hi]; exact List.getElem_mem hi

theorem getD_inj_of_nodup {vs : List Label} (hnd : vs.Nodup) {i j : Nat} (hi : i < vs.length) (hj : j < vs.length)
    (h : vs.getD i dl = vs.getD j dl) : i = j := by
  rw [List.getD_eq_getElem?_getD, List.getD_eq_getElem?_getD, List.getElem?_eq_getElem hi, List.getElem?_eq_getElem hj] at h
  exact (List.Nodup.getElem_inj_iff hnd).mp (by simpa using h)

/-- no self-loop on a BINARY / SPIN variable (a QM / BQM cannot hold one), stated on the model alone -/
def NoSelfLoops (vtOf : Label → VT4) (mi : ModelIn) : Prop :=
  ∀ t ∈ mi.quad, t.1 = t.2.1 → vtOf (mi.vars.getD t.1 dl) ≠ .binary ∧ vtOf (mi.vars.getD t.1 dl) ≠ .spin

theorem quadFold_closed (vtOf : Label → VT4) {vs : List Label} (hnd : vs.Nodup) :
    ∀ (quad : List (Nat × Nat × Rat)) (p : LPoly), (∀ v ∈ vs, v ∈ p.vars) →
    (∀ t ∈ quad, t.1 < vs.length ∧ t.2.1 < vs.length) →
    (∀ t ∈ quad, t.1 = t.2.1 → vtOf (vs.getD t.1 dl) ≠ .binary ∧ vtOf (vs.getD t.1 dl) ≠ .spin) →
    (quad.foldl (fun p t => p.addQuadratic (vtOf (vs.getD t.1 dl)) (vs.getD t.1 dl) (vs.getD t.2.1 dl) t.2.2) p).vars = p.vars
    ∧ (quad.foldl (fun p t => p.addQuadratic (vtOf (vs.getD t.1 dl)) (vs.getD t.1 dl) (vs.getD t.2.1 dl) t.2.2) p).lin = p.lin
    ∧ (quad.foldl (fun p t => p.addQuadratic (vtOf (vs.getD t.1 dl)) (vs.getD t.1 dl) (vs.getD t.2.1 dl) t.2.2) p).off = p.off
    ∧ ∀ x y, (quad.foldl (fun p t => p.addQuadratic (vtOf (vs.getD t.1 dl)) (vs.getD t.1 dl) (vs.getD t.2.1 dl) t.2.2) p).quad x y
        = p.quad x y + (quad.map fun t =>
            if (x = vs.getD t.1 dl ∧ y = vs.getD t.2.1 dl) ∨ (x = vs.getD t.2.1 dl ∧ y = vs.getD t.1 dl) then t.2.2 else 0).sum := by
  intro quad
  induction quad with
  | nil => intro p _ _ _; simp
  | cons t ts ih =>
    intro p hmem hq hself
    simp only [List.foldl_cons]
    obtain ⟨ht1, ht2⟩ := hq t List.mem_cons_self
    have hu : vs.getD t.1 dl ∈ p.vars := hmem _ (getD_mem_of_lt ht1)
    have hv : vs.getD t.2.1 dl ∈ p.vars := hmem _ (getD_mem_of_lt ht2)
    -- one step
    have hvars : (p.addQuadratic (vtOf (vs.getD t.1 dl)) (vs.getD t.1 dl) (vs.getD t.2.1 dl) t.2.2).vars = p.vars := by
      unfold LPoly.addQuadratic LPoly.enforce
      simp only []
      rw [if_pos hv, if_pos hu]
    have hlab : vs.getD t.1 dl = vs.getD t.2.1 dl ↔ t.1 = t.2.1 :=
      ⟨fun h => getD_inj_of_nodup hnd ht1 ht2 h, fun h => by rw [h]⟩
    have hlin : (p.addQuadratic (vtOf (vs.getD t.1 dl)) (vs.getD t.1 dl) (vs.getD t.2.1 dl) t.2.2).lin = p.lin := by
      unfold LPoly.addQuadratic
      simp only []
      funext x
      by_cases hc : vs.getD t.1 dl = vs.getD t.2.1 dl ∧ vtOf (vs.getD t.1 dl) = .binary ∧ x = vs.getD t.1 dl
      · exact absurd hc.2.1 (hself t List.mem_cons_self (hlab.mp hc.1)).1
      · rw [if_neg hc]
    have hoff : (p.addQuadratic (vtOf (vs.getD t.1 dl)) (vs.getD t.1 dl) (vs.getD t.2.1 dl) t.2.2).off = p.off := by
      unfold LPoly.addQuadratic
      simp only []
      by_cases hc : vs.getD t.1 dl = vs.getD t.2.1 dl ∧ vtOf (vs.getD t.1 dl) = .spin
      · exact absurd hc.2 (hself t List.mem_cons_self (hlab.mp hc.1)).2
      · rw [if_neg hc]
    have hquad : ∀ x y, (p.addQuadratic (vtOf (vs.getD t.1 dl)) (vs.getD t.1 dl) (vs.getD t.2.1 dl) t.2.2).quad x y
        = p.quad x y + (if (x = vs.getD t.1 dl ∧ y = vs.getD t.2.1 dl) ∨ (x = vs.getD t.2.1 dl ∧ y = vs.getD t.1 dl) then t.2.2 else 0) := by
      intro x y
      unfold LPoly.addQuadratic
      simp only []
      by_cases hl : vs.getD t.1 dl = vs.getD t.2.1 dl
      · rw [if_pos hl]
        obtain ⟨nb, ns⟩ := hself t List.mem_cons_self (hlab.mp hl)
        rw [← hl]
        by_cases hxy : x = vs.getD t.1 dl ∧ y = vs.getD t.1 dl
        · rw [if_pos ⟨nb, ns, hxy.1, hxy.2⟩, if_pos (Or.inl hxy)]
        · rw [if_neg (fun h => hxy ⟨h.2.2.1, h.2.2.2⟩), if_neg (by rintro (h | h) <;> exact hxy h)]; ring
      · rw [if_neg hl]
        by_cases hc : (x = vs.getD t.1 dl ∧ y = vs.getD t.2.1 dl) ∨ (x = vs.getD t.2.1 dl ∧ y = vs.getD t.1 dl)
        · rw [if_pos hc, if_pos hc]
        · rw [if_neg hc, if_neg hc]; ring
    obtain ⟨i1, i2, i3, i4⟩ := ih _ (by rw [hvars]; exact hmem) (fun t' ht' => hq t' (List.mem_cons_of_mem _ ht'))
      (fun t' ht' => hself t' (List.mem_cons_of_mem _ ht'))
    refine ⟨i1.trans hvars, i2.trans hlin, i3.trans hoff, ?_⟩
    intro x y
    rw [i4 x y, hquad x y]
    simp only [List.map_cons, List.sum_cons]
    ring

/-- **the sum of the model's terms is the model's polynomial** (for a model with distinct labels, one bias per variable,
    terms between its own variables, no self-loop on a BINARY / SPIN variable) -/
theorem ofModelFold_eq_ofModel (vtOf : Label → VT4) {mi : ModelIn} (hmi : ModelInOK mi) (hself : NoSelfLoops vtOf mi) :
    LPoly.ofModelFold vtOf mi = LPoly.ofModel mi := by
  unfold LPoly.ofModelFold LPoly.ofModel LPoly.addOffset
  obtain ⟨a1, a2, a3, a4⟩ := linFold_closed mi.vars mi.lin LPoly.empty hmi.nodup (by intro v _ h; cases h) hmi.lin_len
  obtain ⟨b1, b2, b3, b4⟩ := quadFold_closed vtOf hmi.nodup mi.quad _ (by intro v hv; rw [a1]; exact List.mem_append_right _ hv)
    hmi.quad_lt hself
  simp only [LPoly.mk.injEq]
  refine ⟨by rw [b1, a1]; rfl, ?_, ?_, by rw [b3, a4]; show (0 : Rat) + mi.off = mi.off; ring⟩
  · rw [b2]; funext x; rw [a2 x]; unfold linOf; show (0 : Rat) + _ = _; ring
  · funext x y; rw [b4 x y, a3]; unfold quadOf; show (0 : Rat) + _ = _; ring

/-- …whose linear bias at the model's `i`-th variable is the model's `i`-th linear bias -/
theorem ofModel_lin_at {mi : ModelIn} (hmi : ModelInOK mi) {i : Nat} (hi : i < mi.vars.length) :
    (LPoly.ofModel mi).lin (mi.vars.getD i dl) = mi.lin.getD i 0 := by
  show linOf mi _ = _
  unfold linOf
  have key : ∀ (vs : List Label) (lin : List Rat) (i : Nat), vs.Nodup → lin.length = vs.length → i < vs.length →
      ((vs.zip lin).map fun x => if x.1 = vs.getD i dl then x.2 else 0).sum = lin.getD i 0 := by
    intro vs
    induction vs with
    | nil => intro lin i _ _ hi; cases hi
    | cons v vs' ih =>
      intro lin i hnd hlen hi
      cases lin with
      | nil => simp at hlen
      | cons b lin' =>
        rw [List.nodup_cons] at hnd
        simp only [List.zip_cons_cons, List.map_cons, List.sum_cons]
        cases i with
        | zero =>
          simp only [List.getD_cons_zero, if_true]
          have : ((vs'.zip lin').map fun x => if x.1 = v then x.2 else 0).sum = 0 := by
            apply List.sum_eq_zero
            intro r hr
            obtain ⟨y, hy, rfl⟩ := List.mem_map.mp hr
            rw [if_neg (fun (h : y.1 = v) => hnd.1 (h ▸ (List.of_mem_zip hy).1))]
          rw [this]; ring
        | succ k =>
          simp only [List.getD_cons_succ]
          have hk : k < vs'.length := by simpa using hi
          rw [if_neg (fun (h : v = vs'.getD k dl) => hnd.1 (h ▸ getD_mem_of_lt hk)), ih lin' k hnd.2 (by simpa using hlen) hk]; ring
  exact key mi.vars mi.lin i hmi.nodup hmi.lin_len hi


/-! ### the variables a model brings along -/

theorem LCqm.ext' {s t : LCqm} (h1 : s.labels = t.labels) (h2 : s.info = t.info) (h3 : s.obj = t.obj) (h4 : s.cons = t.cons) :
    s = t := by
  cases s; cases t; simp_all

/-- one variable of an incoming model: nothing if its label is known, else appended with the model's type and bounds -/
def LCqm.addOneVar (s : LCqm) (p : Label × VT4 × Rat × Rat) : LCqm :=
  if p.1 ∈ s.labels then s
  else { s with labels := s.labels ++ [p.1], info := fun x => if x = p.1 then some p.2 else s.info x }

/-- second loop of `add_constraint_from_model` / `set_objective`: the model's variables that the CQM does not have are
    appended, in the model's order, with the model's type and bounds -/
def LCqm.addMissing (s : LCqm) (mi : ModelIn) : LCqm := (mi.vars.zip mi.info).foldl LCqm.addOneVar s

/-- first loop: a variable the CQM already has with another type or other bounds -/
def LCqm.conflicts (s : LCqm) (mi : ModelIn) : Bool :=
  (mi.vars.zip mi.info).any fun p => match s.info p.1 with
    | some i => decide (i ≠ p.2)
    | none => false

theorem mem_of_findIdx {v : Label} {L : List Label} {g : Nat} (h : findIdx v L 0 = some g) : v ∈ L := by
  by_contra hn
  rw [findIdx_none_iff.mpr hn] at h; cases h

theorem absCqm_addOne {m : Cqm} (hwf : CqmWF m) (p : Label × VT4 × Rat × Rat) :
    absCqm (addOne m p) = (absCqm m).addOneVar p := by
  unfold addOne LCqm.addOneVar
  cases hidx : m.idx? p.1 with
  | some g =>
    simp only []
    rw [if_pos (show p.1 ∈ (absCqm m).labels from mem_of_findIdx hidx)]
  | none =>
    simp only []
    have hfresh : p.1 ∉ m.labels := findIdx_none_iff.mp hidx
    rw [if_neg (show p.1 ∉ (absCqm m).labels from hfresh)]
    obtain ⟨a, b, c, d⟩ := absCqm_appendVar hwf p.2.1 p.2.2.1 p.2.2.2 hfresh
    exact LCqm.ext' a (funext b) c d

theorem absCqm_foldl_addOne (l : List (Label × VT4 × Rat × Rat)) : ∀ {m : Cqm}, CqmWF m →
    absCqm (l.foldl addOne m) = l.foldl LCqm.addOneVar (absCqm m) := by
  induction l with
  | nil => intro m _; rfl
  | cons p t ih =>
    intro m h
    rw [List.foldl_cons, List.foldl_cons, ih (addOne_props h p).1, absCqm_addOne h]

theorem absCqm_addMissing {m : Cqm} (hwf : CqmWF m) (mi : ModelIn) :
    absCqm (m.addMissing mi) = (absCqm m).addMissing mi := by
  rw [addMissing_eq]; exact absCqm_foldl_addOne _ hwf

theorem conflicts_abs (m : Cqm) (mi : ModelIn) : m.conflicts mi = (absCqm m).conflicts mi := by
  unfold Cqm.conflicts LCqm.conflicts
  congr 1
  funext p
  obtain ⟨v, vt, lb, ub⟩ := p
  unfold absCqm Cqm.idx?
  simp only []
  cases findIdx v m.labels 0 with
  | none => rfl
  | some g =>
    simp only [Option.map_some]
    rw [Bool.eq_iff_iff]
    simp only [Bool.or_eq_true, decide_eq_true_eq, ne_eq, Prod.mk.injEq, not_and_or]
    exact or_assoc

/-- the domain of `info` is the label list -/
def InfoDom (s : LCqm) : Prop := ∀ x, (s.info x).isSome = true ↔ x ∈ s.labels

theorem infoDom_abs (m : Cqm) : InfoDom (absCqm m) := by
  intro x
  unfold absCqm
  simp only [Option.isSome_map]
  constructor
  · intro h
    cases hf : findIdx x m.labels 0 with
    | none => rw [hf] at h; cases h
    | some g => exact mem_of_findIdx hf
  · intro h
    cases hf : findIdx x m.labels 0 with
    | none => exact absurd h (findIdx_none_iff.mp hf)
    | some g => rfl

theorem addOneVar_props {s : LCqm} (hd : InfoDom s) (p : Label × VT4 × Rat × Rat) :
    InfoDom (s.addOneVar p) ∧ (∀ x, x ∈ s.labels → (s.addOneVar p).info x = s.info x ∧ x ∈ (s.addOneVar p).labels)
    ∧ (p.1 ∉ s.labels → (s.addOneVar p).info p.1 = some p.2)
    ∧ p.1 ∈ (s.addOneVar p).labels
    ∧ (s.addOneVar p).obj = s.obj ∧ (s.addOneVar p).cons = s.cons := by
  unfold LCqm.addOneVar
  by_cases hp : p.1 ∈ s.labels
  · rw [if_pos hp]
    exact ⟨hd, fun x hx => ⟨rfl, hx⟩, fun h => absurd hp h, hp, rfl, rfl⟩
  · rw [if_neg hp]
    refine ⟨?_, ?_, ?_, by simp, rfl, rfl⟩
    · intro x
      simp only [List.mem_append, List.mem_singleton]
      by_cases hx : x = p.1
      · rw [if_pos hx]; simp [hx]
      · rw [if_neg hx, hd x]; simp [hx]
    · intro x hx
      have : x ≠ p.1 := fun h => hp (h ▸ hx)
      simp only []
      rw [if_neg this]
      exact ⟨rfl, List.mem_append_left _ hx⟩
    · intro _; simp

theorem foldl_addOneVar_props (l : List (Label × VT4 × Rat × Rat)) : ∀ {s : LCqm}, InfoDom s →
    InfoDom (l.foldl LCqm.addOneVar s)
    ∧ (∀ x, x ∈ s.labels → (l.foldl LCqm.addOneVar s).info x = s.info x ∧ x ∈ (l.foldl LCqm.addOneVar s).labels)
    ∧ (∀ p ∈ l, p.1 ∈ (l.foldl LCqm.addOneVar s).labels)
    ∧ ((l.map (·.1)).Nodup → ∀ p ∈ l, p.1 ∉ s.labels → (l.foldl LCqm.addOneVar s).info p.1 = some p.2)
    ∧ (l.foldl LCqm.addOneVar s).obj = s.obj ∧ (l.foldl LCqm.addOneVar s).cons = s.cons := by
  induction l with
  | nil => intro s hd; exact ⟨hd, fun x hx => ⟨rfl, hx⟩, (by intro p hp; cases hp), (by intro _ p hp; cases hp), rfl, rfl⟩
  | cons q t ih =>
    intro s hd
    rw [List.foldl_cons]
    obtain ⟨a1, a2, a3, a4, a5, a6⟩ := addOneVar_props hd q
    obtain ⟨b1, b2, b3, b4, b5, b6⟩ := ih a1
    refine ⟨b1, ?_, ?_, ?_, b5.trans a5, b6.trans a6⟩
    · intro x hx
      obtain ⟨c1, c2⟩ := a2 x hx
      obtain ⟨d1, d2⟩ := b2 x c2
      exact ⟨d1.trans c1, d2⟩
    · intro p hp
      rcases List.mem_cons.mp hp with rfl | hp
      · exact (b2 _ a4).2
      · exact b3 p hp
    · intro hnd p hp hfresh
      rw [List.map_cons, List.nodup_cons] at hnd
      rcases List.mem_cons.mp hp with rfl | hp
      · rw [(b2 _ a4).1]; exact a3 hfresh
      · have hne : p.1 ≠ q.1 := fun h => hnd.1 (h ▸ List.mem_map_of_mem hp)
        apply b4 hnd.2 p hp
        -- p.1 is still not a label after the step for q
        intro hmem
        unfold LCqm.addOneVar at hmem
        by_cases hq : q.1 ∈ s.labels
        · rw [if_pos hq] at hmem; exact hfresh hmem
        · rw [if_neg hq] at hmem
          simp only [List.mem_append, List.mem_singleton] at hmem
          rcases hmem with h | h
          · exact hfresh h
          · exact hne h

/-- after the two loops, when nothing conflicts: **every variable of the model is a variable of the CQM with the model's
    type and bounds**; the CQM's own variables keep theirs; objective and constraints are untouched -/
theorem addMissing_spec {s : LCqm} (hd : InfoDom s) {mi : ModelIn} (hmi : ModelInOK mi) (hc : s.conflicts mi = false) :
    (∀ i, i < mi.vars.length → (s.addMissing mi).info (mi.vars.getD i dl) = some (mi.info.getD i (.binary, 0, 0))
        ∧ mi.vars.getD i dl ∈ (s.addMissing mi).labels)
    ∧ (∀ x, x ∈ s.labels → (s.addMissing mi).info x = s.info x ∧ x ∈ (s.addMissing mi).labels)
    ∧ (s.addMissing mi).obj = s.obj ∧ (s.addMissing mi).cons = s.cons ∧ InfoDom (s.addMissing mi) := by
  unfold LCqm.addMissing
  obtain ⟨b1, b2, b3, b4, b5, b6⟩ := foldl_addOneVar_props (mi.vars.zip mi.info) hd
  refine ⟨?_, b2, b5, b6, b1⟩
  intro i hi
  have hi' : i < mi.info.length := by rw [hmi.info_len]; exact hi
  have hz : (mi.vars.zip mi.info)[i]? = some (mi.vars.getD i dl, mi.info.getD i (.binary, 0, 0)) := by
    rw [List.getElem?_zip_eq_some]
    rw [List.getD_eq_getElem?_getD, List.getD_eq_getElem?_getD, List.getElem?_eq_getElem hi, List.getElem?_eq_getElem hi']
    exact ⟨rfl, rfl⟩
  have hmem := mem_of_getElem? hz
  refine ⟨?_, b3 _ hmem⟩
  by_cases hin : mi.vars.getD i dl ∈ s.labels
  · rw [(b2 _ hin).1]
    -- known variable: no conflict means the same type and bounds
    unfold LCqm.conflicts at hc
    rw [List.any_eq_false] at hc
    have := hc _ hmem
    cases hinfo : s.info (mi.vars.getD i dl) with
    | none => exact absurd ((hd _).mpr hin) (by rw [hinfo]; simp)
    | some i' =>
      rw [hinfo] at this
      simp only [ne_eq, decide_not, Bool.not_eq_true', decide_eq_false_iff_not, not_not] at this
      rw [this]
  · apply b4 _ _ hmem hin
    rw [List.map_fst_zip (by rw [hmi.info_len])]
    exact hmi.nodup


/-! ### weight and penalty of a constraint: what `set_weight` accepts -/

/-- `ConstraintView.set_weight(weight, penalty)` accepts: a positive weight (or `None` = hard), and the penalty `'linear'`
    (0), or `'quadratic'` (1) **provided every variable of the constraint is BINARY or SPIN in the model** (the check reads
    the parent model's type of each of the constraint's variables); any other penalty string is rejected -/
def LCqm.weightOK (s : LCqm) (p : LPoly) (weight : Option Rat) (penalty : Nat) : Prop :=
  (∀ w, weight = some w → 0 < w)
  ∧ (penalty = 0 ∨ (penalty = 1 ∧ ∀ l ∈ p.vars, s.vtOf l = .binary ∨ s.vtOf l = .spin))

theorem vtOf_getD {m : Cqm} (hwf : CqmWF m) (hnd : m.labels.Nodup) {g : Nat} (hg : g < m.vt.length) :
    (absCqm m).vtOf (m.labels.getD g dl) = m.vt.getD g .integer := by
  have hgl : g < m.labels.length := by rw [hwf.labels_len]; exact hg
  have h1 : m.labels[g]? = some (m.labels.getD g dl) := by
    rw [List.getD_eq_getElem?_getD, List.getElem?_eq_getElem hgl]; rfl
  unfold LCqm.vtOf absCqm
  simp only []
  rw [findIdx_of_get hnd h1]
  simp only [Option.map_some]
  rw [List.getD_eq_getElem?_getD, List.getD_eq_getElem?_getD, List.getElem?_eq_getElem hg]
  rfl

theorem quadCheck_iff {m : Cqm} (hwf : CqmWF m) (hnd : m.labels.Nodup) {e : Expr} (hin : ExprIn m.vt.length e) :
    (e.vars.all fun g => m.vt.getD g .integer = .binary || m.vt.getD g .integer = .spin) = true
      ↔ ∀ l ∈ (absExpr m.labels e).vars, (absCqm m).vtOf l = .binary ∨ (absCqm m).vtOf l = .spin := by
  unfold absExpr
  simp only [List.all_eq_true, Bool.or_eq_true, decide_eq_true_eq, List.mem_map, forall_exists_index, and_imp,
    forall_apply_eq_imp_iff₂]
  constructor
  · intro h g hg; rw [vtOf_getD hwf hnd (hin g hg)]; exact h g hg
  · intro h g hg; rw [← vtOf_getD hwf hnd (hin g hg)]; exact h g hg

/-- `set_weight` on constraint `ci` as coded: accepted iff `weightOK`, and then it stores the weight and the penalty type
    on that constraint -/
theorem setWeight_spec {m : Cqm} (hwf : CqmWF m) (hnd : m.labels.Nodup) (ci : Nat)
    (hin : ExprIn m.vt.length (m.cons.getD ci {}).e) (weight : Option Rat) (pen : Nat) :
    ((m.setWeight ci weight pen).2 = none ↔ (absCqm m).weightOK (absExpr m.labels (m.cons.getD ci {}).e) weight pen)
    ∧ ((m.setWeight ci weight pen).2 = none →
        (m.setWeight ci weight pen).1 = m.modCons ci fun c => { c with weight := weight, quadPenalty := decide (pen = 1) })
    ∧ ((m.setWeight ci weight pen).2 ≠ none → (m.setWeight ci weight pen).1 = m) := by
  have hq := quadCheck_iff hwf hnd hin
  unfold LCqm.weightOK Cqm.setWeight
  cases weight with
  | none =>
    simp only []
    by_cases h0 : pen = 0
    · subst h0
      rw [if_pos rfl]
      exact ⟨⟨fun _ => ⟨(by intro w hw; cases hw), Or.inl rfl⟩, fun _ => rfl⟩, fun _ => rfl, fun h => absurd rfl h⟩
    · rw [if_neg h0]
      by_cases h1 : pen = 1
      · subst h1
        rw [if_pos rfl]
        by_cases hall : ((m.cons.getD ci {}).e.vars.all fun g => m.vt.getD g .integer = .binary || m.vt.getD g .integer = .spin) = true
        · rw [if_pos hall]
          exact ⟨⟨fun _ => ⟨(by intro w hw; cases hw), Or.inr ⟨rfl, hq.mp hall⟩⟩, fun _ => rfl⟩, fun _ => rfl, fun h => absurd rfl h⟩
        · rw [if_neg hall]
          refine ⟨⟨fun h => (by cases h), fun h => ?_⟩, fun h => (by cases h), fun _ => rfl⟩
          rcases h.2 with h | h
          · cases h
          · exact absurd (hq.mpr h.2) hall
      · rw [if_neg h1]
        refine ⟨⟨fun h => (by cases h), fun h => ?_⟩, fun h => (by cases h), fun _ => rfl⟩
        rcases h.2 with h | h
        · exact absurd h h0
        · exact absurd h.1 h1
  | some w =>
    simp only []
    by_cases hw : w ≤ 0
    · rw [if_pos hw]
      refine ⟨⟨fun h => (by cases h), fun h => ?_⟩, fun h => (by cases h), fun _ => rfl⟩
      exact absurd (h.1 w rfl) (not_lt.mpr hw)
    · rw [if_neg hw]
      have hpos : ∀ w', some w = some w' → 0 < w' := by intro w' h; cases h; exact not_le.mp hw
      by_cases h0 : pen = 0
      · subst h0
        rw [if_pos rfl]
        exact ⟨⟨fun _ => ⟨hpos, Or.inl rfl⟩, fun _ => rfl⟩, fun _ => rfl, fun h => absurd rfl h⟩
      · rw [if_neg h0]
        by_cases h1 : pen = 1
        · subst h1
          rw [if_pos rfl]
          by_cases hall : ((m.cons.getD ci {}).e.vars.all fun g => m.vt.getD g .integer = .binary || m.vt.getD g .integer = .spin) = true
          · rw [if_pos hall]
            exact ⟨⟨fun _ => ⟨hpos, Or.inr ⟨rfl, hq.mp hall⟩⟩, fun _ => rfl⟩, fun _ => rfl, fun h => absurd rfl h⟩
          · rw [if_neg hall]
            refine ⟨⟨fun h => (by cases h), fun h => ?_⟩, fun h => (by cases h), fun _ => rfl⟩
            rcases h.2 with h | h
            · cases h
            · exact absurd (hq.mpr h.2) hall
        · rw [if_neg h1]
          refine ⟨⟨fun h => (by cases h), fun h => ?_⟩, fun h => (by cases h), fun _ => rfl⟩
          rcases h.2 with h | h
          · exact absurd h h0
          · exact absurd h.1 h1


/-- the model with one more constraint -/
def pushed (m : Cqm) (c : Cons) (label : Label) : Cqm := { m with cons := m.cons ++ [c], clabels := m.clabels ++ [label] }

/-- the constraint `add_constraint*` appends: polynomial `p`, sense, rhs — hard, not discrete -/
def LCons.hard (p : LPoly) (sense : Sense) (rhs : Rat) : LCons :=
  { p := p, sense := sense, rhs := rhs, weight := none, quadPenalty := false, discrete := false }

/-- **tail of every `add_constraint*` form** (push, label, optional `set_weight`), on the list of polynomials.
    * it returns iff no weight is given or `set_weight` accepts (positive weight; `'linear'`, or `'quadratic'` with only
      BINARY / SPIN variables *in the model* among the constraint's variables);
    * then the model has one more constraint at the end — that label, polynomial, sense, rhs, weight, penalty type —
      and nothing else changed;
    * when `set_weight` raises, the constraint **is already in the model**, as a hard one (known finding D34a). -/
theorem pushCons_spec {m : Cqm} (hwf : CqmWF m) (hnd : m.labels.Nodup) {e : Expr} (he : ExprWF e) (hin : ExprIn m.vt.length e)
    (sense : Sense) (rhs : Rat) (label : Label) (weight : Option Rat) (pen : Nat) :
    ((m.pushCons e sense rhs label weight pen).2 = none
        ↔ (weight = none ∨ (absCqm m).weightOK (absExpr m.labels e) weight pen))
    ∧ ((m.pushCons e sense rhs label weight pen).2 = none →
        absCqm (m.pushCons e sense rhs label weight pen).1 = { absCqm m with cons := (absCqm m).cons ++
          [(label, { LCons.hard (absExpr m.labels e) sense rhs with
                      weight := weight, quadPenalty := weight.isSome && decide (pen = 1) })] })
    ∧ ((m.pushCons e sense rhs label weight pen).2 ≠ none →
        absCqm (m.pushCons e sense rhs label weight pen).1 = { absCqm m with cons := (absCqm m).cons ++
          [(label, LCons.hard (absExpr m.labels e) sense rhs)] }) := by
  have hpush : ∀ (c : Cons), absCqm { m with cons := m.cons ++ [c], clabels := m.clabels ++ [label] }
      = { absCqm m with cons := (absCqm m).cons ++ [(label, absCons m.labels c)] } := fun c => absCqm_push hwf c label
  cases weight with
  | none =>
    have hp : m.pushCons e sense rhs label none pen
        = ({ m with cons := m.cons ++ [({ e := e, sense := sense, rhs := rhs } : Cons)], clabels := m.clabels ++ [label] }, none) := rfl
    rw [hp]
    refine ⟨⟨fun _ => Or.inl rfl, fun _ => rfl⟩, fun _ => ?_, fun h => absurd rfl h⟩
    rw [hpush]; rfl
  | some w =>
    have h1 : CqmWF (pushed m { e := e, sense := sense, rhs := rhs } label) := pushCons_wf hwf he hin sense rhs label none 0
    have hp : m.pushCons e sense rhs label (some w) pen
        = (pushed m { e := e, sense := sense, rhs := rhs } label).setWeight m.cons.length (some w) pen := rfl
    have hget : (pushed m { e := e, sense := sense, rhs := rhs } label).cons.getD m.cons.length {} = { e := e, sense := sense, rhs := rhs } := by
      show (m.cons ++ [({ e := e, sense := sense, rhs := rhs } : Cons)]).getD m.cons.length {} = _
      rw [List.getD_eq_getElem?_getD, List.getElem?_append_right (Nat.le_refl _)]; simp
    have hin1 : ExprIn (pushed m { e := e, sense := sense, rhs := rhs } label).vt.length
        ((pushed m { e := e, sense := sense, rhs := rhs } label).cons.getD m.cons.length {}).e := by rw [hget]; exact hin
    obtain ⟨s1, s2, s3⟩ := setWeight_spec h1 hnd m.cons.length hin1 (some w) pen
    rw [hget] at s1
    rw [hp]
    refine ⟨⟨fun h => Or.inr (s1.mp h), fun h => ?_⟩, fun h => ?_, fun h => ?_⟩
    · rcases h with h | h
      · cases h
      · exact s1.mpr h
    · rw [s2 h]
      unfold Cqm.modCons pushed
      simp only []
      rw [modifyAt_append_last, hpush]
      rfl
    · rw [s3 h]; unfold pushed; rw [hpush]; rfl


/-! ### the expression a model becomes -/

/-- no self-loop on a BINARY / SPIN variable, by the model's own types (true of every BQM / QM) -/
def ModelNoSelf (mi : ModelIn) : Prop :=
  ∀ t ∈ mi.quad, t.1 = t.2.1 → (mi.info.getD t.1 (.binary, 0, 0)).1 ≠ .binary ∧ (mi.info.getD t.1 (.binary, 0, 0)).1 ≠ .spin

theorem mapsTo_of_found {L : List Label} (f : Label → Nat) : ∀ (vs : List Label), (∀ v ∈ vs, L[f v]? = some v) →
    MapsTo L (vs.map f) vs := by
  intro vs
  induction vs with
  | nil => intro _; exact List.Forall₂.nil
  | cons v t ih =>
    intro h
    exact List.Forall₂.cons (h v List.mem_cons_self) (ih fun w hw => h w (List.mem_cons_of_mem _ hw))

/-- **Core.**  After the missing variables are added (and nothing conflicts), both the copy path and the move path install
    an expression whose label-keyed polynomial is the model's polynomial `LPoly.ofModel mi`. -/
theorem absExpr_build {m : Cqm} (hwf : CqmWF m) (hl : CqmLabelsOK m) {mi : ModelIn} (hmi : ModelInOK mi) (hself : ModelNoSelf mi)
    (hc : m.conflicts mi = false) :
    absExpr (m.addMissing mi).labels (buildCopy (m.addMissing mi).vt ((m.addMissing mi).mapping mi) mi) = LPoly.ofModel mi
    ∧ absExpr (m.addMissing mi).labels (buildMove ((m.addMissing mi).mapping mi) mi) = LPoly.ofModel mi := by
  obtain ⟨h1, _, _, _, _, hlen, hlt, hndm⟩ := mapping_props hwf hmi
  have hl1 : CqmLabelsOK (m.addMissing mi) := addMissing_labels hl mi
  have hc' : (absCqm m).conflicts mi = false := by rw [← conflicts_abs]; exact hc
  obtain ⟨a1, _, _, _, _⟩ := addMissing_spec (infoDom_abs m) hmi hc'
  rw [← absCqm_addMissing hwf mi] at a1
  -- every variable of the model is found in the CQM, at the index `mapping` records
  have hfound : ∀ v ∈ mi.vars, (m.addMissing mi).labels[((m.addMissing mi).idx? v).getD 0]? = some v := by
    intro v hv
    obtain ⟨i, hi⟩ := List.getElem?_of_mem hv
    have hil := lt_of_getElem? hi
    have hvi : v = mi.vars.getD i dl := by rw [List.getD_eq_getElem?_getD, hi]; rfl
    have hmem : v ∈ (m.addMissing mi).labels := hvi ▸ (a1 i hil).2
    cases hf : (m.addMissing mi).idx? v with
    | none => exact absurd hmem (findIdx_none_iff.mp hf)
    | some g => exact idx?_get hf
  have hm : MapsTo (m.addMissing mi).labels ((m.addMissing mi).mapping mi) mi.vars := mapsTo_of_found _ mi.vars hfound
  -- types by label agree with the types by index, and with the model's own
  have hvt : ∀ g l, (m.addMissing mi).labels[g]? = some l →
      (absCqm (m.addMissing mi)).vtOf l = (m.addMissing mi).vt.getD g .binary := by
    intro g l hg
    unfold LCqm.vtOf absCqm
    simp only []
    rw [findIdx_of_get hl1.labels_nodup hg]
    rfl
  have hselfL : NoSelfLoops (absCqm (m.addMissing mi)).vtOf mi := by
    intro t ht heq
    have hlt1 := (hmi.quad_lt t ht).1
    have : (absCqm (m.addMissing mi)).vtOf (mi.vars.getD t.1 dl) = (mi.info.getD t.1 (.binary, 0, 0)).1 := by
      unfold LCqm.vtOf; rw [(a1 t.1 hlt1).1]
    rw [this]; exact hself t ht heq
  have hcopy := absExpr_buildCopy hl1.labels_nodup (m.addMissing mi).vt (absCqm (m.addMissing mi)).vtOf hvt hm hmi.quad_lt
  rw [ofModelFold_eq_ofModel _ hmi hselfL] at hcopy
  refine ⟨hcopy, ?_⟩
  rw [← hcopy]
  -- moved = copied
  have hselfI : NoBinarySelfLoops (m.addMissing mi).vt ((m.addMissing mi).mapping mi) mi := by
    intro t ht heq
    have hlt1 := (hmi.quad_lt t ht).1
    obtain ⟨_, hget⟩ := hm.get
    have hg := hget t.1 (by rw [hlen]; exact hlt1)
    rw [← hvt _ _ hg]
    exact hselfL t ht heq
  obtain ⟨hv, hq, hi⟩ := buildCopy_eq_move (m.addMissing mi).vt hndm hmi hlen hselfI
  symm
  apply absExpr_congr _ hv
  · intro g; unfold Expr.linear; rw [hi g, hq]
  · intro g h; unfold Expr.quadratic; rw [hi g, hi h, hq]
  · rw [hq]

/-- a conflicting model is rejected by every model-taking call with **nothing changed**; "conflicting" is: some variable
    of the model exists in the CQM with another type or other bounds -/
theorem conflict_rejected (m : Cqm) (mi : ModelIn) (h : (absCqm m).conflicts mi = true) :
    m.step (.setObjectiveModel mi) = (m, some .value)
    ∧ (∀ sense rhs label copy weight pen, m.step (.addConstraintModel mi sense rhs label copy weight pen) = (m, some .value)) := by
  rw [← conflicts_abs] at h
  refine ⟨?_, ?_⟩
  · show m.setObjectiveModel mi = _
    unfold Cqm.setObjectiveModel; rw [if_pos h]
  · intro sense rhs label copy weight pen
    show m.addConstraintModel mi sense rhs label copy weight pen = _
    unfold Cqm.addConstraintModel
    split_ifs <;> rfl

/-- **`set_objective(model)`** when it returns: the model's missing variables are appended (type and bounds of the model),
    the objective *is the model's polynomial keyed by its labels*, the constraints are untouched -/
theorem refines_setObjectiveModel {m m' : Cqm} (hwf : CqmWF m) (hl : CqmLabelsOK m) {mi : ModelIn} (hmi : ModelInOK mi)
    (hself : ModelNoSelf mi) (h : m.step (.setObjectiveModel mi) = (m', none)) :
    (absCqm m).conflicts mi = false
    ∧ absCqm m' = { (absCqm m).addMissing mi with obj := LPoly.ofModel mi } := by
  have h' : m.setObjectiveModel mi = (m', none) := h
  unfold Cqm.setObjectiveModel at h'
  by_cases hc : m.conflicts mi = true
  · rw [if_pos hc] at h'; cases (Prod.mk.inj h').2
  · rw [if_neg hc] at h'
    have hc0 : m.conflicts mi = false := by simpa using hc
    refine ⟨by rw [← conflicts_abs]; exact hc0, ?_⟩
    rw [← (Prod.mk.inj h').1, ← absCqm_addMissing hwf mi]
    obtain ⟨hcopy, _⟩ := absExpr_build hwf hl hmi hself hc0
    exact LCqm.ext' rfl rfl hcopy rfl

/-- **`add_constraint(model | comparison, sense, rhs, label, copy, weight, penalty)`** when it returns: the label was new,
    nothing conflicted, the missing variables are appended, and there is one more constraint at the end whose polynomial
    *is the model's polynomial keyed by its labels* — whether copied or moved — with that sense, rhs, weight and penalty
    type (accepted as `LCqm.weightOK` says); nothing else changed -/
theorem refines_addConstraintModel {m m' : Cqm} (hwf : CqmWF m) (hl : CqmLabelsOK m) {mi : ModelIn} (hmi : ModelInOK mi)
    (hself : ModelNoSelf mi) (sense : Sense) (rhs : Rat) (label : Label) (copy : Bool) (weight : Option Rat) (pen : Nat)
    (h : m.step (.addConstraintModel mi sense rhs label copy weight pen) = (m', none)) :
    label ∉ m.clabels ∧ (absCqm m).conflicts mi = false
    ∧ (weight = none ∨ ((absCqm m).addMissing mi).weightOK (LPoly.ofModel mi) weight pen)
    ∧ absCqm m' = { (absCqm m).addMissing mi with cons := ((absCqm m).addMissing mi).cons ++
        [(label, { LCons.hard (LPoly.ofModel mi) sense rhs with
                    weight := weight, quadPenalty := weight.isSome && decide (pen = 1) })] } := by
  have h' : m.addConstraintModel mi sense rhs label copy weight pen = (m', none) := h
  unfold Cqm.addConstraintModel at h'
  by_cases hlab : label ∈ m.clabels
  · rw [if_pos hlab] at h'; cases (Prod.mk.inj h').2
  · rw [if_neg hlab] at h'
    by_cases hc : m.conflicts mi = true
    · rw [if_pos hc] at h'; cases (Prod.mk.inj h').2
    · rw [if_neg hc] at h'
      simp only [] at h'
      have hc0 : m.conflicts mi = false := by simpa using hc
      obtain ⟨h1, _, _, _, _, hlen, hlt, hndm⟩ := mapping_props hwf hmi
      have hl1 : CqmLabelsOK (m.addMissing mi) := addMissing_labels hl mi
      obtain ⟨hcopy, hmove⟩ := absExpr_build hwf hl hmi hself hc0
      have hcw := buildCopy_wf (n := (m.addMissing mi).vt.length) (m.addMissing mi).vt hlt (mi := mi) (by rw [hlen]; exact hmi.quad_lt)
      have hmw := buildMove_wf hlt hndm hmi hlen
      refine ⟨hlab, by rw [← conflicts_abs]; exact hc0, ?_⟩
      rw [← absCqm_addMissing hwf mi]
      cases copy with
      | true =>
        simp only [if_true] at h'
        obtain ⟨p1, p2, _⟩ := pushCons_spec h1 hl1.labels_nodup hcw.1 hcw.2 sense rhs label weight pen
        rw [hcopy] at p1 p2
        have hok : ((m.addMissing mi).pushCons (buildCopy (m.addMissing mi).vt ((m.addMissing mi).mapping mi) mi) sense rhs label weight pen).2 = none := by
          rw [h']
        refine ⟨p1.mp hok, ?_⟩
        rw [← p2 hok, h']
      | false =>
        simp only [Bool.false_eq_true, if_false] at h'
        obtain ⟨p1, p2, _⟩ := pushCons_spec h1 hl1.labels_nodup hmw.1 hmw.2 sense rhs label weight pen
        rw [hmove] at p1 p2
        have hok : ((m.addMissing mi).pushCons (buildMove ((m.addMissing mi).mapping mi) mi) sense rhs label weight pen).2 = none := by
          rw [h']
        refine ⟨p1.mp hok, ?_⟩
        rw [← p2 hok, h']


/-! ### the `add_discrete` forms -/

/-- marking the constraint that was just appended -/
theorem absCqm_markLast {m1 m' : Cqm} (hwf1 : CqmWF m1) (c : Cons) (label : Label) (k : Nat) (hk : k = m1.cons.length)
    (h : ((pushed m1 c label).modCons k fun c => { c with discrete := true }) = m') :
    absCqm m' = { absCqm m1 with cons := (absCqm m1).cons ++ [(label, { absCons m1.labels c with discrete := true })] } := by
  rw [← h, hk]
  unfold Cqm.modCons pushed
  simp only []
  rw [modifyAt_append_last, absCqm_push hwf1]
  rfl

/-- shared by the three discrete forms: a successful `add_constraint_from_model(model, '==', 1, label, copy)` followed by
    the mark -/
theorem refines_discreteTail {m m' : Cqm} (hwf : CqmWF m) (hl : CqmLabelsOK m) {mi : ModelIn} (hmi : ModelInOK mi)
    (hself : ModelNoSelf mi) (label : Label) (copy : Bool)
    (h : (match m.addConstraintModel mi .eq 1 label copy none 0 with
          | (m1, none) => ((m1.modCons m.cons.length fun c => { c with discrete := true }, none) : Res)
          | r => r) = (m', none)) :
    label ∉ m.clabels ∧ (absCqm m).conflicts mi = false
    ∧ absCqm m' = { (absCqm m).addMissing mi with cons := ((absCqm m).addMissing mi).cons ++
        [(label, { LCons.hard (LPoly.ofModel mi) .eq 1 with discrete := true })] } := by
  unfold Cqm.addConstraintModel at h
  by_cases hlab : label ∈ m.clabels
  · rw [if_pos hlab] at h; cases (Prod.mk.inj h).2
  · rw [if_neg hlab] at h
    by_cases hc : m.conflicts mi = true
    · rw [if_pos hc] at h; cases (Prod.mk.inj h).2
    · rw [if_neg hc] at h
      have hc0 : m.conflicts mi = false := by simpa using hc
      obtain ⟨h1, _, hcons, _, _, _, _, _⟩ := mapping_props hwf hmi
      obtain ⟨hcopy, hmove⟩ := absExpr_build hwf hl hmi hself hc0
      refine ⟨hlab, by rw [← conflicts_abs]; exact hc0, ?_⟩
      rw [← absCqm_addMissing hwf mi]
      have hk : m.cons.length = (m.addMissing mi).cons.length := by rw [hcons]
      cases copy with
      | true =>
        have h2 : (pushed (m.addMissing mi) { e := buildCopy (m.addMissing mi).vt ((m.addMissing mi).mapping mi) mi, sense := .eq, rhs := 1 } label).modCons
            m.cons.length (fun c => { c with discrete := true }) = m' := (Prod.mk.inj h).1
        rw [absCqm_markLast h1 _ label _ hk h2]
        unfold absCons; rw [hcopy]; rfl
      | false =>
        have h2 : (pushed (m.addMissing mi) { e := buildMove ((m.addMissing mi).mapping mi) mi, sense := .eq, rhs := 1 } label).modCons
            m.cons.length (fun c => { c with discrete := true }) = m' := (Prod.mk.inj h).1
        rw [absCqm_markLast h1 _ label _ hk h2]
        unfold absCons; rw [hmove]; rfl

/-- **`add_discrete(model, label, copy, check_overlaps)`** when it returns: the model is linear with every bias 1, each of
    its variables is BINARY (in the CQM if known there, else in the model) and — with `check_overlaps` — in no discrete
    constraint yet; the result is `add_constraint(model == 1, label, copy)` with the discrete mark set -/
theorem refines_addDiscreteModel {m m' : Cqm} (hwf : CqmWF m) (hl : CqmLabelsOK m) {mi : ModelIn} (hmi : ModelInOK mi)
    (label : Label) (copy chk : Bool) (h : m.step (.addDiscreteModel mi label copy chk) = (m', none)) :
    mi.quad = []
    ∧ (∀ p ∈ (mi.vars.zip mi.info).zip mi.lin, p.2 = 1
        ∧ (match m.idx? p.1.1 with
           | some g => m.vt.getD g .binary = .binary ∧ (chk = true → m.inDiscrete g = false)
           | none => p.1.2.1 = .binary))
    ∧ label ∉ m.clabels ∧ (absCqm m).conflicts mi = false
    ∧ absCqm m' = { (absCqm m).addMissing mi with cons := ((absCqm m).addMissing mi).cons ++
        [(label, { LCons.hard (LPoly.ofModel mi) .eq 1 with discrete := true })] } := by
  have h' : m.addDiscreteModel mi label copy chk = (m', none) := h
  unfold Cqm.addDiscreteModel at h'
  by_cases hq : (!mi.quad.isEmpty) = true
  · rw [if_pos hq] at h'; cases (Prod.mk.inj h').2
  · rw [if_neg hq] at h'
    have hq0 : mi.quad = [] := by
      cases hm : mi.quad with
      | nil => rfl
      | cons a t => rw [hm] at hq; simp at hq
    split_ifs at h' with hbad
    · cases (Prod.mk.inj h').2
    · have hself : ModelNoSelf mi := by intro t ht; rw [hq0] at ht; cases ht
      refine ⟨hq0, ?_, refines_discreteTail hwf hl hmi hself label copy h'⟩
      intro p hp
      rw [Bool.not_eq_true, List.any_eq_false] at hbad
      have := hbad p hp
      obtain ⟨⟨v, vt, lb, ub⟩, b⟩ := p
      simp only [Bool.or_eq_true, not_or, decide_eq_true_eq, not_not] at this
      refine ⟨this.2, ?_⟩
      cases hg : m.idx? v with
      | none =>
        rw [hg] at this
        simpa using this.1
      | some g =>
        rw [hg] at this
        simp only [Bool.or_eq_true, Bool.and_eq_true, decide_eq_true_eq, not_or, not_and, not_not, ne_eq] at this
        exact ⟨this.1.2, fun hc => by simpa using this.1.1 hc⟩

/-- **`add_discrete(model == 1, …)`**: the comparison must be `== 1`; then as `add_discrete(model, …)` -/
theorem refines_addDiscreteComparison {m m' : Cqm} (mi : ModelIn)
    (sense : Sense) (rhs : Rat) (label : Label) (copy chk : Bool)
    (h : m.step (.addDiscreteComparison mi sense rhs label copy chk) = (m', none)) :
    sense = .eq ∧ rhs = 1 ∧ m.step (.addDiscreteModel mi label copy chk) = (m', none) := by
  have h' : m.addDiscreteComparison mi sense rhs label copy chk = (m', none) := h
  unfold Cqm.addDiscreteComparison at h'
  split_ifs at h' with h1 h2
  · cases (Prod.mk.inj h').2
  · cases (Prod.mk.inj h').2
  · exact ⟨by simpa using h1, by simpa using h2, h'⟩

/-- **`add_discrete(iterable of labels, label, check_overlaps)`**: the float32 BQM with bias 1 per distinct label (first
    occurrences, in order), moved in as `== 1` and marked; the labels that exist must be BINARY and (with the check) free -/
theorem refines_addDiscreteVars {m m' : Cqm} (hwf : CqmWF m) (hl : CqmLabelsOK m) (vs : List Label) (label : Label) (chk : Bool)
    (h : m.step (.addDiscreteVars vs label chk) = (m', none)) :
    (∀ v ∈ vs, ∀ g, m.idx? v = some g → m.vt.getD g .binary = .binary ∧ (chk = true → m.inDiscrete g = false))
    ∧ label ∉ m.clabels ∧ (absCqm m).conflicts (discreteModelOf vs) = false
    ∧ absCqm m' = { (absCqm m).addMissing (discreteModelOf vs) with cons := ((absCqm m).addMissing (discreteModelOf vs)).cons ++
        [(label, { LCons.hard (LPoly.ofModel (discreteModelOf vs)) .eq 1 with discrete := true })] } := by
  have h' : m.addDiscreteVars vs label chk = (m', none) := h
  unfold Cqm.addDiscreteVars at h'
  split_ifs at h' with h1 hbad
  · cases (Prod.mk.inj h').2
  · cases (Prod.mk.inj h').2
  · have hself : ModelNoSelf (discreteModelOf vs) := by intro t ht; cases ht
    refine ⟨?_, refines_discreteTail hwf hl (discreteModelOf_ok vs) hself label false h'⟩
    intro v hv g hg
    rw [Bool.not_eq_true, List.any_eq_false] at hbad
    have := hbad v hv
    rw [hg] at this
    simp only [Bool.or_eq_true, Bool.and_eq_true, decide_eq_true_eq, not_or, not_and, not_not, ne_eq] at this
    exact ⟨this.2, fun hc => by simpa using this.1 hc⟩

end CqmP
