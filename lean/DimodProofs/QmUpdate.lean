import DimodProofs.QmStep

/-! `QuadraticModel.update(other)` preserves the representation invariant, for a well-formed `other` with
    duplicate-free labels whose bounds are admissible for the receiver's dtype.  Core Lean only. -/

namespace Qm
open Bqm (modifyAt nbhCoef coefAt AdjWF indexOfGo)

/-- the bounds of `o`'s non-binary variables are ones `m.add_variable` accepts -/
def BoundsOK (m o : Qm) : Prop :=
  ∀ i, i < o.lin.length → isBin (o.vtAt i) = false →
    ¬ (o.lb.getD i 0 < m.vmin (o.vtAt i)) ∧ ¬ (o.ub.getD i 0 > m.vmax (o.vtAt i)) ∧
    ¬ (o.lb.getD i 0 > o.ub.getD i 0) ∧ ¬ (o.vtAt i = .integer ∧ (o.lb.getD i 0).ceil > (o.ub.getD i 0).floor)

/-- what `update` needs of its argument -/
structure UpdateArg (m o : Qm) : Prop where
  wf : WF o
  nodup : o.labels.Nodup
  bounds : BoundsOK m o

def pushed (m : Qm) (lbl : Label) (t : QVT) (l u : Rat) : Qm :=
  { m with labels := m.labels ++ [lbl], vt := m.vt ++ [t], lb := m.lb ++ [l], ub := m.ub ++ [u],
           lin := m.lin ++ [0], adj := m.adj ++ [[]] }

theorem vmin_congr {a m : Qm} (h1 : a.imax = m.imax) (h2 : a.rmax = m.rmax) (t : QVT) : a.vmin t = m.vmin t ∧ a.vmax t = m.vmax t := by
  cases t <;> simp [Qm.vmin, Qm.vmax, h1, h2]

theorem addVariable_new {a : Qm} {l : Label} (hl : a.indexOf? l = none) (t : QVT) (lo hi : Rat)
    (hb : isBin t = false → ¬ (lo < a.vmin t) ∧ ¬ (hi > a.vmax t) ∧ ¬ (lo > hi) ∧ ¬ (t = .integer ∧ lo.ceil > hi.floor)) :
    ∃ l' u', (a.addVariable t (some l) (some lo) (some hi)).1 = a.pushed l t l' u' := by
  unfold Qm.addVariable
  simp only [hl]
  cases hbin : isBin t with
  | true => exact ⟨_, _, rfl⟩
  | false =>
    have := hb hbin
    simp only [Bool.false_eq_true, if_false, optAny, Option.getD_some, this.1, this.2.1, this.2.2.1, this.2.2.2, decide_false]
    exact ⟨_, _, rfl⟩

/-- invariant of the first loop of `update` (adding the missing variables) after `k` positions of `o` -/
structure P1 (m o : Qm) (k : Nat) (acc : Qm) : Prop where
  wf : WF acc
  len : m.lin.length ≤ acc.lin.length
  lim : acc.imax = m.imax ∧ acc.rmax = m.rmax
  ext : ∀ l j, m.indexOf? l = some j → acc.indexOf? l = some j
  pre : ∀ j, j < m.lin.length → acc.vtAt j = m.vtAt j
  got : ∀ i, i < k → i < o.lin.length → ∃ j, acc.indexOf? (o.labels.getD i (.int 0)) = some j ∧ acc.vtAt j = o.vtAt i
  new : ∀ l j, acc.indexOf? l = some j → (∃ j', m.indexOf? l = some j') ∨ ∃ i, i < k ∧ o.labels[i]? = some l

theorem idx_pushed (a : Qm) (lbl x : Label) (t : QVT) (l u : Rat) (h : a.indexOf? lbl = none) :
    (a.pushed lbl t l u).indexOf? x = if x = lbl then some a.labels.length else a.indexOf? x :=
  idx_push a lbl x h _ rfl

theorem vtAt_pushed_lt (a : Qm) (h : WF a) (lbl : Label) (t : QVT) (l u : Rat) (j : Nat) (hj : j < a.lin.length) :
    (a.pushed lbl t l u).vtAt j = a.vtAt j := by
  unfold Qm.vtAt pushed
  exact getD_append_one _ _ _ _ (by rw [h.vt_len]; exact hj)

theorem vtAt_pushed_last (a : Qm) (h : WF a) (lbl : Label) (t : QVT) (l u : Rat) :
    (a.pushed lbl t l u).vtAt a.labels.length = t := by
  unfold Qm.vtAt pushed
  have : a.labels.length = a.vt.length := by rw [h.labels_len, h.vt_len]
  rw [this]; exact getD_append_last _ _ _

theorem P1.step {m o : Qm} (hm : WF m) (ua : UpdateArg m o) (hclash : ∀ i l j, o.labels[i]? = some l → m.indexOf? l = some j → m.vtAt j = o.vtAt i)
    {k : Nat} (hk : k < o.lin.length) {acc : Qm} (p : P1 m o k acc) : P1 m o (k + 1) (addMissing o acc k) := by
  have hkl : k < o.labels.length := by rw [ua.wf.labels_len]; exact hk
  have hget : o.labels[k]? = some (o.labels.getD k (.int 0)) := by simp [List.getD, List.getElem?_eq_getElem hkl]
  unfold Qm.addMissing
  rw [hget]
  simp only []
  generalize hl : o.labels.getD k (.int 0) = l at hget
  cases ha : acc.indexOf? l with
  | some j =>
    simp only []
    refine ⟨p.wf, p.len, p.lim, p.ext, p.pre, ?_, ?_⟩
    · intro i hi hio
      by_cases hik : i = k
      · rw [hik, hl]
        refine ⟨j, ha, ?_⟩
        rcases p.new l j ha with ⟨j', hj'⟩ | ⟨i', hi', hgi'⟩
        · have e := p.ext l j' hj'
          rw [ha] at e
          have ej : j = j' := Option.some.inj e
          rw [ej, p.pre j' (indexOf?_lt hm hj')]
          exact hclash k l j' hget hj'
        · exfalso
          have : i' = k := Bqm.nodup_getElem?_inj o.labels ua.nodup i' k (by omega) hkl (by rw [hgi', hget])
          omega
      · exact p.got i (by omega) hio
    · intro l' j' hj'
      rcases p.new l' j' hj' with h | ⟨i', hi', hg⟩
      · exact Or.inl h
      · exact Or.inr ⟨i', by omega, hg⟩
  | none =>
    simp only []
    have lims := vmin_congr p.lim.1 p.lim.2 (o.vtAt k)
    obtain ⟨l', u', hpush⟩ := addVariable_new ha (o.vtAt k) (o.lb.getD k 0) (o.ub.getD k 0) (by
      intro hb
      have := ua.bounds k hk hb
      rw [lims.1, lims.2]; exact this)
    rw [hpush]
    have wf' : WF (acc.pushed l (o.vtAt k) l' u') := p.wf.push l _ _ _
    refine ⟨wf', ?_, p.lim, ?_, ?_, ?_, ?_⟩
    · show m.lin.length ≤ (acc.lin ++ [0]).length
      simp; have := p.len; omega
    · intro x j hx
      rw [idx_pushed acc l x _ _ _ ha]
      have hax := p.ext x j hx
      by_cases hxl : x = l
      · rw [hxl, ha] at hax; cases hax
      · simp only [hxl, if_false]; exact hax
    · intro j hj
      rw [vtAt_pushed_lt acc p.wf l _ _ _ j (by have := p.len; omega)]
      exact p.pre j hj
    · intro i hi hio
      by_cases hik : i = k
      · rw [hik, hl]
        refine ⟨acc.labels.length, ?_, vtAt_pushed_last acc p.wf l _ _ _⟩
        rw [idx_pushed acc l l _ _ _ ha]; simp
      · obtain ⟨j, hj, hvt⟩ := p.got i (by omega) hio
        refine ⟨j, ?_, ?_⟩
        · rw [idx_pushed acc l _ _ _ _ ha]
          by_cases hxl : o.labels.getD i (.int 0) = l
          · rw [hxl, ha] at hj; cases hj
          · simp only [hxl, if_false]; exact hj
        · rw [vtAt_pushed_lt acc p.wf l _ _ _ j (indexOf?_lt p.wf hj)]; exact hvt
    · intro x j hx
      rw [idx_pushed acc l x _ _ _ ha] at hx
      by_cases hxl : x = l
      · exact Or.inr ⟨k, by omega, by rw [hxl]; exact hget⟩
      · simp only [hxl, if_false] at hx
        rcases p.new x j hx with h | ⟨i', hi', hg⟩
        · exact Or.inl h
        · exact Or.inr ⟨i', by omega, hg⟩

theorem P1.init {m o : Qm} (hm : WF m) : P1 m o 0 m :=
  ⟨hm, Nat.le_refl _, ⟨rfl, rfl⟩, fun _ _ h => h, fun _ _ => rfl, fun i hi => by omega, fun l j h => Or.inl ⟨j, h⟩⟩

theorem P1.run {m o : Qm} (hm : WF m) (ua : UpdateArg m o)
    (hclash : ∀ i l j, o.labels[i]? = some l → m.indexOf? l = some j → m.vtAt j = o.vtAt i) :
    ∀ k, k ≤ o.lin.length → P1 m o k ((List.range k).foldl (addMissing o) m) := by
  intro k
  induction k with
  | zero => intro _; exact P1.init hm
  | succ k ih =>
    intro hk
    rw [List.range_succ, List.foldl_append]
    exact (ih (by omega)).step hm ua hclash (by omega)

theorem getD_map_range {α} (n : Nat) (f : Nat → α) (d : α) (i : Nat) (hi : i < n) : ((List.range n).map f).getD i d = f i := by
  simp [List.getD, hi]

theorem loopOK_congr {a b : Qm} (h : a.vt = b.vt) (u : Nat) : a.loopOK u = b.loopOK u := by
  unfold Qm.loopOK Qm.vtAt; rw [h]

theorem lowerTriples_mem {o : Qm} (h : WF o) (t : Nat × Nat × Rat) (ht : t ∈ o.lowerTriples) :
    t.1 < o.lin.length ∧ t.2.1 ≤ t.1 ∧ coefAt o.adj t.1 t.2.1 = some t.2.2 := by
  unfold Qm.lowerTriples at ht
  obtain ⟨u, hu, htu⟩ := List.mem_flatMap.mp ht
  obtain ⟨p, hp, hpt⟩ := List.mem_map.mp htu
  have hu' : u < o.lin.length := by rw [← h.adj.len]; exact List.mem_range.mp hu
  have hp' := List.mem_filter.mp hp
  have hle : p.1 ≤ u := by simpa using hp'.2
  rw [← hpt]
  refine ⟨hu', hle, ?_⟩
  exact Bqm.nbhCoef_of_mem_sorted _ (h.adj.sorted u) p.1 p.2 hp'.1

/-- **`update(other)` preserves the invariant** -/
theorem WF.update {m o : Qm} (hm : WF m) (ua : UpdateArg m o) : WF (m.update o).1 := by
  unfold Qm.update
  dsimp only
  split
  · exact hm
  · rename_i hclash0
    have hclash : ∀ i l j, o.labels[i]? = some l → m.indexOf? l = some j → m.vtAt j = o.vtAt i := by
      intro i l j hi hj
      have hil : i < o.labels.length := by
        cases hlt : decide (i < o.labels.length) with
        | true => simpa using hlt
        | false =>
          have : o.labels.length ≤ i := by simpa using hlt
          rw [List.getElem?_eq_none this] at hi; cases hi
      have hin : i ∈ List.range o.n := by
        rw [List.mem_range]; show i < o.lin.length; rw [← ua.wf.labels_len]; exact hil
      have hf : ¬ (List.range o.n).any (m.clashAt o) = true := hclash0
      rw [List.any_eq_true] at hf
      have hnot := fun hx => hf ⟨i, hin, hx⟩
      unfold Qm.clashAt at hnot
      rw [hi] at hnot
      simp only [hj] at hnot
      cases hd : decide (m.vtAt j = o.vtAt i) with
      | true => simpa using hd
      | false =>
        exfalso; apply hnot
        have : m.vtAt j ≠ o.vtAt i := by simpa using hd
        simp [this]
    have p := P1.run hm ua hclash o.lin.length (Nat.le_refl _)
    have en : o.n = o.lin.length := rfl
    rw [en]
    generalize hm1 : (List.range o.lin.length).foldl (addMissing o) m = m1 at p
    -- the linear pass
    have hlinlen : ∀ (is : List Nat) (g : Nat → Nat) (lin : List Rat),
        (is.foldl (fun l i => modifyAt l (g i) (· + o.linAt i)) lin).length = lin.length := by
      intro is g; induction is with
      | nil => intro lin; rfl
      | cons a t ih => intro lin; simp only [List.foldl]; rw [ih]; simp
    generalize hmp : (List.range o.lin.length).map (o.mapIdx m1) = mapping
    have hmap : ∀ i, i < o.lin.length → ∃ j, mapping.getD i 0 = j ∧ m1.indexOf? (o.labels.getD i (.int 0)) = some j ∧ m1.vtAt j = o.vtAt i := by
      intro i hi
      obtain ⟨j, hj, hvt⟩ := p.got i hi hi
      refine ⟨j, ?_, hj, hvt⟩
      rw [← hmp, getD_map_range _ _ _ _ hi]
      have hil : i < o.labels.length := by rw [ua.wf.labels_len]; exact hi
      have : o.labels[i]? = some (o.labels.getD i (.int 0)) := by simp [List.getD, List.getElem?_eq_getElem hil]
      unfold Qm.mapIdx
      rw [this]; simp only [hj]; rfl
    generalize hm2 : ({ m1 with lin := (List.range o.lin.length).foldl (fun l i => modifyAt l (mapping.getD i 0) (· + o.linAt i)) m1.lin } : Qm) = m2
    have w2 : WF m2 ∧ m2.vt = m1.vt ∧ m2.lin.length = m1.lin.length ∧ m2.labels = m1.labels := by
      rw [← hm2]
      have hl := hlinlen (List.range o.lin.length) (fun i => mapping.getD i 0) m1.lin
      refine ⟨⟨by show m1.labels.length = _; rw [hl]; exact p.wf.labels_len, by show m1.vt.length = _; rw [hl]; exact p.wf.vt_len,
        by show m1.lb.length = _; rw [hl]; exact p.wf.lb_len, by show m1.ub.length = _; rw [hl]; exact p.wf.ub_len, ?_⟩, rfl, hl, rfl⟩
      show AdjWF _ m1.adj _
      rw [hl]; exact p.wf.adj
    -- the quadratic pass
    have key : ∀ (ts : List (Nat × Nat × Rat)), (∀ t ∈ ts, t ∈ o.lowerTriples) → ∀ acc : Qm,
        (WF acc ∧ acc.vt = m1.vt ∧ acc.lin.length = m1.lin.length) →
        (WF (ts.foldl (fun acc t => acc.addQ (mapping.getD t.1 0) (mapping.getD t.2.1 0) t.2.2 false) acc)) := by
      intro ts
      induction ts with
      | nil => intro _ acc ha; exact ha.1
      | cons t rest ih =>
        intro hts acc ha
        simp only [List.foldl]
        have ht := lowerTriples_mem ua.wf t (hts t (by simp))
        obtain ⟨ju, eju, hju, vju⟩ := hmap t.1 ht.1
        obtain ⟨jv, ejv, hjv, vjv⟩ := hmap t.2.1 (by omega)
        have hjul : ju < acc.lin.length := by rw [ha.2.2]; exact indexOf?_lt p.wf hju
        have hjvl : jv < acc.lin.length := by rw [ha.2.2]; exact indexOf?_lt p.wf hjv
        rw [eju, ejv]
        have wq : WF (acc.addQ ju jv t.2.2 false) := by
          apply ha.1.addQ ju jv t.2.2 false hjul hjvl
          intro e
          -- equal mapped indices: the same variable of `o`, a legal self-loop there
          have hlab : o.labels.getD t.1 (.int 0) = o.labels.getD t.2.1 (.int 0) := by
            rw [e] at hju; exact (idx_eq_iff hju hjv).mp rfl
          have hidx : t.1 = t.2.1 := by
            have h1 : t.1 < o.labels.length := by rw [ua.wf.labels_len]; exact ht.1
            have h2 : t.2.1 < o.labels.length := by omega
            apply Bqm.nodup_getElem?_inj o.labels ua.nodup t.1 t.2.1 h1 h2
            rw [List.getElem?_eq_getElem h1, List.getElem?_eq_getElem h2]
            have a1 : o.labels.getD t.1 (.int 0) = o.labels[t.1] := by simp [List.getD, List.getElem?_eq_getElem h1]
            have a2 : o.labels.getD t.2.1 (.int 0) = o.labels[t.2.1] := by simp [List.getD, List.getElem?_eq_getElem h2]
            rw [← a1, ← a2, hlab]
          have hself : (coefAt o.adj t.1 t.1).isSome := by
            have := ht.2.2; rw [← hidx] at this; rw [this]; rfl
          have hok : o.loopOK t.1 = true := by
            cases hq : o.loopOK t.1 with
            | true => rfl
            | false => rw [ua.wf.adj.noself t.1 hq] at hself; cases hself
          rw [loopOK_congr ha.2.1 ju]
          unfold Qm.loopOK at hok ⊢
          rw [vju]; exact hok
        apply ih (fun x hx => hts x (List.mem_cons_of_mem _ hx))
        have sq := same_addQ acc ju jv t.2.2 false
        exact ⟨wq, sq.2.1.trans ha.2.1, by rw [sq.2.2.2.2.2.2.2]; exact ha.2.2⟩
    have w3 := key o.lowerTriples (fun _ h => h) m2 ⟨w2.1, w2.2.1, w2.2.2.1⟩
    exact w3.withOff _

/-- every call of the `QuadraticModel` interface preserves the invariant (the argument of `update` as in `UpdateArg`) -/
theorem WF.stepAll {m : Qm} (h : WF m) (op : Qm.Op) (hu : ∀ o, op = .update o → UpdateArg m o) : WF (m.step op).1 := by
  by_cases hq : ∃ o, op = .update o
  · obtain ⟨o, rfl⟩ := hq
    exact WF.update h (hu o rfl)
  · apply h.step op
    cases op <;> first | trivial | exact absurd ⟨_, rfl⟩ hq

end Qm
