import DimodModel.SymCmp
import DimodProofs.SymStore
import DimodProofs.SymStoreMore

/-! C06: hypothesis-free energy and class lemmas per operator dispatch path, two-operand comparisons,
    stored constraints, and the frame property of operator programs that are rejected half-way. -/

namespace Sym

/-! ### `+` / `-` per dispatch path: energies (no hypothesis on the sample) and the class of the result -/

theorem qmUpdate_isQM (m o m' : Model) (h : qmUpdate m o = .ok m') : m'.isQM = m.isQM := by
  unfold qmUpdate at h
  split at h
  · simp at h
  · simp only [Except.ok.injEq] at h; subst h; rfl

theorem mAdd_eval (a b m : Model) (x : Label → Rat) (h : mAdd a b = .ok m) : m.eval x = a.eval x + b.eval x := by
  unfold mAdd at h
  rcases isQM_cases a with hqa | hqa <;> rcases isQM_cases b with hqb | hqb <;> simp only [hqa, hqb] at h
  · exact eval_qmUpdate a b m x h
  · have := eval_qmUpdate a b.toQM m x h; rwa [eval_toQM] at this
  · have := eval_qmUpdate a.toQM b m x h; rwa [eval_toQM] at this
  · by_cases hd : bqmDiffer a b = true
    · simp only [hd, if_true] at h
      have := eval_qmUpdate a.toQM b.toQM m x h; rwa [eval_toQM, eval_toQM] at this
    · have hd' : bqmDiffer a b = false := by simpa using hd
      simp only [hd', Bool.false_eq_true, if_false, Except.ok.injEq] at h
      subst h; exact eval_bqmUpdate a b x

theorem mAdd_class (a b m : Model) (h : mAdd a b = .ok m) : m.isQM = (a.isQM || b.isQM || bqmDiffer a b) := by
  unfold mAdd at h
  rcases isQM_cases a with hqa | hqa <;> rcases isQM_cases b with hqb | hqb <;> simp only [hqa, hqb] at h
  · rw [qmUpdate_isQM _ _ _ h, hqa]; rfl
  · rw [qmUpdate_isQM _ _ _ h, hqa]; rfl
  · rw [qmUpdate_isQM _ _ _ h]; simp [Model.toQM, hqb]
  · by_cases hd : bqmDiffer a b = true
    · simp only [hd, if_true] at h
      rw [qmUpdate_isQM _ _ _ h]; simp [Model.toQM, hd]
    · have hd' : bqmDiffer a b = false := by simpa using hd
      simp only [hd', Bool.false_eq_true, if_false, Except.ok.injEq] at h
      subst h; simp [bqmUpdate, hqa, hqb, hd']

theorem negUpd_eval (a b m : Model) (x : Label → Rat)
    (h : (match qmUpdate (a.scale (-1)) b with | .ok m => Except.ok (m.scale (-1)) | .error e => .error e) = Except.ok m) :
    m.eval x = a.eval x - b.eval x ∧ m.isQM = a.isQM := by
  split at h
  · rename_i m1 hm1
    simp only [Except.ok.injEq] at h
    subst h
    refine ⟨by rw [eval_scale, eval_qmUpdate _ _ _ x hm1, eval_scale]; ring, ?_⟩
    have := qmUpdate_isQM _ _ _ hm1
    simpa [Model.scale] using this
  · simp at h

theorem mSub_eval_class (a b m : Model) (x : Label → Rat) (h : mSub a b = .ok m) :
    m.eval x = a.eval x - b.eval x ∧ m.isQM = (a.isQM || b.isQM || bqmDiffer a b) := by
  unfold mSub at h
  rcases isQM_cases a with hqa | hqa <;> rcases isQM_cases b with hqb | hqb <;> simp only [hqa, hqb] at h
  · obtain ⟨e, c⟩ := negUpd_eval a b m x h
    exact ⟨e, by rw [c, hqa]; rfl⟩
  · obtain ⟨e, c⟩ := negUpd_eval a b.toQM m x h
    exact ⟨by rw [e, eval_toQM], by rw [c, hqa]; rfl⟩
  · obtain ⟨e, c⟩ := negUpd_eval a.toQM b m x h
    exact ⟨by rw [e, eval_toQM], by rw [c]; simp [Model.toQM, hqb]⟩
  · by_cases hd : bqmDiffer a b = true
    · simp only [hd, if_true] at h
      obtain ⟨e, c⟩ := negUpd_eval a.toQM b.toQM m x h
      exact ⟨by rw [e, eval_toQM, eval_toQM], by rw [c]; simp [Model.toQM, hd]⟩
    · have hd' : bqmDiffer a b = false := by simpa using hd
      simp only [hd', Bool.false_eq_true, if_false, Except.ok.injEq] at h
      subst h
      refine ⟨by rw [eval_scale, eval_bqmUpdate, eval_scale]; ring, ?_⟩
      simp [bqmUpdate, Model.scale, hqa, hqb, hd']

/-! ### programs observed also when they raise -/

theorem execT_frame (p : List Instr) (h : Store) (n : Nat) (hn : n ≤ h.length) (hw : WritesFresh n p = true) :
    ∀ j, j < n → (execT h p).1[j]? = h[j]? := by
  induction p generalizing h with
  | nil => intro j _; rfl
  | cons i is ih =>
    simp only [WritesFresh, List.all_cons, Bool.and_eq_true] at hw
    intro j hj
    unfold execT
    cases hs : step h i with
    | error e => rfl
    | ok h1 =>
      have ht : ∀ d, i.target = some d → n ≤ d := by
        intro d hd
        have := hw.1
        rw [hd] at this
        simpa using this
      obtain ⟨hl, hf⟩ := step_frame h h1 i n hn ht hs
      show (execT h1 is).1[j]? = h[j]?
      rw [ih h1 (by omega) hw.2 j hj, hf j hj]

/-- `execT` is `exec` with the store kept when an instruction raises -/
theorem execT_exec (p : List Instr) (h : Store) :
    exec h p = (match (execT h p).2 with | none => .ok (execT h p).1 | some e => .error e) := by
  induction p generalizing h with
  | nil => rfl
  | cons i is ih =>
    unfold execT exec
    cases hs : step h i with
    | error e => rfl
    | ok h1 => exact ih h1

theorem compare_writes_fresh (a n : Nat) : WritesFresh n progCompare = true ∧ WritesFresh n (progAddConstraint a) = true := by
  constructor <;> simp [WritesFresh, progCompare, progAddConstraint, Instr.target]

/-! ### comparisons -/

theorem cmpVals_spec (s : Sense) (v w : Val) (k : Cmp) (x : Label → Rat) (h : cmpVals s v w = .ok (some k)) :
    ((k.sense = s ∧ k.lhs.eval x - k.rhs = v.eval x - w.eval x) ∨
     (k.sense = s.flip ∧ k.lhs.eval x - k.rhs = -(v.eval x - w.eval x))) ∧
    (k.holds x ↔ s.rel (v.eval x) (w.eval x)) := by
  unfold cmpVals at h
  split at h
  · simp only [Except.ok.injEq, Option.some.injEq] at h
    subst h
    refine ⟨Or.inl ⟨rfl, rfl⟩, ?_⟩
    cases s <;> exact Iff.rfl
  · simp only [Except.ok.injEq, Option.some.injEq] at h
    subst h
    refine ⟨Or.inr ⟨rfl, by simp only [Val.eval]; ring⟩, ?_⟩
    cases s
    · exact Iff.rfl
    · exact Iff.rfl
    · exact eq_comm
  · simp at h
  · split at h <;> simp at h

theorem cmpVals_refused (s : Sense) (v w : Val) (hv : ∀ q, v ≠ .num q) (hw : ∀ q, w ≠ .num q) :
    cmpVals s v w = if s = .eq then .ok none else .error .type := by
  cases v with
  | num q => exact absurd rfl (hv q)
  | mdl m =>
    cases w with
    | num q => exact absurd rfl (hw q)
    | mdl n => rfl
    | view o n => rfl
  | view o m =>
    cases w with
    | num q => exact absurd rfl (hw q)
    | mdl n => rfl
    | view o n => rfl

theorem buildCmp2_spec (s : Sense) (a b : SymExpr) (k : Cmp) (x : Label → Rat) (h : buildCmp2 s a b = .ok (some k))
    (hxa : ∀ l kd, a.HasLeaf l kd → InDom kd (x l)) (hxb : ∀ l kd, b.HasLeaf l kd → InDom kd (x l)) :
    ((k.sense = s ∧ k.lhs.eval x - k.rhs = a.eval x - b.eval x) ∨
     (k.sense = s.flip ∧ k.lhs.eval x - k.rhs = -(a.eval x - b.eval x))) ∧
    (k.holds x ↔ s.rel (a.eval x) (b.eval x)) := by
  unfold buildCmp2 at h
  cases ha : build a with
  | error e => rw [ha] at h; simp at h
  | ok va =>
    rw [ha] at h
    cases hb : build b with
    | error e => rw [hb] at h; simp at h
    | ok vb =>
      rw [hb] at h
      have h1 := cmpVals_spec s va vb k x h
      rw [(build_spec a x va ha hxa).2, (build_spec b x vb hb hxb).2] at h1
      exact h1

end Sym
