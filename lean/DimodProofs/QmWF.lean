import DimodProofs.BqmOps
import DimodModel.Qm

/-! Representation invariant of the `QuadraticModel` model (`Qm`): per-variable vartype / bounds in step with
    the linear biases, adjacency well-formed with self-loops only on INTEGER / REAL variables; preserved by the
    operations of `Qm.step` (all but `update`, see `Properties/C04.lean`).  Core Lean only. -/

namespace Bqm

/-- the self-loop clause can be weakened -/
theorem AdjWF.congr_loop {n adj l l'} (h : AdjWF n adj l) (hl : ∀ u, l' u = false → l u = false ∨ coefAt adj u u = none) :
    AdjWF n adj l' :=
  ⟨h.len, h.sorted, h.bound, h.symm, fun u hu => (hl u hu).elim (h.noself u) id⟩

/-- a true self-loop entry (`asymmetric_quadratic_ref(u, u)`) where it is allowed -/
theorem coefAt_selfLoop {n adj l} (h : AdjWF n adj l) (u : Nat) (b : Rat) (set : Bool) (hu : u < n) (x y : Nat) :
    coefAt (modifyAt adj u (fun nb => nbhAdd nb u b set)) x y =
      if x = u ∧ y = u then some (if set then b else (coefAt adj u u).getD 0 + b) else coefAt adj x y := by
  rw [coefAt_modifyAt]
  have hlt : u < adj.length := by rw [h.len]; exact hu
  by_cases hx : u = x
  · subst hx
    simp only [true_and, hlt, if_true]
    rw [nbhCoef_nbhAdd _ _ _ _ _ (h.sorted u)]
    by_cases hy : y = u
    · subst hy; simp [coefAt]
    · simp [hy, coefAt]
  · have hx' : ¬ x = u := fun e => hx e.symm
    simp [hx, hx']

theorem AdjWF.selfLoop {n adj l} (h : AdjWF n adj l) (u : Nat) (b : Rat) (set : Bool) (hu : u < n) (hl : l u = true) :
    AdjWF n (modifyAt adj u (fun nb => nbhAdd nb u b set)) l where
  len := by simp [h.len]
  sorted := by
    apply sorted_modifyAt _ _ _ h.sorted
    intro nb hs; exact sorted_nbhAdd nb u b set hs
  bound := by
    intro x y hs
    rw [coefAt_selfLoop h u b set hu] at hs
    split at hs
    · rename_i hc; rw [hc.2]; exact hu
    · exact h.bound x y hs
  symm := by
    intro x y
    rw [coefAt_selfLoop h u b set hu, coefAt_selfLoop h u b set hu]
    by_cases hc : x = u ∧ y = u
    · have hc' : y = u ∧ x = u := ⟨hc.2, hc.1⟩
      simp [hc, hc']
    · have hc' : ¬ (y = u ∧ x = u) := fun hh => hc ⟨hh.2, hh.1⟩
      simp only [hc, hc', if_false]; exact h.symm x y
  noself := by
    intro x hx
    rw [coefAt_selfLoop h u b set hu]
    have : ¬ (x = u ∧ x = u) := by
      intro hh; rw [hh.1] at hx; rw [hl] at hx; cases hx
    simp only [this, if_false]; exact h.noself x hx

theorem coefAt_dropSelf (adj : AdjT) (u : Nat) (hu : u < adj.length) (x y : Nat) :
    coefAt (modifyAt adj u (fun nb => nbhDrop nb u)) x y = if x = u ∧ y = u then none else coefAt adj x y := by
  rw [coefAt_modifyAt]
  by_cases hx : u = x
  · subst hx
    simp only [true_and, hu, if_true, nbhCoef_nbhDrop]
    by_cases hy : y = u
    · simp [hy]
    · simp [hy, coefAt]
  · have hx' : ¬ x = u := fun e => hx e.symm
    simp [hx, hx']

theorem AdjWF.dropSelf {n adj l} (h : AdjWF n adj l) (u : Nat) (hu : u < n) :
    AdjWF n (modifyAt adj u (fun nb => nbhDrop nb u)) l := by
  have hu' : u < adj.length := by rw [h.len]; exact hu
  refine ⟨by simp [h.len], ?_, ?_, ?_, ?_⟩
  · apply sorted_modifyAt _ _ _ h.sorted
    intro nb hs; exact sorted_nbhDrop nb u hs
  · intro x y hs
    rw [coefAt_dropSelf adj u hu'] at hs
    split at hs
    · simp at hs
    · exact h.bound x y hs
  · intro x y
    rw [coefAt_dropSelf adj u hu', coefAt_dropSelf adj u hu']
    by_cases hc : x = u ∧ y = u
    · have hc' : y = u ∧ x = u := ⟨hc.2, hc.1⟩
      simp [hc, hc']
    · have hc' : ¬ (y = u ∧ x = u) := fun hh => hc ⟨hh.2, hh.1⟩
      simp only [hc, hc', if_false]; exact h.symm x y
  · intro x hx
    rw [coefAt_dropSelf adj u hu']
    split
    · rfl
    · exact h.noself x hx

/-- multiplying the bias of the pair `{a, b}` (`a ≠ b`) on both sides -/
def mulKey (k : Nat) (s : Rat) (nb : List (Nat × Rat)) : List (Nat × Rat) :=
  nb.map fun (e : Nat × Rat) => if e.1 = k then (e.1, e.2 * s) else e

theorem nbhCoef_mulKey (k : Nat) (s : Rat) (nb : List (Nat × Rat)) (y : Nat) :
    nbhCoef (mulKey k s nb) y = if y = k then (nbhCoef nb y).map (· * s) else nbhCoef nb y := by
  induction nb with
  | nil => simp [mulKey, nbhCoef]
  | cons p t ih =>
    obtain ⟨w, c⟩ := p
    unfold mulKey at ih ⊢
    simp only [List.map_cons]
    by_cases hw : w = k
    · subst hw
      simp only [if_true, nbhCoef]
      by_cases hy : w = y
      · subst hy; simp
      · have : ¬ y = w := fun e => hy e.symm
        simp only [hy, if_false, this]
        rw [ih]; simp [this]
    · simp only [hw, if_false, nbhCoef]
      by_cases hy : w = y
      · subst hy; simp [hw]
      · simp only [hy, if_false]; exact ih

theorem sorted_mulKey (k : Nat) (s : Rat) (nb : List (Nat × Rat)) (h : NbSorted nb) : NbSorted (mulKey k s nb) := by
  unfold NbSorted mulKey at *
  rw [List.pairwise_map]
  refine List.Pairwise.imp ?_ h
  intro a b hab
  by_cases h1 : a.1 = k <;> by_cases h2 : b.1 = k <;> simp [h1, h2] <;> omega

def adjMulPair (adj : AdjT) (a b : Nat) (s : Rat) : AdjT := modifyAt (modifyAt adj a (mulKey b s)) b (mulKey a s)

theorem coefAt_adjMulPair (adj : AdjT) (a b : Nat) (s : Rat) (ha : a < adj.length) (hb : b < adj.length) (hne : a ≠ b) (x y : Nat) :
    coefAt (adjMulPair adj a b s) x y =
      if (x = a ∧ y = b) ∨ (x = b ∧ y = a) then (coefAt adj x y).map (· * s) else coefAt adj x y := by
  unfold adjMulPair
  rw [coefAt_modifyAt, length_modifyAt]
  by_cases hxb : b = x
  · subst hxb
    have hba : ¬ b = a := fun e => hne e.symm
    simp only [true_and, hb, if_true]
    rw [getD_modifyAt_ne _ _ _ _ _ hne, nbhCoef_mulKey]
    by_cases hy : y = a
    · subst hy; simp [coefAt]
    · simp [hy, hba, coefAt]
  · have hxb' : ¬ x = b := fun e => hxb e.symm
    simp only [hxb, false_and, if_false, hxb', or_false]
    rw [coefAt_modifyAt]
    by_cases hxa : a = x
    · subst hxa
      simp only [true_and, ha, if_true, nbhCoef_mulKey]
      by_cases hy : y = b
      · subst hy; simp [coefAt]
      · simp [hy, coefAt]
    · have hxa' : ¬ x = a := fun e => hxa e.symm
      simp [hxa, hxa']

theorem AdjWF.adjMulPair {n adj l} (h : AdjWF n adj l) (a b : Nat) (s : Rat) (ha : a < n) (hb : b < n) (hne : a ≠ b) :
    AdjWF n (adjMulPair adj a b s) l := by
  have ha' : a < adj.length := by rw [h.len]; exact ha
  have hb' : b < adj.length := by rw [h.len]; exact hb
  refine ⟨by simp [Bqm.adjMulPair, h.len], ?_, ?_, ?_, ?_⟩
  · unfold Bqm.adjMulPair
    apply sorted_modifyAt
    · apply sorted_modifyAt _ _ _ h.sorted
      intro nb hs; exact sorted_mulKey b s nb hs
    · intro nb hs; exact sorted_mulKey a s nb hs
  · intro x y hs
    rw [coefAt_adjMulPair adj a b s ha' hb' hne] at hs
    split at hs
    · exact h.bound x y (by simpa using hs)
    · exact h.bound x y hs
  · intro x y
    rw [coefAt_adjMulPair adj a b s ha' hb' hne, coefAt_adjMulPair adj a b s ha' hb' hne]
    by_cases hc : (x = a ∧ y = b) ∨ (x = b ∧ y = a)
    · have hc' : (y = a ∧ x = b) ∨ (y = b ∧ x = a) := by
        rcases hc with ⟨p, q⟩ | ⟨p, q⟩
        · right; exact ⟨q, p⟩
        · left; exact ⟨q, p⟩
      simp only [hc, hc', if_true]; rw [h.symm]
    · have hc' : ¬ ((y = a ∧ x = b) ∨ (y = b ∧ x = a)) := by
        intro hh; apply hc
        rcases hh with ⟨p, q⟩ | ⟨p, q⟩
        · right; exact ⟨q, p⟩
        · left; exact ⟨q, p⟩
      simp only [hc, hc', if_false]; exact h.symm x y
  · intro x hx
    rw [coefAt_adjMulPair adj a b s ha' hb' hne]
    have : ¬ ((x = a ∧ x = b) ∨ (x = b ∧ x = a)) := by
      intro hh; rcases hh with ⟨p, q⟩ | ⟨p, q⟩
      · exact hne (p.symm.trans q)
      · exact hne (q.symm.trans p)
    simp only [this, if_false]; exact h.noself x hx

end Bqm

namespace Qm
open Bqm

/-- a self-loop may sit on an INTEGER / REAL variable only -/
def loopOK (m : Qm) (u : Nat) : Bool := !(isBin (m.vtAt u))

structure WF (m : Qm) : Prop where
  labels_len : m.labels.length = m.lin.length
  vt_len : m.vt.length = m.lin.length
  lb_len : m.lb.length = m.lin.length
  ub_len : m.ub.length = m.lin.length
  adj : AdjWF m.lin.length m.adj m.loopOK

theorem WF.empty (a b : Rat) : WF (Qm.empty a b) := ⟨rfl, rfl, rfl, rfl, AdjWF.nil _⟩

theorem indexOf?_lt {m : Qm} (h : WF m) {v : Label} {i : Nat} (hi : m.indexOf? v = some i) : i < m.lin.length := by
  have := indexOfGo_some v m.labels 0 i hi
  rw [← h.labels_len]; omega

/-- linear biases, offset, labels (same length), bounds: nothing the adjacency clause looks at -/
theorem WF.withLin {m : Qm} (h : WF m) (i : Nat) (f : Rat → Rat) : WF { m with lin := modifyAt m.lin i f } := by
  refine ⟨by simp [h.labels_len], by simp [h.vt_len], by simp [h.lb_len], by simp [h.ub_len], ?_⟩
  show AdjWF (modifyAt m.lin i f).length m.adj _
  rw [length_modifyAt]; exact h.adj

theorem WF.withOff {m : Qm} (h : WF m) (x : Rat) : WF { m with off := x } := ⟨h.labels_len, h.vt_len, h.lb_len, h.ub_len, h.adj⟩

theorem WF.withLb {m : Qm} (h : WF m) (i : Nat) (f : Rat → Rat) : WF { m with lb := modifyAt m.lb i f } :=
  ⟨h.labels_len, h.vt_len, by simp [h.lb_len], h.ub_len, h.adj⟩

theorem WF.withUb {m : Qm} (h : WF m) (i : Nat) (f : Rat → Rat) : WF { m with ub := modifyAt m.ub i f } :=
  ⟨h.labels_len, h.vt_len, h.lb_len, by simp [h.ub_len], h.adj⟩

theorem WF.withLabels {m : Qm} (h : WF m) (ls : List Label) (hl : ls.length = m.labels.length) : WF { m with labels := ls } :=
  ⟨by simp [hl, h.labels_len], h.vt_len, h.lb_len, h.ub_len, h.adj⟩

theorem WF.addQ {m : Qm} (h : WF m) (u v : Nat) (b : Rat) (set : Bool) (hu : u < m.lin.length) (hv : v < m.lin.length)
    (hl : u = v → m.loopOK u = true) : WF (m.addQ u v b set) := by
  unfold Qm.addQ
  by_cases huv : u = v
  · simp only [huv, if_true]
    subst huv
    exact ⟨h.labels_len, h.vt_len, h.lb_len, h.ub_len, h.adj.selfLoop u b set hu (hl rfl)⟩
  · simp only [huv, if_false]
    exact ⟨h.labels_len, h.vt_len, h.lb_len, h.ub_len, h.adj.adjSym u v b set hu hv huv⟩

theorem WF.quadOp {m : Qm} (h : WF m) (u v : Label) (b : Rat) (set : Bool) : WF (m.quadOp u v b set).1 := by
  unfold Qm.quadOp
  cases hu : m.indexOf? u with
  | none => exact h
  | some ui =>
    cases hv : m.indexOf? v with
    | none => exact h
    | some vi =>
      simp only []
      split
      · rename_i hq
        refine h.addQ ui vi b set (indexOf?_lt h hu) (indexOf?_lt h hv) ?_
        intro e
        subst e
        unfold Qm.quadAllowed at hq
        unfold Qm.loopOK
        simp at hq
        cases hb : isBin (m.vtAt ui) with
        | true => simp [hb] at hq
        | false => rfl
      · exact h

theorem WF.removeInteraction {m : Qm} (h : WF m) (u v : Label) : WF (m.removeInteraction u v).1 := by
  unfold Qm.removeInteraction
  cases hu : m.indexOf? u with
  | none => exact h
  | some ui =>
    cases hv : m.indexOf? v with
    | none => exact h
    | some vi =>
      simp only []
      cases m.quadAt ui vi with
      | none => exact h
      | some c =>
        simp only []
        split
        · exact ⟨h.labels_len, h.vt_len, h.lb_len, h.ub_len, h.adj.dropSelf ui (indexOf?_lt h hu)⟩
        · exact ⟨h.labels_len, h.vt_len, h.lb_len, h.ub_len, h.adj.adjDrop ui vi (indexOf?_lt h hu) (indexOf?_lt h hv)⟩

theorem WF.removeAt {m : Qm} (h : WF m) (vi : Nat) (hvi : vi < m.lin.length) : WF (m.removeAt vi) := by
  have hl : (eraseIdx m.lin vi).length = m.lin.length - 1 := length_eraseIdx _ _ hvi
  have e (l : List Rat) (hh : l.length = m.lin.length) : (eraseIdx l vi).length = (eraseIdx m.lin vi).length := by
    rw [hl, length_eraseIdx _ _ (by rw [hh]; exact hvi), hh]
  refine ⟨?_, ?_, e _ h.lb_len, e _ h.ub_len, ?_⟩
  · show (eraseIdx m.labels vi).length = (eraseIdx m.lin vi).length
    rw [hl, length_eraseIdx _ _ (by rw [h.labels_len]; exact hvi), h.labels_len]
  · show (eraseIdx m.vt vi).length = (eraseIdx m.lin vi).length
    rw [hl, length_eraseIdx _ _ (by rw [h.vt_len]; exact hvi), h.vt_len]
  · show AdjWF (eraseIdx m.lin vi).length (adjRemove m.adj vi) _
    rw [hl]
    have := h.adj.adjRemove vi hvi
    refine this.congr_loop ?_
    intro u hu
    left
    unfold Qm.loopOK Qm.vtAt at hu ⊢
    show (!isBin (m.vt.getD (skip vi u) QVT.binary)) = false
    have : (eraseIdx m.vt vi).getD u QVT.binary = m.vt.getD (skip vi u) QVT.binary := getD_eraseIdx _ _ _ _
    rw [← this]; exact hu

theorem WF.removeVariable {m : Qm} (h : WF m) (v : Option Label) : WF (m.removeVariable v).1 := by
  unfold Qm.removeVariable
  cases v with
  | none =>
    simp only []
    split
    · exact h
    · rename_i hn
      have hn' : m.lin.length ≠ 0 := hn
      exact h.removeAt _ (by show m.lin.length - 1 < m.lin.length; omega)
  | some v =>
    simp only []
    cases hi : m.indexOf? v with
    | none => exact h
    | some i => exact h.removeAt i (indexOf?_lt h hi)

theorem WF.scale {m : Qm} (h : WF m) (s : Rat) : WF (m.scale s) := by
  refine ⟨by simp [Qm.scale, h.labels_len], by simp [Qm.scale, h.vt_len], by simp [Qm.scale, h.lb_len], by simp [Qm.scale, h.ub_len], ?_⟩
  show AdjWF (m.lin.map (· * s)).length (adjScale m.adj s) _
  rw [List.length_map]; exact h.adj.adjScale s

/-- a new variable at the end -/
theorem WF.push {m : Qm} (h : WF m) (lbl : Label) (t : QVT) (l u : Rat) :
    WF { m with labels := m.labels ++ [lbl], vt := m.vt ++ [t], lb := m.lb ++ [l], ub := m.ub ++ [u],
                lin := m.lin ++ [0], adj := m.adj ++ [[]] } := by
  refine ⟨by simp [h.labels_len], by simp [h.vt_len], by simp [h.lb_len], by simp [h.ub_len], ?_⟩
  show AdjWF (m.lin ++ [0]).length (m.adj ++ [[]]) _
  rw [List.length_append]
  refine (h.adj.push).congr_loop ?_
  intro x hx
  by_cases hlt : x < m.lin.length
  · left
    unfold Qm.loopOK Qm.vtAt at hx ⊢
    have : (m.vt ++ [t]).getD x QVT.binary = m.vt.getD x QVT.binary := by
      simp [List.getD, List.getElem?_append_left (by rw [h.vt_len]; exact hlt : x < m.vt.length)]
    simp only [this] at hx; exact hx
  · right
    rw [coefAt_push]; exact coefAt_of_ge _ _ _ (by rw [h.adj.len]; omega)

theorem WF.addVariable {m : Qm} (h : WF m) (t : QVT) (v : Option Label) (lb ub : Option Rat) : WF (m.addVariable t v lb ub).1 := by
  unfold Qm.addVariable
  simp only []
  split
  · split
    · exact h
    · split
      · exact h
      · split
        · exact h
        · split <;> exact h
  · split
    · exact h
    · exact h.push _ _ _ _

theorem WF.addLinear {m : Qm} (h : WF m) (v : Label) (b : Rat) (d : Option (QVT × Option Rat × Option Rat)) : WF (m.addLinear v b d).1 := by
  unfold Qm.addLinear
  cases hi : m.indexOf? v with
  | some i => exact h.withLin _ _
  | none =>
    cases d with
    | none => exact h
    | some tlu =>
      obtain ⟨t, lb, ub⟩ := tlu
      simp only []
      have := h.addVariable t (some v) lb ub
      cases hr : m.addVariable t (some v) lb ub with
      | mk m' e =>
        rw [hr] at this
        cases e with
        | none => exact WF.withLin this _ _
        | some e => exact this

theorem WF.setLinear {m : Qm} (h : WF m) (v : Label) (b : Rat) : WF (m.setLinear v b).1 := by
  unfold Qm.setLinear
  split
  · exact h.withLin _ _
  · exact h

theorem WF.fixVariable {m : Qm} (h : WF m) (v : Label) (a : Rat) : WF (m.fixVariable v a).1 := by
  unfold Qm.fixVariable
  cases hv : m.indexOf? v with
  | none => exact h
  | some vi =>
    simp only []
    have hlen : ∀ (nb : List (Nat × Rat)) (lin : List Rat),
        (nb.foldl (fun l p => modifyAt l p.1 (· + a * p.2)) lin).length = lin.length := by
      intro nb; induction nb with
      | nil => intro lin; rfl
      | cons p t ih => intro lin; simp only [List.foldl]; rw [ih]; simp
    have h1 : WF { m with lin := (m.nbhAt vi).foldl (fun l p => modifyAt l p.1 (· + a * p.2)) m.lin,
                          off := m.off + a * ((m.nbhAt vi).foldl (fun l p => modifyAt l p.1 (· + a * p.2)) m.lin).getD vi 0 } := by
      refine ⟨by simp [hlen, h.labels_len], by simp [hlen, h.vt_len], by simp [hlen, h.lb_len], by simp [hlen, h.ub_len], ?_⟩
      show AdjWF ((m.nbhAt vi).foldl _ m.lin).length m.adj _
      rw [hlen]; exact h.adj
    exact h1.removeAt vi (by show vi < ((m.nbhAt vi).foldl _ m.lin).length; rw [hlen]; exact indexOf?_lt h hv)

theorem WF.relabel {m : Qm} (h : WF m) (mp : List (Label × Label)) : WF (m.relabel mp).1 := by
  unfold Qm.relabel
  have hl := lspec_relabel_length m.labels mp
  cases hs : LSpec.step m.labels (.relabel mp) with
  | mk l ok =>
    rw [hs] at hl
    cases ok with
    | true => exact h.withLabels l hl
    | false => exact h

theorem WF.relabelInts {m : Qm} (h : WF m) : WF m.relabelInts := h.withLabels _ (by simp)

theorem WF.clear {m : Qm} (_h : WF m) : WF m.clear := ⟨rfl, rfl, rfl, rfl, AdjWF.nil _⟩

theorem WF.setBound {m : Qm} (h : WF m) (v : Label) (x : Rat) (lower : Bool) : WF (m.setBound v x lower).1 := by
  unfold Qm.setBound
  split
  · exact h
  · simp only []
    split
    · exact h
    · split
      · split
        · exact h
        · split
          · exact h
          · split
            · exact h
            · exact h.withLb _ _
      · split
        · exact h
        · split
          · exact h
          · split
            · exact h
            · exact h.withUb _ _

theorem foldl_pres {α} (P : Qm → Prop) (f : Qm → α → Qm) (hf : ∀ m a, P m → P (f m a)) (l : List α) (m : Qm)
    (h : P m) : P (l.foldl f m) := by
  induction l generalizing m with
  | nil => exact h
  | cons a t ih => exact ih _ (hf m a h)

theorem WF.addLinearFrom {m : Qm} (h : WF m) (d : Option (QVT × Option Rat × Option Rat)) (l : List (Option Label × Rat)) :
    WF (m.addLinearFrom d l).1 := by
  induction l generalizing m with
  | nil => exact h
  | cons p t ih =>
    obtain ⟨v, b⟩ := p
    cases v with
    | none => exact h
    | some v =>
      simp only [Qm.addLinearFrom]
      have := h.addLinear v b d
      split
      · rename_i m' heq; rw [heq] at this; exact ih this
      · rename_i r hne
        exact this

theorem WF.addQuadraticFrom {m : Qm} (h : WF m) (l : List (Option Label × Option Label × Rat)) : WF (m.addQuadraticFrom l).1 := by
  induction l generalizing m with
  | nil => exact h
  | cons p t ih =>
    obtain ⟨u, v, b⟩ := p
    cases u with
    | none => exact h
    | some u =>
      cases v with
      | none => exact h
      | some v =>
        simp only [Qm.addQuadraticFrom]
        have := h.quadOp u v b false
        split
        · rename_i m' heq; rw [heq] at this; exact ih this
        · exact this

theorem WF.addVariablesFrom {m : Qm} (h : WF m) (t : QVT) (f : Bool) (l : List (Option Label)) : WF (m.addVariablesFrom t f l).1 := by
  induction l generalizing m with
  | nil => simp only [Qm.addVariablesFrom]; split <;> exact h
  | cons v rest ih =>
    simp only [Qm.addVariablesFrom]
    have := h.addVariable t v none none
    split
    · rename_i m' heq; rw [heq] at this; exact ih this
    · exact this

/-! ### change of vartype of one variable (`substitute_variable`), flip, spin_to_binary -/

theorem foldl_pres_mem {α} (P : Qm → Prop) (f : Qm → α → Qm) (l : List α) (hf : ∀ acc a, a ∈ l → P acc → P (f acc a))
    (m : Qm) (h : P m) : P (l.foldl f m) := by
  induction l generalizing m with
  | nil => exact h
  | cons a t ih =>
    simp only [List.foldl]
    exact ih (fun acc b hb => hf acc b (List.mem_cons_of_mem _ hb)) _ (hf m a (by simp) h)

theorem nbh_facts {m : Qm} (h : WF m) (v : Nat) (hns : coefAt m.adj v v = none) :
    ∀ p ∈ m.nbhAt v, p.1 < m.lin.length ∧ p.1 ≠ v := by
  intro p hp
  have hsome : (coefAt m.adj v p.1).isSome := by
    show (nbhCoef (m.adj.getD v []) p.1).isSome
    rw [nbhCoef_isSome_iff]; exact ⟨p, hp, rfl⟩
  refine ⟨h.adj.bound v p.1 hsome, ?_⟩
  intro e; rw [e, hns] at hsome; cases hsome

theorem WF.substituteVariable {m : Qm} (h : WF m) (v : Nat) (mult c : Rat) (hv : v < m.lin.length)
    (hns : coefAt m.adj v v = none) :
    WF (m.substituteVariable v mult c) ∧ (m.substituteVariable v mult c).vt = m.vt ∧
    (m.substituteVariable v mult c).lin.length = m.lin.length := by
  unfold Qm.substituteVariable
  have h0 : WF { m with off := m.off + m.linAt v * c, lin := modifyAt m.lin v (· * mult) } := (h.withLin v _).withOff _
  have facts := nbh_facts h v hns
  let P : Qm → Prop := fun acc => WF acc ∧ acc.vt = m.vt ∧ acc.lin.length = m.lin.length
  show P _
  apply foldl_pres_mem P
  · intro acc p hp ⟨hw, hvt, hlen⟩
    have hp' := facts p hp
    unfold Qm.substStep
    rw [if_neg hp'.2]
    have w1 : WF { acc with lin := modifyAt acc.lin p.1 (· + p.2 * c) } := hw.withLin _ _
    refine ⟨?_, hvt, by simp [hlen]⟩
    refine ⟨by simp [hw.labels_len], by simp [hw.vt_len], by simp [hw.lb_len], by simp [hw.ub_len], ?_⟩
    show AdjWF (modifyAt acc.lin p.1 _).length (adjMulPair acc.adj p.1 v mult) _
    rw [length_modifyAt]
    exact hw.adj.adjMulPair p.1 v mult (by rw [hlen]; exact hp'.1) (by rw [hlen]; exact hv) hp'.2
  · exact ⟨h0, rfl, by simp⟩

theorem loopOK_false_of_bin {m : Qm} {v : Nat} (hb : isBin (m.vtAt v) = true) : m.loopOK v = false := by
  unfold Qm.loopOK; rw [hb]; rfl

theorem WF.setInfo {m : Qm} (h : WF m) (v : Nat) (t : QVT) (l u : Rat) (hns : coefAt m.adj v v = none) : WF (m.setInfo v t l u) := by
  refine ⟨h.labels_len, by simp [Qm.setInfo, h.vt_len], by simp [Qm.setInfo, h.lb_len], by simp [Qm.setInfo, h.ub_len], ?_⟩
  refine h.adj.congr_loop ?_
  intro x hx
  by_cases hxv : x = v
  · right; rw [hxv]; exact hns
  · left
    unfold Qm.loopOK Qm.vtAt at hx ⊢
    unfold Qm.setInfo at hx
    simp only [] at hx
    rw [getD_modifyAt_ne _ _ _ _ _ (fun e => hxv e.symm)] at hx
    exact hx

theorem lin_addQ (m : Qm) (u v : Nat) (b : Rat) (set : Bool) : (m.addQ u v b set).lin = m.lin := by
  unfold Qm.addQ; split <;> rfl

theorem WF.setVt {m : Qm} (h : WF m) (v : Nat) (t : QVT) (hns : coefAt m.adj v v = none) :
    WF { m with vt := modifyAt m.vt v (fun _ => t) } := by
  refine ⟨h.labels_len, by simp [h.vt_len], h.lb_len, h.ub_len, ?_⟩
  refine h.adj.congr_loop ?_
  intro x hx
  by_cases hxv : x = v
  · right; rw [hxv]; exact hns
  · left
    unfold Qm.loopOK Qm.vtAt at hx ⊢
    simp only [] at hx
    rw [getD_modifyAt_ne _ _ _ _ _ (fun e => hxv e.symm)] at hx
    exact hx

theorem WF.changeVartypeAt {m : Qm} (h : WF m) (t : QVT) (v : Nat) (hv : v < m.lin.length) : WF (m.changeVartypeAt t v).1 := by
  unfold Qm.changeVartypeAt
  have noself : isBin (m.vtAt v) = true → coefAt m.adj v v = none := fun hb => h.adj.noself v (loopOK_false_of_bin hb)
  cases hs : m.vtAt v <;> cases t <;> simp only [] <;> try exact h
  · -- spin → binary
    have hns := noself (by rw [hs]; rfl)
    have s := h.substituteVariable v 2 (-1) hv hns
    refine s.1.setInfo v _ _ _ ?_
    exact s.1.adj.noself v (by unfold Qm.loopOK Qm.vtAt; rw [s.2.1]; show (!isBin (m.vtAt v)) = false; rw [hs]; rfl)
  · -- spin → integer
    have hns := noself (by rw [hs]; rfl)
    have s := h.substituteVariable v 2 (-1) hv hns
    have hns2 : coefAt (m.substituteVariable v 2 (-1)).adj v v = none :=
      s.1.adj.noself v (by unfold Qm.loopOK Qm.vtAt; rw [s.2.1]; show (!isBin (m.vtAt v)) = false; rw [hs]; rfl)
    have w := s.1.setInfo v .binary 0 1 hns2
    exact w.setVt v .integer (by simpa [Qm.setInfo] using hns2)
  · -- binary → spin
    have hns := noself (by rw [hs]; rfl)
    have s := h.substituteVariable v (1/2) (1/2) hv hns
    refine s.1.setInfo v _ _ _ ?_
    exact s.1.adj.noself v (by unfold Qm.loopOK Qm.vtAt; rw [s.2.1]; show (!isBin (m.vtAt v)) = false; rw [hs]; rfl)
  · -- binary → integer
    exact h.setVt v .integer (noself (by rw [hs]; rfl))

theorem WF.changeVartype {m : Qm} (h : WF m) (t : QVT) (v : Label) : WF (m.changeVartype t v).1 := by
  unfold Qm.changeVartype
  cases hi : m.indexOf? v with
  | none => exact h
  | some vi => exact h.changeVartypeAt t vi (indexOf?_lt h hi)

theorem WF.spinToBinary {m : Qm} (h : WF m) : WF m.spinToBinary := by
  unfold Qm.spinToBinary
  apply foldl_pres WF _ _ _ _ h
  intro acc i ha
  split
  · rename_i hs
    apply ha.changeVartypeAt
    -- a SPIN entry exists only inside the vartype vector
    rcases Nat.lt_or_ge i acc.vt.length with hlt | hge
    · rw [← ha.vt_len]; exact hlt
    · unfold Qm.vtAt at hs; rw [getD_of_ge _ _ _ hge] at hs; cases hs
  · exact ha

theorem WF.flip {m : Qm} (h : WF m) (v : Label) : WF (m.flip v).1 := by
  unfold Qm.flip
  cases hv : m.indexOf? v with
  | none => exact h
  | some vi =>
    simp only []
    have hvi := indexOf?_lt h hv
    have step : ∀ (hb : isBin (m.vtAt vi) = true) (g : Qm → Nat × Rat → Qm)
        (hg : ∀ acc p, (WF acc ∧ acc.lin.length = m.lin.length) → p.1 < m.lin.length → p.1 ≠ vi →
          (WF (g acc p) ∧ (g acc p).lin.length = m.lin.length)),
        WF ((m.nbhAt vi).foldl g m) ∧ ((m.nbhAt vi).foldl g m).lin.length = m.lin.length := by
      intro hb g hg
      have facts := nbh_facts h vi (h.adj.noself vi (loopOK_false_of_bin hb))
      apply foldl_pres_mem (fun acc => WF acc ∧ acc.lin.length = m.lin.length)
      · intro acc p hp ha; exact hg acc p ha (facts p hp).1 (facts p hp).2
      · exact ⟨h, rfl⟩
    cases hs : m.vtAt vi with
    | spin =>
      simp only []
      have r := step (by rw [hs]; rfl) (flipStepSpin vi) (by
        intro acc p ha hp hne
        exact ⟨ha.1.addQ p.1 vi _ true (by rw [ha.2]; exact hp) (by rw [ha.2]; exact hvi) (fun e => absurd e hne),
          by unfold Qm.flipStepSpin; rw [lin_addQ]; exact ha.2⟩)
      exact WF.withLin r.1 _ _
    | binary =>
      simp only []
      have r := step (by rw [hs]; rfl) (flipStepBinary vi) (by
        intro acc p ha hp hne
        have w := ha.1.addQ p.1 vi (-1 * p.2) true (by rw [ha.2]; exact hp) (by rw [ha.2]; exact hvi) (fun e => absurd e hne)
        refine ⟨w.withLin _ _, ?_⟩
        show (modifyAt (acc.addQ p.1 vi (-1 * p.2) true).lin p.1 _).length = m.lin.length
        rw [length_modifyAt, lin_addQ]; exact ha.2)
      exact WF.withLin (WF.withOff r.1 _) _ _
    | integer => exact h
    | real => exact h

/-- what `Qm.step` can do besides `update` -/
def NotUpdate : Qm.Op → Prop
  | .update _ => False
  | _ => True

/-- every call of the `QuadraticModel` interface except `update` preserves the invariant -/
theorem WF.step {m : Qm} (h : WF m) (op : Qm.Op) (hn : NotUpdate op) : WF (m.step op).1 := by
  cases op <;> simp only [Qm.step]
  case malformed => exact h
  case addVariable t v lb ub => exact h.addVariable t v lb ub
  case addLinear v b d => cases v <;> first | exact h | exact h.addLinear _ _ _
  case setLinear v b => cases v <;> first | exact h | exact h.setLinear _ _
  case addQuadratic u v b => cases u <;> cases v <;> first | exact h | exact h.quadOp _ _ _ _
  case setQuadratic u v b => cases u <;> cases v <;> first | exact h | exact h.quadOp _ _ _ _
  case removeInteraction u v => exact h.removeInteraction u v
  case removeVariable v => exact h.removeVariable v
  case scale s => exact h.scale s
  case setOffset b => exact h.withOff b
  case changeVartype t v => exact h.changeVartype t v
  case fixVariable v a => exact h.fixVariable v a
  case flip v => exact h.flip v
  case relabel mp => exact h.relabel mp
  case relabelInts => exact h.relabelInts
  case clear => exact h.clear
  case setLowerBound v x => exact h.setBound v x true
  case setUpperBound v x => exact h.setBound v x false
  case spinToBinary => exact h.spinToBinary
  case update o => exact absurd hn id
  case addLinearFrom d l => exact h.addLinearFrom d l
  case addQuadraticFrom l => exact h.addQuadraticFrom l
  case addVariablesFrom t l f => exact h.addVariablesFrom t f l

end Qm
