import DimodProofs.CqmBuild
import Mathlib.Algebra.BigOperators.Group.List.Basic

/-! `abc.h:substitute_variable(v, m, c)` (with the self-loop branch of the D4 repair) is the algebraic
    substitution x_v ↦ m·x_v + c on the stored coefficients — property C05 (fix / flip / change_vartype keep
    every other term attached to its variable) and the statement that makes the repair of D4 matter. -/

namespace CqmP
open QB

def linAt (q : QB) (i : Nat) : Rat := q.lin.getD i 0
def qAt (q : QB) (i j : Nat) : Rat := QB.nbhCoef (q.adj.getD i []) j

theorem nbhCoef_scaleEntry (nb : List (Nat × Rat)) (w : Nat) (μ : Rat) (k : Nat) :
    QB.nbhCoef (QB.scaleEntry nb w μ) k = if k = w then QB.nbhCoef nb k * μ else QB.nbhCoef nb k := by
  unfold QB.scaleEntry
  induction nb with
  | nil => simp [QB.nbhCoef]
  | cons p t ih =>
    obtain ⟨a, x⟩ := p
    rw [List.map_cons]
    by_cases haw : a = w
    · rw [if_pos haw]
      rw [QB.nbhCoef, QB.nbhCoef]
      by_cases hak : a = k
      · rw [if_pos hak, if_pos hak, if_pos (hak.symm.trans haw)]
      · rw [if_neg hak, if_neg hak]; exact ih
    · rw [if_neg haw]
      rw [QB.nbhCoef, QB.nbhCoef]
      by_cases hak : a = k
      · rw [if_pos hak, if_pos hak, if_neg (fun h => haw (hak.trans h))]
      · rw [if_neg hak, if_neg hak]; exact ih

theorem getD_modifyAt_gen {α} (l : List α) (i j : Nat) (f : α → α) (d : α) :
    (Bqm.modifyAt l i f).getD j d = if j = i ∧ i < l.length then f (l.getD i d) else l.getD j d := by
  induction l generalizing i j with
  | nil => cases i <;> simp [Bqm.modifyAt]
  | cons a t ih =>
    cases i with
    | zero =>
      cases j with
      | zero => simp [Bqm.modifyAt]
      | succ j => simp [Bqm.modifyAt]
    | succ i =>
      cases j with
      | zero => simp [Bqm.modifyAt]
      | succ j =>
        simp only [Bqm.modifyAt, List.getD_cons_succ, List.length_cons, Nat.add_lt_add_iff_right, Nat.add_right_cancel_iff]
        exact ih i j

theorem getD_modifyAt_adj (adj : List (List (Nat × Rat))) (i j : Nat) (f : List (Nat × Rat) → List (Nat × Rat))
    (hf : f [] = []) : (Bqm.modifyAt adj i f).getD j [] = if j = i then f (adj.getD i []) else adj.getD j [] := by
  rw [getD_modifyAt_gen]
  by_cases h : j = i
  · subst h
    by_cases hl : j < adj.length
    · rw [if_pos ⟨rfl, hl⟩, if_pos rfl]
    · rw [if_neg (fun h => hl h.2), if_pos rfl]
      have : adj.getD j [] = [] := by
        rw [List.getD_eq_getElem?_getD, List.getElem?_eq_none (by omega)]; rfl
      rw [this, hf]
  · rw [if_neg (fun h' => h h'.1), if_neg h]

theorem scaleEntry_nil (w : Nat) (μ : Rat) : QB.scaleEntry [] w μ = [] := rfl

theorem getD_modifyAt_lin (l : List Rat) (i j : Nat) (f : Rat → Rat) (hi : i < l.length) :
    (Bqm.modifyAt l i f).getD j 0 = if j = i then f (l.getD i 0) else l.getD j 0 := by
  rw [getD_modifyAt_gen]
  by_cases h : j = i
  · rw [if_pos ⟨h, hi⟩, if_pos h]
  · rw [if_neg (fun h' => h h'.1), if_neg h]

/-! ### one step of the loop -/

theorem substStep_self {q : QB} {v : Nat} (hv : v < q.lin.length) (m c b : Rat) :
    let q' := QB.substStep true v m c q (v, b)
    q'.off = q.off + b * c * c
    ∧ (∀ k, linAt q' k = if k = v then linAt q k + 2 * b * m * c else linAt q k)
    ∧ (∀ i k, qAt q' i k = if i = v ∧ k = v then qAt q v v * (m * m) else qAt q i k) := by
  intro q'
  have hq' : q' = { q with off := q.off + b * c * c, lin := Bqm.modifyAt q.lin v (· + 2 * b * m * c),
                            adj := Bqm.modifyAt q.adj v (QB.scaleEntry · v (m * m)) } := by
    show QB.substStep true v m c q (v, b) = _
    unfold QB.substStep; simp
  refine ⟨by rw [hq'], ?_, ?_⟩
  · intro k
    unfold linAt
    rw [hq']
    show (Bqm.modifyAt q.lin v (· + 2 * b * m * c)).getD k 0 = _
    rw [getD_modifyAt_lin _ _ _ _ hv]
    by_cases hk : k = v
    · rw [if_pos hk, if_pos hk, hk]
    · rw [if_neg hk, if_neg hk]
  · intro i k
    unfold qAt
    rw [hq']
    show QB.nbhCoef ((Bqm.modifyAt q.adj v (fun nb => QB.scaleEntry nb v (m * m))).getD i []) k = _
    rw [getD_modifyAt_adj q.adj v i (fun nb => QB.scaleEntry nb v (m * m)) rfl]
    by_cases hiv : i = v
    · rw [if_pos hiv, nbhCoef_scaleEntry, hiv]
      by_cases hkv : k = v
      · rw [if_pos hkv, if_pos ⟨rfl, hkv⟩, hkv]
      · rw [if_neg hkv, if_neg (fun h => hkv h.2)]
    · rw [if_neg hiv, if_neg (fun h => hiv h.1)]

theorem substStep_other {q : QB} {v w : Nat} (hw : w < q.lin.length) (hwv : w ≠ v) (m c b : Rat) :
    let q' := QB.substStep true v m c q (w, b)
    q'.off = q.off
    ∧ (∀ k, linAt q' k = if k = w then linAt q k + b * c else linAt q k)
    ∧ (∀ i k, qAt q' i k = if (i = v ∧ k = w) ∨ (i = w ∧ k = v) then qAt q i k * m else qAt q i k) := by
  intro q'
  have hq' : q' = { q with lin := Bqm.modifyAt q.lin w (· + b * c),
                            adj := Bqm.modifyAt (Bqm.modifyAt q.adj w (QB.scaleEntry · v m)) v (QB.scaleEntry · w m) } := by
    show QB.substStep true v m c q (w, b) = _
    unfold QB.substStep; simp [hwv]
  refine ⟨by rw [hq'], ?_, ?_⟩
  · intro k
    unfold linAt
    rw [hq']
    show (Bqm.modifyAt q.lin w (· + b * c)).getD k 0 = _
    rw [getD_modifyAt_lin _ _ _ _ hw]
    by_cases hk : k = w
    · rw [if_pos hk, if_pos hk, hk]
    · rw [if_neg hk, if_neg hk]
  · intro i k
    unfold qAt
    rw [hq']
    show QB.nbhCoef ((Bqm.modifyAt (Bqm.modifyAt q.adj w (fun nb => QB.scaleEntry nb v m)) v (fun nb => QB.scaleEntry nb w m)).getD i []) k = _
    rw [getD_modifyAt_adj _ v i (fun nb => QB.scaleEntry nb w m) rfl]
    by_cases hiv : i = v
    · rw [if_pos hiv, getD_modifyAt_adj q.adj w v (fun nb => QB.scaleEntry nb v m) rfl, if_neg (fun h => hwv h.symm), nbhCoef_scaleEntry, hiv]
      by_cases hkw : k = w
      · rw [if_pos hkw, if_pos (Or.inl ⟨rfl, hkw⟩)]
      · rw [if_neg hkw, if_neg]
        intro h; rcases h with ⟨_, h⟩ | ⟨h, _⟩
        · exact hkw h
        · exact hwv h.symm
    · rw [if_neg hiv, getD_modifyAt_adj q.adj w i (fun nb => QB.scaleEntry nb v m) rfl]
      by_cases hiw : i = w
      · rw [if_pos hiw, nbhCoef_scaleEntry, hiw]
        by_cases hkv : k = v
        · rw [if_pos hkv, if_pos (Or.inr ⟨rfl, hkv⟩)]
        · rw [if_neg hkv, if_neg]
          intro h; rcases h with ⟨h, _⟩ | ⟨_, h⟩
          · exact hwv h
          · exact hkv h
      · rw [if_neg hiw, if_neg]
        intro h; rcases h with ⟨h, _⟩ | ⟨h, _⟩
        · exact hiv h
        · exact hiw h

theorem substStep_len (v : Nat) (m c : Rat) (q : QB) (p : Nat × Rat) :
    (QB.substStep true v m c q p).lin.length = q.lin.length := (substStep_shape true v m c q p).1


/-! ### the whole loop -/

theorem substFold (v : Nat) (m c : Rat) (l : List (Nat × Rat)) :
    ∀ (s : QB), v < s.lin.length → (∀ p ∈ l, p.1 < s.lin.length) → (l.map Prod.fst).Pairwise (· < ·) →
      let r := l.foldl (QB.substStep true v m c) s
      r.lin.length = s.lin.length
      ∧ r.off = s.off + (l.map fun p => if p.1 = v then p.2 * c * c else 0).sum
      ∧ (∀ k, linAt r k = linAt s k + (l.map fun p => if p.1 = k then (if k = v then 2 * p.2 * m * c else p.2 * c) else 0).sum)
      ∧ (∀ k, qAt r v k = qAt s v k * (if k ∈ l.map Prod.fst then (if k = v then m * m else m) else 1))
      ∧ (∀ i, i ≠ v → qAt r i v = qAt s i v * (if i ∈ l.map Prod.fst then m else 1))
      ∧ (∀ i k, i ≠ v → k ≠ v → qAt r i k = qAt s i k) := by
  induction l with
  | nil =>
    intro s _ _ _
    simp
  | cons p t ih =>
    intro s hv hlt hsorted
    obtain ⟨w, b⟩ := p
    rw [List.map_cons, List.pairwise_cons] at hsorted
    have hw : w < s.lin.length := hlt (w, b) List.mem_cons_self
    have hwt : w ∉ t.map Prod.fst := by
      intro h; have := hsorted.1 w h; omega
    have hlen1 := substStep_len v m c s (w, b)
    have IH := ih (QB.substStep true v m c s (w, b)) (by rw [hlen1]; exact hv)
      (fun q hq => by rw [hlen1]; exact hlt q (List.mem_cons_of_mem _ hq)) hsorted.2
    simp only [] at IH ⊢
    rw [List.foldl_cons]
    obtain ⟨I1, I2, I3, I4, I5, I6⟩ := IH
    by_cases hwv : w = v
    · -- the self-loop term
      subst hwv
      obtain ⟨S1, S2, S3⟩ := substStep_self hv m c b
      refine ⟨I1.trans hlen1, ?_, ?_, ?_, ?_, ?_⟩
      · rw [I2, S1]; simp only [List.map_cons, List.sum_cons, if_true]; ring
      · intro k
        rw [I3 k, S2 k]
        simp only [List.map_cons, List.sum_cons]
        by_cases hk : k = w
        · subst hk; simp only [if_true]; ring
        · have : ¬ w = k := fun h => hk h.symm
          simp only [hk, this, if_false]; ring
      · intro k
        rw [I4 k, S3 w k]
        by_cases hk : k = w
        · subst hk
          rw [if_pos ⟨rfl, rfl⟩, if_neg hwt, if_pos (by simp), if_pos rfl]; ring
        · rw [if_neg (fun h => hk h.2)]
          have : (k ∈ List.map Prod.fst ((w, b) :: t)) ↔ k ∈ List.map Prod.fst t := by simp [hk]
          by_cases hkt : k ∈ List.map Prod.fst t
          · rw [if_pos hkt, if_pos (this.mpr hkt)]
          · rw [if_neg hkt, if_neg (fun h => hkt (this.mp h))]
      · intro i hi
        rw [I5 i hi, S3 i w, if_neg (fun h => hi h.1)]
        have : (i ∈ List.map Prod.fst ((w, b) :: t)) ↔ i ∈ List.map Prod.fst t := by simp [hi]
        by_cases hit : i ∈ List.map Prod.fst t
        · rw [if_pos hit, if_pos (this.mpr hit)]
        · rw [if_neg hit, if_neg (fun h => hit (this.mp h))]
      · intro i k hi hk
        rw [I6 i k hi hk, S3 i k, if_neg (fun h => hi h.1)]
    · obtain ⟨S1, S2, S3⟩ := substStep_other hw hwv m c b
      refine ⟨I1.trans hlen1, ?_, ?_, ?_, ?_, ?_⟩
      · rw [I2, S1]; simp only [List.map_cons, List.sum_cons, hwv, if_false]; ring
      · intro k
        rw [I3 k, S2 k]
        simp only [List.map_cons, List.sum_cons]
        by_cases hk : k = w
        · subst hk; simp only [if_true, hwv, if_false]; ring
        · have : ¬ w = k := fun h => hk h.symm
          simp only [hk, this, if_false]; ring
      · intro k
        rw [I4 k, S3 v k]
        by_cases hk : k = w
        · subst hk
          rw [if_pos (Or.inl ⟨rfl, rfl⟩), if_neg hwt, if_pos (by simp), if_neg hwv]; ring
        · have h1 : ¬ ((v = v ∧ k = w) ∨ (v = w ∧ k = v)) := by
            intro h; rcases h with ⟨_, h⟩ | ⟨h, _⟩
            · exact hk h
            · exact hwv h.symm
          rw [if_neg h1]
          have : (k ∈ List.map Prod.fst ((w, b) :: t)) ↔ k ∈ List.map Prod.fst t := by simp [hk]
          by_cases hkt : k ∈ List.map Prod.fst t
          · rw [if_pos hkt, if_pos (this.mpr hkt)]
          · rw [if_neg hkt, if_neg (fun h => hkt (this.mp h))]
      · intro i hi
        rw [I5 i hi, S3 i v]
        by_cases hiw : i = w
        · subst hiw
          rw [if_pos (Or.inr ⟨rfl, rfl⟩), if_neg hwt, if_pos (by simp)]; ring
        · have h1 : ¬ ((i = v ∧ v = w) ∨ (i = w ∧ v = v)) := by
            intro h; rcases h with ⟨h, _⟩ | ⟨h, _⟩
            · exact hi h
            · exact hiw h
          rw [if_neg h1]
          have : (i ∈ List.map Prod.fst ((w, b) :: t)) ↔ i ∈ List.map Prod.fst t := by simp [hiw]
          by_cases hit : i ∈ List.map Prod.fst t
          · rw [if_pos hit, if_pos (this.mpr hit)]
          · rw [if_neg hit, if_neg (fun h => hit (this.mp h))]
      · intro i k hi hk
        rw [I6 i k hi hk, S3 i k]
        have h1 : ¬ ((i = v ∧ k = w) ∨ (i = w ∧ k = v)) := by
          intro h; rcases h with ⟨h, _⟩ | ⟨_, h⟩
          · exact hi h
          · exact hk h
        rw [if_neg h1]


/-- with distinct (sorted) keys, "the sum over the entries for `k`" is the stored coefficient -/
theorem sumIf_eq_nbhCoef {nb : List (Nat × Rat)} (h : (nb.map Prod.fst).Pairwise (· < ·)) (k : Nat) (κ : Rat) :
    (nb.map fun p => if p.1 = k then p.2 * κ else 0).sum = QB.nbhCoef nb k * κ := by
  induction nb with
  | nil => simp [QB.nbhCoef]
  | cons p t ih =>
    obtain ⟨a, x⟩ := p
    rw [List.map_cons, List.pairwise_cons] at h
    rw [List.map_cons, List.sum_cons, QB.nbhCoef]
    by_cases hak : a = k
    · rw [if_pos hak, if_pos hak]
      have hz : QB.nbhCoef t k = 0 := by
        apply nbhCoef_zero_of_lt
        intro p hp
        have : a < p.1 := h.1 p.1 (List.mem_map.mpr ⟨p, hp, rfl⟩)
        omega
      rw [ih h.2, hz]; ring
    · rw [if_neg hak, if_neg hak, ih h.2]; ring

theorem nbhCoef_zero_of_not_key {nb : List (Nat × Rat)} {k : Nat} (h : k ∉ nb.map Prod.fst) : QB.nbhCoef nb k = 0 := by
  apply nbhCoef_zero_of_no_key
  intro p hp hpk
  exact h (List.mem_map.mpr ⟨p, hp, hpk⟩)

/-- **`substitute_variable(v, m, c)` is the substitution `x_v ↦ m·x_v + c`** on the stored coefficients
    (repaired loop): with `l_i` the linear biases and `q_ij` the stored quadratic entries,
    offset += l_v·c + q_vv·c²;  l_v ↦ m·l_v + 2·q_vv·m·c;  l_w ↦ l_w + q_vw·c;  q_vv ↦ m²·q_vv;
    q_vw ↦ m·q_vw (and the mirror entry q_wv ↦ m·q_wv for the neighbours `w` of `v`);
    every entry between two other variables is untouched. -/
theorem substitute_coeffs {n : Nat} {q : QB} (hq : QBOk n q) (hs : AdjSorted q.adj) {v : Nat} (hv : v < n) (m c : Rat) :
    let q' := q.substituteWith true v m c
    q'.off = q.off + linAt q v * c + qAt q v v * c * c
    ∧ linAt q' v = linAt q v * m + 2 * qAt q v v * m * c
    ∧ (∀ w, w ≠ v → linAt q' w = linAt q w + qAt q v w * c)
    ∧ (∀ k, qAt q' v k = qAt q v k * (if k = v then m * m else m))
    ∧ (∀ w, w ≠ v → qAt q' w v = qAt q w v * (if w ∈ (q.adj.getD v []).map Prod.fst then m else 1))
    ∧ (∀ i k, i ≠ v → k ≠ v → qAt q' i k = qAt q i k) := by
  intro q'
  have hvl : v < q.lin.length := by rw [hq.lin_len]; exact hv
  have hsorted := getD_sorted hs v
  have hkeys : ∀ p ∈ q.adj.getD v [], p.1 < (Bqm.modifyAt q.lin v (· * m)).length := by
    intro p hp
    rw [length_modifyAt, hq.lin_len]
    have hvl' : v < q.adj.length := by rw [hq.adj_len]; exact hv
    rw [List.getD_eq_getElem?_getD, List.getElem?_eq_getElem hvl'] at hp
    exact hq.adj_lt _ (List.getElem_mem hvl') p hp
  have F := substFold v m c (q.adj.getD v [])
    { q with off := q.off + q.lin.getD v 0 * c, lin := Bqm.modifyAt q.lin v (· * m) }
    (by show v < (Bqm.modifyAt q.lin v (· * m)).length; rw [length_modifyAt]; exact hvl) hkeys hsorted
  simp only [] at F
  obtain ⟨_, F2, F3, F4, F5, F6⟩ := F
  have hq' : q' = (q.adj.getD v []).foldl (QB.substStep true v m c)
      { q with off := q.off + q.lin.getD v 0 * c, lin := Bqm.modifyAt q.lin v (· * m) } := rfl
  -- the start state read through the accessors
  have s_lin : ∀ k, linAt ({ q with off := q.off + q.lin.getD v 0 * c, lin := Bqm.modifyAt q.lin v (· * m) } : QB) k
      = if k = v then linAt q v * m else linAt q k := by
    intro k
    unfold linAt
    show (Bqm.modifyAt q.lin v (· * m)).getD k 0 = _
    rw [getD_modifyAt_lin _ _ _ _ hvl]
  have s_q : ∀ i k, qAt ({ q with off := q.off + q.lin.getD v 0 * c, lin := Bqm.modifyAt q.lin v (· * m) } : QB) i k = qAt q i k :=
    fun _ _ => rfl
  rw [hq']
  refine ⟨?_, ?_, ?_, ?_, ?_, ?_⟩
  · rw [F2]
    show q.off + q.lin.getD v 0 * c + _ = _
    have := sumIf_eq_nbhCoef hsorted v (c * c)
    have e : (List.map (fun p : Nat × Rat => if p.1 = v then p.2 * c * c else 0) (q.adj.getD v []))
        = List.map (fun p : Nat × Rat => if p.1 = v then p.2 * (c * c) else 0) (q.adj.getD v []) := by
      apply List.map_congr_left; intro p _; split_ifs <;> ring
    rw [e, this]
    unfold linAt qAt; ring
  · rw [F3 v, s_lin v, if_pos rfl]
    have e : (List.map (fun p : Nat × Rat => if p.1 = v then (if v = v then 2 * p.2 * m * c else p.2 * c) else 0) (q.adj.getD v []))
        = List.map (fun p : Nat × Rat => if p.1 = v then p.2 * (2 * m * c) else 0) (q.adj.getD v []) := by
      apply List.map_congr_left; intro p _; simp only [if_true]; split_ifs <;> ring
    rw [e, sumIf_eq_nbhCoef hsorted v (2 * m * c)]
    unfold qAt; ring
  · intro w hw
    rw [F3 w, s_lin w, if_neg hw]
    have e : (List.map (fun p : Nat × Rat => if p.1 = w then (if w = v then 2 * p.2 * m * c else p.2 * c) else 0) (q.adj.getD v []))
        = List.map (fun p : Nat × Rat => if p.1 = w then p.2 * c else 0) (q.adj.getD v []) := by
      apply List.map_congr_left; intro p _; rw [if_neg hw]
    rw [e, sumIf_eq_nbhCoef hsorted w c]
    rfl
  · intro k
    rw [F4 k, s_q]
    by_cases hk : k ∈ (q.adj.getD v []).map Prod.fst
    · rw [if_pos hk]
    · rw [if_neg hk]
      have : qAt q v k = 0 := nbhCoef_zero_of_not_key hk
      rw [this]; ring
  · intro w hw
    rw [F5 w hw, s_q]
  · intro i k hi hk
    rw [F6 i k hi hk, s_q]


/-! ### `add_quadratic(g, g, b)`: the self-loop cases -/

open Expr in
theorem addQuadratic_self_eq {e : Expr} (vt : List VT4) (g : Nat) (b : Rat) :
    e.addQuadratic vt g g b
      = { (e.enforce g).1 with qb := (e.enforce g).1.qb.addQuadratic (vt.getD g .binary) (e.enforce g).2 (e.enforce g).2 b } := by
  unfold Expr.addQuadratic
  rw [enforce_of_some (enforce_idx (e := e) g)]

open Expr in
/-- on a BINARY variable x·x = x: the bias goes to the linear term; on a SPIN variable x·x = 1: to the offset;
    otherwise to the diagonal entry — and nowhere else -/
theorem addQuadratic_self {e : Expr} (hwf : ExprWF e) (hs : ExprSorted e) (vt : List VT4) (g : Nat) (b : Rat) :
    (vt.getD g .binary = .binary →
        (∀ k, (e.addQuadratic vt g g b).linear k = if k = g then e.linear g + b else e.linear k)
        ∧ (e.addQuadratic vt g g b).qb.off = e.qb.off
        ∧ ∀ x y, (e.addQuadratic vt g g b).quadratic x y = e.quadratic x y)
    ∧ (vt.getD g .binary = .spin →
        (∀ k, (e.addQuadratic vt g g b).linear k = e.linear k)
        ∧ (e.addQuadratic vt g g b).qb.off = e.qb.off + b
        ∧ ∀ x y, (e.addQuadratic vt g g b).quadratic x y = e.quadratic x y)
    ∧ (vt.getD g .binary ≠ .binary → vt.getD g .binary ≠ .spin →
        (∀ k, (e.addQuadratic vt g g b).linear k = e.linear k)
        ∧ (e.addQuadratic vt g g b).qb.off = e.qb.off
        ∧ ∀ x y, (e.addQuadratic vt g g b).quadratic x y = e.quadratic x y + (if x = g ∧ y = g then b else 0)) := by
  have h1 := enforce_wf hwf g
  have s1 : ExprSorted (e.enforce g).1 := enforce_sorted hs g
  have hidx := enforce_idx (e := e) g
  have hoff : (e.enforce g).1.qb.off = e.qb.off := by
    cases hg : e.idx.get? g with
    | some i => rw [enforce_of_some hg]
    | none => rw [enforce_of_none hg]; rfl
  rw [addQuadratic_self_eq]
  generalize hE : (e.enforce g).1 = E at *
  generalize hI : (e.enforce g).2 = i at *
  have hlin : ∀ k, E.linear k = e.linear k := by intro k; rw [← hE]; exact enforce_linear hwf g k
  have hquad : ∀ x y, E.quadratic x y = e.quadratic x y := by intro x y; rw [← hE]; exact enforce_quadratic hwf g x y
  have hil : i < E.qb.lin.length := by rw [h1.lin_len]; exact lt_of_getElem? ((h1.idx g i).mp hidx)
  have hial : i < E.qb.adj.length := by rw [h1.adj_len]; exact lt_of_getElem? ((h1.idx g i).mp hidx)
  have key_i : ∀ {x j : Nat}, E.idx.get? x = some j → (j = i ↔ x = g) := by
    intro x j hx
    constructor
    · intro h; subst h
      have a1 := (h1.idx x _).mp hx
      have a2 := (h1.idx g _).mp hidx
      rw [a1] at a2; exact Option.some.inj a2
    · intro h; subst h; rw [hidx] at hx; exact (Option.some.inj hx).symm
  refine ⟨?_, ?_, ?_⟩
  · intro hvt
    have hq : E.qb.addQuadratic (vt.getD g .binary) i i b = E.qb.addLinear i b := by
      unfold QB.addQuadratic; rw [if_pos rfl, hvt]
    rw [hq]
    refine ⟨?_, hoff, ?_⟩
    · intro k
      rw [← hlin k, ← hlin g]
      cases hk : E.idx.get? k with
      | none =>
        have : k ≠ g := by intro h; subst h; rw [hidx] at hk; cases hk
        rw [if_neg this, linear_of_none hk]
        exact linear_of_none (e := { E with qb := _ }) hk
      | some j =>
        rw [show ({ E with qb := E.qb.addLinear i b } : Expr).linear k = (Bqm.modifyAt E.qb.lin i (· + b)).getD j 0 from
          linear_of_idx (e := { E with qb := _ }) hk]
        rw [getD_modifyAt_lin _ _ _ _ hil]
        by_cases hji : j = i
        · have hkg := (key_i hk).mp hji
          rw [if_pos hji, if_pos hkg, linear_of_idx hidx]
        · have hkg : k ≠ g := fun h => hji ((key_i hk).mpr h)
          rw [if_neg hji, if_neg hkg, linear_of_idx hk]
    · intro x y
      rw [← hquad x y]
      rfl
  · intro hvt
    have hq : E.qb.addQuadratic (vt.getD g .binary) i i b = { E.qb with off := E.qb.off + b } := by
      unfold QB.addQuadratic; rw [if_pos rfl, hvt]
    rw [hq]
    refine ⟨fun k => by rw [← hlin k]; rfl, by show E.qb.off + b = _; rw [hoff], fun x y => by rw [← hquad x y]; rfl⟩
  · intro hnb hns
    have hq : E.qb.addQuadratic (vt.getD g .binary) i i b = E.qb.asym i i b false := by
      unfold QB.addQuadratic; rw [if_pos rfl]
      cases hvt : vt.getD g .binary with
      | binary => exact absurd hvt hnb
      | spin => exact absurd hvt hns
      | integer => rfl
      | real => rfl
    rw [hq]
    refine ⟨fun k => by rw [← hlin k]; rfl, hoff, ?_⟩
    intro x y
    rw [← hquad x y]
    cases hx : E.idx.get? x with
    | none =>
      have : ¬ (x = g ∧ y = g) := by intro h; rw [h.1, hidx] at hx; cases hx
      rw [if_neg this, quadratic_of_none_left y hx]
      rw [show ({ E with qb := E.qb.asym i i b false } : Expr).quadratic x y = 0 from
        quadratic_of_none_left (e := { E with qb := _ }) y hx]
      simp
    | some j =>
      cases hy : E.idx.get? y with
      | none =>
        have : ¬ (x = g ∧ y = g) := by intro h; rw [h.2, hidx] at hy; cases hy
        rw [if_neg this, quadratic_of_none_right x hy]
        rw [show ({ E with qb := E.qb.asym i i b false } : Expr).quadratic x y = 0 from
          quadratic_of_none_right (e := { E with qb := _ }) x hy]
        simp
      | some k =>
        rw [quadratic_of_idx hx hy]
        rw [show ({ E with qb := E.qb.asym i i b false } : Expr).quadratic x y
            = QB.nbhCoef ((Bqm.modifyAt E.qb.adj i (fun nb => Bqm.nbhAdd nb i b false)).getD j []) k from
          quadratic_of_idx (e := { E with qb := _ }) hx hy]
        rw [getD_modifyAt_gen]
        by_cases hji : j = i
        · rw [if_pos ⟨hji, hial⟩, nbhCoef_nbhAdd (getD_sorted s1 i), hji]
          congr 1
          have hxg := (key_i hx).mp hji
          by_cases hki : k = i
          · rw [if_pos hki, if_pos ⟨hxg, (key_i hy).mp hki⟩]
          · rw [if_neg hki, if_neg (fun h => hki ((key_i hy).mpr h.2))]
        · rw [if_neg (fun h => hji h.1), if_neg (fun h => hji ((key_i hx).mpr h.1))]; simp

end CqmP
