import DimodProofs.BqmUpdate

/-! The fragment `EditG`: every operation of `Bqm.step` issued on the model itself except the two array adders.
    `LPoly.stepG` is the same call on the label-keyed polynomial.  Core Lean only. -/

namespace Bqm

/-- operations whose refinement is proved: everything of `Bqm.Op` except `add_linear_from_array` and
    `add_quadratic_from_dense`; the argument of `update` has to be a well-formed model -/
def EditG : Op → Prop
  | .addLinearFromArray _ => False
  | .addQuadraticFromDense _ _ => False
  | .update o => Inv o
  | _ => True

def LPoly.stepG (p : LPoly) (op : Op) : LPoly × Bool :=
  match op with
  | .clear => (p.clear, true)
  | .relabel mp =>
    if (LSpec.step p.vars (.relabel mp)).2 then (p.relabelTo (LSpec.step p.vars (.relabel mp)).1, true) else (p, false)
  | .relabelInts => (p.relabelTo ((List.range p.vars.length).map fun (k : Nat) => Label.int (k : Int)), true)
  | .flip v => if v ∈ p.vars then (p.flip v, true) else (p, false)
  | .contract u v => if u ∈ p.vars ∧ v ∈ p.vars ∧ u ≠ v then (p.contract u v, true) else (p, false)
  | .changeVartype t => (p.changeVartype t, true)
  | .update o => (p.update (absL o), true)
  | .addLinearFrom l => p.addLinearFrom l
  | .addQuadraticFrom l => p.addQuadraticFrom l
  | op => p.stepF op

def LPoly.runG (p : LPoly) : List Op → LPoly
  | [] => p
  | op :: t => LPoly.runG (p.stepG op).1 t

theorem indexOf?_none_of_not_mem {m : Bqm} {v : Label} (hv : v ∉ (absL m).vars) : m.indexOf? v = none := by
  cases hk : m.indexOf? v with
  | none => rfl
  | some k => exact absurd ((mem_labels_iff m v).mpr ⟨k, hk⟩) hv

theorem step_refinesG {m : Bqm} (i : Inv m) {op : Op} (he : EditG op) :
    absL (m.step .direct op).1 = ((absL m).stepG op).1 ∧
    ((m.step .direct op).2 = none ↔ ((absL m).stepG op).2 = true) ∧
    Inv (m.step .direct op).1 := by
  have viaF : ∀ {op : Op}, EditF op → (absL m).stepG op = (absL m).stepF op →
      absL (m.step .direct op).1 = ((absL m).stepG op).1 ∧
      ((m.step .direct op).2 = none ↔ ((absL m).stepG op).2 = true) ∧ Inv (m.step .direct op).1 := by
    intro op h e; rw [e]; exact step_refinesF i h
  have unch : ∀ (e : ErrC), absL (m, some e).1 = ((absL m), false).1 ∧
      (((m, some e) : Bqm × Option ErrC).2 = none ↔ (((absL m), false) : LPoly × Bool).2 = true) ∧
      Inv ((m, some e) : Bqm × Option ErrC).1 := fun e => ⟨rfl, by simp, i⟩
  cases op with
  | malformed => exact unch .type
  | addLinear v b =>
    cases v with
    | none => exact unch .value
    | some v => exact viaF (.edit (.basic (.addLinear v b))) rfl
  | setLinear v b =>
    cases v with
    | none => exact unch .value
    | some v => exact viaF (.edit (.basic (.setLinear v b))) rfl
  | addQuadratic u v b =>
    cases u with
    | none => cases v <;> exact unch .value
    | some u =>
      cases v with
      | none => exact unch .value
      | some v => exact viaF (.edit (.basic (.addQuadratic u v b))) rfl
  | setQuadratic u v b =>
    cases u with
    | none => cases v <;> exact unch .value
    | some u =>
      cases v with
      | none => exact unch .value
      | some v => exact viaF (.edit (.basic (.setQuadratic u v b))) rfl
  | removeInteraction u v => exact viaF (.edit (.basic (.removeInteraction u v))) rfl
  | removeVariable v =>
    cases v with
    | none => exact viaF (.edit .removeLast) rfl
    | some v => exact viaF (.edit (.basic (.removeVariable v))) rfl
  | addVariable v b =>
    cases v with
    | none => exact viaF (.edit (.addVariableAuto b)) rfl
    | some v => exact viaF (.edit (.basic (.addVariable v b))) rfl
  | resize k => exact viaF (.edit (.resize k)) rfl
  | scale s => exact viaF (.edit (.basic (.scale s))) rfl
  | setOffset b => exact viaF (.edit (.basic (.setOffset b))) rfl
  | fixVariable v a => exact viaF (.fixVariable v a) rfl
  | changeVartype t =>
    have r := changeVartype_refines i t
    exact ⟨r.1, by simp [Bqm.step, Bqm.lift, LPoly.stepG], r.2⟩
  | contract u v =>
    simp only [Bqm.step, Via.tv, LPoly.stepG]
    by_cases hu : u ∈ (absL m).vars
    · by_cases hv : v ∈ (absL m).vars
      · obtain ⟨ui, hui⟩ := (mem_labels_iff m u).mp hu
        obtain ⟨vi, hvi⟩ := (mem_labels_iff m v).mp hv
        by_cases hne : u = v
        · subst hne
          have key : m.vContract m.vt u u = (m, some ErrC.value) := by
            unfold Bqm.vContract; rw [hui]; simp
          rw [key]; simp only [ne_eq, not_true_eq_false, and_false, if_false]; exact ⟨trivial, by simp, i⟩
        · have r := contract_refines i u v hui hvi hne
          simp only [hu, hv, ne_eq, hne, not_false_eq_true, and_self, if_true]
          exact ⟨r.1, by simp [r.2.1], r.2.2⟩
      · have key : m.vContract m.vt u v = (m, some ErrC.value) := by
          unfold Bqm.vContract; rw [indexOf?_none_of_not_mem hv]
          cases m.indexOf? u <;> rfl
        rw [key]; simp only [hv, false_and, and_false, if_false]; exact ⟨trivial, by simp, i⟩
    · have key : m.vContract m.vt u v = (m, some ErrC.value) := by
        unfold Bqm.vContract; rw [indexOf?_none_of_not_mem hu]
      rw [key]; simp only [hu, false_and, if_false]; exact ⟨trivial, by simp, i⟩
  | flip v =>
    simp only [Bqm.step, Via.tv, Via.isView, LPoly.stepG]
    by_cases hv : v ∈ (absL m).vars
    · obtain ⟨vi, hvi⟩ := (mem_labels_iff m v).mp hv
      have r := flip_refines i v hvi
      simp only [hv, if_true]
      exact ⟨r.1, by simp [r.2.1], r.2.2⟩
    · have key : m.vFlip m.vt false v = (m, some ErrC.value) := by
        unfold Bqm.vFlip; rw [indexOf?_none_of_not_mem hv]
      rw [key]; simp only [hv, if_false]; exact ⟨trivial, by simp, i⟩
  | relabel mp =>
    have r := relabel_refines i mp
    simp only [Bqm.step, LPoly.stepG]
    have hvars : (absL m).vars = m.labels := rfl
    rw [hvars]
    cases hok : (LSpec.step m.labels (.relabel mp)).2 with
    | true =>
      rw [hok] at r
      exact ⟨by simpa using r.1, by simpa using r.2.1, r.2.2⟩
    | false =>
      rw [hok] at r
      exact ⟨by simpa using r.1, by simpa using r.2.1, r.2.2⟩
  | relabelInts =>
    have r := relabelInts_refines i
    exact ⟨r.1, by simp [Bqm.step, Bqm.lift, LPoly.stepG], r.2⟩
  | clear =>
    have r := clear_refines m
    exact ⟨r.1, by simp [Bqm.step, Bqm.lift, LPoly.stepG], r.2⟩
  | update o =>
    have r := update_refines i (show Inv o from he)
    exact ⟨r.1, by simp [Bqm.step, Bqm.lift, LPoly.stepG], r.2⟩
  | addLinearFrom l => exact addLinearFrom_refines i l
  | addQuadraticFrom l => exact addQuadraticFrom_refines i l
  | addLinearFromArray xs => exact absurd he (by intro h; exact h)
  | addQuadraticFromDense k d => exact absurd he (by intro h; exact h)

theorem history_refinesG {m : Bqm} (i : Inv m) (ops : List Op) (he : ∀ op ∈ ops, EditG op) :
    absL (m.run (ops.map fun op => (Via.direct, op))) = (absL m).runG ops ∧
    Inv (m.run (ops.map fun op => (Via.direct, op))) := by
  induction ops generalizing m with
  | nil => exact ⟨rfl, i⟩
  | cons op t ih =>
    have s := step_refinesG i (he op (by simp))
    simp only [List.map_cons, Bqm.run, LPoly.runG]
    rw [← s.1]
    exact ih s.2.2 (fun o ho => he o (List.mem_cons_of_mem _ ho))

end Bqm
