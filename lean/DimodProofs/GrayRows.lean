import DimodProofs.Gray
import Mathlib.Data.Fintype.Card
import Mathlib.Data.Fintype.EquivFin
import Mathlib.Data.List.Nodup

/-! C07: the rows of `_graycode` (as coded: copy the previous row, flip column `ctz i`) are the bit rows
    of the masks `gray 0, gray 1, …`, and `gray` is a bijection on `[0, 2^n)`. -/

namespace Enum

theorem flipAt_length (l : List Nat) (v : Nat) : (flipAt l v).length = l.length := by
  induction l generalizing v with
  | nil => rfl
  | cons b bs ih => cases v <;> simp [flipAt, ih]

theorem flipAt_getElem (l : List Nat) (v i : Nat) (hi : i < (flipAt l v).length) :
    (flipAt l v)[i] = if i = v then 1 - l[i]'(by rw [flipAt_length] at hi; exact hi) else l[i]'(by rw [flipAt_length] at hi; exact hi) := by
  induction l generalizing v i with
  | nil => simp [flipAt] at hi
  | cons b bs ih =>
    cases v with
    | zero => cases i <;> simp [flipAt]
    | succ v =>
      cases i with
      | zero => simp [flipAt]
      | succ i =>
        simp only [flipAt, List.getElem_cons_succ]
        rw [ih]
        simp

theorem maskRow_length (n m : Nat) : (maskRow n m).length = n := by simp [maskRow]

theorem maskRow_getElem (n m i : Nat) (hi : i < (maskRow n m).length) :
    (maskRow n m)[i] = if m.testBit i then 1 else 0 := by
  simp [maskRow]

/-- `samples[i, v] = not samples[i-1, v]` on the row of mask `m` gives the row of `m xor 2^v` -/
theorem flipAt_maskRow (n m v : Nat) (hv : v < n) : flipAt (maskRow n m) v = maskRow n (m ^^^ 2 ^ v) := by
  apply List.ext_getElem
  · rw [flipAt_length, maskRow_length, maskRow_length]
  · intro i h1 h2
    rw [flipAt_getElem, maskRow_getElem, maskRow_getElem, Nat.testBit_xor, Nat.testBit_two_pow]
    by_cases hiv : i = v
    · subst hiv; cases m.testBit i <;> simp
    · have : ¬ v = i := fun h => hiv h.symm
      simp [hiv, this]

theorem grayLoop_eq (n t k : Nat) (h : t + k < 2 ^ n) :
    grayLoop (maskRow n (gray t)) (t + 1) k = (List.range' (t + 1) k).map (fun i => maskRow n (gray i)) := by
  induction k generalizing t with
  | zero => simp [grayLoop]
  | succ k ih =>
    have hc : ctz (t + 1) < n := ctz_lt n (t + 1) (by omega) (by omega)
    simp only [grayLoop, List.range'_succ, List.map_cons]
    rw [flipAt_maskRow n (gray t) _ hc]
    have : gray t ^^^ 2 ^ ctz (t + 1) = gray (t + 1) := rfl
    rw [this, ih (t + 1) (by omega)]

theorem maskRow_zero (n : Nat) : maskRow n 0 = List.replicate n 0 := by
  apply List.ext_getElem
  · simp [maskRow_length]
  · intro i h1 h2
    rw [maskRow_getElem]; simp

/-- the loop of `_graycode` produces the bit rows of `gray 0 … gray (2^n - 1)` -/
theorem graycode_eq (n : Nat) : graycode n = (List.range (2 ^ n)).map (fun i => maskRow n (gray i)) := by
  have hpos : 0 < 2 ^ n := Nat.two_pow_pos n
  have h0 : List.replicate n 0 = maskRow n (gray 0) := (maskRow_zero n).symm
  show List.replicate n 0 :: grayLoop (List.replicate n 0) 1 (2 ^ n - 1) = _
  rw [h0]
  have hl := grayLoop_eq n 0 (2 ^ n - 1) (by omega)
  rw [Nat.zero_add] at hl
  rw [hl]
  have : 2 ^ n = (2 ^ n - 1) + 1 := by omega
  rw [List.range_eq_range']
  conv => rhs; rw [this, List.range'_succ]
  simp

/-- `gray` restricted to `[0, 2^n)` is injective (surjective self-map of a finite set) -/
theorem gray_inj (n i j : Nat) (hi : i < 2 ^ n) (hj : j < 2 ^ n) (h : gray i = gray j) : i = j := by
  let f : Fin (2 ^ n) → Fin (2 ^ n) := fun k => ⟨gray k.1, gray_lt n k.1 k.2⟩
  have hs : Function.Surjective f := by
    intro ⟨t, ht⟩
    obtain ⟨k, hk, hg⟩ := gray_surj n t ht
    exact ⟨⟨k, hk⟩, by simp [f, hg]⟩
  have hinj : Function.Injective f := Finite.injective_iff_surjective.mpr hs
  have := @hinj ⟨i, hi⟩ ⟨j, hj⟩ (by simp [f, h])
  simpa using this

theorem maskRow_inj (n a b : Nat) (ha : a < 2 ^ n) (hb : b < 2 ^ n) (h : maskRow n a = maskRow n b) : a = b := by
  apply Nat.eq_of_testBit_eq
  intro i
  by_cases hi : i < n
  · have h1 : (maskRow n a)[i]'(by rw [maskRow_length]; exact hi) = (maskRow n b)[i]'(by rw [maskRow_length]; exact hi) := by
      simp only [h]
    rw [maskRow_getElem, maskRow_getElem] at h1
    cases ha' : a.testBit i <;> cases hb' : b.testBit i <;> simp_all
  · have hle : 2 ^ n ≤ 2 ^ i := Nat.pow_le_pow_right (by decide) (by omega)
    rw [Nat.testBit_lt_two_pow (by omega), Nat.testBit_lt_two_pow (by omega)]

/-- the mask a bit row denotes -/
def rowMask : List Nat → Nat
  | [] => 0
  | b :: bs => b + 2 * rowMask bs

theorem rowMask_lt (row : List Nat) (hb : ∀ b ∈ row, b ≤ 1) : rowMask row < 2 ^ row.length := by
  induction row with
  | nil => simp [rowMask]
  | cons b bs ih =>
    have := ih (fun x hx => hb x (List.mem_cons_of_mem _ hx))
    have hb0 := hb b (List.mem_cons_self)
    simp only [rowMask, List.length_cons, Nat.pow_succ]
    omega

theorem maskRow_succ (n m : Nat) : maskRow (n + 1) m = (if m.testBit 0 then 1 else 0) :: maskRow n (m / 2) := by
  apply List.ext_getElem
  · simp [maskRow_length]
  · intro i h1 h2
    rw [maskRow_getElem]
    cases i with
    | zero => simp
    | succ i =>
      simp only [List.getElem_cons_succ]
      rw [maskRow_getElem, Nat.testBit_succ]

theorem maskRow_rowMask (row : List Nat) (hb : ∀ b ∈ row, b ≤ 1) : maskRow row.length (rowMask row) = row := by
  induction row with
  | nil => simp [maskRow]
  | cons b bs ih =>
    have hb0 := hb b (List.mem_cons_self)
    have ih' := ih (fun x hx => hb x (List.mem_cons_of_mem _ hx))
    simp only [List.length_cons, rowMask]
    rw [maskRow_succ]
    have hdiv : (b + 2 * rowMask bs) / 2 = rowMask bs := by omega
    rw [hdiv, ih']
    have hbit : (b + 2 * rowMask bs).testBit 0 = decide (b = 1) := by
      rw [Nat.testBit_zero]
      have : (b + 2 * rowMask bs) % 2 = b := by omega
      rw [this]
    rw [hbit]
    rcases Nat.le_one_iff_eq_zero_or_eq_one.mp hb0 with h | h <;> simp [h]

/-- C07 `graycode_enumerates`: `2^n` rows, no row twice, every 0/1 row of length `n` present -/
theorem graycode_length (n : Nat) : (graycode n).length = 2 ^ n := by
  rw [graycode_eq]; simp

theorem graycode_nodup (n : Nat) : (graycode n).Nodup := by
  rw [graycode_eq]
  apply List.Nodup.map_on
  · intro i hi j hj h
    rw [List.mem_range] at hi hj
    exact gray_inj n i j hi hj (maskRow_inj n _ _ (gray_lt n i hi) (gray_lt n j hj) h)
  · exact List.nodup_range

theorem graycode_complete (n : Nat) (row : List Nat) (hl : row.length = n) (hb : ∀ b ∈ row, b ≤ 1) :
    row ∈ graycode n := by
  rw [graycode_eq, List.mem_map]
  subst hl
  obtain ⟨i, hi, hg⟩ := gray_surj row.length (rowMask row) (rowMask_lt row hb)
  exact ⟨i, List.mem_range.mpr hi, by rw [hg, maskRow_rowMask row hb]⟩

theorem graycode_sound (n : Nat) (row : List Nat) (h : row ∈ graycode n) : row.length = n ∧ ∀ b ∈ row, b ≤ 1 := by
  rw [graycode_eq, List.mem_map] at h
  obtain ⟨i, _, rfl⟩ := h
  refine ⟨maskRow_length n _, ?_⟩
  intro b hb
  simp only [maskRow, List.mem_map] at hb
  obtain ⟨j, _, rfl⟩ := hb
  split <;> omega

end Enum
