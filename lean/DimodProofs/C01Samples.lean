import DimodProofs.C01Labels

/-! # C01 — `as_samples`: the value delivered for label ℓ in row r is the value the input assigns to ℓ in row r -/

namespace En

variable {R : Type} [Zero R]

theorem lookupLabel_of_indexFrom (d : List (Label × R)) (v : Label) (k i : Nat)
    (h : indexOfFrom v (d.map (·.1)) k = some i) :
    lookupLabel d v = some ((d.map (·.2)).getD (i - k) 0) := by
  induction d generalizing k with
  | nil => simp [indexOfFrom] at h
  | cons p t ih =>
    obtain ⟨l, a⟩ := p
    simp only [List.map_cons, indexOfFrom] at h
    simp only [lookupLabel]
    by_cases hl : l = v
    · simp only [hl, if_true, Option.some.injEq] at h
      subst h
      simp [hl]
    · simp only [hl, if_false] at h ⊢
      have hk := (indexOfFrom_spec v _ (k+1) i h).1
      rw [ih (k+1) h]
      have : i - k = (i - (k+1)) + 1 := by omega
      rw [this]
      simp

/-- looking a label up in a dict = taking the value at the position `labels.index` finds -/
theorem lookupLabel_of_index (d : List (Label × R)) (v : Label) (i : Nat)
    (h : indexOf? (d.map (·.1)) v = some i) :
    lookupLabel d v = some ((d.map (·.2)).getD i 0) := by
  have := lookupLabel_of_indexFrom d v 0 i h
  simpa using this

theorem mem_of_sameSet_left (a b : List Label) (h : sameSet a b = true) (v : Label) (hv : v ∈ b) : v ∈ a := by
  unfold sameSet at h
  simp only [Bool.and_eq_true, List.all_eq_true] at h
  have := h.2 v hv
  simpa using this

/-- one re-indexed row (repaired `_as_samples_iterator`): column `j` carries the dict's value for the `j`-th
    label of the first element -/
theorem reindexRow_values (firstLabels : List Label) (d : List (Label × R))
    (hs : sameSet (d.map (·.1)) firstLabels = true) (j : Nat) (hj : j < firstLabels.length) :
    lookupLabel d firstLabels[j] = some ((reindexRow firstLabels (d.map (·.1)) (d.map (·.2))).getD j 0) := by
  have hmem : firstLabels[j] ∈ d.map (·.1) := mem_of_sameSet_left _ _ hs _ (List.getElem_mem hj)
  obtain ⟨i, hi⟩ := indexOf?_of_mem _ _ hmem
  rw [lookupLabel_of_index d _ i hi]
  unfold reindexRow
  simp [List.getD, hj, hi]

/-- a dict delivered in its own order: column `j` carries the value of its `j`-th key, provided keys are distinct -/
theorem ownRow_values (d : List (Label × R)) (hnd : (d.map (·.1)).Nodup) (j : Nat) (hj : j < (d.map (·.1)).length) :
    lookupLabel d (d.map (·.1))[j] = some ((d.map (·.2)).getD j 0) := by
  obtain ⟨i, hi⟩ := indexOf?_of_mem _ _ (List.getElem_mem hj)
  have : i = j := indexOf?_unique _ hnd _ i j hi (by simp [List.getElem?_eq_getElem hj])
  subst this
  exact lookupLabel_of_index d _ i hi

theorem iterRest_values (firstLabels : List Label) (ds : List (List (Label × R))) (rows : List (List R))
    (hnd : ∀ d ∈ ds, (d.map (·.1)).Nodup)
    (h : iterRest reindexRow firstLabels ds = .ok rows) :
    rows.length = ds.length ∧
    ∀ r, r < ds.length → ∀ j (hj : j < firstLabels.length),
      lookupLabel (ds.getD r []) firstLabels[j] = some ((rows.getD r []).getD j 0) := by
  induction ds generalizing rows with
  | nil =>
    simp only [iterRest] at h
    cases h
    simp
  | cons d ds ih =>
    simp only [iterRest] at h
    have hnd' : ∀ d ∈ ds, (d.map (·.1)).Nodup := fun x hx => hnd x (List.mem_cons_of_mem _ hx)
    have hd : (d.map (·.1)).Nodup := hnd d (by simp)
    by_cases heq : d.map (·.1) = firstLabels
    · simp only [heq, if_true] at h
      cases hr : iterRest reindexRow firstLabels ds with
      | error e => simp [hr] at h
      | ok rows' =>
        simp only [hr] at h
        cases h
        obtain ⟨h1, h2⟩ := ih rows' hnd' hr
        refine ⟨by simp [h1], ?_⟩
        intro r hr' j hj
        cases r with
        | zero =>
          simp only [List.getD_cons_zero]
          have hj' : j < (d.map (·.1)).length := by rw [heq]; exact hj
          have := ownRow_values d hd j hj'
          simp only [heq] at this
          exact this
        | succ r =>
          simp only [List.getD_cons_succ]
          exact h2 r (by simpa using hr') j hj
    · simp only [heq, if_false] at h
      by_cases hs : sameSet (d.map (·.1)) firstLabels = true
      · simp only [hs, Bool.not_true, Bool.false_eq_true, if_false] at h
        cases hr : iterRest reindexRow firstLabels ds with
        | error e => simp [hr] at h
        | ok rows' =>
          simp only [hr] at h
          cases h
          obtain ⟨h1, h2⟩ := ih rows' hnd' hr
          refine ⟨by simp [h1], ?_⟩
          intro r hr' j hj
          cases r with
          | zero =>
            simp only [List.getD_cons_zero]
            exact reindexRow_values firstLabels d hs j hj
          | succ r =>
            simp only [List.getD_cons_succ]
            exact h2 r (by simpa using hr') j hj
      · simp [hs] at h

/-- **`as_samples_row_values`, list of dicts** (any key orders): one row per dict, labels = the first dict's
    keys, and the value delivered in row `r` under label `ℓ` is what the `r`-th dict assigns to `ℓ` -/
theorem asSamples_dicts_values (l : List (List (Label × R))) (rows : List (List R)) (labels : List Label)
    (hnd : ∀ d ∈ l, (d.map (·.1)).Nodup)
    (h : asSamples (.dicts l) = .ok (rows, labels)) :
    rows.length = l.length ∧ labels = (l.head?.getD []).map (·.1) ∧
    ∀ r, r < l.length → ∀ j (hj : j < labels.length),
      (SL.dicts l).value r labels[j] = some ((rows.getD r []).getD j 0) := by
  simp only [asSamples, asSamplesIterWith] at h
  cases l with
  | nil =>
    simp only at h
    cases h
    simp
  | cons first rest =>
    simp only at h
    cases hr : iterRest reindexRow (first.map (·.1)) rest with
    | error e => simp [hr] at h
    | ok rows' =>
      simp only [hr] at h
      cases h
      have hnd' : ∀ d ∈ rest, (d.map (·.1)).Nodup := fun x hx => hnd x (List.mem_cons_of_mem _ hx)
      obtain ⟨h1, h2⟩ := iterRest_values _ rest rows' hnd' hr
      refine ⟨by simp [h1], by simp, ?_⟩
      intro r hr' j hj
      simp only [SL.value]
      cases r with
      | zero =>
        simp only [List.getElem?_cons_zero, Option.bind_some, List.getD_cons_zero]
        exact ownRow_values first (hnd first (by simp)) j hj
      | succ r =>
        have hr'' : r < rest.length := by simpa using hr'
        simp only [List.getElem?_cons_succ, List.getD_cons_succ]
        have := h2 r hr'' j hj
        rw [List.getElem?_eq_getElem hr'']
        simp only [Option.bind_some]
        have hg : rest.getD r [] = rest[r] := by simp [List.getD, hr'']
        rw [hg] at this
        exact this

/-- a list of dicts whose key sets differ is rejected -/
theorem asSamples_dicts_mismatch (first d : List (Label × R)) (pre post : List (List (Label × R)))
    (hpre : ∀ x ∈ pre, sameSet (x.map (·.1)) (first.map (·.1)) = true)
    (hd : sameSet (d.map (·.1)) (first.map (·.1)) = false) :
    asSamples (.dicts (first :: (pre ++ d :: post))) = .error .value := by
  simp only [asSamples, asSamplesIterWith]
  have : iterRest reindexRow (first.map (·.1)) (pre ++ d :: post) = .error .value := by
    induction pre with
    | nil =>
      simp only [List.nil_append, iterRest]
      have hne : ¬ d.map (·.1) = first.map (·.1) := by
        intro he
        rw [he] at hd
        have : sameSet (first.map (·.1)) (first.map (·.1)) = true := by
          unfold sameSet
          simp only [Bool.and_self, List.all_eq_true]
          intro x hx; simpa using hx
        rw [this] at hd; cases hd
      simp [hne, hd]
    | cons x xs ih =>
      have hx := hpre x (by simp)
      have ih' := ih (fun y hy => hpre y (List.mem_cons_of_mem _ hy))
      simp only [List.cons_append, iterRest]
      by_cases he : x.map (·.1) = first.map (·.1)
      · simp [he, ih']
      · simp [he, hx, ih']
  rw [this]

/-- a single dict: one row, its keys as labels, each value under its key -/
theorem asSamples_dict_values (items : List (Label × R)) (hnd : (items.map (·.1)).Nodup) :
    ∃ rows labels, asSamples (.dict items) = .ok (rows, labels) ∧ rows.length = 1 ∧ labels = items.map (·.1) ∧
      ∀ j (hj : j < labels.length), (SL.dict items).value 0 labels[j] = some ((rows.getD 0 []).getD j 0) := by
  simp only [asSamples, asSamplesDict]
  by_cases h : items.isEmpty
  · have : items = [] := List.isEmpty_iff.mp h
    subst this
    exact ⟨[[]], [], by simp, by simp, by simp, by simp⟩
  · refine ⟨[items.map (·.2)], items.map (·.1), by simp [h], by simp, rfl, ?_⟩
    intro j hj
    simp only [SL.value, List.getD_cons_zero]
    exact ownRow_values items hnd j hj

/-- a labelled 2-d array (any column order, distinct labels): rows are delivered as given and the value under
    label `ℓ` is the entry of the column that carries `ℓ` -/
theorem asSamples_labelled_values (rows : List (List R)) (labels : List Label) (hnd : labels.Nodup)
    (out : List (List R)) (labels' : List Label)
    (hne : rows.length * widthOf rows ≠ 0)
    (h : asSamples (.labelled rows labels) = .ok (out, labels')) :
    out = rows ∧ labels' = labels ∧ labels.length = widthOf rows ∧
    ∀ r (hr : r < rows.length) j (hj : j < labels.length), j < rows[r].length →
      (SL.labelled rows labels).value r labels[j] = some ((out.getD r []).getD j 0) := by
  simp only [asSamples, tupleCheck, hne, if_false] at h
  by_cases hw : labels.length = widthOf rows
  · simp only [hw, ne_eq, not_true_eq_false, if_false] at h
    cases h
    refine ⟨rfl, rfl, hw, ?_⟩
    intro r hr j hj hjr
    simp only [SL.value, List.getElem?_eq_getElem hr, Option.bind_some]
    obtain ⟨i, hi⟩ := indexOf?_of_mem labels labels[j] (List.getElem_mem hj)
    have : i = j := indexOf?_unique labels hnd _ i j hi (by simp [List.getElem?_eq_getElem hj])
    subst this
    simp [hi, List.getD, hr, hjr]
  · simp [hw] at h

end En

/-! ## the remaining encodings -/

namespace En

variable {R : Type} [Zero R]

/-- an unlabelled 2-d array: labels are `0 … width−1` and the value under label `j` is column `j` -/
theorem asSamples_arr_values (rows : List (List R)) :
    asSamples (.arr rows) = .ok (rows, rangeLabels (widthOf rows)) ∧
    ∀ r (hr : r < rows.length) j (hj : j < rows[r].length),
      (SL.arr rows).value r (.int (Int.ofNat j)) = some ((rows.getD r []).getD j 0) := by
  refine ⟨rfl, ?_⟩
  intro r hr j hj
  simp only [SL.value]
  have h0 : (0 : Int) ≤ Int.ofNat j := Int.natCast_nonneg j
  simp [h0, List.getElem?_eq_getElem hr, List.getElem?_eq_getElem hj, List.getD, hr, hj]

/-- a SampleSet: its record and variables as they are -/
theorem asSamples_sampleset_values (rows : List (List R)) (labels : List Label) (hnd : labels.Nodup) :
    asSamples (.sampleset rows labels) = .ok (rows, labels) ∧
    ∀ r (hr : r < rows.length) j (hj : j < labels.length), j < rows[r].length →
      (SL.sampleset rows labels).value r labels[j] = some ((rows.getD r []).getD j 0) := by
  refine ⟨rfl, ?_⟩
  intro r hr j hj hjr
  simp only [SL.value, List.getElem?_eq_getElem hr, Option.bind_some]
  obtain ⟨i, hi⟩ := indexOf?_of_mem labels labels[j] (List.getElem_mem hj)
  have : i = j := indexOf?_unique labels hnd _ i j hi (by simp [List.getElem?_eq_getElem hj])
  subst this
  simp [hi, List.getD, hr, hjr]

/-- a labelled 1-d array (one sample) -/
theorem asSamples_labelled1_values (row : List R) (labels : List Label) (hnd : labels.Nodup) (hne : row ≠ [])
    (out : List (List R)) (labels' : List Label)
    (h : asSamples (.labelled1 row labels) = .ok (out, labels')) :
    out = [row] ∧ labels' = labels ∧ labels.length = row.length ∧
    ∀ j (hj : j < labels.length), (SL.labelled1 row labels).value 0 labels[j] = some ((out.getD 0 []).getD j 0) := by
  have he : row.isEmpty = false := by cases row <;> simp_all
  have hl : row.length ≠ 0 := by cases row <;> simp_all
  simp only [asSamples, sampleArray1, he, Bool.false_eq_true, if_false, tupleCheck, widthOf, List.head?_cons,
    Option.map_some, Option.getD_some, List.length_cons, List.length_nil, Nat.zero_add, Nat.one_mul, hl] at h
  by_cases hw : labels.length = row.length
  · simp only [hw, ne_eq, not_true_eq_false, if_false] at h
    cases h
    refine ⟨rfl, rfl, hw, ?_⟩
    intro j hj
    simp only [SL.value, List.getD_cons_zero]
    obtain ⟨i, hi⟩ := indexOf?_of_mem labels labels[j] (List.getElem_mem hj)
    have : i = j := indexOf?_unique labels hnd _ i j hi (by simp [List.getElem?_eq_getElem hj])
    subst this
    have hjr : i < row.length := by omega
    simp [hi, List.getD, hjr]
  · simp [hw] at h

end En
