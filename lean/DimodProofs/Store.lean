import DimodModel.Store
import DimodProofs.Slice

/-! Frame and freshness lemmas of the store model (C19). Core Lean only. -/

namespace Store
open SSM

/-- a write through one window is invisible through a window on another buffer -/
theorem read_write_other_base (st : St) (a b : Arr) (i j : Nat) (v : Rat) (h : a.base ≠ b.base) :
    read (write st a i v) b j = read st b j := by
  simp only [read, write]
  have : ¬ (b.base = a.base ∧ b.addr j = a.addr i) := fun hh => h hh.1.symm
  simp [this]

theorem read_write_same (st : St) (a : Arr) (i : Nat) (v : Rat) : read (write st a i v) a i = v := by
  simp [read, write]

/-- a write through a window is invisible at every other address -/
theorem read_write_other_addr (st : St) (a b : Arr) (i j : Nat) (v : Rat) (h : a.addr i ≠ b.addr j) :
    read (write st a i v) b j = read st b j := by
  simp only [read, write]
  have : ¬ (b.base = a.base ∧ b.addr j = a.addr i) := fun hh => h hh.2.symm
  simp [this]

theorem alloc_base (st : St) (vals : List Rat) : (alloc st vals).2.base = st.next ∧ (alloc st vals).1.next = st.next + 1 := ⟨rfl, rfl⟩

/-- allocation does not disturb existing buffers -/
theorem read_alloc_old (st : St) (vals : List Rat) (b : Arr) (j : Nat) (h : b.base < st.next) :
    read (alloc st vals).1 b j = read st b j := by
  simp only [read, alloc]
  have : b.base ≠ st.next := Nat.ne_of_lt h
  simp [this]

theorem readAll_alloc_old (st : St) (vals : List Rat) (b : Arr) (h : b.base < st.next) :
    readAll (alloc st vals).1 b = readAll st b := by
  simp only [readAll]
  apply List.map_congr_left
  intro j _
  exact read_alloc_old st vals b j h

/-- the new buffer holds the given values -/
theorem readAll_alloc_new (st : St) (vals : List Rat) : readAll (alloc st vals).1 (alloc st vals).2 = vals := by
  simp only [readAll, alloc]
  apply List.ext_getElem
  · simp
  · intro k h1 h2
    simp [read, Arr.addr, List.getElem?_eq_getElem h2]

/-- well-scoped: everything the object refers to was allocated before `st.next` -/
def Scoped (st : St) (o : Obj) : Prop :=
  o.record.base < st.next ∧ o.variables < st.next ∧ o.infoTop < st.next ∧ ∀ n ∈ o.infoNested, n < st.next

theorem mem_newIds (st : St) (k n : Nat) (h : n ∈ (newIds st k).2) : st.next ≤ n := by
  simp only [newIds, List.mem_map, List.mem_range] at h
  obtain ⟨i, _, rfl⟩ := h
  omega

theorem mkInfo_next (st : St) (o : Obj) (mode : InfoMode) : st.next < (mkInfo st o mode).1.next ∧ st.next ≤ (mkInfo st o mode).2.1 := by
  cases mode <;> simp [mkInfo, newId, newIds] <;> omega

/-- the object built by `SampleSet(record, …)` has a new `Variables`, a new top-level `info` dict, and —
    unless `info` is passed on — new nested containers -/
theorem construct_fresh (st : St) (o : Obj) (rec : Arr) (mode : InfoMode) (hs : ∀ n ∈ o.infoNested, n < st.next)
    (hv : o.variables < st.next) (ht : o.infoTop < st.next) :
    (construct st o rec mode).2.record = rec ∧
    (construct st o rec mode).2.variables ≠ o.variables ∧
    (construct st o rec mode).2.infoTop ≠ o.infoTop ∧
    (mode ≠ .passed → ∀ n ∈ (construct st o rec mode).2.infoNested, n ∉ o.infoNested) ∧
    (mode = .passed → (construct st o rec mode).2.infoNested = o.infoNested) := by
  cases mode
  · simp only [construct, newId, mkInfo]
    refine ⟨trivial, by omega, by omega, fun h => absurd rfl h, fun _ => trivial⟩
  · simp only [construct, newId, mkInfo]
    refine ⟨trivial, by omega, by omega, ?_, fun h => by cases h⟩
    intro _ n hn hn'
    have h1 := mem_newIds _ _ _ hn
    have h2 := hs n hn'
    simp only at h1
    omega
  · simp only [construct, newId, mkInfo]
    refine ⟨trivial, by omega, by omega, fun _ n hn => by simp at hn, fun h => by cases h⟩

/-- the store after `construct` extends the store before it: no buffer is touched -/
theorem construct_mem (st : St) (o : Obj) (rec : Arr) (mode : InfoMode) : (construct st o rec mode).1.mem = st.mem := by
  cases mode <;> rfl

end Store

namespace Store
open SSM

/-- the shape every repaired copy-producing function has: a freshly allocated record, then `construct` -/
theorem fresh_of_alloc (st : St) (o : Obj) (hs : Scoped st o) (vals : List Rat) (mode : InfoMode) :
    let r := (construct (alloc st vals).1 o (alloc st vals).2 mode).2
    r.record.base ≠ o.record.base ∧ r.variables ≠ o.variables ∧ r.infoTop ≠ o.infoTop ∧
    (mode ≠ .passed → ∀ n ∈ r.infoNested, n ∉ o.infoNested) := by
  intro r
  obtain ⟨h1, h2, h3, h4⟩ := hs
  have hn : (alloc st vals).1.next = st.next + 1 := rfl
  obtain ⟨c1, c2, c3, c4, _⟩ := construct_fresh (alloc st vals).1 o (alloc st vals).2 mode
    (fun n hn' => by rw [hn]; exact Nat.lt_succ_of_lt (h4 n hn')) (by rw [hn]; omega) (by rw [hn]; omega)
  refine ⟨?_, c2, c3, c4⟩
  show (construct _ o _ mode).2.record.base ≠ _
  rw [c1]
  show st.next ≠ _
  omega

/-- values the result of each function must hold, read from the receiver -/
def Op.expected (st : St) (o : Obj) : Op → List Rat
  | .sliceNone _ sl => ((sliceIndices sl o.record.len).getD []).map (read st o.record)
  | .sliceSorted sel => sel.map (read st o.record)
  | .lowest mask => if o.record.len = 0 then readAll st o.record else maskSelect (readAll st o.record) mask
  | .filter _ mask => maskSelect (readAll st o.record) mask
  | .aggregate idx => idx.map (read st o.record)
  | _ => readAll st o.record

theorem run_shape (st : St) (o : Obj) (op : Op) (hr : op.isRepaired = true) (st' : St) (r : Obj)
    (h : op.run st o = some (st', r)) :
    ∃ vals mode, (st', r) = construct (alloc st vals).1 o (alloc st vals).2 mode ∧
      (op.shallowInfo = false → mode ≠ .passed) ∧
      (∀ sl, op = .sliceNone true sl → ∃ v, basicSlice o.record sl = some v ∧ vals = readAll st v) ∧
      ((∀ f sl, op ≠ .sliceNone f sl) → vals = op.expected st o) := by
  cases op with
  | copy => exact ⟨readAll st o.record, .passed, by simpa [Op.run, copyArr] using h.symm, by simp [Op.shallowInfo], by simp, fun _ => rfl⟩
  | deepcopy => exact ⟨readAll st o.record, .deep, by simpa [Op.run, copyArr] using h.symm, by simp, by simp, fun _ => rfl⟩
  | sliceNone f sl =>
    simp only [Op.isRepaired] at hr
    subst hr
    simp only [Op.run] at h
    cases hb : basicSlice o.record sl with
    | none => simp [hb] at h
    | some v =>
      simp only [hb, if_true, copyArr, Option.some.injEq] at h
      exact ⟨readAll st v, .deep, h.symm, by simp, fun sl' e => by cases e; exact ⟨v, hb, rfl⟩, fun hne => absurd rfl (hne true sl)⟩
  | sliceSorted sel => exact ⟨sel.map (read st o.record), .deep, by simpa [Op.run, fancy] using h.symm, by simp, by simp, fun _ => rfl⟩
  | lowest mask =>
    simp only [Op.run] at h
    by_cases he : o.record.len = 0
    · simp only [he, if_true, copyArr, Option.some.injEq] at h
      exact ⟨readAll st o.record, .passed, h.symm, by simp [Op.shallowInfo], by simp, fun _ => by simp [Op.expected, he]⟩
    · simp only [he, if_false, boolIndex, Option.some.injEq] at h
      exact ⟨maskSelect (readAll st o.record) mask, .deep, h.symm, by simp [Op.shallowInfo], by simp, fun _ => by simp [Op.expected, he]⟩
  | filter f mask =>
    simp only [Op.isRepaired] at hr
    subst hr
    exact ⟨maskSelect (readAll st o.record) mask, .deep, by simpa [Op.run, boolIndex] using h.symm, by simp, by simp, fun _ => rfl⟩
  | aggregate idx => exact ⟨idx.map (read st o.record), .deep, by simpa [Op.run, fancy] using h.symm, by simp, by simp, fun _ => rfl⟩
  | relabelCopy => exact ⟨readAll st o.record, .passed, by simpa [Op.run, copyArr] using h.symm, by simp [Op.shallowInfo], by simp, fun _ => rfl⟩
  | changeVartypeCopy => exact ⟨readAll st o.record, .passed, by simpa [Op.run, copyArr] using h.symm, by simp [Op.shallowInfo], by simp, fun _ => rfl⟩
  | appendVectors f =>
    simp only [Op.isRepaired] at hr
    subst hr
    exact ⟨readAll st o.record, .deep, by simpa [Op.run, copyArr] using h.symm, by simp, by simp, fun _ => rfl⟩
  | fromSamples => exact ⟨readAll st o.record, .deep, by simpa [Op.run, copyArr] using h.symm, by simp, by simp, fun _ => rfl⟩
  | concatOne f =>
    simp only [Op.isRepaired] at hr
    subst hr
    exact ⟨readAll st o.record, .empty, by simpa [Op.run, copyArr] using h.symm, by simp, by simp, fun _ => rfl⟩
  | concatMany => exact ⟨readAll st o.record, .empty, by simpa [Op.run, copyArr] using h.symm, by simp, by simp, fun _ => rfl⟩

/-- reading through a basic-slice window = reading the receiver at the selected positions -/
theorem readAll_basicSlice (st : St) (a v : Arr) (sl : PySlice) (h : basicSlice a sl = some v) :
    readAll st v = ((sliceIndices sl a.len).getD []).map (read st a) := by
  simp only [basicSlice, Option.map_eq_some_iff] at h
  obtain ⟨b, hb, rfl⟩ := h
  obtain ⟨hc, hp, hn⟩ := sliceBounds_spec sl a.len b.1 b.2.1 b.2.2 (by simpa using hb)
  simp only [sliceIndices, hb, Option.map_some, Option.getD_some, readAll, rangeInt, List.map_map, List.length_map, List.length_range]
  apply List.map_congr_left
  intro k hk
  simp only [Function.comp, read, Arr.addr]
  congr 1
  -- the address arithmetic: offset + start*stride + k*(stride*step) = offset + (start + k*step)*stride
  have hnn : 0 ≤ b.1 + (k : Int) * b.2.2 := by
    simp only [List.mem_range] at hk
    by_cases hpos : 0 < b.2.2
    · have := hp hpos
      have : 0 ≤ (k : Int) * b.2.2 := Int.mul_nonneg (by omega) (by omega)
      omega
    · have hneg : b.2.2 < 0 := by omega
      have hb' := hn hneg
      simp only [show ¬ (b.2.2 > 0) by omega, if_false] at hk
      have hk' : (k : Int) + 1 ≤ (b.1 - b.2.1 - b.2.2 - 1) / (-b.2.2) := by omega
      have h1 : ((k : Int) + 1) * (-b.2.2) ≤ (b.1 - b.2.1 - b.2.2 - 1) / (-b.2.2) * (-b.2.2) :=
        Int.mul_le_mul_of_nonneg_right hk' (by omega)
      have h2 := Int.ediv_mul_le (b.1 - b.2.1 - b.2.2 - 1) (b := -b.2.2) (by omega)
      have h3 : ((k : Int) + 1) * (-b.2.2) = -(k * b.2.2) - b.2.2 := by
        rw [Int.add_mul, Int.one_mul, Int.mul_neg]; omega
      omega
  rw [Int.toNat_of_nonneg hnn, Int.add_mul, Int.mul_assoc, Int.mul_comm a.stride b.2.2]
  omega

end Store

namespace Store

/-! ### several inputs -/

/-- `st'` was reached from `st` by allocations only: every buffer that existed is untouched -/
def Extends (st st' : St) : Prop := st.next ≤ st'.next ∧ ∀ b, b < st.next → ∀ k, st'.mem b k = st.mem b k

theorem Extends.refl (st : St) : Extends st st := ⟨Nat.le_refl _, fun _ _ _ => rfl⟩

theorem Extends.trans {a b c : St} (h1 : Extends a b) (h2 : Extends b c) : Extends a c :=
  ⟨Nat.le_trans h1.1 h2.1, fun x hx k => by rw [h2.2 x (Nat.lt_of_lt_of_le hx h1.1) k, h1.2 x hx k]⟩

theorem extends_alloc (st : St) (vals : List Rat) : Extends st (alloc st vals).1 := by
  refine ⟨Nat.le_succ _, ?_⟩
  intro b hb k
  have : b ≠ st.next := Nat.ne_of_lt hb
  simp [alloc, this]

theorem Extends.readAll {st st' : St} (h : Extends st st') (b : Arr) (hb : b.base < st.next) : readAll st' b = readAll st b := by
  simp only [Store.readAll]
  apply List.map_congr_left
  intro j _
  exact h.2 b.base hb _

theorem extends_coerceInput (st : St) (inp : Arr) (f : Rat → Rat) (v o : Bool) : Extends st (coerceInput st inp f v o).1 := by
  unfold coerceInput
  cases v <;> cases o <;> simp only [copyArr, Bool.false_eq_true, if_false, if_true]
  · exact Extends.refl st
  · exact extends_alloc st _
  · exact extends_alloc st _
  · exact (extends_alloc st _).trans (extends_alloc _ _)

theorem extends_coerceAll (st : St) (l : List (Arr × (Rat → Rat) × Bool × Bool)) : Extends st (coerceAll st l).1 := by
  induction l generalizing st with
  | nil => exact Extends.refl st
  | cons x t ih =>
    obtain ⟨a, f, v, o⟩ := x
    exact (extends_coerceInput st a f v o).trans (ih _)

/-- building one sample set from several leaves **every** pre-existing buffer — the first input, all further
    inputs, anything else — bit for bit unchanged, and the result lives in a buffer of its own -/
theorem concatInputs_spec (st : St) (first : Arr) (others : List (Arr × (Rat → Rat) × Bool × Bool)) :
    (∀ b : Arr, b.base < st.next → readAll (concatInputs st first others).1 b = readAll st b) ∧
    st.next ≤ (concatInputs st first others).2.base := by
  have h1 := extends_coerceAll st others
  have h2 := extends_alloc (coerceAll st others).1 ((first :: (coerceAll st others).2).flatMap (readAll (coerceAll st others).1))
  exact ⟨fun b hb => (h1.trans h2).readAll b hb, h1.1⟩

end Store

namespace Store

/-! ### model objects -/

def MScoped (st : MSt) (o : Mdl) : Prop := o.handle < st.next ∧ o.variables < st.next

/-- every cell that existed keeps its content -/
def MExtends (st st' : MSt) : Prop :=
  st.next ≤ st'.next ∧ (∀ k, k < st.next → st'.native k = st.native k) ∧ (∀ k, k < st.next → st'.vars k = st.vars k)

theorem freshFrom_spec (st : MSt) (o : Mdl) (f : List Rat → List Rat) (g : List Nat → List Nat) :
    MExtends st (freshFrom st o f g).1 ∧
    (freshFrom st o f g).2.handle = st.next ∧ (freshFrom st o f g).2.variables = st.next + 1 ∧
    (freshFrom st o f g).1.native (freshFrom st o f g).2.handle = f (st.native o.handle) ∧
    (freshFrom st o f g).1.vars (freshFrom st o f g).2.variables = g (st.vars o.variables) := by
  refine ⟨⟨by simp [freshFrom], ?_, ?_⟩, rfl, rfl, by simp [freshFrom], by simp [freshFrom]⟩
  · intro k hk
    have : k ≠ st.next := Nat.ne_of_lt hk
    simp [freshFrom, this]
  · intro k hk
    have : k ≠ st.next + 1 := by omega
    simp [freshFrom, this]

theorem read_setNative_other (st : MSt) (h k : Nat) (c : List Rat) (hk : k ≠ h) : (setNative st h c).native k = st.native k := by
  simp [setNative, hk]

theorem read_setNative_same (st : MSt) (h : Nat) (c : List Rat) : (setNative st h c).native h = c := by
  simp [setNative]

theorem read_setVars_other (st : MSt) (v k : Nat) (c : List Nat) (hk : k ≠ v) : (setVars st v c).vars k = st.vars k := by
  simp [setVars, hk]

theorem addConstraintFromModel_spec (st : MSt) (src : Mdl) (copy : Bool) (hs : MScoped st src) :
    (addConstraintFromModel st src copy).2 = st.next ∧
    (addConstraintFromModel st src copy).1.native (addConstraintFromModel st src copy).2 = st.native src.handle ∧
    (copy = true → ∀ k, k < st.next → (addConstraintFromModel st src copy).1.native k = st.native k) ∧
    (copy = false → (addConstraintFromModel st src copy).1.native src.handle = []) := by
  have hne : st.next ≠ src.handle := by have := hs.1; omega
  cases copy
  · refine ⟨rfl, ?_, (fun h => by cases h), fun _ => ?_⟩
    · simp [addConstraintFromModel, setNative, hne]
    · simp [addConstraintFromModel, setNative]
  · refine ⟨rfl, by simp [addConstraintFromModel], fun _ k hk => ?_, (fun h => by cases h)⟩
    have : k ≠ st.next := Nat.ne_of_lt hk
    simp [addConstraintFromModel, this]

end Store
