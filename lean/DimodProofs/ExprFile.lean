import DimodProofs.QmFile
import DimodModel.CqmFile

/-! # Expression files (`_cyExpression._into_file / _from_file`): round trip and truncation -/

namespace FileFmt

open Prog

theorem chunksN_length (rs c : Nat) (d : Bytes) : (chunksN rs c d).length = c := by
  induction c generalizing d with
  | zero => rfl
  | succ c ih => simp [chunksN, ih]

/-! ## `rawRecords` (the `np.frombuffer(buff[:rs*n])` + guarded loop of the raw loaders) -/

theorem rawRecords_of_prefix (guard : Bool) {rs : Nat} (hrs : 0 < rs) {recs : List Bytes} (h : ∀ r ∈ recs, r.length = rs)
    (tail : Bytes) (j : Nat) (hj : recs.flatten.length ≤ j) :
    rawRecords guard rs ((recs.flatten ++ tail).take j) recs.length = .ok recs := by
  have hl := flatten_length_const h
  unfold rawRecords
  rw [List.take_take, Nat.min_eq_left (by omega), List.take_append_of_le_length (by omega),
    List.take_of_length_le (by omega), frombuffer_flatten hrs h]
  simp

theorem rawRecords_full (guard : Bool) {rs : Nat} (hrs : 0 < rs) {recs : List Bytes} (h : ∀ r ∈ recs, r.length = rs)
    (tail : Bytes) : rawRecords guard rs (recs.flatten ++ tail) recs.length = .ok recs := by
  have := rawRecords_of_prefix guard hrs h tail (recs.flatten ++ tail).length (by simp)
  rwa [List.take_length] at this

theorem rawRecords_short {rs : Nat} (hrs : 0 < rs) {recs : List Bytes} (h : ∀ r ∈ recs, r.length = rs)
    (tail : Bytes) (j : Nat) (hj : j < recs.flatten.length) :
    ∃ e, rawRecords true rs ((recs.flatten ++ tail).take j) recs.length = .err e := by
  have hl := flatten_length_const h
  unfold rawRecords
  rw [List.take_take, Nat.min_eq_right (by omega)]
  have hlen : ((recs.flatten ++ tail).take j).length = j := by
    rw [List.length_take, List.length_append]; omega
  unfold frombuffer
  rw [hlen]
  by_cases hm : j % rs ≠ 0
  · exact ⟨.value, by simp [hm]⟩
  · have hne : ¬ ((chunksN rs (j / rs) ((recs.flatten ++ tail).take j)).length = recs.length) := by
      rw [chunksN_length]
      intro e
      have : j / rs * rs ≤ j := Nat.div_mul_le_self j rs
      rw [e, Nat.mul_comm] at this
      omega
    exact ⟨.value, by simp [hm, hne]⟩

/-! ## payloads -/

/-- what `_into_file` may assume of an expression -/
structure ExprWF (h : QHeader J) (e : ExprContent) : Prop where
  dpos : 0 < h.dsize
  ipos : 0 < h.isize
  nidx : e.indices.length = h.nvars
  nlin : e.linear.length = h.nvars
  nquad : e.quad.length = h.ninter
  distinct : countDistinct e.indices = h.nvars
  idx : ∀ i ∈ e.indices, 2 * i < 256 ^ h.isize
  off : e.offset.length = h.dsize
  lin : ∀ b ∈ e.linear, b.length = h.dsize
  quad : ∀ t ∈ e.quad, 2 * t.1 < 256 ^ h.isize ∧ 2 * t.2.1 < 256 ^ h.isize ∧ t.2.2.length = h.dsize
  szidx : (e.indices.map (toLE h.isize)).flatten.length + 64 < 256 ^ nlb4
  szoff : e.offset.length + 64 < 256 ^ nlb4
  szlin : e.linear.flatten.length + 64 < 256 ^ nlb4
  szquad : (e.quad.map (encQuadRec h.isize)).flatten.length + 64 < 256 ^ nlb8

theorem idx_recs {isz : Nat} (l : List Nat) : ∀ r ∈ l.map (toLE isz), r.length = isz := by
  intro r hr
  simp only [List.mem_map] at hr
  obtain ⟨i, _, rfl⟩ := hr
  exact toLE_length _ _

theorem decode_indices {isz : Nat} (l : List Nat) (h : ∀ i ∈ l, 2 * i < 256 ^ isz) :
    (l.map (toLE isz)).map (fun r => (leInt r).toNat) = l := by
  rw [List.map_map]
  conv => rhs; rw [← List.map_id l]
  apply List.map_congr_left
  intro i hi
  simp [Function.comp, leInt_toLE _ _ (h i hi)]

theorem quad_recs {isz dsz : Nat} (q : List (Nat × Nat × Bytes)) (h : ∀ t ∈ q, t.2.2.length = dsz) :
    ∀ r ∈ q.map (encQuadRec isz), r.length = 2 * isz + dsz := by
  intro r hr
  simp only [List.mem_map] at hr
  obtain ⟨t, ht, rfl⟩ := hr
  simp [encQuadRec, toLE_length, h t ht]; omega

theorem decode_quad {isz : Nat} (q : List (Nat × Nat × Bytes))
    (h : ∀ t ∈ q, 2 * t.1 < 256 ^ isz ∧ 2 * t.2.1 < 256 ^ isz) :
    (q.map (encQuadRec isz)).map (decQuadRec isz) = q := by
  rw [List.map_map]
  conv => rhs; rw [← List.map_id q]
  apply List.map_congr_left
  intro t ht
  obtain ⟨u, v, b⟩ := t
  have := h _ ht
  simp only [Function.comp, encQuadRec, decQuadRec, id, List.append_assoc]
  have l1 : (toLE isz u).length = isz := toLE_length _ _
  have l2 : (toLE isz v).length = isz := toLE_length _ _
  rw [List.take_append_of_le_length (by omega), List.take_of_length_le (by omega),
    List.drop_append_of_le_length (by omega), List.drop_eq_nil_of_le (by omega)]
  simp only [List.nil_append]
  rw [List.take_append_of_le_length (by omega), List.take_of_length_le (by omega)]
  have hd : List.drop (2 * isz) (toLE isz u ++ (toLE isz v ++ b)) = b := by
    rw [← List.append_assoc, List.drop_append_of_le_length (by simp [l1, l2]; omega), List.drop_eq_nil_of_le (by simp [l1, l2]; omega)]
    rfl
  rw [hd, leInt_toLE _ _ this.1, leInt_toLE _ _ this.2]
  simp

theorem ilinearLoad_ne_ub (numVars : Nat) (arr : List Bytes) (n : Nat) : ilinearLoad true numVars arr n ≠ .ub := by
  unfold ilinearLoad
  split
  · simp
  · split <;> simp

theorem magINDX_ne : magINDX ≠ [] := by decide
theorem magQUAD_ne : magQUAD ≠ [] := by decide

/-- the expression body after its header: INDX, OFFS, LINB lenient, QUAD the end of the file -/
theorem Comp.exprBody (h : QHeader J) (e : ExprContent) (wf : ExprWF h e) :
    Comp (exprBody true h)
      (sectionDumps magINDX nlb4 (e.indices.map (toLE h.isize)).flatten ++ (sectionDumps magOFFS nlb4 e.offset ++
        (sectionDumps magLINB nlb4 e.linear.flatten ++ sectionDumps magQUAD nlb8 (e.quad.map (encQuadRec h.isize)).flatten)))
      e (sectionPad magQUAD nlb8 (e.quad.map (encQuadRec h.isize)).flatten) := by
  have hix : ∀ rest, (sectionLoadWith magINDX nlb4 fun d => rawRecords true h.isize d h.nvars).run
      (sectionDumps magINDX nlb4 (e.indices.map (toLE h.isize)).flatten ++ rest) = .ok (e.indices.map (toLE h.isize), rest) := fun rest =>
    sectionLoadWith_full _ _ _ _ _ (by decide) wf.szidx (by
      have := rawRecords_full true wf.ipos (idx_recs (isz := h.isize) e.indices) (spaces (sectionPad magINDX nlb4 (e.indices.map (toLE h.isize)).flatten))
      rwa [List.length_map, wf.nidx] at this) rest
  have hof : ∀ rest, (sectionLoadWith magOFFS nlb4 (offsLoads h.dsize)).run
      (sectionDumps magOFFS nlb4 e.offset ++ rest) = .ok (e.offset, rest) := fun rest =>
    sectionLoadWith_full _ _ _ _ e.offset (by decide) wf.szoff (offsLoads_full _ _ _ wf.off wf.dpos) rest
  have hdec : (e.indices.map (toLE h.isize)).map (fun r => (leInt r).toNat) = e.indices := decode_indices _ wf.idx
  have hli : ∀ rest, (sectionLoadWith magLINB nlb4 fun d => (linbLoads h.dsize h.nvars d).bind fun arr =>
        ilinearLoad true (countDistinct ((e.indices.map (toLE h.isize)).map fun r => (leInt r).toNat)) arr h.nvars).run
      (sectionDumps magLINB nlb4 e.linear.flatten ++ rest) = .ok (e.linear, rest) := fun rest =>
    sectionLoadWith_full _ _ _ _ e.linear (by decide) wf.szlin (by
      have := linbLoads_full h.dsize e.linear (spaces (sectionPad magLINB nlb4 e.linear.flatten)) wf.lin wf.dpos
      rw [wf.nlin] at this
      rw [this, hdec]
      simp [Res.bind, ilinearLoad, wf.distinct, wf.nlin]) rest
  have hqr := quad_recs (isz := h.isize) e.quad (fun t ht => (wf.quad t ht).2.2)
  have hrs : 0 < 2 * h.isize + h.dsize := by have := wf.dpos; omega
  unfold FileFmt.exprBody
  refine Comp.bind_lenient hix (NoUB.section _ _ _ fun d => rawRecords_guard_ne_ub _ _ _)
    (fun _ => EofFails.bind _ (EofFails.section _ _ _ magOFFS_ne)) ?_
  refine Comp.bind_lenient hof (NoUB.section _ _ _ (offsLoads_ne_ub _))
    (fun _ => EofFails.bind _ (EofFails.section _ _ _ magLINB_ne)) ?_
  refine Comp.bind_lenient (hli) (NoUB.section _ _ _ fun d => by
      cases hx : linbLoads h.dsize h.nvars d with
      | ok arr => simp only [Res.bind]; exact ilinearLoad_ne_ub _ _ _
      | err e => simp [Res.bind]
      | ub => exact absurd hx (linbLoads_ne_ub _ _ _))
    (fun _ => EofFails.bind _ (EofFails.section _ _ _ magQUAD_ne)) ?_
  have hlast : Comp (sectionLoadWith magQUAD nlb8 fun d => rawRecords true (2 * h.isize + h.dsize) d h.ninter)
      (sectionDumps magQUAD nlb8 (e.quad.map (encQuadRec h.isize)).flatten) (e.quad.map (encQuadRec h.isize))
      (sectionPad magQUAD nlb8 (e.quad.map (encQuadRec h.isize)).flatten) := by
    refine Comp.section _ _ _ _ _ (by decide) wf.szquad ?_ ?_
    · have := rawRecords_full true hrs hqr (spaces (sectionPad magQUAD nlb8 (e.quad.map (encQuadRec h.isize)).flatten))
      rwa [List.length_map, wf.nquad] at this
    · intro j _
      by_cases hlt : j < (e.quad.map (encQuadRec h.isize)).flatten.length
      · left
        have := rawRecords_short hrs hqr (spaces (sectionPad magQUAD nlb8 (e.quad.map (encQuadRec h.isize)).flatten)) j hlt
        rwa [List.length_map, wf.nquad] at this
      · right
        refine ⟨by omega, ?_⟩
        have := rawRecords_of_prefix true hrs hqr (spaces (sectionPad magQUAD nlb8 (e.quad.map (encQuadRec h.isize)).flatten)) j (by omega)
        rwa [List.length_map, wf.nquad] at this
  have := Comp.map hlast (fun qrecs => ExprContent.mk ((e.indices.map (toLE h.isize)).map (fun r => (leInt r).toNat)) e.offset
      e.linear (qrecs.map (decQuadRec h.isize)))
  simp only [hdec, decode_quad e.quad (fun t ht => ⟨(wf.quad t ht).1, (wf.quad t ht).2.1⟩)] at this
  simp only [hdec]
  exact this

theorem exprEncode_eq (hdrText : Bytes) (isz : Nat) (e : ExprContent) :
    exprEncode hdrText isz e = makeHeader exprPrefix Gen.cqmVersionMajor Gen.cqmVersionMinor hdrText ++
      (sectionDumps magINDX nlb4 (e.indices.map (toLE isz)).flatten ++ (sectionDumps magOFFS nlb4 e.offset ++
        (sectionDumps magLINB nlb4 e.linear.flatten ++ sectionDumps magQUAD nlb8 (e.quad.map (encQuadRec isz)).flatten))) := by
  simp [exprEncode]

/-- **the expression file** -/
theorem Comp.expr (parse : Bytes → Option (QHeader J)) (hdrText : Bytes) (h : QHeader J) (e : ExprContent)
    (hh : HeaderOK parse hdrText h) (wf : ExprWF h e) :
    Comp (exprDecode true parse) (exprEncode hdrText h.isize e) (h, e)
      (sectionPad magQUAD nlb8 (e.quad.map (encQuadRec h.isize)).flatten) := by
  rw [exprEncode_eq]
  unfold exprDecode
  refine Comp.bind_lenient (a := ([Gen.cqmVersionMajor.toNat, Gen.cqmVersionMinor.toNat], h))
    (fun rest => readHeader_full exprPrefix hdrText _ _ parse h hh.1 hh.2.1 hh.2.2 rest) (NoUB.header _ _) ?_ ?_
  · intro vh
    exact EofFails.bind _ (EofFails.bind _ (EofFails.section _ _ _ magINDX_ne))
  · exact Comp.map (Comp.exprBody h e wf) (fun e' => (h, e'))

/-! ## no undefined behaviour, whatever the bytes and whatever `json.loads` returns -/

theorem NoUB.ret (a : α) : NoUB (Prog.ret a) := by intro s h; simp [run] at h
theorem NoUB.fail (e : FErr) : NoUB (Prog.fail e : Prog α) := by intro s h; simp [run] at h

theorem NoUB.qmNeigLoop' (isz dsz : Nat) (k : Nat) : NoUB (qmNeigLoop isz dsz k) := NoUB.neigLoop isz dsz k

theorem NoUB.varsLoad (parseVars : Bytes → Option (List J)) : NoUB (varsLoad parseVars) :=
  NoUB.section _ _ _ (varsLoads_ne_ub parseVars)

theorem NoUB.qmDecode (parse : Bytes → Option (QHeader J)) (parseVars : Bytes → Option (List J)) :
    NoUB (qmDecode true parse parseVars) := by
  unfold FileFmt.qmDecode
  refine NoUB.bind (NoUB.header _ _) fun vh => ?_
  split
  · exact NoUB.fail _
  · unfold FileFmt.qmBody
    refine NoUB.bind (NoUB.section _ _ _ fun d => ivartypesLoad_guard_ne_ub _ _ _) fun vi => ?_
    refine NoUB.bind (NoUB.section _ _ _ (offsLoads_ne_ub _)) fun off => ?_
    refine NoUB.bind (NoUB.section _ _ _ (linbLoads_ne_ub _ _)) fun lin => ?_
    refine NoUB.bind (NoUB.neigLoop _ _ _) fun low => ?_
    unfold FileFmt.qmFinish
    split
    · exact NoUB.bind (NoUB.varsLoad _) fun _ => NoUB.ret _
    · exact NoUB.ret _

theorem NoUB.exprDecode (parse : Bytes → Option (QHeader J)) : NoUB (exprDecode true parse) := by
  unfold FileFmt.exprDecode
  refine NoUB.bind (NoUB.header _ _) fun vh => NoUB.bind ?_ fun _ => NoUB.ret _
  unfold FileFmt.exprBody
  refine NoUB.bind (NoUB.section _ _ _ fun d => rawRecords_guard_ne_ub _ _ _) fun irecs => ?_
  refine NoUB.bind (NoUB.section _ _ _ (offsLoads_ne_ub _)) fun off => ?_
  refine NoUB.bind (NoUB.section _ _ _ fun d => ?_) fun lin => ?_
  · cases hx : linbLoads vh.2.dsize vh.2.nvars d with
    | ok arr => simp only [Res.bind]; exact ilinearLoad_ne_ub _ _ _
    | err e => simp [Res.bind]
    | ub => exact absurd hx (linbLoads_ne_ub _ _ _)
  · exact NoUB.bind (NoUB.section _ _ _ fun d => rawRecords_guard_ne_ub _ _ _) fun _ => NoUB.ret _

end FileFmt
