import DimodProofs.CqmRemove

/-! Well-formedness of expressions is preserved by every primitive of `Expression` (property C05). -/

namespace CqmP
open Expr

/-- every variable of the expression is a variable of a model with `n` variables -/
def ExprIn (n : Nat) (e : Expr) : Prop := ∀ g ∈ e.vars, g < n

theorem exprWF_empty : ExprWF ({} : Expr) :=
  ⟨List.nodup_nil, by intro g i; simp [AMap.get?], rfl, rfl, by intro nb h; cases h⟩

/-! ### `enforce_variable` -/

theorem enforce_of_some {e : Expr} {g i : Nat} (h : e.idx.get? g = some i) : e.enforce g = (e, i) := by
  unfold Expr.enforce; rw [h]

theorem enforce_of_none {e : Expr} {g : Nat} (h : e.idx.get? g = none) :
    e.enforce g = ({ vars := e.vars ++ [g], idx := e.idx.set g e.vars.length, qb := e.qb.addVar }, e.vars.length) := by
  unfold Expr.enforce; rw [h]

theorem enforce_wf {e : Expr} (hwf : ExprWF e) (g : Nat) : ExprWF (e.enforce g).1 := by
  cases h : e.idx.get? g with
  | some i => rw [enforce_of_some h]; exact hwf
  | none =>
    rw [enforce_of_none h]
    have hg : g ∉ e.vars := not_mem_of_idx_none hwf h
    refine ⟨?_, ?_, ?_, ?_, ?_⟩
    · show (e.vars ++ [g]).Nodup
      rw [List.nodup_append]
      refine ⟨hwf.nodup, by simp, ?_⟩
      intro a ha b hb
      have : b = g := by simpa using hb
      subst this; intro hab; subst hab; exact hg ha
    · intro k i
      show (e.idx.set g e.vars.length).get? k = some i ↔ (e.vars ++ [g])[i]? = some k
      rw [get?_set]
      by_cases hgk : g = k
      · subst hgk
        rw [if_pos rfl]
        constructor
        · intro hi; cases hi; simp
        · intro hi
          rcases Nat.lt_trichotomy i e.vars.length with hlt | heq | hgt
          · rw [List.getElem?_append_left hlt] at hi
            exact absurd (mem_of_getElem? hi) hg
          · rw [heq]
          · rw [List.getElem?_eq_none (by simp; omega)] at hi; cases hi
      · rw [if_neg hgk, hwf.idx k i]
        constructor
        · intro hi
          rw [List.getElem?_append_left (lt_of_getElem? hi)]; exact hi
        · intro hi
          rcases Nat.lt_or_ge i e.vars.length with hlt | hge
          · rw [List.getElem?_append_left hlt] at hi; exact hi
          · rw [List.getElem?_append_right hge] at hi
            have : (i - e.vars.length) = 0 ∨ (i - e.vars.length) ≠ 0 := by omega
            rcases this with h0 | h0
            · rw [h0] at hi; simp at hi; exact absurd hi hgk
            · rw [List.getElem?_eq_none (by simp; omega)] at hi; cases hi
    · show (e.qb.lin ++ [0]).length = (e.vars ++ [g]).length
      simp [hwf.lin_len]
    · show (e.qb.adj ++ [[]]).length = (e.vars ++ [g]).length
      simp [hwf.adj_len]
    · intro nb hnb p hp
      have hnb' : nb ∈ e.qb.adj ++ [[]] := hnb
      rcases List.mem_append.mp hnb' with h1 | h1
      · have := hwf.adj_lt nb h1 p hp
        show p.1 < (e.vars ++ [g]).length
        simp; omega
      · have : nb = [] := by simpa using h1
        subst this; cases hp

theorem enforce_idx {e : Expr} (g : Nat) : (e.enforce g).1.idx.get? g = some (e.enforce g).2 := by
  cases h : e.idx.get? g with
  | some i => rw [enforce_of_some h]; exact h
  | none => rw [enforce_of_none h]; show (e.idx.set g e.vars.length).get? g = _; rw [get?_set, if_pos rfl]

theorem enforce_lt {e : Expr} (hwf : ExprWF e) (g : Nat) : (e.enforce g).2 < (e.enforce g).1.vars.length := by
  have := (enforce_wf hwf g).idx g (e.enforce g).2
  exact lt_of_getElem? (this.mp (enforce_idx g))

theorem enforce_in {n : Nat} {e : Expr} (hin : ExprIn n e) {g : Nat} (hg : g < n) : ExprIn n (e.enforce g).1 := by
  cases h : e.idx.get? g with
  | some i => rw [enforce_of_some h]; exact hin
  | none =>
    rw [enforce_of_none h]
    intro x hx
    have hx' : x ∈ e.vars ++ [g] := hx
    rcases List.mem_append.mp hx' with h1 | h1
    · exact hin x h1
    · have : x = g := by simpa using h1
      rw [this]; exact hg

/-- an old variable keeps its local index -/
theorem enforce_idx_old {e : Expr} (g k : Nat) {i : Nat} (h : e.idx.get? k = some i) :
    (e.enforce g).1.idx.get? k = some i := by
  cases hg : e.idx.get? g with
  | some j => rw [enforce_of_some hg]; exact h
  | none =>
    rw [enforce_of_none hg]
    show (e.idx.set g e.vars.length).get? k = _
    rw [get?_set]
    have : g ≠ k := by intro hgk; subst hgk; rw [h] at hg; cases hg
    rw [if_neg this]; exact h

/-! ### changes of the biases only -/

/-- the part of an adjacency structure well-formedness looks at -/
def keysOf (adj : List (List (Nat × Rat))) : List (List Nat) := adj.map (·.map Prod.fst)

theorem exprWF_of_keys {e e' : Expr} (hwf : ExprWF e) (hv : e'.vars = e.vars) (hi : e'.idx = e.idx)
    (hl : e'.qb.lin.length = e.qb.lin.length) (hk : keysOf e'.qb.adj = keysOf e.qb.adj) : ExprWF e' := by
  refine ⟨hv ▸ hwf.nodup, by rw [hv, hi]; exact hwf.idx, by rw [hl, hv]; exact hwf.lin_len, ?_, ?_⟩
  · have := congrArg List.length hk
    unfold keysOf at this
    rw [List.length_map, List.length_map] at this
    rw [this, hv]; exact hwf.adj_len
  · intro nb hnb p hp
    have h1 : nb.map Prod.fst ∈ keysOf e'.qb.adj := List.mem_map.mpr ⟨nb, hnb, rfl⟩
    rw [hk] at h1
    obtain ⟨nb0, hnb0, hnb0e⟩ := List.mem_map.mp h1
    have h2 : p.1 ∈ nb0.map Prod.fst := by rw [hnb0e]; exact List.mem_map.mpr ⟨p, hp, rfl⟩
    obtain ⟨q, hq, hqe⟩ := List.mem_map.mp h2
    rw [hv, ← hqe]
    exact hwf.adj_lt nb0 hnb0 q hq

theorem keysOf_modifyAt (adj : List (List (Nat × Rat))) (i : Nat) (f : List (Nat × Rat) → List (Nat × Rat))
    (hf : ∀ nb, (f nb).map Prod.fst = nb.map Prod.fst) : keysOf (Bqm.modifyAt adj i f) = keysOf adj := by
  unfold keysOf
  rw [modifyAt_eq]
  apply List.ext_getElem?
  intro k
  simp only [List.getElem?_map, List.getElem?_modify]
  by_cases hik : i = k
  · subst hik
    cases adj[i]? with
    | none => rfl
    | some nb => simp [hf nb]
  · simp [hik]

theorem map_fst_scaleEntry (nb : List (Nat × Rat)) (w : Nat) (m : Rat) :
    (QB.scaleEntry nb w m).map Prod.fst = nb.map Prod.fst := by
  unfold QB.scaleEntry
  rw [List.map_map]
  apply List.map_congr_left
  intro p _
  simp only [Function.comp]
  split <;> rfl


/-! ### `substitute_variable` changes biases only -/

theorem substStep_shape (patched : Bool) (v : Nat) (m c : Rat) (q : QB) (p : Nat × Rat) :
    (QB.substStep patched v m c q p).lin.length = q.lin.length
    ∧ keysOf (QB.substStep patched v m c q p).adj = keysOf q.adj := by
  unfold QB.substStep
  split
  · exact ⟨length_modifyAt _ _ _, keysOf_modifyAt _ _ _ (fun nb => map_fst_scaleEntry nb _ _)⟩
  · refine ⟨length_modifyAt _ _ _, ?_⟩
    rw [keysOf_modifyAt _ _ _ (fun nb => map_fst_scaleEntry nb _ _),
      keysOf_modifyAt _ _ _ (fun nb => map_fst_scaleEntry nb _ _)]

theorem substituteWith_shape (patched : Bool) (q : QB) (v : Nat) (m c : Rat) :
    (q.substituteWith patched v m c).lin.length = q.lin.length
    ∧ keysOf (q.substituteWith patched v m c).adj = keysOf q.adj := by
  unfold QB.substituteWith
  have : ∀ (l : List (Nat × Rat)) (q0 : QB),
      (l.foldl (QB.substStep patched v m c) q0).lin.length = q0.lin.length
      ∧ keysOf (l.foldl (QB.substStep patched v m c) q0).adj = keysOf q0.adj := by
    intro l
    induction l with
    | nil => intro q0; exact ⟨rfl, rfl⟩
    | cons p t ih =>
      intro q0
      rw [List.foldl_cons]
      have h1 := ih (QB.substStep patched v m c q0 p)
      have h2 := substStep_shape patched v m c q0 p
      exact ⟨h1.1.trans h2.1, h1.2.trans h2.2⟩
  have h := this (q.adj.getD v []) { q with off := q.off + q.lin.getD v 0 * c, lin := Bqm.modifyAt q.lin v (· * m) }
  exact ⟨h.1.trans (length_modifyAt _ _ _), h.2⟩

theorem substitute_wf {e : Expr} (hwf : ExprWF e) (g : Nat) (m c : Rat) : ExprWF (e.substitute g m c) := by
  unfold Expr.substitute
  cases e.idx.get? g with
  | none => exact hwf
  | some i =>
    have h := substituteWith_shape Generated.AbcSubst.selfLoopBranch e.qb i m c
    exact exprWF_of_keys hwf rfl rfl h.1 h.2

theorem substitute_vars (e : Expr) (g : Nat) (m c : Rat) : (e.substitute g m c).vars = e.vars := by
  unfold Expr.substitute; cases e.idx.get? g <;> rfl

/-! ### linear terms and the offset -/

theorem addLinear_wf {e : Expr} (hwf : ExprWF e) (g : Nat) (b : Rat) : ExprWF (e.addLinear g b) :=
  exprWF_of_keys (enforce_wf hwf g) rfl rfl (length_modifyAt _ _ _) rfl

theorem setLinear_wf {e : Expr} (hwf : ExprWF e) (g : Nat) (b : Rat) : ExprWF (e.setLinear g b) :=
  exprWF_of_keys (enforce_wf hwf g) rfl rfl (length_modifyAt _ _ _) rfl

theorem addOffset_wf {e : Expr} (hwf : ExprWF e) (b : Rat) : ExprWF (e.addOffset b) :=
  exprWF_of_keys hwf rfl rfl rfl rfl

theorem addLinear_in {n : Nat} {e : Expr} (hin : ExprIn n e) {g : Nat} (hg : g < n) (b : Rat) : ExprIn n (e.addLinear g b) :=
  enforce_in hin hg

theorem setLinear_in {n : Nat} {e : Expr} (hin : ExprIn n e) {g : Nat} (hg : g < n) (b : Rat) : ExprIn n (e.setLinear g b) :=
  enforce_in hin hg

/-! ### quadratic terms -/

theorem mem_nbhAdd {nb : List (Nat × Rat)} {v : Nat} {b : Rat} {s : Bool} {p : Nat × Rat}
    (hp : p ∈ Bqm.nbhAdd nb v b s) : p.1 = v ∨ ∃ q ∈ nb, q.1 = p.1 := by
  induction nb with
  | nil => simp only [Bqm.nbhAdd, List.mem_singleton] at hp; left; rw [hp]
  | cons q t ih =>
    obtain ⟨w, c⟩ := q
    unfold Bqm.nbhAdd at hp
    split at hp
    · rcases List.mem_cons.mp hp with rfl | hp
      · right; exact ⟨(w, c), List.mem_cons_self, rfl⟩
      · rcases ih hp with h | ⟨q, hq, hq'⟩
        · left; exact h
        · right; exact ⟨q, List.mem_cons_of_mem _ hq, hq'⟩
    · split at hp
      · rcases List.mem_cons.mp hp with rfl | hp
        · right; exact ⟨(w, c), List.mem_cons_self, rfl⟩
        · right; exact ⟨p, List.mem_cons_of_mem _ hp, rfl⟩
      · rcases List.mem_cons.mp hp with rfl | hp
        · left; rfl
        · right; exact ⟨p, hp, rfl⟩

/-- the structural part of `ExprWF` that concerns the base model -/
structure QBOk (n : Nat) (q : QB) : Prop where
  lin_len : q.lin.length = n
  adj_len : q.adj.length = n
  adj_lt : ∀ nb ∈ q.adj, ∀ p ∈ nb, p.1 < n

theorem qbOk_of_wf {e : Expr} (hwf : ExprWF e) : QBOk e.vars.length e.qb := ⟨hwf.lin_len, hwf.adj_len, hwf.adj_lt⟩

theorem exprWF_of_qbOk {e : Expr} (hwf : ExprWF e) {q : QB} (hq : QBOk e.vars.length q) : ExprWF { e with qb := q } :=
  ⟨hwf.nodup, hwf.idx, hq.lin_len, hq.adj_len, hq.adj_lt⟩

theorem mem_modifyAt {α} {l : List α} {i : Nat} {f : α → α} {x : α} (hx : x ∈ Bqm.modifyAt l i f) :
    x ∈ l ∨ ∃ y ∈ l, x = f y := by
  induction l generalizing i with
  | nil => cases i <;> simp [Bqm.modifyAt] at hx
  | cons a t ih =>
    cases i with
    | zero =>
      simp only [Bqm.modifyAt, List.mem_cons] at hx
      rcases hx with rfl | hx
      · right; exact ⟨a, List.mem_cons_self, rfl⟩
      · left; exact List.mem_cons_of_mem _ hx
    | succ i =>
      simp only [Bqm.modifyAt, List.mem_cons] at hx
      rcases hx with rfl | hx
      · left; exact List.mem_cons_self
      · rcases ih hx with h | ⟨y, hy, hxy⟩
        · left; exact List.mem_cons_of_mem _ h
        · right; exact ⟨y, List.mem_cons_of_mem _ hy, hxy⟩

theorem asym_ok {n : Nat} {q : QB} (hq : QBOk n q) {u v : Nat} (hv : v < n) (b : Rat) (s : Bool) :
    QBOk n (q.asym u v b s) := by
  refine ⟨hq.lin_len, by show (Bqm.modifyAt _ _ _).length = n; rw [length_modifyAt]; exact hq.adj_len, ?_⟩
  intro nb hnb p hp
  rcases mem_modifyAt hnb with h | ⟨nb0, hnb0, rfl⟩
  · exact hq.adj_lt nb h p hp
  · rcases mem_nbhAdd hp with h | ⟨q', hq', hqe⟩
    · rw [h]; exact hv
    · rw [← hqe]; exact hq.adj_lt nb0 hnb0 q' hq'

theorem addLinearQB_ok {n : Nat} {q : QB} (hq : QBOk n q) (u : Nat) (b : Rat) : QBOk n (q.addLinear u b) :=
  ⟨by show (Bqm.modifyAt _ _ _).length = n; rw [length_modifyAt]; exact hq.lin_len, hq.adj_len, hq.adj_lt⟩

theorem addQuadraticQB_ok {n : Nat} {q : QB} (hq : QBOk n q) (vt : VT4) {u v : Nat} (hu : u < n) (hv : v < n) (b : Rat) :
    QBOk n (q.addQuadratic vt u v b) := by
  unfold QB.addQuadratic
  split
  · cases vt with
    | binary => exact addLinearQB_ok hq u b
    | spin => exact ⟨hq.lin_len, hq.adj_len, hq.adj_lt⟩
    | integer => exact asym_ok hq hu b false
    | real => exact asym_ok hq hu b false
  · exact asym_ok (asym_ok hq hv b false) hu b false

theorem addQuadratic_wf {e : Expr} (hwf : ExprWF e) (vt : List VT4) (gu gv : Nat) (b : Rat) :
    ExprWF (e.addQuadratic vt gu gv b) := by
  unfold Expr.addQuadratic
  have h1 := enforce_wf hwf gv
  have h2 := enforce_wf h1 gu
  apply exprWF_of_qbOk h2
  apply addQuadraticQB_ok (qbOk_of_wf h2) _ (enforce_lt h1 gu)
  -- the local index of `gv` is still valid after `gu` was enforced
  have := (h2.idx gv (e.enforce gv).2).mp (enforce_idx_old gu gv (enforce_idx gv))
  exact lt_of_getElem? this

theorem addQuadratic_in {n : Nat} {e : Expr} (hin : ExprIn n e) (vt : List VT4) {gu gv : Nat} (hu : gu < n) (hv : gv < n)
    (b : Rat) : ExprIn n (e.addQuadratic vt gu gv b) :=
  enforce_in (enforce_in hin hv) hu

theorem addQuadratic_vars (e : Expr) (vt : List VT4) (gu gv : Nat) (b : Rat) :
    (e.addQuadratic vt gu gv b).vars = ((e.enforce gv).1.enforce gu).1.vars := rfl

/-! ### `remove_interaction` -/

theorem removeInteraction_wf {e : Expr} (hwf : ExprWF e) (gu gv : Nat) : ExprWF (e.removeInteraction gu gv) := by
  unfold Expr.removeInteraction
  cases e.idx.get? gu with
  | none => exact hwf
  | some i =>
    cases e.idx.get? gv with
    | none => exact hwf
    | some j =>
      simp only []
      apply exprWF_of_qbOk hwf
      unfold QB.removeInteraction
      split
      · refine ⟨hwf.lin_len, by show (Bqm.modifyAt _ _ _).length = _; rw [length_modifyAt, length_modifyAt]; exact hwf.adj_len, ?_⟩
        intro nb hnb p hp
        have drop_sub : ∀ (l : List (Nat × Rat)) (w : Nat), ∀ x ∈ QB.nbhDrop l w, x ∈ l := by
          intro l w x hx; unfold QB.nbhDrop at hx; exact (List.mem_filter.mp hx).1
        rcases mem_modifyAt hnb with h | ⟨nb0, hnb0, rfl⟩
        · rcases mem_modifyAt h with h' | ⟨nb1, hnb1, rfl⟩
          · exact hwf.adj_lt nb h' p hp
          · exact hwf.adj_lt nb1 hnb1 p (drop_sub _ _ p hp)
        · have hp' := drop_sub _ _ p hp
          rcases mem_modifyAt hnb0 with h' | ⟨nb1, hnb1, rfl⟩
          · exact hwf.adj_lt nb0 h' p hp'
          · exact hwf.adj_lt nb1 hnb1 p (drop_sub _ _ p hp')
      · exact qbOk_of_wf hwf

theorem removeInteraction_vars (e : Expr) (gu gv : Nat) : (e.removeInteraction gu gv).vars = e.vars := by
  unfold Expr.removeInteraction
  cases e.idx.get? gu with
  | none => rfl
  | some i => cases e.idx.get? gv <;> rfl


/-! ### `Expression::remove_variable` (the variable stays in the model) -/

theorem removeVarQB_ok {n : Nat} {q : QB} (hq : QBOk n q) {i : Nat} (hi : i < n) : QBOk (n - 1) (q.removeVar i) := by
  refine ⟨?_, ?_, ?_⟩
  · show (Bqm.eraseIdx q.lin i).length = n - 1
    rw [length_eraseIdx _ _ (by rw [hq.lin_len]; exact hi), hq.lin_len]
  · show ((Bqm.eraseIdx q.adj i).map (QB.shiftNbh i)).length = n - 1
    rw [List.length_map, length_eraseIdx _ _ (by rw [hq.adj_len]; exact hi), hq.adj_len]
  · intro nb hnb p hp
    have hnb' : nb ∈ (Bqm.eraseIdx q.adj i).map (QB.shiftNbh i) := hnb
    obtain ⟨nb0, hnb0, rfl⟩ := List.mem_map.mp hnb'
    obtain ⟨p0, hp0, hp0i, hpe⟩ := mem_shiftNbh hp
    have hnb0' : nb0 ∈ q.adj := by
      rw [eraseIdx_eq] at hnb0
      exact (List.eraseIdx_sublist _ _).subset hnb0
    have := hq.adj_lt nb0 hnb0' p0 hp0
    rw [hpe]; unfold shift; split <;> omega

theorem get?_decrIdx (tail : List Nat) (hnd : tail.Nodup) (m : AMap Nat Nat) (k : Nat) :
    (decrIdx tail m).get? k = if k ∈ tail then some ((m.get? k).getD 0 - 1) else m.get? k := by
  unfold decrIdx
  induction tail generalizing m with
  | nil => simp
  | cons u t ih =>
    rw [List.nodup_cons] at hnd
    rw [List.foldl_cons, ih hnd.2]
    by_cases hku : k = u
    · subst hku
      rw [if_neg hnd.1, if_pos List.mem_cons_self, get?_set, if_pos rfl]
    · have hne : u ≠ k := fun h => hku h.symm
      rw [get?_set, if_neg hne]
      by_cases hkt : k ∈ t
      · rw [if_pos hkt, if_pos (List.mem_cons_of_mem _ hkt)]
      · have : k ∉ u :: t := by
          intro h; rcases List.mem_cons.mp h with h | h
          · exact hku h
          · exact hkt h
        rw [if_neg hkt, if_neg this]

theorem removeVar_wf {e : Expr} (hwf : ExprWF e) (g : Nat) : ExprWF (e.removeVar g) := by
  unfold Expr.removeVar
  cases h : e.idx.get? g with
  | none => exact hwf
  | some i =>
    simp only []
    have hgi := (hwf.idx g i).mp h
    have hil : i < e.vars.length := lt_of_getElem? hgi
    have hq := removeVarQB_ok (qbOk_of_wf hwf) hil
    have hlen : (Bqm.eraseIdx e.vars i).length = e.vars.length - 1 := length_eraseIdx _ _ hil
    have hdropnd : (e.vars.drop (i + 1)).Nodup := List.Nodup.sublist (List.drop_sublist _ _) hwf.nodup
    refine ⟨nodup_eraseIdx hwf.nodup i, ?_, by rw [hlen]; exact hq.lin_len, by rw [hlen]; exact hq.adj_len,
      by rw [hlen]; exact hq.adj_lt⟩
    intro k j
    show (decrIdx (e.vars.drop (i + 1)) (e.idx.erase g)).get? k = some j ↔ (Bqm.eraseIdx e.vars i)[j]? = some k
    rw [get?_decrIdx _ hdropnd, getElem?_eraseIdx]
    by_cases hkt : k ∈ e.vars.drop (i + 1)
    · rw [if_pos hkt]
      -- k sits at some position j0 > i
      obtain ⟨t, ht⟩ := List.getElem?_of_mem hkt
      rw [List.getElem?_drop] at ht
      have hkg : g ≠ k := by
        intro hgk; subst hgk
        have := idx_unique_of_nodup hwf.nodup ht hgi; omega
      have hidx : e.idx.get? k = some (i + 1 + t) := (hwf.idx k _).mpr ht
      rw [get?_erase, if_neg hkg, hidx]
      simp only [Option.getD_some]
      constructor
      · intro hj
        have : j = i + t := by
          have := Option.some.inj hj; omega
        subst this
        rw [if_neg (by omega)]
        have : i + t + 1 = i + 1 + t := by omega
        rw [this]; exact ht
      · intro hj
        by_cases hji : j < i
        · rw [if_pos hji] at hj
          have := idx_unique_of_nodup hwf.nodup hj ht; omega
        · rw [if_neg hji] at hj
          have := idx_unique_of_nodup hwf.nodup hj ht
          congr 1; omega
    · rw [if_neg hkt, get?_erase]
      by_cases hgk : g = k
      · subst hgk
        rw [if_pos rfl]
        constructor
        · intro hj; cases hj
        · intro hj
          exfalso
          by_cases hji : j < i
          · rw [if_pos hji] at hj
            have := idx_unique_of_nodup hwf.nodup hj hgi; omega
          · rw [if_neg hji] at hj
            have := idx_unique_of_nodup hwf.nodup hj hgi; omega
      · rw [if_neg hgk, hwf.idx k j]
        constructor
        · intro hj
          have hji : j < i := by
            rcases Nat.lt_trichotomy j i with h1 | h1 | h1
            · exact h1
            · subst h1; rw [hj] at hgi; exact absurd (Option.some.inj hgi).symm hgk
            · exfalso; apply hkt
              have : e.vars[i + 1 + (j - (i + 1))]? = some k := by
                have : i + 1 + (j - (i + 1)) = j := by omega
                rw [this]; exact hj
              rw [← List.getElem?_drop] at this
              exact mem_of_getElem? this
          rw [if_pos hji]; exact hj
        · intro hj
          by_cases hji : j < i
          · rw [if_pos hji] at hj; exact hj
          · rw [if_neg hji] at hj
            exfalso; apply hkt
            have : e.vars[i + 1 + (j - i)]? = some k := by
              have : i + 1 + (j - i) = j + 1 := by omega
              rw [this]; exact hj
            rw [← List.getElem?_drop] at this
            exact mem_of_getElem? this

theorem removeVar_in {n : Nat} {e : Expr} (hin : ExprIn n e) (g : Nat) : ExprIn n (e.removeVar g) := by
  unfold Expr.removeVar
  cases e.idx.get? g with
  | none => exact hin
  | some i =>
    intro x hx
    have hx' : x ∈ Bqm.eraseIdx e.vars i := hx
    rw [eraseIdx_eq] at hx'
    exact hin x ((List.eraseIdx_sublist _ _).subset hx')

/-! ### `relabel_variables` (the move path of `add_constraint`) -/

theorem rebuildIdx_eq (vars : List Nat) :
    rebuildIdx vars = setRange vars (fun _ => true) (List.range vars.length) [] := by
  unfold rebuildIdx setRange
  congr 1

theorem idxInv_rebuildIdx {vars : List Nat} (hnd : vars.Nodup) : IdxInv vars (rebuildIdx vars) := by
  rw [rebuildIdx_eq]
  have back : ∀ g i, vars[i]? = some g → (setRange vars (fun _ => true) (List.range vars.length) []).get? g = some i := by
    intro g i hgi
    apply get?_setRange_hit _ _ _ _ _ i (List.mem_range.mpr (lt_of_getElem? hgi)) rfl (getD_of_getElem? hgi)
    intro j hj hjk
    have hjl : j < vars.length := List.mem_range.mp hj
    rw [List.getD_eq_getElem?_getD, List.getElem?_eq_getElem hjl] at hjk
    exact idx_unique_of_nodup hnd (by rw [List.getElem?_eq_getElem hjl]; exact congrArg some hjk) hgi
  intro g i
  constructor
  · intro h
    by_cases hmem : g ∈ vars
    · obtain ⟨j, hj⟩ := List.getElem?_of_mem hmem
      have := back g j hj
      rw [h] at this
      rw [Option.some.inj this]; exact hj
    · exfalso
      rw [get?_setRange_untouched] at h
      · cases h
      · intro j hj ⟨_, hjk⟩
        have hjl : j < vars.length := List.mem_range.mp hj
        rw [List.getD_eq_getElem?_getD, List.getElem?_eq_getElem hjl] at hjk
        apply hmem
        have : vars[j] = g := hjk
        rw [← this]; exact List.getElem_mem hjl
  · exact back g i

theorem relabel_wf {e : Expr} {gs : List Nat} (hq : QBOk gs.length e.qb) (hnd : gs.Nodup) : ExprWF (e.relabel gs) :=
  ⟨hnd, idxInv_rebuildIdx hnd, hq.lin_len, hq.adj_len, hq.adj_lt⟩

end CqmP
