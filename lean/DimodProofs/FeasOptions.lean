import DimodProofs.Feasibility
import DimodModel.FeasOptions

/-! Lemmas for the option theorem of property C08 (`Properties/C08.lean`, `options_eq_def`). -/

namespace Feas

theorem maxR_of_pos {v : Rat} (h : v > 0) : maxR v 0 = v := by
  unfold maxR
  rw [if_neg]
  exact not_lt.mpr (le_of_lt h)

theorem maxR_nonneg (v : Rat) : 0 ≤ maxR v 0 := by
  unfold maxR
  split
  · exact le_refl 0
  · rename_i h; exact not_lt.mp h

/-- the three branches as coded = the documented report, for every option combination -/
theorem iterViolations_eq_reportDef (skip clip : Bool) (cs : List CEval) (r : Nat) :
    iterViolations skip clip cs r = reportDef skip clip cs r := by
  cases skip
  · cases clip
    · rw [iterViolations_plain]; unfold reportDef; simp
    · rw [iterViolations_clip]; unfold reportDef; simp
  · rw [iterViolations_skip]
    unfold reportDef
    simp only [Bool.not_true, Bool.false_or]
    apply List.map_congr_left
    intro c hc
    have hv : violation c r > 0 := by simpa using (List.mem_filter.mp hc).2
    cases clip
    · simp
    · simp [maxR_of_pos hv]

theorem dictInsert_fresh {d : List (Label × Rat)} {k : Label} {v : Rat} (h : k ∉ d.map Prod.fst) :
    dictInsert d k v = d ++ [(k, v)] := by
  unfold dictInsert
  rw [if_neg]
  intro hany
  apply h
  obtain ⟨p, hp, hk⟩ := List.any_eq_true.mp hany
  have hk' : p.1 = k := by simpa using hk
  exact List.mem_map.mpr ⟨p, hp, hk'⟩

theorem foldl_dictInsert : ∀ (l acc : List (Label × Rat)), ((acc ++ l).map Prod.fst).Nodup →
    l.foldl (fun d p => dictInsert d p.1 p.2) acc = acc ++ l := by
  intro l
  induction l with
  | nil => intro acc _; simp
  | cons p t ih =>
    intro acc h
    have hp : p.1 ∉ acc.map Prod.fst := by
      rw [List.map_append, List.map_cons] at h
      have := (List.nodup_append.mp h).2.2
      intro hmem
      exact this _ hmem _ (List.mem_cons_self) rfl
    rw [List.foldl_cons, dictInsert_fresh hp, ih (acc ++ [(p.1, p.2)]) (by simpa using h)]
    simp

/-- `dict(pairs)` of pairs with distinct keys is the pairs, in order -/
theorem dictOf_nodup (l : List (Label × Rat)) (h : (l.map Prod.fst).Nodup) : dictOf l = l := by
  unfold dictOf
  rw [foldl_dictInsert l [] (by simpa using h)]
  simp

theorem reportDef_labels_sublist (skip clip : Bool) (cs : List CEval) (r : Nat) :
    ((reportDef skip clip cs r).map Prod.fst).Sublist (cs.map (·.label)) := by
  unfold reportDef
  rw [List.map_map]
  exact (List.filter_sublist).map _

theorem mem_reportDef (skip clip : Bool) (cs : List CEval) (r : Nat) (l : Label) (v : Rat) :
    (l, v) ∈ reportDef skip clip cs r ↔
      ∃ c ∈ cs, c.label = l ∧ (skip = true → violation c r > 0)
        ∧ v = (if clip then maxR (violation c r) 0 else violation c r) := by
  unfold reportDef
  simp only [List.mem_map, List.mem_filter, Prod.mk.injEq]
  constructor
  · rintro ⟨c, ⟨hc, hs⟩, hl, hv⟩
    refine ⟨c, hc, hl, ?_, hv.symm⟩
    intro hskip
    subst hskip
    simpa using hs
  · rintro ⟨c, hc, hl, hs, hv⟩
    refine ⟨c, ⟨hc, ?_⟩, hl, hv.symm⟩
    cases skip
    · rfl
    · simpa using hs rfl

end Feas
