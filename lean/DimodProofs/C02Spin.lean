import DimodProofs.C02Var

/-! # C02 — `spin_to_binary` of a whole CQM: every SPIN variable converted, in one statement -/

namespace En

variable {R : Type} [CommRing R]

namespace CqmC

/-- substituting for several variables on the whole model = substituting in every expression -/
theorem foldl_substitute_obj (m : CqmC R) (vs : List Nat) (mult c : R) :
    (vs.foldl (fun m v => m.substituteVariable v mult c) m).obj
      = vs.foldl (fun e v => e.substituteVariable v mult c) m.obj := by
  induction vs generalizing m with
  | nil => rfl
  | cons v rest ih => simp only [List.foldl_cons]; rw [ih]; rfl

theorem foldl_substitute_cons (m : CqmC R) (vs : List Nat) (mult c : R) :
    (vs.foldl (fun m v => m.substituteVariable v mult c) m).cons
      = m.cons.map fun k => { k with e := vs.foldl (fun e v => e.substituteVariable v mult c) k.e } := by
  induction vs generalizing m with
  | nil => simp
  | cons v rest ih =>
    simp only [List.foldl_cons]
    rw [ih]
    simp [substituteVariable, mapExprs, List.map_map, Function.comp]

/-- the spin indices among `idxs` -/
def spinsOf (m : CqmC R) (idxs : List Nat) : List Nat := idxs.filter fun v => (m.info[v]?.map (·.vt)) = some VT4.spin

/-- the loop of `spin_to_binary` over distinct indices: expressions are those of substituting `toBinary` for every SPIN
    index (info of the *original* model), and the variable table has exactly those rows set to BINARY with the table's bounds -/
theorem spinToBinaryOver_spec (t : VarTable R) (m : CqmC R) (idxs : List Nat) (hnd : idxs.Nodup) :
    let r := spinToBinaryOver t m idxs
    r.obj = (m.spinsOf idxs).foldl (fun e v => e.substituteVariable v t.toBinary.1 t.toBinary.2) m.obj ∧
    r.cons = m.cons.map (fun k => { k with e := (m.spinsOf idxs).foldl (fun e v => e.substituteVariable v t.toBinary.1 t.toBinary.2) k.e }) ∧
    r.info.length = m.info.length ∧
    ∀ i, r.info[i]?.map (·.vt)
      = if i ∈ m.spinsOf idxs then some VT4.binary else m.info[i]?.map (·.vt) := by
  induction idxs generalizing m with
  | nil =>
    simp [spinToBinaryOver, spinsOf]
  | cons v rest ih =>
    have hnd' := (List.nodup_cons.mp hnd).2
    have hv := (List.nodup_cons.mp hnd).1
    unfold spinToBinaryOver
    simp only [List.foldl_cons]
    by_cases hs : (m.info[v]?.map (·.vt)) = some VT4.spin
    · -- a SPIN variable: one `change_vartype(BINARY, v)`
      have hsrc : (m.info[v]?.map (·.vt)).getD VT4.binary = VT4.spin := by rw [hs]; rfl
      have hstep : (m.changeVartypeWith t .binary v).getD m
          = { m.substituteVariable v t.toBinary.1 t.toBinary.2 with info := setInfo m.info v .binary (some t.toBinaryBounds) } := by
        unfold changeVartypeWith
        simp [hsrc]
      simp only [hs, if_true, hstep]
      set m1 : CqmC R := { m.substituteVariable v t.toBinary.1 t.toBinary.2 with info := setInfo m.info v .binary (some t.toBinaryBounds) } with hm1
      have hinfo1 : ∀ i, m1.info[i]?.map (·.vt) = if i = v ∧ i < m.info.length then some VT4.binary else m.info[i]?.map (·.vt) := by
        intro i
        simp only [hm1, setInfo, List.getElem?_modify]
        by_cases hi : i < m.info.length
        · rw [List.getElem?_eq_getElem hi]
          by_cases hiv : v = i
          · subst hiv; simp [hi]
          · have : ¬ i = v := fun e => hiv e.symm
            simp [hiv, this]
        · rw [List.getElem?_eq_none (by omega)]; simp [hi]
      have hspins : m1.spinsOf rest = m.spinsOf rest := by
        unfold spinsOf
        apply List.filter_congr
        intro i hi
        have : ¬ i = v := fun e => hv (e ▸ hi)
        rw [hinfo1 i]; simp [this]
      obtain ⟨r1, r2, r3, r4⟩ := ih m1 hnd'
      unfold spinToBinaryOver at r1 r2 r3 r4
      have hsp : m.spinsOf (v :: rest) = v :: m.spinsOf rest := by
        unfold spinsOf; exact List.filter_cons_of_pos (by simp only [hs, decide_true])
      refine ⟨?_, ?_, ?_, ?_⟩
      · rw [r1, hspins, hsp]; rfl
      · rw [r2, hspins, hsp]
        simp [hm1, substituteVariable, mapExprs, List.map_map, Function.comp]
      · rw [r3]; simp [hm1, setInfo]
      · intro i
        rw [r4 i, hspins, hsp, hinfo1 i]
        have hvl : v < m.info.length := by
          by_contra hge
          rw [List.getElem?_eq_none (by omega)] at hs; simp at hs
        by_cases hiv : i = v
        · subst hiv; simp [hvl]
        · by_cases hir : i ∈ m.spinsOf rest <;> simp [hiv, hir]
    · simp only [hs, if_false]
      obtain ⟨r1, r2, r3, r4⟩ := ih m hnd'
      unfold spinToBinaryOver at r1 r2 r3 r4
      have hsp : m.spinsOf (v :: rest) = m.spinsOf rest := by
        unfold spinsOf; exact List.filter_cons_of_neg (by simp only [hs, decide_false]; exact Bool.false_ne_true)
      exact ⟨by rw [r1, hsp], by rw [r2, hsp], r3, by intro i; rw [r4 i, hsp]⟩

/-- **`spin_to_binary` of a CQM** (repeated `change_vartype(BINARY, v)` over all SPIN variables): the objective and every
    constraint left-hand side of the result have at `y` the value of the original at the assignment that replaces *every*
    SPIN variable `u` by `toBinary.1 · y u + toBinary.2` (= `2·y u − 1` with the generated pair) and leaves the others;
    sense, rhs, weight, penalty unchanged; every SPIN row of the variable table becomes BINARY, the other rows keep their type -/
theorem spinToBinary_spec (t : VarTable R) (m : CqmC R) (hm : m.WF) (y : Nat → R) :
    let r := m.spinToBinaryWith t
    let isSpin := fun u => u ∈ m.spinsOf (List.range m.info.length)
    let x := fun u => if isSpin u then t.toBinary.1 * y u + t.toBinary.2 else y u
    r.obj.energyCpp y = m.obj.energyCpp x ∧ r.cons.length = m.cons.length ∧
    (∀ i (hi : i < m.cons.length) (hi' : i < r.cons.length),
      r.cons[i].e.energyCpp y = m.cons[i].e.energyCpp x ∧
      r.cons[i].sense = m.cons[i].sense ∧ r.cons[i].rhs = m.cons[i].rhs ∧
      r.cons[i].weight = m.cons[i].weight ∧ r.cons[i].quadPenalty = m.cons[i].quadPenalty) ∧
    ∀ i, r.info[i]?.map (·.vt) = if isSpin i then some VT4.binary else m.info[i]?.map (·.vt) := by
  intro r isSpin x
  obtain ⟨r1, r2, _, r4⟩ := spinToBinaryOver_spec t m (List.range m.info.length) List.nodup_range
  have hnd : (m.spinsOf (List.range m.info.length)).Nodup := List.Nodup.filter _ List.nodup_range
  refine ⟨?_, ?_, ?_, r4⟩
  · show (spinToBinaryOver t m (List.range m.info.length)).obj.energyCpp y = _
    rw [r1]
    exact Expr.substituteMany_energy m.obj hm.1 _ hnd _ _ y
  · show (spinToBinaryOver t m (List.range m.info.length)).cons.length = _
    rw [r2]; simp
  · intro i hi hi'
    let f : Expr R → Expr R := fun e =>
      (m.spinsOf (List.range m.info.length)).foldl (fun e v => e.substituteVariable v t.toBinary.1 t.toBinary.2) e
    have hc : r.cons = m.cons.map (fun k => { k with e := f k.e }) := r2
    have : r.cons[i] = { m.cons[i] with e := f m.cons[i].e } := by
      simp [hc]
    rw [this]
    exact ⟨Expr.substituteMany_energy _ (hm.2 _ (List.getElem_mem hi)) _ hnd _ _ y, rfl, rfl, rfl, rfl⟩

end CqmC

end En
