import DimodProofs.C02Convert
import DimodProofs.C01Loops

/-! # C02 — `BinaryPolynomial.to_binary / to_spin`: powerset expansion preserves every energy -/

namespace En

variable {R : Type}

section Ring
variable [CommRing R]

theorem polySpec_append (x : Nat → R) (p q : Poly R) : polySpec x (p ++ q) = polySpec x p + polySpec x q := by
  induction p with
  | nil => simp [polySpec]
  | cons tb rest ih => obtain ⟨t, b⟩ := tb; simp only [List.cons_append, polySpec]; rw [ih]; ring

/-- `new[t] = v` on the ordered dict -/
theorem polySpec_set (x : Nat → R) (p : Poly R) (t : List Nat) (v : R) :
    polySpec x (ODict.set p t v) = polySpec x p + (v - (ODict.get? p t).getD 0) * termProd x t := by
  induction p with
  | nil => simp [ODict.set, ODict.get?, polySpec]
  | cons kb rest ih =>
    obtain ⟨k, b⟩ := kb
    simp only [ODict.set, ODict.get?]
    by_cases hk : k = t
    · subst hk; simp [polySpec]; ring
    · simp only [hk, if_false, polySpec]; rw [ih]; ring

/-- `new[t] += b` (or `= b` for a new key) adds `b · Π values` to the polynomial -/
theorem polySpec_accum (x : Nat → R) (p : Poly R) (t : List Nat) (b : R) :
    polySpec x (Poly.accum p t b) = polySpec x p + b * termProd x t := by
  unfold Poly.accum
  cases h : ODict.get? p t with
  | some y => simp only []; rw [polySpec_set, h]; simp
  | none => simp only []; rw [polySpec_set, h]; simp

theorem foldl_accum (x : Nat → R) (f : List Nat → R) (ts : List (List Nat)) (new : Poly R) :
    polySpec x (ts.foldl (fun (new : Poly R) t => Poly.accum new t (f t)) new)
      = polySpec x new + (ts.map fun t => f t * termProd x t).sum := by
  induction ts generalizing new with
  | nil => simp
  | cons t rest ih => simp only [List.foldl_cons, List.map_cons, List.sum_cons]; rw [ih, polySpec_accum]; ring

theorem length_le_of_mem_sublists (l s : List Nat) (h : s ∈ sublists l) : s.length ≤ l.length := by
  induction l generalizing s with
  | nil => simp [sublists] at h; subst h; simp
  | cons v t ih =>
    simp only [sublists, List.mem_append, List.mem_map] at h
    rcases h with h | ⟨s', hs', rfl⟩
    · have := ih s h; simp; omega
    · have := ih s' hs'; simp; omega

theorem powR_succ (a : R) (k : Nat) : powR a (k+1) = a * powR a k := rfl

/-- the powerset identity behind `to_binary`: Σ_{t ⊆ term} 2^{|t|} (−1)^{|term|−|t|} Π_{v∈t} x_v = Π_{v∈term} (2 x_v − 1) -/
theorem sublists_sum_binary (x : Nat → R) (term : List Nat) :
    ((sublists term).map fun t => powR two t.length * powR (-1) (term.length - t.length) * termProd x t).sum
      = termProd (fun v => two * x v - 1) term := by
  induction term with
  | nil => simp [sublists, powR, termProd]
  | cons v rest ih =>
    simp only [sublists, List.map_append, List.sum_append, List.map_map, termProd]
    rw [← ih]
    have h1 : ((sublists rest).map fun t => powR two t.length * powR (-1) ((v :: rest).length - t.length) * termProd x t)
        = (sublists rest).map fun t => (-1 : R) * (powR two t.length * powR (-1) (rest.length - t.length) * termProd x t) := by
      apply List.map_congr_left
      intro t ht
      have hl := length_le_of_mem_sublists rest t ht
      have : (v :: rest).length - t.length = (rest.length - t.length) + 1 := by simp; omega
      rw [this, powR_succ]; ring
    have h2 : ((sublists rest).map ((fun t => powR two t.length * powR (-1) ((v :: rest).length - t.length) * termProd x t) ∘ fun t => v :: t))
        = (sublists rest).map fun t => (two * x v) * (powR two t.length * powR (-1) (rest.length - t.length) * termProd x t) := by
      apply List.map_congr_left
      intro t _
      simp only [Function.comp, List.length_cons, Nat.add_sub_add_right, powR_succ, termProd]
      ring
    rw [h1, h2, List.sum_map_mul_left, List.sum_map_mul_left]
    ring

/-- … and behind `to_spin`: Σ_{t ⊆ term} Π_{v∈t} s_v = Π_{v∈term} (s_v + 1) -/
theorem sublists_sum_spin (x : Nat → R) (term : List Nat) :
    ((sublists term).map fun t => termProd x t).sum = termProd (fun v => x v + 1) term := by
  induction term with
  | nil => simp [sublists, termProd]
  | cons v rest ih =>
    simp only [sublists, List.map_append, List.sum_append, List.map_map, termProd]
    rw [← ih]
    have h2 : ((sublists rest).map ((fun t => termProd x t) ∘ fun t => v :: t))
        = (sublists rest).map fun t => x v * termProd x t := by
      apply List.map_congr_left
      intro t _
      simp [Function.comp, termProd]
    rw [h2, List.sum_map_mul_left]
    ring

/-- **`poly_toBinary_energy`**: the polynomial built by `to_binary` at `x` has the energy of the SPIN polynomial
    at `s = 2x − 1` — every term, any degree, repeated sub-terms merged in the new dict -/
theorem polyToBinary_energy (p : Poly R) (x : Nat → R) :
    polySpec x (polyToBinary p) = polySpec (fun v => two * x v - 1) p := by
  unfold polyToBinary
  have : ∀ (new : Poly R), polySpec x (p.foldl (fun new tb =>
      (sublists tb.1).foldl (fun (new : Poly R) t => Poly.accum new t (tb.2 * powR two t.length * powR (-1) (tb.1.length - t.length))) new) new)
      = polySpec x new + polySpec (fun v => two * x v - 1) p := by
    induction p with
    | nil => intro new; simp [polySpec]
    | cons tb rest ih =>
      intro new
      obtain ⟨term, b⟩ := tb
      simp only [List.foldl_cons, polySpec]
      rw [ih, foldl_accum x (fun t => b * powR two t.length * powR (-1) (term.length - t.length))]
      rw [← sublists_sum_binary x term, ← List.sum_map_mul_left]
      have : ((sublists term).map fun t => b * powR two t.length * powR (-1) (term.length - t.length) * termProd x t)
          = (sublists term).map fun t => b * (powR two t.length * powR (-1) (term.length - t.length) * termProd x t) := by
        apply List.map_congr_left; intro t _; ring
      rw [this]; ring
  rw [this []]; simp [polySpec]

end Ring

section Field
variable [Field R]

theorem termProd_half (x : Nat → R) (h2 : (two : R) ≠ 0) (term : List Nat) :
    termProd (fun v => (x v + 1) / two) term = termProd (fun v => x v + 1) term / powR two term.length := by
  induction term with
  | nil => simp [termProd, powR]
  | cons v rest ih =>
    simp only [termProd, List.length_cons, powR_succ]
    rw [ih]
    have : powR (two : R) rest.length ≠ 0 := by
      induction rest.length with
      | zero => simp [powR]
      | succ k ihk => rw [powR_succ]; exact mul_ne_zero h2 ihk
    field_simp

/-- **`poly_toSpin_energy`**: the polynomial built by `to_spin` at `s` has the energy of the BINARY polynomial at
    `x = (s + 1)/2` -/
theorem polyToSpin_energy (p : Poly R) (h2 : (two : R) ≠ 0) (s : Nat → R) :
    polySpec s (polyToSpin p) = polySpec (fun v => (s v + 1) / two) p := by
  unfold polyToSpin
  have : ∀ (new : Poly R), polySpec s (p.foldl (fun new tb =>
      (sublists tb.1).foldl (fun (new : Poly R) t => Poly.accum new t (tb.2 / powR two tb.1.length)) new) new)
      = polySpec s new + polySpec (fun v => (s v + 1) / two) p := by
    induction p with
    | nil => intro new; simp [polySpec]
    | cons tb rest ih =>
      intro new
      obtain ⟨term, b⟩ := tb
      simp only [List.foldl_cons, polySpec]
      rw [ih, foldl_accum s (fun _ => b / powR two term.length), termProd_half s h2 term,
          ← sublists_sum_spin s term, List.sum_map_mul_left]
      ring
  rw [this []]; simp [polySpec]

end Field

end En
