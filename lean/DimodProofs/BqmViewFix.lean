import DimodProofs.BqmViewContract

/-! `fix_variable(v, a)` through a `VartypeView` of the other vartype: the loop adds `a·bias` to each neighbour through
    the view, the offset takes `a·h_v`, then `v` is removed through the view — the view shows `LPoly.fixVariable` of what
    it showed.  Core Lean only. -/

namespace Bqm

/-- the bias listed for `x` (first match), `0` if none -/
def lk : List (Label × Rat) → Label → Rat
  | [], _ => 0
  | (k, c) :: t, x => if k = x then c else lk t x

theorem lk_not_mem (xs : List (Label × Rat)) (x : Label) (h : x ∉ xs.map (·.1)) : lk xs x = 0 := by
  induction xs with
  | nil => rfl
  | cons e t ih =>
    obtain ⟨k, c⟩ := e
    simp only [List.map_cons, List.mem_cons, not_or] at h
    simp only [lk]
    rw [if_neg (fun e => h.1 e.symm)]
    exact ih h.2

/-- a loop of `add_linear(label, a·bias)` over a list of distinct known labels -/
theorem addFold (a : Rat) (xs : List (Label × Rat)) (hnd : (xs.map (·.1)).Nodup) : ∀ (P : LPoly), (∀ e ∈ xs, e.1 ∈ P.vars) →
    (xs.foldl (fun q lc => q.addLinear lc.1 (a * lc.2)) P).vars = P.vars ∧
    (xs.foldl (fun q lc => q.addLinear lc.1 (a * lc.2)) P).quad = P.quad ∧
    (xs.foldl (fun q lc => q.addLinear lc.1 (a * lc.2)) P).off = P.off ∧
    (xs.foldl (fun q lc => q.addLinear lc.1 (a * lc.2)) P).vt = P.vt ∧
    (∀ x, (xs.foldl (fun q lc => q.addLinear lc.1 (a * lc.2)) P).lin x = P.lin x + a * lk xs x) := by
  induction xs with
  | nil => intro P _; exact ⟨rfl, rfl, rfl, rfl, fun x => by simp [lk, Rat.mul_zero, Rat.add_zero]⟩
  | cons e t ih =>
    intro P hmem
    obtain ⟨k, c⟩ := e
    have hndt : (t.map (·.1)).Nodup := (List.nodup_cons.mp hnd).2
    have hkt : k ∉ t.map (·.1) := (List.nodup_cons.mp hnd).1
    have hk : k ∈ P.vars := hmem (k, c) (by simp)
    simp only [List.foldl]
    have hv' : (P.addLinear k (a * c)).vars = P.vars := by
      show (P.ensure k).vars = P.vars
      rw [ensure_vars']; simp [hk]
    have r := ih hndt (P.addLinear k (a * c)) (fun e he => by rw [hv']; exact hmem e (List.mem_cons_of_mem _ he))
    refine ⟨r.1.trans hv', r.2.1.trans (by unfold LPoly.addLinear; exact ensure_quad P k),
      r.2.2.1.trans (by unfold LPoly.addLinear; exact ensure_off P k), r.2.2.2.1.trans (by unfold LPoly.addLinear; exact ensure_vt P k), ?_⟩
    intro x
    rw [r.2.2.2.2 x]
    show (if x = k then P.lin x + a * c else P.lin x) + a * lk t x = P.lin x + a * (if k = x then c else lk t x)
    by_cases hx : x = k
    · rw [hx, lk_not_mem t k hkt]; simp only [if_true]; grind
    · have : ¬ k = x := fun e => hx e.symm
      simp only [hx, this, if_false]

theorem nbrs_keys (q : LPoly) (v : Label) : (q.nbrs v).map (·.1) = q.vars.filter (fun w => (q.quad v w).isSome) := by
  unfold LPoly.nbrs
  induction q.vars with
  | nil => rfl
  | cons w t ih =>
    simp only [List.filterMap_cons, List.filter_cons]
    cases hq : q.quad v w with
    | none => simpa using ih
    | some c => simp [ih]

theorem lk_nbrs {q : LPoly} (hn : q.vars.Nodup) (hc : ∀ a b, (q.quad a b).isSome → a ∈ q.vars ∧ b ∈ q.vars) (v x : Label) :
    lk (q.nbrs v) x = q.g v x := by
  unfold LPoly.g
  by_cases hx : x ∈ (q.nbrs v).map (·.1)
  · obtain ⟨e, he, hex⟩ := List.mem_map.mp hx
    have hq := mem_nbrs (show (e.1, e.2) ∈ q.nbrs v from he)
    rw [hex] at hq
    rw [hq]
    -- the first (only) entry for `x`
    have hnd : ((q.nbrs v).map (·.1)).Nodup := by rw [nbrs_keys]; exact hn.filter _
    have : ∀ (l : List (Label × Rat)), (l.map (·.1)).Nodup → (x, e.2) ∈ l → lk l x = e.2 := by
      intro l
      induction l with
      | nil => intro _ h; cases h
      | cons p t ih =>
        intro hnd hm
        obtain ⟨k, c⟩ := p
        have hkt : k ∉ t.map (·.1) := (List.nodup_cons.mp hnd).1
        simp only [lk]
        rcases List.mem_cons.mp hm with h | h
        · have := Prod.mk.inj h; rw [← this.1, ← this.2]; simp
        · by_cases hk : k = x
          · exfalso; apply hkt; rw [hk]; exact List.mem_map.mpr ⟨(x, e.2), h, rfl⟩
          · rw [if_neg hk]; exact ih (List.nodup_cons.mp hnd).2 h
    have hm : (x, e.2) ∈ q.nbrs v := by rw [← hex]; exact he
    rw [this _ hnd hm]; rfl
  · rw [lk_not_mem _ _ hx]
    cases hq : q.quad v x with
    | none => rfl
    | some c =>
      exfalso; apply hx
      rw [nbrs_keys]
      exact List.mem_filter.mpr ⟨(hc v x (by rw [hq]; rfl)).2, by rw [hq]; rfl⟩

theorem fixStep_eq (tv : VT) (a f : Rat) : fixStep tv a f = loopBody (fun acc ul c => acc.vAddLinear tv ul (a * (f * c))) := by
  funext acc p
  unfold fixStep loopBody
  cases acc.labels[p.1]? <;> rfl

/-- **`fix_variable(v, a)` through a view of the other vartype** -/
theorem view_fix {m : Bqm} (i : Inv m) (tv : VT) (v : Label) (a : Rat) {vi : Nat} (hv : m.indexOf? v = some vi) (htv : tv ≠ m.vt) :
    (absL (m.vFixVariable tv v a).1).viewP tv = ((absL m).viewP tv).fixVariable v a ∧ (m.vFixVariable tv v a).2 = none ∧
    Inv (m.vFixVariable tv v a).1 := by
  have facts := nbh_label_facts i hv
  have hb : ∀ p ∈ m.nbhAt vi, p.1 < m.labels.length := fun p hp => (facts p hp).1
  unfold Bqm.vFixVariable
  rw [hv]
  simp only []
  rw [fixStep_eq]
  -- 1. the loop over the neighbours
  have L := loop_view tv m (m.nbhAt vi) hb (fun acc ul c => acc.vAddLinear tv ul (a * (m.vQuadFactor tv * c)))
    (fun q l c => q.addLinear l (a * (m.vQuadFactor tv * c))) (fun _ => True) (fun _ _ => trivial)
    (by
      intro acc ia l c _
      have r := view_addLinear ia tv l (a * (m.vQuadFactor tv * c))
      exact ⟨r.1, r.2, ext_vAddLinear acc tv l _⟩)
    m i (LabelsExt.refl m)
  rw [← nbrs_absL i hv] at L
  obtain ⟨hL, iL, eL⟩ := L
  have vt1 := loop_vt (fun acc ul c => acc.vAddLinear tv ul (a * (m.vQuadFactor tv * c)))
    (fun acc l c => vt_vAddLinear acc tv l _) (m.nbhAt vi) m
  generalize (m.nbhAt vi).foldl (loopBody fun acc ul c => acc.vAddLinear tv ul (a * (m.vQuadFactor tv * c))) m = m1 at hL iL eL vt1
  have hv1 := eL.indexOf? hv
  -- 2. the offset
  have r2 := view_setOffset iL tv (m1.vOffset tv + a * m1.vGetLinear tv vi)
  have e2 : LabelsExt m1 (m1.vSetOffset tv (m1.vOffset tv + a * m1.vGetLinear tv vi)) := ext_vSetOffset m1 tv _
  have vt2 : (m1.vSetOffset tv (m1.vOffset tv + a * m1.vGetLinear tv vi)).vt = m.vt := by rw [vt_vSetOffset, vt1]
  have hoff : m1.vOffset tv = ((absL m1).viewP tv).off := (viewOff_absL iL tv).symm
  have hlin1 := view_read_lin iL tv hv1
  generalize m1.vSetOffset tv (m1.vOffset tv + a * m1.vGetLinear tv vi) = m2 at r2 e2 vt2
  -- 3. remove `v`
  have r3 := view_removeKey r2.2 tv v (e2.indexOf? hv1) (by rw [vt2]; exact htv)
  refine ⟨?_, r3.2.1, r3.2.2⟩
  rw [r3.1, r2.1, hoff, hlin1, hL]
  -- the loop as a pointwise change
  have wP : LWF (absL m) := LWF.absL i
  have hnbP : ((absL m).viewP tv).nbrs v = ((absL m).nbrs v).map fun lc => (lc.1, m.vQuadFactor tv * lc.2) := nbrs_viewP (absL m) tv v
  have hfold : ((absL m).nbrs v).foldl (fun q lc => q.addLinear lc.1 (a * (m.vQuadFactor tv * lc.2))) ((absL m).viewP tv) =
      (((absL m).viewP tv).nbrs v).foldl (fun q lc => q.addLinear lc.1 (a * lc.2)) ((absL m).viewP tv) := by
    rw [hnbP, List.foldl_map]
  rw [hfold]
  have hclosedP : ∀ x y, ((((absL m).viewP tv).quad x y).isSome) → x ∈ ((absL m).viewP tv).vars ∧ y ∈ ((absL m).viewP tv).vars := by
    intro x y hs
    have hs' : (((absL m).quad x y).map ((absL m).viewFactor tv * ·)).isSome := hs
    apply wP.closed x y
    cases hc : (absL m).quad x y with
    | none => rw [hc] at hs'; cases hs'
    | some c => rfl
  have hndP : ((absL m).viewP tv).vars.Nodup := wP.nodup
  have hkeys : ((((absL m).viewP tv).nbrs v).map (·.1)).Nodup := by rw [nbrs_keys]; exact hndP.filter _
  have hmem : ∀ e ∈ ((absL m).viewP tv).nbrs v, e.1 ∈ ((absL m).viewP tv).vars := by
    intro e he
    have hq := mem_nbrs (show (e.1, e.2) ∈ ((absL m).viewP tv).nbrs v from he)
    exact (hclosedP v e.1 (by rw [hq]; rfl)).2
  have A := addFold a _ hkeys ((absL m).viewP tv) hmem
  generalize (((absL m).viewP tv).nbrs v).foldl (fun q lc => q.addLinear lc.1 (a * lc.2)) ((absL m).viewP tv) = P1 at A
  have hself : ((absL m).viewP tv).g v v = 0 := by
    unfold LPoly.g
    show (((absL m).quad v v).map _).getD 0 = 0
    rw [quad_self_none i v]; rfl
  have hlinx : ∀ x, P1.lin x = ((absL m).viewP tv).lin x + a * ((absL m).viewP tv).g v x := by
    intro x; rw [A.2.2.2.2 x, lk_nbrs hndP hclosedP v x]
  unfold LPoly.fixVariable
  apply LPoly.ext'
  · show P1.vars.erase v = ((absL m).viewP tv).vars.erase v
    rw [A.1]
  · intro x
    show (if x = v then 0 else P1.lin x) = if x = v then 0 else ((absL m).viewP tv).lin x + a * (1 * (((absL m).viewP tv).quad v x).getD 0)
    by_cases hx : x = v
    · simp [hx]
    · simp only [hx, if_false]
      rw [hlinx x, Rat.one_mul]; rfl
  · intro x y
    show (if x = v ∨ y = v then none else P1.quad x y) = if x = v ∨ y = v then none else ((absL m).viewP tv).quad x y
    rw [A.2.1]
  · show P1.off + a * P1.lin v = ((absL m).viewP tv).off + a * ((absL m).viewP tv).lin v
    rw [A.2.2.1, hlinx v, hself]
    grind
  · exact A.2.2.2.1

end Bqm
