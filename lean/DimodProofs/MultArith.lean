import DimodProofs.GenProofs

/-! # C17: arithmetic of the array multiplier wired by `multiplication_circuit` (core Lean only)

Pure arithmetic over `Rat`, no labels: if every cell of the carry-ripple array satisfies its adder
equation, the weighted sum of the output wires is the product of the weighted sums of the operands. -/

namespace Gen

/-- `2^k` -/
def pow2 : Nat → Rat
  | 0 => 1
  | k + 1 => 2 * pow2 k

/-- `Σ_{j<k} f j · 2^j` -/
def wsum (f : Nat → Rat) : Nat → Rat
  | 0 => 0
  | k + 1 => wsum f k + f k * pow2 k

theorem wsum_congr (f g : Nat → Rat) (k : Nat) (h : ∀ j, j < k → f j = g j) : wsum f k = wsum g k := by
  induction k with
  | zero => rfl
  | succ k ih =>
    simp only [wsum]
    rw [ih (fun j hj => h j (by omega)), h k (by omega)]

theorem wsum_shift (f : Nat → Rat) (k : Nat) : wsum f (k + 1) = f 0 + 2 * wsum (fun j => f (j + 1)) k := by
  induction k with
  | zero => simp only [wsum, pow2]; grind
  | succ k ih =>
    rw [wsum, ih]
    simp only [wsum, pow2]
    grind

theorem wsum_split (f : Nat → Rat) (a b : Nat) : wsum f (a + b) = wsum f a + pow2 a * wsum (fun j => f (a + j)) b := by
  induction b with
  | zero => simp only [wsum, Nat.add_zero]; grind
  | succ b ih =>
    have : a + (b + 1) = (a + b) + 1 := by omega
    rw [this, wsum, ih]
    simp only [wsum]
    have hp : ∀ a b, pow2 (a + b) = pow2 a * pow2 b := by
      intro a b
      induction b with
      | zero => simp only [Nat.add_zero, pow2]; grind
      | succ b ihb =>
        have : a + (b + 1) = (a + b) + 1 := by omega
        rw [this]; simp only [pow2]; rw [ihb]; grind
    rw [hp]; grind

theorem wsum_add (f g : Nat → Rat) (k : Nat) : wsum (fun j => f j + g j) k = wsum f k + wsum g k := by
  induction k with
  | zero => simp only [wsum]; grind
  | succ k ih => simp only [wsum, ih]; grind

theorem wsum_mul_left (c : Rat) (f : Nat → Rat) (k : Nat) : wsum (fun j => c * f j) k = c * wsum f k := by
  induction k with
  | zero => simp only [wsum]; grind
  | succ k ih => simp only [wsum, ih]; grind

/-- one row of ripple-carry adders: `x j + y j + carry-in = s j + 2·c j` for `j < k` -/
theorem ripple_row (x y s c : Nat → Rat) (k : Nat)
    (h : ∀ j, j < k + 1 → x j + y j + (if j = 0 then 0 else c (j - 1)) = s j + 2 * c j) :
    wsum s (k + 1) + pow2 (k + 1) * c k = wsum x (k + 1) + wsum y (k + 1) := by
  induction k with
  | zero =>
    have := h 0 (by omega)
    simp only [if_true] at this
    simp only [wsum, pow2]; grind
  | succ k ih =>
    have h1 := ih (fun j hj => h j (by omega))
    have h2 := h (k + 1) (by omega)
    simp only [Nat.add_one_ne_zero, if_false, Nat.add_sub_cancel] at h2
    simp only [wsum, pow2] at h1 ⊢
    grind

/-- **the carry-save array multiplies**: `S i j` / `C i j` the sum / carry outputs of cell `(i, j)`,
    row 0 the partial products of `A 0` (no adders, no carry out); every cell of rows `1 … n-1` adds its
    partial product `A i · B j`, the wire from the row above (`S (i-1) (j+1)`, for the last column the
    row's carry out `C (i-1) m'`) and the carry of its left neighbour.  Then the low outputs `S i 0`
    (`i < n-1`) followed by the last row `S (n-1) j` and its carry out encode `(Σ A i 2^i)·(Σ B j 2^j)`. -/
theorem array_multiplier (n' m' : Nat) (A B : Nat → Rat) (S C : Nat → Nat → Rat)
    (h0 : ∀ j, j < m' + 1 → S 0 j = A 0 * B j) (hc0 : C 0 m' = 0)
    (hcell : ∀ i, 1 ≤ i → i < n' + 1 → ∀ j, j < m' + 1 →
      A i * B j + (if j < m' then S (i - 1) (j + 1) else C (i - 1) m') + (if j = 0 then 0 else C i (j - 1)) = S i j + 2 * C i j) :
    wsum (fun i => S i 0) n' + pow2 n' * (wsum (S n') (m' + 1) + pow2 (m' + 1) * C n' m')
      = wsum A (n' + 1) * wsum B (m' + 1) := by
  -- the value carried by row i
  have hrow : ∀ i, 1 ≤ i → i < n' + 1 →
      wsum (S i) (m' + 1) + pow2 (m' + 1) * C i m'
        = A i * wsum B (m' + 1) + wsum (fun j => if j < m' then S (i - 1) (j + 1) else C (i - 1) m') (m' + 1) := by
    intro i hi1 hi2
    have := ripple_row (fun j => A i * B j) (fun j => if j < m' then S (i - 1) (j + 1) else C (i - 1) m') (S i) (C i) m'
      (fun j hj => hcell i hi1 hi2 j hj)
    rw [this, wsum_mul_left]
  have hup : ∀ i, wsum (S i) (m' + 1) + pow2 (m' + 1) * C i m'
      = S i 0 + 2 * wsum (fun j => if j < m' then S i (j + 1) else C i m') (m' + 1) := by
    intro i
    rw [wsum_shift (S i) m']
    have : wsum (fun j => if j < m' then S i (j + 1) else C i m') (m' + 1)
        = wsum (fun j => S i (j + 1)) m' + C i m' * pow2 m' := by
      rw [wsum]
      rw [wsum_congr (fun j => if j < m' then S i (j + 1) else C i m') (fun j => S i (j + 1)) m' (fun j hj => by simp [hj])]
      simp
    rw [this]; simp only [pow2]; grind
  have key : ∀ k, k < n' + 1 →
      wsum (fun i => S i 0) k + pow2 k * (wsum (S k) (m' + 1) + pow2 (m' + 1) * C k m') = wsum A (k + 1) * wsum B (m' + 1) := by
    intro k
    induction k with
    | zero =>
      intro _
      rw [wsum_congr (S 0) (fun j => A 0 * B j) (m' + 1) h0, wsum_mul_left, hc0]
      simp only [wsum, pow2]; grind
    | succ k ih =>
      intro hk
      have h1 := ih (by omega)
      have h2 := hrow (k + 1) (by omega) hk
      have h3 := hup k
      simp only [Nat.add_sub_cancel] at h2
      have e1 : wsum (fun i => S i 0) (k + 1) = wsum (fun i => S i 0) k + S k 0 * pow2 k := rfl
      have e2 : wsum A (k + 1 + 1) = wsum A (k + 1) + A (k + 1) * pow2 (k + 1) := rfl
      have e3 : pow2 (k + 1) = 2 * pow2 k := rfl
      rw [e1, e2, h2, e3]
      rw [h3] at h1
      generalize wsum (fun j => if j < m' then S k (j + 1) else C k m') (m' + 1) = Y at *
      generalize wsum B (m' + 1) = W at *
      generalize wsum (fun i => S i 0) k = a at *
      generalize wsum A (k + 1) = WA at *
      generalize pow2 k = p at *
      grind
  exact key n' (by omega)

end Gen
