import DimodModel.Sym
import Mathlib.Tactic.Ring
import Mathlib.Tactic.Linarith
import Mathlib.Tactic.FieldSimp
import Mathlib.Data.Rat.Defs
import Mathlib.Algebra.Order.Field.Rat

/-! C06: energy lemmas for the primitive mutators of the symbolic-arithmetic model. -/

namespace Sym

/-! ### linear part -/

theorem findVar_cons (v : Var) (vs : List Var) (l : Label) :
    findVar (v :: vs) l = if v.l = l then some v else findVar vs l := by
  unfold findVar
  by_cases h : v.l = l <;> simp [List.find?, h]

theorem linEval_append (x : Label → Rat) (a b : List Var) : linEval x (a ++ b) = linEval x a + linEval x b := by
  induction a with
  | nil => simp [linEval]
  | cons v vs ih => simp only [List.cons_append, linEval, ih]; ring

theorem linEval_bumpVar (x : Label → Rat) (l : Label) (b : Rat) (vs : List Var) (h : (findVar vs l).isSome = true) :
    linEval x (bumpVar l b vs) = linEval x vs + b * x l := by
  induction vs with
  | nil => simp [findVar] at h
  | cons v t ih =>
    simp only [bumpVar]
    by_cases hv : v.l = l
    · simp only [hv, if_true, linEval]; ring
    · simp only [hv, if_false, linEval]
      rw [findVar_cons, if_neg hv] at h
      rw [ih h]; ring

theorem findVar_bumpVar (l k : Label) (b : Rat) (vs : List Var) :
    (findVar (bumpVar l b vs) k).isSome = (findVar vs k).isSome := by
  induction vs with
  | nil => rfl
  | cons v t ih =>
    simp only [bumpVar]
    by_cases hv : v.l = l
    · simp only [hv, if_true, findVar_cons]
      by_cases hk : l = k <;> simp [hk]
    · simp only [hv, if_false, findVar_cons]
      by_cases hk : v.l = k <;> simp [hk, ih]

theorem findVar_append (a b : List Var) (k : Label) :
    (findVar (a ++ b) k).isSome = ((findVar a k).isSome || (findVar b k).isSome) := by
  induction a with
  | nil => simp [findVar]
  | cons v t ih =>
    simp only [List.cons_append, findVar_cons]
    by_cases hv : v.l = k <;> simp [hv, ih]

/-! ### quadratic part -/

theorem quadEval_bumpQuad (x : Label → Rat) (u v : Label) (b : Rat) (qs : List QTerm) :
    quadEval x (bumpQuad u v b qs) = quadEval x qs + b * x u * x v := by
  induction qs with
  | nil => simp [bumpQuad, quadEval]
  | cons q t ih =>
    simp only [bumpQuad]
    split
    · rename_i h
      simp only [quadEval]
      rcases h with ⟨h1, h2⟩ | ⟨h1, h2⟩
      · rw [h1, h2]; ring
      · rw [h1, h2]; ring
    · simp only [quadEval, ih]; ring

theorem quadEval_addQuadAll (x : Label → Rat) (qs ts : List QTerm) :
    quadEval x (addQuadAll qs ts) = quadEval x qs + quadEval x ts := by
  induction ts generalizing qs with
  | nil => simp [addQuadAll, quadEval]
  | cons t rest ih => simp only [addQuadAll, ih, quadEval_bumpQuad, quadEval]; ring

theorem quadEval_scale (x : Label → Rat) (q : Rat) (ts : List QTerm) :
    quadEval x (ts.map fun t => { t with b := q * t.b }) = q * quadEval x ts := by
  induction ts with
  | nil => simp [quadEval]
  | cons t rest ih => simp only [List.map_cons, quadEval, ih]; ring

theorem linEval_scale (x : Label → Rat) (q : Rat) (vs : List Var) :
    linEval x (vs.map fun v => { v with bias := q * v.bias }) = q * linEval x vs := by
  induction vs with
  | nil => simp [linEval]
  | cons v rest ih => simp only [List.map_cons, linEval, ih]; ring

/-! ### model-level -/

theorem eval_scale (m : Model) (q : Rat) (x : Label → Rat) : (m.scale q).eval x = q * m.eval x := by
  simp only [Model.scale, Model.eval, linEval_scale, quadEval_scale]; ring

theorem eval_addOffset (m : Model) (q : Rat) (x : Label → Rat) : (m.addOffset q).eval x = m.eval x + q := by
  simp only [Model.addOffset, Model.eval]; ring

theorem eval_toQM (m : Model) (x : Label → Rat) : m.toQM.eval x = m.eval x := rfl

theorem eval_addLinear (m m' : Model) (l : Label) (b : Rat) (x : Label → Rat) (h : addLinear m l b = .ok m') :
    m'.eval x = m.eval x + b * x l := by
  unfold addLinear at h
  by_cases hh : m.has l = true
  · simp only [hh, if_true, Except.ok.injEq] at h
    subst h
    simp only [Model.eval, linEval_bumpVar x l b m.vars hh]; ring
  · simp only [hh, Bool.false_eq_true, if_false] at h
    by_cases hq : m.isQM = true
    · simp [hq] at h
    · simp only [hq, Bool.false_eq_true, if_false, Except.ok.injEq] at h
      subst h
      simp only [Model.eval, linEval_append, linEval]; ring

theorem eval_addQuadratic (m m' : Model) (u v : Label) (b : Rat) (x : Label → Rat) (h : addQuadratic m u v b = .ok m') :
    m'.eval x = m.eval x + b * x u * x v := by
  unfold addQuadratic at h
  by_cases hq : m.isQM = true
  · simp only [hq, if_true] at h
    split at h
    · split at h
      · simp at h
      · split at h
        · simp at h
        · simp only [Except.ok.injEq] at h
          subst h
          simp only [Model.eval, quadEval_bumpQuad]; ring
    · simp at h
  · simp only [hq, Bool.false_eq_true, if_false] at h
    split at h
    · simp at h
    · simp only [Except.ok.injEq] at h
      subst h
      simp only [Model.eval, quadEval_bumpQuad]
      have hl : ∀ (vs : List Var) (l : Label) (c : Bool), linEval x (if c then vs else vs ++ [⟨l, bqmInfo m.bvt, 0⟩]) = linEval x vs := by
        intro vs l c
        cases c <;> simp [linEval_append, linEval]
      rw [hl, hl]; ring

/-! ### update -/

theorem linEval_appendNew (x : Label → Rat) (vs ws : List Var) : linEval x (appendNew vs ws) = linEval x vs := by
  induction ws generalizing vs with
  | nil => rfl
  | cons w rest ih =>
    simp only [appendNew]
    split
    · exact ih vs
    · rw [ih, linEval_append]; simp [linEval]

theorem appendNew_has (vs ws : List Var) (k : Label) :
    (findVar (appendNew vs ws) k).isSome = ((findVar vs k).isSome || (findVar ws k).isSome) := by
  induction ws generalizing vs with
  | nil => simp [appendNew, findVar]
  | cons w rest ih =>
    simp only [appendNew]
    split
    · rename_i hw
      rw [ih, findVar_cons]
      by_cases hk : w.l = k
      · subst hk; simp [hw]
      · simp [hk]
    · rename_i hw
      rw [ih, findVar_append, findVar_cons, findVar_cons]
      by_cases hk : w.l = k
      · simp [hk]
      · simp [hk, findVar]

theorem linEval_addLinAll (x : Label → Rat) (vs ws : List Var)
    (h : ∀ w ∈ ws, (findVar vs w.l).isSome = true) :
    linEval x (addLinAll vs ws) = linEval x vs + linEval x ws := by
  induction ws generalizing vs with
  | nil => simp [addLinAll, linEval]
  | cons w rest ih =>
    simp only [addLinAll]
    rw [ih]
    · rw [linEval_bumpVar x w.l w.bias vs (h w (List.mem_cons_self))]
      simp only [linEval]; ring
    · intro w' hw'
      rw [findVar_bumpVar]
      exact h w' (List.mem_cons_of_mem _ hw')

theorem mem_findVar (vs : List Var) (w : Var) (hw : w ∈ vs) : (findVar vs w.l).isSome = true := by
  induction vs with
  | nil => simp at hw
  | cons a t ih =>
    rw [findVar_cons]
    by_cases ha : a.l = w.l
    · simp [ha]
    · rw [if_neg ha]
      rcases List.mem_cons.mp hw with h | h
      · exact absurd (by rw [h]) ha
      · exact ih h

theorem eval_qmUpdate (m o m' : Model) (x : Label → Rat) (h : qmUpdate m o = .ok m') :
    m'.eval x = m.eval x + o.eval x := by
  unfold qmUpdate at h
  split at h
  · simp at h
  · simp only [Except.ok.injEq] at h
    subst h
    simp only [Model.eval, quadEval_addQuadAll]
    rw [linEval_addLinAll, linEval_appendNew]
    · ring
    · intro w hw
      rw [appendNew_has]
      have : (findVar o.vars w.l).isSome = true := mem_findVar _ _ hw
      simp [this]

theorem eval_bqmUpdate (m o : Model) (x : Label → Rat) : (bqmUpdate m o).eval x = m.eval x + o.eval x := by
  simp only [bqmUpdate, Model.eval, quadEval_addQuadAll]
  rw [linEval_addLinAll, linEval_appendNew]
  · ring
  · intro w hw
    rw [appendNew_has]
    have : (findVar (o.vars.map fun w => { w with info := bqmInfo m.bvt }) w.l).isSome = true :=
      mem_findVar _ ({ w with info := bqmInfo m.bvt } : Var) (List.mem_map.mpr ⟨w, hw, rfl⟩)
    simp [this]

end Sym
