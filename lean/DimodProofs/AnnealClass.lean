import DimodProofs.AnnealSweep

/-! C07: the flips accepted simultaneously inside one colour class add up — flipping a set of pairwise non-adjacent
    variables changes `ising_energy` by the sum of the individually tested differences. -/

namespace Enum

/-- the assignment with the spins of all variables of `F` flipped -/
def flipSet (s : Label → Rat) (F : List Label) : Label → Rat := fun l => if l ∈ F then - s l else s l

/-- the true change of `ising_energy` when `v` alone is flipped in state `s` -/
def trueDelta (h : List (Label × Rat)) (J : List (Label × Label × Rat)) (s : Label → Rat) (v : Label) : Rat :=
  isingE h J (flipSpin s v) - isingE h J s

theorem trueDelta_eq (h : List (Label × Rat)) (J : List (Label × Label × Rat)) (s : Label → Rat) (v : Label)
    (hh : (h.map (·.1)).Nodup) (hs : ∀ t ∈ J, t.1 ≠ t.2.1) :
    trueDelta h J s v = -2 * s v * dictGet h v + -2 * sumL (J.map (entryD s v)) := by
  unfold trueDelta isingE
  linarith [delta_linear_part s v h hh, delta_quad_part s v J hs]

theorem flipSet_nil (s : Label → Rat) : flipSet s [] = s := by
  funext l; simp [flipSet]

theorem flipSet_cons (s : Label → Rat) (v : Label) (F : List Label) (hv : v ∉ F) :
    flipSet s (v :: F) = flipSpin (flipSet s F) v := by
  funext l
  unfold flipSet flipSpin
  by_cases h1 : l = v
  · subst h1; simp [hv]
  · simp [h1]

/-- the one-flip difference of `v` depends only on the spin of `v` and of its neighbours -/
theorem trueDelta_congr (h : List (Label × Rat)) (J : List (Label × Label × Rat)) (s s' : Label → Rat) (v : Label)
    (hh : (h.map (·.1)).Nodup) (hs : ∀ t ∈ J, t.1 ≠ t.2.1) (hv : s' v = s v) (hn : ∀ w ∈ nbrs J v, s' w = s w) :
    trueDelta h J s' v = trueDelta h J s v := by
  rw [trueDelta_eq h J s' v hh hs, trueDelta_eq h J s v hh hs, hv]
  congr 2
  apply sumL_map_congr
  intro t ht
  unfold entryD
  by_cases h1 : t.1 = v
  · have hw : t.2.1 ∈ nbrs J v := (mem_nbrs J v t.2.1).mpr ⟨t, ht, Or.inl ⟨h1, rfl⟩⟩
    have h2 : ¬ t.2.1 = v := fun h2 => hs t ht (h1.trans h2.symm)
    simp only [h1, h2, if_true, if_false, hv, hn _ hw]
  · by_cases h2 : t.2.1 = v
    · have hw : t.1 ∈ nbrs J v := (mem_nbrs J v t.1).mpr ⟨t, ht, Or.inr ⟨h2, rfl⟩⟩
      simp only [h1, h2, if_true, if_false, hv, hn _ hw]
    · simp only [h1, h2, if_false]

/-- **flips of pairwise non-adjacent variables add up** (function level) -/
theorem flipSet_energy (h : List (Label × Rat)) (J : List (Label × Label × Rat)) (hh : (h.map (·.1)).Nodup)
    (hs : ∀ t ∈ J, t.1 ≠ t.2.1) (s : Label → Rat) :
    ∀ F : List Label, F.Nodup → (∀ u ∈ F, ∀ w ∈ F, w ∉ nbrs J u) →
      isingE h J (flipSet s F) - isingE h J s = sumL (F.map (trueDelta h J s)) := by
  intro F
  induction F with
  | nil => intro _ _; simp [flipSet_nil, sumL]
  | cons v F ih =>
    intro hnd hind
    have hvF : v ∉ F := (List.nodup_cons.mp hnd).1
    have ih' := ih (List.nodup_cons.mp hnd).2
      (fun u hu w hw => hind u (List.mem_cons_of_mem _ hu) w (List.mem_cons_of_mem _ hw))
    rw [flipSet_cons s v F hvF]
    have hc : trueDelta h J (flipSet s F) v = trueDelta h J s v := by
      apply trueDelta_congr h J s (flipSet s F) v hh hs
      · simp [flipSet, hvF]
      · intro w hw
        have : w ∉ F := fun hwF => hind v List.mem_cons_self w (List.mem_cons_of_mem _ hwF) hw
        simp [flipSet, this]
    simp only [List.map_cons, sumL]
    rw [← hc, ← ih']
    unfold trueDelta
    ring

/-! ### the model's colour-class step is such a set flip -/

theorem dictGet_map_flip (P : Label → Prop) [DecidablePred P] :
    ∀ (t : List (Label × Rat)), (t.map (·.1)).Nodup → ∀ l : Label,
      dictGet (t.map fun p => if P p.1 then (p.1, p.2 * -1) else (p.1, p.2)) l =
        flipSet (dictGet t) ((t.map (·.1)).filter fun k => decide (P k)) l := by
  intro t
  induction t with
  | nil => intro _ l; simp [dictGet, flipSet]
  | cons p t ih =>
    intro hnd l
    obtain ⟨k, b⟩ := p
    simp only [List.map_cons, List.nodup_cons] at hnd
    have ih' := ih hnd.2 l
    by_cases hk : k = l
    · subst hk
      have hnot : k ∉ (t.map (·.1)).filter fun k => decide (P k) := fun hm => hnd.1 (List.mem_filter.mp hm).1
      by_cases hp : P k
      · simp only [List.map_cons, hp, if_true, dictGet_cons, flipSet, List.filter_cons, decide_true, List.mem_cons, true_or]
        ring
      · simp only [List.map_cons, hp, if_false, dictGet_cons, flipSet, List.filter_cons, decide_false, if_true, hnot,
          Bool.false_eq_true]
    · have hmem : (l ∈ ((k :: t.map (·.1)).filter fun k => decide (P k))) ↔ (l ∈ (t.map (·.1)).filter fun k => decide (P k)) := by
        simp only [List.mem_filter, List.mem_cons]
        constructor
        · rintro ⟨h1 | h1, h2⟩
          · exact absurd h1.symm hk
          · exact ⟨h1, h2⟩
        · rintro ⟨h1, h2⟩; exact ⟨Or.inr h1, h2⟩
      have e1 : dictGet ((k, b) :: t) l = dictGet t l := by rw [dictGet_cons, if_neg hk]
      have e2 : dictGet ((if P k then (k, b * -1) else (k, b)) :: t.map fun p => if P p.1 then (p.1, p.2 * -1) else (p.1, p.2)) l
          = dictGet (t.map fun p => if P p.1 then (p.1, p.2 * -1) else (p.1, p.2)) l := by
        by_cases hp : P k
        · rw [if_pos hp, dictGet_cons, if_neg hk]
        · rw [if_neg hp, dictGet_cons, if_neg hk]
      simp only [List.map_cons]
      rw [e2, ih']
      unfold flipSet
      simp only [hmem, e1]

/-- the variables a colour-class step flips: the keys of the spins that lie in the class and pass the acceptance test -/
def flippedIn (J : List (Label × Label × Rat)) (beta : Option Rat) (dh draw : Label → Rat) (spins : List (Label × Rat))
    (nodes : List Label) : List Label :=
  (spins.map (·.1)).filter fun l => decide (nodes.contains l = true ∧ accept beta (draw l) (dh l + diffJ J spins l) = true)

theorem classStep_is_flipSet (J : List (Label × Label × Rat)) (beta : Option Rat) (dh draw : Label → Rat)
    (spins : List (Label × Rat)) (nodes : List Label) (hsp : (spins.map (·.1)).Nodup) :
    dictGet (classStep J beta dh draw spins nodes) = flipSet (dictGet spins) (flippedIn J beta dh draw spins nodes) := by
  funext l
  have := dictGet_map_flip (fun k => nodes.contains k = true ∧ accept beta (draw k) (dh k + diffJ J spins k) = true) spins hsp l
  unfold flippedIn
  rw [← this]
  rfl

/-- **one colour class, as the model processes it**: the energy after the class minus the energy before it is the sum,
    over the variables actually flipped, of the differences `energy_diff_h + energy_diff_J` computed in the state before
    the class — for a class of pairwise non-adjacent variables -/
theorem class_flips_add_up (h : List (Label × Rat)) (J : List (Label × Label × Rat)) (hh : (h.map (·.1)).Nodup)
    (hJ : SimpleJ J) (beta : Option Rat) (dh draw : Label → Rat) (spins : List (Label × Rat)) (nodes : List Label)
    (hsp : (spins.map (·.1)).Nodup) (hind : ∀ u ∈ nodes, ∀ w ∈ nodes, w ∉ nbrs J u) :
    isingE h J (dictGet (classStep J beta dh draw spins nodes)) - isingE h J (dictGet spins) =
      sumL ((flippedIn J beta dh draw spins nodes).map fun v => diffH h spins v + diffJ J spins v) := by
  rw [classStep_is_flipSet J beta dh draw spins nodes hsp]
  have hin : ∀ u ∈ flippedIn J beta dh draw spins nodes, u ∈ nodes := by
    intro u hu
    have := (List.mem_filter.mp hu).2
    simp only [decide_eq_true_eq] at this
    simpa using this.1
  have hF : (flippedIn J beta dh draw spins nodes).Nodup := by unfold flippedIn; exact hsp.filter _
  rw [flipSet_energy h J hh hJ.1 (dictGet spins) (flippedIn J beta dh draw spins nodes) hF
    (fun u hu w hw => hind u (hin u hu) w (hin w hw))]
  apply sumL_map_congr
  intro v _
  unfold trueDelta
  exact (delta_is_energy_change h J spins v hh hJ).symm

/-- **inside a sweep**: when the colour class `c` of `greedy_coloring` is processed (state `sp`: the earlier classes
    processed from the sweep's initial state `sp0`), the energy changes by the sum, over the variables flipped, of the
    differences the acceptance test compared with their draws (`energy_diff_h` from the start of the sweep plus
    `energy_diff_J` from `sp`); the flipped variables are distinct members of the class that passed the test -/
theorem sweep_class_flips_add_up (h : List (Label × Rat)) (J : List (Label × Label × Rat)) (hh : (h.map (·.1)).Nodup)
    (hJ : SimpleJ J) (pre post : List (Nat × List Label)) (c : Nat × List Label)
    (hc : colorClasses h J = pre ++ c :: post) (beta : Option Rat) (draw : Label → Rat) (sp0 : List (Label × Rat))
    (hsp0 : (sp0.map (·.1)).Nodup) :
    let sp := pre.foldl (fun sp c => classStep J beta (diffH h sp0) draw sp c.2) sp0
    let flipped := flippedIn J beta (diffH h sp0) draw sp c.2
    isingE h J (dictGet (classStep J beta (diffH h sp0) draw sp c.2)) - isingE h J (dictGet sp) =
        sumL (flipped.map fun v => diffH h sp0 v + diffJ J sp v) ∧
      flipped.Nodup ∧
      ∀ v ∈ flipped, v ∈ c.2 ∧ accept beta (draw v) (diffH h sp0 v + diffJ J sp v) = true := by
  intro sp flipped
  have hkeys : sp.map (·.1) = sp0.map (·.1) := (classFold_spec J beta (diffH h sp0) draw pre sp0).1
  have hsp : (sp.map (·.1)).Nodup := by rw [hkeys]; exact hsp0
  have hcm : c ∈ colorClasses h J := by rw [hc]; simp
  have hind : ∀ u ∈ c.2, ∀ w ∈ c.2, w ∉ nbrs J u := colorClasses_proper h J hh hJ.1 c hcm
  have hmem : ∀ v ∈ flipped, v ∈ c.2 ∧ accept beta (draw v) (diffH h sp0 v + diffJ J sp v) = true := by
    intro v hv
    have := (List.mem_filter.mp hv).2
    simp only [decide_eq_true_eq] at this
    exact ⟨by simpa using this.1, this.2⟩
  refine ⟨?_, ?_, hmem⟩
  · rw [class_flips_add_up h J hh hJ beta (diffH h sp0) draw sp c.2 hsp hind]
    apply sumL_map_congr
    intro v hv
    have hsame : dictGet sp v = dictGet sp0 v :=
      classFold_other J beta (diffH h sp0) draw v pre (not_in_earlier_class h J hh hJ.1 pre post c hc v (hmem v hv).1) sp0
    unfold diffH
    rw [hsame]
  · show (flippedIn J beta (diffH h sp0) draw sp c.2).Nodup
    unfold flippedIn
    exact hsp.filter _

end Enum
