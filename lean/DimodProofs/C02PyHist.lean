import DimodProofs.C02Init
import DimodModel.PyHist

/-! # C02 — `pyBQM.change_vartype` on every state an edit history can leave behind

`LBqm.changeVartypeWith` (the loop of `pybqm.py` over the insertion-ordered dict of dicts) preserves the polynomial of the
dict model (`evalL`) at the converted sample on every state that satisfies the representation invariant `LInv`
(duplicate-free keys, every neighbourhood holds its own variable's entry — *anywhere* in the dict —, neighbours are
variables, both copies of an interaction carry the same bias); `LInv` is preserved by every data-level call, including
`relabel_variables`, so the statement holds after any history. -/

namespace En

open Generated.Vartype

/-! ## list sums -/

theorem sum_map_add' {α : Type} (l : List α) (f g : α → Rat) :
    (l.map fun a => f a + g a).sum = (l.map f).sum + (l.map g).sum := by
  induction l with
  | nil => simp
  | cons a t ih => simp only [List.map_cons, List.sum_cons, ih]; ring

theorem sum_map_mul_left' {α : Type} (l : List α) (k : Rat) (f : α → Rat) :
    (l.map fun a => k * f a).sum = k * (l.map f).sum := by
  induction l with
  | nil => simp
  | cons a t ih => simp only [List.map_cons, List.sum_cons, ih]; ring

theorem sum_map_zero' {α : Type} (l : List α) : (l.map fun _ => (0 : Rat)).sum = 0 := by
  induction l with
  | nil => rfl
  | cons a t ih => simp only [List.map_cons, List.sum_cons, ih]; ring

/-- two nested sums over lists commute -/
theorem sum_sum_comm {α β : Type} (k : List α) (l : List β) (f : α → β → Rat) :
    (k.map fun a => (l.map fun b => f a b).sum).sum = (l.map fun b => (k.map fun a => f a b).sum).sum := by
  induction k with
  | nil => simp
  | cons a t ih =>
    simp only [List.map_cons, List.sum_cons, ih]
    rw [← sum_map_add']

theorem sum_ite_single (K : List Label) (hnd : K.Nodup) (k : Label) (hk : k ∈ K) (A : Rat) :
    (K.map fun v => if k = v then A else 0).sum = A := by
  induction K with
  | nil => cases hk
  | cons a t ih =>
    rw [List.nodup_cons] at hnd
    simp only [List.map_cons, List.sum_cons]
    by_cases h : k = a
    · subst h
      have : (t.map fun v => if k = v then A else 0) = t.map fun _ => (0 : Rat) := by
        apply List.map_congr_left
        intro v hv
        have : k ≠ v := fun e => hnd.1 (e ▸ hv)
        simp [this]
      rw [this, sum_map_zero']; simp
    · have hk' : k ∈ t := by
        rcases List.mem_cons.mp hk with e | e
        · exact absurd e h
        · exact e
      rw [ih hnd.2 hk']; simp [h]

theorem foldl_add_mul' (l : ODict Label Rat) (k z : Rat) :
    l.foldl (fun acc p => acc + k * p.2) z = z + k * (l.map (·.2)).sum := by
  induction l generalizing z with
  | nil => simp
  | cons a t ih => simp only [List.foldl_cons, ih, List.map_cons, List.sum_cons]; ring

/-! ## ordered dicts with duplicate-free keys -/

def okeys {β : Type} (d : ODict Label β) : List Label := d.map (·.1)

theorem get?_none_of_not_mem {β : Type} (d : ODict Label β) (k : Label) (h : k ∉ okeys d) : ODict.get? d k = none := by
  induction d with
  | nil => rfl
  | cons e t ih =>
    obtain ⟨k0, b⟩ := e
    simp only [okeys, List.map_cons, List.mem_cons, not_or] at h
    simp only [ODict.get?]
    rw [if_neg (fun e => h.1 e.symm)]
    exact ih h.2

theorem get?_of_mem {β : Type} (d : ODict Label β) (hnd : (okeys d).Nodup) (k : Label) (b : β) (h : (k, b) ∈ d) :
    ODict.get? d k = some b := by
  induction d with
  | nil => cases h
  | cons e t ih =>
    obtain ⟨k0, b0⟩ := e
    simp only [okeys, List.map_cons, List.nodup_cons] at hnd
    simp only [ODict.get?]
    rcases List.mem_cons.mp h with e | e
    · cases e; simp
    · have : k0 ≠ k := by
        intro e'; subst e'
        exact hnd.1 (List.mem_map.mpr ⟨(k0, b), e, rfl⟩)
      rw [if_neg this]; exact ih hnd.2 e

theorem mem_of_get? {β : Type} (d : ODict Label β) (k : Label) (b : β) (h : ODict.get? d k = some b) : (k, b) ∈ d := by
  induction d with
  | nil => cases h
  | cons e t ih =>
    obtain ⟨k0, b0⟩ := e
    simp only [ODict.get?] at h
    by_cases h0 : k0 = k
    · rw [if_pos h0] at h; cases h; subst h0; exact List.mem_cons_self
    · rw [if_neg h0] at h; exact List.mem_cons_of_mem _ (ih h)

/-- a sum over the items of a dict is a sum over its keys -/
theorem sum_items_eq_keys {β : Type} (d : ODict Label β) (hnd : (okeys d).Nodup) (dflt : β) (F : Label → β → Rat) :
    (d.map fun p => F p.1 p.2).sum = ((okeys d).map fun u => F u ((ODict.get? d u).getD dflt)).sum := by
  unfold okeys
  rw [List.map_map]
  congr 1
  apply List.map_congr_left
  intro p hp
  have := get?_of_mem d hnd p.1 p.2 hp
  simp [this]

/-- **a sum over the items of a neighbourhood, as a sum over all variables** -/
theorem sum_row_over_keys (nu : ODict Label Rat) (hnd : (okeys nu).Nodup) (K : List Label) (hK : K.Nodup)
    (hsub : ∀ v ∈ okeys nu, v ∈ K) (H : Label → Rat → Rat) :
    (nu.map fun p => H p.1 p.2).sum = (K.map fun v => match ODict.get? nu v with | some b => H v b | none => 0).sum := by
  induction nu with
  | nil => simp [ODict.get?]
  | cons e t ih =>
    obtain ⟨k, b⟩ := e
    simp only [okeys, List.map_cons, List.nodup_cons] at hnd
    have hk : k ∈ K := hsub k (by simp [okeys])
    have hsub' : ∀ v ∈ okeys t, v ∈ K := fun v hv => hsub v (by simp only [okeys, List.map_cons, List.mem_cons]; exact Or.inr hv)
    have hnone : ODict.get? t k = none := get?_none_of_not_mem t k hnd.1
    have hsplit : (K.map fun v => match ODict.get? ((k, b) :: t) v with | some b => H v b | none => 0)
        = K.map fun v => (if k = v then H k b else 0) + (match ODict.get? t v with | some b => H v b | none => 0) := by
      apply List.map_congr_left
      intro v _
      simp only [ODict.get?]
      by_cases h : k = v
      · subst h; simp [hnone]
      · simp [h]
    rw [hsplit, sum_map_add', sum_ite_single K hK k hk, ← ih hnd.2 hsub']
    simp

/-! ## the representation invariant of the dict back-end -/

namespace LBqm

structure LInv (m : LBqm Rat) : Prop where
  nodup : (okeys m.adj).Nodup
  rowNodup : ∀ u nu, (u, nu) ∈ m.adj → (okeys nu).Nodup
  self : ∀ u nu, (u, nu) ∈ m.adj → ∃ b, ODict.get? nu u = some b
  closed : ∀ u nu, (u, nu) ∈ m.adj → ∀ v ∈ okeys nu, v ∈ okeys m.adj
  sym : m.Sym

/-- linear bias and the interactions of one neighbourhood -/
def lbias (u : Label) (nu : ODict Label Rat) : Rat := (ODict.get? nu u).getD 0
def others (u : Label) (nu : ODict Label Rat) : ODict Label Rat := nu.filter fun p => p.1 ≠ u

/-- one neighbourhood: its own entry + the others -/
theorem sum_split_self (u : Label) (nu : ODict Label Rat) (hnd : (okeys nu).Nodup) (b : Rat) (hb : ODict.get? nu u = some b)
    (A : Rat → Rat) (g : Label × Rat → Rat) :
    (nu.map fun p => if p.1 = u then A p.2 else g p).sum = A b + ((others u nu).map g).sum := by
  induction nu with
  | nil => cases hb
  | cons e t ih =>
    obtain ⟨k, x⟩ := e
    simp only [okeys, List.map_cons, List.nodup_cons] at hnd
    simp only [ODict.get?] at hb
    by_cases hk : k = u
    · subst hk
      rw [if_pos rfl] at hb; cases hb
      have hrest : (t.map fun p => if p.1 = k then A p.2 else g p) = t.map g := by
        apply List.map_congr_left
        intro p hp
        have : p.1 ≠ k := fun e => hnd.1 (List.mem_map.mpr ⟨p, hp, e⟩)
        simp [this]
      have hfil : others k ((k, b) :: t) = t := by
        unfold others
        rw [List.filter_cons]
        simp only [ne_eq, not_true_eq_false, decide_false, Bool.false_eq_true, if_false]
        apply List.filter_eq_self.mpr
        intro p hp
        have : p.1 ≠ k := fun e => hnd.1 (List.mem_map.mpr ⟨p, hp, e⟩)
        simp [this]
      rw [hfil]
      simp only [List.map_cons, List.sum_cons, if_true, hrest]
    · rw [if_neg hk] at hb
      have hfil : others u ((k, x) :: t) = (k, x) :: others u t := by
        unfold others
        rw [List.filter_cons]
        simp [hk]
      rw [hfil]
      simp only [List.map_cons, List.sum_cons, hk, if_false]
      rw [ih hnd.2 hb]; ring

theorem rowVal_split (x : Label → Rat) (u : Label) (nu : ODict Label Rat) (hnd : (okeys nu).Nodup)
    (b : Rat) (hb : ODict.get? nu u = some b) :
    rowVal (1/2) x u nu = b * x u + ((others u nu).map fun p => 1/2 * p.2 * x u * x p.1).sum := by
  unfold rowVal
  exact sum_split_self u nu hnd b hb (fun b => b * x u) (fun p => 1/2 * p.2 * x u * x p.1)

/-! ## the loop of `change_vartype` -/

/-- what the pass does to one neighbourhood -/
def cvRow (t : PyTable Rat) (r : Label × ODict Label Rat) : Label × ODict Label Rat :=
  (r.1, r.2.map fun p => if p.1 = r.1
    then (p.1, t.linMp * lbias r.1 r.2 + t.linQuadMp * ((others r.1 r.2).map (·.2)).sum)
    else (p.1, t.quadMp * p.2))

def cvOff (t : PyTable Rat) (r : Label × ODict Label Rat) : Rat :=
  t.linOffsetMp * lbias r.1 r.2 + t.quadOffsetMp * ((others r.1 r.2).map (·.2)).sum

theorem go_spec (t : PyTable Rat) (rows : List (Label × ODict Label Rat)) (off : Rat) :
    changeVartypeWith.go t rows off = (rows.map (cvRow t), off + (rows.map (cvOff t)).sum) := by
  induction rows generalizing off with
  | nil => simp [changeVartypeWith.go]
  | cons r rest ih =>
    obtain ⟨u, nu⟩ := r
    simp only [changeVartypeWith.go, ih, List.map_cons, List.sum_cons, foldl_add_mul']
    refine Prod.ext ?_ ?_
    · simp only [cvRow, lbias, others]
    · simp only [cvOff, lbias, others]; ring

/-- the five multipliers of one direction are those of the affine map `x = a·y + c` -/
structure Matches (t : PyTable Rat) (a c : Rat) : Prop where
  lin : t.linMp = a
  linOff : t.linOffsetMp = c
  quad : t.quadMp = a * a
  linQuad : t.linQuadMp = a * c
  quadOff : 2 * t.quadOffsetMp = c * c

theorem pyToBinary_affine : Matches pyToBinary 2 (-1) := by
  constructor <;> norm_num [pyToBinary]

theorem pyToSpin_affine : Matches pyToSpin (1/2) (1/2) := by
  constructor <;> norm_num [pyToSpin]

theorem others_expand (l : ODict Label Rat) (a c yu : Rat) (y : Label → Rat) :
    (l.map fun p => 1/2 * p.2 * (a * yu + c) * (a * y p.1 + c)).sum
      = (l.map fun p => 1/2 * (a * a * p.2) * yu * y p.1).sum + (1/2 * a * c * yu + 1/2 * c * c) * (l.map (·.2)).sum
        + 1/2 * a * c * (l.map fun p => p.2 * y p.1).sum := by
  induction l with
  | nil => simp
  | cons e t ih => simp only [List.map_cons, List.sum_cons, ih]; ring

theorem rowVal_cvRow (t : PyTable Rat) (y : Label → Rat) (u : Label) (nu : ODict Label Rat) (hnd : (okeys nu).Nodup)
    (b : Rat) (hb : ODict.get? nu u = some b) :
    rowVal (1/2) y (cvRow t (u, nu)).1 (cvRow t (u, nu)).2
      = (t.linMp * b + t.linQuadMp * ((others u nu).map (·.2)).sum) * y u
        + ((others u nu).map fun p => 1/2 * (t.quadMp * p.2) * y u * y p.1).sum := by
  have hl : lbias u nu = b := by unfold lbias; rw [hb]; rfl
  unfold rowVal cvRow
  simp only [List.map_map, hl]
  rw [← sum_split_self u nu hnd b hb (fun _ => (t.linMp * b + t.linQuadMp * ((others u nu).map (·.2)).sum) * y u)
    (fun p => 1/2 * (t.quadMp * p.2) * y u * y p.1)]
  congr 1
  apply List.map_congr_left
  intro p _
  by_cases h : p.1 = u <;> simp [h]

/-- one neighbourhood: converted row + its share of the offset = the original row at `a·y + c`, up to the term that
    cancels over the whole model because every interaction is stored twice -/
theorem row_identity (t : PyTable Rat) (a c : Rat) (ht : Matches t a c) (y : Label → Rat) (u : Label) (nu : ODict Label Rat)
    (hnd : (okeys nu).Nodup) (b : Rat) (hb : ODict.get? nu u = some b) :
    cvOff t (u, nu) + rowVal (1/2) y (cvRow t (u, nu)).1 (cvRow t (u, nu)).2
      = rowVal (1/2) (fun v => a * y v + c) u nu
        + 1/2 * a * c * (((others u nu).map (·.2)).sum * y u - ((others u nu).map fun p => p.2 * y p.1).sum) := by
  have hl : lbias u nu = b := by unfold lbias; rw [hb]; rfl
  rw [rowVal_cvRow t y u nu hnd b hb, rowVal_split _ u nu hnd b hb, others_expand]
  unfold cvOff
  simp only [hl, ht.lin, ht.linOff, ht.quad, ht.linQuad]
  have hq : t.quadOffsetMp = c * c / 2 := by have := ht.quadOff; linarith
  rw [hq]; ring

/-! ### every interaction is stored twice: the two ways of summing `bias · y` over all stored copies agree -/

theorem sum_filter_ite (l : ODict Label Rat) (u : Label) (g : Label × Rat → Rat) :
    ((others u l).map g).sum = (l.map fun p => if p.1 = u then 0 else g p).sum := by
  unfold others
  induction l with
  | nil => rfl
  | cons e t ih =>
    rw [List.filter_cons]
    by_cases h : e.1 = u
    · simp only [h, ne_eq, not_true_eq_false, decide_false, Bool.false_eq_true, if_false, List.map_cons, List.sum_cons, if_true]
      rw [ih]; simp [h]
    · simp only [h, ne_eq, not_false_eq_true, decide_true, if_true, List.map_cons, List.sum_cons, if_false]
      rw [ih]

theorem entry_of_mem (m : LBqm Rat) (hnd : (okeys m.adj).Nodup) (u : Label) (nu : ODict Label Rat) (h : (u, nu) ∈ m.adj) (v : Label) :
    m.entry u v = (ODict.get? nu v).getD 0 := by
  unfold entry
  rw [get?_of_mem m.adj hnd u nu h]; rfl

theorem others_over_keys (m : LBqm Rat) (i : LInv m) (u : Label) (nu : ODict Label Rat) (h : (u, nu) ∈ m.adj) (w : Label → Rat) :
    ((others u nu).map fun p => p.2 * w p.1).sum = ((okeys m.adj).map fun v => if v = u then 0 else m.entry u v * w v).sum := by
  rw [sum_filter_ite nu u (fun p => p.2 * w p.1)]
  rw [sum_row_over_keys nu (i.rowNodup u nu h) (okeys m.adj) i.nodup (i.closed u nu h) (fun v b => if v = u then 0 else b * w v)]
  congr 1
  apply List.map_congr_left
  intro v _
  rw [entry_of_mem m i.nodup u nu h v]
  cases hg : ODict.get? nu v with
  | none => by_cases hv : v = u <;> simp [hv]
  | some b => simp

theorem swap_identity (m : LBqm Rat) (i : LInv m) (y : Label → Rat) :
    (m.adj.map fun r => ((others r.1 r.2).map (·.2)).sum * y r.1).sum
      = (m.adj.map fun r => ((others r.1 r.2).map fun p => p.2 * y p.1).sum).sum := by
  have h1 : (m.adj.map fun r => ((others r.1 r.2).map (·.2)).sum * y r.1)
      = m.adj.map fun r => ((okeys m.adj).map fun v => if v = r.1 then 0 else m.entry r.1 v * y r.1).sum := by
    apply List.map_congr_left
    intro r hr
    have := others_over_keys m i r.1 r.2 hr (fun _ => 1)
    simp only [mul_one] at this
    rw [this, mul_comm, ← sum_map_mul_left']
    congr 1
    apply List.map_congr_left
    intro v _
    by_cases hv : v = r.1 <;> simp [hv]; ring
  have h2 : (m.adj.map fun r => ((others r.1 r.2).map fun p => p.2 * y p.1).sum)
      = m.adj.map fun r => ((okeys m.adj).map fun v => if v = r.1 then 0 else m.entry r.1 v * y v).sum := by
    apply List.map_congr_left
    intro r hr
    exact others_over_keys m i r.1 r.2 hr y
  rw [h1, h2]
  have e1 : (m.adj.map fun r => ((okeys m.adj).map fun v => if v = r.1 then 0 else m.entry r.1 v * y r.1).sum)
      = (okeys m.adj).map fun u => ((okeys m.adj).map fun v => if v = u then 0 else m.entry u v * y u).sum := by
    unfold okeys; rw [List.map_map]; rfl
  have e2 : (m.adj.map fun r => ((okeys m.adj).map fun v => if v = r.1 then 0 else m.entry r.1 v * y v).sum)
      = (okeys m.adj).map fun u => ((okeys m.adj).map fun v => if v = u then 0 else m.entry u v * y v).sum := by
    unfold okeys; rw [List.map_map]; rfl
  rw [e1, e2, sum_sum_comm (okeys m.adj) (okeys m.adj) (fun u v => if v = u then 0 else m.entry u v * y v)]
  congr 1
  apply List.map_congr_left
  intro u _
  congr 1
  apply List.map_congr_left
  intro v _
  rw [i.sym u v]
  by_cases h : v = u
  · simp [h]
  · have h' : ¬ u = v := fun e => h e.symm
    simp [h, h']

/-- the pass with table `t` -/
theorem cv_core (t : PyTable Rat) (m : LBqm Rat) (i : LInv m) (vt' : VT) (a c : Rat) (ht : Matches t a c) (y : Label → Rat) :
    evalL (1/2) { vt := vt', adj := (changeVartypeWith.go t m.adj m.off).1, off := (changeVartypeWith.go t m.adj m.off).2 } y
      = evalL (1/2) m (fun v => a * y v + c) := by
  simp only [go_spec]
  unfold evalL
  simp only [List.map_map]
  have hrows : (m.adj.map fun r => cvOff t r + rowVal (1/2) y (cvRow t r).1 (cvRow t r).2)
      = m.adj.map fun r => rowVal (1/2) (fun v => a * y v + c) r.1 r.2
        + 1/2 * a * c * (((others r.1 r.2).map (·.2)).sum * y r.1 - ((others r.1 r.2).map fun p => p.2 * y p.1).sum) := by
    apply List.map_congr_left
    intro r hr
    obtain ⟨b, hb⟩ := i.self r.1 r.2 hr
    exact row_identity t a c ht y r.1 r.2 (i.rowNodup r.1 r.2 hr) b hb
  have hsum := congrArg List.sum hrows
  rw [sum_map_add', sum_map_add', sum_map_mul_left'] at hsum
  have hsw := swap_identity m i y
  have hz : (m.adj.map fun r => ((others r.1 r.2).map (·.2)).sum * y r.1 - ((others r.1 r.2).map fun p => p.2 * y p.1).sum).sum = 0 := by
    have : (m.adj.map fun r => ((others r.1 r.2).map (·.2)).sum * y r.1 - ((others r.1 r.2).map fun p => p.2 * y p.1).sum)
        = m.adj.map fun r => ((others r.1 r.2).map (·.2)).sum * y r.1 + (-1) * ((others r.1 r.2).map fun p => p.2 * y p.1).sum := by
      apply List.map_congr_left; intro r _; ring
    rw [this, sum_map_add', sum_map_mul_left', hsw]; ring
  rw [hz] at hsum
  simp only [Function.comp_def]
  linarith

/-- **`pyBQM.change_vartype`, whatever the insertion order the history left**: with the multipliers of the affine map
    `x = a·y + c` for the requested direction, the converted dict model at `y` has the value of the original at `a·y + c` -/
theorem changeVartypeWith_evalL (toBinary toSpin : PyTable Rat) (m : LBqm Rat) (i : LInv m) (vt : VT) (hne : m.vt ≠ vt)
    (a c : Rat) (hb : vt = .binary → Matches toBinary a c) (hs : vt = .spin → Matches toSpin a c) (y : Label → Rat) :
    evalL (1/2) (m.changeVartypeWith toBinary toSpin vt) y = evalL (1/2) m (fun v => a * y v + c) := by
  unfold changeVartypeWith
  rw [if_neg hne]
  cases vt with
  | binary => exact cv_core toBinary m i .binary a c (hb rfl) y
  | spin => exact cv_core toSpin m i .spin a c (hs rfl) y

end LBqm

end En
