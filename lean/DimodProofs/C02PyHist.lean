import DimodProofs.C02Init
import DimodModel.PyHist

/-! # C02 — `pyBQM.change_vartype` on every state an edit history can leave behind

`LBqm.changeVartypeWith` (the loop of `pybqm.py` over the insertion-ordered dict of dicts) preserves the polynomial of the
dict model (`evalL`) at the converted sample on every state that satisfies the representation invariant `LInv`
(duplicate-free keys, every neighbourhood holds its own variable's entry — *anywhere* in the dict —, neighbours are
variables, both copies of an interaction carry the same bias); `LInv` is preserved by every data-level call, including
`relabel_variables`, so the statement holds after any history. -/

namespace En

open Generated.Vartype

/-! ## list sums -/

theorem sum_map_add' {α : Type} (l : List α) (f g : α → Rat) :
    (l.map fun a => f a + g a).sum = (l.map f).sum + (l.map g).sum := by
  induction l with
  | nil => simp
  | cons a t ih => simp only [List.map_cons, List.sum_cons, ih]; ring

theorem sum_map_mul_left' {α : Type} (l : List α) (k : Rat) (f : α → Rat) :
    (l.map fun a => k * f a).sum = k * (l.map f).sum := by
  induction l with
  | nil => simp
  | cons a t ih => simp only [List.map_cons, List.sum_cons, ih]; ring

theorem sum_map_zero' {α : Type} (l : List α) : (l.map fun _ => (0 : Rat)).sum = 0 := by
  induction l with
  | nil => rfl
  | cons a t ih => simp only [List.map_cons, List.sum_cons, ih]; ring

/-- two nested sums over lists commute -/
theorem sum_sum_comm {α β : Type} (k : List α) (l : List β) (f : α → β → Rat) :
    (k.map fun a => (l.map fun b => f a b).sum).sum = (l.map fun b => (k.map fun a => f a b).sum).sum := by
  induction k with
  | nil => simp
  | cons a t ih =>
    simp only [List.map_cons, List.sum_cons, ih]
    rw [← sum_map_add']

theorem sum_ite_single (K : List Label) (hnd : K.Nodup) (k : Label) (hk : k ∈ K) (A : Rat) :
    (K.map fun v => if k = v then A else 0).sum = A := by
  induction K with
  | nil => cases hk
  | cons a t ih =>
    rw [List.nodup_cons] at hnd
    simp only [List.map_cons, List.sum_cons]
    by_cases h : k = a
    · subst h
      have : (t.map fun v => if k = v then A else 0) = t.map fun _ => (0 : Rat) := by
        apply List.map_congr_left
        intro v hv
        have : k ≠ v := fun e => hnd.1 (e ▸ hv)
        simp [this]
      rw [this, sum_map_zero']; simp
    · have hk' : k ∈ t := by
        rcases List.mem_cons.mp hk with e | e
        · exact absurd e h
        · exact e
      rw [ih hnd.2 hk']; simp [h]

theorem foldl_add_mul' (l : ODict Label Rat) (k z : Rat) :
    l.foldl (fun acc p => acc + k * p.2) z = z + k * (l.map (·.2)).sum := by
  induction l generalizing z with
  | nil => simp
  | cons a t ih => simp only [List.foldl_cons, ih, List.map_cons, List.sum_cons]; ring

/-! ## ordered dicts with duplicate-free keys -/

def okeys {β : Type} (d : ODict Label β) : List Label := d.map (·.1)

theorem get?_none_of_not_mem {β : Type} (d : ODict Label β) (k : Label) (h : k ∉ okeys d) : ODict.get? d k = none := by
  induction d with
  | nil => rfl
  | cons e t ih =>
    obtain ⟨k0, b⟩ := e
    simp only [okeys, List.map_cons, List.mem_cons, not_or] at h
    simp only [ODict.get?]
    rw [if_neg (fun e => h.1 e.symm)]
    exact ih h.2

theorem get?_of_mem {β : Type} (d : ODict Label β) (hnd : (okeys d).Nodup) (k : Label) (b : β) (h : (k, b) ∈ d) :
    ODict.get? d k = some b := by
  induction d with
  | nil => cases h
  | cons e t ih =>
    obtain ⟨k0, b0⟩ := e
    simp only [okeys, List.map_cons, List.nodup_cons] at hnd
    simp only [ODict.get?]
    rcases List.mem_cons.mp h with e | e
    · cases e; simp
    · have : k0 ≠ k := by
        intro e'; subst e'
        exact hnd.1 (List.mem_map.mpr ⟨(k0, b), e, rfl⟩)
      rw [if_neg this]; exact ih hnd.2 e

theorem mem_of_get? {β : Type} (d : ODict Label β) (k : Label) (b : β) (h : ODict.get? d k = some b) : (k, b) ∈ d := by
  induction d with
  | nil => cases h
  | cons e t ih =>
    obtain ⟨k0, b0⟩ := e
    simp only [ODict.get?] at h
    by_cases h0 : k0 = k
    · rw [if_pos h0] at h; cases h; subst h0; exact List.mem_cons_self
    · rw [if_neg h0] at h; exact List.mem_cons_of_mem _ (ih h)

/-- a sum over the items of a dict is a sum over its keys -/
theorem sum_items_eq_keys {β : Type} (d : ODict Label β) (hnd : (okeys d).Nodup) (dflt : β) (F : Label → β → Rat) :
    (d.map fun p => F p.1 p.2).sum = ((okeys d).map fun u => F u ((ODict.get? d u).getD dflt)).sum := by
  unfold okeys
  rw [List.map_map]
  congr 1
  apply List.map_congr_left
  intro p hp
  have := get?_of_mem d hnd p.1 p.2 hp
  simp [this]

/-- **a sum over the items of a neighbourhood, as a sum over all variables** -/
theorem sum_row_over_keys (nu : ODict Label Rat) (hnd : (okeys nu).Nodup) (K : List Label) (hK : K.Nodup)
    (hsub : ∀ v ∈ okeys nu, v ∈ K) (H : Label → Rat → Rat) :
    (nu.map fun p => H p.1 p.2).sum = (K.map fun v => match ODict.get? nu v with | some b => H v b | none => 0).sum := by
  induction nu with
  | nil => simp [ODict.get?]
  | cons e t ih =>
    obtain ⟨k, b⟩ := e
    simp only [okeys, List.map_cons, List.nodup_cons] at hnd
    have hk : k ∈ K := hsub k (by simp [okeys])
    have hsub' : ∀ v ∈ okeys t, v ∈ K := fun v hv => hsub v (by simp only [okeys, List.map_cons, List.mem_cons]; exact Or.inr hv)
    have hnone : ODict.get? t k = none := get?_none_of_not_mem t k hnd.1
    have hsplit : (K.map fun v => match ODict.get? ((k, b) :: t) v with | some b => H v b | none => 0)
        = K.map fun v => (if k = v then H k b else 0) + (match ODict.get? t v with | some b => H v b | none => 0) := by
      apply List.map_congr_left
      intro v _
      simp only [ODict.get?]
      by_cases h : k = v
      · subst h; simp [hnone]
      · simp [h]
    rw [hsplit, sum_map_add', sum_ite_single K hK k hk, ← ih hnd.2 hsub']
    simp

/-! ## the representation invariant of the dict back-end -/

namespace LBqm

structure LInv (m : LBqm Rat) : Prop where
  nodup : (okeys m.adj).Nodup
  rowNodup : ∀ u nu, (u, nu) ∈ m.adj → (okeys nu).Nodup
  self : ∀ u nu, (u, nu) ∈ m.adj → ∃ b, ODict.get? nu u = some b
  closed : ∀ u nu, (u, nu) ∈ m.adj → ∀ v ∈ okeys nu, v ∈ okeys m.adj
  sym : m.Sym

/-- linear bias and the interactions of one neighbourhood -/
def lbias (u : Label) (nu : ODict Label Rat) : Rat := (ODict.get? nu u).getD 0
def others (u : Label) (nu : ODict Label Rat) : ODict Label Rat := nu.filter fun p => p.1 ≠ u

/-- one neighbourhood: its own entry + the others -/
theorem sum_split_self (u : Label) (nu : ODict Label Rat) (hnd : (okeys nu).Nodup) (b : Rat) (hb : ODict.get? nu u = some b)
    (A : Rat → Rat) (g : Label × Rat → Rat) :
    (nu.map fun p => if p.1 = u then A p.2 else g p).sum = A b + ((others u nu).map g).sum := by
  induction nu with
  | nil => cases hb
  | cons e t ih =>
    obtain ⟨k, x⟩ := e
    simp only [okeys, List.map_cons, List.nodup_cons] at hnd
    simp only [ODict.get?] at hb
    by_cases hk : k = u
    · subst hk
      rw [if_pos rfl] at hb; cases hb
      have hrest : (t.map fun p => if p.1 = k then A p.2 else g p) = t.map g := by
        apply List.map_congr_left
        intro p hp
        have : p.1 ≠ k := fun e => hnd.1 (List.mem_map.mpr ⟨p, hp, e⟩)
        simp [this]
      have hfil : others k ((k, b) :: t) = t := by
        unfold others
        rw [List.filter_cons]
        simp only [ne_eq, not_true_eq_false, decide_false, Bool.false_eq_true, if_false]
        apply List.filter_eq_self.mpr
        intro p hp
        have : p.1 ≠ k := fun e => hnd.1 (List.mem_map.mpr ⟨p, hp, e⟩)
        simp [this]
      rw [hfil]
      simp only [List.map_cons, List.sum_cons, if_true, hrest]
    · rw [if_neg hk] at hb
      have hfil : others u ((k, x) :: t) = (k, x) :: others u t := by
        unfold others
        rw [List.filter_cons]
        simp [hk]
      rw [hfil]
      simp only [List.map_cons, List.sum_cons, hk, if_false]
      rw [ih hnd.2 hb]; ring

theorem rowVal_split (x : Label → Rat) (u : Label) (nu : ODict Label Rat) (hnd : (okeys nu).Nodup)
    (b : Rat) (hb : ODict.get? nu u = some b) :
    rowVal (1/2) x u nu = b * x u + ((others u nu).map fun p => 1/2 * p.2 * x u * x p.1).sum := by
  unfold rowVal
  exact sum_split_self u nu hnd b hb (fun b => b * x u) (fun p => 1/2 * p.2 * x u * x p.1)

/-! ## the loop of `change_vartype` -/

/-- what the pass does to one neighbourhood -/
def cvRow (t : PyTable Rat) (r : Label × ODict Label Rat) : Label × ODict Label Rat :=
  (r.1, r.2.map fun p => if p.1 = r.1
    then (p.1, t.linMp * lbias r.1 r.2 + t.linQuadMp * ((others r.1 r.2).map (·.2)).sum)
    else (p.1, t.quadMp * p.2))

def cvOff (t : PyTable Rat) (r : Label × ODict Label Rat) : Rat :=
  t.linOffsetMp * lbias r.1 r.2 + t.quadOffsetMp * ((others r.1 r.2).map (·.2)).sum

theorem go_spec (t : PyTable Rat) (rows : List (Label × ODict Label Rat)) (off : Rat) :
    changeVartypeWith.go t rows off = (rows.map (cvRow t), off + (rows.map (cvOff t)).sum) := by
  induction rows generalizing off with
  | nil => simp [changeVartypeWith.go]
  | cons r rest ih =>
    obtain ⟨u, nu⟩ := r
    simp only [changeVartypeWith.go, ih, List.map_cons, List.sum_cons, foldl_add_mul']
    refine Prod.ext ?_ ?_
    · simp only [cvRow, lbias, others]
    · simp only [cvOff, lbias, others]; ring

/-- the five multipliers of one direction are those of the affine map `x = a·y + c` -/
structure Matches (t : PyTable Rat) (a c : Rat) : Prop where
  lin : t.linMp = a
  linOff : t.linOffsetMp = c
  quad : t.quadMp = a * a
  linQuad : t.linQuadMp = a * c
  quadOff : 2 * t.quadOffsetMp = c * c

theorem pyToBinary_affine : Matches pyToBinary 2 (-1) := by
  constructor <;> norm_num [pyToBinary]

theorem pyToSpin_affine : Matches pyToSpin (1/2) (1/2) := by
  constructor <;> norm_num [pyToSpin]

theorem others_expand (l : ODict Label Rat) (a c yu : Rat) (y : Label → Rat) :
    (l.map fun p => 1/2 * p.2 * (a * yu + c) * (a * y p.1 + c)).sum
      = (l.map fun p => 1/2 * (a * a * p.2) * yu * y p.1).sum + (1/2 * a * c * yu + 1/2 * c * c) * (l.map (·.2)).sum
        + 1/2 * a * c * (l.map fun p => p.2 * y p.1).sum := by
  induction l with
  | nil => simp
  | cons e t ih => simp only [List.map_cons, List.sum_cons, ih]; ring

theorem rowVal_cvRow (t : PyTable Rat) (y : Label → Rat) (u : Label) (nu : ODict Label Rat) (hnd : (okeys nu).Nodup)
    (b : Rat) (hb : ODict.get? nu u = some b) :
    rowVal (1/2) y (cvRow t (u, nu)).1 (cvRow t (u, nu)).2
      = (t.linMp * b + t.linQuadMp * ((others u nu).map (·.2)).sum) * y u
        + ((others u nu).map fun p => 1/2 * (t.quadMp * p.2) * y u * y p.1).sum := by
  have hl : lbias u nu = b := by unfold lbias; rw [hb]; rfl
  unfold rowVal cvRow
  simp only [List.map_map, hl]
  rw [← sum_split_self u nu hnd b hb (fun _ => (t.linMp * b + t.linQuadMp * ((others u nu).map (·.2)).sum) * y u)
    (fun p => 1/2 * (t.quadMp * p.2) * y u * y p.1)]
  congr 1
  apply List.map_congr_left
  intro p _
  by_cases h : p.1 = u <;> simp [h]

/-- one neighbourhood: converted row + its share of the offset = the original row at `a·y + c`, up to the term that
    cancels over the whole model because every interaction is stored twice -/
theorem row_identity (t : PyTable Rat) (a c : Rat) (ht : Matches t a c) (y : Label → Rat) (u : Label) (nu : ODict Label Rat)
    (hnd : (okeys nu).Nodup) (b : Rat) (hb : ODict.get? nu u = some b) :
    cvOff t (u, nu) + rowVal (1/2) y (cvRow t (u, nu)).1 (cvRow t (u, nu)).2
      = rowVal (1/2) (fun v => a * y v + c) u nu
        + 1/2 * a * c * (((others u nu).map (·.2)).sum * y u - ((others u nu).map fun p => p.2 * y p.1).sum) := by
  have hl : lbias u nu = b := by unfold lbias; rw [hb]; rfl
  rw [rowVal_cvRow t y u nu hnd b hb, rowVal_split _ u nu hnd b hb, others_expand]
  unfold cvOff
  simp only [hl, ht.lin, ht.linOff, ht.quad, ht.linQuad]
  have hq : t.quadOffsetMp = c * c / 2 := by have := ht.quadOff; linarith
  rw [hq]; ring

/-! ### every interaction is stored twice: the two ways of summing `bias · y` over all stored copies agree -/

theorem sum_filter_ite (l : ODict Label Rat) (u : Label) (g : Label × Rat → Rat) :
    ((others u l).map g).sum = (l.map fun p => if p.1 = u then 0 else g p).sum := by
  unfold others
  induction l with
  | nil => rfl
  | cons e t ih =>
    rw [List.filter_cons]
    by_cases h : e.1 = u
    · simp only [h, ne_eq, not_true_eq_false, decide_false, Bool.false_eq_true, if_false, List.map_cons, List.sum_cons, if_true]
      rw [ih]; simp [h]
    · simp only [h, ne_eq, not_false_eq_true, decide_true, if_true, List.map_cons, List.sum_cons, if_false]
      rw [ih]

theorem entry_of_mem (m : LBqm Rat) (hnd : (okeys m.adj).Nodup) (u : Label) (nu : ODict Label Rat) (h : (u, nu) ∈ m.adj) (v : Label) :
    m.entry u v = (ODict.get? nu v).getD 0 := by
  unfold entry
  rw [get?_of_mem m.adj hnd u nu h]; rfl

theorem others_over_keys (m : LBqm Rat) (i : LInv m) (u : Label) (nu : ODict Label Rat) (h : (u, nu) ∈ m.adj) (w : Label → Rat) :
    ((others u nu).map fun p => p.2 * w p.1).sum = ((okeys m.adj).map fun v => if v = u then 0 else m.entry u v * w v).sum := by
  rw [sum_filter_ite nu u (fun p => p.2 * w p.1)]
  rw [sum_row_over_keys nu (i.rowNodup u nu h) (okeys m.adj) i.nodup (i.closed u nu h) (fun v b => if v = u then 0 else b * w v)]
  congr 1
  apply List.map_congr_left
  intro v _
  rw [entry_of_mem m i.nodup u nu h v]
  cases hg : ODict.get? nu v with
  | none => by_cases hv : v = u <;> simp [hv]
  | some b => simp

theorem swap_identity (m : LBqm Rat) (i : LInv m) (y : Label → Rat) :
    (m.adj.map fun r => ((others r.1 r.2).map (·.2)).sum * y r.1).sum
      = (m.adj.map fun r => ((others r.1 r.2).map fun p => p.2 * y p.1).sum).sum := by
  have h1 : (m.adj.map fun r => ((others r.1 r.2).map (·.2)).sum * y r.1)
      = m.adj.map fun r => ((okeys m.adj).map fun v => if v = r.1 then 0 else m.entry r.1 v * y r.1).sum := by
    apply List.map_congr_left
    intro r hr
    have := others_over_keys m i r.1 r.2 hr (fun _ => 1)
    simp only [mul_one] at this
    rw [this, mul_comm, ← sum_map_mul_left']
    congr 1
    apply List.map_congr_left
    intro v _
    by_cases hv : v = r.1 <;> simp [hv]; ring
  have h2 : (m.adj.map fun r => ((others r.1 r.2).map fun p => p.2 * y p.1).sum)
      = m.adj.map fun r => ((okeys m.adj).map fun v => if v = r.1 then 0 else m.entry r.1 v * y v).sum := by
    apply List.map_congr_left
    intro r hr
    exact others_over_keys m i r.1 r.2 hr y
  rw [h1, h2]
  have e1 : (m.adj.map fun r => ((okeys m.adj).map fun v => if v = r.1 then 0 else m.entry r.1 v * y r.1).sum)
      = (okeys m.adj).map fun u => ((okeys m.adj).map fun v => if v = u then 0 else m.entry u v * y u).sum := by
    unfold okeys; rw [List.map_map]; rfl
  have e2 : (m.adj.map fun r => ((okeys m.adj).map fun v => if v = r.1 then 0 else m.entry r.1 v * y v).sum)
      = (okeys m.adj).map fun u => ((okeys m.adj).map fun v => if v = u then 0 else m.entry u v * y v).sum := by
    unfold okeys; rw [List.map_map]; rfl
  rw [e1, e2, sum_sum_comm (okeys m.adj) (okeys m.adj) (fun u v => if v = u then 0 else m.entry u v * y v)]
  congr 1
  apply List.map_congr_left
  intro u _
  congr 1
  apply List.map_congr_left
  intro v _
  rw [i.sym u v]
  by_cases h : v = u
  · simp [h]
  · have h' : ¬ u = v := fun e => h e.symm
    simp [h, h']

/-- the pass with table `t` -/
theorem cv_core (t : PyTable Rat) (m : LBqm Rat) (i : LInv m) (vt' : VT) (a c : Rat) (ht : Matches t a c) (y : Label → Rat) :
    evalL (1/2) { vt := vt', adj := (changeVartypeWith.go t m.adj m.off).1, off := (changeVartypeWith.go t m.adj m.off).2 } y
      = evalL (1/2) m (fun v => a * y v + c) := by
  simp only [go_spec]
  unfold evalL
  simp only [List.map_map]
  have hrows : (m.adj.map fun r => cvOff t r + rowVal (1/2) y (cvRow t r).1 (cvRow t r).2)
      = m.adj.map fun r => rowVal (1/2) (fun v => a * y v + c) r.1 r.2
        + 1/2 * a * c * (((others r.1 r.2).map (·.2)).sum * y r.1 - ((others r.1 r.2).map fun p => p.2 * y p.1).sum) := by
    apply List.map_congr_left
    intro r hr
    obtain ⟨b, hb⟩ := i.self r.1 r.2 hr
    exact row_identity t a c ht y r.1 r.2 (i.rowNodup r.1 r.2 hr) b hb
  have hsum := congrArg List.sum hrows
  rw [sum_map_add', sum_map_add', sum_map_mul_left'] at hsum
  have hsw := swap_identity m i y
  have hz : (m.adj.map fun r => ((others r.1 r.2).map (·.2)).sum * y r.1 - ((others r.1 r.2).map fun p => p.2 * y p.1).sum).sum = 0 := by
    have : (m.adj.map fun r => ((others r.1 r.2).map (·.2)).sum * y r.1 - ((others r.1 r.2).map fun p => p.2 * y p.1).sum)
        = m.adj.map fun r => ((others r.1 r.2).map (·.2)).sum * y r.1 + (-1) * ((others r.1 r.2).map fun p => p.2 * y p.1).sum := by
      apply List.map_congr_left; intro r _; ring
    rw [this, sum_map_add', sum_map_mul_left', hsw]; ring
  rw [hz] at hsum
  simp only [Function.comp_def]
  linarith

/-- **`pyBQM.change_vartype`, whatever the insertion order the history left**: with the multipliers of the affine map
    `x = a·y + c` for the requested direction, the converted dict model at `y` has the value of the original at `a·y + c` -/
theorem changeVartypeWith_evalL (toBinary toSpin : PyTable Rat) (m : LBqm Rat) (i : LInv m) (vt : VT) (hne : m.vt ≠ vt)
    (a c : Rat) (hb : vt = .binary → Matches toBinary a c) (hs : vt = .spin → Matches toSpin a c) (y : Label → Rat) :
    evalL (1/2) (m.changeVartypeWith toBinary toSpin vt) y = evalL (1/2) m (fun v => a * y v + c) := by
  unfold changeVartypeWith
  rw [if_neg hne]
  cases vt with
  | binary => exact cv_core toBinary m i .binary a c (hb rfl) y
  | spin => exact cv_core toSpin m i .spin a c (hs rfl) y

end LBqm

/-! ## the invariant along histories -/

theorem mem_okeys_set {β : Type} (d : ODict Label β) (k : Label) (v : β) (x : Label) :
    x ∈ okeys (ODict.set d k v) ↔ x = k ∨ x ∈ okeys d := by
  induction d with
  | nil => simp [ODict.set, okeys]
  | cons e t ih =>
    obtain ⟨k0, b0⟩ := e
    simp only [ODict.set]
    by_cases h : k0 = k
    · subst h; simp only [if_true, okeys, List.map_cons, List.mem_cons]; tauto
    · simp only [h, if_false, okeys, List.map_cons, List.mem_cons]
      have := ih
      simp only [okeys] at this
      rw [this]; tauto

theorem okeys_set_nodup {β : Type} (d : ODict Label β) (hnd : (okeys d).Nodup) (k : Label) (v : β) :
    (okeys (ODict.set d k v)).Nodup := by
  induction d with
  | nil => simp [ODict.set, okeys]
  | cons e t ih =>
    obtain ⟨k0, b0⟩ := e
    simp only [okeys, List.map_cons, List.nodup_cons] at hnd
    simp only [ODict.set]
    by_cases h : k0 = k
    · subst h; simp only [if_true, okeys, List.map_cons, List.nodup_cons]; exact hnd
    · simp only [h, if_false]
      show (k0 :: okeys (ODict.set t k v)).Nodup
      rw [List.nodup_cons]
      refine ⟨?_, ih hnd.2⟩
      rw [mem_okeys_set]
      rintro (e | e)
      · exact h e
      · exact hnd.1 e

theorem isSome_get?_iff {β : Type} (d : ODict Label β) (k : Label) : (ODict.get? d k).isSome ↔ k ∈ okeys d := by
  induction d with
  | nil => simp [ODict.get?, okeys]
  | cons e t ih =>
    obtain ⟨k0, b0⟩ := e
    simp only [ODict.get?, okeys, List.map_cons, List.mem_cons]
    by_cases h : k0 = k
    · subst h; simp
    · have h' : ¬ k = k0 := fun e => h e.symm
      simp only [h, if_false, h', false_or]; exact ih

theorem get?_pop {β : Type} (d : ODict Label β) (hnd : (okeys d).Nodup) (k k' : Label) :
    ODict.get? (ODict.pop d k) k' = if k = k' then none else ODict.get? d k' := by
  induction d with
  | nil => simp [ODict.pop, ODict.get?]
  | cons e t ih =>
    obtain ⟨k0, b0⟩ := e
    simp only [okeys, List.map_cons, List.nodup_cons] at hnd
    simp only [ODict.pop]
    by_cases h : k0 = k
    · subst h
      simp only [if_true, ODict.get?]
      by_cases h2 : k0 = k'
      · subst h2; simp only [if_true]; exact get?_none_of_not_mem t k0 hnd.1
      · simp [h2]
    · simp only [h, if_false, ODict.get?]
      rw [ih hnd.2]
      by_cases h2 : k0 = k'
      · subst h2; simp [h]; intro e; exact absurd e.symm h
      · simp [h2]

theorem mem_okeys_pop {β : Type} (d : ODict Label β) (hnd : (okeys d).Nodup) (k x : Label) :
    x ∈ okeys (ODict.pop d k) ↔ x ≠ k ∧ x ∈ okeys d := by
  rw [← isSome_get?_iff, get?_pop d hnd, ← isSome_get?_iff]
  by_cases h : k = x
  · subst h; simp
  · have : x ≠ k := fun e => h e.symm
    simp [h, this]

theorem okeys_pop_nodup {β : Type} (d : ODict Label β) (hnd : (okeys d).Nodup) (k : Label) : (okeys (ODict.pop d k)).Nodup := by
  induction d with
  | nil => simp [ODict.pop, okeys]
  | cons e t ih =>
    obtain ⟨k0, b0⟩ := e
    have hnd' := hnd
    simp only [okeys, List.map_cons, List.nodup_cons] at hnd
    simp only [ODict.pop]
    by_cases h : k0 = k
    · simp only [h, if_true]; exact hnd.2
    · simp only [h, if_false]
      show (k0 :: okeys (ODict.pop t k)).Nodup
      rw [List.nodup_cons]
      refine ⟨?_, ih hnd.2⟩
      rw [mem_okeys_pop t hnd.2]
      exact fun e => hnd.1 e.2

theorem get?_map_vals {β γ : Type} (d : ODict Label β) (g : Label → β → γ) (k : Label) :
    ODict.get? (d.map fun p => (p.1, g p.1 p.2)) k = (ODict.get? d k).map (g k) := by
  induction d with
  | nil => simp [ODict.get?]
  | cons e t ih =>
    obtain ⟨k0, b0⟩ := e
    simp only [List.map_cons, ODict.get?]
    by_cases h : k0 = k
    · subst h; simp
    · simp [h, ih]

theorem okeys_map_vals {β γ : Type} (d : ODict Label β) (g : Label → β → γ) : okeys (d.map fun p => (p.1, g p.1 p.2)) = okeys d := by
  unfold okeys; rw [List.map_map]; rfl

namespace LBqm

/-- `_adj[a][b]` as an optional value -/
def look (m : LBqm Rat) (a b : Label) : Option Rat := (ODict.get? m.adj a).bind fun nu => ODict.get? nu b

/-- both copies of an interaction exist together and carry the same bias -/
def LSym (m : LBqm Rat) : Prop := ∀ a b, m.look a b = m.look b a

theorem entry_eq_look (m : LBqm Rat) (a b : Label) : m.entry a b = (m.look a b).getD 0 := rfl

theorem LSym.toSym {m : LBqm Rat} (h : m.LSym) : m.Sym := fun a b => by rw [entry_eq_look, entry_eq_look, h a b]

theorem look_row (m : LBqm Rat) (a b : Label) : ODict.get? ((ODict.get? m.adj a).getD []) b = m.look a b := by
  unfold look; cases ODict.get? m.adj a <;> simp [ODict.get?]

theorem look_setRow (m : LBqm Rat) (v : Label) (row : ODict Label Rat) (a b : Label) :
    look { m with adj := m.adj.set v row } a b = if a = v then ODict.get? row b else m.look a b := by
  unfold look
  simp only []
  rw [get?_set_cases]
  by_cases h : v = a
  · subst h; simp
  · have : ¬ a = v := fun e => h e.symm
    simp [h, this]

/-- the representation invariant in terms of lookups -/
structure SInv (m : LBqm Rat) : Prop where
  nodup : (okeys m.adj).Nodup
  rows : ∀ u nu, ODict.get? m.adj u = some nu → (okeys nu).Nodup ∧ u ∈ okeys nu

structure GInv (m : LBqm Rat) : Prop where
  s : SInv m
  sym : m.LSym

theorem GInv.toLInv {m : LBqm Rat} (g : GInv m) : LInv m where
  nodup := g.s.nodup
  rowNodup := fun u nu h => (g.s.rows u nu (get?_of_mem m.adj g.s.nodup u nu h)).1
  self := fun u nu h => by
    have := (g.s.rows u nu (get?_of_mem m.adj g.s.nodup u nu h)).2
    rw [← isSome_get?_iff] at this
    exact Option.isSome_iff_exists.mp this
  closed := fun u nu h v hv => by
    have hu := get?_of_mem m.adj g.s.nodup u nu h
    have h1 : (m.look u v).isSome := by unfold look; rw [hu]; simpa [isSome_get?_iff] using hv
    rw [g.sym u v] at h1
    rw [← isSome_get?_iff]
    unfold look at h1
    cases hg : ODict.get? m.adj v with
    | none => rw [hg] at h1; simp at h1
    | some r => rfl
  sym := g.sym.toSym

theorem GInv.empty (vt : VT) : GInv ({ vt, adj := [], off := 0 } : LBqm Rat) where
  s := { nodup := List.nodup_nil, rows := fun u nu h => by simp [ODict.get?] at h }
  sym := fun a b => by simp [look, ODict.get?]

/-- replacing / creating one neighbourhood -/
theorem SInv.setRow {m : LBqm Rat} (g : SInv m) (v : Label) (row : ODict Label Rat) (h1 : (okeys row).Nodup) (h2 : v ∈ okeys row) :
    SInv { m with adj := m.adj.set v row } where
  nodup := okeys_set_nodup m.adj g.nodup v row
  rows := fun u nu h => by
    simp only [] at h
    rw [get?_set_cases] at h
    by_cases hv : v = u
    · subst hv
      simp only [if_true, Option.some.injEq] at h
      subst h
      exact ⟨h1, h2⟩
    · simp only [hv, if_false] at h
      exact g.rows u nu h

theorem row_nodup {m : LBqm Rat} (g : SInv m) (v : Label) : (okeys ((ODict.get? m.adj v).getD [])).Nodup := by
  cases h : ODict.get? m.adj v with
  | none => simp [okeys]
  | some nu => exact (g.rows v nu h).1

theorem mem_set_self {β : Type} (d : ODict Label β) (k : Label) (v : β) : k ∈ okeys (ODict.set d k v) :=
  (mem_okeys_set d k v k).mpr (Or.inl rfl)

theorem look_addLinear (m : LBqm Rat) (v : Label) (c : Rat) (a b : Label) :
    (m.addLinear v c).look a b = if a = v ∧ b = v then some ((m.look v v).getD 0 + c) else m.look a b := by
  unfold addLinear
  rw [look_setRow]
  by_cases ha : a = v
  · subst ha
    rw [get?_set_cases]
    simp only [look_row]
    by_cases hb : a = b
    · subst hb; simp
    · have hb' : ¬ b = a := fun e => hb e.symm
      simp [hb, hb']
  · simp [ha]

theorem GInv.addLinear {m : LBqm Rat} (g : GInv m) (v : Label) (b : Rat) : GInv (m.addLinear v b) := by
  refine ⟨SInv.setRow g.s v _ (okeys_set_nodup _ (row_nodup g.s v) v _) (mem_set_self _ _ _), ?_⟩
  intro a c
  rw [look_addLinear m v b a c, look_addLinear m v b c a, g.sym a c]
  by_cases x : a = v <;> by_cases y : c = v <;> simp [x, y]

theorem look_setLinear (m : LBqm Rat) (v : Label) (c : Rat) (a b : Label) :
    (m.setLinear v c).look a b = if a = v ∧ b = v then some c else m.look a b := by
  unfold setLinear
  rw [look_setRow]
  by_cases ha : a = v
  · subst ha
    rw [get?_set_cases, look_row]
    by_cases hb : a = b
    · subst hb; simp
    · have hb' : ¬ b = a := fun e => hb e.symm
      simp [hb, hb']
  · simp [ha]

theorem GInv.setLinear {m : LBqm Rat} (g : GInv m) (v : Label) (b : Rat) : GInv (m.setLinear v b) := by
  refine ⟨SInv.setRow g.s v _ (okeys_set_nodup _ (row_nodup g.s v) v _) (mem_set_self _ _ _), ?_⟩
  intro a c
  rw [look_setLinear m v b a c, look_setLinear m v b c a, g.sym a c]
  by_cases x : a = v <;> by_cases y : c = v <;> simp [x, y]

theorem GInv.setOffset {m : LBqm Rat} (g : GInv m) (b : Rat) : GInv { m with off := b } where
  s := { nodup := g.s.nodup, rows := g.s.rows }
  sym := g.sym

theorem GInv.ensure {m : LBqm Rat} (g : GInv m) (u : Label) :
    GInv (if m.adj.contains u then m else m.setLinear u 0) ∧ u ∈ okeys (if m.adj.contains u then m else m.setLinear u 0).adj := by
  by_cases h : m.adj.contains u = true
  · simp only [h, if_true]
    exact ⟨g, (isSome_get?_iff _ _).mp h⟩
  · simp only [h, Bool.false_eq_true, if_false]
    refine ⟨g.setLinear u 0, ?_⟩
    unfold LBqm.setLinear
    exact mem_set_self _ _ _

theorem look_of_get? (m : LBqm Rat) (a : Label) (nu : ODict Label Rat) (h : ODict.get? m.adj a = some nu) (b : Label) :
    m.look a b = ODict.get? nu b := by unfold look; rw [h]; rfl

/-- `adj[u][v] = adj[v][u] = x` on a model that has both variables -/
theorem GInv.quadSet {m : LBqm Rat} (g : GInv m) (u v : Label) (huv : u ≠ v) (nu nv : ODict Label Rat)
    (hu : ODict.get? m.adj u = some nu) (hv : ODict.get? m.adj v = some nv) (x : Rat) :
    GInv { m with adj := (m.adj.set u (nu.set v x)).set v (nv.set u x) } := by
  have s1 : SInv { m with adj := m.adj.set u (nu.set v x) } :=
    SInv.setRow g.s u _ (okeys_set_nodup _ (g.s.rows u nu hu).1 v _) ((mem_okeys_set _ _ _ _).mpr (Or.inr (g.s.rows u nu hu).2))
  have s2 := SInv.setRow s1 v (nv.set u x) (okeys_set_nodup _ (g.s.rows v nv hv).1 u _)
    ((mem_okeys_set _ _ _ _).mpr (Or.inr (g.s.rows v nv hv).2))
  refine ⟨s2, ?_⟩
  have hl : ∀ a b, look { m with adj := (m.adj.set u (nu.set v x)).set v (nv.set u x) } a b
      = if a = v then (if u = b then some x else m.look v b) else if a = u then (if v = b then some x else m.look u b) else m.look a b := by
    intro a b
    have e1 := look_setRow { m with adj := m.adj.set u (nu.set v x) } v (nv.set u x) a b
    simp only [] at e1
    rw [e1, look_setRow, get?_set_cases, get?_set_cases, look_of_get? m v nv hv, look_of_get? m u nu hu]
  intro a b
  rw [hl, hl]
  have hvu : v ≠ u := fun e => huv e.symm
  have q1 := g.sym v b
  have q2 := g.sym u b
  have q3 := g.sym a v
  have q4 := g.sym a u
  have q5 := g.sym a b
  by_cases a1 : a = v <;> by_cases a2 : a = u <;> by_cases b1 : b = v <;> by_cases b2 : b = u <;>
    simp_all [eq_comm]

theorem mem_keys_of_get? {β : Type} (d : ODict Label β) (k : Label) (b : β) (h : ODict.get? d k = some b) : k ∈ okeys d :=
  (isSome_get?_iff d k).mp (by rw [h]; rfl)

theorem GInv.addQuadratic {m : LBqm Rat} (g : GInv m) (u v : Label) (b : Rat) :
    GInv (match m.addQuadratic u v b with | .ok m' => m' | .error _ => m) := by
  unfold LBqm.addQuadratic
  by_cases huv : u = v
  · simp only [huv, if_true]; exact g
  · simp only [huv, if_false]
    obtain ⟨g1, hu1⟩ := g.ensure u
    generalize (if m.adj.contains u then m else m.setLinear u 0) = m1 at g1 hu1 ⊢
    obtain ⟨g2, hv2⟩ := g1.ensure v
    have hu2 : u ∈ okeys (if m1.adj.contains v then m1 else m1.setLinear v 0).adj := by
      by_cases h : m1.adj.contains v = true
      · simp only [h, if_true]; exact hu1
      · simp only [h, Bool.false_eq_true, if_false]
        unfold LBqm.setLinear
        exact (mem_okeys_set _ _ _ _).mpr (Or.inr hu1)
    generalize (if m1.adj.contains v then m1 else m1.setLinear v 0) = m2 at g2 hv2 hu2 ⊢
    obtain ⟨nu, hnu⟩ := Option.isSome_iff_exists.mp ((isSome_get?_iff _ _).mpr hu2)
    obtain ⟨nv, hnv⟩ := Option.isSome_iff_exists.mp ((isSome_get?_iff _ _).mpr hv2)
    have hgv : ODict.get? (ODict.set m2.adj u (ODict.set nu v ((ODict.get? nv u).getD 0 + b))) v = some nv := by
      rw [get?_set_ne _ _ _ _ huv]; exact hnv
    simp only [hnu, hnv, Option.getD_some, hgv]
    exact g2.quadSet u v huv nu nv hnu hnv _

theorem GInv.removeInteraction {m : LBqm Rat} (g : GInv m) (u v : Label) :
    GInv (match m.removeInteraction u v with | .ok m' => m' | .error _ => m) := by
  unfold LBqm.removeInteraction
  by_cases huv : u = v
  · simp only [huv, if_true]; exact g
  · simp only [huv, if_false]
    have hl : (ODict.get? m.adj u).bind (fun x => ODict.get? x v) = m.look u v := rfl
    rw [hl]
    cases h : m.look u v with
    | none => exact g
    | some z =>
      simp only []
      have h' : m.look v u = some z := by rw [← g.sym u v]; exact h
      obtain ⟨nu, hnu⟩ : ∃ nu, ODict.get? m.adj u = some nu := by
        unfold look at h; cases hg : ODict.get? m.adj u with
        | none => rw [hg] at h; simp at h
        | some r => exact ⟨r, rfl⟩
      obtain ⟨nv, hnv⟩ : ∃ nv, ODict.get? m.adj v = some nv := by
        unfold look at h'; cases hg : ODict.get? m.adj v with
        | none => rw [hg] at h'; simp at h'
        | some r => exact ⟨r, rfl⟩
      have hgv : ODict.get? (ODict.set m.adj u (ODict.pop nu v)) v = some nv := by
        rw [get?_set_ne _ _ _ _ huv]; exact hnv
      simp only [hnu, Option.getD_some, hgv]
      have hvu : v ≠ u := fun e => huv e.symm
      have ru := g.s.rows u nu hnu
      have rv := g.s.rows v nv hnv
      have s1 : SInv { m with adj := m.adj.set u (nu.pop v) } :=
        SInv.setRow g.s u _ (okeys_pop_nodup _ ru.1 v) ((mem_okeys_pop _ ru.1 _ _).mpr ⟨huv, ru.2⟩)
      have s2 := SInv.setRow s1 v (nv.pop u) (okeys_pop_nodup _ rv.1 u) ((mem_okeys_pop _ rv.1 _ _).mpr ⟨hvu, rv.2⟩)
      refine ⟨s2, ?_⟩
      have hl : ∀ a b, look { m with adj := (m.adj.set u (nu.pop v)).set v (nv.pop u) } a b
          = if a = v then (if u = b then none else m.look v b) else if a = u then (if v = b then none else m.look u b) else m.look a b := by
        intro a b
        have e1 := look_setRow { m with adj := m.adj.set u (nu.pop v) } v (nv.pop u) a b
        simp only [] at e1
        rw [e1, look_setRow, get?_pop _ rv.1, get?_pop _ ru.1, look_of_get? m v nv hnv, look_of_get? m u nu hnu]
      intro a b
      rw [hl, hl]
      have q1 := g.sym v b
      have q2 := g.sym u b
      have q3 := g.sym a v
      have q4 := g.sym a u
      have q5 := g.sym a b
      by_cases a1 : a = v <;> by_cases a2 : a = u <;> by_cases b1 : b = v <;> by_cases b2 : b = u <;>
        simp_all [eq_comm]

theorem GInv.setQuadratic {m : LBqm Rat} (g : GInv m) (u v : Label) (b : Rat) :
    GInv (match m.setQuadratic u v b with | .ok m' => m' | .error _ => m) := by
  unfold LBqm.setQuadratic
  by_cases huv : u = v
  · simp only [huv, if_true]; exact g
  · simp only [huv, if_false]
    unfold LBqm.addVariable
    have g2 := (g.addLinear u 0).addLinear v 0
    have hv2 : v ∈ okeys ((m.addLinear u 0).addLinear v 0).adj := by
      unfold LBqm.addLinear; exact mem_set_self _ _ _
    have hu2 : u ∈ okeys ((m.addLinear u 0).addLinear v 0).adj := by
      have : u ∈ okeys (m.addLinear u 0).adj := by unfold LBqm.addLinear; exact mem_set_self _ _ _
      unfold LBqm.addLinear at this ⊢
      exact (mem_okeys_set _ _ _ _).mpr (Or.inr this)
    generalize (m.addLinear u 0).addLinear v 0 = m2 at g2 hv2 hu2 ⊢
    obtain ⟨nu, hnu⟩ := Option.isSome_iff_exists.mp ((isSome_get?_iff _ _).mpr hu2)
    obtain ⟨nv, hnv⟩ := Option.isSome_iff_exists.mp ((isSome_get?_iff _ _).mpr hv2)
    have hgv : ODict.get? (ODict.set m2.adj u (ODict.set nu v b)) v = some nv := by
      rw [get?_set_ne _ _ _ _ huv]; exact hnv
    simp only [hnu, Option.getD_some, hgv]
    exact g2.quadSet u v huv nu nv hnu hnv b

/-! ### `change_vartype` keeps the invariant -/

def cvVal (t : PyTable Rat) (u : Label) (nu : ODict Label Rat) (k : Label) (x : Rat) : Rat :=
  if k = u then t.linMp * lbias u nu + t.linQuadMp * ((others u nu).map (·.2)).sum else t.quadMp * x

def cvRowF (t : PyTable Rat) (u : Label) (nu : ODict Label Rat) : ODict Label Rat := nu.map fun p => (p.1, cvVal t u nu p.1 p.2)

theorem cvRow_eq (t : PyTable Rat) (r : Label × ODict Label Rat) : cvRow t r = (r.1, cvRowF t r.1 r.2) := by
  unfold cvRow cvRowF cvVal
  congr 1
  apply List.map_congr_left
  intro p _
  by_cases h : p.1 = r.1 <;> simp [h]

theorem GInv.cvTable {m : LBqm Rat} (g : GInv m) (t : PyTable Rat) (vt' : VT) (o : Rat) :
    GInv { vt := vt', adj := m.adj.map (cvRow t), off := o } := by
  have hadj : m.adj.map (cvRow t) = m.adj.map fun r => (r.1, cvRowF t r.1 r.2) := by
    apply List.map_congr_left
    intro r _
    exact cvRow_eq t r
  rw [hadj]
  have hget : ∀ u, ODict.get? (m.adj.map fun r => (r.1, cvRowF t r.1 r.2)) u = (ODict.get? m.adj u).map (cvRowF t u) :=
    fun u => get?_map_vals m.adj (cvRowF t) u
  have hrow : ∀ u nu b, ODict.get? (cvRowF t u nu) b = (ODict.get? nu b).map (cvVal t u nu b) :=
    fun u nu b => get?_map_vals nu (cvVal t u nu) b
  refine ⟨⟨?_, ?_⟩, ?_⟩
  · show (okeys (m.adj.map fun r => (r.1, cvRowF t r.1 r.2))).Nodup
    rw [okeys_map_vals m.adj (cvRowF t)]; exact g.s.nodup
  · intro u nu' hg
    have hg' : ODict.get? (m.adj.map fun r => (r.1, cvRowF t r.1 r.2)) u = some nu' := hg
    rw [hget] at hg'
    cases hu : ODict.get? m.adj u with
    | none => rw [hu] at hg'; simp at hg'
    | some nu =>
      rw [hu] at hg'
      simp only [Option.map_some, Option.some.injEq] at hg'
      subst hg'
      unfold cvRowF
      rw [okeys_map_vals nu (cvVal t u nu)]
      exact g.s.rows u nu hu
  · intro a b
    by_cases hab : a = b
    · subst hab; rfl
    · show (ODict.get? (m.adj.map fun r => (r.1, cvRowF t r.1 r.2)) a).bind (fun nu => ODict.get? nu b)
        = (ODict.get? (m.adj.map fun r => (r.1, cvRowF t r.1 r.2)) b).bind (fun nu => ODict.get? nu a)
      rw [hget, hget]
      have hs := g.sym a b
      unfold look at hs
      have hba : ¬ b = a := fun e => hab e.symm
      cases ha : ODict.get? m.adj a with
      | none =>
        rw [ha] at hs
        cases hb : ODict.get? m.adj b with
        | none => simp
        | some nb =>
          rw [hb] at hs
          simp only [Option.bind_none, Option.bind_some] at hs
          simp only [Option.map_none, Option.bind_none, Option.map_some, Option.bind_some, hrow, ← hs, Option.map_none]
      | some na =>
        rw [ha] at hs
        cases hb : ODict.get? m.adj b with
        | none =>
          rw [hb] at hs
          simp only [Option.bind_none, Option.bind_some] at hs
          simp only [Option.map_none, Option.bind_none, Option.map_some, Option.bind_some, hrow, hs, Option.map_none]
        | some nb =>
          rw [hb] at hs
          simp only [Option.bind_some] at hs
          simp only [Option.map_some, Option.bind_some, hrow, hs]
          unfold cvVal
          cases ODict.get? nb a <;> simp [hab, hba]

theorem GInv.changeVartype {m : LBqm Rat} (g : GInv m) (toBinary toSpin : PyTable Rat) (vt : VT) :
    GInv (m.changeVartypeWith toBinary toSpin vt) := by
  unfold LBqm.changeVartypeWith
  by_cases h : m.vt = vt
  · rw [if_pos h]; exact g
  · rw [if_neg h]
    cases vt <;> (simp only [go_spec]; exact g.cvTable _ _ _)

/-! ### loops that rewrite one neighbourhood per item (`remove_variable`) -/

def rowStep (f : Label → ODict Label Rat → ODict Label Rat) (skip : Label) (adj : ODict Label (ODict Label Rat)) (p : Label × Rat) :
    ODict Label (ODict Label Rat) :=
  if p.1 = skip then adj else adj.set p.1 (f p.1 ((ODict.get? adj p.1).getD []))

theorem foldl_rowStep_nodup (f : Label → ODict Label Rat → ODict Label Rat) (skip : Label) (N : ODict Label Rat)
    (adj : ODict Label (ODict Label Rat)) (h : (okeys adj).Nodup) : (okeys (N.foldl (rowStep f skip) adj)).Nodup := by
  induction N generalizing adj with
  | nil => exact h
  | cons p rest ih =>
    simp only [List.foldl_cons]
    apply ih
    unfold rowStep
    by_cases hp : p.1 = skip
    · simp only [hp, if_true]; exact h
    · simp only [hp, if_false]; exact okeys_set_nodup _ h _ _

theorem foldl_rowStep_get? (f : Label → ODict Label Rat → ODict Label Rat) (skip : Label) (N : ODict Label Rat)
    (hN : (okeys N).Nodup) (adj : ODict Label (ODict Label Rat)) (k : Label) :
    ODict.get? (N.foldl (rowStep f skip) adj) k
      = if k ∈ okeys N ∧ k ≠ skip then some (f k ((ODict.get? adj k).getD [])) else ODict.get? adj k := by
  induction N generalizing adj with
  | nil => simp [okeys]
  | cons p rest ih =>
    simp only [okeys, List.map_cons, List.nodup_cons] at hN
    simp only [List.foldl_cons]
    rw [ih hN.2]
    have hstep : ∀ k', ODict.get? (rowStep f skip adj p) k'
        = if p.1 = skip then ODict.get? adj k' else if p.1 = k' then some (f p.1 ((ODict.get? adj p.1).getD [])) else ODict.get? adj k' := by
      intro k'
      unfold rowStep
      by_cases hp : p.1 = skip
      · simp only [hp, if_true]
      · simp only [hp, if_false]; exact get?_set_cases _ _ _ _
    by_cases hk : k = p.1
    · rw [hk]
      have hnr : p.1 ∉ okeys rest := hN.1
      have hin : p.1 ∈ okeys (p :: rest) := by simp [okeys]
      rw [if_neg (fun h => hnr h.1), hstep]
      by_cases hs : p.1 = skip
      · simp [hs]
      · simp [hs, hin]
    · have hk' : ¬ p.1 = k := fun e => hk e.symm
      have hmem : (k ∈ okeys (p :: rest)) ↔ k ∈ okeys rest := by simp [okeys, hk]
      simp only [hmem]
      rw [hstep]
      by_cases hs : p.1 = skip
      · simp only [hs, if_true]
      · simp only [hs, if_false, hk']

theorem look_none_of_not_key (m : LBqm Rat) (a b : Label) (nu : ODict Label Rat) (h : ODict.get? m.adj a = some nu) (hb : b ∉ okeys nu) :
    m.look a b = none := by
  rw [look_of_get? m a nu h]; exact get?_none_of_not_mem nu b hb

theorem GInv.removeVariable {m : LBqm Rat} (g : GInv m) (v : Label) :
    GInv (match m.removeVariable v with | .ok m' => m' | .error _ => m) := by
  unfold LBqm.removeVariable
  cases hv : ODict.get? m.adj v with
  | none => exact g
  | some nv =>
    simp only []
    have hstep : (fun (adj : ODict Label (ODict Label Rat)) (p : Label × Rat) =>
        if p.1 = v then adj else ODict.set adj p.1 (ODict.pop ((ODict.get? adj p.1).getD []) v))
        = rowStep (fun _ row => ODict.pop row v) v := rfl
    rw [hstep]
    have hnvn := (g.s.rows v nv hv).1
    have hget : ∀ k, ODict.get? (nv.foldl (rowStep (fun _ row => ODict.pop row v) v) (ODict.pop m.adj v)) k
        = if k = v then none else (ODict.get? m.adj k).map fun row => if k ∈ okeys nv then ODict.pop row v else row := by
      intro k
      rw [foldl_rowStep_get? _ _ nv hnvn, get?_pop _ g.s.nodup]
      by_cases hk : k = v
      · subst hk; simp
      · have hk' : ¬ v = k := fun e => hk e.symm
        simp only [hk, hk', if_false, ne_eq, not_false_eq_true, and_true]
        by_cases hm : k ∈ okeys nv
        · simp only [hm, if_true]
          have h1 : (m.look v k).isSome := by rw [look_of_get? m v nv hv]; exact (isSome_get?_iff _ _).mpr hm
          rw [g.sym v k] at h1
          unfold look at h1
          cases hg : ODict.get? m.adj k with
          | none => rw [hg] at h1; simp at h1
          | some r => simp
        · simp only [hm, if_false]
          cases ODict.get? m.adj k <;> simp
    have hl : ∀ a b, look { m with adj := nv.foldl (rowStep (fun _ row => ODict.pop row v) v) (ODict.pop m.adj v) } a b
        = if a = v ∨ b = v then none else m.look a b := by
      intro a b
      unfold look
      simp only []
      rw [hget]
      by_cases ha : a = v
      · simp [ha]
      · simp only [ha, if_false, false_or]
        cases hga : ODict.get? m.adj a with
        | none => simp
        | some ra =>
          simp only [Option.map_some, Option.bind_some]
          have hra := (g.s.rows a ra hga).1
          by_cases hm : a ∈ okeys nv
          · simp only [hm, if_true]
            rw [get?_pop _ hra]
            by_cases hb : b = v
            · simp [hb]
            · have hb' : ¬ v = b := fun e => hb e.symm
              simp [hb, hb']
          · simp only [hm, if_false]
            by_cases hb : b = v
            · subst hb
              simp only [if_true]
              have h1 : m.look a b = none := by
                rw [g.sym a b]; exact look_none_of_not_key m b a nv hv hm
              rw [look_of_get? m a ra hga] at h1
              exact h1
            · simp [hb]
    refine ⟨⟨foldl_rowStep_nodup _ _ _ _ (okeys_pop_nodup _ g.s.nodup v), ?_⟩, ?_⟩
    · intro u nu' hu
      simp only [] at hu
      rw [hget] at hu
      by_cases huv : u = v
      · simp [huv] at hu
      · simp only [huv, if_false] at hu
        cases hgu : ODict.get? m.adj u with
        | none => rw [hgu] at hu; simp at hu
        | some ru =>
          rw [hgu] at hu
          simp only [Option.map_some, Option.some.injEq] at hu
          have r := g.s.rows u ru hgu
          by_cases hm : u ∈ okeys nv
          · simp only [hm, if_true] at hu
            subst hu
            exact ⟨okeys_pop_nodup _ r.1 v, (mem_okeys_pop _ r.1 _ _).mpr ⟨huv, r.2⟩⟩
          · simp only [hm, if_false] at hu
            subst hu; exact r
    · intro a b
      rw [hl, hl, g.sym a b]
      by_cases x : a = v <;> by_cases y : b = v <;> simp [x, y]

/-! ### `relabel_variables`: the loop that moves the interactions of `old` over to `new` -/

/-- what `_adj[a][b]` is while the loop runs, `D` = the neighbours already moved -/
def relF (m : LBqm Rat) (old new : Label) (b0 : Rat) (D : List Label) (a b : Label) : Option Rat :=
  if a = new then (if b = new then some b0 else if b ∈ D then m.look old b else none)
  else if b = new then (if a ∈ D then m.look a old else none)
  else if a ∈ D ∧ b = old then none
  else m.look a b

structure RI (m : LBqm Rat) (old new : Label) (b0 : Rat) (D : List Label) (adj : ODict Label (ODict Label Rat)) : Prop where
  s : SInv { m with adj := adj }
  lk : ∀ a b, look { m with adj := adj } a b = relF m old new b0 D a b

theorem get?_of_look_some (m : LBqm Rat) (a b : Label) (h : (m.look a b).isSome) : ∃ nu, ODict.get? m.adj a = some nu := by
  unfold look at h
  cases hg : ODict.get? m.adj a with
  | none => rw [hg] at h; simp at h
  | some r => exact ⟨r, rfl⟩

theorem RI.step {m : LBqm Rat} (g : GInv m) {old new : Label} {b0 : Rat} {D : List Label} {adj : ODict Label (ODict Label Rat)}
    (r : RI m old new b0 D adj) (hon : old ≠ new) (p : Label × Rat) (hpD : p.1 ∉ D) (hpn : p.1 ≠ new) (hpo : p.1 ≠ old)
    (hp : m.look old p.1 = some p.2) (hself : (m.look p.1 p.1).isSome) :
    RI m old new b0 (p.1 :: D) (relabelMove old new adj p) := by
  have hno : new ≠ old := fun e => hon e.symm
  have hnp : new ≠ p.1 := fun e => hpn e.symm
  have hop : old ≠ p.1 := fun e => hpo e.symm
  -- the two rows involved
  have hlpp : (look { m with adj := adj } p.1 p.1).isSome := by
    rw [r.lk]; unfold relF; simp only [hpn, if_false, hpD, false_and, hself]
  obtain ⟨nv, hnv⟩ := get?_of_look_some { m with adj := adj } p.1 p.1 hlpp
  have hlnn : (look { m with adj := adj } new new).isSome := by
    rw [r.lk]; unfold relF; simp
  obtain ⟨rn, hrn⟩ := get?_of_look_some { m with adj := adj } new new hlnn
  have hnv' : ODict.get? adj p.1 = some nv := hnv
  have hrn' : ODict.get? adj new = some rn := hrn
  have rowp := r.s.rows p.1 nv hnv
  have rown := r.s.rows new rn hrn
  -- the value moved
  have hx : (ODict.get? nv old).getD p.2 = p.2 := by
    have h1 : look { m with adj := adj } p.1 old = ODict.get? nv old := look_of_get? _ _ _ hnv _
    rw [← h1, r.lk]; unfold relF
    simp only [hpn, hon, if_false, hpD, false_and]
    rw [← g.sym old p.1, hp]; rfl
  have hg1 : ODict.get? (ODict.set adj new (ODict.set rn p.1 p.2)) p.1 = some nv := by
    rw [get?_set_ne _ _ _ _ hnp]; exact hnv'
  have hmv : relabelMove old new adj p = (adj.set new (rn.set p.1 p.2)).set p.1 ((nv.pop old).set new p.2) := by
    unfold relabelMove
    simp only [hnv', hrn', Option.getD_some, hx, hg1]
  rw [hmv]
  have s1 : SInv { m with adj := adj.set new (rn.set p.1 p.2) } :=
    SInv.setRow r.s new _ (okeys_set_nodup _ rown.1 _ _) ((mem_okeys_set _ _ _ _).mpr (Or.inr rown.2))
  have s2 := SInv.setRow s1 p.1 ((nv.pop old).set new p.2) (okeys_set_nodup _ (okeys_pop_nodup _ rowp.1 old) _ _)
    ((mem_okeys_set _ _ _ _).mpr (Or.inr ((mem_okeys_pop _ rowp.1 _ _).mpr ⟨hpo, rowp.2⟩)))
  refine ⟨s2, ?_⟩
  intro a b
  have e1 := look_setRow { m with adj := adj.set new (rn.set p.1 p.2) } p.1 ((nv.pop old).set new p.2) a b
  simp only [] at e1
  have e2 := look_setRow { m with adj := adj } new (rn.set p.1 p.2) a b
  simp only [] at e2
  rw [e1, e2, get?_set_cases, get?_set_cases, get?_pop _ rowp.1]
  have hl1 : ODict.get? nv b = relF m old new b0 D p.1 b := by
    rw [← r.lk]; exact (look_of_get? { m with adj := adj } p.1 nv hnv b).symm
  have hl2 : ODict.get? rn b = relF m old new b0 D new b := by
    rw [← r.lk]; exact (look_of_get? { m with adj := adj } new rn hrn b).symm
  rw [hl1, hl2, r.lk]
  have hp' : m.look p.1 old = some p.2 := by rw [← g.sym old p.1]; exact hp
  unfold relF
  by_cases a1 : a = p.1
  · subst a1
    by_cases b1 : b = new
    · subst b1; simp [hpn, hp']
    · have b1' : ¬ new = b := fun e => b1 e.symm
      by_cases b2 : b = old
      · subst b2; simp [hpn, b1, b1', hon]
      · have b2' : ¬ old = b := fun e => b2 e.symm
        simp [hpn, b1, b1', b2, b2', hpD]
  · by_cases a2 : a = new
    · subst a2
      by_cases b1 : b = p.1
      · subst b1; simp [a1, hpn, hp]
      · have b1' : ¬ p.1 = b := fun e => b1 e.symm
        simp [a1, b1, b1']
    · simp [a1, a2]

theorem RI.fold {m : LBqm Rat} (g : GInv m) {old new : Label} {b0 : Rat} (hon : old ≠ new) (N : ODict Label Rat) :
    ∀ (D : List Label) (adj : ODict Label (ODict Label Rat)), RI m old new b0 D adj → (okeys N).Nodup →
      (∀ p ∈ N, p.1 ∉ D ∧ p.1 ≠ new ∧ p.1 ≠ old ∧ m.look old p.1 = some p.2 ∧ (m.look p.1 p.1).isSome) →
      ∃ D', RI m old new b0 D' (N.foldl (relabelMove old new) adj) ∧ ∀ x, x ∈ D' ↔ x ∈ D ∨ x ∈ okeys N := by
  induction N with
  | nil => intro D adj r _ _; exact ⟨D, r, fun x => by simp [okeys]⟩
  | cons p rest ih =>
    intro D adj r hnd hall
    simp only [okeys, List.map_cons, List.nodup_cons] at hnd
    obtain ⟨h1, h2, h3, h4, h5⟩ := hall p List.mem_cons_self
    have r' := r.step g hon p h1 h2 h3 h4 h5
    have hall' : ∀ q ∈ rest, q.1 ∉ (p.1 :: D) ∧ q.1 ≠ new ∧ q.1 ≠ old ∧ m.look old q.1 = some q.2 ∧ (m.look q.1 q.1).isSome := by
      intro q hq
      obtain ⟨k1, k2, k3, k4, k5⟩ := hall q (List.mem_cons_of_mem _ hq)
      refine ⟨?_, k2, k3, k4, k5⟩
      intro hmem
      rcases List.mem_cons.mp hmem with e | e
      · exact hnd.1 (e ▸ List.mem_map.mpr ⟨q, hq, rfl⟩)
      · exact k1 e
    obtain ⟨D', rD, hD⟩ := ih (p.1 :: D) _ r' hnd.2 hall'
    refine ⟨D', rD, fun x => ?_⟩
    rw [hD x]
    simp only [okeys, List.map_cons, List.mem_cons]
    tauto

theorem GInv.relabelOne {m : LBqm Rat} (g : GInv m) (old new : Label) (hnew : new ∉ okeys m.adj) : GInv (m.relabelOne old new) := by
  unfold LBqm.relabelOne
  by_cases hon : old = new
  · rw [if_pos hon]; exact g
  · rw [if_neg hon]
    cases hold : ODict.get? m.adj old with
    | none => exact g
    | some nold =>
      simp only []
      have rold := g.s.rows old nold hold
      obtain ⟨b0, hb0⟩ := Option.isSome_iff_exists.mp ((isSome_get?_iff _ _).mpr rold.2)
      rw [hb0]
      simp only []
      have hnewnone : ODict.get? m.adj new = none := get?_none_of_not_mem _ _ hnew
      have hlooknew : ∀ a, m.look a new = none := by
        intro a; rw [g.sym a new]; unfold look; rw [hnewnone]; rfl
      have hno : new ≠ old := fun e => hon e.symm
      -- before the loop
      have r0 : RI m old new b0 [] (m.adj.set new [(new, b0)]) := by
        refine ⟨SInv.setRow g.s new _ (by simp [okeys]) (by simp [okeys]), ?_⟩
        intro a b
        have e := look_setRow m new [(new, b0)] a b
        rw [e]; unfold relF
        by_cases a1 : a = new
        · by_cases b1 : b = new
          · simp [a1, b1, ODict.get?]
          · have : ¬ new = b := fun e => b1 e.symm
            simp [a1, b1, ODict.get?, this]
        · by_cases b1 : b = new
          · simp [a1, b1, hlooknew]
          · simp [a1, b1]
      -- the neighbours of `old`
      have hNnd : (okeys (nold.pop old)).Nodup := okeys_pop_nodup _ rold.1 old
      have hall : ∀ p ∈ nold.pop old, p.1 ∉ ([] : List Label) ∧ p.1 ≠ new ∧ p.1 ≠ old ∧ m.look old p.1 = some p.2 ∧ (m.look p.1 p.1).isSome := by
        intro p hp
        have hk : p.1 ∈ okeys (nold.pop old) := List.mem_map.mpr ⟨p, hp, rfl⟩
        have hk' := (mem_okeys_pop _ rold.1 _ _).mp hk
        have hget : ODict.get? (nold.pop old) p.1 = some p.2 := get?_of_mem _ hNnd p.1 p.2 hp
        rw [get?_pop _ rold.1] at hget
        have hop : ¬ old = p.1 := fun e => hk'.1 e.symm
        simp only [hop, if_false] at hget
        have hl : m.look old p.1 = some p.2 := by rw [look_of_get? m old nold hold]; exact hget
        have hpk : ∃ np, ODict.get? m.adj p.1 = some np := by
          have : (m.look p.1 old).isSome := by rw [← g.sym old p.1, hl]; rfl
          exact get?_of_look_some m p.1 old this
        obtain ⟨np, hnp⟩ := hpk
        refine ⟨by simp, ?_, hk'.1, hl, ?_⟩
        · intro e
          exact hnew (e ▸ mem_keys_of_get? _ _ _ hnp)
        · rw [look_of_get? m p.1 np hnp]; exact (isSome_get?_iff _ _).mpr (g.s.rows p.1 np hnp).2
      obtain ⟨D, rD, hD⟩ := RI.fold g hon (nold.pop old) [] _ r0 hNnd hall
      have hDk : ∀ x, x ∈ D ↔ x ≠ old ∧ x ∈ okeys nold := by
        intro x; rw [hD x, mem_okeys_pop _ rold.1]; simp
      generalize (List.foldl (relabelMove old new) (ODict.set m.adj new [(new, b0)]) (ODict.pop nold old)) = res at rD
      have hres := rD.s
      refine ⟨⟨okeys_pop_nodup _ hres.nodup old, ?_⟩, ?_⟩
      · intro u nu hu
        simp only [] at hu
        rw [get?_pop _ hres.nodup] at hu
        by_cases h : old = u
        · simp [h] at hu
        · simp only [h, if_false] at hu
          exact hres.rows u nu hu
      · have hl : ∀ a b, look { m with adj := ODict.pop res old } a b = if a = old then none else relF m old new b0 D a b := by
          intro a b
          rw [← rD.lk]
          unfold look
          simp only []
          rw [get?_pop _ hres.nodup]
          by_cases h : old = a
          · subst h; simp
          · have : ¬ a = old := fun e => h e.symm
            simp [h, this]
        intro a b
        rw [hl, hl]
        have oldD : old ∉ D := fun h => ((hDk old).mp h).1 rfl
        have hnotD : ∀ x, x ∉ D → x ≠ old → m.look old x = none := by
          intro x hx hxo
          rw [look_of_get? m old nold hold]
          apply get?_none_of_not_mem
          intro hm; exact hx ((hDk x).mpr ⟨hxo, hm⟩)
        have F12 : ∀ x, x ≠ old → relF m old new b0 D x old = none := by
          intro x hx
          unfold relF
          by_cases x1 : x = new
          · simp [x1, hon, oldD]
          · by_cases x2 : x ∈ D
            · simp [x1, hon, x2]
            · simp only [x1, if_false, hon, x2, false_and]
              rw [g.sym x old]; exact hnotD x x2 hx
        have F3 : ∀ x y, x ≠ old → y ≠ old → relF m old new b0 D x y = relF m old new b0 D y x := by
          intro x y hx hy
          unfold relF
          by_cases x1 : x = new <;> by_cases y1 : y = new
          · simp [x1, y1]
          · simp [x1, y1, g.sym old y]
          · simp [x1, y1, g.sym old x]
          · simp [x1, y1, hx, hy, g.sym x y]
        by_cases a0 : a = old
        · by_cases b0' : b = old
          · simp [a0, b0']
          · rw [if_pos a0, if_neg b0', a0, F12 b b0']
        · by_cases b0' : b = old
          · rw [if_neg a0, if_pos b0', b0', F12 a a0]
          · rw [if_neg a0, if_neg b0', F3 a b a0 b0']

/-! ### histories -/

theorem GInv.hstep {m : LBqm Rat} (g : GInv m) (op : HOp Rat) : GInv (m.hstep op) := by
  cases op with
  | addLinear v b => exact g.addLinear v b
  | setLinear v b => exact g.setLinear v b
  | addQuadratic u v b => exact g.addQuadratic u v b
  | setQuadratic u v b => exact g.setQuadratic u v b
  | removeInteraction u v => exact g.removeInteraction u v
  | removeVariable v => exact g.removeVariable v
  | relabel old new =>
    unfold LBqm.hstep
    by_cases h : m.adj.contains new = true
    · simp only [h, if_true]; exact g
    · simp only [h, Bool.false_eq_true, if_false]
      apply g.relabelOne old new
      intro hm
      exact h ((isSome_get?_iff _ _).mpr hm)
  | setOffset b => exact g.setOffset b
  | changeVartype vt => exact g.changeVartype _ _ vt

theorem GInv.foldl {m : LBqm Rat} (g : GInv m) (ops : List (HOp Rat)) : GInv (ops.foldl LBqm.hstep m) := by
  induction ops generalizing m with
  | nil => exact g
  | cons op rest ih => exact ih (g.hstep op)

/-- every state a history of data-level calls reaches from the empty model satisfies the representation invariant -/
theorem GInv.hrun (vt : VT) (ops : List (HOp Rat)) : GInv (LBqm.hrun vt ops) := (GInv.empty vt).foldl ops

/-! ### `evalL` is the polynomial of the coefficients the dict back-end reports

`linear[v]` is `_adj[v][v]`; `iter_quadratic()` walks the neighbourhoods in order and yields `(u, v, bias)` for every `v` not
seen before (`LBqm.iterQuadratic`): each interaction once, from its first endpoint in insertion order. -/

/-- what the model reports, evaluated -/
def repEval (m : LBqm Rat) (x : Label → Rat) : Rat :=
  m.off + (m.adj.map fun r => lbias r.1 r.2 * x r.1).sum + (m.iterQuadratic.map fun t => t.2.2 * x t.1 * x t.2.1).sum

/-- sum over the later elements of a list -/
def upper (f : Label → Label → Rat) : List Label → Rat
  | [] => 0
  | a :: t => (t.map fun v => f a v).sum + upper f t

theorem upper_eq_half (f : Label → Label → Rat) (hf : ∀ a b, f a b = f b a) (K : List Label) (hK : K.Nodup) :
    (K.map fun u => (K.map fun v => if v = u then 0 else f u v).sum).sum = 2 * upper f K := by
  induction K with
  | nil => simp [upper]
  | cons a t ih =>
    rw [List.nodup_cons] at hK
    have h1 : ((a :: t).map fun v => if v = a then 0 else f a v).sum = (t.map fun v => f a v).sum := by
      simp only [List.map_cons, List.sum_cons, if_true, zero_add]
      congr 1
      apply List.map_congr_left
      intro v hv
      have : v ≠ a := fun e => hK.1 (e ▸ hv)
      simp [this]
    have h2 : (t.map fun u => (if a = u then 0 else f u a) + (t.map fun v => if v = u then 0 else f u v).sum)
        = t.map fun u => f a u + (t.map fun v => if v = u then 0 else f u v).sum := by
      apply List.map_congr_left
      intro u hu
      have : a ≠ u := fun e => hK.1 (e ▸ hu)
      simp only [this, if_false]
      rw [hf u a]
    simp only [List.map_cons, List.sum_cons]
    simp only [List.map_cons, List.sum_cons] at h1
    rw [h1, h2, sum_map_add', ih hK.2]
    simp only [upper]; ring

theorem sum_filter_ite' {α : Type} (l : List α) (q : α → Bool) (g : α → Rat) :
    ((l.filter q).map g).sum = (l.map fun p => if q p then g p else 0).sum := by
  induction l with
  | nil => rfl
  | cons e t ih =>
    rw [List.filter_cons]
    by_cases h : q e = true
    · simp only [h, if_true, List.map_cons, List.sum_cons, ih]
    · simp only [h, Bool.false_eq_true, if_false, List.map_cons, List.sum_cons, ih]; ring

/-- one neighbourhood, restricted to the variables not in `S`, as a sum over all variables -/
theorem row_unseen_over_keys (m : LBqm Rat) (i : LInv m) (u : Label) (nu : ODict Label Rat) (h : (u, nu) ∈ m.adj) (S : List Label)
    (x : Label → Rat) :
    ((nu.filter fun p => !S.contains p.1).map fun p => p.2 * x u * x p.1).sum
      = ((okeys m.adj).map fun v => if v ∈ S then 0 else m.entry u v * x u * x v).sum := by
  rw [sum_filter_ite' nu (fun p => !S.contains p.1) (fun p => p.2 * x u * x p.1)]
  have := sum_row_over_keys nu (i.rowNodup u nu h) (okeys m.adj) i.nodup (i.closed u nu h)
    (fun v b => if (!S.contains v) = true then b * x u * x v else 0)
  rw [this]
  congr 1
  apply List.map_congr_left
  intro v _
  rw [entry_of_mem m i.nodup u nu h v]
  by_cases hv : v ∈ S
  · cases hg : ODict.get? nu v <;> simp [hv]
  · cases hg : ODict.get? nu v <;> simp [hv]

theorem sum_map_all_zero {α : Type} (l : List α) (g : α → Rat) (h : ∀ a ∈ l, g a = 0) : (l.map g).sum = 0 := by
  induction l with
  | nil => rfl
  | cons a t ih =>
    simp only [List.map_cons, List.sum_cons]
    rw [h a List.mem_cons_self, ih (fun b hb => h b (List.mem_cons_of_mem _ hb))]; ring

/-- the walk of `iter_quadratic` over a suffix of the rows, `seen` = the variables of the prefix -/
theorem go_sum (m : LBqm Rat) (i : LInv m) (x : Label → Rat) :
    ∀ (suf pre : List (Label × ODict Label Rat)) (seen : List Label), m.adj = pre ++ suf → (∀ v, v ∈ seen ↔ v ∈ okeys pre) →
      ((iterQuadratic.go suf seen).map fun t => t.2.2 * x t.1 * x t.2.1).sum
        = upper (fun u v => m.entry u v * x u * x v) (okeys suf) := by
  intro suf
  induction suf with
  | nil => intro pre seen _ _; simp [iterQuadratic.go, upper, okeys]
  | cons r rest ih =>
    intro pre seen hadj hseen
    obtain ⟨u, nu⟩ := r
    have hmem : (u, nu) ∈ m.adj := by rw [hadj]; simp
    have hK : okeys m.adj = okeys pre ++ u :: okeys rest := by rw [hadj]; simp [okeys]
    have hnd := i.nodup
    rw [hK] at hnd
    simp only [iterQuadratic.go, List.map_append, List.sum_append, List.map_map]
    have hfirst : ((nu.filter fun p => !(u :: seen).contains p.1).map
          ((fun t : Label × Label × Rat => t.2.2 * x t.1 * x t.2.1) ∘ fun p => (u, p.1, p.2))).sum
        = ((okeys rest).map fun v => m.entry u v * x u * x v).sum := by
      have e0 : ((fun t : Label × Label × Rat => t.2.2 * x t.1 * x t.2.1) ∘ fun p : Label × Rat => (u, p.1, p.2))
          = fun p => p.2 * x u * x p.1 := rfl
      rw [e0, row_unseen_over_keys m i u nu hmem (u :: seen) x, hK, List.map_append, List.sum_append, List.map_cons, List.sum_cons]
      have z1 : ((okeys pre).map fun v => if v ∈ u :: seen then 0 else m.entry u v * x u * x v).sum = 0 := by
        apply sum_map_all_zero
        intro v hv
        have : v ∈ u :: seen := List.mem_cons_of_mem _ ((hseen v).mpr hv)
        simp [this]
      have z2 : (if u ∈ u :: seen then 0 else m.entry u u * x u * x u) = 0 := by simp
      rw [z1, z2]
      simp only [zero_add]
      congr 1
      apply List.map_congr_left
      intro v hv
      have hv1 : v ≠ u := by
        intro e; subst e
        have := (List.nodup_append.mp hnd).2.1
        exact (List.nodup_cons.mp this).1 hv
      have hv2 : v ∉ seen := by
        intro hs
        have hp := (hseen v).mp hs
        exact (List.nodup_append.mp hnd).2.2 v hp v (List.mem_cons_of_mem _ hv) rfl
      have : v ∉ u :: seen := by
        intro h; rcases List.mem_cons.mp h with e | e
        · exact hv1 e
        · exact hv2 e
      simp [this]
    rw [hfirst]
    have hrest := ih (pre ++ [(u, nu)]) (u :: seen) (by rw [hadj]; simp) (by
      intro v
      simp only [okeys, List.map_append, List.map_cons, List.map_nil, List.mem_append, List.mem_cons, List.mem_singleton, List.not_mem_nil, or_false]
      have := hseen v
      simp only [okeys] at this
      rw [this]; tauto)
    rw [hrest]
    simp [upper, okeys]

/-- **the dict model's polynomial is the polynomial of the reported coefficients** (offset, `_adj[v][v]` per variable, each
    interaction once as `iter_quadratic` yields it) on every state satisfying the invariant -/
theorem evalL_eq_repEval (m : LBqm Rat) (i : LInv m) (x : Label → Rat) : evalL (1/2) m x = repEval m x := by
  unfold evalL repEval
  have hrows : (m.adj.map fun r => rowVal (1/2) x r.1 r.2)
      = m.adj.map fun r => lbias r.1 r.2 * x r.1
        + 1/2 * ((okeys m.adj).map fun v => if v = r.1 then 0 else (fun a b => m.entry a b * x a * x b) r.1 v).sum := by
    apply List.map_congr_left
    intro r hr
    obtain ⟨b, hb⟩ := i.self r.1 r.2 hr
    have hl : lbias r.1 r.2 = b := by unfold lbias; rw [hb]; rfl
    rw [rowVal_split x r.1 r.2 (i.rowNodup r.1 r.2 hr) b hb, hl]
    congr 1
    have e1 : ((others r.1 r.2).map fun p => 1/2 * p.2 * x r.1 * x p.1)
        = (others r.1 r.2).map fun p => 1/2 * (p.2 * (fun v => x r.1 * x v) p.1) := by
      apply List.map_congr_left; intro p _; ring
    rw [e1, sum_map_mul_left', others_over_keys m i r.1 r.2 hr (fun v => x r.1 * x v)]
    congr 2
    apply List.map_congr_left
    intro v _
    by_cases hv : v = r.1 <;> simp [hv]; ring
  rw [hrows, sum_map_add', sum_map_mul_left']
  have e2 : (m.adj.map fun r => ((okeys m.adj).map fun v => if v = r.1 then 0 else (fun a b => m.entry a b * x a * x b) r.1 v).sum)
      = (okeys m.adj).map fun u => ((okeys m.adj).map fun v => if v = u then 0 else (fun a b => m.entry a b * x a * x b) u v).sum := by
    unfold okeys; rw [List.map_map]; rfl
  rw [e2, upper_eq_half (fun a b => m.entry a b * x a * x b) (fun a b => by show m.entry a b * x a * x b = m.entry b a * x b * x a; rw [i.sym a b]; ring) (okeys m.adj) i.nodup]
  have hg := go_sum m i x m.adj [] [] (by simp) (by intro v; simp [okeys])
  unfold iterQuadratic
  rw [hg]; ring

/-! ### calls through `.spin` / `.binary` views keep the invariant (they are compositions of the data-level calls) -/

theorem GInv.addQuadratic_ok {m m' : LBqm Rat} (g : GInv m) (u v : Label) (b : Rat) (h : m.addQuadratic u v b = .ok m') : GInv m' := by
  have := g.addQuadratic u v b; rw [h] at this; exact this

theorem GInv.removeInteraction_ok {m m' : LBqm Rat} (g : GInv m) (u v : Label) (h : m.removeInteraction u v = .ok m') : GInv m' := by
  have := g.removeInteraction u v; rw [h] at this; exact this

theorem GInv.removeVariable_ok {m m' : LBqm Rat} (g : GInv m) (v : Label) (h : m.removeVariable v = .ok m') : GInv m' := by
  have := g.removeVariable v; rw [h] at this; exact this

theorem GInv.vAddLinear {m : LBqm Rat} (g : GInv m) (T : ViewTables Rat) (view : VT) (v : Label) (b : Rat) :
    GInv (View.addLinear T view m v b) := by
  unfold View.addLinear
  by_cases h : view = m.vt
  · rw [if_pos h]; exact g.addLinear v b
  · rw [if_neg h]; exact (g.addLinear v _).setOffset _

theorem GInv.vAddVariable {m : LBqm Rat} (g : GInv m) (T : ViewTables Rat) (view : VT) (v : Label) (b : Rat) :
    GInv (View.addVariable T view m v b) := by
  unfold View.addVariable LBqm.addVariable
  exact (g.addLinear v 0).vAddLinear T view v b

theorem GInv.vAddQuadratic_ok {m m' : LBqm Rat} (g : GInv m) (T : ViewTables Rat) (view : VT) (u v : Label) (b : Rat)
    (h : View.addQuadratic T view m u v b = .ok m') : GInv m' := by
  unfold View.addQuadratic at h
  by_cases hv : view = m.vt
  · rw [if_pos hv] at h; exact g.addQuadratic_ok u v b h
  · rw [if_neg hv] at h
    dsimp only at h
    cases hq : m.addQuadratic u v ((View.tbl T view).addQuadQuad * b) with
    | error e => rw [hq] at h; cases h
    | ok d1 =>
      rw [hq] at h
      have g1 := g.addQuadratic_ok u v _ hq
      simp only [bind, Except.bind, pure, Except.pure] at h
      cases h
      exact (((g1.addLinear u _).addLinear v _).setOffset _)

theorem GInv.vSetLinear_ok {m m' : LBqm Rat} (g : GInv m) (T : ViewTables Rat) (view : VT) (v : Label) (b : Rat)
    (h : View.setLinear T view m v b = .ok m') : GInv m' := by
  unfold View.setLinear at h
  by_cases hv : view = m.vt
  · rw [if_pos hv] at h; cases h; exact g.setLinear v b
  · rw [if_neg hv] at h
    dsimp only at h
    cases hq : View.getLinear T view (View.addLinear T view m v 0) v with
    | error e => rw [hq] at h; cases h
    | ok cur =>
      rw [hq] at h
      simp only [bind, Except.bind, pure, Except.pure] at h
      cases h
      exact (g.vAddLinear T view v 0).vAddLinear T view v _

theorem GInv.vSetQuadratic {m : LBqm Rat} (g : GInv m) (T : ViewTables Rat) (view : VT) (u v : Label) (b : Rat) :
    GInv (View.setQuadratic T view m u v b).1 := by
  unfold View.setQuadratic
  dsimp only
  have g2 := (g.vAddVariable T view u 0).vAddVariable T view v 0
  generalize View.addVariable T view (View.addVariable T view m u 0) v 0 = d at g2 ⊢
  try dsimp only
  cases h1 : View.addQuadratic T view d u v 0 with
  | error e => exact g2
  | ok d1 =>
    have g3 := g2.vAddQuadratic_ok T view u v 0 h1
    try dsimp only
    cases h2 : View.getQuadratic T view d1 u v with
    | error e => exact g3
    | ok cur =>
      try dsimp only
      cases h3 : View.addQuadratic T view d1 u v (b - cur) with
      | error e => exact g3
      | ok d2 => exact g3.vAddQuadratic_ok T view u v _ h3

theorem GInv.vRemoveInteraction {m : LBqm Rat} (g : GInv m) (T : ViewTables Rat) (view : VT) (u v : Label) :
    GInv (View.removeInteraction T view m u v).1 := by
  unfold View.removeInteraction
  by_cases hv : view = m.vt
  · rw [if_pos hv]
    cases h : m.removeInteraction u v with
    | error e => exact g
    | ok d' => exact g.removeInteraction_ok u v h
  · rw [if_neg hv]
    cases h1 : View.getQuadratic T view m u v with
    | error e => exact g
    | ok q =>
      try dsimp only
      have g1 := g.vSetQuadratic T view u v 0
      cases h2 : View.setQuadratic T view m u v 0 with
      | mk d1 e =>
        rw [h2] at g1
        cases e with
        | some e => exact g1
        | none =>
          try dsimp only
          cases h3 : d1.removeInteraction u v with
          | error e => exact g1
          | ok d2 => exact GInv.removeInteraction_ok g1 u v h3

theorem GInv.foldl_vSetQuadratic {m : LBqm Rat} (g : GInv m) (T : ViewTables Rat) (view : VT) (v : Label) (nb : List (Label × Rat)) :
    GInv (nb.foldl (fun d p => (View.setQuadratic T view d p.1 v 0).1) m) := by
  induction nb generalizing m with
  | nil => exact g
  | cons p rest ih => exact ih (g.vSetQuadratic T view p.1 v 0)

theorem GInv.vRemoveVariable {m : LBqm Rat} (g : GInv m) (T : ViewTables Rat) (view : VT) (v : Label) :
    GInv (View.removeVariable T view m v).1 := by
  unfold View.removeVariable
  by_cases hv : view = m.vt
  · rw [if_pos hv]
    cases h : m.removeVariable v with
    | error e => exact g
    | ok d' => exact g.removeVariable_ok v h
  · rw [if_neg hv]
    cases h1 : m.neighborhood v with
    | error e => exact g
    | ok nb =>
      try dsimp only
      have g1 := g.foldl_vSetQuadratic T view v nb
      generalize nb.foldl (fun d p => (View.setQuadratic T view d p.1 v 0).1) m = d1 at g1 ⊢
      cases h2 : View.setLinear T view d1 v 0 with
      | error e => exact g1
      | ok d2 =>
        have g2 := g1.vSetLinear_ok T view v 0 h2
        try dsimp only
        cases h3 : d2.removeVariable v with
        | error e => exact g2
        | ok d3 => exact g2.removeVariable_ok v h3

theorem GInv.vSetOffset_ok {m m' : LBqm Rat} (g : GInv m) (T : ViewTables Rat) (view : VT) (b : Rat)
    (h : View.setOffset T view m b = .ok m') : GInv m' := by
  unfold View.setOffset at h
  by_cases hv : view = m.vt
  · rw [if_pos hv] at h; cases h; exact g.setOffset b
  · rw [if_neg hv] at h; cases h; exact g.setOffset _

theorem GInv.vstep {m : LBqm Rat} (g : GInv m) (c : VT × VOp Rat) : GInv (m.vstep c) := by
  obtain ⟨view, op⟩ := c
  unfold LBqm.vstep
  cases op with
  | addLinear v b => exact g.vAddLinear _ view v b
  | setLinear v b =>
    try dsimp only
    cases h : View.setLinear viewTables view m v b with
    | error e => exact g
    | ok m' => exact g.vSetLinear_ok _ view v b h
  | addVariable v b => exact g.vAddVariable _ view v b
  | addQuadratic u v b =>
    try dsimp only
    cases h : View.addQuadratic viewTables view m u v b with
    | error e => exact g
    | ok m' => exact g.vAddQuadratic_ok _ view u v b h
  | setQuadratic u v b => exact g.vSetQuadratic _ view u v b
  | removeInteraction u v => exact g.vRemoveInteraction _ view u v
  | removeVariable v => exact g.vRemoveVariable _ view v
  | setOffset b =>
    try dsimp only
    cases h : View.setOffset viewTables view m b with
    | error e => exact g
    | ok m' => exact g.vSetOffset_ok _ view b h
  | baseSetQuadratic u v b => exact g.hstep (.setQuadratic u v b)
  | relabel old new => exact g.hstep (.relabel old new)
  | changeVartype vt => exact g.hstep (.changeVartype vt)

theorem GInv.vfoldl {m : LBqm Rat} (g : GInv m) (calls : List (VT × VOp Rat)) : GInv (calls.foldl LBqm.vstep m) := by
  induction calls generalizing m with
  | nil => exact g
  | cons c rest ih => exact ih (g.vstep c)

/-- every state reached by a history of calls through the model and its `.spin` / `.binary` views satisfies the invariant -/
theorem GInv.vrun (vt : VT) (calls : List (VT × VOp Rat)) : GInv (LBqm.vrun vt calls) := (GInv.empty vt).vfoldl calls

/-! ### there and back: `change_vartype` twice restores the dict of dicts exactly -/

/-- the multipliers of `t2` undo those of `t1` -/
structure Inverse (t1 t2 : PyTable Rat) : Prop where
  quad : t2.quadMp * t1.quadMp = 1
  lin : t2.linMp * t1.linMp = 1
  linQuad : t2.linMp * t1.linQuadMp + t2.linQuadMp * t1.quadMp = 0
  off1 : t1.linOffsetMp + t2.linOffsetMp * t1.linMp = 0
  off2 : t1.quadOffsetMp + t2.linOffsetMp * t1.linQuadMp + t2.quadOffsetMp * t1.quadMp = 0

theorem pyTables_inverse : Inverse pyToBinary pyToSpin ∧ Inverse pyToSpin pyToBinary := by
  constructor <;> constructor <;> norm_num [pyToBinary, pyToSpin]

theorem lbias_cvRowF (t : PyTable Rat) (u : Label) (nu : ODict Label Rat) (b : Rat) (hb : ODict.get? nu u = some b) :
    lbias u (cvRowF t u nu) = t.linMp * b + t.linQuadMp * ((others u nu).map (·.2)).sum := by
  unfold lbias cvRowF
  rw [get?_map_vals nu (cvVal t u nu) u, hb]
  simp [cvVal, lbias, hb]

theorem others_map_vals (u : Label) (qm : Rat) (g : Label → Rat → Rat) (hg : ∀ k x, k ≠ u → g k x = qm * x) (l : ODict Label Rat) :
    ((others u (l.map fun p => (p.1, g p.1 p.2))).map (·.2)).sum = qm * ((others u l).map (·.2)).sum := by
  unfold others
  induction l with
  | nil => simp
  | cons e rest ih =>
    simp only [List.map_cons, List.filter_cons]
    by_cases h : e.1 = u
    · simp only [h, ne_eq, not_true_eq_false, decide_false, Bool.false_eq_true, if_false]
      exact ih
    · simp only [h, ne_eq, not_false_eq_true, decide_true, if_true, List.map_cons, List.sum_cons]
      rw [ih, hg e.1 e.2 h]; ring

theorem others_cvRowF (t : PyTable Rat) (u : Label) (nu : ODict Label Rat) :
    ((others u (cvRowF t u nu)).map (·.2)).sum = t.quadMp * ((others u nu).map (·.2)).sum := by
  unfold cvRowF
  exact others_map_vals u t.quadMp (cvVal t u nu) (fun k x hk => by simp [cvVal, hk]) nu

/-- one neighbourhood, converted and converted back -/
theorem cvRowF_roundtrip (t1 t2 : PyTable Rat) (hi : Inverse t1 t2) (u : Label) (nu : ODict Label Rat) (hnd : (okeys nu).Nodup)
    (b : Rat) (hb : ODict.get? nu u = some b) : cvRowF t2 u (cvRowF t1 u nu) = nu := by
  have hl := lbias_cvRowF t1 u nu b hb
  have hs := others_cvRowF t1 u nu
  have hcomp : cvRowF t2 u (cvRowF t1 u nu)
      = nu.map fun p => (p.1, cvVal t2 u (cvRowF t1 u nu) p.1 (cvVal t1 u nu p.1 p.2)) := by
    rw [show cvRowF t2 u (cvRowF t1 u nu)
        = (cvRowF t1 u nu).map (fun p => (p.1, cvVal t2 u (cvRowF t1 u nu) p.1 p.2)) from rfl]
    conv_lhs => arg 2; unfold cvRowF
    rw [List.map_map]
    rfl
  rw [hcomp]
  conv_rhs => rw [← List.map_id nu]
  apply List.map_congr_left
  intro p hp
  have hget := get?_of_mem nu hnd p.1 p.2 hp
  by_cases h : p.1 = u
  · have hpb : p.2 = b := by rw [h, hb] at hget; exact (Option.some.inj hget).symm
    simp only [id, cvVal, h, if_true, hl, hs]
    have e1 := hi.lin; have e2 := hi.linQuad
    apply Prod.ext
    · exact h.symm
    · simp only []
      rw [hpb]
      linear_combination b * e1 + ((others u nu).map (·.2)).sum * e2
  · simp only [id, cvVal, h, if_false]
    apply Prod.ext
    · rfl
    · simp only []
      linear_combination p.2 * hi.quad

theorem cvOff_roundtrip (t1 t2 : PyTable Rat) (hi : Inverse t1 t2) (u : Label) (nu : ODict Label Rat)
    (b : Rat) (hb : ODict.get? nu u = some b) : cvOff t1 (u, nu) + cvOff t2 (u, cvRowF t1 u nu) = 0 := by
  unfold cvOff
  simp only []
  rw [lbias_cvRowF t1 u nu b hb, others_cvRowF]
  have hl : lbias u nu = b := by unfold lbias; rw [hb]; rfl
  rw [hl]
  linear_combination b * hi.off1 + ((others u nu).map (·.2)).sum * hi.off2

/-- **there and back on the dict back-end**: the pass with `t1` followed by the pass with the inverse table restores `_adj`
    entry for entry, in the same insertion order, and the offset -/
theorem cv_roundtrip_core (t1 t2 : PyTable Rat) (hi : Inverse t1 t2) (m : LBqm Rat) (i : LInv m) :
    (m.adj.map (cvRow t1)).map (cvRow t2) = m.adj ∧
    m.off + (m.adj.map (cvOff t1)).sum + ((m.adj.map (cvRow t1)).map (cvOff t2)).sum = m.off := by
  constructor
  · rw [List.map_map]
    conv_rhs => rw [← List.map_id m.adj]
    apply List.map_congr_left
    intro r hr
    obtain ⟨b, hb⟩ := i.self r.1 r.2 hr
    simp only [Function.comp, id]
    rw [cvRow_eq t1 r, cvRow_eq t2]
    simp only []
    rw [cvRowF_roundtrip t1 t2 hi r.1 r.2 (i.rowNodup r.1 r.2 hr) b hb]
  · rw [List.map_map]
    have : (m.adj.map (cvOff t1)).sum + (m.adj.map (cvOff t2 ∘ cvRow t1)).sum = 0 := by
      rw [← sum_map_add']
      apply sum_map_all_zero
      intro r hr
      obtain ⟨b, hb⟩ := i.self r.1 r.2 hr
      simp only [Function.comp]
      rw [cvRow_eq t1 r]
      exact cvOff_roundtrip t1 t2 hi r.1 r.2 b hb
    linarith

/-- `change_vartype(other)` then `change_vartype(original)` gives back the same model: vartype, offset, every entry of
    `_adj` in the same insertion order -/
theorem changeVartype_roundtrip_dict (m : LBqm Rat) (i : LInv m) (other : VT) :
    (m.changeVartypeWith pyToBinary pyToSpin other).changeVartypeWith pyToBinary pyToSpin m.vt = m := by
  by_cases h : m.vt = other
  · have e1 : m.changeVartypeWith pyToBinary pyToSpin other = m := by unfold changeVartypeWith; rw [if_pos h]
    rw [e1]; unfold changeVartypeWith; rw [if_pos rfl]
  · have hne : other ≠ m.vt := fun e => h e.symm
    obtain ⟨vt, adj, off⟩ := m
    simp only [] at h hne i ⊢
    cases vt <;> cases other <;> first | exact absurd rfl h | skip
    · -- spin → binary → spin
      unfold changeVartypeWith
      simp only [reduceCtorEq, if_false, go_spec]
      obtain ⟨r1, r2⟩ := cv_roundtrip_core pyToBinary pyToSpin pyTables_inverse.1 ⟨.spin, adj, off⟩ i
      simp only [] at r1 r2
      rw [r1, r2]
    · unfold changeVartypeWith
      simp only [reduceCtorEq, if_false, go_spec]
      obtain ⟨r1, r2⟩ := cv_roundtrip_core pyToSpin pyToBinary pyTables_inverse.2 ⟨.binary, adj, off⟩ i
      simp only [] at r1 r2
      rw [r1, r2]


end LBqm

end En
