import DimodModel.EnumPost
import DimodProofs.EnumEnergy
import Mathlib.Data.List.Sort
import Mathlib.Data.List.Perm.Basic

/-! C07: result assembly and row post-processing (IdentitySampler / RandomSampler /
    SimulatedAnnealingSampler, Truncate, Structure, Tracking). -/

namespace Enum

/-! ### columns by label -/

theorem getD_map_idxOf (first : List Label) (f : Label → Rat) (v : Label) (hv : v ∈ first) :
    (first.map f).getD (first.idxOf v) 0 = f v := by
  induction first with
  | nil => simp at hv
  | cons a t ih =>
    by_cases ha : a = v
    · subst ha; simp
    · have hvt : v ∈ t := by
        rcases List.mem_cons.mp hv with h | h
        · exact absurd h.symm ha
        · exact h
      rw [List.idxOf_cons_ne _ ha]
      simpa using ih hvt

/-- C07 *each column carries the values of the variable it is labelled with*, for `as_samples`: whatever
    order the labels of a later sample come in (any permutation, any extra labels), after re-indexing to the
    first sample's labels the value under every label is the value the sample gave that label -/
theorem reindex_columns (first labels : List Label) (row : List Rat) (v : Label) (hv : v ∈ first) :
    labelled first (reindexRow first labels row) v = labelled labels row v := by
  unfold labelled reindexRow
  exact getD_map_idxOf first _ v hv

/-- the inverse permutation (D1) puts values under the wrong labels: a 3-cycle -/
theorem reindex_inverse_wrong :
    labelled [.str "a", .str "b", .str "c"] (reindexRowInverse [.str "a", .str "b", .str "c"] [.str "b", .str "c", .str "a"] [1, 2, 3]) (.str "a") = 2 ∧
    labelled [.str "b", .str "c", .str "a"] [1, 2, 3] (.str "a") = 3 := by
  constructor <;> decide +kernel

theorem val_zip_labelled (labels : List Label) (r : List Rat) (e : Rat) (l : Label) (hl : l ∈ labels) (hlen : labels.length ≤ r.length) :
    (Row.mk (labels.zip r) e).val l = labelled labels r l := by
  unfold Row.val labelled
  simp only
  induction labels generalizing r with
  | nil => simp at hl
  | cons a t ih =>
    cases r with
    | nil => simp at hlen
    | cons x xs =>
      by_cases ha : a = l
      · subst ha; simp [List.find?]
      · have hlt : l ∈ t := by
          rcases List.mem_cons.mp hl with h | h
          · exact absurd h.symm ha
          · exact h
        rw [List.idxOf_cons_ne _ ha]
        simp only [List.zip_cons_cons, List.find?, ha, decide_false, List.getD_cons_succ]
        exact ih xs hlt (by simpa using hlen)

/-! ### assembling rows with energies from the bqm (`from_samples_bqm`) -/

theorem pisCore_energy (m : Bqm) (labels : List Label) (rows : List (List Rat)) (g : Generator)
    (n : Nat) (fresh : List (List Rat)) (out : List Row)
    (h : pisCore m labels rows g n fresh = .ok out)
    (hlab : ∀ l ∈ m.labels, l ∈ labels)
    (hconv : ∀ r ∈ rows, r.length = labels.length) (hfresh : ∀ r ∈ fresh, r.length = labels.length) :
    ∀ ro ∈ out, ro.energy = m.energy ro.val := by
  unfold pisCore at h
  split at h
  · simp at h
  · split at h
    · simp at h
    · rename_i rs hrs
      simp only [Except.ok.injEq] at h
      subst h
      intro ro hro
      obtain ⟨r, hr, rfl⟩ := List.mem_map.mp hro
      have hr' : r ∈ rs := List.mem_of_mem_take hr
      have hlen : r.length = labels.length := by
        cases g with
        | none =>
          simp only [extrapolate] at hrs
          split at hrs
          · simp at hrs
          · simp only [Except.ok.injEq] at hrs; subst hrs; exact hconv r hr'
        | tile =>
          simp only [extrapolate] at hrs
          split at hrs
          · simp at hrs
          · rename_i hne
            split at hrs
            · simp only [Except.ok.injEq] at hrs; subst hrs; exact hconv r hr'
            · simp only [Except.ok.injEq] at hrs; subst hrs
              simp only [tileRows, List.mem_map, List.mem_range] at hr'
              obtain ⟨i, _, rfl⟩ := hr'
              have hpos : 0 < rows.length := by omega
              have hi : i % rows.length < rows.length := Nat.mod_lt _ hpos
              have : rows.getD (i % rows.length) [] = rows[i % rows.length] := by
                simp [List.getD, List.getElem?_eq_getElem hi]
              rw [this]
              exact hconv _ (List.getElem_mem hi)
        | random =>
          simp only [extrapolate, Except.ok.injEq] at hrs; subst hrs
          rcases List.mem_append.mp hr' with h1 | h1
          · exact hconv r h1
          · exact hfresh r (List.mem_of_mem_take h1)
      show m.energy (labelled labels r) = m.energy (Row.mk (labels.zip r) _).val
      apply energy_congr
      intro l hl'
      exact (val_zip_labelled labels r _ l (hlab l hl') (by omega)).symm

/-- rows returned by IdentitySampler / RandomSampler carry the energy of the submitted bqm at the row read by
    its labels -/
theorem pis_energy (m : Bqm) (labels : List Label) (rows : List (List Rat)) (sp : Option Bool) (g : Generator)
    (nr : Option Nat) (fresh : List (List Rat)) (out : List Row)
    (h : parseInitialStates m labels rows sp g nr fresh = .ok out)
    (hlab : ∀ l ∈ m.labels, l ∈ labels)
    (hrows : ∀ r ∈ rows, r.length = labels.length) (hfresh : ∀ r ∈ fresh, r.length = labels.length) :
    ∀ ro ∈ out, ro.energy = m.energy ro.val := by
  apply pisCore_energy m labels _ g _ fresh out h hlab _ hfresh
  intro q hq
  obtain ⟨q0, hq0, rfl⟩ := List.mem_map.mp hq
  unfold convertRow
  split
  · simpa using hrows q0 hq0
  · split
    · simpa using hrows q0 hq0
    · exact hrows q0 hq0

/-- `tile`: `num_reads` rows, read `i` is the given state `i mod m` -/
theorem tileRows_spec (rows : List (List Rat)) (n : Nat) :
    (tileRows rows n).length = n ∧ ∀ i (hi : i < n), (tileRows rows n)[i]'(by simp [tileRows]; exact hi) = rows.getD (i % rows.length) [] := by
  refine ⟨by simp [tileRows], ?_⟩
  intro i hi
  simp [tileRows]

/-! ### SimulatedAnnealingSampler -/

/-- the rows SimulatedAnnealingSampler returns (any final spin assignments covering the variables) carry the
    energy of the submitted bqm, offset and vartype conversion included -/
theorem sa_energy (m : Bqm) (spins : List (List (Label × Rat)))
    (hcov : ∀ x ∈ spins, (Row.mk x 0).Covers ({ m.toSpin with off := 0 } : Bqm).labels) :
    ∀ r ∈ saAssemble m spins, r.energy = m.energy r.val := by
  let child : Bqm → List Row := fun q => spins.map fun x => ⟨x, q.energy (Row.val ⟨x, 0⟩)⟩
  have hmix : saAssemble m spins = mixinSample .ising child m := by
    simp only [saAssemble, mixinSample, child]
  rw [hmix]
  have hq : ChildOKAt child { m.toSpin with off := 0 } := by
    intro r hr
    obtain ⟨x, hx, rfl⟩ := List.mem_map.mp hr
    exact ⟨rfl, hcov x hx⟩
  intro r hr
  -- only the Ising problem is ever handed to the child
  cases hs : m.spin with
  | true =>
    simp only [mixinSample, hs, if_true, List.mem_map] at hr
    obtain ⟨r0, hr0, rfl⟩ := hr
    have h0 := (hq r0 hr0).1
    have hsp : m.toSpin = m := by simp [Bqm.toSpin, hs]
    show r0.energy + m.toSpin.off = m.energy r0.val
    rw [h0, energy_off, hsp]
  | false =>
    simp only [mixinSample, hs, Bool.false_eq_true, if_false, List.mem_map] at hr
    obtain ⟨r0, hr0, rfl⟩ := hr
    obtain ⟨h0, hc⟩ := hq r0 hr0
    show r0.energy + m.toSpin.off = m.energy (r0.toBinary m.toSpin.off).val
    rw [h0, energy_off, toSpin_energy m hs]
    apply energy_congr
    intro l hl
    exact (val_map r0 (fun v => (v + 1) / 2) l _ (hc l (labels_toSpin m l hl))).symm

/-! ### aggregate -/

def occSum (l : List ORow) : Nat := (l.map (·.occ)).sum

theorem aggInsert_occ (acc : List ORow) (r : ORow) : occSum (aggInsert acc r) = occSum acc + r.occ := by
  induction acc with
  | nil => simp [aggInsert, occSum]
  | cons a t ih =>
    simp only [aggInsert]
    split
    · simp only [occSum, List.map_cons, List.sum_cons]; omega
    · simp only [occSum, List.map_cons, List.sum_cons] at ih ⊢; omega

theorem aggInsert_vals (acc : List ORow) (r : ORow) (v : List Rat) :
    v ∈ (aggInsert acc r).map (·.vals) ↔ v ∈ acc.map (·.vals) ∨ v = r.vals := by
  induction acc with
  | nil => simp [aggInsert]
  | cons a t ih =>
    simp only [aggInsert]
    split
    · rename_i h
      simp only [List.map_cons, List.mem_cons]
      constructor
      · rintro (h1 | h1)
        · exact Or.inl (Or.inl h1)
        · exact Or.inl (Or.inr h1)
      · rintro ((h1 | h1) | h1)
        · exact Or.inl h1
        · exact Or.inr h1
        · exact Or.inl (h1.trans h.symm)
    · simp only [List.map_cons, List.mem_cons, ih]
      tauto

theorem aggInsert_nodup (acc : List ORow) (r : ORow) (h : (acc.map (·.vals)).Nodup) : ((aggInsert acc r).map (·.vals)).Nodup := by
  induction acc with
  | nil => simp [aggInsert]
  | cons a t ih =>
    simp only [List.map_cons, List.nodup_cons] at h
    simp only [aggInsert]
    split
    · simpa [List.map_cons, List.nodup_cons] using h
    · rename_i hne
      simp only [List.map_cons, List.nodup_cons]
      refine ⟨?_, ih h.2⟩
      rw [aggInsert_vals]
      rintro (h1 | h1)
      · exact h.1 h1
      · exact hne h1

theorem aggInsert_from (acc : List ORow) (r : ORow) (a : ORow) (ha : a ∈ aggInsert acc r) :
    (∃ b ∈ acc, b.vals = a.vals ∧ b.energy = a.energy) ∨ (a.vals = r.vals ∧ a.energy = r.energy) := by
  induction acc with
  | nil => simp only [aggInsert, List.mem_singleton] at ha; subst ha; exact Or.inr ⟨rfl, rfl⟩
  | cons b t ih =>
    simp only [aggInsert] at ha
    split at ha
    · rcases List.mem_cons.mp ha with rfl | h1
      · exact Or.inl ⟨b, List.mem_cons_self, rfl, rfl⟩
      · exact Or.inl ⟨a, List.mem_cons_of_mem _ h1, rfl, rfl⟩
    · rcases List.mem_cons.mp ha with rfl | h1
      · exact Or.inl ⟨a, List.mem_cons_self, rfl, rfl⟩
      · rcases ih h1 with ⟨c, hc, h2⟩ | h2
        · exact Or.inl ⟨c, List.mem_cons_of_mem _ hc, h2⟩
        · exact Or.inr h2

theorem foldl_aggInsert_spec (rows acc : List ORow) (hacc : (acc.map (·.vals)).Nodup) :
    ((rows.foldl aggInsert acc).map (·.vals)).Nodup ∧
    occSum (rows.foldl aggInsert acc) = occSum acc + occSum rows ∧
    (∀ v, v ∈ (rows.foldl aggInsert acc).map (·.vals) ↔ v ∈ acc.map (·.vals) ∨ v ∈ rows.map (·.vals)) := by
  induction rows generalizing acc with
  | nil => exact ⟨hacc, by simp [occSum], by simp⟩
  | cons r t ih =>
    obtain ⟨h1, h2, h3⟩ := ih (aggInsert acc r) (aggInsert_nodup acc r hacc)
    simp only [List.foldl_cons]
    refine ⟨h1, ?_, ?_⟩
    · rw [h2, aggInsert_occ]; simp only [occSum, List.map_cons, List.sum_cons]; omega
    · intro v
      rw [h3, aggInsert_vals]
      simp only [List.map_cons, List.mem_cons]
      tauto

/-- `SampleSet.aggregate`: the distinct sample rows, each once; the total number of occurrences is kept; a
    sample row is present after aggregation iff it was before -/
theorem aggregate_spec (rows : List ORow) :
    ((aggregate rows).map (·.vals)).Nodup ∧ occSum (aggregate rows) = occSum rows ∧
    ∀ v, v ∈ (aggregate rows).map (·.vals) ↔ v ∈ rows.map (·.vals) := by
  unfold aggregate
  obtain ⟨h1, h2, h3⟩ := foldl_aggInsert_spec rows [] (by simp)
  exact ⟨h1, by simpa [occSum] using h2, fun v => by simpa using h3 v⟩

/-- … and every aggregated row has the sample and energy of one of the original rows -/
theorem aggregate_rows_from (rows : List ORow) : ∀ a ∈ aggregate rows, ∃ r ∈ rows, r.vals = a.vals ∧ r.energy = a.energy := by
  have gen : ∀ (rs acc : List ORow), (∀ a ∈ acc, ∃ r ∈ rows, r.vals = a.vals ∧ r.energy = a.energy) → (∀ r ∈ rs, r ∈ rows) →
      ∀ a ∈ rs.foldl aggInsert acc, ∃ r ∈ rows, r.vals = a.vals ∧ r.energy = a.energy := by
    intro rs
    induction rs with
    | nil => intro acc h _ a ha; exact h a ha
    | cons r t ih =>
      intro acc h hsub a ha
      apply ih (aggInsert acc r) _ (fun x hx => hsub x (List.mem_cons_of_mem _ hx)) a ha
      intro b hb
      rcases aggInsert_from acc r b hb with ⟨c, hc, h1, h2⟩ | ⟨h1, h2⟩
      · obtain ⟨r0, hr0, e1, e2⟩ := h c hc
        exact ⟨r0, hr0, e1.trans h1, e2.trans h2⟩
      · exact ⟨r, hsub r List.mem_cons_self, h1.symm, h2.symm⟩
  exact gen rows [] (by simp) (fun r hr => hr)

/-! ### truncate -/

theorem le_total_dec (a b : ORow) : (decide (a.energy ≤ b.energy) || decide (b.energy ≤ a.energy)) = true := by
  rcases le_total a.energy b.energy with h | h <;> simp [h]

/-- `truncate(n, sorted_by)`: the returned rows are rows of the input (a sub-list of a permutation of it),
    `min n len` of them; with `sorted_by='energy'` no dropped row has lower energy than a kept one -/
theorem truncate_spec (n : Nat) (b : Bool) (rows : List ORow) :
    (∃ l', l'.Perm rows ∧ (truncate n b rows).Sublist l' ∧
      (b = true → ∀ k ∈ truncate n b rows, ∀ d ∈ l'.drop n, k.energy ≤ d.energy)) ∧
    (truncate n b rows).length = min n rows.length := by
  cases b with
  | false =>
    refine ⟨⟨rows, List.Perm.refl _, by simp [truncate, List.take_sublist], by simp⟩, by simp [truncate]⟩
  | true =>
    let le : ORow → ORow → Bool := fun a b => decide (a.energy ≤ b.energy)
    have hperm : (rows.mergeSort le).Perm rows := List.mergeSort_perm rows le
    have hsorted : (rows.mergeSort le).Pairwise (fun a b => le a b = true) :=
      List.pairwise_mergeSort (le := le)
        (by intro a b c hab hbc; simp only [le, decide_eq_true_eq] at hab hbc ⊢; exact le_trans hab hbc)
        (by intro a b; exact le_total_dec a b) rows
    refine ⟨⟨rows.mergeSort le, hperm, by simp [truncate, le, List.take_sublist], ?_⟩, ?_⟩
    · intro _ k hk d hd
      have hk' : k ∈ (rows.mergeSort le).take n := by simpa [truncate, le] using hk
      have := List.take_append_drop n (rows.mergeSort le)
      rw [← this] at hsorted
      have hp := (List.pairwise_append.mp hsorted).2.2 k hk' d hd
      simpa [le] using hp
    · simp only [truncate, if_true, List.length_take]
      rw [hperm.length_eq]

theorem truncateComposite_rows (n : Nat) (b agg : Bool) (rows : List ORow) :
    ∀ k ∈ truncateComposite n b agg rows, ∃ r ∈ rows, r.vals = k.vals ∧ r.energy = k.energy := by
  intro k hk
  obtain ⟨⟨l', hp, hs, _⟩, _⟩ := truncate_spec n b (if agg then aggregate rows else rows)
  have hk' : k ∈ (if agg then aggregate rows else rows) := hp.subset (hs.subset hk)
  cases agg with
  | true => simpa using aggregate_rows_from rows k (by simpa using hk')
  | false => exact ⟨k, by simpa using hk', rfl, rfl⟩

/-! ### structure, tracking -/

theorem structureOK_iff (nodes : List Label) (edges : List (Label × Label)) (m : Bqm) :
    structureOK nodes edges m = true ↔
      (∀ p ∈ m.lin, p.1 ∈ nodes) ∧
      (∀ t ∈ m.quad, t.1 ∈ nodes ∧ t.2.1 ∈ nodes ∧ ∃ e ∈ edges, (e.1 = t.1 ∧ e.2 = t.2.1) ∨ (e.1 = t.2.1 ∧ e.2 = t.1)) := by
  simp only [structureOK, Bool.and_eq_true, List.all_eq_true, List.contains_iff_mem, List.any_eq_true, Bool.or_eq_true,
    decide_eq_true_eq]
  constructor
  · rintro ⟨h1, h2⟩
    refine ⟨h1, ?_⟩
    intro t ht
    obtain ⟨u, v, c⟩ := t
    obtain ⟨⟨hu, hv⟩, e, he, h3⟩ := h2 (u, v, c) ht
    exact ⟨hu, hv, e, he, by obtain ⟨a, b⟩ := e; simpa using h3⟩
  · rintro ⟨h1, h2⟩
    refine ⟨h1, ?_⟩
    intro t ht
    obtain ⟨u, v, c⟩ := t
    obtain ⟨hu, hv, e, he, h3⟩ := h2 (u, v, c) ht
    exact ⟨⟨hu, hv⟩, e, he, by obtain ⟨a, b⟩ := e; simpa using h3⟩

/-- StructureComposite: a bqm inside the structure is handed to the child unchanged and the child's rows
    come back unchanged; anything else is refused -/
theorem structureSample_spec (child : Bqm → List Row) (nodes : List Label) (edges : List (Label × Label)) (m : Bqm) :
    (structureOK nodes edges m = true → structureSample child nodes edges m = .ok (child m)) ∧
    (structureOK nodes edges m = false → structureSample child nodes edges m = .error ()) := by
  constructor <;> intro h <;> simp [structureSample, h]

/-- TrackingComposite: the answer is the child's; the log gains exactly this input and output -/
theorem trackingSample_spec (child : Bqm → List Row) (log : List (Bqm × List Row)) (m : Bqm) :
    (trackingSample child log m).1 = child m ∧ (trackingSample child log m).2 = log ++ [(m, child m)] := ⟨rfl, rfl⟩

end Enum
