import DimodModel.Cqm

/-! Basic list / association-map lemmas for the CQM model (property C05). Core Lean only. -/

namespace CqmP

/-! ### association maps -/

theorem get?_erase {α β} [DecidableEq α] (m : AMap α β) (k k' : α) :
    (AMap.erase m k).get? k' = if k = k' then none else m.get? k' := by
  induction m with
  | nil => simp [AMap.erase, AMap.get?]
  | cons p t ih =>
    obtain ⟨a, b⟩ := p
    by_cases hak : a = k
    · subst hak
      simp only [AMap.erase, if_true, ih]
      by_cases h : a = k'
      · simp [h]
      · simp [h, AMap.get?]
    · simp only [AMap.erase, if_neg hak, AMap.get?]
      by_cases h : a = k'
      · subst h; simp [hak, Ne.symm hak]
      · simp only [if_neg h, ih]

theorem get?_set {α β} [DecidableEq α] (m : AMap α β) (k k' : α) (v : β) :
    (AMap.set m k v).get? k' = if k = k' then some v else m.get? k' := by
  unfold AMap.set
  simp only [AMap.get?]
  by_cases h : k = k'
  · simp [h]
  · simp [h, get?_erase]

/-! ### `Bqm.eraseIdx` / `Bqm.modifyAt` are the library functions -/

theorem eraseIdx_eq {α} (l : List α) (i : Nat) : Bqm.eraseIdx l i = l.eraseIdx i := by
  induction l generalizing i with
  | nil => cases i <;> rfl
  | cons a t ih => cases i with
    | zero => rfl
    | succ i => simp [Bqm.eraseIdx, ih]

theorem modifyAt_eq {α} (l : List α) (i : Nat) (f : α → α) : Bqm.modifyAt l i f = l.modify i f := by
  induction l generalizing i with
  | nil => cases i <;> rfl
  | cons a t ih => cases i with
    | zero => rfl
    | succ i => simp [Bqm.modifyAt, ih]

theorem length_modifyAt {α} (l : List α) (i : Nat) (f : α → α) : (Bqm.modifyAt l i f).length = l.length := by
  rw [modifyAt_eq, List.length_modify]

theorem length_eraseIdx {α} (l : List α) (i : Nat) (h : i < l.length) : (Bqm.eraseIdx l i).length = l.length - 1 := by
  rw [eraseIdx_eq, List.length_eraseIdx_of_lt h]

theorem getElem?_eraseIdx {α} (l : List α) (i j : Nat) :
    (Bqm.eraseIdx l i)[j]? = if j < i then l[j]? else l[j + 1]? := by
  rw [eraseIdx_eq, List.getElem?_eraseIdx]

theorem getD_eraseIdx {α} (l : List α) (i j : Nat) (d : α) :
    (Bqm.eraseIdx l i).getD j d = if j < i then l.getD j d else l.getD (j + 1) d := by
  simp only [List.getD_eq_getElem?_getD, getElem?_eraseIdx]
  split <;> rfl

theorem getD_modifyAt {α} (l : List α) (i j : Nat) (f : α → α) (d : α) (hi : i < l.length) :
    (Bqm.modifyAt l i f).getD j d = if j = i then f (l.getD i d) else l.getD j d := by
  rw [modifyAt_eq]
  simp only [List.getD_eq_getElem?_getD, List.getElem?_modify]
  by_cases h : i = j
  · subst h
    simp [List.getElem?_eq_getElem hi]
  · simp [h, Ne.symm h]

/-- position shift of a local / global index when index `v` disappears -/
def shift (v u : Nat) : Nat := if u > v then u - 1 else u

theorem shift_inj {v a b : Nat} (ha : a ≠ v) (hb : b ≠ v) (h : shift v a = shift v b) : a = b := by
  unfold shift at h
  split at h <;> split at h <;> omega

theorem shift_le_iff {v a b : Nat} (ha : a ≠ v) (hb : b ≠ v) : shift v a ≤ shift v b ↔ a ≤ b := by
  unfold shift
  split <;> split <;> omega

end CqmP
