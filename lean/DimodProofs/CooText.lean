import DimodModel.CooText
import DimodProofs.Vectors
import Mathlib.Algebra.Order.Field.Rat
import Mathlib.Data.Rat.Defs

/-! Proofs for the text-level COO model (C11): number printing / parsing inverses, the line regex on a printed line,
    `split('\n')` of `'\n'.join`, and the whole `loads(dumps(bqm))`. -/

namespace CooText
open SSM Pack

/-! ### characters -/

theorem digit_isDigit : ∀ d, d < 10 → isDigit (digitChar d) = true := by decide
theorem digit_val : ∀ d, d < 10 → (digitChar d).toNat - 48 = d := by decide
theorem digit_val_mod (a : Nat) : (digitChar (a % 10)).toNat - 48 = a % 10 := digit_val _ (Nat.mod_lt _ (by decide))
theorem digit_isDigit_mod (a : Nat) : isDigit (digitChar (a % 10)) = true := digit_isDigit _ (Nat.mod_lt _ (by decide))

theorem isDigit_iff (c : Char) : isDigit c = true ↔ 48 ≤ c.toNat ∧ c.toNat ≤ 57 := by simp [isDigit]

theorem digit_not_space (c : Char) (h : isDigit c = true) : isSpace c = false := by
  rw [isDigit_iff] at h
  simp only [isSpace, Bool.or_eq_false_iff, Bool.and_eq_false_iff, decide_eq_false_iff_not]
  omega

theorem digit_not_hdrBlank (c : Char) (h : isDigit c = true) : isHdrBlank c = false := by
  rw [isDigit_iff] at h
  simp only [isHdrBlank, Bool.or_eq_false_iff, decide_eq_false_iff_not]
  omega

theorem digit_ne (c : Char) (h : isDigit c = true) (k : Char) (hk : k.toNat < 48 := by decide) : c ≠ k := by
  rw [isDigit_iff] at h
  intro e; subst e; omega

/-! ### `%d` and `int()` -/

theorem parseNat_snoc (l : List Char) (c : Char) : parseNat (l ++ [c]) = parseNat l * 10 + (c.toNat - 48) := by
  simp [parseNat, List.foldl_append]

theorem parseNat_natDigits (n : Nat) : parseNat (natDigits n) = n := by
  induction n using Nat.strongRecOn with
  | _ n ih =>
    rw [natDigits]
    split
    · rename_i h; simp [parseNat, digit_val n h]
    · rename_i h
      rw [parseNat_snoc, digit_val_mod, ih _ (by omega)]; omega

theorem natDigits_digits (n : Nat) : ∀ c ∈ natDigits n, isDigit c = true := by
  induction n using Nat.strongRecOn with
  | _ n ih =>
    rw [natDigits]
    split
    · rename_i h; intro c hc; simp at hc; subst hc; exact digit_isDigit n h
    · rename_i h
      intro c hc
      rcases List.mem_append.mp hc with hc | hc
      · exact ih _ (by omega) c hc
      · simp at hc; subst hc; exact digit_isDigit_mod n

theorem natDigits_ne_nil (n : Nat) : natDigits n ≠ [] := by
  rw [natDigits]; split <;> simp

theorem natDigits_inj (a b : Nat) (h : natDigits a = natDigits b) : a = b := by
  rw [← parseNat_natDigits a, ← parseNat_natDigits b, h]

theorem pad6_digits (k : Nat) : ∀ c ∈ pad6 k, isDigit c = true := by
  intro c hc
  simp only [pad6, List.mem_cons, List.not_mem_nil, or_false] at hc
  rcases hc with h | h | h | h | h | h <;> subst h <;> exact digit_isDigit_mod _

theorem pad6_ne_nil (k : Nat) : pad6 k ≠ [] := by simp [pad6]
theorem pad6_length (k : Nat) : (pad6 k).length = 6 := rfl

theorem parseNat_pad6 (k : Nat) (h : k < 1000000) : parseNat (pad6 k) = k := by
  simp only [pad6, parseNat, List.foldl_cons, List.foldl_nil, digit_val_mod]
  omega

/-! ### rounding -/

theorem round6_sign (x : Rat) : (x.num < 0 → round6 x ≤ 0) ∧ (¬ x.num < 0 → 0 ≤ round6 x) := by
  have hd : (0 : Int) < x.den := by exact_mod_cast x.den_pos
  constructor
  · intro h
    have hn : x.num * 1000000 < 0 := by omega
    have hf := Int.ediv_neg_of_neg_of_pos hn hd
    simp only [round6]
    split
    · omega
    · split
      · omega
      · split <;> omega
  · intro h
    have hn : 0 ≤ x.num * 1000000 := by omega
    have hf := Int.ediv_nonneg hn (Int.le_of_lt hd)
    simp only [round6]
    split
    · omega
    · split
      · omega
      · split <;> omega

/-! ### scanning -/

def HeadNot (p : Char → Bool) (l : List Char) : Prop := ∀ c t, l = c :: t → p c = false

theorem spanP_append (p : Char → Bool) (l r : List Char) (hl : ∀ c ∈ l, p c = true) (hr : HeadNot p r) :
    spanP p (l ++ r) = (l, r) := by
  induction l with
  | nil =>
    cases r with
    | nil => rfl
    | cons c t => simp [spanP, hr c t rfl]
  | cons a l ih =>
    have := ih (fun c hc => hl c (by simp [hc]))
    simp [spanP, hl a (by simp), this]

theorem spanP_all (p : Char → Bool) (l : List Char) (hl : ∀ c ∈ l, p c = true) : spanP p l = (l, []) := by
  have := spanP_append p l [] hl (fun c t h => by cases h)
  simpa using this

theorem spanP_none (p : Char → Bool) (l : List Char) (h : HeadNot p l) : spanP p l = ([], l) := by
  simpa using spanP_append p [] l (by simp) h

theorem headNot_nil (p : Char → Bool) : HeadNot p [] := fun _ _ h => by cases h

theorem headNot_cons (p : Char → Bool) (c : Char) (t : List Char) (h : p c = false) : HeadNot p (c :: t) := by
  intro c' t' e; cases e; exact h

theorem headNot_append (p : Char → Bool) (l r : List Char) (hne : l ≠ []) (hl : ∀ c ∈ l, p c = false) : HeadNot p (l ++ r) := by
  cases l with
  | nil => exact absurd rfl hne
  | cons a l => intro c t e; simp at e; rw [← e.1]; exact hl a (by simp)

theorem takeSign_digits (l r : List Char) (hne : l ≠ []) (hl : ∀ c ∈ l, isDigit c = true) : takeSign (l ++ r) = ([], l ++ r) := by
  cases l with
  | nil => exact absurd rfl hne
  | cons a l =>
    have ha := hl a (by simp)
    simp [takeSign, digit_ne a ha '+', digit_ne a ha '-']

/-- `_LINE_REGEX` on `digits ws digits ws [-]digits.digits`: the three groups -/
theorem matchTriple_line (U V sg ip fp : List Char) (hU : U ≠ []) (hUd : ∀ c ∈ U, isDigit c = true)
    (hV : V ≠ []) (hVd : ∀ c ∈ V, isDigit c = true) (hsg : sg = [] ∨ sg = ['-'])
    (hip : ip ≠ []) (hipd : ∀ c ∈ ip, isDigit c = true) (hfp : fp ≠ []) (hfpd : ∀ c ∈ fp, isDigit c = true) :
    matchTriple (U ++ ' ' :: (V ++ ' ' :: (sg ++ (ip ++ '.' :: fp)))) = some (U, V, sg ++ (ip ++ '.' :: fp)) := by
  have e1 : spanP isSpace (U ++ ' ' :: (V ++ ' ' :: (sg ++ (ip ++ '.' :: fp)))) = ([], U ++ ' ' :: (V ++ ' ' :: (sg ++ (ip ++ '.' :: fp)))) :=
    spanP_none _ _ (headNot_append _ _ _ hU fun c hc => digit_not_space c (hUd c hc))
  have e2 : spanP isDigit (U ++ ' ' :: (V ++ ' ' :: (sg ++ (ip ++ '.' :: fp)))) = (U, ' ' :: (V ++ ' ' :: (sg ++ (ip ++ '.' :: fp)))) :=
    spanP_append _ _ _ hUd (headNot_cons _ _ _ (by decide))
  have e3 : spanP isSpace (' ' :: (V ++ ' ' :: (sg ++ (ip ++ '.' :: fp)))) = ([' '], V ++ ' ' :: (sg ++ (ip ++ '.' :: fp))) :=
    spanP_append _ [' '] _ (by decide) (headNot_append _ _ _ hV fun c hc => digit_not_space c (hVd c hc))
  have e4 : spanP isDigit (V ++ ' ' :: (sg ++ (ip ++ '.' :: fp))) = (V, ' ' :: (sg ++ (ip ++ '.' :: fp))) :=
    spanP_append _ _ _ hVd (headNot_cons _ _ _ (by decide))
  have e5 : spanP isSpace (' ' :: (sg ++ (ip ++ '.' :: fp))) = ([' '], sg ++ (ip ++ '.' :: fp)) := by
    refine spanP_append _ [' '] _ (by decide) ?_
    rcases hsg with h | h <;> subst h
    · exact headNot_append isSpace ip ('.' :: fp) hip fun c hc => digit_not_space c (hipd c hc)
    · exact headNot_cons _ _ _ (by decide)
  have e6 : takeSign (sg ++ (ip ++ '.' :: fp)) = (sg, ip ++ '.' :: fp) := by
    rcases hsg with h | h <;> subst h
    · simpa using takeSign_digits ip ('.' :: fp) hip hipd
    · simp [takeSign]
  have e7 : spanP isDigit (ip ++ '.' :: fp) = (ip, '.' :: fp) := spanP_append _ _ _ hipd (headNot_cons _ _ _ (by decide))
  have e8 : spanP isDigit fp = (fp, []) := spanP_all _ _ hfpd
  have e9 : takeFrac ('.' :: fp) = ('.' :: fp, []) := by
    cases fp with
    | nil => exact absurd rfl hfp
    | cons a t => simp [takeFrac, e8]
  have hUe : U.isEmpty = false := by cases U <;> simp_all
  have hVe : V.isEmpty = false := by cases V <;> simp_all
  simp [matchTriple, e1, e2, e3, e4, e5, e6, e7, e9, hUe, hVe, spanP]

theorem matchHeader_digit (c : Char) (t : List Char) (h : isDigit c = true) : matchHeader (c :: t) = none := by
  simp [matchHeader, spanP, digit_not_hdrBlank c h, digit_ne c h '#']

/-! ### `%f` and `float()` -/

def groupsOf (t : Nat × Nat × Rat) : Groups := (natDigits t.1, natDigits t.2.1, printF t.2.2)

theorem printF_shape (x : Rat) : ∃ sg ip fp, printF x = sg ++ (ip ++ '.' :: fp) ∧ (sg = [] ∨ sg = ['-']) ∧
    ip ≠ [] ∧ (∀ c ∈ ip, isDigit c = true) ∧ fp ≠ [] ∧ (∀ c ∈ fp, isDigit c = true) := by
  refine ⟨if x.num < 0 then ['-'] else [], natDigits ((round6 x).natAbs / 1000000), pad6 ((round6 x).natAbs % 1000000), ?_, ?_,
    natDigits_ne_nil _, natDigits_digits _, pad6_ne_nil _, pad6_digits _⟩
  · simp [printF]
  · split <;> simp

/-- `float('%f' % x)` is `x` rounded to millionths -/
theorem parseDec_printF (x : Rat) : parseDec (printF x) = some (mkRat (round6 x) 1000000) := by
  have hs := round6_sign x
  have ip_d := natDigits_digits ((round6 x).natAbs / 1000000)
  have ip_ne := natDigits_ne_nil ((round6 x).natAbs / 1000000)
  have e7 : spanP isDigit (natDigits ((round6 x).natAbs / 1000000) ++ '.' :: pad6 ((round6 x).natAbs % 1000000))
      = (natDigits ((round6 x).natAbs / 1000000), '.' :: pad6 ((round6 x).natAbs % 1000000)) :=
    spanP_append _ _ _ ip_d (headNot_cons _ _ _ (by decide))
  have e8 : spanP isDigit (pad6 ((round6 x).natAbs % 1000000)) = (pad6 ((round6 x).natAbs % 1000000), []) := spanP_all _ _ (pad6_digits _)
  have hie : (natDigits ((round6 x).natAbs / 1000000)).isEmpty = false := by
    cases h : natDigits ((round6 x).natAbs / 1000000) with
    | nil => exact absurd h ip_ne
    | cons a t => rfl
  have hval : parseNat (natDigits ((round6 x).natAbs / 1000000)) * 10 ^ 6 + parseNat (pad6 ((round6 x).natAbs % 1000000)) = (round6 x).natAbs := by
    rw [parseNat_natDigits, parseNat_pad6 _ (Nat.mod_lt _ (by decide))]; omega
  by_cases hneg : x.num < 0
  · have e6 : takeSign (printF x) = (['-'], natDigits ((round6 x).natAbs / 1000000) ++ '.' :: pad6 ((round6 x).natAbs % 1000000)) := by
      simp [printF, hneg, takeSign]
    have hm : -((round6 x).natAbs : Int) = round6 x := by have := hs.1 hneg; omega
    simp only [parseDec, e6, e7, e8, hie, pad6_length, hval, Bool.false_and, Bool.false_eq_true, if_false, if_true, hm]
  · have e6 : takeSign (printF x) = ([], natDigits ((round6 x).natAbs / 1000000) ++ '.' :: pad6 ((round6 x).natAbs % 1000000)) := by
      have := takeSign_digits _ ('.' :: pad6 ((round6 x).natAbs % 1000000)) ip_ne ip_d
      simpa [printF, hneg] using this
    have hm : ((round6 x).natAbs : Int) = round6 x := by have := hs.2 hneg; omega
    simp only [parseDec, e6, e7, e8, hie, pad6_length, hval, Bool.false_and, Bool.false_eq_true, if_false, hm]
    simp

/-! ### one printed line -/

theorem matchTriple_printLine (t : Nat × Nat × Rat) : matchTriple (printLine t) = some (groupsOf t) := by
  obtain ⟨sg, ip, fp, hp, hsg, h1, h2, h3, h4⟩ := printF_shape t.2.2
  simp only [printLine, groupsOf, hp]
  exact matchTriple_line _ _ sg ip fp (natDigits_ne_nil _) (natDigits_digits _) (natDigits_ne_nil _) (natDigits_digits _) hsg h1 h2 h3 h4

theorem matchHeader_printLine (t : Nat × Nat × Rat) : matchHeader (printLine t) = none := by
  have hne := natDigits_ne_nil t.1
  have hd := natDigits_digits t.1
  simp only [printLine]
  cases h : natDigits t.1 with
  | nil => exact absurd h hne
  | cons a l => exact matchHeader_digit a _ (hd a (by simp [h]))

/-- the rounded value the loader sees -/
def scale (m : Int) : Rat := mkRat m 1000000

def loaded (t : Nat × Nat × Rat) : Nat × Nat × Rat := (t.1, t.2.1, scale (round6 t.2.2))

theorem callOf_groupsOf (t : Nat × Nat × Rat) : callOf (groupsOf t) = some (loaded t) := by
  simp only [callOf, groupsOf, parseDec_printF, parseNat_natDigits, Option.map_some, loaded, scale]
  by_cases h : natDigits t.1 = natDigits t.2.1
  · have := natDigits_inj _ _ h
    simp [h, this]
  · have h' : t.1 ≠ t.2.1 := fun e => h (by rw [e])
    simp [h, h']

theorem allSome_calls (ts : List (Nat × Nat × Rat)) : allSome ((ts.map groupsOf).map callOf) = some (ts.map loaded) := by
  induction ts with
  | nil => rfl
  | cons t ts ih => simp only [List.map_cons, allSome, callOf_groupsOf, ih, Option.map_some]

theorem allSome_calls' (ts : List (Nat × Nat × Rat)) : allSome (ts.map (callOf ∘ groupsOf)) = some (ts.map loaded) := by
  rw [← List.map_map]; exact allSome_calls ts

theorem stepLine_printLine (vs : VState) (tr : List Groups) (t : Nat × Nat × Rat) :
    stepLine (some (vs, tr)) (printLine t) = some (vs, tr ++ [groupsOf t]) := by
  simp [stepLine, matchTriple_printLine, matchHeader_printLine]

theorem fold_printLines (vs : VState) (tr : List Groups) (ts : List (Nat × Nat × Rat)) :
    (ts.map printLine).foldl stepLine (some (vs, tr)) = some (vs, tr ++ ts.map groupsOf) := by
  induction ts generalizing tr with
  | nil => simp
  | cons t ts ih => simp [List.foldl_cons, stepLine_printLine, ih]

/-! ### the header line -/

theorem header_noTriple (vt : VT) : matchTriple (headerLine vt) = none := by cases vt <;> decide
theorem header_match (vt : VT) : matchHeader (headerLine vt) = some (vtName vt) := by cases vt <;> decide
theorem vtOfName_vtName (vt : VT) : vtOfName (vtName vt) = some vt := by cases vt <;> decide

/-! ### `split('\n')` of `'\n'.join` -/

theorem splitNl_noNl (l : List Char) (h : ∀ c ∈ l, c ≠ '\n') : splitNl l = [l] := by
  induction l with
  | nil => rfl
  | cons a l ih =>
    have := ih fun c hc => h c (by simp [hc])
    simp [splitNl, h a (by simp), this]

theorem splitNl_append (l rest : List Char) (h : ∀ c ∈ l, c ≠ '\n') : splitNl (l ++ '\n' :: rest) = l :: splitNl rest := by
  induction l with
  | nil => simp [splitNl]
  | cons a l ih =>
    have := ih fun c hc => h c (by simp [hc])
    simp [splitNl, h a (by simp), this]

theorem split_join (l : List Char) (ls : List (List Char)) (h : ∀ x ∈ l :: ls, ∀ c ∈ x, c ≠ '\n') : splitNl (joinNl (l :: ls)) = l :: ls := by
  induction ls generalizing l with
  | nil => simpa [joinNl] using splitNl_noNl l (h l (by simp))
  | cons m ls ih =>
    have := ih m fun x hx => h x (by simp at hx ⊢; exact Or.inr hx)
    show splitNl (l ++ '\n' :: joinNl (m :: ls)) = _
    rw [splitNl_append _ _ (h l (by simp)), this]

theorem printLine_noNl (t : Nat × Nat × Rat) : ∀ c ∈ printLine t, c ≠ '\n' := by
  obtain ⟨sg, ip, fp, hp, hsg, _, h2, _, h4⟩ := printF_shape t.2.2
  intro c hc
  simp only [printLine, hp, List.mem_append, List.mem_cons] at hc
  have dg : ∀ c, isDigit c = true → c ≠ '\n' := fun c h => digit_ne c h '\n'
  rcases hc with hc | hc | hc | hc | hc | hc | hc | hc
  · exact dg c (natDigits_digits _ c hc)
  · subst hc; decide
  · exact dg c (natDigits_digits _ c hc)
  · subst hc; decide
  · rcases hsg with h | h <;> subst h <;> simp at hc; subst hc; decide
  · exact dg c (h2 c hc)
  · subst hc; decide
  · exact dg c (h4 c hc)

theorem headerLine_noNl (vt : VT) : ∀ c ∈ headerLine vt, c ≠ '\n' := by cases vt <;> decide

theorem loads_join (arg : Option VT) (ls : List (List Char)) (h : ∀ x ∈ ls, ∀ c ∈ x, c ≠ '\n') :
    loads arg (joinNl ls) = loadLines arg ls := by
  cases ls with
  | nil => cases arg <;> rfl
  | cons l ls => rw [loads, split_join l ls h]

/-! ### the whole round trip -/

/-- `coo.loads(coo.dumps(bqm, vartype_header=hdr), vartype=arg)`: no exception, the vartype of the model, and exactly one
    mutator call per written line, in order, with the bias rounded to millionths -/
theorem loads_dumps (hdr : Bool) (vt : VT) (arg : Option VT) (labels : List Nat) (lin : Nat → Rat) (quad : Nat → Nat → Option Rat)
    (hvt : vt = .spin ∨ vt = .binary) (harg : arg = some vt ∨ (arg = none ∧ hdr = true)) :
    loads arg (dumps hdr vt labels lin quad) = some (vt, (triples labels lin quad).map loaded) := by
  rw [dumps, loads_join]
  · simp only [loadLines, dumpLines, List.foldl_append]
    cases hdr with
    | false =>
      rcases harg with h | h
      · subst h
        simp only [Bool.false_eq_true, if_false, List.foldl_nil, fold_printLines, List.nil_append]
        rcases hvt with h | h <;> subst h <;> simp [finishVartype, allSome_calls']
      · simp at h
    | true =>
      rcases harg with h | h
      · subst h
        simp only [if_true, List.foldl_cons, List.foldl_nil, stepLine, header_noTriple, header_match, vtOfName_vtName, Option.toList,
          List.append_nil, ne_eq, not_true_eq_false, if_false, fold_printLines, List.nil_append]
        rcases hvt with h | h <;> subst h <;> simp [finishVartype, allSome_calls']
      · rw [h.1]
        simp only [if_true, List.foldl_cons, List.foldl_nil, stepLine, header_noTriple, header_match, Option.toList,
          List.append_nil, fold_printLines, List.nil_append]
        rcases hvt with h | h <;> subst h <;> simp [finishVartype, allSome_calls', vtOfName_vtName]
  · intro x hx
    simp only [dumpLines, List.mem_append, List.mem_map] at hx
    rcases hx with hx | ⟨t, _, rfl⟩
    · split at hx
      · simp at hx; subst hx; exact headerLine_noNl vt
      · simp at hx
    · exact printLine_noNl t

/-! ### what the calls build -/

theorem scale_add (a b : Int) : scale (a + b) = scale a + scale b := by simp [scale, Rat.mkRat_eq_div, add_div]
theorem scale_zero : scale 0 = 0 := by simp [scale]

def sc (t : Nat × Nat × Int) : Nat × Nat × Rat := (t.1, t.2.1, scale t.2.2)

theorem sc_proj (t : Nat × Nat × Int) : (sc t).1 = t.1 ∧ (sc t).2.1 = t.2.1 ∧ (sc t).2.2 = scale t.2.2 := ⟨rfl, rfl, rfl⟩

theorem linOf_sc (l : List (Nat × Nat × Int)) (u : Nat) : linOf (l.map sc) u = scale (linSum l u) := by
  induction l with
  | nil => simp [linOf, linSum, scale_zero]
  | cons t l ih =>
    unfold linOf linSum at *
    simp only [List.map_cons, List.filter_cons]
    rw [(sc_proj t).1, (sc_proj t).2.1]
    by_cases h : t.1 = u ∧ t.2.1 = u
    · rw [if_pos (by simpa using h), if_pos (by simpa using h)]
      simp only [List.map_cons, List.sum_cons, scale_add, (sc_proj t).2.2, ih]
    · rw [if_neg (by simpa using h), if_neg (by simpa using h)]; exact ih

theorem quadOf_sc (l : List (Nat × Nat × Int)) (u v : Nat) : quadOf (l.map sc) u v = scale (quadSum l u v) := by
  induction l with
  | nil => simp [quadOf, quadSum, scale_zero]
  | cons t l ih =>
    unfold quadOf quadSum at *
    simp only [List.map_cons, List.filter_cons]
    rw [(sc_proj t).1, (sc_proj t).2.1]
    by_cases h : t.1 ≠ t.2.1 ∧ ((t.1 = u ∧ t.2.1 = v) ∨ (t.1 = v ∧ t.2.1 = u))
    · rw [if_pos (by simpa using h), if_pos (by simpa using h)]
      simp only [List.map_cons, List.sum_cons, scale_add, (sc_proj t).2.2, ih]
    · rw [if_neg (by simpa using h), if_neg (by simpa using h)]; exact ih

def r6 (t : Nat × Nat × Rat) : Nat × Nat × Int := (t.1, t.2.1, round6 t.2.2)

theorem loaded_eq (t : Nat × Nat × Rat) : loaded t = sc (r6 t) := rfl

theorem entry_r6 (lin : Nat → Rat) (quad : Nat → Nat → Option Rat) (u v : Nat) :
    (entry lin quad u v).map r6 = cooEntry (fun u => round6 (lin u)) (fun u => decide (lin u ≠ 0)) (fun u v => (quad u v).map round6) u v := by
  simp only [entry, cooEntry]
  by_cases h : u = v
  · subst h; by_cases h0 : lin u = 0 <;> simp [h0, r6]
  · cases hq : quad u v <;> simp [h, r6]

theorem filterMap_r6 (lin : Nat → Rat) (quad : Nat → Nat → Option Rat) (u : Nat) (l : List Nat) :
    (l.filterMap (entry lin quad u)).map r6 = l.filterMap (cooEntry (fun u => round6 (lin u)) (fun u => decide (lin u ≠ 0)) (fun u v => (quad u v).map round6) u) := by
  induction l with
  | nil => rfl
  | cons v l ih =>
    simp only [List.filterMap_cons]
    rw [← entry_r6]
    cases entry lin quad u v <;> simp [ih]

/-- the text-level writer, rounded, is the millionths writer of `Pack` -/
theorem rows_r6 (lin : Nat → Rat) (quad : Nat → Nat → Option Rat) (l : List Nat) :
    (rows lin quad l).map r6 = cooRows (fun u => round6 (lin u)) (fun u => decide (lin u ≠ 0)) (fun u v => (quad u v).map round6) l := by
  induction l with
  | nil => rfl
  | cons u rest ih => simp only [rows, cooRows, List.map_append, ih, filterMap_r6]

end CooText
