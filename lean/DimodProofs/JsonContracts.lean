import DimodProofs.JsonObject
import DimodProofs.BqmFileProofs

/-! # The JSON contracts discharged: the texts the writers emit are ASCII, parse back to the value,
    and none of their proper prefixes parses -/

namespace FileFmt

/-! ## ASCII -/

def AllAscii (cs : List Char) : Prop := ∀ c ∈ cs, c.toNat < 128

theorem AllAscii.append {a b : List Char} (ha : AllAscii a) (hb : AllAscii b) : AllAscii (a ++ b) := by
  intro c hc; rcases List.mem_append.mp hc with h | h; exact ha c h; exact hb c h

theorem AllAscii.cons {c : Char} {t : List Char} (hc : c.toNat < 128) (ht : AllAscii t) : AllAscii (c :: t) := by
  intro x hx; rcases List.mem_cons.mp hx with rfl | h; exact hc; exact ht x h

theorem AllAscii.nil : AllAscii [] := by intro c hc; simp at hc

theorem hexDigit_ascii : ∀ k, k < 16 → (hexDigit k).toNat < 128 := by decide

theorem u4_ascii (n : Nat) : AllAscii (u4 n) := by
  unfold u4
  refine AllAscii.cons (by decide) (AllAscii.cons (by decide) (AllAscii.cons (hexDigit_ascii _ (Nat.mod_lt _ (by decide)))
    (AllAscii.cons (hexDigit_ascii _ (Nat.mod_lt _ (by decide))) (AllAscii.cons (hexDigit_ascii _ (Nat.mod_lt _ (by decide)))
    (AllAscii.cons (hexDigit_ascii _ (Nat.mod_lt _ (by decide))) AllAscii.nil)))))

theorem escapeChar_ascii (c : Char) : AllAscii (escapeChar c) := by
  unfold escapeChar
  split; · unfold AllAscii; decide
  split; · unfold AllAscii; decide
  split; · unfold AllAscii; decide
  split; · unfold AllAscii; decide
  split; · unfold AllAscii; decide
  split; · unfold AllAscii; decide
  split; · unfold AllAscii; decide
  split
  · next h => exact AllAscii.cons (by omega) AllAscii.nil
  split
  · exact u4_ascii _
  · exact (u4_ascii _).append (u4_ascii _)

theorem flatMap_ascii (cs : List Char) : AllAscii (cs.flatMap escapeChar) := by
  intro c hc
  rw [List.mem_flatMap] at hc
  obtain ⟨x, _, hx⟩ := hc
  exact escapeChar_ascii x c hx

theorem dumpsStr_ascii (s : String) : AllAscii (dumpsStr s) := by
  unfold dumpsStr
  exact AllAscii.cons (by decide) ((flatMap_ascii _).append (AllAscii.cons (by decide) AllAscii.nil))

theorem digits_ascii (ds : List Char) (h : ∀ c ∈ ds, isDigit c = true) : AllAscii ds := by
  intro c hc
  have := h c hc
  unfold isDigit at this
  simp at this
  omega

theorem intDigits_ascii (z : Int) : AllAscii (intDigits z) := by
  unfold intDigits
  split
  · exact AllAscii.cons (by decide) (digits_ascii _ (natDigits_digits _))
  · exact digits_ascii _ (natDigits_digits _)

theorem floatText_ascii (p : FloatParts) (hp : p.OK) : AllAscii p.text := by
  unfold FloatParts.text FloatParts.body
  refine AllAscii.append (by cases p.neg <;> (unfold AllAscii; decide)) (AllAscii.append (digits_ascii _ (natDigits_digits _))
    (AllAscii.append ?_ ?_))
  · cases hf : p.frac with
    | nil => exact AllAscii.nil
    | cons d t => exact AllAscii.cons (by decide) (digits_ascii _ (fun c hc => hp.frac c (by rw [hf]; exact hc)))
  · cases he : p.exp with
    | none => exact AllAscii.nil
    | some sd =>
      obtain ⟨s, ds⟩ := sd
      obtain ⟨h1, _, h3⟩ := hp.exp s ds he
      refine AllAscii.cons (by decide) (AllAscii.append ?_ (digits_ascii _ h3))
      rcases h1 with rfl | rfl | rfl <;> (unfold AllAscii; decide)

mutual
theorem dumpsJ_ascii : ∀ v : JVal, JOK v → AllAscii (dumpsJ v)
  | .int z, _ => intDigits_ascii z
  | .flt r, hv => by obtain ⟨p, hp, hr⟩ := hv; simp only [dumpsJ, hr]; exact floatText_ascii p hp
  | .str s, _ => dumpsStr_ascii s
  | .arr l, hv => by
    simp only [dumpsJ]
    exact AllAscii.cons (by decide) ((dumpsJs_ascii l hv).append (AllAscii.cons (by decide) AllAscii.nil))
theorem dumpsJs_ascii : ∀ l : List JVal, JOKs l → AllAscii (dumpsJs l)
  | [], _ => AllAscii.nil
  | [x], hv => by simp only [dumpsJs]; exact dumpsJ_ascii x hv.1
  | x :: y :: t, hv => by
    simp only [dumpsJs]
    exact ((dumpsJ_ascii x hv.1).append (AllAscii.cons (by decide) (AllAscii.cons (by decide) AllAscii.nil))).append (dumpsJs_ascii (y :: t) hv.2)
end

theorem dumpsField_ascii (f : HField) (hf : FOK f) : AllAscii (dumpsField f) := by
  cases f with
  | val v => exact dumpsJ_ascii v hf
  | bool b => cases b <;> (unfold AllAscii; decide)

theorem dumpsItems_ascii : ∀ d : HDict, (∀ kv ∈ d, FOK kv.2) → AllAscii (dumpsItems d)
  | [], _ => AllAscii.nil
  | [kv], h => by
    simp only [dumpsItems]
    exact (dumpsStr_ascii _).append (AllAscii.append (by unfold AllAscii; decide) (dumpsField_ascii _ (h kv (by simp))))
  | kv :: kv2 :: t, h => by
    simp only [dumpsItems]
    exact (dumpsStr_ascii _).append (AllAscii.append (by unfold AllAscii; decide) ((dumpsField_ascii _ (h kv (by simp))).append
      (AllAscii.append (by unfold AllAscii; decide) (dumpsItems_ascii (kv2 :: t) (fun x hx => h x (by simp [hx]))))))

theorem dumpsDict_ascii (d : HDict) (h : ∀ kv ∈ d, FOK kv.2) : AllAscii (dumpsDict d) :=
  AllAscii.cons (by decide) ((dumpsItems_ascii d h).append (AllAscii.cons (by decide) AllAscii.nil))

theorem char_byte_roundtrip : ∀ n, n < 128 → (Char.ofNat (UInt8.ofNat n).toNat).toNat = n := by decide

theorem asciiChars_asciiBytes (cs : List Char) (h : AllAscii cs) : asciiChars (asciiBytes cs) = cs := by
  unfold asciiChars asciiBytes
  rw [List.map_map]
  conv => rhs; rw [← List.map_id cs]
  apply List.map_congr_left
  intro c hc
  have hlt := h c hc
  have h2 : (UInt8.ofNat c.toNat).toNat = c.toNat := by simp [UInt8.toNat_ofNat']; omega
  simp only [Function.comp, id, h2, Char.ofNat_toNat]

theorem asciiBytes_lt (cs : List Char) (h : AllAscii cs) : ∀ b ∈ asciiBytes cs, b < 128 := by
  intro b hb
  unfold asciiBytes at hb
  rw [List.mem_map] at hb
  obtain ⟨c, hc, rfl⟩ := hb
  have := h c hc
  have h2 : (UInt8.ofNat c.toNat).toNat = c.toNat := by simp [UInt8.toNat_ofNat']; omega
  exact UInt8.lt_iff_toNat_lt.mpr (by rw [h2]; exact this)

theorem asciiChars_blank (ws : Bytes) (h : ∀ b ∈ ws, b = 32 ∨ b = 10) : Blank (asciiChars ws) := by
  intro c hc
  unfold asciiChars at hc
  rw [List.mem_map] at hc
  obtain ⟨b, hb, rfl⟩ := hc
  rcases h b hb with rfl | rfl <;> decide

/-! ## the contracts, for the real parsers -/

theorem asciiChars_append (a b : Bytes) : asciiChars (a ++ b) = asciiChars a ++ asciiChars b := by simp [asciiChars]

theorem asciiChars_take (b : Bytes) (k : Nat) : asciiChars (b.take k) = (asciiChars b).take k := by
  simp [asciiChars, List.map_take]

theorem asciiBytes_length (cs : List Char) : (asciiBytes cs).length = cs.length := by simp [asciiBytes]

/-- **the `VARS` contract holds for `json.loads`**: the dumped label array followed by padding
    parses to the labels, and no proper prefix of it parses -/
theorem vars_contract (ls : List JVal) (hl : JOKs ls) : JsonContract parseVarsReal (asciiBytes (dumpsJ (.arr ls))) ls := by
  have hok : JOK (.arr ls) := by simpa [JOK] using hl
  have hasc := dumpsJ_ascii (.arr ls) hok
  constructor
  · intro ws hws
    unfold parseVarsReal
    rw [asciiChars_append, asciiChars_asciiBytes _ hasc, ← dumpsE_false, loadsJ_dumpsE false _ hok _ (asciiChars_blank ws hws)]
  · intro k hk
    rw [asciiBytes_length] at hk
    unfold parseVarsReal
    rw [asciiChars_take, asciiChars_asciiBytes _ hasc, ← dumpsE_false,
      loadsJ_dumps_prefix_none false _ hok (by right; rfl) k (by rw [dumpsE_false]; exact hk)]

theorem VarsOK_real (ls : List JVal) (hl : JOKs ls) (hsize : (dumpsJ (.arr ls)).length + 64 < 256 ^ nlb4) :
    VarsOK parseVarsReal (asciiBytes (dumpsJ (.arr ls))) ls :=
  ⟨vars_contract ls hl, asciiBytes_lt _ (dumpsJ_ascii _ (by simpa [JOK] using hl)), by rw [asciiBytes_length]; exact hsize⟩

theorem fieldSize_le (f : HField) (hf : FOK f) : fieldSize f ≤ (dumpsField f).length := by
  cases f with
  | val v => have := sizeJ_le_length false v hf; rw [dumpsE_false] at this; exact this
  | bool b => cases b <;> decide

theorem items_bounds : ∀ d : HDict, (∀ kv ∈ d, (dumpsField kv.2).length ≤ (dumpsItems d).length) ∧ d.length ≤ (dumpsItems d).length + 1
  | [] => by simp
  | [kv] => by
    constructor
    · intro x hx; simp only [List.mem_singleton] at hx; subst hx
      simp only [dumpsItems, List.length_append]; omega
    · simp
  | kv :: kv2 :: t => by
    obtain ⟨i1, i2⟩ := items_bounds (kv2 :: t)
    constructor
    · intro x hx
      simp only [dumpsItems, List.length_append, List.length_cons, List.length_nil]
      rcases List.mem_cons.mp hx with rfl | hx
      · omega
      · have := i1 x hx; omega
    · simp only [dumpsItems, List.length_append, List.length_cons, List.length_nil] at i2 ⊢; omega

/-- **the header contract holds for `json.loads`** + any field extraction `g` that accepts the dictionary -/
theorem dict_contract (g : HDict → Option Q) (d : HDict) (q : Q) (hd : ∀ kv ∈ d, FOK kv.2) (hg : g d = some q) :
    JsonContract (fun b => (loadsDict (asciiChars b)).bind g) (asciiBytes (dumpsDict d)) q := by
  have hasc := dumpsDict_ascii d hd
  obtain ⟨b1, b2⟩ := items_bounds d
  have hsz : ∀ kv ∈ d, fieldSize kv.2 ≤ (dumpsDict d).length + 1 := by
    intro kv hkv
    have := fieldSize_le kv.2 (hd kv hkv)
    have := b1 kv hkv
    simp only [dumpsDict, List.length_cons, List.length_append, List.length_nil]; omega
  have hlen : d.length ≤ (dumpsDict d).length + 1 := by
    simp only [dumpsDict, List.length_cons, List.length_append, List.length_nil]; omega
  constructor
  · intro ws hws
    simp only [asciiChars_append, asciiChars_asciiBytes _ hasc, loadsDict_dumps d hd hsz hlen _ (asciiChars_blank ws hws), Option.bind, hg]
  · intro k hk
    rw [asciiBytes_length] at hk
    simp only [asciiChars_take, asciiChars_asciiBytes _ hasc, loadsDict_prefix_none d hd hsz hlen k hk, Option.bind]

theorem HeaderOK_dict (g : HDict → Option Q) (d : HDict) (q : Q) (hd : ∀ kv ∈ d, FOK kv.2) (hg : g d = some q)
    (hlen : (dumpsDict d).length + 65 < 2 ^ 32) :
    HeaderOK (fun b => (loadsDict (asciiChars b)).bind g) (asciiBytes (dumpsDict d)) q :=
  ⟨dict_contract g d q hd hg, asciiBytes_lt _ (dumpsDict_ascii d hd), by rw [asciiBytes_length]; exact hlen⟩

/-! ## the dictionaries of the header builders parse to the headers the loaders use -/

theorem varsField_FOK (v : VarsField JVal) (h : ∀ l, v = .labels l → JOKs l) : FOK (varsField v) := by
  cases v with
  | flag b => trivial
  | labels l => simpa [varsField, FOK, JOK] using h l rfl

theorem sizes_ok (dsz isz : Nat) (hd : dsz = 4 ∨ dsz = 8) (hi : isz = 4 ∨ isz = 8) :
    sizeOfDtype (dtypeName dsz) = some dsz ∧ sizeOfItype (itypeName isz) = some isz := by
  rcases hd with rfl | rfl <;> rcases hi with rfl | rfl <;> simp [sizeOfDtype, dtypeName, sizeOfItype, itypeName]

theorem qm_dict_parses (dsz isz : Nat) (c : QContent) (labels : List FLabel) (hd : dsz = 4 ∨ dsz = 8) (hi : isz = 4 ∨ isz = 8) :
    qheaderOfDict false false true (qmDict (qmHeaderDict dsz isz c labels)) =
      some { nvars := c.linear.length, ninter := rowsCount c.lower, dsize := dsz, isize := isz, nsize := isz, vartype := 0,
             vars := .flag (!isRangeFrom 0 labels) } := by
  obtain ⟨s1, s2⟩ := sizes_ok dsz isz hd hi
  simp [qheaderOfDict, qmDict, qmHeaderDict, HDict.get?, List.find?, varsField, s1, s2]

theorem bqm_dict_parses (ver : Nat) (ignore : Bool) (vartype dsz isz : Nat) (c : QContent) (labels : List FLabel)
    (hd : dsz = 4 ∨ dsz = 8) (hi : isz = 4 ∨ isz = 8) (hv : vartype = 0 ∨ vartype = 1) :
    qheaderOfDict true true true (bqmDict (bqmHeaderDict ver ignore vartype dsz isz c labels)) =
      some ((bqmHeaderDict ver ignore vartype dsz isz c labels).toQHeader dsz isz vartype) := by
  obtain ⟨s1, s2⟩ := sizes_ok dsz isz hd hi
  have hvt : (if vartypeName vartype = "SPIN" then some 0 else if vartypeName vartype = "BINARY" then some 1 else none) = some vartype := by
    rcases hv with rfl | rfl <;> simp [vartypeName]
  cases hvars : (bqmHeaderDict ver ignore vartype dsz isz c labels).variables with
  | flag b =>
    simp only [qheaderOfDict, bqmDict, HDict.get?, List.find?, hvars, varsField]
    simp [bqmHeaderDict, s1, s2, hvt, HeaderDict.toQHeader, hvars]
    have hv2 := hvars; simp only [bqmHeaderDict] at hv2; exact hv2.symm
  | labels l =>
    simp only [qheaderOfDict, bqmDict, HDict.get?, List.find?, hvars, varsField]
    simp [bqmHeaderDict, s1, s2, hvt, HeaderDict.toQHeader, hvars]
    have hv2 := hvars; simp only [bqmHeaderDict] at hv2; exact hv2.symm

/-! ## whole files with no JSON oracle -/

theorem JOKs_ints (n : Nat) : JOKs ((List.range n).map fun (i : Nat) => JVal.int (i : Int)) := by
  induction n with
  | zero => simp [JOKs]
  | succ n ih =>
    rw [List.range_succ, List.map_append]
    generalize (List.range n).map (fun (i : Nat) => JVal.int (i : Int)) = l at ih
    induction l with
    | nil => simp [JOKs, JOK]
    | cons x t iht => exact ⟨ih.1, iht ih.2⟩

/-- the header of `QuadraticModel.to_file`, as the loader reads it -/
def qmHeaderOf (dsz isz : Nat) (c : QContent) (labels : List FLabel) : QHeader JVal :=
  { nvars := c.linear.length, ninter := rowsCount c.lower, dsize := dsz, isize := isz, nsize := isz, vartype := 0,
    vars := .flag (!isRangeFrom 0 labels) }

/-- the header text and the `VARS` text `to_file` writes, as bytes -/
def qmHeaderText (dsz isz : Nat) (c : QContent) (labels : List FLabel) : Bytes :=
  asciiBytes (dumpsDict (qmDict (qmHeaderDict dsz isz c labels)))

def varsTextOf (labels : List FLabel) : Bytes := asciiBytes (dumpsJ (.arr (serializeLabels labels)))

theorem qm_header_ok (dsz isz : Nat) (c : QContent) (labels : List FLabel) (hd : dsz = 4 ∨ dsz = 8) (hi : isz = 4 ∨ isz = 8)
    (hlen : (dumpsDict (qmDict (qmHeaderDict dsz isz c labels))).length + 65 < 2 ^ 32) :
    HeaderOK parseQmHeader (qmHeaderText dsz isz c labels) (qmHeaderOf dsz isz c labels) := by
  refine HeaderOK_dict _ _ _ ?_ (qm_dict_parses dsz isz c labels hd hi) hlen
  intro kv hkv
  simp only [qmDict, List.mem_cons, List.not_mem_nil, or_false] at hkv
  rcases hkv with rfl | rfl | rfl | rfl | rfl <;> simp [FOK, JOK, JOKs, varsField, qmHeaderDict]

/-- **QM files, end to end, no JSON oracle**: the model writes the header dictionary text and the label
    array text itself, the loader parses them with the modelled `json.loads` -/
theorem Comp.qm_json (dsz isz : Nat) (vi : VarInfo) (c : QContent) (labels : List FLabel)
    (hd : dsz = 4 ∨ dsz = 8) (hi : isz = 4 ∨ isz = 8) (hl : JOKs (serializeLabels labels))
    (wf : QmWF (qmHeaderOf dsz isz c labels) vi c)
    (hlen : (dumpsDict (qmDict (qmHeaderDict dsz isz c labels))).length + 65 < 2 ^ 32)
    (hvlen : (dumpsJ (.arr (serializeLabels labels))).length + 64 < 256 ^ nlb4) :
    ∃ pad, pad < 64 ∧ Comp (qmDecode true parseQmHeader parseVarsReal)
      (qmEncode (qmHeaderText dsz isz c labels) (qmHeaderOf dsz isz c labels) vi c (varsTextOf labels))
      (qmResult (qmHeaderOf dsz isz c labels) vi c (serializeLabels labels)) pad :=
  Comp.qm parseQmHeader parseVarsReal _ _ _ vi c (serializeLabels labels) (qm_header_ok dsz isz c labels hd hi hlen) wf
    (fun _ => VarsOK_real _ hl hvlen)

/-- the header of `BinaryQuadraticModel.to_file(version, ignore_labels)` as the loader reads it -/
def bqmHeaderOf (ver : Nat) (ignore : Bool) (vartype dsz isz : Nat) (c : QContent) (labels : List FLabel) : QHeader JVal :=
  (bqmHeaderDict ver ignore vartype dsz isz c labels).toQHeader dsz isz vartype

def bqmHeaderText (ver : Nat) (ignore : Bool) (vartype dsz isz : Nat) (c : QContent) (labels : List FLabel) : Bytes :=
  asciiBytes (dumpsDict (bqmDict (bqmHeaderDict ver ignore vartype dsz isz c labels)))

theorem bqm_header_ok (ver : Nat) (ignore : Bool) (vartype dsz isz : Nat) (c : QContent) (labels : List FLabel)
    (hd : dsz = 4 ∨ dsz = 8) (hi : isz = 4 ∨ isz = 8) (hv : vartype = 0 ∨ vartype = 1) (hl : JOKs (serializeLabels labels))
    (hlen : (dumpsDict (bqmDict (bqmHeaderDict ver ignore vartype dsz isz c labels))).length + 65 < 2 ^ 32) :
    HeaderOK parseBqmHeader (bqmHeaderText ver ignore vartype dsz isz c labels) (bqmHeaderOf ver ignore vartype dsz isz c labels) := by
  refine HeaderOK_dict _ _ _ ?_ (bqm_dict_parses ver ignore vartype dsz isz c labels hd hi hv) hlen
  intro kv hkv
  simp only [bqmDict, List.mem_cons, List.not_mem_nil, or_false] at hkv
  rcases hkv with rfl | rfl | rfl | rfl | rfl | rfl | rfl <;> try (simp [FOK, JOK, JOKs])
  apply varsField_FOK
  intro l hlab
  simp only [bqmHeaderDict] at hlab
  split at hlab
  · simp only [VarsField.labels.injEq] at hlab
    subst hlab
    split
    · exact JOKs_ints _
    · exact hl
  · simp at hlab

/-- **BQM files (format 1 and 2, with or without `ignore_labels`), end to end, no JSON oracle** -/
theorem Comp.bqm_json (maj : UInt8) (ignore : Bool) (vartype dsz isz : Nat) (c : QContent) (labels : List FLabel)
    (hmaj : maj.toNat < 3) (hd : dsz = 4 ∨ dsz = 8) (hi : isz = 4 ∨ isz = 8) (hv : vartype = 0 ∨ vartype = 1)
    (hl : JOKs (serializeLabels labels))
    (wf : BqmWF (bqmHeaderOf maj.toNat ignore vartype dsz isz c labels) c)
    (hlen : (dumpsDict (bqmDict (bqmHeaderDict maj.toNat ignore vartype dsz isz c labels))).length + 65 < 2 ^ 32)
    (hvlen : (dumpsJ (.arr (serializeLabels labels))).length + 64 < 256 ^ nlb4) :
    ∃ pad, pad < 64 ∧ Comp (bqmDecode parseBqmHeader parseVarsReal)
      (bqmEncode maj (bqmHeaderText maj.toNat ignore vartype dsz isz c labels) (bqmHeaderOf maj.toNat ignore vartype dsz isz c labels) c
        (varsTextOf labels))
      (bqmResult maj (bqmHeaderOf maj.toNat ignore vartype dsz isz c labels) c (serializeLabels labels)) pad := by
  refine Comp.bqm parseBqmHeader parseVarsReal maj _ _ _ c (serializeLabels labels) hmaj
    (bqm_header_ok maj.toNat ignore vartype dsz isz c labels hd hi hv hl hlen) wf ?_ (fun _ _ => VarsOK_real _ hl hvlen)
  intro h2
  simp only [bqmHeaderOf, HeaderDict.toQHeader, bqmHeaderDict, h2, if_true]
  exact ⟨_, rfl⟩

end FileFmt
