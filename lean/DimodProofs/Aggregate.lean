import DimodProofs.SortPerm

/-! `SampleSet.aggregate` as coded (np.unique + un-sorting + accumulation) equals the specification
    `aggSpec`, for every result of `np.unique` that satisfies its contract. -/

namespace SSM

/-! ### first occurrences -/

theorem idxOf_cons_ne [BEq α] [LawfulBEq α] {a y : α} (l : List α) (h : a ≠ y) : (a :: l).idxOf y = l.idxOf y + 1 := by
  have : (a == y) = false := by simpa using h
  simp [List.idxOf_cons, this]

theorem idxOf_cons_self [BEq α] [LawfulBEq α] (a : α) (l : List α) : (a :: l).idxOf a = 0 := by
  simp [List.idxOf_cons]

theorem mem_firstsAux [DecidableEq α] {seen l : List α} {x : α} :
    x ∈ firstsAux seen l ↔ x ∈ l ∧ x ∉ seen := by
  induction l generalizing seen with
  | nil => simp [firstsAux]
  | cons a l ih =>
    unfold firstsAux
    by_cases h : a ∈ seen
    · simp only [h, if_true, ih, List.mem_cons]
      constructor
      · rintro ⟨h1, h2⟩; exact ⟨Or.inr h1, h2⟩
      · rintro ⟨h1 | h1, h2⟩
        · subst h1; exact absurd h h2
        · exact ⟨h1, h2⟩
    · simp only [h, if_false, List.mem_cons, ih, not_or]
      constructor
      · rintro (h1 | ⟨h1, h2, h3⟩)
        · subst h1; exact ⟨Or.inl rfl, h⟩
        · exact ⟨Or.inr h1, h3⟩
      · rintro ⟨h1 | h1, h2⟩
        · exact Or.inl h1
        · by_cases hx : x = a
          · exact Or.inl hx
          · exact Or.inr ⟨h1, hx, h2⟩

theorem nodup_firstsAux [DecidableEq α] (seen l : List α) : (firstsAux seen l).Nodup := by
  induction l generalizing seen with
  | nil => simp [firstsAux]
  | cons a l ih =>
    unfold firstsAux
    by_cases h : a ∈ seen
    · simp only [h, if_true]; exact ih seen
    · simp only [h, if_false, List.nodup_cons]
      refine ⟨?_, ih _⟩
      intro hm
      have := (mem_firstsAux.mp hm).2
      simp at this

theorem mem_firsts [DecidableEq α] {l : List α} {x : α} : x ∈ firsts l ↔ x ∈ l := by
  simp [firsts, mem_firstsAux]

theorem nodup_firsts [DecidableEq α] (l : List α) : (firsts l).Nodup := nodup_firstsAux [] l

/-- first occurrences come out in the order of their positions -/
theorem firstsAux_idxOf_pairwise [DecidableEq α] [BEq α] [LawfulBEq α] (seen l : List α) :
    (firstsAux seen l).Pairwise (fun x y => l.idxOf x < l.idxOf y) := by
  induction l generalizing seen with
  | nil => simp [firstsAux]
  | cons a l ih =>
    unfold firstsAux
    by_cases h : a ∈ seen
    · simp only [h, if_true]
      refine (ih seen).imp_of_mem ?_
      intro x y hx hy hxy
      have hxa : a ≠ x := by rintro rfl; exact (mem_firstsAux.mp hx).2 h
      have hya : a ≠ y := by rintro rfl; exact (mem_firstsAux.mp hy).2 h
      rw [idxOf_cons_ne l hxa, idxOf_cons_ne l hya]
      omega
    · simp only [h, if_false, List.pairwise_cons]
      constructor
      · intro y hy
        have hya : a ≠ y := by
          rintro rfl
          have := (mem_firstsAux.mp hy).2
          simp at this
        rw [idxOf_cons_self, idxOf_cons_ne l hya]
        omega
      · refine (ih (a :: seen)).imp_of_mem ?_
        intro x y hx hy hxy
        have hxa : a ≠ x := by
          rintro rfl
          have := (mem_firstsAux.mp hx).2
          simp at this
        have hya : a ≠ y := by
          rintro rfl
          have := (mem_firstsAux.mp hy).2
          simp at this
        rw [idxOf_cons_ne l hxa, idxOf_cons_ne l hya]
        omega

theorem firsts_idxOf_sorted [DecidableEq α] [BEq α] [LawfulBEq α] (l : List α) :
    ((firsts l).map (l.idxOf ·)).Pairwise (· < ·) :=
  List.pairwise_map.mpr (firstsAux_idxOf_pairwise [] l)

end SSM

namespace SSM

/-! ### the contract of `np.unique(axis=0, return_index=True, return_inverse=True)` -/

structure UniqueSpec (xs : List (List Rat)) (U : Unique) : Prop where
  nodup : U.u.Nodup
  mem : ∀ x, x ∈ U.u ↔ x ∈ xs
  indices : U.indices = U.u.map (xs.idxOf ·)
  inverse : U.inverse = xs.map (U.u.idxOf ·)

/-- the executable `npUnique` satisfies the contract -/
theorem npUnique_spec (xs : List (List Rat)) : UniqueSpec xs (npUnique xs) where
  nodup := (List.mergeSort_perm _ _).nodup_iff.mpr (nodup_firsts xs)
  mem := fun x => by
    show x ∈ (firsts xs).mergeSort lexLe ↔ x ∈ xs
    rw [(List.mergeSort_perm _ _).mem_iff, mem_firsts]
  indices := rfl
  inverse := rfl

/-! ### un-sorting of the unique indices -/

theorem aggregate_indices (xs : List (List Rat)) (U : Unique) (h : UniqueSpec xs U) :
    gather U.indices (argsortNat U.indices) = (firsts xs).map (xs.idxOf ·) := by
  have hs := argsortBy_isSortingPerm (fun (a b : Nat) => decide (a ≤ b))
    (fun a b c => by simp only [decide_eq_true_eq]; omega) (fun a b => by simp only [Bool.or_eq_true, decide_eq_true_eq]; omega) U.indices
  have hperm : (gather U.indices (argsortNat U.indices)).Perm ((firsts xs).map (xs.idxOf ·)) := by
    refine (gather_perm _ _ hs.1).trans ?_
    rw [h.indices]
    refine List.Perm.map _ ?_
    exact (List.perm_ext_iff_of_nodup h.nodup (nodup_firsts xs)).mpr (fun a => by rw [h.mem, mem_firsts])
  refine List.Perm.eq_of_pairwise (le := fun (a b : Nat) => a ≤ b) (fun a b _ _ h1 h2 => Nat.le_antisymm h1 h2) ?_ ?_ hperm
  · exact hs.2.imp (fun h => by simpa using h)
  · exact (firsts_idxOf_sorted xs).imp (fun h => Nat.le_of_lt h)

/-! ### `revorder[order] = arange(n)` -/

theorem length_foldl_set (pairs : List (Nat × Nat)) (init : List Nat) :
    (pairs.foldl (fun acc p => acc.set p.1 p.2) init).length = init.length := by
  induction pairs generalizing init with
  | nil => rfl
  | cons q rest ih => simp [List.foldl_cons, ih]

theorem foldl_set_untouched (pairs : List (Nat × Nat)) (init : List Nat) (j : Nat) (hj : ∀ p ∈ pairs, p.1 ≠ j) :
    (pairs.foldl (fun acc p => acc.set p.1 p.2) init)[j]? = init[j]? := by
  induction pairs generalizing init with
  | nil => rfl
  | cons q rest ih =>
    rw [List.foldl_cons, ih _ (fun p hp => hj p (by simp [hp])), List.getElem?_set]
    simp [hj q (by simp)]

theorem foldl_set_getElem? (pairs : List (Nat × Nat)) (init : List Nat) (hnd : (pairs.map (·.1)).Nodup)
    (hlt : ∀ p ∈ pairs, p.1 < init.length) :
    ∀ p ∈ pairs, (pairs.foldl (fun acc p => acc.set p.1 p.2) init)[p.1]? = some p.2 := by
  induction pairs generalizing init with
  | nil => simp
  | cons q rest ih =>
    intro p hp
    rw [List.foldl_cons]
    simp only [List.map_cons, List.nodup_cons] at hnd
    rcases List.mem_cons.mp hp with rfl | hp'
    · rw [foldl_set_untouched]
      · simp [List.getElem?_set, hlt p (by simp)]
      · intro r hr heq
        exact hnd.1 (heq ▸ List.mem_map_of_mem hr)
    · exact ih _ hnd.2 (fun r hr => by simpa using hlt r (by simp [hr])) p hp'

theorem length_scatter (order : List Nat) : (scatter order).length = order.length := by
  simp [scatter, length_foldl_set]

theorem scatter_spec (order : List Nat) (hnd : order.Nodup) (hlt : ∀ i ∈ order, i < order.length)
    (k : Nat) (hk : k < order.length) : (scatter order)[order[k]]? = some k := by
  have hfst : (order.zipIdx).map (·.1) = order := by
    rw [List.zipIdx_eq_zip_range']; exact List.map_fst_zip (by simp)
  have hmem : (order[k], k) ∈ order.zipIdx := by
    rw [List.mem_iff_getElem?]
    exact ⟨k, by simp [List.getElem?_zipIdx, List.getElem?_eq_getElem hk]⟩
  exact foldl_set_getElem? order.zipIdx _ (by rw [hfst]; exact hnd)
    (fun p hp => by
      have : p.1 ∈ order := by rw [← hfst]; exact List.mem_map_of_mem hp
      simpa using hlt _ this) _ hmem

end SSM

namespace SSM

theorem getD_eq_getElem (l : List α) (d : α) {i : Nat} (h : i < l.length) : l.getD i d = l[i] := by
  simp [List.getD, List.getElem?_eq_getElem h]

theorem argsortNat_lt (keys : List Nat) : ∀ i ∈ argsortNat keys, i < keys.length := argsortBy_lt _ keys

/-- the un-sorted inverse sends every row to the position of its sample among the first occurrences -/
theorem aggregate_inverse (xs : List (List Rat)) (U : Unique) (h : UniqueSpec xs U) :
    gather (scatter (argsortNat U.indices)) U.inverse = xs.map ((firsts xs).idxOf ·) := by
  have hperm := argsortBy_perm (fun (a b : Nat) => decide (a ≤ b)) U.indices
  have hlenI : U.indices.length = U.u.length := by rw [h.indices]; simp
  have hlenO : (argsortNat U.indices).length = U.u.length := by
    have := hperm.length_eq; simp only [List.length_range] at this; exact this.trans hlenI
  have hnd : (argsortNat U.indices).Nodup := hperm.nodup_iff.mpr List.nodup_range
  have hlt : ∀ i ∈ argsortNat U.indices, i < (argsortNat U.indices).length := fun i hi => by
    rw [hlenO, ← hlenI]; exact argsortBy_lt _ _ i hi
  have hinv : ∀ j ∈ U.inverse, j < (scatter (argsortNat U.indices)).length := by
    intro j hj
    rw [h.inverse] at hj
    obtain ⟨x, hx, rfl⟩ := List.mem_map.mp hj
    rw [length_scatter, hlenO]
    exact List.idxOf_lt_length_iff.mpr ((h.mem x).mpr hx)
  rw [gather_eq_map _ _ hinv 0, h.inverse, List.map_map]
  apply List.map_congr_left
  intro x hx
  simp only [Function.comp]
  -- j : position of x among the unique rows; k : the position with order[k] = j
  have hxu : x ∈ U.u := (h.mem x).mpr hx
  have hj : U.u.idxOf x < U.u.length := List.idxOf_lt_length_iff.mpr hxu
  have hjmem : U.u.idxOf x ∈ argsortNat U.indices := hperm.mem_iff.mpr (by simpa [hlenI] using hj)
  obtain ⟨k, hk, hkj⟩ := List.mem_iff_getElem.mp hjmem
  have hsc := scatter_spec _ hnd hlt k hk
  rw [hkj] at hsc
  have hscl : U.u.idxOf x < (scatter (argsortNat U.indices)).length := by rw [length_scatter, hlenO]; exact hj
  rw [getD_eq_getElem _ _ hscl]
  have : (scatter (argsortNat U.indices))[U.u.idxOf x] = k := by
    have := List.getElem?_eq_getElem hscl ▸ hsc
    simpa using this
  rw [this]
  -- indices[k] is the first index of x, and also the first index of F[k]
  have hF := aggregate_indices xs U h
  have hkF : k < (firsts xs).length := by
    have := congrArg List.length hF
    rw [length_gather _ _ (argsortNat_lt _), List.length_map] at this
    omega
  have hidx : (gather U.indices (argsortNat U.indices))[k]? = some (xs.idxOf x) := by
    rw [getElem?_gather _ _ (argsortNat_lt _), List.getElem?_eq_getElem hk]
    simp only [Option.bind_some]
    rw [hkj, h.indices, List.getElem?_map, List.getElem?_eq_getElem hj, Option.map_some, List.getElem_idxOf hj]
  rw [hF, List.getElem?_map, List.getElem?_eq_getElem hkF, Option.map_some, Option.some.injEq] at hidx
  have hFk : (firsts xs)[k] = x := by
    have h1 : (firsts xs)[k] ∈ xs := mem_firsts.mp (List.getElem_mem hkF)
    have a := List.getElem_idxOf (List.idxOf_lt_length_iff.mpr h1)
    have b := List.getElem_idxOf (List.idxOf_lt_length_iff.mpr hx)
    rw [← a, ← b]; simp [hidx]
  rw [← hFk]
  exact ((nodup_firsts xs).idxOf_getElem k hkF).symm

end SSM

namespace SSM

/-! ### accumulation of the occurrences -/

def occSum (pairs : List (Nat × Int)) (k : Nat) : Int := ((pairs.filter (·.1 = k)).map (·.2)).sum

theorem foldl_addOcc (rec0 : List Row) (pairs : List (Nat × Int)) :
    pairs.foldl (fun rec p => addOcc rec p.1 p.2) rec0
      = rec0.zipIdx.map (fun p => { p.1 with occ := p.1.occ + occSum pairs p.2 }) := by
  induction pairs generalizing rec0 with
  | nil =>
    simp only [List.foldl_nil, occSum, List.filter_nil, List.map_nil, List.sum_nil, Int.add_zero]
    apply List.ext_getElem?; intro j
    simp [List.getElem?_zipIdx]
  | cons q rest ih =>
    rw [List.foldl_cons, ih]
    apply List.ext_getElem?; intro j
    simp only [List.getElem?_map, List.getElem?_zipIdx, addOcc, List.getElem?_modify, Nat.zero_add]
    cases rec0[j]? with
    | none => simp
    | some r =>
      simp only [Option.map_some, Functor.map]
      by_cases hq : q.1 = j
      · simp [hq, occSum, List.filter_cons, Int.add_assoc]
      · simp [hq, occSum, List.filter_cons]

/-! ### the specification as a map over the first occurrences -/

def Row.zero : Row := ⟨[], 0, 0, []⟩

/-- the aggregated row of sample `x`: the first row carrying `x`, with all occurrences of `x` -/
def aggRow (rows : List Row) (x : List Rat) : Row :=
  { rows.getD ((rows.map (·.sample)).idxOf x) Row.zero with
    occ := ((rows.filter (·.sample = x)).map (·.occ)).sum }

theorem aggRow_cons_self (r : Row) (rs : List Row) :
    aggRow (r :: rs) r.sample = { r with occ := r.occ + ((rs.filter (·.sample = r.sample)).map (·.occ)).sum } := by
  simp [aggRow, idxOf_cons_self, List.filter_cons]

theorem aggRow_cons_ne (r : Row) (rs : List Row) (x : List Rat) (h : r.sample ≠ x) :
    aggRow (r :: rs) x = aggRow rs x := by
  simp [aggRow, idxOf_cons_ne _ h, List.filter_cons, h]

theorem aggSpecAux_eq (seen : List (List Rat)) (rs : List Row) :
    aggSpecAux seen rs = (firstsAux seen (rs.map (·.sample))).map (aggRow rs) := by
  induction rs generalizing seen with
  | nil => simp [aggSpecAux, firstsAux]
  | cons r rs ih =>
    unfold aggSpecAux
    simp only [List.map_cons, firstsAux]
    by_cases h : r.sample ∈ seen
    · simp only [h, if_true, ih]
      apply List.map_congr_left
      intro x hx
      have : r.sample ≠ x := by rintro rfl; exact (mem_firstsAux.mp hx).2 h
      exact (aggRow_cons_ne r rs x this).symm
    · simp only [h, if_false, List.map_cons, aggRow_cons_self, ih]
      congr 1
      apply List.map_congr_left
      intro x hx
      have : r.sample ≠ x := by
        rintro rfl
        have := (mem_firstsAux.mp hx).2
        simp at this
      exact (aggRow_cons_ne r rs x this).symm

theorem aggSpec_eq (rows : List Row) : aggSpec rows = (firsts (rows.map (·.sample))).map (aggRow rows) :=
  aggSpecAux_eq [] rows

/-! ### assembly -/

theorem aggregateWith_eq_aggSpec (rows : List Row) (U : Unique) (h : UniqueSpec (rows.map (·.sample)) U) :
    aggregateWith U rows = aggSpec rows := by
  unfold aggregateWith
  simp only []
  rw [aggregate_indices _ U h, aggregate_inverse _ U h, aggSpec_eq, foldl_addOcc]
  generalize hF : firsts (rows.map (·.sample)) = F
  have hFnd : F.Nodup := hF ▸ nodup_firsts _
  have hFmem : ∀ x, x ∈ F ↔ x ∈ rows.map (·.sample) := fun x => hF ▸ mem_firsts
  have hidx : ∀ i ∈ F.map ((rows.map (·.sample)).idxOf ·), i < rows.length := by
    intro i hi
    obtain ⟨x, hx, rfl⟩ := List.mem_map.mp hi
    simpa using List.idxOf_lt_length_iff.mpr ((hFmem x).mp hx)
  rw [gather_eq_map _ _ hidx Row.zero, List.map_map, List.map_map]
  apply List.ext_getElem?; intro k
  simp only [List.getElem?_map, List.getElem?_zipIdx, Nat.zero_add]
  cases hk : F[k]? with
  | none => simp
  | some x =>
    simp only [Option.map_some, Function.comp, aggRow]
    have hkl : k < F.length := (List.getElem?_eq_some_iff.mp hk).1
    have hFk : F[k] = x := (List.getElem?_eq_some_iff.mp hk).2
    congr 2
    -- the accumulated occurrences are those of the rows carrying `x`
    simp only [occSum, Int.zero_add, List.zip_map', List.map_map]
    rw [List.filter_map, List.map_map]
    have : (fun r : Row => r.occ) = (fun p : Nat × Int => p.2) ∘ (fun r : Row => (F.idxOf r.sample, r.occ)) := rfl
    rw [this]
    congr 2
    apply List.filter_congr
    intro r hr
    have hrF : r.sample ∈ F := (hFmem _).mpr (List.mem_map_of_mem hr)
    simp only [Function.comp, decide_eq_decide]
    constructor
    · intro e
      have := List.getElem_idxOf (List.idxOf_lt_length_iff.mpr hrF)
      rw [← this, ← hFk]; simp [e]
    · intro e
      rw [e, ← hFk]; exact hFnd.idxOf_getElem k hkl

end SSM

namespace SSM

/-! ### what the specification says -/

theorem aggRow_sample (rows : List Row) (x : List Rat) (hx : x ∈ rows.map (·.sample)) : (aggRow rows x).sample = x := by
  have hk : (rows.map (·.sample)).idxOf x < (rows.map (·.sample)).length := List.idxOf_lt_length_iff.mpr hx
  have hk' : (rows.map (·.sample)).idxOf x < rows.length := by simpa using hk
  have := List.getElem_idxOf hk
  simp only [List.getElem_map] at this
  simp [aggRow, List.getElem?_eq_getElem hk', this]

theorem idxOf_le_of_getElem [BEq α] [LawfulBEq α] (l : List α) (j : Nat) (hj : j < l.length) :
    l.idxOf l[j] ≤ j := by
  induction l generalizing j with
  | nil => simp at hj
  | cons a l ih =>
    cases j with
    | zero => simp [List.idxOf_cons]
    | succ j =>
      have hj' : j < l.length := by simpa using hj
      simp only [List.getElem_cons_succ, List.idxOf_cons]
      cases a == l[j] with
      | true => simp
      | false => simp only [cond_false]; have := ih j hj'; omega

/-- the aggregated row of a sample has energy and extra fields of the first row carrying it -/
theorem aggRow_fields (rows : List Row) (x : List Rat) (hx : x ∈ rows.map (·.sample)) :
    ∃ k, ∃ hk : k < rows.length, rows[k].sample = x ∧ (∀ j (hj : j < rows.length), j < k → rows[j].sample ≠ x) ∧
      (aggRow rows x).energy = rows[k].energy ∧ (aggRow rows x).extra = rows[k].extra := by
  have hk : (rows.map (·.sample)).idxOf x < (rows.map (·.sample)).length := List.idxOf_lt_length_iff.mpr hx
  have hk' : (rows.map (·.sample)).idxOf x < rows.length := by simpa using hk
  refine ⟨_, hk', ?_, ?_, ?_, ?_⟩
  · have := List.getElem_idxOf hk
    simpa only [List.getElem_map] using this
  · intro j hj hlt e
    have hx' : x = (rows.map (·.sample))[j]'(by simpa using hj) := by simp [e]
    have h2 := idxOf_le_of_getElem (rows.map (·.sample)) j (by simpa using hj)
    rw [← hx'] at h2
    omega
  · simp [aggRow, List.getElem?_eq_getElem hk']
  · simp [aggRow, List.getElem?_eq_getElem hk']

/-- first-seen order: the samples of the aggregate are the distinct samples in order of first appearance -/
theorem aggSpec_samples (rows : List Row) : (aggSpec rows).map (·.sample) = firsts (rows.map (·.sample)) := by
  rw [aggSpec_eq, List.map_map]
  conv => rhs; rw [← List.map_id (firsts _)]
  apply List.map_congr_left
  intro x hx
  exact aggRow_sample rows x (mem_firsts.mp hx)

theorem filter_eq_of_nodup [DecidableEq α] (l : List α) (hnd : l.Nodup) (x : α) :
    l.filter (· = x) = if x ∈ l then [x] else [] := by
  induction l with
  | nil => simp
  | cons a l ih =>
    simp only [List.nodup_cons] at hnd
    rw [List.filter_cons, ih hnd.2]
    by_cases h : a = x
    · subst h; simp [hnd.1]
    · have h' : ¬ x = a := fun e => h e.symm
      simp [h, h']

/-- the multiset of samples weighted by `num_occurrences` is preserved: for every sample the
    occurrences in the aggregate equal the summed occurrences in the input -/
theorem aggSpec_weight (rows : List Row) (x : List Rat) :
    (((aggSpec rows).filter (·.sample = x)).map (·.occ)).sum = ((rows.filter (·.sample = x)).map (·.occ)).sum := by
  rw [aggSpec_eq, List.filter_map]
  have hcongr : (firsts (rows.map (·.sample))).filter ((fun r : Row => decide (r.sample = x)) ∘ aggRow rows)
      = (firsts (rows.map (·.sample))).filter (· = x) := by
    apply List.filter_congr
    intro y hy
    simp [Function.comp, aggRow_sample rows y (mem_firsts.mp hy)]
  rw [hcongr, filter_eq_of_nodup _ (nodup_firsts _)]
  by_cases hx : x ∈ firsts (rows.map (·.sample))
  · simp [hx, aggRow]
  · simp only [hx, if_false, List.map_nil, List.sum_nil]
    have : rows.filter (·.sample = x) = [] := by
      rw [List.filter_eq_nil_iff]
      intro r hr
      simp only [decide_eq_true_eq]
      intro e
      exact hx (mem_firsts.mpr (e ▸ List.mem_map_of_mem hr))
    simp [this]

end SSM
