import DimodProofs.BqmViewMore

/-! Composite methods through a `VartypeView`: the Python loops over a neighbourhood run the view's own methods, so
    what the view shows goes through the same loop of algebraic steps.  `flip_variable` here.  Core Lean only. -/

namespace Bqm

/-- the loop lemma of `BqmLoops`, for what a view of vartype `tv` shows -/
theorem loop_view (tv : VT) (m : Bqm) (items : List (Nat × Rat)) (hb : ∀ p ∈ items, p.1 < m.labels.length)
    (stepM : Bqm → Label → Rat → Bqm) (stepS : LPoly → Label → Rat → LPoly) (good : Label → Prop)
    (hgood : ∀ p ∈ items, good (m.labels.getD p.1 (.int 0)))
    (href : ∀ acc, Inv acc → ∀ l c, good l →
      (absL (stepM acc l c)).viewP tv = stepS ((absL acc).viewP tv) l c ∧ Inv (stepM acc l c) ∧ LabelsExt acc (stepM acc l c)) :
    ∀ acc, Inv acc → LabelsExt m acc →
      (absL (items.foldl (loopBody stepM) acc)).viewP tv =
        (items.map fun p => (m.labels.getD p.1 (.int 0), p.2)).foldl (fun q lc => stepS q lc.1 lc.2) ((absL acc).viewP tv) ∧
      Inv (items.foldl (loopBody stepM) acc) ∧
      LabelsExt m (items.foldl (loopBody stepM) acc) := by
  induction items with
  | nil => intro acc ia ea; exact ⟨rfl, ia, ea⟩
  | cons p t ih =>
    intro acc ia ea
    have hp : p.1 < m.labels.length := hb p (by simp)
    have hget : m.labels[p.1]? = some (m.labels.getD p.1 (.int 0)) := by
      simp [List.getD, List.getElem?_eq_getElem hp]
    have hacc : acc.labels[p.1]? = some (m.labels.getD p.1 (.int 0)) := ea.get hget
    simp only [List.foldl, List.map_cons]
    have hbody : loopBody stepM acc p = stepM acc (m.labels.getD p.1 (.int 0)) p.2 := by
      unfold loopBody; rw [hacc]
    rw [hbody]
    have r := href acc ia (m.labels.getD p.1 (.int 0)) p.2 (hgood p (by simp))
    rw [← r.1]
    exact ih (fun q hq => hb q (List.mem_cons_of_mem _ hq)) (fun q hq => hgood q (List.mem_cons_of_mem _ hq)) _ r.2.1
      (ea.trans r.2.2)

/-- the neighbours a view shows: the data's neighbours with the biases scaled -/
theorem nbrs_viewP (q : LPoly) (tv : VT) (v : Label) :
    (q.viewP tv).nbrs v = (q.nbrs v).map fun lc => (lc.1, q.viewFactor tv * lc.2) := by
  unfold LPoly.nbrs
  show q.vars.filterMap (fun w => ((q.quad v w).map (q.viewFactor tv * ·)).map fun c => (w, c)) = _
  rw [List.map_filterMap]
  apply filterMap_congr'
  intro w _
  cases q.quad v w <;> rfl

theorem view_read_lin {m : Bqm} (i : Inv m) (tv : VT) {v : Label} {vi : Nat} (hv : m.indexOf? v = some vi) :
    m.vGetLinear tv vi = ((absL m).viewP tv).lin v := by
  have hkl : vi < m.labels.length := (indexOf?_some hv).1
  have hlab : m.labels.getD vi (.int 0) = v := by
    have := (indexOf?_some hv).2
    simp [List.getD, this]
  have := viewLin_absL i tv hkl
  rw [hlab] at this
  exact this.symm

/-- **`flip_variable(v)` through a view** -/
theorem view_flip {m : Bqm} (i : Inv m) (tv : VT) (v : Label) {vi : Nat} (hv : m.indexOf? v = some vi) :
    (absL (m.vFlip tv true v).1).viewP tv = ((absL m).viewP tv).flip v ∧ (m.vFlip tv true v).2 = none ∧
    Inv (m.vFlip tv true v).1 := by
  have facts := nbh_label_facts i hv
  have hb : ∀ p ∈ m.nbhAt vi, p.1 < m.labels.length := fun p hp => (facts p hp).1
  have hgood : ∀ p ∈ m.nbhAt vi, (m.labels.getD p.1 (.int 0)) ≠ v := by
    intro p hp e
    have := (facts p hp).2
    rw [e, quad_self_none i v] at this; cases this
  have hnb : ((absL m).viewP tv).nbrs v =
      ((m.nbhAt vi).map fun p => (m.labels.getD p.1 (.int 0), p.2)).map fun lc => (lc.1, m.vQuadFactor tv * lc.2) := by
    rw [nbrs_viewP, nbrs_absL i hv]; rfl
  unfold Bqm.vFlip LPoly.flip
  rw [hv]
  simp only []
  have hvtP : ((absL m).viewP tv).vt = tv := rfl
  rw [hvtP, hnb, List.foldl_map]
  cases tv with
  | spin =>
    simp only []
    have L := loop_view .spin m (m.nbhAt vi) hb
      (fun acc ul c => acc.setQuadVia VT.spin true ul v (-1 * (m.vQuadFactor .spin * c)))
      (fun q l c => q.quadOp l v (-1 * (m.vQuadFactor .spin * c)) true) (fun l => l ≠ v) hgood
      (by
        intro acc ia l c hl
        have r := view_setQuadratic ia .spin l v (-1 * (m.vQuadFactor .spin * c)) hl
        exact ⟨r.1, r.2.2, ext_vSetQuadratic acc .spin l v _⟩)
      m i (LabelsExt.refl m)
    obtain ⟨hL, iL, eL⟩ := L
    generalize (m.nbhAt vi).foldl (loopBody fun acc ul c => acc.setQuadVia VT.spin true ul v (-1 * (m.vQuadFactor .spin * c))) m = m1 at hL iL eL
    have hv1 : m1.indexOf? v = some vi := eL.indexOf? hv
    have r := view_setLinear iL .spin v (-1 * m1.vGetLinear .spin vi)
    refine ⟨?_, trivial, r.2⟩
    rw [r.1, view_read_lin iL .spin hv1, hL]
  | binary =>
    simp only []
    have L := loop_view .binary m (m.nbhAt vi) hb
      (fun acc ul c => (acc.setQuadVia VT.binary true ul v (-1 * (m.vQuadFactor .binary * c))).vAddLinear VT.binary ul (m.vQuadFactor .binary * c))
      (fun q l c => (q.quadOp l v (-1 * (m.vQuadFactor .binary * c)) true).addLinear l (m.vQuadFactor .binary * c)) (fun l => l ≠ v) hgood
      (by
        intro acc ia l c hl
        have r := view_setQuadratic ia .binary l v (-1 * (m.vQuadFactor .binary * c)) hl
        have r2 := view_addLinear r.2.2 .binary l (m.vQuadFactor .binary * c)
        refine ⟨?_, r2.2, (ext_vSetQuadratic acc .binary l v _).trans (ext_vAddLinear _ .binary l _)⟩
        show (absL ((acc.vSetQuadratic .binary l v _).1.vAddLinear .binary l _)).viewP .binary = _
        rw [r2.1, r.1])
      m i (LabelsExt.refl m)
    obtain ⟨hL, iL, eL⟩ := L
    generalize (m.nbhAt vi).foldl (loopBody fun acc ul c =>
      (acc.setQuadVia VT.binary true ul v (-1 * (m.vQuadFactor .binary * c))).vAddLinear VT.binary ul (m.vQuadFactor .binary * c)) m = m1 at hL iL eL
    have hv1 : m1.indexOf? v = some vi := eL.indexOf? hv
    have ro := view_setOffset iL .binary (m1.vOffset .binary + m1.vGetLinear .binary vi)
    generalize hm2 : m1.vSetOffset .binary (m1.vOffset .binary + m1.vGetLinear .binary vi) = m2 at ro
    have hv2 : m2.indexOf? v = some vi := by
      rw [← hm2]; exact (ext_vSetOffset m1 .binary _).indexOf? hv1
    have r := view_setLinear ro.2 .binary v (-1 * m2.vGetLinear .binary vi)
    refine ⟨?_, trivial, r.2⟩
    have hoff : m1.vOffset .binary = ((absL m1).viewP .binary).off := (viewOff_absL iL .binary).symm
    rw [r.1, view_read_lin ro.2 .binary hv2, ro.1, view_read_lin iL .binary hv1, hoff, hL]
    simp only [List.foldl_map]

end Bqm
