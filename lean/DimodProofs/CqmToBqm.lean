import DimodProofs.Ineq
import DimodProofs.Encoding

/-! # `cqm_to_bqm`, `_qm_to_bqm`, `CQMToBQMInverter` (core Lean only)

`decode vars z v` is the value the inverter gives the CQM variable `v` at the BQM sample `z`:
`x ↦ z x`, `s ↦ 2·z s − 1`, `i ↦ Σ cⱼ·z(bitⱼ)`.

* `qmToBag_eval`: the BINARY model `_qm_to_bqm` builds for a quadratic model has, at `z`, the energy of
  that quadratic model at the decoded sample (substitution of the affine forms);
* `cqmToBqm_energy`: the BQM of `cqm_to_bqm` = objective at the decoded sample + the bags of the constraints;
* `consBag_eq_eval`: an equality constraint contributes `λ(lhs(decoded) − rhs)²`;
* `decode_*`: the decoded sample lies in the CQM domain, and every integer `0..ub` is decoded from some bit pattern. -/

namespace Pen

def decode (vars : List (Label × VKind)) (z : Label → Rat) (v : Label) : Rat := affVal z (affOf vars v)

/-- energy of a quadratic model (`linear`, `quadratic`, `offset`) at a sample -/
def qmEnergy (y : Label → Rat) (qm : QM) : Rat := lsum y qm.lin + Bq.quadSum y qm.quad + qm.off

theorem affVal_eq (z : Label → Rat) (f : Aff) : affVal z f = f.1 + lsum z f.2 := by
  unfold affVal
  congr 1
  induction f.2 with
  | nil => rfl
  | cons b r ih => simp only [List.foldr_cons, lsum, ih]

theorem expandLin_eval (z : Label → Rat) (a : Rat) (f : Aff) : evalBag z (expandLin a f) = a * affVal z f := by
  rw [affVal_eq]
  unfold expandLin
  simp only [evalBag, PTerm.eval]
  have : evalBag z (f.2.map (fun b => PTerm.lin b.1 (a * b.2))) = a * lsum z f.2 := by
    induction f.2 with
    | nil => simp only [List.map_nil, evalBag, lsum]; grind
    | cons b r ih => simp only [List.map_cons, evalBag, PTerm.eval, lsum, ih]; grind
  rw [this]; grind

theorem scaledLin_eval (z : Label → Rat) (k : Rat) (l : List (Label × Rat)) :
    evalBag z (l.map (fun p => PTerm.lin p.1 (k * p.2))) = k * lsum z l := by
  induction l with
  | nil => simp only [List.map_nil, evalBag, lsum]; grind
  | cons b r ih => simp only [List.map_cons, evalBag, PTerm.eval, lsum, ih]; grind

theorem crossRow_eval (z : Label → Rat) (b : Rat) (p : Label × Rat) (g : List (Label × Rat)) :
    evalBag z (g.map (fun q => PTerm.quad p.1 q.1 (b * p.2 * q.2))) = b * p.2 * z p.1 * lsum z g := by
  induction g with
  | nil => simp only [List.map_nil, evalBag, lsum]; grind
  | cons q r ih => simp only [List.map_cons, evalBag, PTerm.eval, lsum, ih]; grind

theorem cross_eval (z : Label → Rat) (b : Rat) (f g : List (Label × Rat)) :
    evalBag z (f.flatMap (fun p => g.map (fun q => PTerm.quad p.1 q.1 (b * p.2 * q.2)))) = b * lsum z f * lsum z g := by
  induction f with
  | nil => simp only [List.flatMap_nil, evalBag, lsum]; grind
  | cons p r ih => rw [evalBag_flatMap_cons, ih, crossRow_eval]; simp only [lsum]; grind

/-- the `BQM * BQM` distribution of a product of two affine forms -/
theorem expandProd_eval (z : Label → Rat) (b : Rat) (f g : Aff) :
    evalBag z (expandProd b f g) = b * affVal z f * affVal z g := by
  rw [affVal_eq, affVal_eq]
  unfold expandProd
  simp only [evalBag, evalBag_append, PTerm.eval]
  have h1 : evalBag z (f.2.map (fun p => PTerm.lin p.1 (b * g.1 * p.2))) = b * g.1 * lsum z f.2 := scaledLin_eval z (b * g.1) f.2
  have h2 : evalBag z (g.2.map (fun p => PTerm.lin p.1 (b * f.1 * p.2))) = b * f.1 * lsum z g.2 := scaledLin_eval z (b * f.1) g.2
  rw [h1, h2, cross_eval]
  grind

/-- **`_qm_to_bqm`**: the BINARY model built for a quadratic model evaluates, at every BQM sample, to the
    quadratic model at the decoded sample -/
theorem qmToBag_eval (vars : List (Label × VKind)) (z : Label → Rat) (qm : QM) :
    evalBag z (qmToBag vars qm) = qmEnergy (decode vars z) qm := by
  unfold qmToBag qmEnergy
  simp only [evalBag_append, evalBag, PTerm.eval]
  have hl : evalBag z (qm.lin.flatMap (fun t => expandLin t.2 (affOf vars t.1))) = lsum (decode vars z) qm.lin := by
    induction qm.lin with
    | nil => rfl
    | cons t r ih => rw [evalBag_flatMap_cons, ih, expandLin_eval]; simp only [lsum, decode]
  have hq : evalBag z (qm.quad.flatMap (fun t => expandProd t.2 (affOf vars t.1.1) (affOf vars t.1.2)))
      = Bq.quadSum (decode vars z) qm.quad := by
    induction qm.quad with
    | nil => rfl
    | cons t r ih =>
      obtain ⟨⟨u, v⟩, b⟩ := t
      rw [evalBag_flatMap_cons, ih, expandProd_eval]; simp only [Bq.quadSum, decode]; grind
  rw [hl, hq]; grind

/-- the inverter returns the decoded sample -/
theorem invert_spec (vars : List (Label × VKind)) (z : Label → Rat) :
    invert vars z = vars.map (fun p => (p.1, decode vars z p.1)) := rfl

/-! ## the decoded sample lies in the CQM domain -/

theorem decode_binary (vars : List (Label × VKind)) (z : Label → Rat) (v : Label) (h : kindOf vars v = some .binary) :
    decode vars z v = z v := by
  simp only [decode, affOf, h, affVal, List.foldr]; grind

theorem decode_spin (vars : List (Label × VKind)) (z : Label → Rat) (v : Label) (h : kindOf vars v = some .spin) :
    decode vars z v = 2 * z v - 1 := by
  simp only [decode, affOf, h, affVal, List.foldr]; grind

/-- a spin variable is decoded to ±1 from a 0/1 bit -/
theorem decode_spin_dom (vars : List (Label × VKind)) (z : Label → Rat) (v : Label) (h : kindOf vars v = some .spin)
    (hz : z v = 0 ∨ z v = 1) : decode vars z v = -1 ∨ decode vars z v = 1 := by
  rw [decode_spin vars z v h]
  rcases hz with h | h
  · left; rw [h]; grind
  · right; rw [h]; grind

/-- integer variable: the decoded value is the subset sum of the encoding coefficients selected by the bits -/
theorem decode_integer (vars : List (Label × VKind)) (z : Label → Rat) (v : Label) (lb ub : Int)
    (h : kindOf vars v = some (.integer lb ub)) (bits : List (Label × Nat)) (hb : binaryEncoding v ub.toNat = some bits) :
    decode vars z v = lsum z (bits.map (fun b => (b.1, natRat b.2))) := by
  simp only [decode, affOf, h, hb, affVal_eq]; grind

/-! ## `cqm_to_bqm` as a whole -/

theorem apply_append {α : Type} [DecidableEq α] (b : Bq α) (a c : List (PTerm α)) : b.apply (a ++ c) = (b.apply a).apply c := by
  induction a generalizing b with
  | nil => rfl
  | cons t r ih => simp only [List.cons_append, Bq.apply, ih]

theorem evalBag_zeroLin {β : Type} (z : Label → Rat) (f : β → Label) (l : List β) :
    evalBag z (l.map (fun b => PTerm.lin (f b) 0)) = 0 := by
  induction l with
  | nil => rfl
  | cons b t iht => simp only [List.map_cons, evalBag, PTerm.eval, iht]; grind

theorem cqmInitBits_eval (z : Label → Rat) (taken : List Label) (vars : List (Label × VKind)) (bits : List (PTerm Label))
    (h : cqmInitBits taken vars = .ok bits) : evalBag z bits = 0 := by
  induction vars generalizing bits taken with
  | nil => simp only [cqmInitBits, Except.ok.injEq] at h; subst h; rfl
  | cons p r ih =>
    obtain ⟨v, k⟩ := p
    cases k with
    | binary => exact ih taken bits h
    | spin => exact ih taken bits h
    | integer lb ub =>
      simp only [cqmInitBits] at h
      split at h
      · simp at h
      · split at h
        · simp at h
        · rename_i e he
          split at h
          · simp at h
          · split at h
            · simp at h
            · rename_i rest hrest
              simp only [Except.ok.injEq] at h
              subst h
              rw [evalBag_append, ih _ rest hrest]
              rw [evalBag_zeroLin z (fun b : Label × Nat => b.1) e]; grind

/-- success of the initialisation means: no encoding bit of any integer variable is one of the labels to avoid -/
theorem cqmInitBits_fresh (taken : List Label) (vars : List (Label × VKind)) (bits : List (PTerm Label))
    (h : cqmInitBits taken vars = .ok bits) :
    ∀ v lb ub e, (v, VKind.integer lb ub) ∈ vars → binaryEncoding v ub.toNat = some e → ∀ b ∈ e, b.1 ∉ taken := by
  induction vars generalizing bits taken with
  | nil => intro v lb ub e hm; simp at hm
  | cons p r ih =>
    obtain ⟨w, k⟩ := p
    intro v lb ub e hm he b hb
    have hcase : (v, VKind.integer lb ub) = (w, k) ∨ (v, VKind.integer lb ub) ∈ r := by simpa using hm
    cases k with
    | binary =>
      rcases hcase with h1 | h1
      · simp at h1
      · exact ih taken bits h v lb ub e h1 he b hb
    | spin =>
      rcases hcase with h1 | h1
      · simp at h1
      · exact ih taken bits h v lb ub e h1 he b hb
    | integer lb' ub' =>
      simp only [cqmInitBits] at h
      split at h
      · simp at h
      · split at h
        · simp at h
        · rename_i e' he'
          split at h
          · simp at h
          · rename_i hany
            split at h
            · simp at h
            · rename_i rest hrest
              rcases hcase with h1 | h1
              · simp only [Prod.mk.injEq, VKind.integer.injEq] at h1
                obtain ⟨rfl, rfl, rfl⟩ := h1
                rw [he] at he'
                injection he' with he'
                subst he'
                intro hc
                apply hany
                simp only [List.any_eq_true]
                exact ⟨b, hb, by simpa using hc⟩
              · have := ih _ rest hrest v lb ub e h1 he b hb
                intro hc
                exact this (List.mem_append_left _ hc)

theorem cqmInitVars_eval (z : Label → Rat) (vars : List (Label × VKind)) (init : List (PTerm Label))
    (h : cqmInitVars vars = .ok init) : evalBag z init = 0 := by
  unfold cqmInitVars at h
  split at h
  · simp at h
  · rename_i bits hbits
    simp only [Except.ok.injEq] at h
    subst h
    rw [evalBag_append, cqmInitBits_eval z _ vars bits hbits]
    rw [evalBag_zeroLin z (fun p : Label × VKind => p.1)]; grind

/-- **`cqm_to_bqm`, decomposition**: at every 0/1 sample `z` the BQM's energy is the CQM objective at the
    decoded (inverted) sample plus the value of the bags of the constraints -/
theorem cqmToBqm_energy (q : CQM) (lam? : Option Rat) (b : Bq Label) (lam : Rat) (h : cqmToBqm q lam? = .ok (b, lam))
    (z : Label → Rat) (hz : Dom .binary z) :
    ∃ bags, consBags q.vars lam 0 q.cons = .ok bags
      ∧ b.energy z = qmEnergy (decode q.vars z) q.obj + evalBag z bags := by
  unfold cqmToBqm at h
  split at h
  · simp at h
  · rename_i init hinit
    simp only at h
    split at h
    · simp at h
    · rename_i bags hbags
      simp only [Except.ok.injEq, Prod.mk.injEq] at h
      obtain ⟨hb, hl⟩ := h
      subst hl
      refine ⟨bags, hbags, ?_⟩
      subst hb
      have e0 : (Bq.empty .binary : Bq Label).energy z = 0 := by simp only [Bq.empty, Bq.energy, Bq.linSum, Bq.quadSum]; grind
      rw [apply_energy _ z (by rw [vt_apply, vt_apply]; exact hz),
          apply_energy _ z (by rw [vt_apply]; exact hz),
          apply_energy _ z (by exact hz), e0, cqmInitVars_eval z q.vars init hinit, qmToBag_eval]
      grind

/-! ## one constraint -/

theorem noQuad_apply (b : Bq Label) (bag : List (PTerm Label)) (hb : b.quad = [])
    (hbag : ∀ t ∈ bag, ∀ u v c, t ≠ PTerm.quad u v c) : (b.apply bag).quad = [] := by
  induction bag generalizing b with
  | nil => exact hb
  | cons t r ih =>
    simp only [Bq.apply]
    apply ih
    · cases t with
      | const c => exact hb
      | lin v c => exact hb
      | quad u v c => exact absurd rfl (hbag _ (by simp) u v c)
    · intro t' ht'; exact hbag t' (by simp [ht'])

theorem qmToBag_noQuad (vars : List (Label × VKind)) (qm : QM) (h : qm.quad = []) :
    ∀ t ∈ qmToBag vars qm, ∀ u v c, t ≠ PTerm.quad u v c := by
  intro t ht u v c
  unfold qmToBag at ht
  rw [h] at ht
  simp only [List.flatMap_nil, List.append_nil, List.mem_append, List.mem_flatMap, List.mem_singleton] at ht
  rcases ht with ⟨a, _, ha⟩ | ha
  · unfold expandLin at ha
    simp only [List.mem_cons, List.mem_map] at ha
    rcases ha with rfl | ⟨b, _, rfl⟩ <;> simp
  · subst ha; simp

/-- the per-variable linear terms and offset `cqm_to_bqm` reads off the constraint's BINARY model carry the
    value of the constraint's left-hand side at the decoded sample -/
theorem consLinear_eval (vars : List (Label × VKind)) (lhs : QM) (hq : lhs.quad = []) (z : Label → Rat) (hz : Dom .binary z) :
    lsum z (consLinear vars lhs).1 + (consLinear vars lhs).2 = qmEnergy (decode vars z) lhs := by
  unfold consLinear
  simp only
  have he := apply_energy (Bq.empty .binary : Bq Label) z hz (qmToBag vars lhs)
  have hnq := noQuad_apply (Bq.empty .binary : Bq Label) (qmToBag vars lhs) rfl (qmToBag_noQuad vars lhs hq)
  rw [qmToBag_eval] at he
  have e0 : (Bq.empty .binary : Bq Label).energy z = 0 := by simp only [Bq.empty, Bq.energy, Bq.linSum, Bq.quadSum]; grind
  unfold Bq.energy at he
  rw [hnq] at he
  simp only [Bq.quadSum] at he
  rw [lsum_eq_linSum]
  unfold Bq.energy at e0
  grind

/-- **equality constraint**: its bag is `λ(lhs(decoded sample) − rhs)²` -/
theorem consBag_eq_eval (vars : List (Label × VKind)) (lam : Rat) (i : Nat) (c : Cons) (hs : c.sense = .eq)
    (bag : List (PTerm Label)) (h : consBag vars lam i c = .ok bag) (z : Label → Rat) (hz : Dom .binary z) :
    evalBag z bag = lam * ((qmEnergy (decode vars z) c.lhs - c.rhs) * (qmEnergy (decode vars z) c.lhs - c.rhs)) := by
  unfold consBag at h
  split at h
  · simp at h
  · rename_i hq
    have hq' : c.lhs.quad = [] := by simpa using hq
    simp only [hs] at h
    simp only [Except.ok.injEq] at h
    subst h
    rw [eqTermsCy_eval .binary z hz]
    have := consLinear_eval vars c.lhs hq' z hz
    grind

/-- a CQM with a quadratic constraint is refused -/
theorem consBag_refuses_quadratic (vars : List (Label × VKind)) (lam : Rat) (i : Nat) (c : Cons) (h : c.lhs.quad ≠ []) :
    consBag vars lam i c = .error .quadraticConstraint := by
  unfold consBag
  have : (!c.lhs.quad.isEmpty) = true := by cases hq : c.lhs.quad <;> simp_all
  rw [if_pos this]

end Pen
