import DimodModel.VarsMore
import DimodProofs.VarsSteps
import DimodProofs.Slice

/-! Proofs about `DimodModel/VarsMore.lean`: the auto-label rule over the extracted constants, `_extend`,
    copy / pickle, the readers (`__iter__`, `__len__`, `__contains__`, `__eq__`, slicing), the step and
    history refinement over the extended operation alphabet. -/

namespace VState

open LSpec (lookup subst dictOf relabelOk)

/-! ### the auto-label rule as extracted from the source is the modelled one -/

theorem autoLabelG_least_eq (s : VState) (fuel i : Nat) : autoLabelG.least s fuel i = autoLabel.least s fuel i := by
  induction fuel generalizing i with
  | zero => rfl
  | succ f ih =>
    simp only [autoLabelG.least, autoLabel.least, testBy]
    have h1 : Generated.VarsRules.autoLoopUsesCount = true := by decide
    have h2 : Generated.VarsRules.autoSearchStep = 1 := by decide
    simp only [h1, h2, if_true, ih]

/-- with the constants read from `cyvariables.pyx` the parametrised rule is `VState.autoLabel`; if the
    source rule changes (first candidate, guard, start, test, increment) this stops to check -/
theorem autoLabelG_eq_autoLabel (s : VState) : s.autoLabelG = s.autoLabel := by
  have h1 : Generated.VarsRules.autoFirstIsStop = true := by decide
  have h2 : Generated.VarsRules.autoGuardNotRange = true := by decide
  have h3 : Generated.VarsRules.autoGuardUsesCount = true := by decide
  have h4 : Generated.VarsRules.autoSearchStart = 0 := by decide
  unfold autoLabelG autoLabel
  simp only [h1, h2, h3, h4, if_true, testBy, autoLabelG_least_eq]
  cases s.isRange <;> cases s.count (.int s.stop) <;> simp

/-! ### extensional equality of states: only `get?` of the two maps matters -/

/-- same `_stop`, same dictionaries as functions -/
structure Ext (s t : VState) : Prop where
  stop : s.stop = t.stop
  i2l : ∀ i, s.i2l.get? i = t.i2l.get? i
  l2i : ∀ l, s.l2i.get? l = t.l2i.get? l

theorem Ext.refl (s : VState) : Ext s s := ⟨rfl, fun _ => rfl, fun _ => rfl⟩

theorem Ext.abs {s t : VState} (e : Ext s t) : s.abs = t.abs := by
  unfold VState.abs labelAt
  rw [e.stop]
  apply List.map_congr_left
  intro i _
  rw [e.i2l]

theorem Ext.inv {s t : VState} (e : Ext s t) (h : s.Inv) : t.Inv := by
  constructor
  · intro i l hg
    rw [← e.i2l] at hg
    obtain ⟨a, b, c⟩ := h.i2l_ok i l hg
    exact ⟨e.stop ▸ a, b, by rw [← e.l2i]; exact c⟩
  · intro l i hg
    rw [← e.l2i] at hg
    rw [← e.i2l]; exact h.l2i_ok l i hg
  · intro i hi hg
    rw [← e.i2l] at hg
    rw [← e.l2i]; exact h.ident_ok i (e.stop ▸ hi) hg

theorem get?_copyMap [DecidableEq α] (m : AMap α β) (k : α) : (copyMap m).get? k = m.get? k := by
  induction m with
  | nil => rfl
  | cons p m ih =>
    obtain ⟨a, b⟩ := p
    show (AMap.set (copyMap m) a b).get? k = _
    rw [AMap.get?_set]
    simp only [AMap.get?]
    by_cases h : a = k <;> simp [h, ih]

theorem copy_ext (s : VState) : Ext s s.copy :=
  ⟨rfl, fun i => (get?_copyMap s.i2l i).symm, fun l => (get?_copyMap s.l2i l).symm⟩

theorem pickle_ext (s : VState) : Ext s s.pickleRoundTrip :=
  ⟨rfl, fun i => (get?_copyMap s.i2l i).symm, fun l => (get?_copyMap s.l2i l).symm⟩

/-- `copy()` returns an object with the same labels in the same order (and a sound representation) -/
theorem copy_spec (s : VState) (h : s.Inv) : s.copy.Inv ∧ s.copy.abs = s.abs :=
  ⟨(copy_ext s).inv h, (copy_ext s).abs.symm⟩

/-- `pickle.loads(pickle.dumps(v))`: same labels, same order -/
theorem pickle_spec (s : VState) (h : s.Inv) : s.pickleRoundTrip.Inv ∧ s.pickleRoundTrip.abs = s.abs :=
  ⟨(pickle_ext s).inv h, (pickle_ext s).abs.symm⟩

/-- the state tuple of `__reduce__` set back by `__setstate__` is the object itself -/
theorem setState_reduce (s : VState) : setState s.reduce = s := rfl

/-! ### `_extend` -/

theorem extend_refines (vs : List (Option Label)) (p : Bool) : ∀ (s : VState), s.Inv →
    (s.extend vs p).1.Inv ∧ ((s.extend vs p).1.abs, (s.extend vs p).2) = LSpec.extend s.abs vs p := by
  induction vs with
  | nil => intro s h; exact ⟨h, rfl⟩
  | cons v vs ih =>
    intro s h
    have hs := step_refines s h (.append v p) trivial
    simp only [step] at hs
    simp only [extend, LSpec.extend]
    cases ha : s.appendP v p with
    | none =>
      rw [ha] at hs
      have h2 : (LSpec.step s.abs (.append v p)).2 = false := by rw [← hs.2]
      simp only [h2, Bool.false_eq_true, if_false]
      exact ⟨h, trivial⟩
    | some s' =>
      rw [ha] at hs
      have h1 : (LSpec.step s.abs (.append v p)).1 = s'.abs := by rw [← hs.2]
      have h2 : (LSpec.step s.abs (.append v p)).2 = true := by rw [← hs.2]
      simp only [h2, if_true, h1]
      exact ih s' hs.1

/-! ### readers -/

theorem filterMap_eq_map_of {α β : Type} (l : List α) (f : α → Option β) (g : α → β)
    (h : ∀ a ∈ l, f a = some (g a)) : l.filterMap f = l.map g := by
  induction l with
  | nil => rfl
  | cons a l ih =>
    rw [List.filterMap_cons, h a List.mem_cons_self, List.map_cons,
      ih (fun b hb => h b (List.mem_cons_of_mem _ hb))]

theorem iter_eq_abs (s : VState) (h : s.Inv) : s.iter = s.abs := by
  unfold iter
  split
  · rename_i hr
    have hnone := (s.isRange_iff).1 hr
    unfold VState.abs
    apply List.map_congr_left
    intro i _
    unfold labelAt
    cases hg : s.i2l.get? i with
    | none => rfl
    | some l => have := (h.i2l_ok i l hg).2.2; rw [hnone] at this; cases this
  · unfold VState.abs
    apply filterMap_eq_map_of
    intro i hi
    have hi' : i < s.stop := List.mem_range.mp hi
    unfold at?
    have h1 : ¬ ((i : Int) < 0) := by omega
    have h2 : (0 : Int) ≤ (i : Int) ∧ (i : Int) < (s.stop : Int) := by omega
    simp [h1, h2]

theorem len_eq (s : VState) : s.len = s.abs.length := (abs_length s).symm

theorem contains_iff (s : VState) (h : s.Inv) (v : Label) : s.contains v = true ↔ v ∈ s.abs := s.count_iff h v

theorem zipWith_all_iff : ∀ (a b : List Label), a.length = b.length →
    ((List.zipWith (fun x y => decide (x = y)) a b).all id = true ↔ a = b)
  | [], [], _ => by simp
  | [], _ :: _, h => by simp at h
  | _ :: _, [], h => by simp at h
  | x :: a, y :: b, h => by
    have ih := zipWith_all_iff a b (by simpa using h)
    simp only [List.zipWith_cons_cons, List.all_cons, Bool.and_eq_true, id, decide_eq_true_eq, ih, List.cons.injEq]

/-- `v == other` for a sequence: equal as lists -/
theorem eqOther_seq (s : VState) (h : s.Inv) (o : List Label) : s.eqOther (.seq o) = true ↔ s.abs = o := by
  simp only [eqOther, Bool.and_eq_true, decide_eq_true_eq, iter_eq_abs s h, len_eq]
  constructor
  · rintro ⟨h1, h2⟩; exact (zipWith_all_iff _ _ h1).1 h2
  · rintro rfl; exact ⟨rfl, (zipWith_all_iff _ _ rfl).2 rfl⟩

/-- `v == other` for a set: same elements -/
theorem eqOther_set (s : VState) (h : s.Inv) (o : List Label) :
    s.eqOther (.set o) = true ↔ ∀ x, x ∈ s.abs ↔ x ∈ o := by
  simp only [eqOther, iter_eq_abs s h, List.isEmpty_iff, List.append_eq_nil_iff, List.filter_eq_nil_iff,
    Bool.not_eq_true, Bool.not_eq_false', List.contains_iff_mem, contains_iff s h]
  constructor
  · rintro ⟨h1, h2⟩ x; exact ⟨fun hx => by simpa using h1 x hx, fun hx => by simpa using h2 x hx⟩
  · intro hx; exact ⟨fun x hm => by simpa using (hx x).1 hm, fun x hm => by simpa using (hx x).2 hm⟩

/-! ### slicing -/

theorem nodup_map_of_injOn {α β : Type} (f : α → β) : ∀ (l : List α), l.Nodup →
    (∀ x ∈ l, ∀ y ∈ l, f x = f y → x = y) → (l.map f).Nodup
  | [], _, _ => List.nodup_nil
  | a :: l, hl, hinj => by
    rw [List.map_cons, List.nodup_cons]
    rw [List.nodup_cons] at hl
    refine ⟨?_, nodup_map_of_injOn f l hl.2 (fun x hx y hy => hinj x (List.mem_cons_of_mem _ hx) y (List.mem_cons_of_mem _ hy))⟩
    intro hm
    obtain ⟨b, hb, e⟩ := List.mem_map.mp hm
    have := hinj b (List.mem_cons_of_mem _ hb) a List.mem_cons_self e
    exact hl.1 (this ▸ hb)

open SSM in
/-- `range(start, stop, step)` with a non-zero step yields no index twice (all members being ≥ 0) -/
theorem rangeInt_nodup (a b c : Int) (hc : c ≠ 0) (hpos : 0 < c → 0 ≤ a) (hneg : c < 0 → -1 ≤ b) :
    (rangeInt a b c).Nodup := by
  have hmem := rangeInt_mem a b c
  unfold rangeInt at hmem ⊢
  apply nodup_map_of_injOn _ _ List.nodup_range
  intro x hx y hy e
  have hxm := hmem _ (List.mem_map.mpr ⟨x, hx, rfl⟩)
  have hym := hmem _ (List.mem_map.mpr ⟨y, hy, rfl⟩)
  -- membership gives *some* witness; instead argue directly on x and y
  clear hxm hym hmem
  by_cases hp : 0 < c
  · have ha := hpos hp
    have hx0 : 0 ≤ (x : Int) * c := Int.mul_nonneg (by omega) (by omega)
    have hy0 : 0 ≤ (y : Int) * c := Int.mul_nonneg (by omega) (by omega)
    have e' : a + (x : Int) * c = a + (y : Int) * c := by omega
    have e'' : (x : Int) * c = (y : Int) * c := by omega
    have := Int.eq_of_mul_eq_mul_right hc e''
    omega
  · have hn : c < 0 := by omega
    have hb := hneg hn
    have hnp : ¬ (c > 0) := by omega
    simp only [List.mem_range, hnp, if_false] at hx hy
    -- every produced value is > b ≥ -1
    have bound : ∀ k : Nat, (k : Int) < ((a - b - c - 1) / (-c)) → b < a + (k : Int) * c := by
      intro k hk
      have hk' : (k : Int) + 1 ≤ (a - b - c - 1) / (-c) := by omega
      have h1 : ((k : Int) + 1) * (-c) ≤ (a - b - c - 1) / (-c) * (-c) :=
        Int.mul_le_mul_of_nonneg_right hk' (by omega)
      have h2 := Int.ediv_mul_le (a - b - c - 1) (b := -c) (by omega)
      have h3 : ((k : Int) + 1) * (-c) = -(k * c) - c := by
        rw [Int.add_mul, Int.one_mul, Int.mul_neg]; omega
      omega
    have bx := bound x (by omega)
    have by_ := bound y (by omega)
    have e' : a + (x : Int) * c = a + (y : Int) * c := by omega
    have e'' : (x : Int) * c = (y : Int) * c := by omega
    have := Int.eq_of_mul_eq_mul_right hc e''
    omega

open SSM in
theorem sliceIndices_nodup (sl : PySlice) (n : Nat) (idx : List Nat) (h : sliceIndices sl n = some idx) : idx.Nodup := by
  unfold sliceIndices at h
  cases hb : sliceBounds sl n with
  | none => simp [hb] at h
  | some t =>
    obtain ⟨a, b, c⟩ := t
    simp only [hb, Option.map_some, Option.some.injEq] at h
    subst h
    obtain ⟨hc, hp, hn⟩ := sliceBounds_spec sl n a b c hb
    exact rangeInt_nodup a b c hc (fun h => (hp h).1) (fun h => (hn h).2.2.1)

theorem at?_natCast (s : VState) (i : Nat) (hi : i < s.stop) : s.at? (i : Int) = some (s.labelAt i) := by
  unfold at?
  have h1 : ¬ ((i : Int) < 0) := by omega
  have h2 : (0 : Int) ≤ (i : Int) ∧ (i : Int) < (s.stop : Int) := by omega
  simp [h1, h2]

theorem getSlice_fold (s : VState) (idx : List Nat) : ∀ (n : VState), n.Inv →
    (∀ i ∈ idx, i < s.stop) → (n.abs ++ idx.map s.labelAt).Nodup →
    ∃ n', idx.foldl (fun acc (i : Nat) => acc.bind fun n => (s.at? (i : Int)).bind fun l => n.appendP (some l) false)
        (some n) = some n' ∧ n'.Inv ∧ n'.abs = n.abs ++ idx.map s.labelAt := by
  induction idx with
  | nil => intro n hn _ _; exact ⟨n, rfl, hn, by simp⟩
  | cons i idx ih =>
    intro n hn hlt hnd
    have hi := hlt i List.mem_cons_self
    have hfresh : s.labelAt i ∉ n.abs := by
      intro hm
      rw [List.map_cons, List.nodup_append] at hnd
      exact hnd.2.2 _ hm _ List.mem_cons_self rfl
    have hc := (n.count_eq_false_iff hn _).2 hfresh
    simp only [List.foldl_cons, Option.bind_some, at?_natCast s i hi, appendP, hc, Bool.false_eq_true, if_false]
    obtain ⟨n', h1, h2, h3⟩ := ih (n.append (s.labelAt i)) (append_inv n hn _ hfresh)
      (fun j hj => hlt j (List.mem_cons_of_mem _ hj))
      (by rw [abs_append n hn _ hfresh, List.append_assoc]; simpa using hnd)
    refine ⟨n', h1, h2, ?_⟩
    rw [h3, abs_append n hn _ hfresh, List.append_assoc]; rfl

theorem map_labelAt_eq_gather (s : VState) (idx : List Nat) (h : ∀ i ∈ idx, i < s.stop) :
    idx.map s.labelAt = SSM.gather s.abs idx := by
  rw [SSM.gather_eq_map s.abs idx (by simpa [abs_length] using h) (Label.int 0)]
  apply List.map_congr_left
  intro i hi
  have := abs_getElem? s i
  simp only [h i hi, if_true] at this
  simp [List.getD, this]

/-- `v[slice]`: rejected exactly for a zero step; otherwise a sound new object holding the selected labels
    in the selected order -/
theorem getSlice_spec (s : VState) (h : s.Inv) (sl : SSM.PySlice) :
    (∀ idx, SSM.sliceIndices sl s.stop = some idx →
      ∃ s', s.getSlice sl = some s' ∧ s'.Inv ∧ s'.abs = SSM.gather s.abs idx) ∧
    (SSM.sliceIndices sl s.stop = none → s.getSlice sl = none) := by
  constructor
  · intro idx hidx
    have hlt := SSM.sliceIndices_lt sl s.stop idx hidx
    have hnd := sliceIndices_nodup sl s.stop idx hidx
    have hnd' : (empty.abs ++ idx.map s.labelAt).Nodup := by
      rw [abs_empty, List.nil_append]
      exact nodup_map_of_injOn _ _ hnd (fun x hx y hy e => h.labelAt_inj (hlt x hx) (hlt y hy) e)
    obtain ⟨n', h1, h2, h3⟩ := getSlice_fold s idx empty inv_empty hlt hnd'
    refine ⟨n', ?_, h2, ?_⟩
    · simp only [getSlice, hidx]; exact h1
    · rw [h3, abs_empty, List.nil_append, map_labelAt_eq_gather s idx hlt]
  · intro hn; simp [getSlice, hn]

/-- against Python list slicing -/
theorem getSlice_refines (s : VState) (h : s.Inv) (sl : SSM.PySlice) :
    (s.getSlice sl).map VState.abs = LSpec.slice s.abs sl ∧ ∀ s', s.getSlice sl = some s' → s'.Inv := by
  obtain ⟨h1, h2⟩ := getSlice_spec s h sl
  unfold LSpec.slice
  rw [abs_length]
  cases hidx : SSM.sliceIndices sl s.stop with
  | none => simp [h2 hidx]
  | some idx =>
    obtain ⟨s', e, hI, ha⟩ := h1 idx hidx
    simp only [e, Option.map_some, ha, Option.some.injEq, true_and]
    intro s'' e'; exact e' ▸ hI

/-! ### every step of the extended alphabet, every history -/

/-- well-formedness: as for `Op` (a relabel literal has distinct keys) -/
def Op2.WF : Op2 → Prop
  | .base op => op.WF
  | _ => True

instance : DecidablePred Op2.WF := fun op => by
  cases op <;> unfold Op2.WF <;> infer_instance

theorem step2_refines (s : VState) (h : s.Inv) (op : Op2) (hop : op.WF) :
    (s.step2 op).1.Inv ∧ ((s.step2 op).1.abs, (s.step2 op).2) = LSpec.step2 s.abs op := by
  cases op with
  | base op => exact step_refines s h op hop
  | extend vs p => exact extend_refines vs p s h
  | copy => exact ⟨(copy_spec s h).1, by simp only [step2, LSpec.step2, (copy_spec s h).2]⟩
  | pickle => exact ⟨(pickle_spec s h).1, by simp only [step2, LSpec.step2, (pickle_spec s h).2]⟩
  | slice sl =>
    obtain ⟨h1, h2⟩ := getSlice_refines s h sl
    simp only [step2, LSpec.step2]
    cases hg : s.getSlice sl with
    | none =>
      rw [hg] at h1
      simp only [Option.map_none] at h1
      simp only [← h1]
      exact ⟨h, trivial⟩
    | some s' =>
      rw [hg] at h1
      simp only [Option.map_some] at h1
      simp only [← h1]
      exact ⟨h2 s' hg, trivial⟩

/-- side-by-side run with the flag pairs recorded -/
def bothStep2 (st : VState × List Label × List (Bool × Bool)) (op : Op2) :
    VState × List Label × List (Bool × Bool) :=
  ((st.1.step2 op).1, (LSpec.step2 st.2.1 op).1, st.2.2 ++ [((st.1.step2 op).2, (LSpec.step2 st.2.1 op).2)])

theorem foldl_bothStep2 (ops : List Op2) : ∀ (st : VState × List Label × List (Bool × Bool)),
    st.1.Inv → st.1.abs = st.2.1 → (∀ p ∈ st.2.2, p.1 = p.2) → (∀ op ∈ ops, op.WF) →
    (ops.foldl bothStep2 st).1.Inv ∧ (ops.foldl bothStep2 st).1.abs = (ops.foldl bothStep2 st).2.1 ∧
      ∀ p ∈ (ops.foldl bothStep2 st).2.2, p.1 = p.2 := by
  induction ops with
  | nil => intro st h1 h2 h3 _; exact ⟨h1, h2, h3⟩
  | cons op ops ih =>
    intro st h1 h2 h3 hwf
    simp only [List.foldl_cons]
    have hs := step2_refines st.1 h1 op (hwf op List.mem_cons_self)
    rw [h2] at hs
    have he := hs.2
    apply ih
    · exact hs.1
    · show (st.1.step2 op).1.abs = (LSpec.step2 st.2.1 op).1
      rw [← he]
    · intro p hp
      simp only [bothStep2, List.mem_append, List.mem_singleton] at hp
      rcases hp with hp | rfl
      · exact h3 p hp
      · show (st.1.step2 op).2 = (LSpec.step2 st.2.1 op).2
        rw [← he]
    · exact fun op' h' => hwf op' (List.mem_cons_of_mem _ h')

/-- any history over the extended alphabet, from any sound object -/
theorem history2_refines_from (s : VState) (h : s.Inv) (ops : List Op2) (hwf : ∀ op ∈ ops, op.WF) :
    let r := ops.foldl bothStep2 (s, s.abs, [])
    r.1.Inv ∧ r.1.abs = r.2.1 ∧ ∀ p ∈ r.2.2, p.1 = p.2 :=
  foldl_bothStep2 ops (s, s.abs, []) h rfl (by simp) hwf

/-- the constructor: `Variables(iterable)` is the permissive fold of appends on the empty list -/
theorem ofList_spec (vs : List Label) :
    (ofList vs).Inv ∧ (ofList vs).abs = (LSpec.extend [] (vs.map some) true).1 := by
  have := extend_refines (vs.map some) true empty inv_empty
  rw [abs_empty] at this
  exact ⟨this.1, congrArg Prod.fst this.2⟩

/-- the permissive fold keeps the first occurrence of every label: it is `eraseDups`-like; stated as
    membership + duplicate-freeness + order of first occurrences is what `extend_refines` gives; here the
    easy consequences -/
theorem ofList_mem (vs : List Label) (x : Label) : x ∈ (ofList vs).abs ↔ x ∈ vs := by
  rw [(ofList_spec vs).2]
  have gen : ∀ (vs : List Label) (l : List Label), x ∈ (LSpec.extend l (vs.map some) true).1 ↔ x ∈ l ∨ x ∈ vs := by
    intro vs
    induction vs with
    | nil => intro l; simp [LSpec.extend]
    | cons v vs ih =>
      intro l
      simp only [List.map_cons, LSpec.extend, LSpec.step]
      by_cases hv : v ∈ l
      · simp only [hv, if_true, ih, List.mem_cons]
        constructor
        · rintro (h | h); exact Or.inl h; exact Or.inr (Or.inr h)
        · rintro (h | h | h); exact Or.inl h; exact Or.inl (h ▸ hv); exact Or.inr h
      · simp only [hv, if_false, if_true, ih, List.mem_append, List.mem_cons, List.not_mem_nil, or_false]
        constructor
        · rintro ((h | h) | h); exact Or.inl h; exact Or.inr (Or.inl h); exact Or.inr (Or.inr h)
        · rintro (h | h | h); exact Or.inl (Or.inl h); exact Or.inl (Or.inr h); exact Or.inr h
  simpa using gen vs []

theorem ofRange_spec (n : Nat) : (ofRange n).Inv ∧ (ofRange n).abs = (List.range n).map fun i => Label.int (i : Nat) := by
  constructor
  · constructor <;> simp [ofRange, AMap.get?]
  · simp [ofRange, VState.abs, labelAt, AMap.get?]

end VState
