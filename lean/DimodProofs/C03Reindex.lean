import DimodProofs.C01Reads
import DimodProofs.C03Front
import DimodProofs.Sparse

/-! C03's removal step (`En.Expr.reindexVariables`, which SEARCHES `variables_`) is the projection of C05's
    `reindex_variables` model (which keeps `indices_` and repairs it with the three loops) — round 8. -/

namespace ExprReads
open En CqmP

theorem shiftNbh_eq_removeFromNbh (i : Nat) (nb : List (Nat × Rat)) (hs : (nb.map Prod.fst).Pairwise (· < ·)) :
    QB.shiftNbh i nb = QMB.removeFromNbh i nb := by
  have hs' : Nbh.Sorted (R := Rat) nb := by
    unfold Nbh.Sorted
    exact List.pairwise_map.mp hs
  rw [QMB.removeFromNbh_eq i nb hs']
  unfold QB.shiftNbh QMB.dropShift unskip
  apply List.map_congr_left
  intro p _
  by_cases h : p.1 > i
  · rw [if_pos h, if_pos h]
  · rw [if_neg h, if_neg h]

theorem toEn_removeVar (q : QB) (i : Nat) (hs : AdjSorted q.adj) :
    ({ lin := (q.removeVar i).lin, adj := some (q.removeVar i).adj, off := (q.removeVar i).off } : QMB Rat)
      = ({ lin := q.lin, adj := some q.adj, off := q.off } : QMB Rat).removeVariable i := by
  unfold QB.removeVar QMB.removeVariable
  simp only [eraseIdx_eq, Option.map_some]
  congr 2
  apply List.map_congr_left
  intro nb hnb
  have hmem : nb ∈ q.adj := List.mem_of_mem_eraseIdx hnb
  exact shiftNbh_eq_removeFromNbh i nb ((adjSorted_iff.mp hs) nb hmem)

/-- **projection commutes with the removal step** -/
theorem toEn_reindex {e : _root_.Expr} (hwf : ExprWF e) (hs : ExprSorted e) (v : Nat) :
    toEn (e.reindex v) = (toEn e).reindexVariables v := by
  have hloc : (toEn e).localOf? v = e.idx.get? v :=
    localOf?_eq_indices e.vars e.idx hwf.nodup hwf.idx _ v
  unfold En.Expr.reindexVariables
  rw [hloc]
  unfold _root_.Expr.reindex
  cases hi : e.idx.get? v with
  | none =>
    rfl
  | some i =>
    show ({ vars := _root_.Expr.shiftDown v (Bqm.eraseIdx e.vars i),
            qb := { lin := (e.qb.removeVar i).lin, adj := some (e.qb.removeVar i).adj, off := (e.qb.removeVar i).off } } : En.Expr Rat) = _
    rw [toEn_removeVar e.qb i hs, eraseIdx_eq]
    rfl

end ExprReads
