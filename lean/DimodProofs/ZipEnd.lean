import DimodModel.ZipEnd
import DimodProofs.ContainerProofs

/-! # `zipfile`'s end-of-central-directory search: a complete archive is found, no proper prefix of
    it is — the zip contracts of C09 / C10 as theorems over the byte-level model -/

namespace FileFmt

/-- the signature occurs in `w` at position `i` -/
def SigAt (w : Bytes) (i : Nat) : Prop := sigEOCD <+: w.drop i

theorem rfindSig_sigAt : ∀ (d : Bytes) (s : Nat), rfindSig d = some s → SigAt d s
  | [], s, h => by simp [rfindSig] at h
  | b :: t, s, h => by
    unfold rfindSig at h
    cases ht : rfindSig t with
    | some i =>
      rw [ht] at h
      simp only [Option.some.injEq] at h
      subst h
      exact rfindSig_sigAt t i ht
    | none =>
      rw [ht] at h
      by_cases hp : sigEOCD.isPrefixOf (b :: t) = true
      · simp only [hp, if_true, Option.some.injEq] at h
        subst h
        exact List.isPrefixOf_iff_prefix.mp hp
      · simp [hp] at h

/-- an occurrence in a prefix of `w` is an occurrence in `w` -/
theorem SigAt.of_take {w : Bytes} {j i : Nat} (h : SigAt (w.take j) i) : SigAt w i := by
  unfold SigAt at *
  rw [List.drop_take] at h
  exact h.trans (List.take_prefix _ _)

theorem SigAt.of_drop {w : Bytes} {m i : Nat} (h : SigAt (w.drop m) i) : SigAt w (m + i) := by
  unfold SigAt at *
  rwa [List.drop_drop] at h

theorem sigAt_of_take4 {d : Bytes} (h : d.take 4 = sigEOCD) : SigAt d 0 := by
  unfold SigAt
  rw [List.drop_zero, ← h]
  exact List.take_prefix _ _

/-- **the complete archive is found**: a file that ends with a 22-byte record carrying the
    signature and comment length 0 gives that record, at its offset -/
theorem endRecData_full (x e : Bytes) (hlen : e.length = 22) (hsig : e.take 4 = sigEOCD) (hz : e.drop 20 = [0, 0]) :
    endRecData (x ++ e) = some ⟨x.length, e⟩ := by
  have h1 : (x ++ e).length - 22 = x.length := by rw [List.length_append, hlen]; omega
  have h2 : (x ++ e).drop x.length = e := List.drop_left
  unfold endRecData
  rw [h1, h2, if_pos ⟨hlen, hsig, hz⟩]

/-- **no proper prefix is found.**  If every occurrence of the signature in `w` starts within the
    last 22 bytes (for an archive `x ++ record`: the signature does not occur before the record),
    `_EndRecData` returns `None` on every proper prefix of `w`. -/
theorem endRecData_prefix_none (w : Bytes) (hocc : ∀ i, SigAt w i → w.length ≤ i + 22) (j : Nat) (hj : j < w.length) :
    endRecData (w.take j) = none := by
  have hl : (w.take j).length = j := by rw [List.length_take]; omega
  unfold endRecData
  rw [hl]
  have hfirst : ¬ (((w.take j).drop (j - 22)).length = 22 ∧ ((w.take j).drop (j - 22)).take 4 = sigEOCD ∧
      ((w.take j).drop (j - 22)).drop 20 = [0, 0]) := by
    rintro ⟨h22, hs, _⟩
    have hge : 22 ≤ j := by rw [List.length_drop, hl] at h22; omega
    have := hocc (j - 22) ((sigAt_of_take4 hs).of_drop (m := j - 22) (i := 0)).of_take
    omega
  rw [if_neg hfirst]
  cases hr : rfindSig ((w.take j).drop (j - eocdWindow)) with
  | none => rfl
  | some s =>
    have hat := ((rfindSig_sigAt _ s hr).of_drop).of_take
    have hb := hocc _ hat
    have hne : ((((w.take j).drop (j - eocdWindow)).drop s).take 22).length ≠ 22 := by
      rw [List.length_take, List.length_drop, List.length_drop, hl]; omega
    simp only [if_pos hne]

/-- **a long tail hides the archive.**  If the file ends with at least `65536 + 22` bytes in which
    the signature does not occur, `_EndRecData` returns `None` whatever precedes them. -/
theorem endRecData_trailing_none (a v : Bytes) (hv : ∀ i, ¬ SigAt v i) (hlen : eocdWindow ≤ v.length) :
    endRecData (a ++ v) = none := by
  have hw : 22 ≤ eocdWindow := by decide
  have hn : (a ++ v).length = a.length + v.length := List.length_append
  have hd : ∀ m, a.length ≤ m → (a ++ v).drop m = v.drop (m - a.length) := by
    intro m hm
    obtain ⟨i, rfl⟩ := Nat.exists_eq_add_of_le hm
    rw [List.drop_append, Nat.add_sub_cancel_left, List.drop_of_length_le (Nat.le_add_right _ _), List.nil_append]
  unfold endRecData
  rw [hn, hd (a.length + v.length - 22) (by omega), hd (a.length + v.length - eocdWindow) (by omega)]
  have hfirst : ¬ ((v.drop (a.length + v.length - 22 - a.length)).length = 22 ∧
      (v.drop (a.length + v.length - 22 - a.length)).take 4 = sigEOCD ∧ (v.drop (a.length + v.length - 22 - a.length)).drop 20 = [0, 0]) := by
    rintro ⟨_, hs, _⟩
    exact hv _ ((sigAt_of_take4 hs).of_drop (i := 0))
  rw [if_neg hfirst]
  cases hr : rfindSig (v.drop (a.length + v.length - eocdWindow - a.length)) with
  | none => rfl
  | some s => exact absurd ((rfindSig_sigAt _ s hr).of_drop) (hv _)

/-! ## the zip contract as a theorem -/

theorem eocdRecord_shape (count sizeCd offsetCd : Nat) :
    (eocdRecord count sizeCd offsetCd).length = 22 ∧ (eocdRecord count sizeCd offsetCd).take 4 = sigEOCD ∧
      (eocdRecord count sizeCd offsetCd).drop 20 = [0, 0] := by
  simp [eocdRecord, sigEOCD, toLE]

theorem eocdRecord_fields (count sizeCd offsetCd : Nat) (loc : Nat) (h1 : sizeCd < 256 ^ 4) (h2 : offsetCd < 256 ^ 4) (h3 : count < 256 ^ 2) :
    (EndRec.mk loc (eocdRecord count sizeCd offsetCd)).sizeCd = sizeCd ∧
    (EndRec.mk loc (eocdRecord count sizeCd offsetCd)).offsetCd = offsetCd ∧
    (EndRec.mk loc (eocdRecord count sizeCd offsetCd)).entries = count := by
  have e4 : ∀ n, (toLE 4 n).length = 4 := fun n => toLE_length 4 n
  have e2 : ∀ n, (toLE 2 n).length = 2 := fun n => toLE_length 2 n
  refine ⟨?_, ?_, ?_⟩
  · have : ((eocdRecord count sizeCd offsetCd).drop 12).take 4 = toLE 4 sizeCd := by
      simp [eocdRecord, sigEOCD, toLE]
    simp only [EndRec.sizeCd, this]; exact leNat_toLE 4 _ h1
  · have : ((eocdRecord count sizeCd offsetCd).drop 16).take 4 = toLE 4 offsetCd := by
      simp [eocdRecord, sigEOCD, toLE]
    simp only [EndRec.offsetCd, this]; exact leNat_toLE 4 _ h2
  · have : ((eocdRecord count sizeCd offsetCd).drop 10).take 2 = toLE 2 count := by
      simp [eocdRecord, sigEOCD, toLE]
    simp only [EndRec.entries, this]; exact leNat_toLE 2 _ h3

theorem zipOpen_full (readDir : EndRec → Bytes → Option β) (w e : Bytes) (a : β)
    (hlen : e.length = 22) (hsig : e.take 4 = sigEOCD) (hz : e.drop 20 = [0, 0])
    (hdir : (EndRec.mk w.length e).sizeCd ≤ w.length) (hread : readDir ⟨w.length, e⟩ (w ++ e) = some a) :
    zipOpen readDir (w ++ e) = some a := by
  unfold zipOpen
  rw [endRecData_full w e hlen hsig hz]
  have : (EndRec.mk w.length e).startDir.isNone = false := by
    unfold EndRec.startDir
    rw [if_neg (by simp only [] at hdir ⊢; omega)]; rfl
  simp only [this, Bool.false_eq_true, if_false, hread]

theorem zipOpen_prefix_none (readDir : EndRec → Bytes → Option β) (w : Bytes) (hocc : ∀ i, SigAt w i → w.length ≤ i + 22)
    (j : Nat) (hj : j < w.length) : zipOpen readDir (w.take j) = none := by
  unfold zipOpen
  rw [endRecData_prefix_none w hocc j hj]

/-- **`ZipContract` holds for the byte-level opener**, with no bytes after the record (`tail = 0`):
    an archive `x ++ e` (`e` the end record) in which the signature does not occur before the record
    opens to what the directory reader returns *for the complete archive* — the only thing assumed
    of it — and none of its proper prefixes opens. -/
theorem zipContract_of_eocd (readDir : EndRec → Bytes → Option β) (x e : Bytes) (a : β)
    (hlen : e.length = 22) (hsig : e.take 4 = sigEOCD) (hz : e.drop 20 = [0, 0])
    (hocc : ∀ i, SigAt (x ++ e) i → x.length ≤ i)
    (hdir : (EndRec.mk x.length e).sizeCd ≤ x.length)
    (hread : readDir ⟨x.length, e⟩ (x ++ e) = some a) :
    ZipContract (zipOpen readDir) (x ++ e) a 0 := by
  refine ⟨zipOpen_full readDir x e a hlen hsig hz hdir hread, fun j hj hle => by omega, fun j hj => ?_⟩
  exact zipOpen_prefix_none readDir (x ++ e) (fun i hi => by have := hocc i hi; simp [hlen]; omega) j (by omega)

/-! ## CQM files, the archive located in the whole file -/

theorem containerLoadW_full (pre text body : Bytes) (maj min : UInt8) (parse : Bytes → Option H) (h : H)
    (verOk : List Nat → Bool) (openWhole : Bytes → Option β) (a : β)
    (hh : HeaderOK parse text h) (hver : verOk [maj.toNat, min.toNat] = true)
    (hopen : openWhole (makeHeader pre maj min text ++ body) = some a) :
    containerLoadW pre parse verOk openWhole (makeHeader pre maj min text ++ body) = .ok (h, a) := by
  unfold containerLoadW
  rw [readHeader_full pre text maj min parse h hh.1 hh.2.1 hh.2.2 body]
  simp [hver, hopen]

/-- header + archive cut anywhere: if no proper prefix of the whole file opens, every proper prefix raises -/
theorem containerLoadW_cut (pre text body : Bytes) (maj min : UInt8) (parse : Bytes → Option H) (h : H)
    (verOk : List Nat → Bool) (openWhole : Bytes → Option β)
    (hh : HeaderOK parse text h)
    (hnone : ∀ k, k < (makeHeader pre maj min text ++ body).length → openWhole ((makeHeader pre maj min text ++ body).take k) = none)
    (k : Nat) (hk : k < (makeHeader pre maj min text ++ body).length) :
    ∃ e, containerLoadW pre parse verOk openWhole ((makeHeader pre maj min text ++ body).take k) = .err e := by
  have hcomp := Comp.header pre text maj min parse h hh.1 hh.2.1 hh.2.2
  unfold containerLoadW
  by_cases hlt : k < (makeHeader pre maj min text).length
  · have ht : (makeHeader pre maj min text ++ body).take k = (makeHeader pre maj min text).take k := take_append_lt (Nat.le_of_lt hlt)
    rcases hcomp.cut k hlt with ⟨e, he⟩ | ⟨_, hok⟩
    · exact ⟨e, by rw [ht, he]⟩
    · have hn := hnone k hk
      rw [ht] at hn ⊢
      rw [hok]
      by_cases hv : verOk [maj.toNat, min.toNat] = true
      · exact ⟨.zip, by simp [hv, hn]⟩
      · exact ⟨.value, by simp [hv]⟩
  · have hge : (makeHeader pre maj min text).length ≤ k := Nat.le_of_not_lt hlt
    have hn := hnone k hk
    rw [take_append_ge hge] at hn ⊢
    rw [hcomp.full]
    by_cases hv : verOk [maj.toNat, min.toNat] = true
    · exact ⟨.zip, by simp [hv, hn]⟩
    · exact ⟨.value, by simp [hv]⟩

/-! ## DQM files: what `np.load` is handed -/

theorem dqmFront_run (parse : Bytes → Option (Bool × H)) (hdrText : Bytes) (labelled : Bool) (h : H) (n : Nat)
    (hh : HeaderOK parse hdrText (labelled, h)) (hn : n < 256 ^ 4) :
    ∀ rest, (dqmFront parse).run (makeHeader dqmPrefix 1 1 hdrText ++ (magBIAS ++ (toLE 4 n ++ rest))) = .ok ((labelled, h, n), rest) := by
  intro rest
  unfold dqmFront
  have hver : (!tupleLt [(1 : UInt8).toNat, (1 : UInt8).toNat] [2, 0]) = false := by decide
  rw [run_bind_ok (readHeader_full dqmPrefix hdrText 1 1 parse (labelled, h) hh.1 hh.2.1 hh.2.2 _)]
  simp only [hver, Bool.false_eq_true, if_false]
  rw [run_bind_ok ((Comp.expect magBIAS).full _)]
  rw [run_bind_ok ((Comp.readLen 4 n hn (by decide)).full rest)]
  rfl

/-- **the DQM defect, for every model**: when the `VARS` section (any trailing bytes `v` in which the
    signature does not occur) is at least `65536 + 22` bytes long, the loader that hands `np.load`
    the whole file raises `BadZipFile` on the COMPLETE file `to_file` wrote — whatever the
    directory reader would do. -/
theorem dqmLoad_whole_long_tail (parse : Bytes → Option (Bool × H)) (parseVars : Bytes → Option (List J))
    (readNpz : EndRec → Bytes → Option D) (nvarsOf : D → Nat) (hdrText npz v : Bytes) (labelled : Bool) (h : H)
    (hh : HeaderOK parse hdrText (labelled, h)) (hsz : npz.length < 256 ^ 4) (hmagic : npz.take 4 = sigLocal)
    (hv : ∀ i, ¬ SigAt v i) (hlen : eocdWindow ≤ v.length) :
    dqmLoad true parse parseVars readNpz nvarsOf
      (makeHeader dqmPrefix 1 1 hdrText ++ (magBIAS ++ (toLE 4 npz.length ++ (npz ++ v)))) = .err .zip := by
  unfold dqmLoad
  rw [dqmFront_run parse hdrText labelled h npz.length hh hsz (npz ++ v)]
  have hm : (npz ++ v).take 4 = sigLocal := by
    have h4 : 4 ≤ npz.length := by
      have := congrArg List.length hmagic
      simp [sigLocal, List.length_take] at this; omega
    rw [List.take_append_of_le_length h4, hmagic]
  simp only [if_true, hm]
  have e : makeHeader dqmPrefix 1 1 hdrText ++ (magBIAS ++ (toLE 4 npz.length ++ (npz ++ v))) =
      (makeHeader dqmPrefix 1 1 hdrText ++ (magBIAS ++ (toLE 4 npz.length ++ npz))) ++ v := by simp
  have hz : zipOpen readNpz (makeHeader dqmPrefix 1 1 hdrText ++ (magBIAS ++ (toLE 4 npz.length ++ (npz ++ v)))) = none := by
    unfold zipOpen
    rw [e, endRecData_trailing_none _ v hv hlen]
  rw [hz]
  simp

/-- **with the repair** (`np.load` is handed the blob only): the complete file loads, whatever
    follows the blob, under the directory-reader contract for the complete blob -/
theorem dqmLoad_blob_full (parse : Bytes → Option (Bool × H)) (parseVars : Bytes → Option (List J))
    (readNpz : EndRec → Bytes → Option D) (nvarsOf : D → Nat) (hdrText x e varsText : Bytes) (labelled : Bool) (h : H) (d : D)
    (labels : List J) (hh : HeaderOK parse hdrText (labelled, h)) (hsz : (x ++ e).length < 256 ^ 4) (hmagic : (x ++ e).take 4 = sigLocal)
    (hlen : e.length = 22) (hsig : e.take 4 = sigEOCD) (hz : e.drop 20 = [0, 0])
    (hdir : (EndRec.mk x.length e).sizeCd ≤ x.length) (hread : readNpz ⟨x.length, e⟩ (x ++ e) = some d)
    (hv : labelled = true → VarsOK parseVars varsText labels ∧ labels.length = nvarsOf d) :
    dqmLoad false parse parseVars readNpz nvarsOf (dqmEncode hdrText labelled (x ++ e) varsText) =
      .ok (h, d, if labelled then some labels else none) := by
  rw [dqmEncode_eq]
  unfold dqmLoad
  rw [dqmFront_run parse hdrText labelled h (x ++ e).length hh hsz _]
  have ht : ((x ++ e) ++ (if labelled then sectionDumps magVARS nlb4 varsText else [])).take (x ++ e).length = x ++ e := List.take_left' rfl
  have hdz : ((x ++ e) ++ (if labelled then sectionDumps magVARS nlb4 varsText else [])).drop (x ++ e).length =
      (if labelled then sectionDumps magVARS nlb4 varsText else []) := List.drop_left' rfl
  simp only [Bool.false_eq_true, if_false, ht, hdz, hmagic]
  have hopen : zipOpen readNpz (x ++ e) = some d := zipOpen_full readNpz x e d hlen hsig hz hdir hread
  rw [hopen]
  simp only [ne_eq, not_true_eq_false, false_and, if_false]
  cases labelled with
  | false => simp [dqmTail, Prog.run]
  | true =>
    obtain ⟨hvars, hl⟩ := hv rfl
    have hc := (Comp.vars parseVars varsText labels hvars.1 hvars.2.1 hvars.2.2).full []
    rw [List.append_nil] at hc
    simp only [dqmTail, if_true]
    rw [run_bind_ok hc]
    simp [hl, Prog.run]

theorem serializeLabels_length : ∀ ls : List FLabel, (serializeLabels ls).length = ls.length
  | [] => rfl
  | _ :: t => by simp [serializeLabels, serializeLabels_length t]

end FileFmt
