import DimodProofs.BKLabels

/-! # C15: the count queue `que` of the coded bookkeeping, and non-failure of the loop (core Lean only) -/

namespace Red
open Pen

abbrev Que := List (Nat × List Pair)

/-- `pair in que[n]` -/
def inQue (q : Que) (n : Nat) (p : Pair) : Prop := ∃ e ∈ q, e.1 = n ∧ ∃ x ∈ e.2, pairEq p x = true

def QKeys (q : Que) : Prop := (q.map (·.1)).Nodup
def QNonEmpty (q : Que) : Prop := ∀ e ∈ q, e.2 ≠ []

theorem any_pairEq_iff (l : List Pair) (p : Pair) : l.any (pairEq p) = true ↔ ∃ x ∈ l, pairEq p x = true := by
  simp [List.any_eq_true]

/-! ## `que[n].add(pair)` -/

theorem keys_queAdd (q : Que) (n : Nat) (p : Pair) (k : Nat) :
    k ∈ (queAdd q n p).map (·.1) ↔ (k ∈ q.map (·.1) ∨ k = n) := by
  induction q with
  | nil => simp [queAdd]
  | cons e r ih =>
    simp only [queAdd]
    split
    · rename_i h; simp only [List.map_cons, List.mem_cons]; rw [← h]; grind
    · simp only [List.map_cons, List.mem_cons, ih]; grind

theorem qkeys_queAdd (q : Que) (hk : QKeys q) (n : Nat) (p : Pair) : QKeys (queAdd q n p) := by
  unfold QKeys at *
  induction q with
  | nil => simp [queAdd]
  | cons e r ih =>
    simp only [List.map_cons, List.nodup_cons] at hk
    simp only [queAdd]
    split
    · simp only [List.map_cons, List.nodup_cons]; exact hk
    · rename_i hne
      simp only [List.map_cons, List.nodup_cons]
      refine ⟨?_, ih hk.2⟩
      intro hm
      rcases (keys_queAdd r n p e.1).1 hm with h | h
      · exact hk.1 h
      · exact hne h

theorem qnonempty_queAdd (q : Que) (h : QNonEmpty q) (n : Nat) (p : Pair) : QNonEmpty (queAdd q n p) := by
  induction q with
  | nil => intro e he; simp only [queAdd, List.mem_singleton] at he; subst he; simp
  | cons a r ih =>
    intro e he
    simp only [queAdd] at he
    split at he
    · simp only [List.mem_cons] at he
      rcases he with rfl | he
      · simp only
        split
        · exact h a (by simp)
        · simp
      · exact h e (by simp [he])
    · simp only [List.mem_cons] at he
      rcases he with rfl | he
      · exact h e (by simp)
      · exact ih (fun e' he' => h e' (by simp [he'])) e he

theorem inQue_queAdd (q : Que) (n : Nat) (p : Pair) (n' : Nat) (p' : Pair) :
    inQue (queAdd q n p) n' p' ↔ (inQue q n' p' ∨ (n' = n ∧ pairEq p' p = true)) := by
  induction q with
  | nil =>
    simp only [queAdd, inQue, List.mem_singleton, List.not_mem_nil, false_and, exists_false, false_or]
    constructor
    · rintro ⟨e, rfl, h1, x, hx, h2⟩
      simp only [List.mem_singleton] at hx; subst hx; exact ⟨h1.symm, h2⟩
    · rintro ⟨h1, h2⟩; exact ⟨(n, [p]), rfl, h1.symm, p, by simp, h2⟩
  | cons e r ih =>
    simp only [queAdd]
    by_cases hen : e.1 = n
    · simp only [hen, if_true]
      constructor
      · rintro ⟨e', he', h1, x, hx, h2⟩
        simp only [List.mem_cons] at he'
        rcases he' with rfl | he'
        · simp only at h1 hx
          by_cases hany : e.2.any (pairEq p) = true
          · rw [if_pos hany] at hx
            exact Or.inl ⟨e, by simp, by rw [hen]; exact h1, x, hx, h2⟩
          · rw [if_neg hany] at hx
            simp only [List.mem_append, List.mem_singleton] at hx
            rcases hx with hx | rfl
            · exact Or.inl ⟨e, by simp, by rw [hen]; exact h1, x, hx, h2⟩
            · exact Or.inr ⟨h1.symm, h2⟩
        · exact Or.inl ⟨e', by simp [he'], h1, x, hx, h2⟩
      · rintro (⟨e', he', h1, x, hx, h2⟩ | ⟨h1, h2⟩)
        · simp only [List.mem_cons] at he'
          rcases he' with rfl | he'
          · refine ⟨(n, if e'.2.any (pairEq p) then e'.2 else e'.2 ++ [p]), by simp, by rw [← h1, hen], x, ?_, h2⟩
            simp only
            split
            · exact hx
            · exact List.mem_append_left _ hx
          · exact ⟨e', by simp [he'], h1, x, hx, h2⟩
        · by_cases hany : e.2.any (pairEq p) = true
          · obtain ⟨x, hx, hpx⟩ := (any_pairEq_iff e.2 p).1 hany
            exact ⟨(n, if e.2.any (pairEq p) then e.2 else e.2 ++ [p]), by simp, h1.symm, x, by simp [hany, hx], pairEq_trans _ _ _ h2 hpx⟩
          · exact ⟨(n, if e.2.any (pairEq p) then e.2 else e.2 ++ [p]), by simp, h1.symm, p, by simp [hany], h2⟩
    · simp only [hen, if_false]
      constructor
      · rintro ⟨e', he', h1, x, hx, h2⟩
        simp only [List.mem_cons] at he'
        rcases he' with rfl | he'
        · exact Or.inl ⟨e', by simp, h1, x, hx, h2⟩
        · rcases (ih.1 ⟨e', he', h1, x, hx, h2⟩) with ⟨e'', he'', h⟩ | h
          · exact Or.inl ⟨e'', by simp [he''], h⟩
          · exact Or.inr h
      · rintro (⟨e', he', h1, x, hx, h2⟩ | h)
        · simp only [List.mem_cons] at he'
          rcases he' with rfl | he'
          · exact ⟨e', by simp, h1, x, hx, h2⟩
          · obtain ⟨e'', he'', h⟩ := ih.2 (Or.inl ⟨e', he', h1, x, hx, h2⟩)
            exact ⟨e'', by simp [he''], h⟩
        · obtain ⟨e'', he'', h'⟩ := ih.2 (Or.inr h)
          exact ⟨e'', by simp [he''], h'⟩

/-! ## `que[n].remove(pair)` -/

theorem inQue_cons (e : Nat × List Pair) (r : Que) (n : Nat) (p : Pair) :
    inQue (e :: r) n p ↔ ((e.1 = n ∧ ∃ x ∈ e.2, pairEq p x = true) ∨ inQue r n p) := by
  simp only [inQue, List.mem_cons]
  constructor
  · rintro ⟨e', rfl | he', h⟩
    · exact Or.inl h
    · exact Or.inr ⟨e', he', h⟩
  · rintro (h | ⟨e', he', h⟩)
    · exact ⟨e, Or.inl rfl, h⟩
    · exact ⟨e', Or.inr he', h⟩

theorem inQue_nokey (r : Que) (n : Nat) (p : Pair) (h : n ∉ r.map (·.1)) : ¬ inQue r n p := by
  rintro ⟨e, he, h1, _⟩
  exact h (List.mem_map.2 ⟨e, he, h1⟩)

theorem keys_queRemove (q : Que) (n : Nat) (p : Pair) (q' : Que) (h : queRemove q n p = some q') :
    (q'.map (·.1)).Sublist (q.map (·.1)) := by
  induction q generalizing q' with
  | nil => simp [queRemove] at h
  | cons e r ih =>
    simp only [queRemove] at h
    split at h
    · split at h
      · simp only [Option.some.injEq] at h
        subst h
        split
        · simp
        · simp
      · simp at h
    · cases hr : queRemove r n p with
      | none => rw [hr] at h; simp at h
      | some r' =>
        rw [hr] at h; simp only [Option.map_some, Option.some.injEq] at h
        subst h
        simp only [List.map_cons]
        exact (ih r' hr).cons_cons _

theorem queRemove_spec (q : Que) (hk : QKeys q) (n : Nat) (p : Pair) (hin : inQue q n p) :
    ∃ q', queRemove q n p = some q' ∧ QKeys q' ∧ (QNonEmpty q → QNonEmpty q')
      ∧ ∀ n' p', inQue q' n' p' ↔ (inQue q n' p' ∧ ¬ (n' = n ∧ pairEq p' p = true)) := by
  induction q with
  | nil => obtain ⟨e, he, _⟩ := hin; simp at he
  | cons e r ih =>
    have hk' : e.1 ∉ r.map (·.1) ∧ QKeys r := by
      unfold QKeys at hk ⊢; simpa [List.nodup_cons] using hk
    by_cases hen : e.1 = n
    · have hnr : n ∉ r.map (·.1) := by rw [← hen]; exact hk'.1
      have hany : ∃ x ∈ e.2, pairEq p x = true := by
        rcases (inQue_cons e r n p).1 hin with h | h
        · exact h.2
        · exact absurd h (inQue_nokey r n p hnr)
      have hany' : e.2.any (pairEq p) = true := (any_pairEq_iff e.2 p).2 hany
      refine ⟨_, by simp only [queRemove, hen, if_true, hany']; rfl, ?_, ?_, ?_⟩
      · split
        · exact hk'.2
        · unfold QKeys; simp only [List.map_cons, List.nodup_cons]; exact ⟨hnr, hk'.2⟩
      · intro hne
        split
        · exact fun e' he' => hne e' (by simp [he'])
        · rename_i hf
          intro e' he'
          simp only [List.mem_cons] at he'
          rcases he' with rfl | he'
          · simp only; intro h0; rw [h0] at hf; simp at hf
          · exact hne e' (by simp [he'])
      · intro n' p'
        have key : inQue (if (e.2.filter (fun q => !pairEq q p)).isEmpty then r else (n, e.2.filter (fun q => !pairEq q p)) :: r) n' p'
            ↔ ((n = n' ∧ ∃ x ∈ e.2.filter (fun q => !pairEq q p), pairEq p' x = true) ∨ inQue r n' p') := by
          split
          · rename_i hf
            have : e.2.filter (fun q => !pairEq q p) = [] := by simpa using hf
            rw [this]; simp
          · rw [inQue_cons]
        rw [inQue_cons, key]
        constructor
        · rintro (⟨h1, x, hx, h2⟩ | h)
          · simp only [List.mem_filter, Bool.not_eq_true'] at hx
            refine ⟨Or.inl ⟨by rw [hen]; exact h1, x, hx.1, h2⟩, ?_⟩
            rintro ⟨_, h3⟩
            have := pairEq_trans _ _ _ (pairEq_symm' _ _ h2) h3
            rw [this] at hx; exact absurd hx.2 (by simp)
          · refine ⟨Or.inr h, ?_⟩
            rintro ⟨h1, _⟩
            subst h1
            exact inQue_nokey r n' p' hnr h
        · rintro ⟨(⟨h1, x, hx, h2⟩ | h), hnot⟩
          · refine Or.inl ⟨by rw [← hen]; exact h1, x, ?_, h2⟩
            simp only [List.mem_filter, Bool.not_eq_true']
            refine ⟨hx, ?_⟩
            cases hxp : pairEq x p with
            | false => rfl
            | true => exact absurd ⟨by rw [← h1, hen], pairEq_trans _ _ _ h2 hxp⟩ hnot
          · exact Or.inr h
    · have hin' : inQue r n p := by
        rcases (inQue_cons e r n p).1 hin with h | h
        · exact absurd h.1 hen
        · exact h
      obtain ⟨r', hr', hk2, hne2, hchar⟩ := ih hk'.2 hin'
      refine ⟨e :: r', by simp only [queRemove, hen, if_false, hr', Option.map_some], ?_, ?_, ?_⟩
      · unfold QKeys; simp only [List.map_cons, List.nodup_cons]
        exact ⟨fun hm => hk'.1 ((keys_queRemove r n p r' hr').subset hm), hk2⟩
      · intro hne e' he'
        simp only [List.mem_cons] at he'
        rcases he' with rfl | he'
        · exact hne e' (by simp)
        · exact hne2 (fun e'' he'' => hne e'' (by simp [he''])) e' he'
      · intro n' p'
        rw [inQue_cons, inQue_cons, hchar]
        constructor
        · rintro (h | ⟨h, hnot⟩)
          · exact ⟨Or.inl h, fun ⟨h1, _⟩ => hen (by rw [h.1, h1])⟩
          · exact ⟨Or.inr h, hnot⟩
        · rintro ⟨h | h, hnot⟩
          · exact Or.inl h
          · exact Or.inr ⟨h, hnot⟩

theorem queRemove_none_of_not (q : Que) (n : Nat) (p : Pair) (h : ¬ inQue q n p) (hk : QKeys q) : queRemove q n p = none := by
  induction q with
  | nil => rfl
  | cons e r ih =>
    have hk' : QKeys r := by unfold QKeys at hk ⊢; simp only [List.map_cons, List.nodup_cons] at hk; exact hk.2
    rw [inQue_cons] at h
    simp only [queRemove]
    by_cases hen : e.1 = n
    · simp only [hen, if_true]
      have : ¬ (e.2.any (pairEq p) = true) := fun ha => h (Or.inl ⟨hen, (any_pairEq_iff e.2 p).1 ha⟩)
      simp [this]
    · simp only [hen, if_false]
      rw [ih (fun h' => h (Or.inr h')) hk']; rfl

/-! ## the invariant tying `que` to `idx` -/

/-- `pair in new_pairs` -/
def inNew (L : List Pair) (p : Pair) : Prop := ∃ x ∈ L, pairEq p x = true

theorem inNew_congr (L : List Pair) (p q : Pair) (h : pairEq p q = true) : inNew L p ↔ inNew L q := by
  constructor
  · rintro ⟨x, hx, h1⟩; exact ⟨x, hx, pairEq_trans _ _ _ (pairEq_symm' _ _ h) h1⟩
  · rintro ⟨x, hx, h1⟩; exact ⟨x, hx, pairEq_trans _ _ _ h h1⟩

/-- `que[n]` holds exactly the keys of `idx` with `n` terms, except the pairs of `new_pairs`
    (which the loop enters into `que` only at the end of the iteration) -/
structure QueInv (s : BK) (L : List Pair) : Prop where
  keys : QKeys s.que
  ne : QNonEmpty s.que
  char : ∀ n p, inQue s.que n p ↔ (¬ inNew L p ∧ 0 < n ∧ (absIdx s.idx p).length = n)

theorem length_delT (t : LTerm) (m : List (LTerm × Rat)) (h : ∃ e ∈ m, sameSet e.1 t = true) :
    (delT t m).length + 1 = m.length := by
  induction m with
  | nil => obtain ⟨e, he, _⟩ := h; simp at he
  | cons a r ih =>
    simp only [delT]
    by_cases ha : sameSet a.1 t = true
    · simp [ha]
    · have ha' : sameSet a.1 t = false := by simpa using ha
      simp only [ha', Bool.false_eq_true, if_false, List.length_cons]
      obtain ⟨e, he, h1⟩ := h
      simp only [List.mem_cons] at he
      rcases he with rfl | he
      · exact absurd h1 ha
      · rw [ih ⟨e, he, h1⟩]

theorem idxGet_of_absIdx_ne (idx : Idx) (p : Pair) (h : absIdx idx p ≠ []) : idxGet idx p = some (absIdx idx p) := by
  unfold absIdx at *
  cases hg : idxGet idx p with
  | none => rw [hg] at h; simp at h
  | some m => simp

/-- `_decrement_count(idx, que, pair); _remove_old(idx, old_term, pair)` does not raise and keeps the invariant -/
theorem decRem_ok (T : LTerm) (s : BK) (L : List Pair) (p : Pair) (hq : QueInv s L) (hwf : IdxWF s.idx)
    (hT : ∃ tb ∈ absIdx s.idx p, sameSet tb.1 T = true) (hnew : ¬ inNew L p) :
    ∃ s', decRem T s p = some s' ∧ QueInv s' L := by
  have hne : absIdx s.idx p ≠ [] := by
    obtain ⟨tb, htb, _⟩ := hT; intro h0; rw [h0] at htb; simp at htb
  have hget := idxGet_of_absIdx_ne s.idx p hne
  generalize hm : absIdx s.idx p = m at *
  have hpos : 0 < m.length := by cases m with
    | nil => exact absurd rfl hne
    | cons _ _ => simp
  have hin : inQue s.que m.length p := (hq.char m.length p).2 ⟨hnew, hpos, by rw [hm]⟩
  obtain ⟨q', hq', hk2, hne2, hchar⟩ := queRemove_spec s.que hq.keys m.length p hin
  have hany : m.any (fun e => sameSet e.1 T) = true := by
    obtain ⟨tb, htb, h1⟩ := hT
    exact List.any_eq_true.2 ⟨tb, htb, h1⟩
  let s1 : BK := { s with que := if m.length > 1 then queAdd q' (m.length - 1) p else q' }
  have hdec : decrementCount s p = some s1 := by
    simp only [decrementCount, hget, hq']; rfl
  have hrem : ∃ s', removeOld s1 T p = some s' := by
    simp only [removeOld, s1, hget, hany, if_true]; exact ⟨_, rfl⟩
  obtain ⟨s', hs'⟩ := hrem
  refine ⟨s', by simp only [decRem, hdec, Option.bind_some]; exact hs', ?_⟩
  obtain ⟨_, hque, habs⟩ := removeOld_spec s1 T p s' hs' hwf
  have hq1 : s1.que = if m.length > 1 then queAdd q' (m.length - 1) p else q' := rfl
  have hidx1 : s1.idx = s.idx := rfl
  rw [hidx1, hm] at habs
  have hlen := length_delT T m hT
  refine ⟨?_, ?_, ?_⟩
  · rw [hque, hq1]; split
    · exact qkeys_queAdd _ hk2 _ _
    · exact hk2
  · rw [hque, hq1]; split
    · exact qnonempty_queAdd _ (hne2 hq.ne) _ _
    · exact hne2 hq.ne
  · intro n' p'
    have hq'' : inQue s'.que n' p' ↔
        ((inQue s.que n' p' ∧ ¬ (n' = m.length ∧ pairEq p' p = true)) ∨ (m.length > 1 ∧ n' = m.length - 1 ∧ pairEq p' p = true)) := by
      rw [hque, hq1]
      split
      · rename_i h1; rw [inQue_queAdd, hchar]; simp [h1]
      · rename_i h1; rw [hchar]; simp [h1]
    rw [hq'', habs p', hq.char n' p']
    by_cases hp : pairEq p' p = true
    · have hp' : pairEq p p' = true := pairEq_symm' _ _ hp
      have hm' : absIdx s.idx p' = m := by rw [absIdx_congr s.idx p' p hp, hm]
      have hn' : ¬ inNew L p' := fun h => hnew ((inNew_congr L p' p hp).1 h)
      simp only [hp, hp', if_true, hm', and_true]
      constructor
      · rintro (⟨⟨_, _, h3⟩, h4⟩ | ⟨h1, h2⟩)
        · exact absurd h3.symm h4
        · exact ⟨hn', by omega, by omega⟩
      · rintro ⟨_, h2, h3⟩
        right; omega
    · have hp' : ¬ pairEq p p' = true := fun h => hp (pairEq_symm' _ _ h)
      simp [hp, hp']

/-- `idx[common_pair][new_term] = bias; _remove_old(idx, old_term, common_pair)` does not raise and keeps the invariant -/
theorem setRem_ok (nt : LTerm) (b : Rat) (T : LTerm) (s : BK) (L : List Pair) (p : Pair) (hq : QueInv s L) (hwf : IdxWF s.idx)
    (hT : ∃ tb ∈ absIdx s.idx p, sameSet tb.1 T = true)
    (hfresh : ∀ e ∈ absIdx s.idx p, sameSet e.1 nt = false) :
    ∃ s', setRem nt b T s p = some s' ∧ QueInv s' L := by
  let s1 : BK := { s with idx := idxSet s.idx p nt b }
  have hwf1 : IdxWF s1.idx := idxWF_idxSet s.idx hwf p nt b hfresh
  have habs1 : ∀ q, absIdx s1.idx q = if pairEq p q = true then absIdx s.idx p ++ [(nt, b)] else absIdx s.idx q := by
    intro q
    show absIdx (idxSet s.idx p nt b) q = _
    rw [absIdx_idxSet, setT_fresh nt b _ hfresh]
  have hT1 : ∃ tb ∈ absIdx s1.idx p, sameSet tb.1 T = true := by
    obtain ⟨tb, htb, h1⟩ := hT
    refine ⟨tb, ?_, h1⟩
    rw [habs1 p, if_pos (pairEq_refl p)]
    exact List.mem_append_left _ htb
  have hne1 : absIdx s1.idx p ≠ [] := by
    obtain ⟨tb, htb, _⟩ := hT1; intro h0; rw [h0] at htb; simp at htb
  have hget := idxGet_of_absIdx_ne s1.idx p hne1
  have hany : (absIdx s1.idx p).any (fun e => sameSet e.1 T) = true := by
    obtain ⟨tb, htb, h1⟩ := hT1
    exact List.any_eq_true.2 ⟨tb, htb, h1⟩
  have hrem : ∃ s', removeOld s1 T p = some s' := by
    simp only [removeOld, hget, hany, if_true]; exact ⟨_, rfl⟩
  obtain ⟨s', hs'⟩ := hrem
  refine ⟨s', hs', ?_⟩
  obtain ⟨_, hque, habs⟩ := removeOld_spec s1 T p s' hs' hwf1
  have hq1 : s1.que = s.que := rfl
  have hlen := length_delT T _ hT1
  have hlenAll : ∀ q, (absIdx s'.idx q).length = (absIdx s.idx q).length := by
    intro q
    rw [habs q]
    by_cases hp : pairEq p q = true
    · rw [if_pos hp, ← absIdx_congr s.idx p q hp]
      rw [habs1 p, if_pos (pairEq_refl p)] at hlen
      simp only [List.length_append, List.length_singleton] at hlen
      rw [habs1 p, if_pos (pairEq_refl p)]
      omega
    · rw [if_neg hp, habs1 q, if_neg hp]
  refine ⟨by rw [hque, hq1]; exact hq.keys, by rw [hque, hq1]; exact hq.ne, ?_⟩
  intro n' p'
  rw [hque, hq1, hlenAll p']
  exact hq.char n' p'

/-! ## the three inner loops do not raise -/

theorem any_single (p q : Pair) : ([p].any (fun p' => pairEq p' q) = true) ↔ pairEq p q = true := by simp

/-- loop 1 -/
theorem fold_decRem_ok (T : LTerm) (L : List Pair) (s : BK) (Ln : List Pair) (hq : QueInv s Ln) (hwf : IdxWF s.idx)
    (hL : L.Pairwise (fun p p' => pairEq p p' = false))
    (hT : ∀ p ∈ L, ∃ tb ∈ absIdx s.idx p, sameSet tb.1 T = true) (hnew : ∀ p ∈ L, ¬ inNew Ln p) :
    ∃ s', L.foldlM (decRem T) s = some s' ∧ QueInv s' Ln := by
  induction L generalizing s with
  | nil => exact ⟨s, rfl, hq⟩
  | cons p r ih =>
    simp only [List.pairwise_cons] at hL
    obtain ⟨s1, hs1, hq1⟩ := decRem_ok T s Ln p hq hwf (hT p (by simp)) (hnew p (by simp))
    have h1 : [p].foldlM (decRem T) s = some s1 := by simp [List.foldlM_cons, hs1]
    obtain ⟨hwf1, hm1⟩ := fold_decRem T [p] s s1 h1 hwf
    obtain ⟨s', hs', hq'⟩ := ih s1 hq1 hwf1 hL.2 (by
      intro q hqr
      obtain ⟨tb, htb, hs⟩ := hT q (by simp [hqr])
      refine ⟨tb, (hm1 q tb).2 ⟨htb, ?_⟩, hs⟩
      rintro ⟨h2, _⟩
      rw [any_single] at h2
      rw [hL.1 q hqr] at h2; cases h2) (fun q hqr => hnew q (by simp [hqr]))
    exact ⟨s', by simp only [List.foldlM_cons, hs1, Option.bind_eq_bind, Option.bind_some]; exact hs', hq'⟩

/-- loop 2 -/
theorem fold_setRem_ok (nt : LTerm) (b : Rat) (T : LTerm) (hnt : sameSet nt T = false) (L : List Pair) (s : BK) (Ln : List Pair)
    (hq : QueInv s Ln) (hwf : IdxWF s.idx)
    (hL : L.Pairwise (fun p p' => pairEq p p' = false))
    (hT : ∀ p ∈ L, ∃ tb ∈ absIdx s.idx p, sameSet tb.1 T = true)
    (hfresh : ∀ p ∈ L, ∀ e ∈ absIdx s.idx p, sameSet e.1 nt = false) :
    ∃ s', L.foldlM (setRem nt b T) s = some s' ∧ QueInv s' Ln := by
  induction L generalizing s with
  | nil => exact ⟨s, rfl, hq⟩
  | cons p r ih =>
    simp only [List.pairwise_cons] at hL
    obtain ⟨s1, hs1, hq1⟩ := setRem_ok nt b T s Ln p hq hwf (hT p (by simp)) (hfresh p (by simp))
    have h1 : [p].foldlM (setRem nt b T) s = some s1 := by simp [List.foldlM_cons, hs1]
    obtain ⟨hwf1, hm1⟩ := fold_setRem nt b T hnt [p] s s1 h1 hwf (by simp) (by
      intro p' hp' e he
      simp only [List.mem_singleton] at hp'; subst hp'
      exact hfresh p' (by simp) e he)
    have hsame : ∀ q ∈ r, ∀ tb, tb ∈ absIdx s1.idx q ↔ tb ∈ absIdx s.idx q := by
      intro q hqr tb
      rw [hm1 q tb, any_single, hL.1 q hqr]; simp
    obtain ⟨s', hs', hq'⟩ := ih s1 hq1 hwf1 hL.2 (by
      intro q hqr
      obtain ⟨tb, htb, hs⟩ := hT q (by simp [hqr])
      exact ⟨tb, (hsame q hqr tb).2 htb, hs⟩) (by
      intro q hqr e he
      exact hfresh q (by simp [hqr]) e ((hsame q hqr e).1 he))
    exact ⟨s', by simp only [List.foldlM_cons, hs1, Option.bind_eq_bind, Option.bind_some]; exact hs', hq'⟩

/-- what holds between two `old_term`s of one iteration -/
structure StepInv (acc : BK × List Pair) (prod : Label) : Prop where
  que : QueInv acc.1 acc.2
  fresh : ∀ c, c ≠ prod → absIdx acc.1.idx (prod, c) ≠ [] → inNew acc.2 (prod, c)
  new : ∀ p, inNew acc.2 p → absIdx acc.1.idx p ≠ []
  pw : acc.2.Pairwise (fun p p' => pairEq p p' = false)
  shape : ∀ p ∈ acc.2, ∃ c, c ≠ prod ∧ p = (prod, c)
  diag : ∀ a, absIdx acc.1.idx (a, a) = []

theorem ne_nil_iff_mem {α : Type} (l : List α) : l ≠ [] ↔ ∃ x, x ∈ l := by
  cases l with
  | nil => simp
  | cons a r => simp

theorem inNew_shape (L : List Pair) (prod : Label) (hs : ∀ p ∈ L, ∃ c, c ≠ prod ∧ p = (prod, c)) (p : Pair) (h : inNew L p) :
    ∃ c, c ≠ prod ∧ pairEq p (prod, c) = true := by
  obtain ⟨x, hx, h1⟩ := h
  obtain ⟨c, hc, rfl⟩ := hs x hx
  exact ⟨c, hc, h1⟩

/-- the bookkeeping other than `idx` at the keys `{prod, c}` and `que` is irrelevant for `StepInv` -/
theorem stepInv_transfer (acc : BK × List Pair) (prod : Label) (h : StepInv acc prod) (s2 : BK) (hq : QueInv s2 acc.2)
    (hsame : ∀ c, c ≠ prod → ∀ tb, tb ∈ absIdx s2.idx (prod, c) ↔ tb ∈ absIdx acc.1.idx (prod, c))
    (hdiag : ∀ a, absIdx s2.idx (a, a) = []) :
    StepInv (s2, acc.2) prod := by
  refine ⟨hq, ?_, ?_, h.pw, h.shape, hdiag⟩
  · intro c hc hne
    obtain ⟨tb, htb⟩ := (ne_nil_iff_mem _).1 hne
    exact h.fresh c hc ((ne_nil_iff_mem _).2 ⟨tb, (hsame c hc tb).1 htb⟩)
  · intro p hp
    obtain ⟨c, hc, hpc⟩ := inNew_shape acc.2 prod h.shape p hp
    have h1 := h.new p hp
    rw [absIdx_congr _ p (prod, c) hpc] at h1
    obtain ⟨tb, htb⟩ := (ne_nil_iff_mem _).1 h1
    show absIdx s2.idx p ≠ []
    rw [absIdx_congr _ p (prod, c) hpc]
    exact (ne_nil_iff_mem _).2 ⟨tb, (hsame c hc tb).2 htb⟩

/-- loop 3, one pair: `idx[new_pair][new_term] = bias; new_pairs.add(new_pair)` -/
theorem addNew_ok (nt : LTerm) (b : Rat) (prod : Label) (acc : BK × List Pair) (h : StepInv acc prod) (c : Label) (hc : c ≠ prod) :
    StepInv (addNew nt b prod acc c) prod := by
  have habs : ∀ q, absIdx (addNew nt b prod acc c).1.idx q
      = if pairEq (prod, c) q = true then setT nt b (absIdx acc.1.idx (prod, c)) else absIdx acc.1.idx q := by
    intro q; exact absIdx_idxSet _ _ _ _ _
  have hque : (addNew nt b prod acc c).1.que = acc.1.que := rfl
  have hnew : ∀ p, inNew (addNew nt b prod acc c).2 p ↔ (inNew acc.2 p ∨ pairEq p (prod, c) = true) := by
    intro p
    show inNew (if acc.2.any (pairEq (prod, c)) then acc.2 else acc.2 ++ [(prod, c)]) p ↔ _
    split
    · rename_i hany
      constructor
      · exact Or.inl
      · rintro (h1 | h1)
        · exact h1
        · obtain ⟨x, hx, h2⟩ := (any_pairEq_iff _ _).1 hany
          exact ⟨x, hx, pairEq_trans _ _ _ h1 h2⟩
    · constructor
      · rintro ⟨x, hx, h1⟩
        simp only [List.mem_append, List.mem_singleton] at hx
        rcases hx with hx | rfl
        · exact Or.inl ⟨x, hx, h1⟩
        · exact Or.inr h1
      · rintro (⟨x, hx, h1⟩ | h1)
        · exact ⟨x, List.mem_append_left _ hx, h1⟩
        · exact ⟨(prod, c), by simp, h1⟩
  refine ⟨⟨by rw [hque]; exact h.que.keys, by rw [hque]; exact h.que.ne, ?_⟩, ?_, ?_, ?_, ?_, ?_⟩
  rotate_left 5
  · intro a
    rw [habs (a, a)]
    have : pairEq (prod, c) (a, a) = false := by
      cases hx : pairEq (prod, c) (a, a) with
      | false => rfl
      | true =>
        rw [pairEq_iff] at hx
        rcases hx with ⟨h1, h2⟩ | ⟨h1, h2⟩
        · simp only at h1 h2; exact absurd (h2.trans h1.symm) hc
        · simp only at h1 h2; exact absurd (h2.trans h1.symm) hc
    rw [this]; simp [h.diag a]
  · intro n p
    rw [hque, habs p, hnew p, h.que.char n p]
    by_cases hp : pairEq p (prod, c) = true
    · have hp' := pairEq_symm' _ _ hp
      simp only [hp, hp', if_true, or_true, not_true, false_and, iff_false]
      rintro ⟨h1, h2, h3⟩
      apply h1
      rw [inNew_congr _ p (prod, c) hp]
      apply h.fresh c hc
      rw [← absIdx_congr _ p (prod, c) hp]
      intro h0; rw [h0] at h3; simp at h3; omega
    · have hp' : ¬ pairEq (prod, c) p = true := fun h' => hp (pairEq_symm' _ _ h')
      simp [hp, hp']
  · intro c' hc' hne
    rw [hnew]
    by_cases hp : pairEq (prod, c') (prod, c) = true
    · exact Or.inr hp
    · have hp' : ¬ pairEq (prod, c) (prod, c') = true := fun h' => hp (pairEq_symm' _ _ h')
      rw [habs, if_neg hp'] at hne
      exact Or.inl (h.fresh c' hc' hne)
  · intro p hp
    rw [habs p]
    by_cases hpe : pairEq (prod, c) p = true
    · rw [if_pos hpe]; exact setT_ne_nil _ _ _
    · rw [if_neg hpe]
      rcases (hnew p).1 hp with h1 | h1
      · exact h.new p h1
      · exact absurd (pairEq_symm' _ _ h1) hpe
  · show (if acc.2.any (pairEq (prod, c)) then acc.2 else acc.2 ++ [(prod, c)]).Pairwise _
    split
    · exact h.pw
    · rename_i hany
      rw [List.pairwise_append]
      refine ⟨h.pw, by simp, ?_⟩
      intro a ha x hx
      simp only [List.mem_singleton] at hx; subst hx
      cases hax : pairEq a (prod, c) with
      | false => rfl
      | true => exact absurd ((any_pairEq_iff _ _).2 ⟨a, ha, pairEq_symm' _ _ hax⟩) hany
  · intro p hp
    have hp' : p ∈ (if acc.2.any (pairEq (prod, c)) then acc.2 else acc.2 ++ [(prod, c)]) := hp
    split at hp'
    · exact h.shape p hp'
    · simp only [List.mem_append, List.mem_singleton] at hp'
      rcases hp' with hp' | rfl
      · exact h.shape p hp'
      · exact ⟨c, hc, rfl⟩

theorem fold_addNew_ok (nt : LTerm) (b : Rat) (prod : Label) (l : List Label) (hl : ∀ c ∈ l, c ≠ prod) (acc : BK × List Pair)
    (h : StepInv acc prod) : StepInv (l.foldl (addNew nt b prod) acc) prod := by
  induction l generalizing acc with
  | nil => exact h
  | cons c r ih =>
    simp only [List.foldl_cons]
    exact ih (fun c' hc' => hl c' (by simp [hc'])) _ (addNew_ok nt b prod acc h c (hl c (by simp)))

/-! ## one `old_term` -/

theorem pairEq_mem_false (a b c d : Label) (hac : a ≠ c) (had : a ≠ d) : pairEq (a, b) (c, d) = false := by
  cases h : pairEq (a, b) (c, d) with
  | false => rfl
  | true =>
    rw [pairEq_iff] at h
    rcases h with ⟨h1, _⟩ | ⟨h1, _⟩
    · exact absurd h1 hac
    · exact absurd h1 had

theorem pairEq_mem_false' (a b c d : Label) (hbc : b ≠ c) (hbd : b ≠ d) : pairEq (a, b) (c, d) = false := by
  cases h : pairEq (a, b) (c, d) with
  | false => rfl
  | true =>
    rw [pairEq_iff] at h
    rcases h with ⟨_, h1⟩ | ⟨_, h1⟩
    · exact absurd h1 hbd
    · exact absurd h1 hbc

/-- the body of `for old_term, bias in terms.items()` does not raise on a term of `idx[pair]`, and keeps `StepInv` -/
theorem bkTerm_ok (u v prod : Label) (huv : u ≠ v) (hpu : prod ≠ u) (hpv : prod ≠ v)
    (acc : BK × List Pair) (tb : LTerm × Rat)
    (cur : List (LTerm × Rat)) (hwf : IdxWF acc.1.idx) (hinv : IdxInv acc.1.idx cur (fun q => pairEq (u, v) q))
    (hnd : tb.1.Nodup) (hu : u ∈ tb.1) (hv : v ∈ tb.1) (hprod : prod ∉ tb.1)
    (hfresh : ∀ tb' ∈ cur, sameSet tb'.1 (substTerm u v prod tb.1) = false)
    (htb : tb ∈ cur) (hst : StepInv acc prod) :
    ∃ acc', bkTerm u v prod acc tb = some acc' ∧ StepInv acc' prod := by
  have hcommon_def : substTerm u v prod tb.1 = tb.1.filter (fun w => w ≠ u ∧ w ≠ v) ++ [prod] := rfl
  generalize hc : tb.1.filter (fun w => decide (w ≠ u ∧ w ≠ v)) = common at *
  have hcm : ∀ c, c ∈ common ↔ (c ∈ tb.1 ∧ c ≠ u ∧ c ≠ v) := by
    intro c; rw [← hc]; simp [List.mem_filter]
  have hcnd : common.Nodup := by rw [← hc]; exact hnd.filter _
  have hpc : prod ∉ common := fun hm => hprod ((hcm prod).1 hm).1
  have huc : u ∉ common := fun hm => ((hcm u).1 hm).2.1 rfl
  have hvc : v ∉ common := fun hm => ((hcm v).1 hm).2.2 rfl
  have hnt_t : sameSet (common ++ [prod]) tb.1 = false := by
    cases hs : sameSet (common ++ [prod]) tb.1 with
    | false => rfl
    | true => exact absurd ((mem_of_sameSet _ _ hs prod).1 (by simp)) hprod
  have hfresh' : ∀ tb' ∈ cur, sameSet tb'.1 (common ++ [prod]) = false := by
    intro tb' h'; rw [← hcommon_def]; exact hfresh tb' h'
  have hentries : ∀ p : Pair, p.1 ≠ p.2 → ∀ e ∈ absIdx acc.1.idx p, sameSet e.1 (common ++ [prod]) = false := by
    intro p hp e he
    have := (hinv p.1 p.2 hp e).1 he
    exact hfresh' e this.2.1
  -- the pair lists
  have hL1 : [u, v].flatMap (fun a => common.map (fun c => (a, c))) = common.map (fun c => (u, c)) ++ common.map (fun c => (v, c)) := by
    simp
  have hL1mem : ∀ p ∈ common.map (fun c => (u, c)) ++ common.map (fun c => (v, c)),
      ∃ a c, (a = u ∨ a = v) ∧ c ∈ common ∧ p = (a, c) := by
    intro p hp
    simp only [List.mem_append, List.mem_map] at hp
    rcases hp with ⟨c, hc', rfl⟩ | ⟨c, hc', rfl⟩
    · exact ⟨u, c, Or.inl rfl, hc', rfl⟩
    · exact ⟨v, c, Or.inr rfl, hc', rfl⟩
  have hL1pw : (common.map (fun c => (u, c)) ++ common.map (fun c => (v, c))).Pairwise (fun p p' => pairEq p p' = false) := by
    rw [List.pairwise_append]
    refine ⟨mapPair_pairwise u common hcnd huc, mapPair_pairwise v common hcnd hvc, ?_⟩
    intro p hp p' hp'
    simp only [List.mem_map] at hp hp'
    obtain ⟨c, hc1, rfl⟩ := hp
    obtain ⟨c', hc2, rfl⟩ := hp'
    exact pairEq_mem_false u c v c' huv (fun h => huc (h ▸ hc2))
  have hane : ∀ a c, (a = u ∨ a = v) → c ∈ common → a ≠ c := by
    intro a c ha hc' h
    subst h
    rcases ha with rfl | rfl
    · exact huc hc'
    · exact hvc hc'
  have hexL1 : ∀ a c, (a = u ∨ a = v) → c ∈ common → pairEq (u, v) (a, c) = false := by
    intro a c _ hc'
    cases h : pairEq (u, v) (a, c) with
    | false => rfl
    | true =>
      rw [pairEq_iff] at h
      rcases h with ⟨_, h1⟩ | ⟨h1, _⟩
      · simp only at h1; exact absurd (h1 ▸ hc') hvc
      · simp only at h1; exact absurd (h1 ▸ hc') huc
  have hhas : ∀ a b, a ∈ tb.1 → b ∈ tb.1 → hasPair a b tb.1 = true := by
    intro a b ha hb; rw [hasPair_iff']; exact ⟨ha, hb⟩
  have hamem : ∀ a, (a = u ∨ a = v) → a ∈ tb.1 := by
    rintro a (rfl | rfl)
    · exact hu
    · exact hv
  have hT1 : ∀ p ∈ common.map (fun c => (u, c)) ++ common.map (fun c => (v, c)),
      ∃ tb' ∈ absIdx acc.1.idx p, sameSet tb'.1 tb.1 = true := by
    intro p hp
    obtain ⟨a, c, ha, hc', rfl⟩ := hL1mem p hp
    exact ⟨tb, (hinv a c (hane a c ha hc') tb).2 ⟨hexL1 a c ha hc', htb, hhas a c (hamem a ha) ((hcm c).1 hc').1⟩, sameSet_refl _⟩
  have hnotnew : ∀ a c, a ≠ prod → c ≠ prod → ¬ inNew acc.2 (a, c) := by
    intro a c ha hc' hin
    obtain ⟨c', _, hpe⟩ := inNew_shape acc.2 prod hst.shape (a, c) hin
    rw [pairEq_iff] at hpe
    rcases hpe with ⟨h1, _⟩ | ⟨_, h1⟩
    · exact ha h1
    · exact hc' h1
  have hcp : ∀ c ∈ common, c ≠ prod := fun c hc' h => hpc (h ▸ hc')
  have hnew1 : ∀ p ∈ common.map (fun c => (u, c)) ++ common.map (fun c => (v, c)), ¬ inNew acc.2 p := by
    intro p hp
    obtain ⟨a, c, ha, hc', rfl⟩ := hL1mem p hp
    refine hnotnew a c ?_ (hcp c hc')
    rcases ha with rfl | rfl
    · exact fun h => hpu h.symm
    · exact fun h => hpv h.symm
  -- loop 1
  obtain ⟨s1, h1, hq1⟩ := fold_decRem_ok tb.1 _ acc.1 acc.2 hst.que hwf hL1pw hT1 hnew1
  obtain ⟨hwf1, hm1⟩ := fold_decRem tb.1 _ acc.1 s1 h1 hwf
  have hL1any : ∀ q : Pair, ((common.map (fun c => (u, c)) ++ common.map (fun c => (v, c))).any (fun p => pairEq p q) = true)
      → ∃ a c, (a = u ∨ a = v) ∧ c ∈ common ∧ pairEq (a, c) q = true := by
    intro q hq
    simp only [List.any_eq_true] at hq
    obtain ⟨p, hp, hpe⟩ := hq
    obtain ⟨a, c, ha, hc', rfl⟩ := hL1mem p hp
    exact ⟨a, c, ha, hc', hpe⟩
  -- loop 2
  have hL2 := pairsLt_pairwise common hcnd
  have hL2mem : ∀ p ∈ pairsOf common, p.1 ∈ common ∧ p.2 ∈ common ∧ p.1 ≠ p.2 := by
    intro p hp
    have := mem_pairsLt common p hp
    exact ⟨this.1, this.2, pairsLt_ne common hcnd p hp⟩
  have hT2 : ∀ p ∈ pairsOf common, ∃ tb' ∈ absIdx s1.idx p, sameSet tb'.1 tb.1 = true := by
    intro p hp
    obtain ⟨ha, hb, hab⟩ := hL2mem p hp
    refine ⟨tb, (hm1 p tb).2 ⟨(hinv p.1 p.2 hab tb).2 ⟨?_, htb, hhas _ _ ((hcm _).1 ha).1 ((hcm _).1 hb).1⟩, ?_⟩, sameSet_refl _⟩
    · exact pairEq_mem_false u v p.1 p.2 (fun h => huc (h ▸ ha)) (fun h => huc (h ▸ hb))
    · rintro ⟨hany, _⟩
      obtain ⟨a, c, ha', hc', hpe⟩ := hL1any p hany
      have : pairEq (a, c) (p.1, p.2) = false :=
        pairEq_mem_false a c p.1 p.2 (hane a _ ha' ha) (hane a _ ha' hb)
      rw [this] at hpe; cases hpe
  have hfresh2 : ∀ p ∈ pairsOf common, ∀ e ∈ absIdx s1.idx p, sameSet e.1 (common ++ [prod]) = false := by
    intro p hp e he
    have hne := pairsLt_ne common hcnd p hp
    exact hentries p hne e ((hm1 p e).1 he).1
  obtain ⟨s2, h2, hq2⟩ := fold_setRem_ok (common ++ [prod]) tb.2 tb.1 hnt_t (pairsOf common) s1 acc.2 hq1 hwf1 hL2 hT2 hfresh2
  obtain ⟨hwf2, hm2⟩ := fold_setRem (common ++ [prod]) tb.2 tb.1 hnt_t (pairsOf common) s1 s2 h2 hwf1 hL2 hfresh2
  -- the keys `{prod, c}` are not touched by loops 1 and 2
  have hsame : ∀ c, c ≠ prod → ∀ tb', tb' ∈ absIdx s2.idx (prod, c) ↔ tb' ∈ absIdx acc.1.idx (prod, c) := by
    intro c hcne tb'
    have hno1 : ¬ ((common.map (fun c => (u, c)) ++ common.map (fun c => (v, c))).any (fun p => pairEq p (prod, c)) = true) := by
      intro hany
      obtain ⟨a, c', ha', hc', hpe⟩ := hL1any _ hany
      rw [pairEq_iff] at hpe
      rcases hpe with ⟨h3, _⟩ | ⟨_, h3⟩
      · simp only at h3
        rcases ha' with rfl | rfl
        · exact hpu h3.symm
        · exact hpv h3.symm
      · simp only at h3; exact hcp c' hc' h3
    have hno2 : ¬ ((pairsOf common).any (fun p => pairEq p (prod, c)) = true) := by
      intro hany
      simp only [List.any_eq_true] at hany
      obtain ⟨p, hp, hpe⟩ := hany
      obtain ⟨ha, hb, _⟩ := hL2mem p hp
      rw [pairEq_iff] at hpe
      rcases hpe with ⟨h3, _⟩ | ⟨_, h3⟩
      · simp only at h3; exact hcp _ ha h3
      · simp only at h3; exact hcp _ hb h3
    rw [hm2 (prod, c) tb', hm1 (prod, c) tb']
    constructor
    · rintro (⟨⟨h3, _⟩, _⟩ | ⟨h3, _⟩)
      · exact h3
      · exact absurd h3 hno2
    · intro h3
      exact Or.inl ⟨⟨h3, fun ⟨h4, _⟩ => hno1 h4⟩, fun ⟨h4, _⟩ => hno2 h4⟩
  have hdiag2 : ∀ a, absIdx s2.idx (a, a) = [] := by
    intro a
    cases hl : absIdx s2.idx (a, a) with
    | nil => rfl
    | cons tb' r' =>
      exfalso
      have hmem : tb' ∈ absIdx s2.idx (a, a) := by rw [hl]; simp
      rcases (hm2 (a, a) tb').1 hmem with ⟨h3, _⟩ | ⟨hany, _⟩
      · have := ((hm1 (a, a) tb').1 h3).1
        rw [hst.diag a] at this; simp at this
      · simp only [List.any_eq_true] at hany
        obtain ⟨p, hp, hpe⟩ := hany
        obtain ⟨_, _, hne'⟩ := hL2mem p hp
        rw [pairEq_iff] at hpe
        rcases hpe with ⟨e1, e2⟩ | ⟨e1, e2⟩
        · exact hne' (e1.trans e2.symm)
        · exact hne' (e1.trans e2.symm)
  have hst2 : StepInv (s2, acc.2) prod := stepInv_transfer acc prod hst s2 hq2 hsame hdiag2
  unfold bkTerm
  simp only [hc, hL1, h1, h2]
  split
  · exact ⟨_, rfl, fold_addNew_ok _ _ _ common hcp _ hst2⟩
  · refine ⟨_, rfl, ?_⟩
    exact ⟨⟨hst2.que.keys, hst2.que.ne, hst2.que.char⟩, hst2.fresh, hst2.new, hst2.pw, hst2.shape, hst2.diag⟩

/-! ## all `old_term`s of one iteration -/

theorem bkTerms_ok (u v prod : Label) (huv : u ≠ v) (hpu : prod ≠ u) (hpv : prod ≠ v)
    (T : List (LTerm × Rat)) (acc : BK × List Pair)
    (cur : List (LTerm × Rat)) (hwf : IdxWF acc.1.idx) (hinv : IdxInv acc.1.idx cur (fun q => pairEq (u, v) q))
    (hT : InnerOK T) (hTs : ∀ tb ∈ T, tb.1.Nodup ∧ u ∈ tb.1 ∧ v ∈ tb.1 ∧ prod ∉ tb.1)
    (hnew : ∀ tb' ∈ cur, prod ∈ tb'.1 → ∀ tb ∈ T, sameSet tb'.1 (substTerm u v prod tb.1) = false)
    (hTcur : ∀ tb ∈ T, tb ∈ cur) (hst : StepInv acc prod) :
    ∃ acc', T.foldlM (bkTerm u v prod) acc = some acc' ∧ StepInv acc' prod := by
  induction T generalizing acc cur with
  | nil => exact ⟨acc, rfl, hst⟩
  | cons tb r ih =>
    have hs := hTs tb (by simp)
    unfold InnerOK at hT
    simp only [List.pairwise_cons] at hT
    have hfresh : ∀ tb' ∈ cur, sameSet tb'.1 (substTerm u v prod tb.1) = false := by
      intro tb' htb'
      by_cases hp : prod ∈ tb'.1
      · exact hnew tb' htb' hp tb (by simp)
      · cases hss : sameSet tb'.1 (substTerm u v prod tb.1) with
        | false => rfl
        | true =>
          exfalso; apply hp
          rw [mem_of_sameSet _ _ hss, mem_substTerm]; exact Or.inr rfl
    obtain ⟨a1, hb, hst1⟩ := bkTerm_ok u v prod huv hpu hpv acc tb cur hwf hinv hs.1 hs.2.1 hs.2.2.1 hs.2.2.2 hfresh
      (hTcur tb (by simp)) hst
    obtain ⟨hwf1, hinv1⟩ := bkTerm_inv u v prod huv hpu hpv acc tb a1 hb cur hwf hinv hs.1 hs.2.1 hs.2.2.1 hs.2.2.2 hfresh
    obtain ⟨acc', h', hst'⟩ := ih a1 (procTerm u v prod cur tb) hwf1 hinv1 hT.2 (fun tb' h' => hTs tb' (by simp [h'])) (by
        intro tb'' hmem hp t2 ht2
        unfold procTerm at hmem
        simp only [List.mem_append, List.mem_filter] at hmem
        rcases hmem with ⟨hc, _⟩ | hmem
        · exact hnew tb'' hc hp t2 (by simp [ht2])
        · split at hmem
          · simp only [List.mem_singleton] at hmem
            subst hmem
            simp only
            cases hss : sameSet (substTerm u v prod tb.1) (substTerm u v prod t2.1) with
            | false => rfl
            | true =>
              have hs2 := hTs t2 (by simp [ht2])
              have := substTerm_inj u v prod tb.1 t2.1 hs.2.1 hs.2.2.1 hs2.2.1 hs2.2.2.1 hs.2.2.2 hs2.2.2.2 hss
              rw [hT.1 t2 ht2] at this; cases this
          · simp at hmem) (by
        intro t2 ht2
        unfold procTerm
        simp only [List.mem_append, List.mem_filter, Bool.not_eq_true']
        left
        refine ⟨hTcur t2 (by simp [ht2]), ?_⟩
        cases hss : sameSet t2.1 tb.1 with
        | false => rfl
        | true =>
          have := sameSet_symm _ _ hss
          rw [hT.1 t2 ht2] at this; cases this) hst1
    exact ⟨acc', by simp only [List.foldlM_cons, hb, Option.bind_eq_bind, Option.bind_some]; exact h', hst'⟩

/-! ## one iteration of `while idx:` -/

theorem qkeys_unique (q : Que) (hk : QKeys q) (e e' : Nat × List Pair) (he : e ∈ q) (he' : e' ∈ q) (h : e.1 = e'.1) : e = e' := by
  induction q with
  | nil => simp at he
  | cons a r ih =>
    unfold QKeys at hk ih
    simp only [List.map_cons, List.nodup_cons, List.mem_map, not_exists, not_and] at hk
    simp only [List.mem_cons] at he he'
    rcases he with rfl | he
    · rcases he' with rfl | he'
      · rfl
      · exact absurd h.symm (hk.1 e' he')
    · rcases he' with rfl | he'
      · exact absurd h (hk.1 e he)
      · exact ih hk.2 he he'

theorem len_getD (idx : Idx) (p : Pair) : ((idxGet idx p).map (·.length)).getD 0 = (absIdx idx p).length := by
  unfold absIdx
  cases idxGet idx p <;> rfl

/-- `for new_pair in new_pairs: que[len(idx[new_pair])].add(new_pair)` re-establishes the invariant -/
theorem final_que (L : List Pair) (s : BK) (hq : QueInv s L) (hnew : ∀ p, inNew L p → absIdx s.idx p ≠ [])
    (hpw : L.Pairwise (fun p p' => pairEq p p' = false)) :
    QueInv { s with que := L.foldl (fun q p => queAdd q (((idxGet s.idx p).map (·.length)).getD 0) p) s.que } [] := by
  induction L generalizing s with
  | nil => exact hq
  | cons p r ih =>
    simp only [List.pairwise_cons] at hpw
    simp only [List.foldl_cons]
    have hnr : ∀ p', pairEq p' p = true → ¬ inNew r p' := by
      rintro p' hp ⟨x, hx, h1⟩
      have := pairEq_trans _ _ _ (pairEq_symm' _ _ hp) h1
      rw [hpw.1 x hx] at this; cases this
    have hcons : ∀ p', inNew (p :: r) p' ↔ (pairEq p' p = true ∨ inNew r p') := by
      intro p'
      constructor
      · rintro ⟨x, hx, h1⟩
        simp only [List.mem_cons] at hx
        rcases hx with rfl | hx
        · exact Or.inl h1
        · exact Or.inr ⟨x, hx, h1⟩
      · rintro (h1 | ⟨x, hx, h1⟩)
        · exact ⟨p, by simp, h1⟩
        · exact ⟨x, by simp [hx], h1⟩
    have hq1 : QueInv { s with que := queAdd s.que (((idxGet s.idx p).map (·.length)).getD 0) p } r := by
      refine ⟨qkeys_queAdd _ hq.keys _ _, qnonempty_queAdd _ hq.ne _ _, ?_⟩
      intro n' p'
      show inQue (queAdd s.que _ p) n' p' ↔ (¬ inNew r p' ∧ 0 < n' ∧ (absIdx s.idx p').length = n')
      rw [inQue_queAdd, hq.char n' p', hcons p', len_getD]
      by_cases hp : pairEq p' p = true
      · have hlen : (absIdx s.idx p').length = (absIdx s.idx p).length := by rw [absIdx_congr s.idx p' p hp]
        have hpos : 0 < (absIdx s.idx p).length := by
          have := hnew p ((hcons p).2 (Or.inl (pairEq_refl p)))
          cases habs : absIdx s.idx p with
          | nil => exact absurd habs this
          | cons _ _ => simp
        have := hnr p' hp
        simp only [hp, true_or, not_true, false_and, false_or, and_true, this, not_false_eq_true, true_and, hlen]
        constructor
        · intro h; omega
        · rintro ⟨_, h⟩; exact h.symm
      · simp [hp]
    have := ih { s with que := queAdd s.que (((idxGet s.idx p).map (·.length)).getD 0) p } hq1
      (fun p' hp' => hnew p' ((hcons p').2 (Or.inr hp'))) hpw.2
    exact this

theorem find_key (q : Que) (hk : QKeys q) (e : Nat × List Pair) (he : e ∈ q) : q.find? (fun e' => e'.1 = e.1) = some e := by
  cases hf : q.find? (fun e' => e'.1 = e.1) with
  | none =>
    rw [List.find?_eq_none] at hf
    exact absurd (by simp) (hf e he)
  | some e' =>
    have h1 := List.find?_some hf
    have h2 := List.mem_of_find?_eq_some hf
    simp only [decide_eq_true_eq] at h1
    rw [qkeys_unique q hk e' e h2 he h1]

/-- **one iteration does not raise**: if `que` mirrors `idx` and the popped pair is a member of
    `que[max(que)]`, none of the dictionary/set accesses of the iteration fails, and `que` mirrors `idx`
    again afterwards -/
theorem bkStep_ok (s : BK) (choice : Pair) (hne : choice.1 ≠ choice.2)
    (cur : List (LTerm × Rat)) (hwf : IdxWF s.idx) (hinv : IdxInv s.idx cur (fun _ => false)) (hcur : TermsOK cur)
    (hlab : LabelsIn cur s.vars) (hq : QueInv s []) (hdiag : ∀ a, absIdx s.idx (a, a) = [])
    (hchoice : inQue s.que (maxKey s.que) choice) :
    ∃ s', bkStep s choice = some s' ∧ QueInv s' [] ∧ ∀ a, absIdx s'.idx (a, a) = [] := by
  obtain ⟨u, v⟩ := choice
  simp only at hne
  generalize hprod : newProduct s.vars u v = prod
  have hpfresh : prod ∉ s.vars := by rw [← hprod]; exact newProduct_fresh s.vars u v
  have hpcur : ∀ tb ∈ cur, prod ∉ tb.1 := fun tb htb hm => hpfresh (hlab tb htb prod hm)
  have hTmem : ∀ tb, tb ∈ absIdx s.idx (u, v) ↔ (tb ∈ cur ∧ hasPair u v tb.1 = true) := by
    intro tb; rw [hinv u v hne tb]; simp
  have hT : InnerOK (absIdx s.idx (u, v)) := innerOK_absIdx s.idx hwf (u, v)
  -- the entry of `que` and the entry of `idx`
  obtain ⟨eMost, heq, hekey, x, hx, hpx⟩ := hchoice
  have hfind := find_key s.que hq.keys eMost heq
  rw [hekey] at hfind
  have hany : eMost.2.any (pairEq (u, v)) = true := (any_pairEq_iff _ _).2 ⟨x, hx, hpx⟩
  have hin : inQue s.que (maxKey s.que) (u, v) := ⟨eMost, heq, hekey, x, hx, hpx⟩
  obtain ⟨que', hque', hk', hne', hchar'⟩ := queRemove_spec s.que hq.keys _ _ hin
  have hcnt := (hq.char _ _).1 hin
  have habsne : absIdx s.idx (u, v) ≠ [] := by
    intro h0; rw [h0] at hcnt; simp at hcnt; omega
  have hget := idxGet_of_absIdx_ne s.idx (u, v) habsne
  generalize hterms : absIdx s.idx (u, v) = terms at *
  -- the state the `for` loop starts from
  let s0 : BK := { s with que := que', idx := idxErase s.idx (u, v), vars := s.vars ++ [prod],
                          constraints := s.constraints ++ [((u, v), prod)] }
  have hwf0 : IdxWF s0.idx :=
    ⟨keysOK_idxErase s.idx hwf.1 (u, v), fun e he => hwf.2 e (mem_idxErase s.idx (u, v) e he)⟩
  have habs0 : ∀ q, absIdx s0.idx q = if pairEq (u, v) q = true then [] else absIdx s.idx q :=
    fun q => absIdx_idxErase s.idx hwf.1 (u, v) q
  have hinv0 : IdxInv s0.idx cur (fun q => pairEq (u, v) q) := by
    intro a b hab tb
    rw [habs0]
    by_cases hpq : pairEq (u, v) (a, b) = true
    · simp [hpq]
    · have hpq' : pairEq (u, v) (a, b) = false := by simpa using hpq
      rw [if_neg hpq, hinv a b hab tb]; simp [hpq']
  have hTs : ∀ tb ∈ terms, tb.1.Nodup ∧ u ∈ tb.1 ∧ v ∈ tb.1 ∧ prod ∉ tb.1 := by
    intro tb htb
    have := (hTmem tb).1 htb
    have hp := (hasPair_iff' u v tb.1).1 this.2
    exact ⟨hcur.1 tb this.1, hp.1, hp.2, hpcur tb this.1⟩
  have hpuv : prod ≠ u ∧ prod ≠ v := by
    cases hterms' : terms with
    | nil => exact absurd hterms' habsne
    | cons t0 r =>
      have h0 := hTs t0 (by rw [hterms']; simp)
      have hc0 := (hTmem t0).1 (by rw [hterms']; simp)
      exact ⟨fun e => hpfresh (e ▸ hlab t0 hc0.1 u h0.2.1), fun e => hpfresh (e ▸ hlab t0 hc0.1 v h0.2.2.1)⟩
  have hst0 : StepInv (s0, []) prod := by
    refine ⟨⟨hk', hne' hq.ne, ?_⟩, ?_, ?_, List.Pairwise.nil, by simp, ?_⟩
    · intro n p
      show inQue que' n p ↔ _
      rw [hchar', hq.char n p, habs0 p]
      by_cases hp : pairEq p (u, v) = true
      · have hp' := pairEq_symm' _ _ hp
        have hl : absIdx s.idx p = terms := by rw [absIdx_congr s.idx p (u, v) hp, hterms]
        simp only [hp, hp', if_true, and_true, hl, List.length_nil]
        constructor
        · rintro ⟨⟨_, _, h3⟩, h4⟩
          exact absurd (by rw [← h3]; exact hcnt.2.2) h4
        · rintro ⟨_, h2, h3⟩; omega
      · have hp' : ¬ pairEq (u, v) p = true := fun h' => hp (pairEq_symm' _ _ h')
        simp [hp, hp']
    · intro c hc hne0
      exfalso
      have hne0 : absIdx s0.idx (prod, c) ≠ [] := hne0
      rw [habs0] at hne0
      split at hne0
      · exact hne0 rfl
      · obtain ⟨tb, htb⟩ := (ne_nil_iff_mem _).1 hne0
        have := (hinv prod c (fun h => hc h.symm) tb).1 htb
        exact hpcur tb this.2.1 ((hasPair_iff' _ _ _).1 this.2.2).1
    · rintro p ⟨x', hx', _⟩; simp at hx'
    · intro a
      show absIdx s0.idx (a, a) = []
      rw [habs0]; split
      · rfl
      · exact hdiag a
  obtain ⟨⟨s1, newPairs⟩, hfold, hst1⟩ := bkTerms_ok u v prod hne hpuv.1 hpuv.2 terms (s0, []) cur hwf0 hinv0 hT hTs
    (fun tb' htb' hp => absurd hp (hpcur tb' htb')) (fun tb htb => ((hTmem tb).1 htb).1) hst0
  have hfin := final_que newPairs s1 hst1.que hst1.new hst1.pw
  refine ⟨_, ?_, hfin, hst1.diag⟩
  unfold bkStep
  simp only [hfind, hany, hque', hget, hprod, Bool.not_true, Bool.false_eq_true, if_false]
  rw [show ({ s with que := que', idx := idxErase s.idx (u, v), vars := s.vars ++ [prod],
                     constraints := s.constraints ++ [((u, v), prod)] } : BK) = s0 from rfl, hfold]

/-! ## `max(que)` -/

theorem maxKey_fold_ge (q : Que) (m0 : Nat) :
    m0 ≤ q.foldl (fun m e => max m e.1) m0 ∧ ∀ e ∈ q, e.1 ≤ q.foldl (fun m e => max m e.1) m0 := by
  induction q generalizing m0 with
  | nil => simp
  | cons a r ih =>
    simp only [List.foldl_cons]
    obtain ⟨h1, h2⟩ := ih (max m0 a.1)
    refine ⟨by omega, ?_⟩
    intro e he
    simp only [List.mem_cons] at he
    rcases he with rfl | he
    · omega
    · exact h2 e he

theorem maxKey_fold_mem (q : Que) (m0 : Nat) :
    q.foldl (fun m e => max m e.1) m0 = m0 ∨ ∃ e ∈ q, e.1 = q.foldl (fun m e => max m e.1) m0 := by
  induction q generalizing m0 with
  | nil => left; rfl
  | cons a r ih =>
    simp only [List.foldl_cons]
    rcases ih (max m0 a.1) with h | ⟨e, he, h⟩
    · rw [h]
      by_cases hm : m0 ≤ a.1
      · right; exact ⟨a, by simp, by omega⟩
      · left; omega
    · right; exact ⟨e, by simp [he], h⟩

/-- `max(que)` is a key of a non-empty `que` -/
theorem maxKey_mem (q : Que) (hq : q ≠ []) : ∃ e ∈ q, e.1 = maxKey q := by
  unfold maxKey
  rcases maxKey_fold_mem q 0 with h | h
  · cases q with
    | nil => exact absurd rfl hq
    | cons a r =>
      refine ⟨a, by simp, ?_⟩
      have := (maxKey_fold_ge (a :: r) 0).2 a (by simp)
      omega
  · exact h

/-! ## the whole loop -/

structure RunQ (s : BK) (hl : HiLo Label) : Prop where
  run : RunInv s hl
  que : QueInv s []
  diag : ∀ a, absIdx s.idx (a, a) = []
  ne : NonEmptyOK s.idx
  lo : ∀ tb ∈ hl.lo, tb.1.length ≤ 2

theorem not_inNew_nil (p : Pair) : ¬ inNew [] p := by rintro ⟨x, hx, _⟩; simp at hx

/-- **progress**: while `idx` is not empty, `que` is not empty, `max(que)` is one of its keys and `que[max(que)]`
    has a member to pop -/
theorem exists_choice (s : BK) (hl : HiLo Label) (hr : RunQ s hl) (hidx : s.idx ≠ []) :
    ∃ c, inQue s.que (maxKey s.que) c := by
  cases hi : s.idx with
  | nil => exact absurd hi hidx
  | cons e r =>
    have hget : idxGet s.idx e.1 = some e.2 := by rw [hi]; simp [idxGet, pairEq_refl]
    have habs : absIdx s.idx e.1 = e.2 := by unfold absIdx; rw [hget]; rfl
    have hne : e.2 ≠ [] := hr.ne e (by rw [hi]; simp)
    have hin : inQue s.que e.2.length e.1 := (hr.que.char _ _).2 ⟨not_inNew_nil _, by
      cases h2 : e.2 with
      | nil => exact absurd h2 hne
      | cons _ _ => simp, by rw [habs]⟩
    have hqne : s.que ≠ [] := by
      obtain ⟨e', he', _⟩ := hin
      intro h0; rw [h0] at he'; simp at he'
    obtain ⟨em, hem, hkey⟩ := maxKey_mem s.que hqne
    have := hr.que.ne em hem
    cases h2 : em.2 with
    | nil => exact absurd h2 this
    | cons x _ => exact ⟨x, em, hem, hkey, x, by rw [h2]; simp, pairEq_refl x⟩

/-- **one iteration**: any pair the code can pop (`pair ∈ que[max(que)]`) has two different members, the
    iteration does not raise, the invariants hold again, and the total degree still to be removed drops -/
theorem runQ_step (s : BK) (hl : HiLo Label) (hr : RunQ s hl) (c : Pair) (hc : inQue s.que (maxKey s.que) c) :
    c.1 ≠ c.2 ∧ ∃ s', bkStep s c = some s'
      ∧ RunQ s' (step c.1 c.2 (newProduct s.vars c.1 c.2) hl)
      ∧ (step c.1 c.2 (newProduct s.vars c.1 c.2) hl).measure < hl.measure := by
  have hcnt := (hr.que.char _ _).1 hc
  have habsne : absIdx s.idx c ≠ [] := by
    intro h0; rw [h0] at hcnt; simp at hcnt; omega
  have hne : c.1 ≠ c.2 := by
    intro h
    apply habsne
    have : c = (c.1, c.1) := Prod.ext rfl h.symm
    rw [this]; exact hr.diag c.1
  refine ⟨hne, ?_⟩
  obtain ⟨s', hs', hq', hd'⟩ := bkStep_ok s c hne hl.hi hr.run.wf hr.run.inv hr.run.ok hr.run.lab hr.que hr.diag hc
  obtain ⟨hrun', _, _⟩ := runInv_step s hl hr.run c hne s' hs'
  refine ⟨s', hs', ⟨hrun', hq', hd', nonEmpty_bkStep s c s' hs' hr.ne, step_lo_deg _ _ _ hl hr.lo⟩, ?_⟩
  obtain ⟨_, _, _, _, hperm⟩ := bkStep_inv s c s' hs' hne hl.hi hr.run.wf hr.run.inv hr.run.ok hr.run.lab
  have hlen := (hperm _ (idxGet_of_absIdx_ne s.idx c habsne)).length_eq
  have hm : (step c.1 c.2 (newProduct s.vars c.1 c.2) hl).measure + (absIdx s.idx c).length ≤ hl.measure := by
    rw [hlen]; exact step_measure c.1 c.2 (newProduct s.vars c.1 c.2) hne hl hr.run.ok.1
  omega

/-- the pops the code can make: each pair is a member of `que[max(que)]` of the state it is popped from
    (`set.pop()` returns an arbitrary member) -/
def OracleOK : BK → List Pair → Prop
  | _, [] => True
  | s, c :: r => inQue s.que (maxKey s.que) c ∧ ∀ s1, bkStep s c = some s1 → OracleOK s1 r

/-- **the coded loop never raises**: along *any* sequence of pops the code can make, every dictionary and
    set access of `reduce_binary_polynomial` succeeds, the invariants are kept, and the number of iterations
    is bounded by the total degree to be removed -/
theorem bkRun_no_raise (choices : List Pair) (s : BK) (hl : HiLo Label) (hr : RunQ s hl) (ho : OracleOK s choices) :
    ∃ s' hl', choices.foldlM bkStep s = some s' ∧ RunQ s' hl' ∧ choices.length + hl'.measure ≤ hl.measure
      ∧ ∀ c ∈ choices, c.1 ≠ c.2 := by
  induction choices generalizing s hl with
  | nil => exact ⟨s, hl, rfl, hr, by simp, by simp⟩
  | cons c r ih =>
    obtain ⟨hc, hrest⟩ := ho
    obtain ⟨hcne, s1, hs1, hr1, hm⟩ := runQ_step s hl hr c hc
    obtain ⟨s', hl', h', hr', hm', hch⟩ := ih s1 _ hr1 (hrest s1 hs1)
    refine ⟨s', hl', by simp only [List.foldlM_cons, hs1, Option.bind_eq_bind, Option.bind_some]; exact h', hr', ?_, ?_⟩
    · simp only [List.length_cons]; omega
    · intro c' hc'
      simp only [List.mem_cons] at hc'
      rcases hc' with rfl | hc'
      · exact hcne
      · exact hch c' hc'

/-- **total correctness of the loop**: from any state satisfying the invariants there is a run of the
    code (and by `bkRun_no_raise` every run is like this) that ends with `idx` empty -/
theorem bkRun_total (n : Nat) (s : BK) (hl : HiLo Label) (hr : RunQ s hl) (hn : hl.measure ≤ n) :
    ∃ choices s', OracleOK s choices ∧ choices.foldlM bkStep s = some s' ∧ s'.idx = [] := by
  induction n generalizing s hl with
  | zero =>
    by_cases hidx : s.idx = []
    · exact ⟨[], s, trivial, rfl, hidx⟩
    · obtain ⟨c, hc⟩ := exists_choice s hl hr hidx
      obtain ⟨_, s1, _, _, hm⟩ := runQ_step s hl hr c hc
      omega
  | succ n ih =>
    by_cases hidx : s.idx = []
    · exact ⟨[], s, trivial, rfl, hidx⟩
    · obtain ⟨c, hc⟩ := exists_choice s hl hr hidx
      obtain ⟨_, s1, hs1, hr1, hm⟩ := runQ_step s hl hr c hc
      obtain ⟨choices, s', ho, h', hidx'⟩ := ih s1 _ hr1 (by omega)
      refine ⟨c :: choices, s', ⟨hc, ?_⟩, by simp only [List.foldlM_cons, hs1, Option.bind_eq_bind, Option.bind_some]; exact h', hidx'⟩
      intro s1' hs1'
      rw [hs1] at hs1'; cases hs1'; exact ho

/-! ## the initial `que` -/

theorem fold_queAdd (l : Idx) (q0 : Que) (hk : QKeys q0) (hne : QNonEmpty q0) :
    QKeys (l.foldl (fun q e => queAdd q e.2.length e.1) q0) ∧ QNonEmpty (l.foldl (fun q e => queAdd q e.2.length e.1) q0)
    ∧ ∀ n p, inQue (l.foldl (fun q e => queAdd q e.2.length e.1) q0) n p ↔ (inQue q0 n p ∨ ∃ e ∈ l, e.2.length = n ∧ pairEq p e.1 = true) := by
  induction l generalizing q0 with
  | nil => exact ⟨hk, hne, fun n p => by simp⟩
  | cons a r ih =>
    simp only [List.foldl_cons]
    obtain ⟨h1, h2, h3⟩ := ih (queAdd q0 a.2.length a.1) (qkeys_queAdd _ hk _ _) (qnonempty_queAdd _ hne _ _)
    refine ⟨h1, h2, ?_⟩
    intro n p
    rw [h3 n p, inQue_queAdd]
    simp only [List.mem_cons, exists_eq_or_imp]
    constructor
    · rintro ((h | ⟨h4, h5⟩) | h)
      · exact Or.inl h
      · exact Or.inr (Or.inl ⟨h4.symm, h5⟩)
      · exact Or.inr (Or.inr h)
    · rintro (h | ⟨h4, h5⟩ | h)
      · exact Or.inl (Or.inl h)
      · exact Or.inl (Or.inr ⟨h4.symm, h5⟩)
      · exact Or.inr h

theorem idxGet_of_mem (idx : Idx) (hk : KeysOK idx) (e : Pair × List (LTerm × Rat)) (he : e ∈ idx) (p : Pair)
    (hp : pairEq e.1 p = true) : idxGet idx p = some e.2 := by
  induction idx with
  | nil => simp at he
  | cons a r ih =>
    unfold KeysOK at hk ih
    simp only [List.pairwise_cons] at hk
    simp only [List.mem_cons] at he
    rcases he with rfl | he
    · simp [idxGet, hp]
    · have hae : pairEq a.1 p = false := by
        cases hx : pairEq a.1 p with
        | false => rfl
        | true =>
          have := pairEq_trans _ _ _ hx (pairEq_symm' _ _ hp)
          rw [hk.1 e he] at this; cases this
      simp only [idxGet, hae, Bool.false_eq_true, if_false]
      exact ih hk.2 he

theorem queInv_init (poly : List (LTerm × Rat)) (vars : List Label) (hk : KeysOK (BK.init poly vars).idx) :
    QueInv (BK.init poly vars) [] := by
  have hne := nonEmpty_init poly vars
  have hque : (BK.init poly vars).que = (BK.init poly vars).idx.foldl (fun q e => queAdd q e.2.length e.1) [] := rfl
  obtain ⟨h1, h2, h3⟩ := fold_queAdd (BK.init poly vars).idx [] (by simp [QKeys]) (by intro e he; simp at he)
  refine ⟨by rw [hque]; exact h1, by rw [hque]; exact h2, ?_⟩
  intro n p
  rw [hque, h3 n p]
  constructor
  · rintro (⟨e, he, _⟩ | ⟨e, he, hlen, hpe⟩)
    · simp at he
    · have hget := idxGet_of_mem _ hk e he p (pairEq_symm' _ _ hpe)
      have habs : absIdx (BK.init poly vars).idx p = e.2 := by unfold absIdx; rw [hget]; rfl
      refine ⟨not_inNew_nil p, ?_, by rw [habs, hlen]⟩
      have := hne e he
      cases h2 : e.2 with
      | nil => exact absurd h2 this
      | cons _ _ => rw [← hlen, h2]; simp
  · rintro ⟨_, hpos, hlen⟩
    right
    have habsne : absIdx (BK.init poly vars).idx p ≠ [] := by
      intro h0; rw [h0] at hlen; simp at hlen; omega
    obtain ⟨e, he, he2, hpe⟩ := idxGet_mem _ p _ (idxGet_of_absIdx_ne _ p habsne)
    exact ⟨e, he, by rw [he2, hlen], pairEq_symm' _ _ hpe⟩

theorem diag_idxSet (idx : Idx) (p : Pair) (hp : p.1 ≠ p.2) (t : LTerm) (b : Rat) (h : ∀ a, absIdx idx (a, a) = []) :
    ∀ a, absIdx (idxSet idx p t b) (a, a) = [] := by
  intro a
  rw [absIdx_idxSet]
  have : pairEq p (a, a) = false := by
    cases hx : pairEq p (a, a) with
    | false => rfl
    | true =>
      rw [pairEq_iff] at hx
      rcases hx with ⟨h1, h2⟩ | ⟨h1, h2⟩
      · exact absurd (h1.trans h2.symm) hp
      · exact absurd (h1.trans h2.symm) hp
  rw [this]; simp [h a]

theorem diag_init (poly : List (LTerm × Rat)) (vars : List Label) (hnd : ∀ tb ∈ poly, tb.1.Nodup) :
    ∀ a, absIdx (BK.init poly vars).idx (a, a) = [] := by
  unfold BK.init
  simp only
  have : ∀ (l : List (LTerm × Rat)) (idx : Idx), (∀ tb ∈ l, tb.1.Nodup) → (∀ a, absIdx idx (a, a) = []) →
      ∀ a, absIdx (l.foldl (fun idx tb => if tb.1.length ≤ 2 then idx else (pairsOf tb.1).foldl (fun idx p => idxSet idx p tb.1 tb.2) idx) idx) (a, a) = [] := by
    intro l
    induction l with
    | nil => intro idx _ h; exact h
    | cons tb r ih =>
      intro idx hl h
      simp only [List.foldl_cons]
      apply ih _ (fun tb' h' => hl tb' (by simp [h']))
      split
      · exact h
      · have hnd' := hl tb (by simp)
        have : ∀ (ps : List Pair) (i : Idx), (∀ p ∈ ps, p.1 ≠ p.2) → (∀ a, absIdx i (a, a) = []) →
            ∀ a, absIdx (ps.foldl (fun idx p => idxSet idx p tb.1 tb.2) i) (a, a) = [] := by
          intro ps
          induction ps with
          | nil => intro i _ hi; exact hi
          | cons p ps ihp =>
            intro i hps hi
            simp only [List.foldl_cons]
            exact ihp _ (fun p' h' => hps p' (by simp [h'])) (diag_idxSet i p (hps p (by simp)) tb.1 tb.2 hi)
        exact this _ idx (fun p hp => pairsLt_ne tb.1 hnd' p hp) h
  exact this poly [] hnd (by intro a; simp [absIdx, idxGet])

/-- the state `reduce_binary_polynomial` enters its loop with satisfies all the invariants -/
theorem runQ_init (poly : List (LTerm × Rat)) (vars : List Label) (hok : TermsOK poly)
    (hvars : ∀ tb ∈ poly, ∀ w ∈ tb.1, w ∈ vars) : RunQ (BK.init poly vars) (HiLo.init poly) := by
  have hrun := runInv_init poly vars hok hvars
  exact ⟨hrun, queInv_init poly vars hrun.wf.1, diag_init poly vars hok.1, nonEmpty_init poly vars, init_lo_deg poly⟩

end Red
