import DimodProofs.LpLex

/-! C12, lexical layer (second half, part 1): the words of a dump are the words of its tokens. -/

namespace Lp

/-- a non-empty string without blanks or newlines -/
def Word (s : String) : Prop := s.toList ≠ [] ∧ ∀ c ∈ s.toList, isWs c = false

theorem wordsAux_word (w rest cur : List Char) (hw : ∀ c ∈ w, isWs c = false) :
    wordsAux (w ++ rest) cur = wordsAux rest (w.reverse ++ cur) := by
  induction w generalizing cur with
  | nil => rfl
  | cons c t ih =>
    rw [List.cons_append, wordsAux_nws c _ cur (hw c List.mem_cons_self), ih _ (fun d hd => hw d (List.mem_cons_of_mem _ hd))]
    simp

/-- a word followed by a blank/newline -/
theorem wordsAux_word_ws (w : List Char) (c : Char) (rest : List Char) (hne : w ≠ []) (hw : ∀ d ∈ w, isWs d = false) (hc : isWs c = true) :
    wordsAux (w ++ c :: rest) [] = w :: wordsAux rest [] := by
  rw [wordsAux_word w _ [] hw, wordsAux_ws c rest _ hc]
  simp [flush, hne]

/-- a word at the very end -/
theorem wordsAux_word_end (w : List Char) (hne : w ≠ []) (hw : ∀ d ∈ w, isWs d = false) : wordsAux w [] = [w] := by
  have := wordsAux_word w [] [] hw
  rw [List.append_nil] at this
  rw [this, wordsAux_nil]
  simp [flush, hne]

theorem wordsAux_skip (c : Char) (rest : List Char) (hc : isWs c = true) : wordsAux (c :: rest) [] = wordsAux rest [] := by
  rw [wordsAux_ws c rest [] hc]; simp [flush]

/-- words separated by single blanks, each followed by one blank: `"w1 w2 … wn "` -/
def spell : List (List Char) → List Char
  | [] => []
  | w :: ws => w ++ ' ' :: spell ws

theorem wordsAux_spell (ws : List (List Char)) (rest : List Char) (h : ∀ w ∈ ws, w ≠ [] ∧ ∀ d ∈ w, isWs d = false) :
    wordsAux (spell ws ++ rest) [] = ws ++ wordsAux rest [] := by
  induction ws with
  | nil => rfl
  | cons w t ih =>
    obtain ⟨hne, hw⟩ := h w List.mem_cons_self
    simp only [spell, List.append_assoc, List.cons_append]
    rw [wordsAux_word_ws w ' ' _ hne hw (by decide), ih (fun x hx => h x (List.mem_cons_of_mem _ hx))]

/-- the words a token is rendered as -/
def tokWords : Tok → List String
  | .minimize => ["Minimize"]
  | .objLabel => ["obj:"]
  | .lin b v => [signText b, showAbs b, labelText v]
  | .qopen => ["+", "["]
  | .qterm b u v => [signText b, showAbs b, labelText u, "*", labelText v]
  | .qcloseHalf => ["]/2"]
  | .qclose => ["]"]
  | .const b => [signText b, showAbs b]
  | .blank2 => []
  | .subjectTo => ["Subject", "To"]
  | .clabel l => [labelText l ++ ":"]
  | .cmp s rhs => [senseText s, showFloat rhs]
  | .nl => []
  | .bounds => ["Bounds"]
  | .bound lb v ub => [showFloat lb, "<=", labelText v, "<=", showFloat ub]
  | .section g => [if g then "General" else "Binary"]
  | .name v => [labelText v]
  | .end_ => ["End"]

/-- the strings a token embeds (numbers and labels) are words -/
def TokWordsOK : Tok → Prop
  | .lin b v => Word (showAbs b) ∧ Word (labelText v)
  | .qterm b u v => Word (showAbs b) ∧ Word (labelText u) ∧ Word (labelText v)
  | .const b => Word (showAbs b)
  | .clabel l => Word (labelText l)
  | .cmp _ rhs => Word (showFloat rhs)
  | .bound lb v ub => Word (showFloat lb) ∧ Word (labelText v) ∧ Word (showFloat ub)
  | .name v => Word (labelText v)
  | _ => True

theorem word_sign (b : Rat) : Word (signText b) := by
  unfold signText; split <;> exact ⟨by decide, by decide⟩

theorem word_sense (s : Sense) : Word (senseText s) := by
  cases s <;> exact ⟨by decide, by decide⟩

theorem Word.ne {s : String} (h : Word s) : s.toList ≠ [] := h.1
theorem Word.nws {s : String} (h : Word s) : ∀ c ∈ s.toList, isWs c = false := h.2

/-- the words of one rendered token -/
theorem words_render (t : Tok) (h : TokWordsOK t) : wordsL (t.render).toList = (tokWords t).map String.toList := by
  unfold wordsL
  cases t with
  | minimize => decide
  | objLabel => decide
  | qopen => decide
  | qcloseHalf => decide
  | qclose => decide
  | blank2 => decide
  | subjectTo => decide
  | nl => decide
  | bounds => decide
  | end_ => decide
  | «section» g => cases g <;> decide
  | lin b v =>
    obtain ⟨ha, hv⟩ := h
    have e : (Tok.render (.lin b v)).toList = spell [(signText b).toList, (showAbs b).toList, (labelText v).toList] ++ [] := by
      simp [Tok.render, String.toList_append, spell]
    rw [e, wordsAux_spell _ _ (by
      intro w hw
      simp only [List.mem_cons, List.not_mem_nil, or_false] at hw
      rcases hw with rfl | rfl | rfl
      · exact ⟨(word_sign b).1, (word_sign b).2⟩
      · exact ⟨ha.1, ha.2⟩
      · exact ⟨hv.1, hv.2⟩)]
    simp [tokWords, wordsAux_nil, flush]
  | qterm b u v =>
    obtain ⟨ha, hu, hv⟩ := h
    have e : (Tok.render (.qterm b u v)).toList =
        spell [(signText b).toList, (showAbs b).toList, (labelText u).toList, ("*" : String).toList, (labelText v).toList] ++ [] := by
      simp [Tok.render, String.toList_append, spell]
    rw [e, wordsAux_spell _ _ (by
      intro w hw
      simp only [List.mem_cons, List.not_mem_nil, or_false] at hw
      rcases hw with rfl | rfl | rfl | rfl | rfl
      · exact ⟨(word_sign b).1, (word_sign b).2⟩
      · exact ⟨ha.1, ha.2⟩
      · exact ⟨hu.1, hu.2⟩
      · exact ⟨by decide, by decide⟩
      · exact ⟨hv.1, hv.2⟩)]
    simp [tokWords, wordsAux_nil, flush]
  | const b =>
    have e : (Tok.render (.const b)).toList = spell [(signText b).toList, (showAbs b).toList] ++ [] := by
      simp [Tok.render, String.toList_append, spell]
    rw [e, wordsAux_spell _ _ (by
      intro w hw
      simp only [List.mem_cons, List.not_mem_nil, or_false] at hw
      rcases hw with rfl | rfl
      · exact ⟨(word_sign b).1, (word_sign b).2⟩
      · exact ⟨h.1, h.2⟩)]
    simp [tokWords, wordsAux_nil, flush]
  | clabel l =>
    have hcolon : Word (labelText l ++ ":") := by
      refine ⟨by simp [String.toList_append], ?_⟩
      intro c hc
      simp only [String.toList_append, List.mem_append] at hc
      rcases hc with hc | hc
      · exact h.2 c hc
      · have : c = ':' := by simpa using hc
        subst this; decide
    have e : (Tok.render (.clabel l)).toList = ' ' :: (spell [(labelText l ++ ":").toList] ++ []) := by
      simp [Tok.render, String.toList_append, spell]
    rw [e, wordsAux_skip ' ' _ (by decide), wordsAux_spell _ _ (by
      intro w hw
      simp only [List.mem_cons, List.not_mem_nil, or_false] at hw
      subst hw; exact ⟨hcolon.1, hcolon.2⟩)]
    simp [tokWords, wordsAux_nil, flush]
  | cmp s rhs =>
    have e : (Tok.render (.cmp s rhs)).toList = ' ' :: ((senseText s).toList ++ ' ' :: ((showFloat rhs).toList ++ '\n' :: [])) := by
      simp [Tok.render, String.toList_append]
    rw [e, wordsAux_skip ' ' _ (by decide), wordsAux_word_ws _ ' ' _ (word_sense s).1 (word_sense s).2 (by decide),
      wordsAux_word_ws _ '\n' _ h.1 h.2 (by decide)]
    simp [tokWords, wordsAux_nil, flush]
  | bound lb v ub =>
    obtain ⟨hl, hv, hu⟩ := h
    have e : (Tok.render (.bound lb v ub)).toList =
        ' ' :: ((showFloat lb).toList ++ ' ' :: (("<=" : String).toList ++ ' ' :: ((labelText v).toList ++ ' ' ::
          (("<=" : String).toList ++ ' ' :: ((showFloat ub).toList ++ '\n' :: []))))) := by
      simp [Tok.render, String.toList_append]
    have hle : ("<=" : String).toList ≠ [] ∧ ∀ d ∈ ("<=" : String).toList, isWs d = false := ⟨by decide, by decide⟩
    rw [e, wordsAux_skip ' ' _ (by decide), wordsAux_word_ws _ ' ' _ hl.1 hl.2 (by decide),
      wordsAux_word_ws _ ' ' _ hle.1 hle.2 (by decide), wordsAux_word_ws _ ' ' _ hv.1 hv.2 (by decide),
      wordsAux_word_ws _ ' ' _ hle.1 hle.2 (by decide), wordsAux_word_ws _ '\n' _ hu.1 hu.2 (by decide)]
    simp [tokWords, wordsAux_nil, flush]
  | name v =>
    have e : (Tok.render (.name v)).toList = ' ' :: (labelText v).toList := by
      simp [Tok.render, String.toList_append]
    rw [e, wordsAux_skip ' ' _ (by decide), wordsAux_word_end _ h.1 h.2]
    simp [tokWords]

end Lp

namespace Lp

theorem startsWs_flatten (w : List Char) (rest : List (List Char)) (hw : w ≠ []) :
    startsWs ((w :: rest).flatten) = startsWs w := by
  simp only [List.flatten_cons]; exact startsWs_append_nonempty w _ hw

/-- the words of a concatenation of separated, non-empty pieces are the words of the pieces -/
theorem wordsL_flatten (ws : List (List Char)) (hne : ∀ w ∈ ws, w ≠ []) (hsep : List.IsChain Sep ws) :
    wordsL ws.flatten = ws.flatMap wordsL := by
  induction ws with
  | nil => rfl
  | cons w rest ih =>
    have hrest := ih (fun x hx => hne x (List.mem_cons_of_mem _ hx)) (List.IsChain.tail hsep)
    simp only [List.flatten_cons, List.flatMap_cons]
    cases hr : rest with
    | nil => simp
    | cons q rest' =>
      subst hr
      have hs : Sep w q := (List.isChain_cons_cons.mp hsep).1
      have hq : q ≠ [] := hne q (List.mem_cons_of_mem _ List.mem_cons_self)
      unfold wordsL at hrest ⊢
      rcases hs with h | h
      · rw [wordsAux_append_ends w _ [] h, hrest]
      · rw [wordsAux_append_starts w _ [] (by rw [startsWs_flatten q rest' hq]; exact h), hrest]

/-- **the words of a dump are the words of its tokens**, whatever lines `_WidthLimitedFile` broke -/
theorem words_dump (m : LCqm) (ts : List Tok) (h : dumpToks m = .ok ts) (hok : ∀ t ∈ ts, TokWordsOK t) :
    words (joinWrites (wrapWrites 0 (ts.map Tok.render))) = ts.flatMap tokWords := by
  rw [words_wrap_invariant m ts h]
  unfold words
  rw [join_toList]
  have hc : List.IsChain Sep ((ts.map Tok.render).map String.toList) := by
    rw [List.map_map, List.isChain_map]
    apply List.IsChain.imp _ (dumpToks_separated m ts h)
    intro a b hab
    rcases hab with h1 | h1
    · exact Or.inl (render_ends a h1)
    · exact Or.inr (render_starts b h1)
  rw [wordsL_flatten _ (by
    intro w hw
    simp only [List.map_map, List.mem_map] at hw
    obtain ⟨t, _, rfl⟩ := hw
    exact render_ne_nil t) hc]
  simp only [List.map_map, List.flatMap_map]
  have : ∀ l : List Tok, (∀ t ∈ l, TokWordsOK t) →
      List.map String.ofList (List.flatMap (fun t => wordsL (t.render).toList) l) = l.flatMap tokWords := by
    intro l hl
    induction l with
    | nil => rfl
    | cons t r ih =>
      simp only [List.flatMap_cons, List.map_append]
      rw [ih (fun x hx => hl x (List.mem_cons_of_mem _ hx)), words_render t (hl t List.mem_cons_self)]
      simp [List.map_map]
  simpa using this ts hok

end Lp
