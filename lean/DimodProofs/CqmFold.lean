import DimodProofs.CqmIneq

/-! # `cqm_to_bqm`: all constraints together (core Lean only)

Every constraint's bag is `λ·(…)²`, hence never negative, and — for integer data — at least `λ` wherever
the decoded CQM sample violates that constraint.  Folding over the constraint list: the BQM never lies
below the objective at the decoded sample, and lies at least `λ` above it wherever some constraint is
violated (whatever the slack bits). -/

namespace Pen

/-- the constraint at a CQM sample -/
def Cons.holdsAt (c : Cons) (y : Label → Rat) : Prop :=
  match c.sense with
  | .le => qmEnergy y c.lhs ≤ c.rhs
  | .ge => c.rhs ≤ qmEnergy y c.lhs
  | .eq => qmEnergy y c.lhs = c.rhs

/-- linear constraint whose BINARY model has integer per-bit coefficients `T`, integer offset `k`, integer
    right-hand side `r`, with term bounds inside the int64 sentinels `cqm_to_bqm` passes as `lb`/`ub` -/
def IntCons (vars : List (Label × VKind)) (c : Cons) : Prop :=
  c.lhs.quad = [] ∧ ∃ (T : List (Label × Int)) (k r : Int),
    (consLinear vars c.lhs).1 = castTerms T ∧ (consLinear vars c.lhs).2 = ((k : Int) : Rat) ∧ c.rhs = ((r : Int) : Rat)
    ∧ INT64_MIN ≤ sumNeg (T.map (·.2)) + k ∧ sumPos (T.map (·.2)) + k ≤ INT64_MAX

theorem rat_sq_nonneg (x : Rat) : 0 ≤ x * x := by
  rcases (Rat.le_total : 0 ≤ x ∨ x ≤ 0) with h | h
  · exact Rat.mul_nonneg h h
  · have : 0 ≤ -x := by grind
    have := Rat.mul_nonneg this this
    grind

/-- the slack-case penalty is ≥ 0 everywhere and ≥ λ on violated samples — no assumption on the slack labels -/
theorem ineq_bqm_slack_lower (terms : List (Label × Int)) (c lb ub : Int) (lam : Rat) (hlam : 0 ≤ lam)
    (ubc lbc : Int) (S : Nat) (hplan : ineqPlan (terms.map (·.2)) c lb ub = .slack ubc lbc S)
    (sl : List Label) (hlen : sl.length = (slackLog2 S).length) (z : Label → Int) (hz : Bin01 z) :
    0 ≤ slackPenalty terms sl S ubc lam z ∧ (¬ Feasible z terms c lb ub → lam ≤ slackPenalty terms sl S ubc lam z) := by
  have hb := isum_bounds z hz terms
  have hsound := ineqPlan_sound (terms.map (·.2)) c lb ub (isum z terms) hb.1 hb.2
  rw [hplan] at hsound
  simp only at hsound
  obtain ⟨hS, hiff⟩ := hsound
  refine ⟨by rw [slackPenalty_eq _ _ _ _ _ _ hz]; exact penalty_nonneg lam hlam _, ?_⟩
  intro hnf
  rw [slackPenalty_eq _ _ _ _ _ _ hz]
  apply (penalty_gap lam hlam _).2
  intro hk
  obtain ⟨bs, hbl, hbd⟩ := isum_slack_as_dot z hz sl (slackLog2 S) hlen
  apply hnf
  apply hiff.2
  refine ⟨dot bs (slackLog2 S), (slack_covers S hS _).1 ⟨bs, hbl, rfl⟩, ?_⟩
  unfold slackTerms at hk
  rw [hbd] at hk
  exact hk

/-- **one constraint of an accepted CQM** (integer data, `λ ≥ 0`): its bag is never negative and is at least
    `λ` at every 0/1 sample whose decoded CQM sample violates the constraint -/
theorem consBag_lower (vars : List (Label × VKind)) (lam : Rat) (hlam : 0 ≤ lam) (i : Nat) (c : Cons) (hint : IntCons vars c)
    (bag : List (PTerm Label)) (h : consBag vars lam i c = .ok bag) (z : Label → Int) (hz : Bin01 z) :
    0 ≤ evalBag (toRat z) bag ∧ (¬ c.holdsAt (decode vars (toRat z)) → lam ≤ evalBag (toRat z) bag) := by
  obtain ⟨hq, T, k, r, hT, hk, hr, hb1, hb2⟩ := hint
  have hval := cqm_constraint_value vars c hq T k hT hk z hz
  by_cases hs : c.sense = .eq
  · -- equality constraint
    have he := consBag_eq_eval vars lam i c hs bag h (toRat z) (dom_toRat z hz)
    have hdiff : qmEnergy (decode vars (toRat z)) c.lhs - c.rhs = (((isum z T + k - r : Int)) : Rat) := by
      rw [← hval, hr]; simp [Rat.intCast_sub]
    rw [he, hdiff]
    have hmul : ((isum z T + k - r : Int) : Rat) * ((isum z T + k - r : Int) : Rat)
        = ((((isum z T + k - r) * (isum z T + k - r) : Int)) : Rat) := by simp [Rat.intCast_mul]
    rw [hmul]
    refine ⟨penalty_nonneg lam hlam _, ?_⟩
    intro hnh
    apply (penalty_gap lam hlam _).2
    intro h0
    apply hnh
    unfold Cons.holdsAt
    rw [hs]
    simp only
    have : qmEnergy (decode vars (toRat z)) c.lhs - c.rhs = 0 := by rw [hdiff, h0]; rfl
    grind
  · -- `≤` / `≥`
    have hshape := consBag_ineq vars lam i c hs hq T k r hT hk hr
    simp only at hshape
    have hfeas : Feasible z T k (if c.sense = Sense.ge then r else INT64_MIN) (if c.sense = Sense.ge then INT64_MAX else r)
        ↔ c.holdsAt (decode vars (toRat z)) := by
      have hb := isum_bounds z hz T
      unfold Feasible Cons.holdsAt
      rw [← hval, hr]
      cases hsense : c.sense with
      | eq => exact absurd hsense hs
      | ge =>
        simp only [if_true]
        rw [Rat.intCast_le_intCast]
        constructor
        · intro h'; exact h'.1
        · intro h'; exact ⟨h', by omega⟩
      | le =>
        simp only [reduceCtorEq, if_false]
        rw [Rat.intCast_le_intCast]
        constructor
        · intro h'; exact h'.2
        · intro h'; exact ⟨by omega, h'⟩
    cases hp : ineqPlan (T.map (·.2)) k (if c.sense = Sense.ge then r else INT64_MIN) (if c.sense = Sense.ge then INT64_MAX else r) with
    | skip =>
      rw [hp] at hshape
      simp only at hshape
      rw [hshape] at h
      simp only [Except.ok.injEq] at h
      subst h
      refine ⟨by simp [evalBag], ?_⟩
      intro hnh
      exact absurd (hfeas.1 ((ineq_plan_refusal T k _ _ z hz).2 hp)) hnh
    | infeasible =>
      rw [hp] at hshape
      simp only at hshape
      rw [hshape] at h; cases h
    | equality ubc =>
      rw [hp] at hshape
      simp only at hshape
      rw [hshape] at h
      simp only [Except.ok.injEq] at h
      subst h
      have hpen : evalBag (toRat z) (eqTermsCy .binary (castTerms T) lam (((-ubc : Int)) : Rat))
          = lam * ((((isum z T + -ubc) * (isum z T + -ubc) : Int)) : Rat) := penalty_int z hz T lam (-ubc)
      have := ineq_bqm_equality T k _ _ lam hlam ubc hp z hz
      simp only at this
      refine ⟨by rw [hpen]; exact penalty_nonneg lam hlam _, fun hnh => this.2 (fun hf => hnh (hfeas.1 hf))⟩
    | slack ubc lbc S =>
      rw [hp] at hshape
      simp only at hshape
      obtain ⟨touch, hbag, htouch, _⟩ := hshape
      rw [hbag] at h
      simp only [Except.ok.injEq] at h
      subst h
      have hev : evalBag (toRat z) (touch ++ eqTermsCy .binary (castTerms (T ++ slackTerms (slackLabels s!"c{i}" S) S)) lam (((-ubc : Int)) : Rat))
          = slackPenalty T (slackLabels s!"c{i}" S) S ubc lam z := by
        rw [evalBag_append, htouch]; unfold slackPenalty; grind
      have := ineq_bqm_slack_lower T k _ _ lam hlam ubc lbc S hp (slackLabels s!"c{i}" S) (slackLabels_length _ S) z hz
      rw [hev]
      exact ⟨this.1, fun hnh => this.2 (fun hf => hnh (hfeas.1 hf))⟩

/-- all constraints: the concatenated bags are never negative and at least `λ` when some constraint is violated -/
theorem consBags_lower (vars : List (Label × VKind)) (lam : Rat) (hlam : 0 ≤ lam) (cons : List Cons) (i : Nat)
    (hint : ∀ c ∈ cons, IntCons vars c) (bags : List (PTerm Label)) (h : consBags vars lam i cons = .ok bags)
    (z : Label → Int) (hz : Bin01 z) :
    0 ≤ evalBag (toRat z) bags
    ∧ ((∃ c ∈ cons, ¬ c.holdsAt (decode vars (toRat z))) → lam ≤ evalBag (toRat z) bags) := by
  induction cons generalizing i bags with
  | nil =>
    simp only [consBags, Except.ok.injEq] at h
    subst h
    exact ⟨by simp [evalBag], by simp⟩
  | cons c r ih =>
    simp only [consBags] at h
    split at h
    · simp at h
    · rename_i bag hbag
      split at h
      · simp at h
      · rename_i rest hrest
        simp only [Except.ok.injEq] at h
        subst h
        have h1 := consBag_lower vars lam hlam i c (hint c (by simp)) bag hbag z hz
        have h2 := ih (i + 1) (fun c' hc' => hint c' (by simp [hc'])) rest hrest
        rw [evalBag_append]
        refine ⟨by have := h1.1; have := h2.1; grind, ?_⟩
        rintro ⟨c', hc', hv⟩
        simp only [List.mem_cons] at hc'
        rcases hc' with rfl | hc'
        · have := h1.2 hv; have := h2.1; grind
        · have := h2.2 ⟨c', hc', hv⟩; have := h1.1; grind

/-- **`cqm_to_bqm_sound`, all constraints** (integer-coefficient linear constraints, `λ ≥ 0`): at every 0/1
    sample of the BQM — any values of the slack bits — the energy is at least the objective at the decoded
    (inverted) CQM sample, and at least `λ` more wherever the decoded sample violates some constraint -/
theorem cqmToBqm_lower (q : CQM) (lam : Rat) (hlam : 0 ≤ lam) (b : Bq Label) (h : cqmToBqm q (some lam) = .ok (b, lam))
    (hint : ∀ c ∈ q.cons, IntCons q.vars c) (z : Label → Int) (hz : Bin01 z) :
    qmEnergy (decode q.vars (toRat z)) q.obj ≤ b.energy (toRat z)
    ∧ ((∃ c ∈ q.cons, ¬ c.holdsAt (decode q.vars (toRat z))) → qmEnergy (decode q.vars (toRat z)) q.obj + lam ≤ b.energy (toRat z)) := by
  obtain ⟨bags, hbags, he⟩ := cqmToBqm_energy q (some lam) b lam h (toRat z) (dom_toRat z hz)
  have := consBags_lower q.vars lam hlam q.cons 0 hint bags hbags z hz
  rw [he]
  refine ⟨by have := this.1; grind, fun hv => by have := this.2 hv; grind⟩

end Pen
