import DimodModel.VarsObj
import DimodProofs.VarsKeysRelabel

/-! Object-level `_extend` / constructor / `copy` / pickle / `deepcopy` / `at` / `__iter__` / slicing / `==`
    factor through `canon` to the label-level model; the copies moreover hold the SAME objects at every index. -/

namespace KState
open PyKey

theorem toV_empty : KState.empty.toV = VState.empty := rfl

theorem appendP_inv (k : KState) (h : k.toV.Inv) (v : Option PyKey) (p : Bool) (k' : KState)
    (e : k.appendP v p = some k') : k'.toV.Inv := by
  have hf := appendP_factors k h v p
  rw [e, Option.map_some] at hf
  have hs := (VState.step_refines k.toV h (.append (v.map canon) p) trivial).1
  simp only [VState.step, ← hf] at hs
  exact hs

/-- `_extend` over objects abstracts to `_extend` of the canonical labels (flag included) and keeps the invariant -/
theorem extend_factors (vs : List (Option PyKey)) (p : Bool) : ∀ (k : KState), k.toV.Inv →
    ((k.extend vs p).1.toV, (k.extend vs p).2) = k.toV.extend (vs.map fun v => v.map canon) p ∧
      (k.extend vs p).1.toV.Inv := by
  induction vs with
  | nil => intro k h; exact ⟨rfl, h⟩
  | cons v vs ih =>
    intro k h
    have hf := appendP_factors k h v p
    cases e : k.appendP v p with
    | none =>
      rw [e, Option.map_none] at hf
      simp only [extend, VState.extend, List.map_cons, e, ← hf]
      exact ⟨trivial, h⟩
    | some k' =>
      rw [e, Option.map_some] at hf
      simp only [extend, VState.extend, List.map_cons, e, ← hf]
      exact ih k' (appendP_inv k h v p k' e)

theorem map_some_map_canon (vs : List PyKey) :
    (vs.map some).map (fun v => v.map canon) = (vs.map canon).map some := by
  simp [List.map_map, Function.comp_def]

/-- `Variables(iterable)` over objects -/
theorem ofList_factors (vs : List PyKey) : (ofList vs).toV = VState.ofList (vs.map canon) ∧ (ofList vs).toV.Inv := by
  have := extend_factors (vs.map some) true empty VState.inv_empty
  rw [map_some_map_canon] at this
  exact ⟨congrArg Prod.fst this.1, this.2⟩

theorem ofRange_factors (n : Nat) : (ofRange n).toV = VState.ofRange n := rfl

/-! ### copies -/

theorem copyL2i_toV (m : List (PyKey × Nat)) :
    (copyL2i m).map (fun p => (canon p.1, p.2)) = VState.copyMap (m.map fun p => (canon p.1, p.2)) := by
  induction m with
  | nil => rfl
  | cons p m ih =>
    show (canon p.1, p.2) :: (l2iErase (copyL2i m) p.1).map (fun p => (canon p.1, p.2)) = _
    rw [l2iErase_toV, ih]
    rfl

theorem copyI2l_toV (m : List (Nat × PyKey)) :
    (copyI2l m).map (fun p => (p.1, canon p.2)) = VState.copyMap (m.map fun p => (p.1, canon p.2)) := by
  induction m with
  | nil => rfl
  | cons p m ih =>
    show (p.1, canon p.2) :: (i2lErase (copyI2l m) p.1).map (fun p => (p.1, canon p.2)) = _
    rw [i2lErase_toV, ih]
    rfl

theorem copy_factors (k : KState) : k.copy.toV = k.toV.copy := by
  simp only [copy, toV, VState.copy, copyL2i_toV, copyI2l_toV]

theorem pickle_factors (k : KState) : k.pickleRoundTrip.toV = k.toV.pickleRoundTrip := by
  simp only [pickleRoundTrip, toV, VState.pickleRoundTrip, VState.reduce, VState.setState, copyL2i_toV, copyI2l_toV]

theorem deepcopy_factors (k : KState) : k.deepcopy.toV = k.toV.pickleRoundTrip := pickle_factors k

/-- a lookup in an erased `_index_to_label` -/
theorem i2lGet?_erase (m : List (Nat × PyKey)) (j : Nat) (v : PyKey) :
    i2lGet? (i2lErase m j) v = if pyEq (.int (j : Int)) v then none else i2lGet? m v := by
  induction m with
  | nil => simp [i2lErase, i2lGet?]
  | cons p m ih =>
    obtain ⟨i, l⟩ := p
    by_cases hij : i = j
    · subst hij
      simp only [i2lErase, if_true, ih, i2lGet?]
      split <;> rfl
    · simp only [i2lErase, hij, if_false, i2lGet?, ih]
      by_cases h1 : pyEq (.int (i : Int)) v = true
      · have h2 : pyEq (.int (j : Int)) v = false := by
          cases h2 : pyEq (.int (j : Int)) v with
          | false => rfl
          | true =>
            exfalso
            have e1 := (pyEq_iff _ _).1 h1
            have e2 := (pyEq_iff _ _).1 h2
            rw [← e2] at e1
            simp only [canon, Label.int.injEq] at e1
            omega
        simp [h1, h2]
      · simp [h1]

/-- `dict(d)` keeps, for every key, the object that `d` holds -/
theorem i2lGet?_copy (m : List (Nat × PyKey)) (v : PyKey) : i2lGet? (copyI2l m) v = i2lGet? m v := by
  induction m with
  | nil => rfl
  | cons p m ih =>
    show i2lGet? ((p.1, p.2) :: i2lErase (copyI2l m) p.1) v = _
    simp only [i2lGet?, i2lGet?_erase, ih]
    split <;> simp_all

/-- `copy()`, pickle and `deepcopy` hold the same OBJECT (type and value) at every index -/
theorem copy_same_objects (k : KState) (i : Nat) :
    k.copy.labelAt i = k.labelAt i ∧ k.pickleRoundTrip.labelAt i = k.labelAt i ∧ k.deepcopy.labelAt i = k.labelAt i := by
  simp only [labelAt, copy, pickleRoundTrip, deepcopy, i2lGet?_copy, and_self]

/-! ### `at`, `__iter__`, `__reversed__` -/

/-- on a sound state with empty `_label_to_index` the other dict is empty too: the fast path of `at` is right -/
theorem labelAt_of_range (k : KState) (h : k.toV.Inv) (hr : k.l2i.isEmpty = true) (i : Nat) :
    k.labelAt i = .int (i : Int) := by
  have hV : k.toV.isRange = true := by rw [isRange_toV]; exact hr
  have hnone := (VState.isRange_iff k.toV).1 hV
  unfold labelAt
  cases hg : i2lGet? k.i2l (.int (i : Int)) with
  | none => rfl
  | some l =>
    exfalso
    have := i2lGet?_toV k.i2l (.int (i : Int)) (i : Int) rfl (by omega)
    rw [hg, Option.map_some, Int.toNat_natCast] at this
    have hi := h.i2l_ok i (canon l) this.symm
    rw [hnone] at hi
    exact absurd hi.2.2 (by simp)

theorem at?_factors (k : KState) (h : k.toV.Inv) (idx : Int) : (k.at? idx).map canon = k.toV.at? idx := by
  unfold at? VState.at?
  have hs : k.toV.stop = k.stop := rfl
  simp only [hs]
  generalize (if idx < 0 then (k.stop : Int) + idx else idx) = i
  by_cases hin : 0 ≤ i ∧ i < (k.stop : Int)
  · simp only [hin, and_self, if_true, Option.map_some, Option.some.injEq]
    rw [← labelAt_factors]
    cases hr : k.l2i.isEmpty with
    | true => simp [labelAt_of_range k h hr]
    | false => simp
  · simp only [hin, if_false, Option.map_none]

theorem at?_natCast (k : KState) (h : k.toV.Inv) (i : Nat) (hi : i < k.stop) : k.at? (i : Int) = some (k.labelAt i) := by
  unfold at?
  have h1 : ¬ ((i : Int) < 0) := by omega
  have h2 : (0 : Int) ≤ (i : Int) ∧ (i : Int) < (k.stop : Int) := by omega
  simp only [h1, if_false, h2, and_self, if_true, Int.toNat_natCast, Option.some.injEq]
  cases hr : k.l2i.isEmpty with
  | true => simp [labelAt_of_range k h hr]
  | false => simp

/-- `__iter__` (both branches) yields the stored objects in index order -/
theorem iterObjs_eq (k : KState) (h : k.toV.Inv) : k.iterObjs = (List.range k.stop).map k.labelAt := by
  unfold iterObjs
  split
  · rename_i hr
    apply List.map_congr_left
    intro i _
    exact (labelAt_of_range k h hr i).symm
  · apply VState.filterMap_eq_map_of
    intro i hi
    exact at?_natCast k h i (List.mem_range.mp hi)

/-- iteration over objects, canonicalised, is the list of labels -/
theorem iterObjs_canon (k : KState) (h : k.toV.Inv) : k.iterObjs.map canon = k.toV.abs := by
  rw [iterObjs_eq k h, List.map_map, ← abs_factors]
  rfl

/-- `reversed(v)` is the reversed iteration -/
theorem reversedObjs_eq (k : KState) (h : k.toV.Inv) : k.reversedObjs = k.iterObjs.reverse := by
  rw [iterObjs_eq k h, ← List.map_reverse]
  unfold reversedObjs
  apply VState.filterMap_eq_map_of
  intro i hi
  exact at?_natCast k h i (List.mem_range.mp (List.mem_reverse.mp hi))

/-- membership over objects is membership of the canonical label in the list -/
theorem count_iff_mem (k : KState) (h : k.toV.Inv) (v : PyKey) : k.count v = true ↔ canon v ∈ k.toV.abs := by
  rw [count_factors k h v]; exact VState.count_iff k.toV h (canon v)

theorem memO_iff (o : List PyKey) (x : PyKey) : memO o x = true ↔ canon x ∈ o.map canon := by
  simp only [memO, List.any_eq_true, pyEq_iff, List.mem_map]

/-! ### slicing -/

theorem getSlice_fold_factors (k : KState) (h : k.toV.Inv) (idx : List Nat) : ∀ (acc : Option KState),
    (∀ n, acc = some n → n.toV.Inv) →
    (idx.foldl (fun acc (i : Nat) => acc.bind fun n => (k.at? (i : Int)).bind fun l => n.appendP (some l) false) acc).map toV
      = idx.foldl (fun acc (i : Nat) => acc.bind fun n => (k.toV.at? (i : Int)).bind fun l => n.appendP (some l) false)
          (acc.map toV) ∧
    ∀ n, idx.foldl (fun acc (i : Nat) => acc.bind fun n => (k.at? (i : Int)).bind fun l => n.appendP (some l) false) acc
      = some n → n.toV.Inv := by
  induction idx with
  | nil => intro acc hacc; exact ⟨rfl, hacc⟩
  | cons i idx ih =>
    intro acc hacc
    simp only [List.foldl_cons]
    have key : (acc.bind fun n => (k.at? (i : Int)).bind fun l => n.appendP (some l) false).map toV
        = (acc.map toV).bind fun n => (k.toV.at? (i : Int)).bind fun l => n.appendP (some l) false := by
      cases acc with
      | none => rfl
      | some n =>
        have hn := hacc n rfl
        simp only [Option.bind_some, Option.map_some]
        rw [← at?_factors k h]
        cases k.at? (i : Int) with
        | none => rfl
        | some l =>
          simp only [Option.bind_some, Option.map_some]
          exact appendP_factors n hn (some l) false
    have hinv : ∀ n', (acc.bind fun n => (k.at? (i : Int)).bind fun l => n.appendP (some l) false) = some n' → n'.toV.Inv := by
      intro n' e
      cases acc with
      | none => simp at e
      | some n =>
        simp only [Option.bind_some] at e
        cases hl : k.at? (i : Int) with
        | none => rw [hl] at e; simp at e
        | some l =>
          rw [hl, Option.bind_some] at e
          exact appendP_inv n (hacc n rfl) (some l) false n' e
    have := ih _ hinv
    rw [key] at this
    exact this

/-- `v[slice]` over objects abstracts to the label-level slice; the result is sound -/
theorem getSlice_factors (k : KState) (h : k.toV.Inv) (sl : SSM.PySlice) :
    (k.getSlice sl).map toV = k.toV.getSlice sl ∧ ∀ k', k.getSlice sl = some k' → k'.toV.Inv := by
  unfold getSlice VState.getSlice
  have hs : k.toV.stop = k.stop := rfl
  rw [hs]
  cases SSM.sliceIndices sl k.stop with
  | none => exact ⟨rfl, fun _ e => by simp at e⟩
  | some idx =>
    have := getSlice_fold_factors k h idx (some empty) (fun n e => by
      have : n = empty := by simpa using e.symm
      subst this; exact VState.inv_empty)
    exact this

/-! ### `==` -/

theorem zipWith_pyEq_canon : ∀ (a b : List PyKey),
    List.zipWith pyEq a b = List.zipWith (fun x y => decide (x = y)) (a.map canon) (b.map canon)
  | [], _ => by simp
  | _ :: _, [] => by simp
  | x :: a, y :: b => by
    simp only [List.zipWith_cons_cons, List.map_cons, pyEq_eq_decide, zipWith_pyEq_canon a b]

def KOther.canon : KOther → VState.Other
  | .seq l => .seq (l.map PyKey.canon)
  | .set l => .set (l.map PyKey.canon)
  | .other => .other

theorem filter_canon (l : List PyKey) (p : PyKey → Bool) (q : Label → Bool) (hpq : ∀ x, p x = q (canon x)) :
    (l.filter p).map canon = (l.map canon).filter q := by
  induction l with
  | nil => rfl
  | cons x l ih =>
    simp only [List.filter_cons, List.map_cons, hpq x]
    split <;> simp [ih]

/-- `v == other` over objects is the label-level `==` of the canonicalised operand -/
theorem eqOther_factors (k : KState) (h : k.toV.Inv) (o : KOther) : k.eqOther o = k.toV.eqOther o.canon := by
  cases o with
  | seq o =>
    simp only [eqOther, VState.eqOther, KOther.canon, VState.len, List.length_map, zipWith_pyEq_canon,
      iterObjs_canon k h, VState.iter_eq_abs k.toV h]
    rfl
  | set o =>
    simp only [eqOther, VState.eqOther, KOther.canon, VState.iter_eq_abs k.toV h]
    have e1 : (k.iterObjs.filter fun x => !(memO o x)).map canon
        = k.toV.abs.filter fun x => !(o.map canon).contains x := by
      rw [← iterObjs_canon k h]
      apply filter_canon
      intro x
      congr 1
      rw [Bool.eq_iff_iff, memO_iff, List.contains_iff_mem]
    have e2 : (o.filter fun x => !(k.count x)).map canon
        = (o.map canon).filter fun x => !k.toV.contains x := by
      apply filter_canon
      intro x
      simp only [VState.contains, count_factors k h x]
    rw [← e1, ← e2, ← List.map_append, List.isEmpty_map]
  | other => rfl

/-! ### histories over the whole object-level alphabet -/

def KOp3.WF : KOp3 → Prop
  | .base op => op.toOp.WF
  | _ => True

theorem step3_factors (k : KState) (h : k.toV.Inv) (op : KOp3) (hwf : op.WF) :
    ((k.step3 op).1.toV, (k.step3 op).2) = k.toV.step2 op.toOp2 ∧ (k.step3 op).1.toV.Inv := by
  cases op with
  | base op =>
    have hs := step2_factors k h op hwf
    refine ⟨hs, ?_⟩
    have h1 : (k.step2 op).1.toV = (k.toV.step op.toOp).1 := congrArg Prod.fst hs
    show (k.step2 op).1.toV.Inv
    rw [h1]
    exact (VState.step_refines k.toV h op.toOp hwf).1
  | extend vs p => exact extend_factors vs p k h
  | copy =>
    refine ⟨by simp only [step3, VState.step2, KOp3.toOp2, copy_factors], ?_⟩
    show k.copy.toV.Inv
    rw [copy_factors]; exact (VState.copy_spec k.toV h).1
  | pickle =>
    refine ⟨by simp only [step3, VState.step2, KOp3.toOp2, pickle_factors], ?_⟩
    show k.pickleRoundTrip.toV.Inv
    rw [pickle_factors]; exact (VState.pickle_spec k.toV h).1
  | deepcopy =>
    refine ⟨by simp only [step3, VState.step2, KOp3.toOp2, deepcopy_factors], ?_⟩
    show k.deepcopy.toV.Inv
    rw [deepcopy_factors]; exact (VState.pickle_spec k.toV h).1
  | slice sl =>
    obtain ⟨h1, h2⟩ := getSlice_factors k h sl
    simp only [step3, VState.step2, KOp3.toOp2]
    rw [← h1]
    cases e : k.getSlice sl with
    | none => exact ⟨rfl, h⟩
    | some k' => exact ⟨rfl, h2 k' e⟩

theorem history3_factors (ops : List KOp3) : ∀ (k : KState), k.toV.Inv → (∀ op ∈ ops, op.WF) →
    (ops.foldl (fun k op => (k.step3 op).1) k).toV = (ops.map KOp3.toOp2).foldl (fun s op => (s.step2 op).1) k.toV ∧
    (ops.foldl (fun k op => (k.step3 op).1) k).toV.Inv := by
  induction ops with
  | nil => intro k h _; exact ⟨rfl, h⟩
  | cons op ops ih =>
    intro k h hwf
    obtain ⟨hs, hI⟩ := step3_factors k h op (hwf op List.mem_cons_self)
    have h1 : (k.step3 op).1.toV = (k.toV.step2 op.toOp2).1 := congrArg Prod.fst hs
    obtain ⟨e, hI'⟩ := ih (k.step3 op).1 hI (fun o ho => hwf o (List.mem_cons_of_mem _ ho))
    simp only [List.foldl_cons, List.map_cons]
    exact ⟨by rw [e, h1], hI'⟩

end KState
