import DimodProofs.Adj
import DimodProofs.BqmLists

/-! The model's `Bqm.nbhAdd … false` *is* the prototype `Nbh.addAt` of `DimodProofs/Adj.lean`; its
    sortedness lemma is `Nbh.sorted_addAt`, and over `Int` the coefficient law is `Nbh.coef_addAt`. -/

namespace Bqm

theorem nbhAdd_false_eq_addAt (nb : List (Nat × Rat)) (v : Nat) (b : Rat) : nbhAdd nb v b false = Nbh.addAt nb v b := by
  induction nb with
  | nil => rfl
  | cons p t ih =>
    obtain ⟨w, c⟩ := p
    simp only [nbhAdd, Nbh.addAt, ih]
    rfl

/-- sortedness of the add case, obtained from the prototype lemma -/
theorem sorted_nbhAdd_of_addAt (nb : List (Nat × Rat)) (v : Nat) (b : Rat) (h : NbSorted nb) : NbSorted (nbhAdd nb v b false) := by
  rw [nbhAdd_false_eq_addAt]
  exact Nbh.sorted_addAt nb v b h

end Bqm
