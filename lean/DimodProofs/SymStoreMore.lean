import DimodProofs.SymStore

/-! C06 `operands_unchanged`, the remaining non-in-place forms: `quicksum`, `** 2`, and the operators of the CQM
    expression views (`view ± model`, `view ± number`, `model ± view`, `number − view`). -/

namespace Sym

theorem quicksum_writes_fresh (first : Nat) (rest : List Nat) (n : Nat) : WritesFresh n (progQuicksum first rest n) = true := by
  simp [WritesFresh, progQuicksum, Instr.target, List.all_map]

/-- the bodies of the remaining non-in-place forms, for operands at `a`, `b`, further quicksum items `rest`, a number `q`,
    first free position `n` -/
def moreNonInplacePrograms (a b : Nat) (rest : List Nat) (q : Rat) (n : Nat) : List (List Instr) :=
  [progQuicksum a rest n, progQuicksumPromote a b n, progPow2 a n,
   progViewAdd a b n, progViewAddBqm a b n, progViewSub a b n, progViewSubBqm a b n, progViewAddNum a q n,
   progViewRadd a b n, progViewRsub a b n, progViewRsubNum a q n]

theorem more_write_fresh (a b : Nat) (rest : List Nat) (q : Rat) (n : Nat) :
    ∀ p ∈ moreNonInplacePrograms a b rest q n, WritesFresh n p = true := by
  intro p hp
  simp only [moreNonInplacePrograms, List.mem_cons, List.not_mem_nil, or_false] at hp
  rcases hp with rfl | rfl | rfl | rfl | rfl | rfl | rfl | rfl | rfl | rfl | rfl
  · exact quicksum_writes_fresh a rest n
  all_goals
    simp [WritesFresh, Instr.target, progQuicksumPromote, progPow2, progMulSame, progViewAdd, progViewAddBqm, progViewSub,
      progViewSubBqm, progViewAddNum, progViewRadd, progViewRsub, progViewRsubNum, progAddSame, progSubSame, progRsubNum]

/-- `quicksum` with in-place accumulation computes the left fold of `update` over a copy of the first item -/
theorem exec_quicksum_two (h : Store) (a b : Nat) (x y : Model) (ha : h[a]? = some x) (hb : h[b]? = some y) :
    (exec h (progQuicksum a [b] h.length)).map (fun h' => h'[h.length]?) = (upd x y).map some := by
  have hbl : b < h.length := by
    rcases Nat.lt_or_ge b h.length with h1 | h1
    · exact h1
    · rw [List.getElem?_eq_none h1] at hb; simp at hb
  simp only [progQuicksum, List.map_cons, List.map_nil, exec, step, ha]
  have h1 : (h ++ [x])[h.length]? = some x := by simp
  have h2 : (h ++ [x])[b]? = some y := by rw [List.getElem?_append_left hbl]; exact hb
  simp only [h1, h2]
  cases hu : upd x y with
  | error e => simp [Except.map]
  | ok m => simp [Except.map, setAt]

end Sym
