import DimodModel.EnumComposite
import DimodProofs.EnumPoly
import DimodProofs.EnumPost

/-! C07: `PolyScaleComposite` with `scalar=None` (normalisation), every branch of
    `PolyFixedVariableComposite.sample_poly`, the `n < 1` refusal of the truncating composites. -/

namespace Enum

/-! ### scaling without ignored terms is a `map` -/

theorem polyScale_nil (s : Rat) (p : Poly) : polyScale s [] p = p.map fun t => (t.1, s * t.2) := by
  unfold polyScale
  apply List.map_congr_left
  intro t _
  obtain ⟨k, v⟩ := t
  simp

theorem polyScale_one_nil (p : Poly) : polyScale 1 [] p = p := by
  rw [polyScale_nil]
  induction p with
  | nil => rfl
  | cons a t ih => obtain ⟨k, v⟩ := a; simp only [List.map_cons, one_mul] at ih ⊢; rw [ih]

theorem polyEnergy_all_zero (x : Label → Rat) (p : Poly) (h : ∀ t ∈ p, t.2 = 0) : polyEnergy x p = 0 := by
  induction p with
  | nil => rfl
  | cons a t ih =>
    obtain ⟨k, v⟩ := a
    have hv : v = 0 := h (k, v) List.mem_cons_self
    simp only [polyEnergy, hv, zero_mul, zero_add]
    exact ih (fun t' ht => h t' (List.mem_cons_of_mem _ ht))

/-- `poly[v]` on a copy whose biases were rewritten key by key: with distinct keys (a `dict`) the entry found under
    the key of `(k, b)` is the rewritten `(k, b)` -/
theorem polyLookup_map (f : Rat → Rat) (p : Poly) (hk : (p.map (·.1)).Nodup) (k : List Label) (b : Rat) (hm : (k, b) ∈ p) :
    polyLookup (p.map fun t => (t.1, f t.2)) k = f b := by
  induction p with
  | nil => simp at hm
  | cons a t ih =>
    obtain ⟨k', v'⟩ := a
    simp only [List.map_cons, List.nodup_cons] at hk
    rcases List.mem_cons.mp hm with h | h
    · cases h
      simp [polyLookup, List.find?]
    · have hne : k' ≠ k := by
        intro e
        apply hk.1
        rw [e]
        exact List.mem_map.mpr ⟨(k, b), h, rfl⟩
      have := ih hk.2 h
      simp only [polyLookup, List.map_cons, List.find?, hne, decide_false] at this ⊢
      exact this

/-- the recovered scalar divides the child's energy of the scaled polynomial back to the submitted polynomial's -/
theorem recovered_energy (p : Poly) (hk : (p.map (·.1)).Nodup) (s : Rat) (hs : s ≠ 0) (x : Label → Rat) :
    polyEnergy x (polyScale s [] p) / recoveredScalar [] p (polyScale s [] p) = polyEnergy x p := by
  rw [polyEnergy_scale]
  unfold recoveredScalar
  cases hf : p.find? (fun t => t.2 ≠ 0 ∧ ¬ ([] : List (List Label)).any (sameSet t.1)) with
  | none =>
    have hz : ∀ t ∈ p, t.2 = 0 := by
      intro t ht
      have := List.find?_eq_none.mp hf t ht
      simpa using this
    simp [polyEnergy_all_zero x p hz]
  | some kb =>
    obtain ⟨k, b⟩ := kb
    have hm : (k, b) ∈ p := List.mem_of_find?_eq_some hf
    have hb : b ≠ 0 := by
      have := List.find?_some hf
      simpa using this
    simp only
    rw [polyScale_nil, polyLookup_map (fun v => s * v) p hk k b hm]
    field_simp

/-! ### `normalize` -/

theorem polyNormalize_cases (br : RangeArg) (pr : Option RangeArg) (ign : List (List Label)) (p scaled : Poly)
    (h : polyNormalize br pr ign p = some scaled) : scaled = p ∨ ∃ s, s ≠ 0 ∧ scaled = polyScale s ign p := by
  unfold polyNormalize at h
  simp only at h
  split at h
  · cases h
  · rename_i inv _
    by_cases hi : inv ≠ 0
    · rw [if_pos hi] at h
      cases h
      exact Or.inr ⟨1 / inv, by simpa using hi, rfl⟩
    · rw [if_neg hi] at h
      cases h
      exact Or.inl rfl

/-- the range ends after `parse_range` / the `poly_range is None` default -/
def rangeEnds (br : RangeArg) (pr : Option RangeArg) : (Rat × Rat) × (Rat × Rat) :=
  (parseRange br, match pr with | none => parseRange br | some r => parseRange r)

theorem invScalar_none_iff (linR polyR : Rat × Rat) (ign : List (List Label)) (p : Poly) :
    invScalar linR polyR ign p = none ↔ (linR.1 = 0 ∨ linR.2 = 0 ∨ polyR.1 = 0 ∨ polyR.2 = 0) := by
  unfold invScalar
  by_cases hz : (linR.1 = 0 ∨ linR.2 = 0 ∨ polyR.1 = 0 ∨ polyR.2 = 0)
  · simp [hz]
  · simp [hz]

theorem polyNormalize_none_iff (br : RangeArg) (pr : Option RangeArg) (ign : List (List Label)) (p : Poly) :
    polyNormalize br pr ign p = none ↔
      ((rangeEnds br pr).1.1 = 0 ∨ (rangeEnds br pr).1.2 = 0 ∨ (rangeEnds br pr).2.1 = 0 ∨ (rangeEnds br pr).2.2 = 0) := by
  have key := invScalar_none_iff (rangeEnds br pr).1 (rangeEnds br pr).2 ign p
  have hu : polyNormalize br pr ign p =
      match invScalar (rangeEnds br pr).1 (rangeEnds br pr).2 ign p with
      | none => none
      | some inv => if inv ≠ 0 then some (polyScale (1 / inv) ign p) else some p := rfl
  rw [hu, ← key]
  cases invScalar (rangeEnds br pr).1 (rangeEnds br pr).2 ign p with
  | none => simp
  | some inv => by_cases hinv : inv = 0 <;> simp [hinv]

/-- C07 `polyscale_normalize`: the whole `scalar=None` path returns rows with the submitted polynomial's energy -/
theorem polyNormalizeSample_energy (child : Poly → List Row) (p : Poly) (hk : (p.map (·.1)).Nodup)
    (hchild : ∀ q, ∀ r ∈ child q, r.energy = polyEnergy r.val q)
    (br : RangeArg) (pr : Option RangeArg) (ign : List (List Label)) (out : List Row)
    (h : polyNormalizeSample child p br pr ign = some out) : ∀ r ∈ out, r.energy = polyEnergy r.val p := by
  unfold polyNormalizeSample at h
  cases hn : polyNormalize br pr ign p with
  | none => rw [hn] at h; cases h
  | some scaled =>
    rw [hn] at h
    simp only at h
    cases ign with
    | cons a t =>
      simp only [List.isEmpty_cons, Bool.false_eq_true, if_false, Option.some.injEq] at h
      subst h
      intro r hr
      obtain ⟨r0, _, rfl⟩ := List.mem_map.mp hr
      rfl
    | nil =>
      simp only [List.isEmpty_nil, if_true, Option.some.injEq] at h
      subst h
      intro r hr
      obtain ⟨r0, hr0, rfl⟩ := List.mem_map.mp hr
      show r0.energy / recoveredScalar [] p scaled = polyEnergy r0.val p
      have hs : ∃ s, s ≠ 0 ∧ scaled = polyScale s [] p := by
        rcases polyNormalize_cases br pr [] p scaled hn with h1 | h1
        · exact ⟨1, one_ne_zero, by rw [polyScale_one_nil]; exact h1⟩
        · exact h1
      obtain ⟨s, hs0, rfl⟩ := hs
      rw [hchild _ r0 hr0]
      exact recovered_energy p hk s hs0 r0.val

theorem polyNormalizeSample_none_iff (child : Poly → List Row) (p : Poly) (br : RangeArg) (pr : Option RangeArg)
    (ign : List (List Label)) :
    polyNormalizeSample child p br pr ign = none ↔ polyNormalize br pr ign p = none := by
  unfold polyNormalizeSample
  cases polyNormalize br pr ign p with
  | none => simp
  | some q => simp only [reduceCtorEq, iff_false]; split <;> simp

/-! ### `PolyFixedVariableComposite.sample_poly`, every branch -/

theorem polyFixedFull_spec (child : Poly → List Row) (p : Poly) (fixed : Option (List (Label × Rat)))
    (hp : ∀ t ∈ p, t.1.Nodup) (hc : OneConst p)
    (hchild : ∀ q, ∀ r ∈ child q, r.energy = polyEnergy r.val q)
    (hdisj : ∀ fx, fixed = some fx → ∀ q, ∀ r ∈ child q, ∀ f ∈ fx, r.x.find? (fun e => e.1 = f.1) = none) :
    ∀ r ∈ polyFixedFull child p fixed,
      r.energy = polyEnergy r.val p ∧
      ∀ fx, fixed = some fx → ∀ l e, fx.find? (fun p => p.1 = l) = some e → r.val l = e.2 := by
  intro r hr
  cases fixed with
  | none =>
    exact ⟨hchild p r hr, fun fx h => by cases h⟩
  | some fx =>
    unfold polyFixedFull at hr
    simp only at hr
    by_cases h1 : (child (fixVariables true p fx)).length ≠ 0
    · rw [if_pos h1] at hr
      have hr' : r ∈ polyFixedSample true child p fx := hr
      refine ⟨polyfixed_energy child p fx hp hc hchild (hdisj fx rfl) r hr', ?_⟩
      intro fx' e'
      cases e'
      exact polyfixed_columns child p fx (hdisj fx rfl) r hr'
    · rw [if_neg h1] at hr
      by_cases h2 : (!fx.isEmpty && polyNoVars (fixVariables true p fx)) = true
      · rw [if_pos h2] at hr
        have : r = ⟨fx, polyEnergy (assignVal fx) p⟩ := by simpa using hr
        subst this
        refine ⟨rfl, ?_⟩
        intro fx' e' l e hf
        cases e'
        simp [Row.val, hf]
      · rw [if_neg h2] at hr
        by_cases h3 : (!fx.isEmpty) = true
        · rw [if_pos h3] at hr
          simp at hr
        · rw [if_neg h3] at hr
          have hl : (child (fixVariables true p fx)).length = 0 := by simpa using h1
          rw [List.eq_nil_of_length_eq_zero hl] at hr
          simp at hr

/-- the number of rows of each branch -/
theorem polyFixedFull_length (child : Poly → List Row) (p : Poly) (fx : List (Label × Rat)) :
    (polyFixedFull child p none = child p) ∧
    ((child (fixVariables true p fx)).length ≠ 0 →
      (polyFixedFull child p (some fx)).length = (child (fixVariables true p fx)).length) ∧
    ((child (fixVariables true p fx)).length = 0 →
      (polyFixedFull child p (some fx)).length = if !fx.isEmpty && polyNoVars (fixVariables true p fx) then 1 else 0) := by
  refine ⟨rfl, ?_, ?_⟩
  · intro h
    unfold polyFixedFull
    simp only [if_pos h, List.length_map]
  · intro h
    unfold polyFixedFull
    have h' : ¬ (child (fixVariables true p fx)).length ≠ 0 := by simp [h]
    simp only [if_neg h']
    by_cases h2 : (!fx.isEmpty && polyNoVars (fixVariables true p fx)) = true
    · simp [h2]
    · simp only [h2, Bool.false_eq_true, if_false]
      by_cases h3 : (!fx.isEmpty) = true
      · simp [h3]
      · simp only [h3, Bool.false_eq_true, if_false]; exact h

/-! ### `n < 1` -/

theorem truncateInit_spec (n : Int) (b agg : Bool) (rows : List ORow) :
    (n < 1 → truncateInit n b agg rows = .error ()) ∧
    (1 ≤ n → truncateInit n b agg rows = .ok (truncateComposite n.toNat b agg rows)) := by
  unfold truncateInit
  constructor
  · intro h; simp [h]
  · intro h
    have : ¬ n < 1 := by omega
    simp [this]

/-! ### the child sees the same terms and its rows come back with their columns untouched -/

theorem polyScale_keys (s : Rat) (ign : List (List Label)) (p : Poly) : (polyScale s ign p).map (·.1) = p.map (·.1) := by
  unfold polyScale
  rw [List.map_map]
  apply List.map_congr_left
  intro t _
  obtain ⟨k, v⟩ := t
  show (if ign.any (sameSet k) = true then (k, v) else (k, s * v)).1 = k
  split <;> rfl

theorem polyNormalize_keys (br : RangeArg) (pr : Option RangeArg) (ign : List (List Label)) (p scaled : Poly)
    (h : polyNormalize br pr ign p = some scaled) : scaled.map (·.1) = p.map (·.1) := by
  rcases polyNormalize_cases br pr ign p scaled h with h1 | ⟨s, _, h1⟩
  · rw [h1]
  · rw [h1, polyScale_keys]

theorem polyNormalizeSample_columns (child : Poly → List Row) (p : Poly) (br : RangeArg) (pr : Option RangeArg)
    (ign : List (List Label)) (out : List Row) (h : polyNormalizeSample child p br pr ign = some out) :
    ∃ scaled, polyNormalize br pr ign p = some scaled ∧ out.map (·.x) = (child scaled).map (·.x) := by
  unfold polyNormalizeSample at h
  cases hn : polyNormalize br pr ign p with
  | none => rw [hn] at h; cases h
  | some scaled =>
    rw [hn] at h
    refine ⟨scaled, rfl, ?_⟩
    simp only at h
    by_cases he : ign.isEmpty = true
    · rw [if_pos he] at h
      cases h
      rw [List.map_map]; rfl
    · rw [if_neg he] at h
      cases h
      rw [List.map_map]; rfl

/-- (for the non-vacuity examples of `Properties/C07.lean`) a child that answers every polynomial with the one row `a = 1, b = -1` and that polynomial's energy of it -/
def demoChild : Poly → List Row := fun q => [⟨[(.str "a", 1), (.str "b", -1)], polyEnergy (Row.val ⟨[(.str "a", 1), (.str "b", -1)], 0⟩) q⟩]

end Enum
